package c17

import (
	"math"
	"strconv"

	"verif/harness/core"
	"verif/harness/taref"
)

// Generator domain exclusions: each corresponds to an open (reported, not yet merged) goja defect; see known-findings.d/C17.json.
// Flip to false once the fix is in /repo.
var (
	// C05's finding (inbox C05-toint-wrap-2p63.md): toInt8..toUint32 and ToInteger are wrong for finite |x| >= 2^63 (int64(f) is undefined
	// there). Element values in the band [2^63, 2^85) are kept out of the workload (index-like arguments >= 2^63 are generated: they only clamp); from 2^85 on every
	// double is a multiple of 2^32, the modular result is 0 and goja agrees.
	exclHugeNumbers = false
	// inbox C17-17-tolocalestring-detach-typeerror.md: %TypedArray%.prototype.toLocaleString throws TypeError when an element's
	// toLocaleString detaches the buffer (spec: the remaining elements are undefined -> empty strings). While open, that TypeError is
	// accepted for the "tls" op (memory-safety monitors stay armed). Set to false once merged.
	tolerateToLocaleDetachTypeError = false
)

type gen struct {
	r        *core.Rng
	x        *exec // model-only executor
	cs       *Case
	nextView int
	nextBuf  int
	nextDV   int
	nextID   int
}

var numTable = []float64{
	0, math.Copysign(0, -1), 1, -1, 2, 3, 5, 7, 100, 127, 128, 129, 255, 256, 257, -127, -128, -129, -255, -256,
	32767, 32768, 65535, 65536, -32768, -32769, 2147483647, 2147483648, 2147483649, -2147483648, -2147483649,
	4294967295, 4294967296, 4294967297, -4294967295, -4294967296, 9007199254740991, 9007199254740992, 9007199254740994, -9007199254740991, -9007199254740992,
	0.5, 1.5, 2.5, 3.5, -0.5, -1.5, 254.5, 255.5, 0.49999999999999994, 0.5000000000000001, 1.4999999999999998, 127.5, 128.5,
	math.NaN(), math.Inf(1), math.Inf(-1), 1e-7, 5e-324, 1.7976931348623157e308, 1e10, 1e15 + 0.5, 4503599627370497.5, 123456.789,
	16777216, 16777217, 16777218, 16777219, 3.4028234663852886e38, 3.4028235677973366e38, 3.4028235677973362e38, 3.5e38,
	1.401298464324817e-45, 7.006492321624085e-46, 7.006492321624087e-46, 2.1019476964872256e-45, 1.1754943508222875e-38, 1.1754942106924411e-38,
}

var hugeTable = []float64{1e21, -1e21, 9223372036854775808, 18446744073709551616, 18446744073709555712, -9223372036854777856, 1e19, 1.5e300}

var bigTable = []string{"0", "1", "-1", "2", "127", "128", "255", "256", "-128", "9223372036854775807", "9223372036854775808", "-9223372036854775808", "-9223372036854775809",
	"18446744073709551615", "18446744073709551616", "18446744073709551621", "1606938044258990275541962092341162602522202993782792835301383", "-18446744073709551617", "4294967296", "1000000007"}

func (g *gen) number() float64 {
	r := g.r
	switch r.PickW([]int{70, 12, 10, 8}) {
	case 0:
		return core.Pick(r, numTable)
	case 1:
		return float64(r.Range(-3, 70))
	case 2:
		f := r.Bits64()
		if a := math.Abs(f); exclHugeNumbers && a >= 9223372036854775808 && a < 38685626227668133590597632 {
			return math.Ldexp(f, -int(math.Ilogb(f))+r.Range(0, 60)) // move out of the band [2^63, 2^85)
		}
		return f
	default:
		if exclHugeNumbers {
			return math.Ldexp(float64(r.Range(1, 1<<20)), r.Range(-30, 40))
		}
		return core.Pick(r, hugeTable)
	}
}

func (g *gen) id() int { g.nextID++; return g.nextID }

// primFor returns a primitive suitable (or deliberately unsuitable) as an element value of type t.
func (g *gen) primFor(t taref.ElemType) Arg {
	r := g.r
	if t.IsBigInt() {
		switch r.PickW([]int{75, 5, 5, 4, 3, 3, 5}) {
		case 0:
			return big_(core.Pick(r, bigTable))
		case 1:
			return Arg{K: "b", B: r.Bool()}
		case 2:
			return str(core.Pick(r, []string{"12", " 0x10 ", "-5", "", "0b11"}))
		case 3:
			return str(core.Pick(r, []string{"abc", "1.5", "1n", "0x"})) // SyntaxError
		case 4:
			return num(float64(r.Range(0, 9))) // TypeError
		case 5:
			return und() // TypeError
		default:
			return big_(strconv.Itoa(r.Range(-300, 300)))
		}
	}
	switch r.PickW([]int{80, 4, 4, 4, 4, 4}) {
	case 0:
		return num(g.number())
	case 1:
		return und()
	case 2:
		return Arg{K: "null"}
	case 3:
		return Arg{K: "b", B: r.Bool()}
	case 4:
		return str(core.Pick(r, []string{"12", " 0x10 ", "-3.5", "", "abc", "1e3", "Infinity", "0b101", " 7 "}))
	default:
		return big_(core.Pick(r, bigTable)) // TypeError for Number arrays
	}
}

func (g *gen) liveBufIDs() []int {
	var out []int
	for _, id := range sortedKeys(g.x.w.Bufs) {
		if !g.x.w.Bufs[id].Detached {
			out = append(out, id)
		}
	}
	return out
}

// effects builds a side-effect list; recvBuf is the buffer id whose detachment is most interesting (-1: none).
func (g *gen) effects(recvBuf int) []Eff {
	r := g.r
	var out []Eff
	n := 1
	if r.Chance(1, 6) {
		n = 2
	}
	for i := 0; i < n; i++ {
		switch r.PickW([]int{32, 8, 30, 8, 22}) {
		case 0:
			if recvBuf >= 0 {
				out = append(out, Eff{K: "detach", B: recvBuf})
				continue
			}
			fallthrough
		case 1:
			ids := sortedKeys(g.x.w.Bufs)
			if len(ids) > 0 {
				out = append(out, Eff{K: "detach", B: core.Pick(r, ids)})
			}
		case 2:
			ids := sortedKeys(g.x.w.Views)
			if len(ids) > 0 {
				vid := core.Pick(r, ids)
				v := g.x.w.Views[vid]
				val := g.primFor(v.Type)
				if v.Type.IsBigInt() {
					val = big_(core.Pick(r, bigTable))
				} else if val.K != "n" {
					val = num(float64(r.Range(0, 300)))
				}
				out = append(out, Eff{K: "store", V: vid, I: r.Range(0, v.Length+1), Val: &val})
			}
		case 3:
			out = append(out, Eff{K: "throw", Err: "URIError"})
		}
	}
	return out
}

// maybeTricky wraps a primitive into an object with side effects with probability p/100.
func (g *gen) maybeTricky(prim Arg, recvBuf int, p int) Arg {
	if g.r.Chance(p, 100) {
		return tricky(g.id(), g.effects(recvBuf), prim)
	}
	return prim
}

func (g *gen) elem(t taref.ElemType, recvBuf int) Arg {
	return g.maybeTricky(g.primFor(t), recvBuf, 9)
}

// index returns an argument used as a relative index / offset for a length n.
func (g *gen) index(n int, recvBuf int) Arg {
	r := g.r
	var a Arg
	switch r.PickW([]int{40, 14, 8, 8, 6, 6, 6, 6, 6}) {
	case 0:
		a = num(float64(r.Range(0, n)))
	case 1:
		a = num(float64(-r.Range(0, n+1)))
	case 2:
		a = num(float64(n + r.Range(1, 3)))
	case 3:
		a = und()
	case 4:
		a = num(core.Pick(r, []float64{math.NaN(), math.Inf(1), math.Inf(-1), math.Copysign(0, -1), 0.5, -0.5, 1.9, -1.9, 2147483648, 4294967296, 4294967297, -4294967296, 9007199254740991, -9007199254740991}))
	case 5:
		a = str(core.Pick(r, []string{"1", "-1", " 2 ", "", "abc", "0x2", "1e1"}))
	case 6:
		a = Arg{K: core.Pick(r, []string{"null", "b"}), B: true}
	case 7:
		a = num(core.Pick(r, hugeTable)) // ToIntegerOrInfinity of |x| >= 2^63 (clamping, not the modular conversions of the C05 finding)
	default:
		a = num(float64(r.Range(0, n)))
	}
	return g.maybeTricky(a, recvBuf, 10)
}

func (g *gen) pickView(pred func(*taref.TypedArray) bool) (int, *taref.TypedArray) {
	ids := sortedKeys(g.x.w.Views)
	var live, all []int
	for _, id := range ids {
		v := g.x.w.Views[id]
		if pred != nil && !pred(v) {
			continue
		}
		all = append(all, id)
		if !v.Buf.Detached {
			live = append(live, id)
		}
	}
	if len(all) == 0 {
		return -1, nil
	}
	pool := all
	if len(live) > 0 && g.r.Chance(85, 100) {
		pool = live
	}
	id := core.Pick(g.r, pool)
	return id, g.x.w.Views[id]
}

func (g *gen) pickBuf(liveOnly bool) int {
	ids := sortedKeys(g.x.w.Bufs)
	if live := g.liveBufIDs(); len(live) > 0 && (liveOnly || g.r.Chance(85, 100)) {
		ids = live
	}
	if len(ids) == 0 {
		return -1
	}
	return core.Pick(g.r, ids)
}

func (g *gen) callback(recvBuf int, n int, rets []Arg) Arg {
	cb := Arg{K: "cb", I: g.id(), At: -1, L: rets}
	if g.r.Chance(28, 100) {
		cb.At = g.r.Range(0, n)
		cb.E = g.effects(recvBuf)
	}
	return cb
}

func (g *gen) comparator(t taref.ElemType, recvBuf int) Arg {
	kinds := []string{"sign", "const0"}
	if !t.IsFloat() {
		kinds = append(kinds, "asc", "desc", "asc", "desc")
	}
	c := Arg{K: "cmp", I: g.id(), S: core.Pick(g.r, kinds)}
	if g.r.Chance(32, 100) {
		c.E = g.effects(recvBuf)
	}
	return c
}

func (g *gen) species(t taref.ElemType, recvBuf int) *Species {
	r := g.r
	kinds := []string{"undefined", "nonobject", "species-undefined", "species-null", "species-notctor"}
	if r.Chance(15, 100) {
		return &Species{Kind: core.Pick(r, kinds)}
	}
	s := &Species{Kind: "species-fn", ID: g.id()}
	if r.Chance(30, 100) {
		s.E = g.effects(recvBuf)
	}
	other := taref.ElemType(r.Intn(int(taref.NumTypes)))
	if r.Chance(60, 100) { // same content type, usually
		for other.IsBigInt() != t.IsBigInt() {
			other = taref.ElemType(r.Intn(int(taref.NumTypes)))
		}
	}
	pt := t
	if r.Chance(55, 100) {
		pt = other
		if r.Chance(45, 100) {
			// same element width, other conversion semantics (Int32/Uint32/Float32, Int8/Uint8/Uint8Clamped, ...): a byte copy
			// instead of the element-wise Get/Set conversion is only visible for these pairs
			var same []taref.ElemType
			for c := taref.ElemType(0); c < taref.NumTypes; c++ {
				if c != t && c.Size() == t.Size() && c.IsBigInt() == t.IsBigInt() {
					same = append(same, c)
				}
			}
			if len(same) > 0 {
				pt = core.Pick(r, same)
			}
		}
	}
	s.T = int(pt)
	switch r.PickW([]int{30, 25, 20, 15, 5}) {
	case 0:
		s.Res = "new"
		s.Delta = core.Pick(r, []int{0, 0, -1, -1, 1, 2, -3})
	case 1:
		s.Res = "view"
		s.Buf = g.pickBuf(false)
		if s.Buf < 0 {
			s.Res = "plain"
			break
		}
		b := g.x.w.Bufs[s.Buf]
		es := pt.Size()
		maxEl := len(b.Data) / es
		o := r.Range(0, maxEl)
		s.Off = o * es
		if r.Chance(5, 100) {
			s.Off++
		}
		s.Len = r.Range(0, maxEl-o)
		if r.Chance(7, 100) {
			s.Len += 2
		}
	case 2:
		s.Res = "existing"
		id, _ := g.pickView(nil)
		if id < 0 {
			s.Res = "plain"
		}
		s.View = id
	case 3:
		s.Res = "detached"
	default:
		s.Res = "plain"
	}
	return s
}

func (g *gen) bufSpecies(recv int) *Species {
	r := g.r
	if r.Chance(15, 100) {
		return &Species{Kind: core.Pick(r, []string{"undefined", "nonobject", "species-undefined", "species-null", "species-notctor"})}
	}
	s := &Species{Kind: "species-fn", ID: g.id()}
	if r.Chance(35, 100) {
		s.E = g.effects(recv)
	}
	switch r.PickW([]int{40, 15, 20, 15, 10}) {
	case 0:
		s.Res = "newbuf"
		s.Delta = core.Pick(r, []int{0, 0, -1, 1, 8, -2})
	case 1:
		s.Res = "samebuf"
	case 2:
		s.Res = "existingbuf"
		s.Buf = g.pickBuf(false)
	case 3:
		s.Res = "detachedbuf"
	default:
		s.Res = "plain"
	}
	return s
}

var hexStrings = []string{"", "00", "ff", "0a1B", "deadbeef", "0", "abc", "zz", "00zz", "0g", "00112233445566778899aabbccddeeff", "12 4", "é0", "0é", "00é00", "１２", "00112233445566778899aabbccddeeff00112233445566778899aabbccddeeff00112233445566778899aabbccddeeff00112233445566778899aabbccddeeffaa"}

var exoticKeys = []string{"-0", "-1", "1.5", "Infinity", "-Infinity", "NaN", "4294967295", "4294967296", "9007199254740991", "1e+21", "1e3", "01", "+1", "1.0", " 1", "0x1", "foo", "-00", "1e21"}

type opGen struct {
	w int
	f func(g *gen) *Op
}

func (g *gen) key(v *taref.TypedArray) string {
	if g.r.Chance(70, 100) {
		return strconv.Itoa(g.r.Range(0, v.Length+1))
	}
	return core.Pick(g.r, exoticKeys)
}

func (g *gen) newView() *Op {
	r := g.r
	bid := g.pickBuf(false)
	if bid < 0 {
		return nil
	}
	b := g.x.w.Bufs[bid]
	t := taref.ElemType(r.Intn(int(taref.NumTypes)))
	es := t.Size()
	maxEl := len(b.Data) / es
	o := r.Range(0, maxEl)
	op := &Op{K: "newView", V: bid, T: int(t), Out: g.nextView, OutB: g.nextBuf}
	switch r.PickW([]int{15, 15, 55, 15}) {
	case 0: // whole buffer
	case 1: // offset only
		op.A = []Arg{g.index(o*es, bid)}
		if op.A[0].K == "n" {
			op.A[0] = num(float64(o * es))
		}
	case 2: // offset + length, every aligned offset/length
		off := o * es
		if r.Chance(4, 100) {
			off += r.Range(1, es)
		}
		l := r.Range(0, maxEl-o)
		if r.Chance(5, 100) {
			l += r.Range(1, 3)
		}
		op.A = []Arg{g.maybeTricky(num(float64(off)), bid, 6), g.maybeTricky(num(float64(l)), bid, 6)}
	default:
		op.A = []Arg{g.index(len(b.Data), bid), g.index(maxEl, bid)}
	}
	return op
}

// overlappingSource (40% of typed-array sources): creates a fresh source view of another element type over the same buffer whose byte
// range overlaps the target's, so that set() has to pick the right copy direction / clone the source. Returns the new view id or -1.
func (g *gen) overlappingSource(v *taref.TypedArray) int {
	r := g.r
	if v.Buf.Detached || v.Length < 2 || !r.Chance(40, 100) {
		return -1
	}
	var cands []taref.ElemType
	for c := taref.ElemType(0); c < taref.NumTypes; c++ {
		if c != v.Type && c.IsBigInt() == v.Type.IsBigInt() && (c.Size() == v.Type.Size() || r.Chance(40, 100)) {
			cands = append(cands, c)
		}
	}
	if len(cands) == 0 {
		return -1
	}
	st := core.Pick(r, cands)
	es, tes := st.Size(), v.Type.Size()
	tb, te := v.ByteOffset, v.ByteOffset+v.Length*tes
	bufLen := len(v.Buf.Data)
	sl := r.Range(1, v.Length*tes/es) // source elements (its converted length must fit into the target)
	if sl > v.Length {
		sl = v.Length
	}
	if sl < 1 {
		return -1
	}
	// source start: somewhere from "ends just inside the target" to "starts just before the target's end"
	lo := tb - sl*es + es
	if lo < 0 {
		lo = 0
	}
	hi := te - es
	if hi+sl*es > bufLen {
		hi = bufLen - sl*es
	}
	lo = (lo + es - 1) / es * es
	hi = hi / es * es
	if hi < lo {
		return -1
	}
	so := lo + r.Intn((hi-lo)/es+1)*es
	id := g.nextView
	g.apply(&Op{K: "newView", V: v.Buf.ID, T: int(st), A: []Arg{num(float64(so)), num(float64(sl))}, Out: id, OutB: g.nextBuf})
	if g.x.w.Views[id] == nil {
		return -1
	}
	return id
}

// speciesUse returns an op on view id that goes through TypedArraySpeciesCreate (used right after a setCtor on that view so that the
// installed species constructor is actually exercised while the view is still alive).
func (g *gen) speciesUse(id int) *Op {
	r := g.r
	v := g.x.w.Views[id]
	if v == nil {
		return nil
	}
	b := v.Buf.ID
	switch r.PickW([]int{40, 25, 20, 15}) {
	case 0:
		op := &Op{K: "slice", V: id, Out: g.nextView, OutB: g.nextBuf}
		if r.Chance(60, 100) {
			lo := r.Range(0, v.Length)
			op.A = []Arg{num(float64(lo)), num(float64(r.Range(lo, v.Length)))}
		} else if r.Chance(60, 100) {
			op.A = []Arg{g.index(v.Length, b), g.index(v.Length, b)}
		}
		return op
	case 1:
		op := &Op{K: "subarray", V: id, Out: g.nextView, OutB: g.nextBuf}
		if r.Chance(80, 100) {
			op.A = []Arg{g.index(v.Length, b), g.index(v.Length, b)}
		}
		return op
	case 2:
		var rets []Arg
		for i := 0; i < 3; i++ {
			rets = append(rets, g.elem(v.Type, b))
		}
		return &Op{K: "map", V: id, A: []Arg{g.callback(b, v.Length, rets)}, Out: g.nextView, OutB: g.nextBuf}
	}
	rets := []Arg{{K: "b", B: true}, {K: "b", B: r.Bool()}, {K: "b", B: true}}
	return &Op{K: "filter", V: id, A: []Arg{g.callback(b, v.Length, rets)}, Out: g.nextView, OutB: g.nextBuf}
}

func (g *gen) ops() []opGen {
	r := g.r
	view := func(f func(id int, v *taref.TypedArray) *Op) func(g *gen) *Op {
		return func(g *gen) *Op {
			id, v := g.pickView(nil)
			if v == nil {
				return nil
			}
			return f(id, v)
		}
	}
	bufOf := func(v *taref.TypedArray) int { return v.Buf.ID }
	iterKinds := []string{"every", "some", "forEach", "find", "findIndex", "findLast", "findLastIndex"}
	return []opGen{
		{8, func(g *gen) *Op { return g.newView() }},
		{3, view(func(id int, v *taref.TypedArray) *Op {
			return &Op{K: "at", V: id, A: []Arg{g.index(v.Length, bufOf(v))}}
		})},
		{7, view(func(id int, v *taref.TypedArray) *Op {
			a := []Arg{g.index(v.Length, bufOf(v)), g.index(v.Length, bufOf(v))}
			if r.Chance(70, 100) {
				a = append(a, g.index(v.Length, bufOf(v)))
			}
			return &Op{K: "copyWithin", V: id, A: a}
		})},
		{8, view(func(id int, v *taref.TypedArray) *Op {
			a := []Arg{g.elem(v.Type, bufOf(v))}
			if r.Chance(70, 100) {
				a = append(a, g.index(v.Length, bufOf(v)))
				if r.Chance(70, 100) {
					a = append(a, g.index(v.Length, bufOf(v)))
				}
			}
			return &Op{K: "fill", V: id, A: a}
		})},
		{4, view(func(id int, v *taref.TypedArray) *Op {
			k := core.Pick(r, []string{"includes", "indexOf", "lastIndexOf"})
			var se Arg
			if v.Length > 0 && !v.Buf.Detached && r.Chance(50, 100) {
				// an element actually present
				el := g.x.w.ExoticGet(v, taref.Key{Numeric: true, Num: float64(r.Intn(v.Length))})
				switch e := el.(type) {
				case float64:
					se = num(e)
				default:
					se = big_(taref.Render(el)[2:])
				}
			} else {
				se = g.primFor(v.Type)
				if r.Chance(10, 100) {
					se = tricky(g.id(), g.effects(bufOf(v)), se) // never coerced
				}
			}
			a := []Arg{se}
			if r.Chance(60, 100) {
				a = append(a, g.index(v.Length, bufOf(v)))
			}
			return &Op{K: k, V: id, A: a}
		})},
		{3, view(func(id int, v *taref.TypedArray) *Op {
			op := &Op{K: "join", V: id}
			if r.Chance(60, 100) {
				op.A = []Arg{g.maybeTricky(core.Pick(r, []Arg{str("-"), str(""), und(), Arg{K: "null"}, num(1.5), str("é|")}), bufOf(v), 35)}
			}
			return op
		})},
		{1, view(func(id int, v *taref.TypedArray) *Op {
			return &Op{K: core.Pick(r, []string{"toString", "toLocaleString"}), V: id}
		})},
		{3, view(func(id int, v *taref.TypedArray) *Op { // toLocaleString with a hostile Number/BigInt.prototype.toLocaleString
			op := &Op{K: "tls", V: id, N: g.id(), At: -1}
			if r.Chance(75, 100) {
				op.At = r.Range(0, v.Length)
				if r.Chance(60, 100) && !v.Buf.Detached {
					op.E = []Eff{{K: "detach", B: bufOf(v)}}
				} else {
					op.E = g.effects(bufOf(v))
				}
			}
			return op
		})},
		{3, view(func(id int, v *taref.TypedArray) *Op { return &Op{K: "reverse", V: id} })},
		{12, view(func(id int, v *taref.TypedArray) *Op { // set
			op := &Op{K: "set", V: id}
			var src Arg
			srcLen := 0
			switch r.PickW([]int{45, 40, 15}) {
			case 0: // typed array source: same / different type, same / different buffer
				if ov := g.overlappingSource(v); ov >= 0 {
					sv := g.x.w.Views[ov]
					src, srcLen = viewRef(ov), sv.Length
					break
				}
				sid, sv := g.pickView(func(s *taref.TypedArray) bool {
					return r.Chance(20, 100) || s.Type.IsBigInt() == v.Type.IsBigInt()
				})
				if sv == nil {
					return nil
				}
				src, srcLen = viewRef(sid), sv.Length
			case 1: // array source
				n := r.Range(0, v.Length+1)
				if n > 12 {
					n = r.Range(0, 12)
				}
				src = Arg{K: "arr"}
				for i := 0; i < n; i++ {
					e := g.elem(v.Type, bufOf(v))
					if e.K == "t" && r.Chance(25, 100) {
						e.E = append(e.E, Eff{K: "shrink", N: r.Range(0, n)})
					}
					src.L = append(src.L, e)
				}
				srcLen = n
			default: // array-like with a coercible length
				n := r.Range(0, 6)
				ln := g.maybeTricky(num(float64(n)), bufOf(v), 50)
				src = Arg{K: "al", Len: &ln}
				for i := 0; i < n; i++ {
					src.L = append(src.L, g.elem(v.Type, bufOf(v)))
				}
				srcLen = n
			}
			op.A = []Arg{src}
			if r.Chance(75, 100) {
				room := v.Length - srcLen
				if room < 0 {
					room = 0
				}
				var off Arg
				if r.Chance(70, 100) {
					off = g.maybeTricky(num(float64(r.Range(0, room))), bufOf(v), 15)
				} else {
					off = g.index(v.Length, bufOf(v))
				}
				op.A = append(op.A, off)
			}
			return op
		})},
		{8, view(func(id int, v *taref.TypedArray) *Op {
			op := &Op{K: "slice", V: id, Out: g.nextView, OutB: g.nextBuf}
			if r.Chance(85, 100) {
				op.A = append(op.A, g.index(v.Length, bufOf(v)))
				if r.Chance(75, 100) {
					op.A = append(op.A, g.index(v.Length, bufOf(v)))
				}
			}
			return op
		})},
		{8, view(func(id int, v *taref.TypedArray) *Op {
			op := &Op{K: "subarray", V: id, Out: g.nextView, OutB: g.nextBuf}
			if r.Chance(90, 100) {
				op.A = append(op.A, g.index(v.Length, bufOf(v)))
				if r.Chance(75, 100) {
					op.A = append(op.A, g.index(v.Length, bufOf(v)))
				}
			}
			return op
		})},
		{6, view(func(id int, v *taref.TypedArray) *Op {
			op := &Op{K: core.Pick(r, []string{"sort", "sort", "toSorted"}), V: id}
			if op.K == "toSorted" {
				op.Out, op.OutB = g.nextView, g.nextBuf
			}
			switch r.PickW([]int{45, 45, 10}) {
			case 1:
				op.A = []Arg{g.comparator(v.Type, bufOf(v))}
			case 2:
				op.A = []Arg{core.Pick(r, []Arg{num(1), str("x"), Arg{K: "obj"}, Arg{K: "null"}})}
			}
			return op
		})},
		{2, view(func(id int, v *taref.TypedArray) *Op {
			return &Op{K: "toReversed", V: id, Out: g.nextView, OutB: g.nextBuf}
		})},
		{4, view(func(id int, v *taref.TypedArray) *Op {
			return &Op{K: "with", V: id, A: []Arg{g.index(v.Length, bufOf(v)), g.elem(v.Type, bufOf(v))}, Out: g.nextView, OutB: g.nextBuf}
		})},
		{4, func(g *gen) *Op { // hex
			id, v := g.pickView(func(s *taref.TypedArray) bool { return s.Type == taref.Uint8 || r.Chance(10, 100) })
			switch r.Intn(3) {
			case 0:
				var a Arg
				switch r.PickW([]int{85, 15}) {
				case 0:
					a = str(core.Pick(r, hexStrings))
				default:
					a = core.Pick(r, []Arg{num(12), und(), Arg{K: "obj"}})
				}
				return &Op{K: "fromHex", A: []Arg{a}, Out: g.nextView, OutB: g.nextBuf}
			case 1:
				if v == nil {
					return nil
				}
				return &Op{K: "toHex", V: id}
			}
			if v == nil {
				return nil
			}
			var a Arg
			if r.Chance(88, 100) {
				a = str(core.Pick(r, hexStrings))
			} else {
				a = core.Pick(r, []Arg{num(12), und(), tricky(g.id(), g.effects(bufOf(v)), str("00"))})
			}
			return &Op{K: "setFromHex", V: id, A: []Arg{a}}
		}},
		{6, view(func(id int, v *taref.TypedArray) *Op { // every/some/...
			rets := []Arg{{K: "b", B: r.Bool()}, {K: "b", B: r.Bool()}, num(float64(r.Intn(2)))}
			a := []Arg{g.callback(bufOf(v), v.Length, rets)}
			if r.Chance(5, 100) {
				a = []Arg{core.Pick(r, []Arg{und(), num(1), Arg{K: "obj"}})}
			}
			return &Op{K: core.Pick(r, iterKinds), V: id, A: a}
		})},
		{4, view(func(id int, v *taref.TypedArray) *Op {
			rets := []Arg{{K: "b", B: true}, {K: "b", B: r.Bool()}, {K: "b", B: true}}
			return &Op{K: "filter", V: id, A: []Arg{g.callback(bufOf(v), v.Length, rets)}, Out: g.nextView, OutB: g.nextBuf}
		})},
		{5, view(func(id int, v *taref.TypedArray) *Op {
			var rets []Arg
			for i := 0; i < 3; i++ {
				rets = append(rets, g.elem(v.Type, bufOf(v)))
			}
			return &Op{K: "map", V: id, A: []Arg{g.callback(bufOf(v), v.Length, rets)}, Out: g.nextView, OutB: g.nextBuf}
		})},
		{3, view(func(id int, v *taref.TypedArray) *Op {
			rets := []Arg{num(float64(r.Range(0, 9))), str("acc"), und()}
			a := []Arg{g.callback(bufOf(v), v.Length, rets)}
			if r.Chance(60, 100) {
				a = append(a, core.Pick(r, []Arg{num(0), und(), str("init")}))
			}
			return &Op{K: core.Pick(r, []string{"reduce", "reduceRight"}), V: id, A: a}
		})},
		{4, view(func(id int, v *taref.TypedArray) *Op {
			op := &Op{K: "iter", V: id, X: core.Pick(r, []string{"keys", "values", "entries", "sym"}), At: -1, N: v.Length + 2}
			if r.Chance(40, 100) {
				op.At = r.Range(0, v.Length+1)
				op.E = g.effects(bufOf(v))
			}
			if r.Chance(20, 100) {
				op.N = r.Range(0, v.Length)
			} else if r.Chance(40, 100) {
				op.Fl = "again" // next() once more after exhaustion (after running the effects again)
				if op.E == nil && r.Bool() {
					op.At = v.Length + 5 // effects only after exhaustion
					op.E = g.effects(bufOf(v))
				}
			}
			return op
		})},
		{1, view(func(id int, v *taref.TypedArray) *Op { return &Op{K: "spread", V: id} })},
		{10, view(func(id int, v *taref.TypedArray) *Op { // exotic get/set/has/delete/define/gopd/keys
			k := g.key(v)
			switch r.PickW([]int{20, 35, 10, 8, 12, 10, 5}) {
			case 0:
				return &Op{K: "get", V: id, X: k}
			case 1:
				return &Op{K: "put", V: id, X: k, A: []Arg{g.elem(v.Type, bufOf(v))}}
			case 2:
				return &Op{K: "has", V: id, X: k}
			case 3:
				return &Op{K: "del", V: id, X: k}
			case 4:
				for !classifyKey(k).Numeric {
					k = strconv.Itoa(r.Range(0, v.Length+1))
				}
				op := &Op{K: "define", V: id, X: k, Fl: core.Pick(r, []string{"", "wec", "w", "W", "E", "C", "a", "wc", "e"})}
				if op.Fl != "a" && r.Chance(85, 100) {
					op.A = []Arg{g.elem(v.Type, bufOf(v))}
				}
				return op
			case 5:
				return &Op{K: "gopd", V: id, X: k}
			}
			return &Op{K: "keys", V: id}
		})},
		{5, func(g *gen) *Op { // constructors without buffer
			t := taref.ElemType(r.Intn(int(taref.NumTypes)))
			op := &Op{T: int(t), Out: g.nextView, OutB: g.nextBuf}
			switch r.PickW([]int{25, 30, 30, 15}) {
			case 0:
				op.K = "newLen"
				if r.Chance(90, 100) {
					op.A = []Arg{core.Pick(r, []Arg{num(float64(r.Range(0, 16))), num(float64(r.Range(0, 16))), num(-1), num(2.7), str("3"), und(), Arg{K: "null"}, num(math.NaN()), Arg{K: "b", B: true}})} // primitives only: an object argument selects the array-like path
				}
			case 1:
				op.K = "newTA"
				sid, _ := g.pickView(nil)
				if sid < 0 {
					return nil
				}
				op.A = []Arg{viewRef(sid)}
			case 2:
				op.K = "newObj"
				n := r.Range(0, 8)
				var src Arg
				if r.Chance(65, 100) {
					src = Arg{K: "arr"}
				} else {
					ln := g.maybeTricky(num(float64(n)), -1, 40)
					src = Arg{K: "al", Len: &ln}
				}
				for i := 0; i < n; i++ {
					src.L = append(src.L, g.elem(t, -1))
				}
				op.A = []Arg{src}
			default:
				op.K = "of"
				n := r.Range(0, 6)
				for i := 0; i < n; i++ {
					op.A = append(op.A, g.elem(t, -1))
				}
			}
			return op
		}},
		{4, func(g *gen) *Op { // %TypedArray%.of / from through a custom constructor that returns an existing (reachable) view
			id, v := g.pickView(nil)
			if v == nil {
				return nil
			}
			n := r.Range(0, v.Length+1)
			if n > 8 {
				n = r.Range(0, 8)
			}
			op := &Op{K: "ofC", V: id, N: g.id()}
			if r.Bool() {
				for i := 0; i < n; i++ {
					op.A = append(op.A, g.elem(v.Type, bufOf(v)))
				}
				return op
			}
			op.K = "fromC"
			var src Arg
			if r.Chance(60, 100) {
				src = Arg{K: "arr"}
			} else {
				ln := g.maybeTricky(num(float64(n)), bufOf(v), 30)
				src = Arg{K: "al", Len: &ln}
			}
			for i := 0; i < n; i++ {
				src.L = append(src.L, g.elem(v.Type, bufOf(v)))
			}
			op.A = []Arg{src}
			if r.Chance(50, 100) {
				var rets []Arg
				for i := 0; i < 3; i++ {
					rets = append(rets, g.elem(v.Type, bufOf(v)))
				}
				op.A = append(op.A, g.callback(bufOf(v), n, rets))
			}
			return op
		}},
		{6, view(func(id int, v *taref.TypedArray) *Op {
			return &Op{K: "setCtor", V: id, Sp: g.species(v.Type, bufOf(v))}
		})},
		{2, func(g *gen) *Op {
			b := g.pickBuf(false)
			if b < 0 {
				return nil
			}
			return &Op{K: "setBufCtor", V: b, Sp: g.bufSpecies(b)}
		}},
		{2, func(g *gen) *Op {
			return &Op{K: "bufNew", A: []Arg{g.maybeTricky(core.Pick(r, []Arg{num(float64(r.Range(0, 64))), num(8), num(16), str("8"), num(-1), und()}), -1, 10)}, OutB: g.nextBuf}
		}},
		{5, func(g *gen) *Op {
			b := g.pickBuf(false)
			if b < 0 {
				return nil
			}
			n := len(g.x.w.Bufs[b].Data)
			op := &Op{K: "bufSlice", V: b, OutB: g.nextBuf}
			if r.Chance(85, 100) {
				op.A = append(op.A, g.index(n, b))
				if r.Chance(75, 100) {
					op.A = append(op.A, g.index(n, b))
				}
			}
			return op
		}},
		{1, func(g *gen) *Op {
			b := g.pickBuf(false)
			if b < 0 {
				return nil
			}
			return &Op{K: "bufLen", V: b}
		}},
		{1, func(g *gen) *Op {
			b := g.pickBuf(true)
			if b < 0 {
				return nil
			}
			return &Op{K: "detach", V: b}
		}},
		{3, func(g *gen) *Op {
			b := g.pickBuf(false)
			if b < 0 {
				return nil
			}
			n := len(g.x.w.Bufs[b].Data)
			op := &Op{K: "dvNew", V: b, Out: g.nextDV}
			switch r.Intn(3) {
			case 1:
				op.A = []Arg{g.index(n, b)}
			case 2:
				o := r.Range(0, n)
				op.A = []Arg{g.maybeTricky(num(float64(o)), b, 8), g.maybeTricky(num(float64(r.Range(0, n-o))), b, 8)}
			}
			return op
		}},
		{14, func(g *gen) *Op { // DataView get/set at every offset x endianness x type
			ids := sortedKeys(g.x.w.DVs)
			if len(ids) == 0 {
				return nil
			}
			id := core.Pick(r, ids)
			d := g.x.w.DVs[id]
			t := taref.ElemType(r.Intn(int(taref.NumTypes)))
			for t == taref.Uint8C {
				t = taref.ElemType(r.Intn(int(taref.NumTypes)))
			}
			var idx Arg
			if r.Chance(75, 100) {
				idx = g.maybeTricky(num(float64(r.Range(0, d.ByteLength))), d.Buf.ID, 10)
			} else {
				idx = g.index(d.ByteLength, d.Buf.ID)
			}
			le := core.Pick(r, []Arg{{K: "b", B: true}, {K: "b", B: false}, und(), num(1), str(""), Arg{K: "obj"}})
			if r.Chance(15, 100) {
				return &Op{K: "dvGeom", V: id}
			}
			if r.Bool() {
				op := &Op{K: "dvGet", V: id, T: int(t), A: []Arg{idx}}
				if r.Chance(80, 100) {
					op.A = append(op.A, le)
				}
				return op
			}
			op := &Op{K: "dvSet", V: id, T: int(t), A: []Arg{idx, g.elem(t, d.Buf.ID)}}
			if r.Chance(80, 100) {
				op.A = append(op.A, le)
			}
			return op
		}},
		{8, func(g *gen) *Op { // Go-side aliasing probes
			switch r.PickW([]int{30, 35, 15, 10, 10}) {
			case 0:
				b := g.pickBuf(true)
				if b < 0 || len(g.x.w.Bufs[b].Data) == 0 {
					return nil
				}
				n := len(g.x.w.Bufs[b].Data)
				off := r.Intn(n)
				l := r.Range(1, 8)
				if off+l > n {
					l = n - off
				}
				raw := make([]byte, l)
				for i := range raw {
					raw[i] = byte(r.U64())
				}
				return &Op{K: "goWrite", V: b, N: off, Raw: raw, X: core.Pick(r, []string{"slab", "bytes"})}
			case 1:
				id, _ := g.pickView(nil)
				if id < 0 {
					return nil
				}
				raw := make([]byte, 8)
				for i := range raw {
					raw[i] = byte(r.U64())
				}
				return &Op{K: "goExport", V: id, N: r.Intn(64), Raw: raw}
			case 2:
				id, _ := g.pickView(nil)
				if id < 0 {
					return nil
				}
				return &Op{K: "goExportTo", V: id, N: r.Intn(64), Raw: []byte{byte(r.U64())}}
			case 3:
				b := g.pickBuf(false)
				if b < 0 {
					return nil
				}
				return &Op{K: "goExportToBuf", V: b, N: r.Intn(64), Raw: []byte{byte(r.U64())}}
			}
			ids := sortedKeys(g.x.w.DVs)
			if len(ids) == 0 {
				return nil
			}
			return &Op{K: "goExportToDV", V: core.Pick(r, ids), N: r.Intn(64), Raw: []byte{byte(r.U64())}}
		}},
	}
}

// apply runs the op on the generator's model world so that later ops can be chosen relative to the real state.
func (g *gen) apply(op *Op) {
	x := g.x
	if isGoOp(op.K) {
		switch op.K {
		case "goWrite":
			if m := x.w.Bufs[op.V]; m != nil && !m.Detached && op.N+len(op.Raw) <= len(m.Data) {
				m.StoreBytes(op.N, op.Raw)
			}
		case "goExport":
			if v := x.w.Views[op.V]; v != nil && !v.Buf.Detached && v.Length > 0 {
				es := v.Type.Size()
				raw := make([]byte, es)
				copy(raw, op.Raw)
				v.Buf.StoreBytes(v.ByteOffset+(op.N%v.Length)*es, raw)
			}
		}
		g.cs.Ops = append(g.cs.Ops, *op)
		return
	}
	exp, thr, ok := x.modelOp(op)
	if !ok {
		return
	}
	if thr == nil {
		x.modelRegister(op, exp)
	}
	x.w.Log = x.w.Log[:0]
	g.cs.Ops = append(g.cs.Ops, *op)
	// advance slot counters past anything this op may have created
	for g.x.w.Views[g.nextView] != nil {
		g.nextView++
	}
	for g.x.w.Bufs[g.nextBuf] != nil {
		g.nextBuf++
	}
	for g.x.w.DVs[g.nextDV] != nil {
		g.nextDV++
	}
}

var bufSizes = []int{0, 1, 2, 3, 4, 5, 7, 8, 8, 9, 12, 15, 16, 16, 17, 24, 24, 31, 32, 32, 33, 40, 48, 56, 63, 64, 64}

func genCase(c *core.Ctx) *Case {
	r := c.Rng
	g := &gen{r: r, cs: &Case{}}
	g.x = &exec{c: c, st: core.NewStats(), cs: g.cs, w: taref.NewWorld()}
	g.x.w.LittleEndian = nativeLittle
	nb := r.PickW([]int{0, 40, 40, 20})
	for i := 0; i < nb; i++ {
		s := BufSpec{ID: i}
		if r.Chance(70, 100) {
			s.N = core.Pick(r, bufSizes)
		} else {
			s.N = r.Range(0, 64)
		}
		if (c.Index+i)%2 == 0 { // half supplied by Go, half allocated by script
			s.Go = true
			s.Pre = 8 * r.Range(1, 3)
			if r.Chance(50, 100) {
				s.Pre += r.Range(1, 7) // unaligned start
			}
			s.Post = r.Range(8, 24)
			s.Cap3 = r.Bool()
			s.Salt = r.Intn(200)
			s.Init = make([]byte, s.N)
			for j := range s.Init {
				s.Init[j] = byte(r.U64())
			}
		}
		g.cs.Bufs = append(g.cs.Bufs, s)
		mb := taref.NewBuffer(s.N)
		mb.ID = s.ID
		if s.Go {
			mb.StoreBytes(0, s.Init)
		}
		g.x.w.Bufs[s.ID] = mb
	}
	g.nextBuf = nb
	// initial views and data views
	for i, n := 0, r.Range(2, 5); i < n; i++ {
		if op := g.newView(); op != nil {
			g.apply(op)
		}
	}
	for i, n := 0, r.Range(0, 2); i < n; i++ {
		b := g.pickBuf(true)
		if b >= 0 {
			l := len(g.x.w.Bufs[b].Data)
			o := r.Range(0, l)
			op := &Op{K: "dvNew", V: b, Out: g.nextDV}
			if r.Bool() {
				op.A = []Arg{num(float64(o)), num(float64(r.Range(0, l-o)))}
			}
			g.apply(op)
		}
	}
	table := g.ops()
	weights := make([]int, len(table))
	for i, o := range table {
		weights[i] = o.w
	}
	nops := r.Range(6, 25)
	for tries := 0; len(g.cs.Ops) < nops+6 && tries < 80; tries++ {
		if len(g.liveBufIDs()) == 0 && r.Chance(70, 100) {
			// everything is detached: allocate again so that the rest of the sequence is not only TypeErrors
			g.apply(&Op{K: "bufNew", A: []Arg{num(float64(core.Pick(r, bufSizes)))}, OutB: g.nextBuf})
			if op := g.newView(); op != nil {
				g.apply(op)
			}
			continue
		}
		if op := table[r.PickW(weights)].f(g); op != nil {
			g.apply(op)
			if op.K == "setCtor" && r.Chance(65, 100) {
				if f := g.speciesUse(op.V); f != nil {
					g.apply(f)
				}
			}
		}
	}
	if len(g.cs.Ops) > 25 {
		g.cs.Ops = g.cs.Ops[:25]
	}
	return g.cs
}
