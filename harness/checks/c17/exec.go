package c17

import (
	"bytes"
	"fmt"
	"math"
	"reflect"
	"runtime/debug"
	"sort"
	"strconv"
	"strings"
	"unsafe"

	"github.com/dop251/goja"

	"verif/harness/core"
	"verif/harness/gj"
	"verif/harness/taref"
)

const fuelPerCase = 3000000

type bufHandle struct {
	id     int
	obj    *goja.Object
	ab     goja.ArrayBuffer
	mem    []byte // the backing store as first seen (Go-supplied: the slab sub-slice)
	slab   []byte // Go-supplied only
	pre    int
	salt   int
	frozen []byte // snapshot of mem taken when the buffer was detached
}

type violation struct {
	monitor string
	detail  string
	step    int
	opKind  string
}

type exec struct {
	c     *core.Ctx
	st    *core.Stats
	cs    *Case
	rt    *goja.Runtime
	w     *taref.World
	js    jsCtx
	kLen  int
	bufs  map[int]*bufHandle
	views map[int]*goja.Object
	dvs   map[int]*goja.Object
	names map[*goja.Object]string
	byObj map[*goja.Object]*bufHandle

	fnChk, fnGeo, fnRegB, fnDesc goja.Callable
	objL, objK, objV, objDV      *goja.Object

	viol          *violation
	inconclusive  string
	hasOffsetView bool
	trace         []string
	skipped       int
	executed      int
}

func canary(i, salt int) byte { return byte(1 + (i*37+salt*11+5)%255) }

func (x *exec) fail(monitor, detail string, step int, kind string) {
	if x.viol == nil {
		x.viol = &violation{monitor: monitor, detail: detail, step: step, opKind: kind}
	}
}

// call wraps every entry into goja.
func (x *exec) call(f func() (goja.Value, error)) gj.Outcome {
	o := gj.Call(f)
	return o
}

func (x *exec) mustRun(src string) goja.Value {
	o := x.call(func() (goja.Value, error) { return x.rt.RunString(src) })
	if o.Err != nil || o.Panic != nil || o.Assertion != nil || o.Fuel {
		panic(fmt.Sprintf("c17 harness: prelude/setup script failed: %v %v %v\n%s", o.Err, o.Panic, o.Assertion, src))
	}
	return o.Val
}

func newExec(c *core.Ctx, st *core.Stats, cs *Case) *exec {
	x := &exec{c: c, st: st, cs: cs, w: taref.NewWorld(), bufs: map[int]*bufHandle{}, views: map[int]*goja.Object{}, dvs: map[int]*goja.Object{},
		names: map[*goja.Object]string{}, byObj: map[*goja.Object]*bufHandle{}}
	x.w.LittleEndian = nativeLittle
	x.rt = gj.NewRuntime()
	goja.VerifSetFuel(x.rt, fuelPerCase)
	x.rt.Set("detach", x.jsDetach)
	x.rt.Set("isDet", x.jsIsDet)
	if o := x.call(func() (goja.Value, error) { return x.rt.RunProgram(preludePrg) }); o.Err != nil || o.Panic != nil || o.Assertion != nil {
		panic(fmt.Sprintf("c17 harness: prelude failed: %v %v %v", o.Err, o.Panic, o.Assertion))
	}
	get := func(name string) goja.Callable {
		f, ok := goja.AssertFunction(x.rt.Get(name))
		if !ok {
			panic("c17 harness: missing helper " + name)
		}
		return f
	}
	x.fnChk, x.fnGeo, x.fnRegB = get("chk"), get("geo"), get("regB")
	x.objL = x.rt.Get("L").(*goja.Object)
	x.objK = x.rt.Get("K").(*goja.Object)
	x.objV = x.rt.Get("V").(*goja.Object)
	x.objDV = x.rt.Get("DV").(*goja.Object)
	return x
}

// the prelude is compiled once per process (a *goja.Program is immutable and shareable between runtimes)
var preludePrg = goja.MustCompile("prelude.js", prelude, false)

func init() {
	// every case builds and drops a whole Runtime; the live heap is tiny, so collect less often (performance knob only)
	debug.SetGCPercent(800)
}

var nativeLittle = func() bool {
	var u uint16 = 1
	return *(*byte)(unsafe.Pointer(&u)) == 1
}()

func (x *exec) jsDetach(call goja.FunctionCall) goja.Value {
	o, ok := call.Argument(0).(*goja.Object)
	if !ok {
		return goja.Undefined()
	}
	ab, ok := o.Export().(goja.ArrayBuffer)
	if !ok {
		return goja.Undefined()
	}
	if h := x.byObj[o]; h != nil && h.frozen == nil && !ab.Detached() {
		h.frozen = append([]byte{}, h.mem...)
	}
	ab.Detach()
	return goja.Undefined()
}

func (x *exec) jsIsDet(call goja.FunctionCall) goja.Value {
	if o, ok := call.Argument(0).(*goja.Object); ok {
		if ab, ok := o.Export().(goja.ArrayBuffer); ok {
			return x.rt.ToValue(ab.Detached())
		}
	}
	return x.rt.ToValue(false)
}

// ---- registration ----

func (x *exec) registerBuf(id int, obj *goja.Object, spec *BufSpec, slab []byte) {
	ab, ok := obj.Export().(goja.ArrayBuffer)
	if !ok {
		panic("c17 harness: registerBuf of a non-ArrayBuffer")
	}
	h := &bufHandle{id: id, obj: obj, ab: ab, mem: ab.Bytes(), slab: slab}
	if spec != nil {
		h.pre, h.salt = spec.Pre, spec.Salt
	}
	x.bufs[id] = h
	x.byObj[obj] = h
	x.names[obj] = "B" + strconv.Itoa(id)
	o := x.call(func() (goja.Value, error) { return x.fnRegB(goja.Undefined(), x.rt.ToValue(id), obj) })
	if o.Err != nil || o.Panic != nil || o.Assertion != nil {
		x.fail("probe-view", fmt.Sprintf("creating the Uint8Array probe over buffer %d failed: %v %v %v", id, o.Err, o.Panic, o.Assertion), -1, "regB")
	}
}

func (x *exec) setupBuffers() {
	for i := range x.cs.Bufs {
		s := &x.cs.Bufs[i]
		mb := taref.NewBuffer(s.N)
		mb.ID = s.ID
		x.w.Bufs[s.ID] = mb
		if s.Go {
			total := s.Pre + s.N + s.Post
			raw := make([]byte, total+16)
			base := 0
			for uintptr(unsafe.Pointer(&raw[base]))%8 != 0 {
				base++
			}
			slab := raw[base : base+total : base+total]
			for j := range slab {
				slab[j] = canary(j, s.Salt)
			}
			copy(slab[s.Pre:s.Pre+s.N], s.Init)
			if len(s.Init) == s.N {
				mb.StoreBytes(0, s.Init)
			} else {
				mb.StoreBytes(0, slab[s.Pre:s.Pre+s.N])
			}
			var data []byte
			if s.Cap3 {
				data = slab[s.Pre : s.Pre+s.N : s.Pre+s.N]
			} else {
				data = slab[s.Pre : s.Pre+s.N]
			}
			ab := x.rt.NewArrayBuffer(data)
			obj := x.rt.ToValue(ab).(*goja.Object)
			x.registerBuf(s.ID, obj, s, slab)
			h := x.bufs[s.ID]
			h.mem = data
			// aliasing at creation: Bytes() must be exactly the slice handed in
			if got := ab.Bytes(); len(got) != len(data) || cap(got) != cap(data) || (len(data) > 0 && &got[0] != &data[0]) {
				x.fail("alias-bytes", fmt.Sprintf("ArrayBuffer.Bytes() of a Go-supplied buffer is not the supplied slice (len %d/%d cap %d/%d)", len(got), len(data), cap(got), cap(data)), -1, "setup")
			}
			x.st.Inc("buffers:go")
			x.st.SetAdd("go_buffer_alignment", strconv.Itoa(s.Pre%8))
			if s.Cap3 {
				x.st.Inc("buffers:go:cap-limited")
			}
		} else {
			v := x.mustRun(fmt.Sprintf("new ArrayBuffer(%d)", s.N))
			x.registerBuf(s.ID, v.(*goja.Object), nil, nil)
			x.st.Inc("buffers:script")
		}
		x.st.SetAdd("buffer_sizes", strconv.Itoa(s.N))
	}
}

// ---- rendering of goja values (same format as taref.Render) ----

func (x *exec) render(v goja.Value) string {
	if v == nil || goja.IsUndefined(v) {
		return "u"
	}
	if goja.IsNull(v) {
		return "n"
	}
	switch t := v.(type) {
	case goja.String:
		return gj.RenderString(t)
	case *goja.Symbol:
		return "newobj"
	case *goja.Object:
		if n, ok := x.names[t]; ok {
			return n
		}
		if t.ClassName() == "Array" {
			n := int(t.Get("length").ToInteger())
			var b strings.Builder
			b.WriteByte('[')
			for i := 0; i < n && i < 4096; i++ {
				if i > 0 {
					b.WriteByte(',')
				}
				b.WriteString(x.render(t.Get(strconv.Itoa(i))))
			}
			b.WriteByte(']')
			return b.String()
		}
		return "newobj"
	}
	if goja.IsBigInt(v) {
		return "g:" + v.String()
	}
	if goja.IsNumber(v) {
		return gj.RenderNumber(v.ToFloat())
	}
	if b, ok := v.Export().(bool); ok {
		if b {
			return "b:true"
		}
		return "b:false"
	}
	return fmt.Sprintf("?%T", v)
}

func (x *exec) drainLog() []string {
	n := int(x.objL.Get("length").ToInteger())
	out := make([]string, n)
	for i := 0; i < n; i++ {
		out[i] = x.render(x.objL.Get(strconv.Itoa(i)))
	}
	x.objL.Set("length", 0)
	return out
}

func (x *exec) modelLog() []string {
	out := make([]string, len(x.w.Log))
	for i, v := range x.w.Log {
		out[i] = taref.Render(v)
	}
	x.w.Log = x.w.Log[:0]
	return out
}

func (x *exec) pushConsts() {
	for x.kLen < len(x.js.consts) {
		x.objK.Set(strconv.Itoa(x.kLen), x.rt.ToValue(x.js.consts[x.kLen]))
		x.kLen++
	}
}

// ---- reference resolution ----

func (x *exec) resolve(v taref.Value) (taref.Value, bool) {
	switch t := v.(type) {
	case viewRefV:
		r := x.w.Views[t.id]
		return r, r != nil
	case bufRefV:
		r := x.w.Bufs[t.id]
		return r, r != nil
	}
	return v, true
}

func (x *exec) resolveArgs(as []Arg) ([]taref.Value, bool) {
	out := argsModel(as)
	for i := range out {
		r, ok := x.resolve(out[i])
		if !ok {
			return nil, false
		}
		out[i] = r
	}
	return out, true
}

type anyString struct{}

var keyTable = map[string]taref.Key{
	"-0":               {Str: "-0", Numeric: true, Num: math.Copysign(0, -1)},
	"-1":               {Str: "-1", Numeric: true, Num: -1},
	"1.5":              {Str: "1.5", Numeric: true, Num: 1.5},
	"Infinity":         {Str: "Infinity", Numeric: true, Num: math.Inf(1)},
	"-Infinity":        {Str: "-Infinity", Numeric: true, Num: math.Inf(-1)},
	"NaN":              {Str: "NaN", Numeric: true, Num: math.NaN()},
	"4294967295":       {Str: "4294967295", Numeric: true, Num: 4294967295},
	"4294967296":       {Str: "4294967296", Numeric: true, Num: 4294967296},
	"9007199254740991": {Str: "9007199254740991", Numeric: true, Num: 9007199254740991},
	"1e+21":            {Str: "1e+21", Numeric: true, Num: 1e21},
	"1e3":              {Str: "1e3"},
	"01":               {Str: "01"},
	"+1":               {Str: "+1"},
	"1.0":              {Str: "1.0"},
	" 1":               {Str: " 1"},
	"0x1":              {Str: "0x1"},
	"foo":              {Str: "foo"},
	"-00":              {Str: "-00"},
	"1e21":             {Str: "1e21"},
}

func classifyKey(s string) taref.Key {
	if k, ok := keyTable[s]; ok {
		return k
	}
	if n, err := strconv.Atoi(s); err == nil && strconv.Itoa(n) == s {
		return taref.Key{Str: s, Numeric: true, Num: float64(n)}
	}
	panic("c17 harness: unclassified key " + s)
}

// modelOp runs the op on the reference model. ok=false: a referenced object does not exist (op is skipped on both sides).
func (x *exec) modelOp(op *Op) (res taref.Value, thr *taref.Throw, ok bool) {
	w := x.w
	args, ok := x.resolveArgs(op.A)
	if !ok {
		return nil, nil, false
	}
	var v *taref.TypedArray
	var b *taref.Buffer
	var d *taref.DataView
	switch op.K {
	case "newLen", "newTA", "newObj", "of", "fromHex", "bufNew":
	case "newView", "setBufCtor", "bufSlice", "bufLen", "detach", "dvNew", "goWrite", "goExportToBuf":
		if b = w.Bufs[op.V]; b == nil {
			return nil, nil, false
		}
	case "dvGet", "dvSet", "dvGeom", "goExportToDV":
		if d = w.DVs[op.V]; d == nil {
			return nil, nil, false
		}
	default:
		if v = w.Views[op.V]; v == nil {
			return nil, nil, false
		}
	}
	w.CurSrc = nil
	for _, a := range args {
		if arr, isArr := a.(*taref.Array); isArr {
			w.CurSrc = arr
		}
	}
	t := taref.ElemType(op.T)
	res, thr = w.Do(func() taref.Value {
		switch op.K {
		case "at":
			return w.At(v, args)
		case "copyWithin":
			return w.CopyWithin(v, args)
		case "fill":
			return w.Fill(v, args)
		case "includes":
			return w.Includes(v, args)
		case "indexOf":
			return w.IndexOf(v, args)
		case "lastIndexOf":
			return w.LastIndexOf(v, args)
		case "join":
			return w.Join(v, args)
		case "toString":
			return w.Join(v, nil)
		case "toLocaleString":
			if v.Buf.Detached {
				panic(&taref.Throw{Name: "TypeError"})
			}
			return anyString{}
		case "tls":
			return w.ToLocaleStringHooked(v, op.N, op.At, effsModel(op.E))
		case "reverse":
			return w.Reverse(v)
		case "set":
			return w.Set(v, args)
		case "slice":
			return w.Slice(v, args)
		case "subarray":
			return w.Subarray(v, args)
		case "sort":
			return w.Sort(v, args)
		case "toSorted":
			return w.ToSorted(v, args)
		case "toReversed":
			return w.ToReversed(v)
		case "with":
			return w.With(v, args)
		case "toHex":
			return w.ToHex(v)
		case "setFromHex":
			return w.SetFromHex(v, argAt(args, 0))
		case "every", "some", "forEach", "find", "findIndex", "findLast", "findLastIndex":
			return w.IterMethod(op.K, v, args)
		case "filter":
			return w.Filter(v, args)
		case "map":
			return w.Map(v, args)
		case "reduce":
			return w.Reduce(v, args, false)
		case "reduceRight":
			return w.Reduce(v, args, true)
		case "iter":
			kind := op.X
			if kind == "sym" {
				kind = "values"
			}
			return w.Iterate(v, kind, op.At, effsModel(op.E), op.N, op.Fl == "again")
		case "spread":
			r := w.Iterate(v, "values", -1, nil, 1<<20, false).(*taref.Array)
			r.Elems = r.Elems[:len(r.Elems)-1] // drop "done"
			return r
		case "get":
			return w.ExoticGet(v, classifyKey(op.X))
		case "put":
			return w.ExoticSet(v, classifyKey(op.X), argAt(args, 0))
		case "has":
			return w.ExoticHas(v, classifyKey(op.X))
		case "del":
			return w.ExoticDelete(v, classifyKey(op.X))
		case "define":
			return w.ExoticDefine(v, classifyKey(op.X), argAt(args, 0), len(args) > 0, op.Fl)
		case "gopd":
			return w.ExoticGetOwn(v, classifyKey(op.X))
		case "keys":
			return w.OwnIndexKeys(v)
		case "newLen":
			return w.NewFromLength(t, argAt(args, 0))
		case "newTA":
			return w.NewFromTypedArray(t, args[0].(*taref.TypedArray))
		case "newObj":
			return w.NewFromObject(t, args[0].(*taref.Array))
		case "newView":
			return w.NewFromBuffer(t, b, argAt(args, 0), argAt(args, 1))
		case "of":
			return w.Of(t, args)
		case "ofC":
			return w.OfCtor(op.N, v, args)
		case "fromC":
			var mapper *taref.Callback
			if len(args) > 1 {
				mapper = args[1].(*taref.Callback)
			}
			return w.FromCtor(op.N, v, args[0].(*taref.Array), mapper)
		case "fromHex":
			return w.FromHexStatic(argAt(args, 0))
		case "setCtor":
			v.Ctor = op.Sp.model()
			return taref.Undefined
		case "setBufCtor":
			b.Ctor = op.Sp.model()
			return taref.Undefined
		case "bufNew":
			return w.NewArrayBuffer(argAt(args, 0))
		case "bufSlice":
			return w.BufSlice(b, args)
		case "bufLen":
			return w.BufByteLength(b)
		case "detach":
			if !b.Detached {
				b.Detach()
			}
			return taref.Undefined
		case "dvNew":
			return w.NewDataView(b, argAt(args, 0), argAt(args, 1))
		case "dvGet":
			return w.DVGet(d, t, args)
		case "dvSet":
			return w.DVSet(d, t, args)
		case "dvGeom":
			l := w.DVByteLength(d)
			return &taref.Array{IsArray: true, Elems: []taref.Value{l, w.DVByteOffset(d)}}
		}
		panic("c17 harness: unknown op " + op.K)
	})
	return res, thr, true
}

// modelRegister assigns the op's output slots to new objects returned by the model (model side only).
func (x *exec) modelRegister(op *Op, exp taref.Value) {
	switch r := exp.(type) {
	case *taref.TypedArray:
		if r.ID < 0 {
			r.ID = op.Out
			x.w.Views[r.ID] = r
			if r.Buf.ID < 0 {
				r.Buf.ID = op.OutB
				x.w.Bufs[r.Buf.ID] = r.Buf
			}
		}
	case *taref.Buffer:
		if r.ID < 0 {
			r.ID = op.OutB
			x.w.Bufs[r.ID] = r
		}
	case *taref.DataView:
		if r.ID < 0 {
			r.ID = op.Out
			x.w.DVs[r.ID] = r
		}
	}
}

func isGoOp(k string) bool { return len(k) > 2 && k[:2] == "go" && k[2] >= 'A' && k[2] <= 'Z' }

func argAt(args []taref.Value, i int) taref.Value {
	if i < len(args) {
		return args[i]
	}
	return taref.Undefined
}

// ---- one step ----

func (x *exec) typeOfReceiver(op *Op) string {
	switch op.K {
	case "newLen", "newTA", "newObj", "of", "newView", "dvGet", "dvSet":
		return taref.ElemType(op.T).Name()
	case "fromHex":
		return "Uint8Array"
	}
	if v := x.w.Views[op.V]; v != nil {
		switch op.K {
		case "newView", "setBufCtor", "bufSlice", "bufLen", "detach", "dvNew", "dvGeom", "bufNew":
		default:
			return v.Type.Name()
		}
	}
	return "-"
}

func (x *exec) step(i int, op *Op) {
	if isGoOp(op.K) {
		x.goStep(i, op)
		return
	}
	tn := x.typeOfReceiver(op)
	sideBefore, detBefore := x.w.SideEffects, x.w.DetachInCoercion
	exp, thr, ok := x.modelOp(op)
	if !ok {
		x.skipped++
		return
	}
	if x.w.FlexReads > 0 {
		// a NaN stored by this op (implementation-chosen encoding, NumericToRawBytes) was read back within the same op through
		// another element type / alignment: the expected value is not determined by the specification
		x.inconclusive = "nan-encoding-read-back-within-op"
		return
	}
	if exclHugeNumbers && x.w.HugeIntConversions > 0 {
		// outside the declared domain while the C05 finding (toInt32 & co for |x| >= 2^63) is open: buffer contents reinterpreted
		// as a float and converted to an integer element type
		x.inconclusive = "open-C05-finding-huge-int-conversion"
		if x.c.Replay {
			x.trace = append(x.trace, "<outside the declared domain, stopped before> "+x.js.js(op))
		}
		return
	}
	x.executed++
	src := x.js.js(op)
	x.pushConsts()
	if x.c.Replay {
		x.trace = append(x.trace, src)
	}
	o := x.call(func() (goja.Value, error) { return x.rt.RunString(src) })
	x.st.Inc("op:" + op.K + ":" + tn)
	x.st.Count("coercion_side_effects", int64(x.w.SideEffects-sideBefore))
	x.st.Count("detach_in_coercion", int64(x.w.DetachInCoercion-detBefore))
	if x.w.DetachInCoercion > detBefore {
		x.st.Inc("detach_in_op:" + op.K)
	}
	switch {
	case o.Assertion != nil:
		x.fail("ptr-hook", fmt.Sprintf("%s\nscript: %s", o.Assertion.Error(), src), i, op.K)
		return
	case o.Panic != nil:
		x.fail("go-panic", fmt.Sprintf("Go panic escaped: %v\nscript: %s\n%s", o.Panic, src, core.Trunc(o.PanicStack, 1800)), i, op.K)
		return
	case o.Fuel:
		x.inconclusive = "fuel"
		return
	}
	expS, actS := "", ""
	if thr != nil {
		expS = "throw " + thr.Name
		x.st.Inc("expected_exception:" + thr.Name)
	} else if _, any := exp.(anyString); any {
		expS = "<any string>"
	} else {
		expS = taref.Render(exp)
	}
	var resObj *goja.Object
	if o.Err != nil {
		ex, isEx := o.Err.(*goja.Exception)
		if !isEx {
			x.fail("error-kind", fmt.Sprintf("unexpected error kind %s: %v\nscript: %s", gj.ErrKind(o.Err), o.Err, src), i, op.K)
			return
		}
		actS = "throw " + gj.ErrorCtorName(x.rt, ex.Value())
	} else {
		actS = x.render(o.Val)
		resObj, _ = o.Val.(*goja.Object)
		if expS == "<any string>" {
			if _, isStr := o.Val.(goja.String); isStr {
				actS = expS
			}
		}
	}
	if tolerateToLocaleDetachTypeError && op.K == "tls" && thr == nil && actS == "throw TypeError" && x.w.Views[op.V].Buf.Detached {
		// open finding C17-17 (inbox): goja throws TypeError once the element method has detached the buffer instead of reading the
		// remaining elements as undefined. Tolerated (and counted) until the fix is merged; Go panics / hook assertions are not.
		x.st.Inc("tolerated_open_finding:C17-17-tolocalestring-detach-typeerror")
		actS = expS
	}
	if expS != actS {
		x.fail("result", fmt.Sprintf("step %d `%s`\n expected (taref): %s\n observed (goja):  %s", i, src, core.Trunc(expS, 600), core.Trunc(actS, 600)), i, op.K)
		return
	}
	// callback / coercion log
	ml, al := x.modelLog(), x.drainLog()
	if strings.Join(ml, " ") != strings.Join(al, " ") {
		x.fail("callback-log", fmt.Sprintf("step %d `%s`: order/arguments of user-code invocations differ\n expected (taref): %s\n observed (goja):  %s", i, src, core.Trunc(strings.Join(ml, " "), 700), core.Trunc(strings.Join(al, " "), 700)), i, op.K)
		return
	}
	x.st.Count("user_code_invocations_compared", int64(len(ml)))
	// register new objects
	if thr == nil && resObj != nil {
		switch r := exp.(type) {
		case *taref.TypedArray:
			if r.ID < 0 {
				x.registerNewView(i, op, r, resObj, src)
			}
		case *taref.Buffer:
			if r.ID < 0 {
				r.ID = op.OutB
				x.w.Bufs[r.ID] = r
				x.registerBuf(r.ID, resObj, nil, nil)
			}
		case *taref.DataView:
			if r.ID < 0 {
				r.ID = op.Out
				x.w.DVs[r.ID] = r
				x.dvs[r.ID] = resObj
				x.names[resObj] = "D" + strconv.Itoa(r.ID)
				x.objDV.Set(strconv.Itoa(r.ID), resObj)
			}
		}
	}
	if x.viol == nil {
		x.compareWorld(i, op.K, src)
	}
}

func (x *exec) registerNewView(i int, op *Op, r *taref.TypedArray, obj *goja.Object, src string) {
	// boundary description of the new object
	var tag string
	var bufObj *goja.Object
	var off, length int64
	oc := x.call(func() (goja.Value, error) {
		ts, _ := goja.AssertFunction(x.rt.Get("Object").(*goja.Object).Get("prototype").(*goja.Object).Get("toString"))
		tv, err := ts(obj)
		if err != nil {
			return nil, err
		}
		tag = tv.String()
		bufObj, _ = obj.Get("buffer").(*goja.Object)
		off = obj.Get("byteOffset").ToInteger()
		length = obj.Get("length").ToInteger()
		return nil, nil
	})
	if oc.Err != nil || oc.Panic != nil || oc.Assertion != nil {
		x.fail("result", fmt.Sprintf("step %d `%s`: describing the returned typed array failed: %v %v %v", i, src, oc.Err, oc.Panic, oc.Assertion), i, op.K)
		return
	}
	expBuf := "new"
	if r.Buf.ID >= 0 {
		expBuf = "B" + strconv.Itoa(r.Buf.ID)
	}
	actBuf := "new"
	if n, known := x.names[bufObj]; known {
		actBuf = n
	}
	expLen, expOff := r.Length, r.ByteOffset
	if r.Buf.Detached {
		expLen, expOff = 0, 0
	}
	expD := fmt.Sprintf("[object %s] buffer=%s byteOffset=%d length=%d", r.Type.Name(), expBuf, expOff, expLen)
	actD := fmt.Sprintf("%s buffer=%s byteOffset=%d length=%d", tag, actBuf, off, length)
	if expD != actD {
		x.fail("result", fmt.Sprintf("step %d `%s`: returned typed array differs\n expected (taref): %s\n observed (goja):  %s", i, src, expD, actD), i, op.K)
		return
	}
	r.ID = op.Out
	x.w.Views[r.ID] = r
	x.views[r.ID] = obj
	x.names[obj] = "V" + strconv.Itoa(r.ID)
	x.objV.Set(strconv.Itoa(r.ID), obj)
	if r.ByteOffset > 0 {
		x.hasOffsetView = true
	}
	x.st.SetAdd("view_geometry", fmt.Sprintf("%s@%d+%d", r.Type.Name(), r.ByteOffset, r.Length))
	if r.Buf.ID < 0 {
		r.Buf.ID = op.OutB
		x.w.Bufs[r.Buf.ID] = r.Buf
		x.registerBuf(r.Buf.ID, bufObj, nil, nil)
	}
}

func hexdump(b []byte) string {
	if len(b) > 80 {
		return fmt.Sprintf("% x …", b[:80])
	}
	return fmt.Sprintf("% x", b)
}

func isNaNBytes(b []byte, little bool) bool {
	n := len(b)
	var u uint64
	for i := 0; i < n; i++ {
		c := b[i]
		if !little {
			c = b[n-1-i]
		}
		u |= uint64(c) << (8 * uint(i))
	}
	if n == 4 {
		return u&0x7f800000 == 0x7f800000 && u&0x7fffff != 0
	}
	return u&0x7ff0000000000000 == 0x7ff0000000000000 && u&0xfffffffffffff != 0
}

func sortedKeys[T any](m map[int]T) []int {
	ks := make([]int, 0, len(m))
	for k := range m {
		ks = append(ks, k)
	}
	sort.Ints(ks)
	return ks
}

// compareWorld: monitors (ii) canaries, (iii) whole-buffer comparison, (iv) script-visible bytes and geometry, write-after-detach.
func (x *exec) compareWorld(i int, kind, src string) {
	for _, id := range sortedKeys(x.bufs) {
		h := x.bufs[id]
		m := x.w.Bufs[id]
		det := h.ab.Detached()
		if det != m.Detached {
			x.fail("detached-state", fmt.Sprintf("step %d `%s`: buffer %d detached: expected %v, observed %v", i, src, id, m.Detached, det), i, kind)
			return
		}
		if det {
			if got := h.ab.Bytes(); got != nil {
				x.fail("alias-bytes", fmt.Sprintf("step %d: ArrayBuffer.Bytes() of detached buffer %d is not nil (len %d)", i, id, len(got)), i, kind)
				return
			}
			if h.frozen != nil && !bytes.Equal(h.frozen, h.mem) {
				k := 0
				for k < len(h.mem) && h.mem[k] == h.frozen[k] {
					k++
				}
				x.fail("write-after-detach", fmt.Sprintf("step %d `%s`: the former backing store of detached buffer %d was written after ArrayBuffer.Detach() (byte %d: %02x -> %02x)\n at detach: %s\n now:       %s", i, src, id, k, h.frozen[k], h.mem[k], hexdump(h.frozen), hexdump(h.mem)), i, kind)
				return
			}
		} else {
			act := h.ab.Bytes()
			if len(act) != len(m.Data) {
				x.fail("buffer-bytes", fmt.Sprintf("step %d `%s`: buffer %d length: expected %d, observed %d", i, src, id, len(m.Data), len(act)), i, kind)
				return
			}
			if len(act) > 0 && &act[0] != &h.mem[0] {
				x.fail("alias-bytes", fmt.Sprintf("step %d `%s`: backing store of buffer %d moved", i, src, id), i, kind)
				return
			}
			for _, cl := range m.NaNs {
				all := true
				for k := cl.Off; k < cl.Off+cl.Size; k++ {
					if !m.Flex[k] {
						all = false
					}
				}
				if all && !isNaNBytes(act[cl.Off:cl.Off+cl.Size], cl.Little) {
					x.fail("buffer-bytes", fmt.Sprintf("step %d `%s`: buffer %d bytes [%d,%d) must encode a NaN, observed % x", i, src, id, cl.Off, cl.Off+cl.Size, act[cl.Off:cl.Off+cl.Size]), i, kind)
					return
				}
			}
			m.NaNs = m.NaNs[:0]
			for k := range act {
				if m.Flex[k] {
					m.Data[k] = act[k]
					m.Flex[k] = false
				} else if m.Data[k] != act[k] {
					x.fail("buffer-bytes", fmt.Sprintf("step %d `%s`: contents of buffer %d differ at byte %d\n expected (taref): %s\n observed (goja):  %s", i, src, id, k, hexdump(m.Data), hexdump(act)), i, kind)
					return
				}
			}
			x.st.Count("bytes_compared", int64(len(act)))
		}
		if h.slab != nil {
			n := len(h.mem)
			for k := range h.slab {
				if k >= h.pre && k < h.pre+n {
					continue
				}
				if h.slab[k] != canary(k, h.salt) {
					x.fail("canary", fmt.Sprintf("step %d `%s`: canary byte at slab offset %d (buffer %d occupies [%d,%d)) changed: %02x -> %02x", i, src, k, id, h.pre, h.pre+n, canary(k, h.salt), h.slab[k]), i, kind)
					return
				}
			}
			x.st.Inc("canary_scans")
			x.st.Count("canary_bytes_scanned", int64(len(h.slab)-n))
		}
	}
	// script-visible bytes through the hidden Uint8Array probes (Go-side writes and other views must be visible)
	o := x.call(func() (goja.Value, error) { return x.fnChk(goja.Undefined()) })
	if o.Assertion != nil || o.Panic != nil || o.Err != nil {
		x.fail("probe-view", fmt.Sprintf("step %d `%s`: reading all buffers through Uint8Array probes failed: %v %v %v", i, src, o.Err, o.Panic, o.Assertion), i, kind)
		return
	}
	arr := o.Val.(*goja.Object)
	for _, id := range sortedKeys(x.bufs) {
		m := x.w.Bufs[id]
		ln := arr.Get(strconv.Itoa(2 * id)).ToInteger()
		sv, _ := arr.Get(strconv.Itoa(2*id + 1)).(goja.String)
		if ln < 0 {
			continue
		}
		exp := m.Data
		if int(ln) != len(exp) {
			x.fail("script-bytes", fmt.Sprintf("step %d `%s`: probe view over buffer %d has length %d, expected %d", i, src, id, ln, len(exp)), i, kind)
			return
		}
		if sv == nil || sv.Length() != len(exp) {
			x.fail("script-bytes", fmt.Sprintf("step %d `%s`: probe read of buffer %d did not return %d elements", i, src, id, len(exp)), i, kind)
			return
		}
		for k := range exp {
			if uint16(exp[k]) != sv.CharAt(k) {
				x.fail("script-bytes", fmt.Sprintf("step %d `%s`: script reads byte %d of buffer %d as %02x, expected %02x", i, src, k, id, sv.CharAt(k), exp[k]), i, kind)
				return
			}
		}
		x.st.Count("script_bytes_compared", int64(len(exp)))
	}
	// geometry of every registered view
	o = x.call(func() (goja.Value, error) { return x.fnGeo(goja.Undefined()) })
	if o.Assertion != nil || o.Panic != nil || o.Err != nil {
		x.fail("geometry", fmt.Sprintf("step %d `%s`: reading view geometry failed: %v %v %v", i, src, o.Err, o.Panic, o.Assertion), i, kind)
		return
	}
	arr = o.Val.(*goja.Object)
	for _, id := range sortedKeys(x.views) {
		v := x.w.Views[id]
		l := arr.Get(strconv.Itoa(4 * id)).ToInteger()
		bo := arr.Get(strconv.Itoa(4*id + 1)).ToInteger()
		bl := arr.Get(strconv.Itoa(4*id + 2)).ToInteger()
		if bi := arr.Get(strconv.Itoa(4*id + 3)).ToInteger(); int(bi) != v.Buf.ID {
			x.fail("geometry", fmt.Sprintf("step %d `%s`: view %d .buffer is B[%d], expected B[%d]", i, src, id, bi, v.Buf.ID), i, kind)
			return
		}
		el, ebo := int64(v.Length), int64(v.ByteOffset)
		if v.Buf.Detached {
			el, ebo = 0, 0
		}
		if l != el || bo != ebo || bl != el*int64(v.Type.Size()) {
			x.fail("geometry", fmt.Sprintf("step %d `%s`: view %d (%s) length/byteOffset/byteLength: expected %d/%d/%d, observed %d/%d/%d", i, src, id, v.Type.Name(), el, ebo, el*int64(v.Type.Size()), l, bo, bl), i, kind)
			return
		}
		x.st.Inc("view_geometry_checks")
	}
}

// ---- Go-side ops: aliasing probes (iv) and the detached export probe (v) ----

var exportTypes = map[taref.ElemType]reflect.Type{
	taref.Int8: reflect.TypeOf([]int8(nil)), taref.Uint8: reflect.TypeOf([]uint8(nil)), taref.Uint8C: reflect.TypeOf([]uint8(nil)),
	taref.Int16: reflect.TypeOf([]int16(nil)), taref.Uint16: reflect.TypeOf([]uint16(nil)), taref.Int32: reflect.TypeOf([]int32(nil)),
	taref.Uint32: reflect.TypeOf([]uint32(nil)), taref.Float32: reflect.TypeOf([]float32(nil)), taref.Float64: reflect.TypeOf([]float64(nil)),
	taref.BigInt64: reflect.TypeOf([]int64(nil)), taref.BigUint64: reflect.TypeOf([]uint64(nil)),
}

func (x *exec) goStep(i int, op *Op) {
	w := x.w
	src := fmt.Sprintf("<Go> %s(%d)", op.K, op.V)
	if x.c.Replay {
		x.trace = append(x.trace, src)
	}
	switch op.K {
	case "goWrite":
		m, h := w.Bufs[op.V], x.bufs[op.V]
		if m == nil || m.Detached || op.N+len(op.Raw) > len(m.Data) {
			x.skipped++
			return
		}
		dst := h.mem
		if op.X == "bytes" {
			dst = h.ab.Bytes()
		}
		copy(dst[op.N:], op.Raw)
		m.StoreBytes(op.N, op.Raw)
		x.st.Inc("alias_probe:go-write:" + op.X)
	case "goExport":
		v, obj := w.Views[op.V], x.views[op.V]
		if v == nil {
			x.skipped++
			return
		}
		var ev any
		o := x.call(func() (goja.Value, error) { ev = obj.Export(); return nil, nil })
		det := v.Buf.Detached
		tag := "live"
		if det {
			tag = "detached"
		}
		x.st.Inc("alias_probe:Export:" + tag)
		if o.Assertion != nil {
			x.fail("ptr-hook", fmt.Sprintf("step %d Export() of view %d (%s, %s): %s", i, op.V, v.Type.Name(), tag, o.Assertion.Error()), i, op.K+":"+tag)
			return
		}
		if o.Panic != nil {
			x.fail("go-panic", fmt.Sprintf("step %d Export() of view %d (%s, %s) panicked: %v", i, op.V, v.Type.Name(), tag, o.Panic), i, op.K+":"+tag)
			return
		}
		rv := reflect.ValueOf(ev)
		if det {
			if ev != nil && (rv.Kind() != reflect.Slice || rv.Len() != 0) {
				x.fail("alias-export", fmt.Sprintf("step %d Export() of view %d over a detached buffer returned %T of length %d (script-visible length is 0)", i, op.V, ev, rv.Len()), i, op.K+":"+tag)
			}
			return
		}
		if ev == nil || rv.Type() != exportTypes[v.Type] || rv.Len() != v.Length {
			x.fail("alias-export", fmt.Sprintf("step %d Export() of view %d (%s length %d) returned %T len %d", i, op.V, v.Type.Name(), v.Length, ev, rvLen(rv)), i, op.K)
			return
		}
		if v.Length > 0 {
			p := rv.Index(0).Addr().UnsafePointer()
			want := unsafe.Pointer(&x.bufs[v.Buf.ID].mem[v.ByteOffset])
			if p != want {
				x.fail("alias-export", fmt.Sprintf("step %d Export() of view %d does not alias the buffer (%p, expected %p)", i, op.V, p, want), i, op.K)
				return
			}
			// write one element through the exported slice (Go-side write through the alias)
			j := op.N % v.Length
			es := v.Type.Size()
			raw := make([]byte, es)
			copy(raw, op.Raw)
			dst := unsafe.Slice((*byte)(rv.Index(j).Addr().UnsafePointer()), es)
			copy(dst, raw)
			v.Buf.StoreBytes(v.ByteOffset+j*es, raw)
		}
	case "goExportTo", "goExportToBuf", "goExportToDV":
		var obj *goja.Object
		var mb *taref.Buffer
		var off, n int
		switch op.K {
		case "goExportTo":
			v := w.Views[op.V]
			if v == nil {
				x.skipped++
				return
			}
			obj, mb, off, n = x.views[op.V], v.Buf, v.ByteOffset, v.Length*v.Type.Size()
		case "goExportToBuf":
			b := w.Bufs[op.V]
			if b == nil {
				x.skipped++
				return
			}
			obj, mb, off, n = x.bufs[op.V].obj, b, 0, len(b.Data)
		default:
			d := w.DVs[op.V]
			if d == nil {
				x.skipped++
				return
			}
			obj, mb, off, n = x.dvs[op.V], d.Buf, d.ByteOffset, d.ByteLength
		}
		var out []byte
		var err error
		o := x.call(func() (goja.Value, error) { err = x.rt.ExportTo(obj, &out); return nil, nil })
		tag := "live"
		if mb.Detached {
			tag = "detached"
		}
		x.st.Inc("alias_probe:" + op.K[2:] + ":" + tag)
		if o.Assertion != nil || o.Panic != nil {
			x.fail("go-panic", fmt.Sprintf("step %d ExportTo(&[]byte) of %s %d (%s) panicked: %v %v", i, op.K[10:], op.V, tag, o.Panic, o.Assertion), i, op.K+":"+tag)
			return
		}
		if mb.Detached {
			if len(out) != 0 {
				x.fail("alias-export", fmt.Sprintf("step %d ExportTo(&[]byte) over a detached buffer returned %d bytes", i, len(out)), i, op.K+":"+tag)
			}
			return
		}
		if err != nil || len(out) != n {
			x.fail("alias-export", fmt.Sprintf("step %d ExportTo(&[]byte) of %s %d: err=%v len=%d, expected %d bytes", i, op.K, op.V, err, len(out), n), i, op.K)
			return
		}
		if n > 0 {
			if &out[0] != &x.bufs[mb.ID].mem[off] {
				x.fail("alias-export", fmt.Sprintf("step %d ExportTo(&[]byte) of %s %d does not alias the buffer", i, op.K, op.V), i, op.K)
				return
			}
			j := op.N % n
			if len(op.Raw) > 0 {
				out[j] = op.Raw[0]
				mb.StoreBytes(off+j, op.Raw[:1])
			}
		}
	default:
		panic("c17 harness: unknown Go op " + op.K)
	}
	x.executed++
	if x.viol == nil {
		x.compareWorld(i, op.K, src)
	}
}

func rvLen(v reflect.Value) int {
	if v.IsValid() && v.Kind() == reflect.Slice {
		return v.Len()
	}
	return -1
}

// run executes the whole case.
func (x *exec) run() {
	c0, _, _ := goja.VerifPtrStats()
	x.setupBuffers()
	if x.viol == nil {
		x.compareWorld(-1, "setup", "<setup>")
	}
	for i := range x.cs.Ops {
		if x.viol != nil || x.inconclusive != "" {
			break
		}
		x.step(i, &x.cs.Ops[i])
	}
	if x.viol == nil && x.inconclusive == "" {
		if why := gj.IdleProblem(x.rt, false); why != "" {
			x.fail("vm-not-idle", why, len(x.cs.Ops), "end")
		}
	}
	c1, slack, _ := goja.VerifPtrStats()
	x.st.Count("ptr_accesses", c1-c0)
	if slack < 1<<61 {
		x.st.SetAdd("ptr_min_slack_seen", strconv.FormatInt(slack, 10))
	}
	x.st.Count("ops_executed", int64(x.executed))
	x.st.Count("ops_skipped_missing_ref", int64(x.skipped))
	x.st.Count("vm_steps", goja.VerifSteps(x.rt))
}
