package c17

import (
	"bufio"
	"encoding/binary"
	"encoding/json"
	"fmt"
	"os"
	osexec "os/exec"
	"path/filepath"
	"runtime"
	"strconv"
	"strings"
	"time"

	"verif/harness/core"
)

type asanDone struct {
	Final        bool  `json:"final"`
	Evaluations  int64 `json:"evaluations"`
	Held         int64 `json:"held"`
	Violated     int64 `json:"violated"`
	Inconclusive int64 `json:"inconclusive"`
	Stats        struct {
		Counters map[string]int64 `json:"counters"`
	} `json:"stats"`
}

type asanViolRec struct {
	Index     int             `json:"index"`
	Monitor   string          `json:"monitor"`
	Detail    string          `json:"detail"`
	Signature string          `json:"signature"`
	Case      json.RawMessage `json:"case"`
}

func head(path string, n int) string {
	b, _ := os.ReadFile(path)
	if len(b) > n {
		b = b[:n]
	}
	return string(b)
}

// runAsan drives bin (the -asan build of this check) over the "asan" tier case list with core's worker protocol.
func runAsan(bin string, seed uint64, dir string) asanResult {
	t0 := time.Now()
	os.MkdirAll(dir, 0755)
	res := asanResult{evidence: map[string]any{}, counters: map[string]int64{}}
	nw := runtime.NumCPU()
	if s := os.Getenv("VERIF_WORKERS"); s != "" {
		if v, err := strconv.Atoi(s); err == nil && v > 0 {
			nw = v
		}
	}
	total := len(pinned) + asanCases
	var env []string
	for _, e := range os.Environ() {
		if strings.HasPrefix(e, "VERIF_MEM_MB=") || strings.HasPrefix(e, "ASAN_OPTIONS=") {
			continue
		}
		env = append(env, e)
	}
	env = append(env, "VERIF_WORKER=1", "ASAN_OPTIONS=detect_leaks=0:abort_on_error=1:halt_on_error=1")
	type proc struct {
		w, gen, start int
		base          string
		cmd           *osexec.Cmd
		done          chan error
	}
	spawn := func(w, gen, start int) *proc {
		tag := ""
		if gen > 0 {
			tag = fmt.Sprintf(".r%d", gen)
		}
		base := filepath.Join(dir, fmt.Sprintf("w%d%s", w, tag))
		cmd := osexec.Command(bin, "worker", "-tier", "asan", "-seed", strconv.FormatUint(seed, 10), "-w", strconv.Itoa(w), "-n", strconv.Itoa(nw),
			"-start", strconv.Itoa(start), "-out", dir, "-tag", tag)
		errf, _ := os.Create(base + ".stderr")
		cmd.Stdout, cmd.Stderr, cmd.Env = errf, errf, env
		p := &proc{w: w, gen: gen, start: start, base: base, cmd: cmd, done: make(chan error, 1)}
		if err := cmd.Start(); err != nil {
			p.done <- err
			return p
		}
		go func() { p.done <- cmd.Wait(); errf.Close() }()
		return p
	}
	var evals, held, violated, inconcl int64
	deaths, reports := 0, 0
	collect := func(p *proc) bool {
		var d asanDone
		b, err := os.ReadFile(p.base + ".done")
		final := false
		if err == nil && json.Unmarshal(b, &d) == nil {
			evals += d.Evaluations
			held += d.Held
			violated += d.Violated
			inconcl += d.Inconclusive
			final = d.Final
			for k, v := range d.Stats.Counters {
				if k == "ptr_accesses" || k == "ops_executed" || k == "bytes_compared" || k == "canary_scans" || k == "detach_in_coercion" {
					res.counters[k] += v
				}
			}
		}
		if f, err := os.Open(p.base + ".viol"); err == nil {
			sc := bufio.NewScanner(f)
			sc.Buffer(make([]byte, 1<<20), 1<<28)
			for sc.Scan() {
				var v asanViolRec
				if json.Unmarshal(sc.Bytes(), &v) == nil {
					var cs any
					json.Unmarshal(v.Case, &cs)
					res.viols = append(res.viols, asanViol{idx: v.Index, res: core.Result{Verdict: core.Violated, Monitor: "asan-build:" + v.Monitor, Detail: v.Detail, Signature: v.Signature, Case: cs}})
				}
			}
			f.Close()
		}
		return final
	}
	procs := make([]*proc, nw)
	for w := 0; w < nw; w++ {
		procs[w] = spawn(w, 0, 0)
	}
	deadline := time.After(40 * time.Minute)
	for w := 0; w < nw; w++ {
		for procs[w] != nil {
			p := procs[w]
			var werr error
			select {
			case werr = <-p.done:
			case <-deadline:
				p.cmd.Process.Kill()
				<-p.done
				collect(p)
				res.evidence["timeout"] = true
				procs[w] = nil
				continue
			}
			final := collect(p)
			if final && werr == nil {
				procs[w] = nil
				break
			}
			// abnormal death: ASan report (abort) or Go fatal error; attribute to the case in progress
			deaths++
			pos := int64(-1 << 62)
			if b, err := os.ReadFile(p.base + ".progress"); err == nil && len(b) >= 8 {
				pos = int64(binary.LittleEndian.Uint64(b))
			}
			stderr := head(p.base+".stderr", 5000)
			if strings.Contains(stderr, "AddressSanitizer") {
				reports++
			}
			idx := int(pos) - len(pinned)
			sig := "asan-death"
			for _, l := range strings.Split(stderr, "\n") {
				t := strings.TrimSpace(l)
				if strings.HasPrefix(t, "SUMMARY: AddressSanitizer") || strings.HasPrefix(t, "fatal error:") || strings.HasPrefix(t, "panic:") {
					sig = "asan-death:" + core.Trunc(t, 160)
					break
				}
			}
			res.viols = append(res.viols, asanViol{idx: idx, res: core.Result{Verdict: core.Violated, Monitor: "asan-process-death",
				Detail: fmt.Sprintf("ASan-build worker died (%v) while executing case %d\n%s", werr, idx, stderr), Signature: sig}})
			if pos > -1<<60 && int(pos)+nw < total && deaths < 50 {
				procs[w] = spawn(w, p.gen+1, int(pos)+nw)
			} else {
				procs[w] = nil
			}
		}
	}
	res.evidence["evaluations"] = evals
	res.evidence["held"] = held
	res.evidence["violated"] = violated
	res.evidence["inconclusive"] = inconcl
	res.evidence["child_deaths"] = deaths
	res.evidence["asan_reports"] = reports
	res.evidence["workers"] = nw
	res.evidence["case_list_length"] = total
	res.evidence["wall_s"] = time.Since(t0).Seconds()
	return res
}
