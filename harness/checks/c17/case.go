package c17

import (
	"fmt"
	"math"
	"math/big"
	"strconv"
	"strings"

	"verif/harness/taref"
)

// ---- materialised case (JSON-able; replay files carry exactly this) ----

type BufSpec struct {
	ID   int    `json:"id"`
	N    int    `json:"n"`
	Go   bool   `json:"go,omitempty"`   // backing store supplied by Go (sub-slice of a canary slab)
	Pre  int    `json:"pre,omitempty"`  // bytes of slab before the buffer (alignment = Pre % 8)
	Post int    `json:"post,omitempty"` // bytes of slab after the buffer
	Cap3 bool   `json:"cap3,omitempty"` // slab[off:off+n:off+n] (capacity limited) instead of slab[off:off+n]
	Init []byte `json:"init,omitempty"` // initial contents of a Go-supplied buffer
	Salt int    `json:"salt,omitempty"` // canary pattern salt
}

type Eff struct {
	K   string `json:"k"`
	B   int    `json:"b,omitempty"`
	V   int    `json:"v,omitempty"`
	I   int    `json:"i,omitempty"`
	Val *Arg   `json:"val,omitempty"`
	Err string `json:"err,omitempty"`
	N   int    `json:"n,omitempty"`
}

// Arg is one argument value.
// K: "u" undefined, "null", "b" bool, "n" number (F = float64 bits), "g" bigint (S decimal), "s" string, "t" tricky (I id, E effects,
// R return primitive), "v" view ref (I), "buf" buffer ref (I), "arr" Array (L), "al" array-like (L, Len), "cb" callback (I id, At, E, L rets),
// "cmp" comparator (I id, S kind, E), "obj" plain object, "sym" (a Symbol).
type Arg struct {
	K   string `json:"k"`
	F   uint64 `json:"f,omitempty"`
	S   string `json:"s,omitempty"`
	I   int    `json:"i,omitempty"`
	B   bool   `json:"b,omitempty"`
	At  int    `json:"at,omitempty"`
	E   []Eff  `json:"e,omitempty"`
	R   *Arg   `json:"r,omitempty"`
	L   []Arg  `json:"l,omitempty"`
	Len *Arg   `json:"len,omitempty"`
}

// Species describes a constructor / species override installed by setCtor / setBufCtor.
type Species struct {
	Kind  string `json:"kind"`
	ID    int    `json:"id,omitempty"`
	E     []Eff  `json:"e,omitempty"`
	Res   string `json:"res,omitempty"`
	T     int    `json:"t,omitempty"`
	Delta int    `json:"delta,omitempty"`
	Buf   int    `json:"buf,omitempty"`
	Off   int    `json:"off,omitempty"`
	Len   int    `json:"len,omitempty"`
	View  int    `json:"view,omitempty"`
}

// Op is one step. V is the receiver (view, buffer or data view id depending on K).
type Op struct {
	K    string   `json:"k"`
	V    int      `json:"v"`
	T    int      `json:"t,omitempty"`
	A    []Arg    `json:"a,omitempty"`
	Out  int      `json:"out,omitempty"`  // slot for a resulting new view / data view
	OutB int      `json:"outb,omitempty"` // slot for a resulting new buffer
	X    string   `json:"x,omitempty"`
	N    int      `json:"n,omitempty"`
	At   int      `json:"at,omitempty"`
	E    []Eff    `json:"e,omitempty"`
	Sp   *Species `json:"sp,omitempty"`
	Raw  []byte   `json:"raw,omitempty"`
	Fl   string   `json:"fl,omitempty"` // define: descriptor flags; get/put/...: ""
}

type Case struct {
	Tag  string    `json:"tag,omitempty"`
	Bufs []BufSpec `json:"bufs"`
	Ops  []Op      `json:"ops"`
}

// ---- helpers to build args ----

func num(f float64) Arg      { return Arg{K: "n", F: math.Float64bits(f)} }
func und() Arg               { return Arg{K: "u"} }
func str(s string) Arg       { return Arg{K: "s", S: s} }
func big_(s string) Arg      { return Arg{K: "g", S: s} }
func viewRef(id int) Arg     { return Arg{K: "v", I: id} }
func (a Arg) float() float64 { return math.Float64frombits(a.F) }
func tricky(id int, e []Eff, r Arg) Arg {
	return Arg{K: "t", I: id, E: e, R: &r}
}

// ---- model conversion ----

func effsModel(es []Eff) []taref.Effect {
	out := make([]taref.Effect, len(es))
	for i, e := range es {
		out[i] = taref.Effect{Kind: e.K, Buf: e.B, View: e.V, Index: e.I, Err: e.Err, N: e.N}
		if e.Val != nil {
			out[i].Val = e.Val.model()
		}
	}
	return out
}

func argsModel(as []Arg) []taref.Value {
	out := make([]taref.Value, len(as))
	for i := range as {
		out[i] = as[i].model()
	}
	return out
}

// model converts an Arg into a model value. View / buffer references are resolved later by the executor (it needs the world).
type viewRefV struct{ id int }
type bufRefV struct{ id int }

func (a *Arg) model() taref.Value {
	switch a.K {
	case "u":
		return taref.Undefined
	case "null":
		return taref.Null
	case "b":
		return a.B
	case "n":
		return a.float()
	case "g":
		i, _ := new(big.Int).SetString(a.S, 10)
		return i
	case "s":
		return a.S
	case "t":
		return &taref.Tricky{ID: a.I, Effects: effsModel(a.E), Ret: a.R.model()}
	case "v":
		return viewRefV{a.I}
	case "buf":
		return bufRefV{a.I}
	case "arr":
		return &taref.Array{IsArray: true, Elems: argsModel(a.L)}
	case "al":
		return &taref.Array{Elems: argsModel(a.L), LengthVal: a.Len.model()}
	case "cb":
		return &taref.Callback{ID: a.I, At: a.At, Effects: effsModel(a.E), Rets: argsModel(a.L)}
	case "cmp":
		return &taref.Comparator{ID: a.I, Kind: a.S, Effects: effsModel(a.E)}
	case "obj", "sym":
		return &taref.Opaque{Tag: a.K}
	}
	panic("bad arg kind " + a.K)
}

func (s *Species) model() *taref.CtorSpec {
	c := &taref.CtorSpec{Kind: s.Kind}
	if s.Kind == "species-fn" {
		c.Fn = &taref.SpeciesFn{ID: s.ID, Effects: effsModel(s.E), Result: s.Res, Type: taref.ElemType(s.T), Delta: s.Delta, Buf: s.Buf, Off: s.Off, Len: s.Len, View: s.View}
	}
	return c
}

// ---- JS rendering ----

// jsCtx collects the non-literal doubles of a case into the K table.
type jsCtx struct {
	consts []float64
	index  map[uint64]int
}

func (c *jsCtx) numLit(f float64) string {
	switch {
	case f != f:
		return "NaN"
	case math.IsInf(f, 1):
		return "Infinity"
	case math.IsInf(f, -1):
		return "-Infinity"
	case f == 0 && math.Signbit(f):
		return "-0"
	case f == math.Trunc(f) && math.Abs(f) < 9007199254740992:
		return strconv.FormatInt(int64(f), 10)
	}
	b := math.Float64bits(f)
	if c.index == nil {
		c.index = map[uint64]int{}
	}
	i, ok := c.index[b]
	if !ok {
		i = len(c.consts)
		c.consts = append(c.consts, f)
		c.index[b] = i
	}
	return "K[" + strconv.Itoa(i) + "]"
}

func jsString(s string) string {
	var b strings.Builder
	b.WriteByte('"')
	for _, r := range s {
		switch {
		case r == '"' || r == '\\':
			b.WriteByte('\\')
			b.WriteRune(r)
		case r >= 0x20 && r < 0x7f:
			b.WriteRune(r)
		case r >= 0x10000:
			r -= 0x10000
			fmt.Fprintf(&b, "\\u%04x\\u%04x", 0xd800+(r>>10), 0xdc00+(r&0x3ff))
		default:
			fmt.Fprintf(&b, "\\u%04x", r)
		}
	}
	b.WriteByte('"')
	return b.String()
}

func (c *jsCtx) effs(es []Eff) string {
	if len(es) == 0 {
		return "null"
	}
	var b strings.Builder
	b.WriteString("function(){")
	for _, e := range es {
		switch e.K {
		case "detach":
			fmt.Fprintf(&b, "B[%d]&&detach(B[%d]);", e.B, e.B)
		case "store":
			fmt.Fprintf(&b, "V[%d]&&(V[%d][%d]=%s);", e.V, e.V, e.I, c.arg(e.Val))
		case "shrink":
			fmt.Fprintf(&b, "Array.isArray(S)&&S.length>%d&&(S.length=%d);", e.N, e.N)
		case "throw":
			fmt.Fprintf(&b, "throw new %s(\"x\");", e.Err)
		}
	}
	b.WriteString("}")
	return b.String()
}

func (c *jsCtx) args(as []Arg) string {
	parts := make([]string, len(as))
	for i := range as {
		parts[i] = c.arg(&as[i])
	}
	return strings.Join(parts, ",")
}

func (c *jsCtx) arg(a *Arg) string {
	switch a.K {
	case "u":
		return "undefined"
	case "null":
		return "null"
	case "b":
		if a.B {
			return "true"
		}
		return "false"
	case "n":
		return c.numLit(a.float())
	case "g":
		if strings.HasPrefix(a.S, "-") {
			return "(" + a.S + "n)"
		}
		return a.S + "n"
	case "s":
		return jsString(a.S)
	case "t":
		return fmt.Sprintf("mk(%d,%s,%s)", a.I, c.effs(a.E), c.arg(a.R))
	case "v":
		return fmt.Sprintf("V[%d]", a.I)
	case "buf":
		return fmt.Sprintf("B[%d]", a.I)
	case "arr":
		return "(S=[" + c.args(a.L) + "])"
	case "al":
		var b strings.Builder
		fmt.Fprintf(&b, "(S={length:%s", c.arg(a.Len))
		for i := range a.L {
			fmt.Fprintf(&b, ",%d:%s", i, c.arg(&a.L[i]))
		}
		b.WriteString("})")
		return b.String()
	case "cb":
		return fmt.Sprintf("cb(%d,%d,%s,[%s])", a.I, a.At, c.effs(a.E), c.args(a.L))
	case "cmp":
		return fmt.Sprintf("cmp(%d,%s,%s)", a.I, jsString(a.S), c.effs(a.E))
	case "obj":
		return "({})"
	case "sym":
		return "Symbol()"
	}
	panic("bad arg kind " + a.K)
}

func tname(t int) string { return taref.ElemType(t).Name() }

func (c *jsCtx) species(s *Species, recv string, isBuf bool) string {
	switch s.Kind {
	case "undefined":
		return "undefined"
	case "nonobject":
		return "5"
	case "species-undefined":
		return "{[Symbol.species]:undefined}"
	case "species-null":
		return "{[Symbol.species]:null}"
	case "species-notctor":
		return "{[Symbol.species]:()=>1}"
	}
	var mk string
	switch s.Res {
	case "new":
		mk = fmt.Sprintf("function(n){return new %s(Math.max(0,n+(%d)))}", tname(s.T), s.Delta)
	case "view":
		mk = fmt.Sprintf("function(n){return B[%d]?new %s(B[%d],%d,%d):{}}", s.Buf, tname(s.T), s.Buf, s.Off, s.Len)
	case "existing":
		mk = fmt.Sprintf("function(n){return V[%d]||{}}", s.View)
	case "detached":
		mk = fmt.Sprintf("function(n){var t=new %s(n);detach(t.buffer);return t}", tname(s.T))
	case "plain":
		mk = "function(n){return {}}"
	case "newbuf":
		mk = fmt.Sprintf("function(n){return new ArrayBuffer(Math.max(0,n+(%d)))}", s.Delta)
	case "samebuf":
		mk = fmt.Sprintf("function(n){return %s}", recv)
	case "existingbuf":
		mk = fmt.Sprintf("function(n){return B[%d]||{}}", s.Buf)
	case "detachedbuf":
		mk = "function(n){var t=new ArrayBuffer(n);detach(t);return t}"
	default:
		panic("bad species result " + s.Res)
	}
	fn := "spTA"
	if isBuf {
		fn = "spBuf"
	}
	return fmt.Sprintf("{[Symbol.species]:%s(%d,%s,%s)}", fn, s.ID, c.effs(s.E), mk)
}

// prelude defines the script-side helpers. B/V/DV are sparse registries, P the hidden probe views, L the callback log.
const prelude = `
var B=[],V=[],DV=[],P=[],L=[],K=[],S=null;
function mk(id,eff,ret){var f=function(){L.push("t"+id);if(eff)eff();return ret};return {valueOf:f,toString:f}}
function cb(id,at,eff,rets){var n=0;return function(){var i=n++;L.push("c"+id);for(var j=0;j<arguments.length;j++)L.push(arguments[j]);if(i===at&&eff)eff();return rets.length?rets[i%rets.length]:undefined}}
function cls(x){return typeof x==="bigint"?(x<0n?0:x>0n?2:1):(x!==x?3:x<0?0:x>0?2:1)}
function cmp(id,kind,eff){var n=0;return function(a,b){if(n++===0){L.push("k"+id);if(eff)eff()}switch(kind){case "asc":return a<b?-1:a>b?1:0;case "desc":return a<b?1:a>b?-1:0;case "sign":return cls(a)-cls(b);}return 0}}
function spTA(id,eff,mkres){return function(a0,a1,a2){L.push("s"+id);var n=0;if(typeof a0==="number"){L.push(a0);n=a0}else if(isDet(a0))L.push("det");else{L.push(a0,a1,a2);n=a2}if(eff)eff();return mkres(n)}}
function spBuf(id,eff,mkres){return function(n){L.push("s"+id,n);if(eff)eff();return mkres(n)}}
function regB(i,b){B[i]=b;try{P[i]=new Uint8Array(b)}catch(e){P[i]=null}}
function chk(){var out=[];for(var i=0;i<B.length;i++){var p=P[i];if(!B[i]||!p){out.push(-1,"");continue}out.push(p.length,String.fromCharCode.apply(null,p))}return out}
function geo(){var out=[];for(var i=0;i<V.length;i++){var v=V[i];if(!v){out.push(-1,-1,-1,-1);continue}out.push(v.length,v.byteOffset,v.byteLength,B.indexOf(v.buffer))}return out}
function iter(v,kind,at,eff,limit,again){var it=kind==="sym"?v[Symbol.iterator]():v[kind]();var out=[];for(var i=0;i<limit;i++){if(i===at&&eff)eff();var r=it.next();if(r.done){out.push("done");if(again){if(eff)eff();out.push(it.next().done?"done":"live")}break}out.push(r.value)}return out}
function gopd(v,k){var d=Object.getOwnPropertyDescriptor(v,k);return d===undefined?undefined:[d.value,d.writable,d.enumerable,d.configurable]}
function nkeys(v){var ks=Reflect.ownKeys(v),n=0;for(var i=0;i<ks.length;i++){if(typeof ks[i]==="string"&&String(ks[i]>>>0)===ks[i])n++}return n}
function cctor(id,k){return function(n){L.push("o"+id,n);return V[k]||{}}}
function tls(v,id,at,eff){var n=0,f=function(){"use strict";var i=n++;L.push("l"+id,this);if(i===at&&eff)eff();return "e"+i};var sn=Number.prototype.toLocaleString,sb=BigInt.prototype.toLocaleString;Number.prototype.toLocaleString=f;BigInt.prototype.toLocaleString=f;try{return v.toLocaleString()}finally{Number.prototype.toLocaleString=sn;BigInt.prototype.toLocaleString=sb}}
function setCtor(o,c){Object.defineProperty(o,"constructor",{value:c,writable:true,configurable:true,enumerable:false})}
`

func flagsDesc(v string, hasValue bool, flags string) string {
	var parts []string
	if strings.Contains(flags, "a") {
		parts = append(parts, "get:function(){return 1}")
	} else if hasValue {
		parts = append(parts, "value:"+v)
	}
	for _, f := range flags {
		switch f {
		case 'w':
			parts = append(parts, "writable:true")
		case 'W':
			parts = append(parts, "writable:false")
		case 'e':
			parts = append(parts, "enumerable:true")
		case 'E':
			parts = append(parts, "enumerable:false")
		case 'c':
			parts = append(parts, "configurable:true")
		case 'C':
			parts = append(parts, "configurable:false")
		}
	}
	return "{" + strings.Join(parts, ",") + "}"
}

// js renders the script executed for a (script-side) op; "" for Go-side ops.
func (c *jsCtx) js(op *Op) string {
	v := fmt.Sprintf("V[%d]", op.V)
	a := c.args(op.A)
	switch op.K {
	case "at", "copyWithin", "fill", "includes", "indexOf", "lastIndexOf", "join", "reverse", "set", "slice", "subarray", "sort", "toSorted",
		"toReversed", "with", "toHex", "toLocaleString", "toString", "every", "some", "forEach", "find", "findIndex", "findLast", "findLastIndex",
		"filter", "map", "reduce", "reduceRight":
		return fmt.Sprintf("%s.%s(%s)", v, op.K, a)
	case "setFromHex":
		return fmt.Sprintf("(function(){var r=%s.setFromHex(%s);return [r.read,r.written]})()", v, a)
	case "iter":
		return fmt.Sprintf("iter(%s,%s,%d,%s,%d,%v)", v, jsString(op.X), op.At, c.effs(op.E), op.N, op.Fl == "again")
	case "tls":
		return fmt.Sprintf("tls(%s,%d,%d,%s)", v, op.N, op.At, c.effs(op.E))
	case "spread":
		return fmt.Sprintf("[...%s]", v)
	case "get":
		return fmt.Sprintf("%s[%s]", v, jsString(op.X))
	case "put":
		return fmt.Sprintf("(%s[%s]=%s)", v, jsString(op.X), a)
	case "has":
		return fmt.Sprintf("(%s in %s)", jsString(op.X), v)
	case "del":
		return fmt.Sprintf("Reflect.deleteProperty(%s,%s)", v, jsString(op.X))
	case "define":
		val := ""
		if len(op.A) > 0 {
			val = c.arg(&op.A[0])
		}
		return fmt.Sprintf("Reflect.defineProperty(%s,%s,%s)", v, jsString(op.X), flagsDesc(val, len(op.A) > 0, op.Fl))
	case "gopd":
		return fmt.Sprintf("gopd(%s,%s)", v, jsString(op.X))
	case "keys":
		return fmt.Sprintf("nkeys(%s)", v)
	case "newLen":
		return fmt.Sprintf("new %s(%s)", tname(op.T), a)
	case "newTA", "newObj":
		return fmt.Sprintf("new %s(%s)", tname(op.T), a)
	case "newView":
		return fmt.Sprintf("new %s(B[%d]%s)", tname(op.T), op.V, prefixComma(a))
	case "of":
		return fmt.Sprintf("%s.of(%s)", tname(op.T), a)
	case "ofC":
		return fmt.Sprintf("Uint8Array.of.call(cctor(%d,%d)%s)", op.N, op.V, prefixComma(a))
	case "fromC":
		return fmt.Sprintf("Uint8Array.from.call(cctor(%d,%d)%s)", op.N, op.V, prefixComma(a))
	case "fromHex":
		return fmt.Sprintf("Uint8Array.fromHex(%s)", a)
	case "setCtor":
		return fmt.Sprintf("setCtor(%s,%s)", v, c.species(op.Sp, v, false))
	case "setBufCtor":
		b := fmt.Sprintf("B[%d]", op.V)
		return fmt.Sprintf("setCtor(%s,%s)", b, c.species(op.Sp, b, true))
	case "bufNew":
		return fmt.Sprintf("new ArrayBuffer(%s)", a)
	case "bufSlice":
		return fmt.Sprintf("B[%d].slice(%s)", op.V, a)
	case "bufLen":
		return fmt.Sprintf("B[%d].byteLength", op.V)
	case "detach":
		return fmt.Sprintf("detach(B[%d])", op.V)
	case "dvNew":
		return fmt.Sprintf("new DataView(B[%d]%s)", op.V, prefixComma(a))
	case "dvGet":
		return fmt.Sprintf("DV[%d].get%s(%s)", op.V, taref.ElemType(op.T).DVName(), a)
	case "dvSet":
		return fmt.Sprintf("DV[%d].set%s(%s)", op.V, taref.ElemType(op.T).DVName(), a)
	case "dvGeom":
		return fmt.Sprintf("[DV[%d].byteLength,DV[%d].byteOffset]", op.V, op.V)
	}
	return ""
}

func prefixComma(s string) string {
	if s == "" {
		return ""
	}
	return "," + s
}
