package c17

import (
	"fmt"
	"os"
	"regexp"
	"sort"
	"strconv"
	"strings"
	"testing"

	"verif/harness/core"
)

// TestDev is a development aid: C17_DEV_N=<n> [C17_DEV_START=<i>] [VERIF_SEED=<s>] go test -tags verif -run Dev -v
// runs cases in-process without minimisation and prints a histogram of violation classes.
func TestDev(t *testing.T) {
	n, _ := strconv.Atoi(os.Getenv("C17_DEV_N"))
	if n == 0 {
		t.Skip("C17_DEV_N not set")
	}
	start, _ := strconv.Atoi(os.Getenv("C17_DEV_START"))
	seed := uint64(1)
	if s, err := strconv.ParseUint(os.Getenv("VERIF_SEED"), 10, 64); err == nil {
		seed = s
	}
	digits := regexp.MustCompile(`[0-9]+`)
	type cls struct {
		n   int
		idx int
		ex  string
	}
	classes := map[string]*cls{}
	st := core.NewStats()
	nt := 0
	for i := start; i < start+n; i++ {
		c := &core.Ctx{Property: "C17", Tier: "quick", Seed: seed, Index: i, Rng: core.CaseRng(seed, "C17", i), Stats: st}
		cs := materialise(c)
		out := execute(c, st, cs)
		if out.nontrivial {
			nt++
		}
		if out.inconclusive != "" {
			st.Inc("dev_inconclusive:" + out.inconclusive)
		}
		if out.viol != nil {
			lines := strings.Split(out.viol.detail, "\n")
			k := out.viol.monitor + "|" + out.viol.opKind + "|" + core.Trunc(digits.ReplaceAllString(strings.Join(lines[1:min(3, len(lines))], " / "), "#"), 160)
			if classes[k] == nil {
				classes[k] = &cls{idx: i, ex: out.viol.detail}
			}
			classes[k].n++
		}
	}
	var keys []string
	for k := range classes {
		keys = append(keys, k)
	}
	sort.Slice(keys, func(a, b int) bool { return classes[keys[a]].n > classes[keys[b]].n })
	total := 0
	for _, k := range keys {
		c := classes[k]
		total += c.n
		fmt.Printf("%5d  idx=%d  %s\n", c.n, c.idx, k)
	}
	fmt.Printf("cases=%d nontrivial=%d violating=%d classes=%d\n", n, nt, total, len(keys))
	if os.Getenv("C17_DEV_STATS") != "" {
		var ks []string
		for k := range st.Counters {
			ks = append(ks, k)
		}
		sort.Strings(ks)
		for _, k := range ks {
			fmt.Printf("  %-50s %d\n", k, st.Counters[k])
		}
	}
}

// TestAsanDriver: C17_ASAN_BIN=<asan build of cmd/c17> [C17_ASAN_CASES=<n>] go test -tags verif -run AsanDriver -v
func TestAsanDriver(t *testing.T) {
	bin := os.Getenv("C17_ASAN_BIN")
	if bin == "" {
		t.Skip("C17_ASAN_BIN not set")
	}
	dir := t.TempDir()
	res := runAsan(bin, 1, dir)
	fmt.Printf("evidence: %v\ncounters: %v\nviolations: %d\n", res.evidence, res.counters, len(res.viols))
	seen := map[string]int{}
	for _, v := range res.viols {
		seen[v.res.Monitor+" | "+core.Trunc(v.res.Signature, 90)]++
	}
	for k, n := range seen {
		fmt.Printf("%4d %s\n", n, k)
	}
}
