// Package c17: "Typed arrays / DataViews never touch memory outside their buffer; bytes match spec".
//
// Workload: op sequences (<= 25) over 1-3 ArrayBuffers of 0..64 bytes, half allocated by script and half supplied by Go through
// Runtime.NewArrayBuffer as sub-slices of canary-filled slabs (aligned and unaligned start, capacity limited or not), with views of all
// 11 element types at every aligned offset/length, subarray chains, species constructors, every %TypedArray%.prototype method,
// DataView accessors, ArrayBuffer.prototype.slice, the Uint8Array hex methods, integer-indexed exotic object operations, and argument
// objects / callbacks / species constructors that detach or write to buffers (through a Go native calling ArrayBuffer.Detach()).
//
// Monitors: (i) ptr hook b (VerifAssertion through gj.Call), (ii) canary scan of every slab after every step, (iii) result / exception
// constructor / user-code invocation log of every op and the whole contents of every buffer after every step against the byte-array
// reference model harness/taref, (iv) aliasing of ArrayBuffer.Bytes(), Export(), ExportTo(&[]byte), hidden Uint8Array probe views and
// Go-side writes, plus "no write into the former backing store after Detach()", (v) Export()/ExportTo of views over detached buffers,
// (vi) thorough tier: the same workload once more in an ASan build (Post).
package c17

import (
	"encoding/json"
	"fmt"
	"os"

	"path/filepath"
	"strconv"
	"strings"

	"verif/harness/core"
)

// asanCases is the length of the ASan pass' case list (the first cases of the thorough list). C17_ASAN_CASES is a development
// override used only to try the ASan driver quickly; registered commands never set it.
var asanCases = func() int {
	if v, err := strconv.Atoi(os.Getenv("C17_ASAN_CASES")); err == nil && v > 0 {
		return v
	}
	return 150000
}()

func Check() *core.Check {
	return &core.Check{
		ID:    "C17",
		Level: "exploration",
		Rule: "case = op sequence (<= 25 ops) over 1-3 ArrayBuffers of 0..64 bytes (even buffer slots supplied by Go inside canary slabs at aligned/unaligned offsets, " +
			"with and without 3-index capacity limit; odd ones allocated by script), views of all 11 element types at aligned offsets/lengths (and misaligned/overlong ones that must be rejected), " +
			"subarray chains, species constructors returning shorter/longer/different-type/overlapping/existing/detached/non-typed-array results, every %TypedArray%.prototype method, " +
			"DataView get/set (offset x endianness x type), ArrayBuffer.prototype.slice, Uint8Array hex methods, exotic [[Get]]/[[Set]]/[[Has]]/[[Delete]]/[[DefineOwnProperty]], " +
			"arguments/callbacks/comparators whose valueOf/toString/call detaches or writes a buffer or throws, element values from numeric boundary classes; " +
			"every op result / exception constructor / user-code call log and all buffer bytes compared with harness/taref after every step; " +
			"non-trivial = the sequence has >= 1 view with non-zero byteOffset and >= 1 executed coercion/callback side effect; distinct = distinct materialised cases",
		Assumptions: []string{
			"fixed-length, non-shared ArrayBuffers only (goja has no resizable buffers / SharedArrayBuffer)",
			"a stored NaN may have any NaN encoding (NumericToRawBytes): the model adopts the observed payload after checking that it is a NaN",
			"an op that reads back, through another element type or alignment, a NaN it stored itself ends the case inconclusive (the encoding is implementation-chosen and only adopted after the op)",
			"comparators are consistent (total preorders), so the stable sort result is unique; comparator call counts are not compared, only that its first call happens for length >= 2",
			"%TypedArray%.prototype.toLocaleString: only the exception class and 'returns a string' are compared",
			"arguments handed to a species constructor by subarray() on an already detached receiver are not compared (ES2021 vs ES2024 differ)",
			"while the C05 finding on toInt32/ToInteger for |x| >= 2^63 is open (exclHugeNumbers): element values in the band [2^63, 2^85) are not generated, and a case in which a Number with 2^63 <= |x| < 2^85 is converted to an integer element type (e.g. buffer bytes reinterpreted through a float view) ends inconclusive at that step",
			"the ASan pass (thorough) executes the first 150000 cases of the list in a separate -asan build; an ASan report or child death there is a violation",
		},
		Cases: func(tier string) int {
			switch tier {
			case "thorough":
				return 1000000
			case "asan":
				return asanCases
			}
			return 40000
		},
		MinConclusive: func(tier string) int { return 1000 },
		NumPinned:     len(pinned),
		CaseTimeoutS:  60,
		Run:           run,
		Post:          post,
	}
}

func materialise(c *core.Ctx) *Case {
	if c.Index < 0 {
		return cloneCase(&pinned[-c.Index-1])
	}
	return genCase(c)
}

type outcome struct {
	viol          *violation
	inconclusive  string
	nontrivial    bool
	trace         []string
	executedSteps int
}

func execute(c *core.Ctx, st *core.Stats, cs *Case) outcome {
	x := newExec(c, st, cs)
	x.run()
	nt := x.hasOffsetView && x.w.SideEffects > 0
	return outcome{viol: x.viol, inconclusive: x.inconclusive, nontrivial: nt, trace: x.trace, executedSteps: x.executed}
}

// script renders the case as the JS source lines it executes (canonical form used in signatures and reports).
func script(cs *Case) string {
	var b strings.Builder
	for _, s := range cs.Bufs {
		if s.Go {
			cap3 := ""
			if s.Cap3 {
				cap3 = ":cap"
			}
			fmt.Fprintf(&b, "B[%d] = <Go> NewArrayBuffer(slab[%d:%d%s]) // %d bytes, start%%8=%d\n", s.ID, s.Pre, s.Pre+s.N, cap3, s.N, s.Pre%8)
		} else {
			fmt.Fprintf(&b, "B[%d] = new ArrayBuffer(%d)\n", s.ID, s.N)
		}
	}
	var js jsCtx
	for i := range cs.Ops {
		op := &cs.Ops[i]
		src := js.js(op)
		if src == "" {
			src = fmt.Sprintf("<Go> %s(%d, n=%d, raw=%x, %s)", op.K, op.V, op.N, op.Raw, op.X)
		}
		switch {
		case op.K == "dvNew":
			fmt.Fprintf(&b, "DV[%d] = %s\n", op.Out, src)
		case op.K == "bufNew" || op.K == "bufSlice":
			fmt.Fprintf(&b, "B[%d] = %s\n", op.OutB, src)
		case op.Out != 0 || op.OutB != 0 || op.K == "newView":
			fmt.Fprintf(&b, "V[%d] (B[%d] if new) = %s\n", op.Out, op.OutB, src)
		default:
			fmt.Fprintf(&b, "%s\n", src)
		}
	}
	for i, k := range js.consts {
		fmt.Fprintf(&b, "K[%d] = %s\n", i, strconv.FormatFloat(k, 'g', -1, 64))
	}
	return b.String()
}

func signature(v *violation, cs *Case) string {
	return v.monitor + "|" + v.opKind + "|" + script(cs)
}

func cloneCase(cs *Case) *Case {
	b, _ := json.Marshal(cs)
	var c2 Case
	json.Unmarshal(b, &c2)
	return &c2
}

// minimise removes ops (and unused buffers' contents stay) while the same monitor fires on the same op kind.
func minimise(c *core.Ctx, cs *Case, v *violation) (*Case, *violation) {
	budget := 200
	cur, curV := cs, v
	try := func(cand *Case) bool {
		if budget <= 0 {
			return false
		}
		budget--
		qc := &core.Ctx{Property: c.Property, Tier: c.Tier, Seed: c.Seed, Index: c.Index, Rng: core.CaseRng(c.Seed, c.Property, c.Index), Stats: core.NewStats()}
		out := execute(qc, qc.Stats, cand)
		if out.viol != nil && out.viol.monitor == v.monitor && out.viol.opKind == v.opKind {
			cur, curV = cand, out.viol
			return true
		}
		return false
	}
	// drop everything after the failing step
	if v.step >= 0 && v.step+1 < len(cur.Ops) {
		cand := cloneCase(cur)
		cand.Ops = cand.Ops[:v.step+1]
		try(cand)
	}
	for chunk := 8; chunk >= 1; chunk /= 2 {
		for i := len(cur.Ops) - 1 - chunk; i >= 0 && budget > 0; i -= chunk {
			lo := i
			hi := i + chunk
			if hi > len(cur.Ops)-1 {
				hi = len(cur.Ops) - 1
			}
			if lo < 0 || lo >= hi {
				continue
			}
			cand := cloneCase(cur)
			cand.Ops = append(cand.Ops[:lo:lo], cand.Ops[hi:]...)
			try(cand)
		}
	}
	// simplify the arguments of the failing op: drop trailing args
	for budget > 0 {
		last := len(cur.Ops) - 1
		if last < 0 || len(cur.Ops[last].A) <= minArgs[cur.Ops[last].K] {
			break
		}
		cand := cloneCase(cur)
		cand.Ops[last].A = cand.Ops[last].A[:len(cand.Ops[last].A)-1]
		if !try(cand) {
			break
		}
	}
	return cur, curV
}

// minArgs: number of leading arguments the model requires to stay inside its domain (the minimiser never drops them).
var minArgs = map[string]int{"set": 1, "newTA": 1, "newObj": 1, "dvSet": 2, "fromHex": 1, "setFromHex": 1, "put": 1, "every": 1, "some": 1, "forEach": 1, "find": 1,
	"findIndex": 1, "findLast": 1, "findLastIndex": 1, "filter": 1, "map": 1, "reduce": 1, "reduceRight": 1, "sort": 0, "toSorted": 0, "define": 0}

var violationsInWorker int

func run(c *core.Ctx) core.Result {
	cs := materialise(c)
	keyB, _ := json.Marshal(cs)
	key := string(keyB)
	if c.Replay {
		fmt.Printf("--- case ---\n%s--- end case ---\n", script(cs))
	}
	out := execute(c, c.Stats, cs)
	if c.Replay && len(out.trace) > 0 {
		fmt.Printf("--- executed ---\n%s\n--- end ---\n", strings.Join(out.trace, "\n"))
	}
	if out.nontrivial {
		c.Stats.Inc("cases_nontrivial")
	}
	if c.Stats.WantSample() && c.Index >= 0 && c.Index%97 == 0 {
		c.Stats.Sample(map[string]any{"index": c.Index, "script": core.Trunc(script(cs), 1500)})
	}
	if out.inconclusive != "" {
		return core.Result{Verdict: core.Inconclusive, Monitor: out.inconclusive, Key: key}
	}
	if out.viol == nil {
		return core.Result{Verdict: core.Held, NonTrivial: out.nontrivial, Key: key}
	}
	v := out.viol
	min := cs
	violationsInWorker++
	if c.Index >= 0 && violationsInWorker <= 12 {
		// minimisation costs up to 200 re-executions; a worker that has already reported a dozen violations reports the rest unminimised
		min, v = minimise(c, cs, v)
	}
	return core.Result{
		Verdict: core.Violated, NonTrivial: true, Key: key, Monitor: v.monitor,
		Detail:    v.detail + "\n--- minimised case ---\n" + script(min),
		Signature: signature(v, min),
		Case:      min,
	}
}

// post runs monitor (vi): the first asanCases cases once more in the ASan build (thorough tier only). The ASan binary is driven with the
// same worker protocol as core's own workers; reports and child deaths are violations attributed to the case in progress.
func post(p *core.PostCtx) {
	if p.Tier != "thorough" {
		return
	}
	self, _ := os.Executable()
	bin := self + "-asan"
	if _, err := os.Stat(bin); err != nil {
		p.Evidence["asan_pass"] = "binary missing: " + bin
		p.Report(core.Result{Verdict: core.Violated, Monitor: "asan-binary-missing", Detail: "the ASan worker binary " + bin + " was not built", Signature: "asan-binary-missing"}, -1<<30)
		return
	}
	res := runAsan(bin, p.Seed, filepath.Join(p.WorkDir, "asan"))
	p.Evidence["asan_pass"] = res.evidence
	for _, v := range res.viols {
		p.Report(v.res, v.idx)
	}
	for k, n := range res.counters {
		p.Stats.Count("asan:"+k, n)
	}
}

type asanViol struct {
	res core.Result
	idx int
}

type asanResult struct {
	evidence map[string]any
	viols    []asanViol
	counters map[string]int64
}
