package c17

import (
	"math"

	"verif/harness/taref"
)

// pinned regression witnesses: sequences that failed on the pinned tree and were fixed in /repo by the C17-01 … C17-16 patches
// (see /verif/inbox/applied/C17-*.md). They run first in every tier.

func nv(t taref.ElemType, buf, out int, a ...Arg) Op {
	return Op{K: "newView", V: buf, T: int(t), A: a, Out: out, OutB: 90 + out}
}
func n(f float64) Arg           { return num(f) }
func detachEff(b int) []Eff     { return []Eff{{K: "detach", B: b}} }
func script0(id, n int) BufSpec { return BufSpec{ID: id, N: n} }
func gobuf(id, n, pre int, cap3 bool) BufSpec {
	init := make([]byte, n)
	for i := range init {
		init[i] = byte(0xb1 + 17*i)
	}
	return BufSpec{ID: id, N: n, Go: true, Pre: pre, Post: 9, Cap3: cap3, Init: init, Salt: 3}
}
func tb(v bool) Arg { return Arg{K: "b", B: v} }

var pinned = []Case{
	{Tag: "C17-01a set(array-like) element whose valueOf detaches: write into the released slab, later conversions skipped",
		Bufs: []BufSpec{gobuf(0, 16, 8, false)},
		Ops: []Op{nv(taref.Uint8, 0, 0),
			{K: "set", V: 0, A: []Arg{{K: "arr", L: []Arg{n(1), tricky(1, detachEff(0), n(0x77)), n(3), tricky(2, nil, n(4))}}, n(2)}}}},
	{Tag: "C17-01b map: species result detached by the callback / by the mapped value's valueOf",
		Bufs: []BufSpec{script0(0, 8), script0(1, 8), script0(2, 8)},
		Ops: []Op{nv(taref.Uint8, 0, 0), nv(taref.Uint8, 1, 1), nv(taref.Uint8, 2, 2),
			{K: "setCtor", V: 0, Sp: &Species{Kind: "species-fn", ID: 1, Res: "existing", View: 1}},
			{K: "map", V: 0, A: []Arg{{K: "cb", I: 2, At: 1, E: detachEff(1), L: []Arg{n(5)}}}, Out: 5, OutB: 95},
			{K: "setCtor", V: 0, Sp: &Species{Kind: "species-fn", ID: 3, Res: "existing", View: 2}},
			{K: "map", V: 0, A: []Arg{{K: "cb", I: 4, At: -1, L: []Arg{n(7), tricky(5, detachEff(2), n(9)), n(1)}}}, Out: 6, OutB: 96}}},
	{Tag: "C17-01c %TypedArray%.of / from through a constructor returning a reachable view that the items detach",
		Bufs: []BufSpec{script0(0, 8), gobuf(1, 8, 11, true)},
		Ops: []Op{nv(taref.Int16, 0, 0, n(2), n(3)), nv(taref.Uint8, 1, 1, n(1), n(6)),
			{K: "ofC", V: 0, N: 1, A: []Arg{n(1), tricky(2, detachEff(0), n(2)), n(3)}},
			{K: "fromC", V: 1, N: 3, A: []Arg{{K: "arr", L: []Arg{n(9), tricky(4, detachEff(1), n(8)), n(7)}}}}}},
	{Tag: "C17-02 copyWithin: count must be min(final-from, len-to); no TypeError when count = 0",
		Bufs: []BufSpec{gobuf(0, 7, 17, false), script0(1, 8)},
		Ops: []Op{nv(taref.Int8, 0, 0, n(1), n(2)), {K: "copyWithin", V: 0, A: []Arg{n(2)}},
			nv(taref.Uint16, 0, 1, n(0), n(2)), {K: "copyWithin", V: 1, A: []Arg{n(1), n(0)}},
			nv(taref.BigUint64, 1, 2), {K: "copyWithin", V: 2, A: []Arg{tricky(1, detachEff(1), tb(true))}}}},
	{Tag: "C17-03 Export()/ExportTo(&[]byte) of views over a detached buffer; Export() of an empty wide view over a short buffer",
		Bufs: []BufSpec{script0(0, 16), gobuf(1, 4, 15, false), gobuf(2, 5, 8, true)},
		Ops: []Op{nv(taref.Uint16, 0, 0, n(2), n(4)), nv(taref.Uint8, 0, 1, n(0), n(4)), nv(taref.BigInt64, 1, 2, n(0), n(0)),
			{K: "dvNew", V: 2, Out: 0}, {K: "goExport", V: 2, Raw: []byte{1}},
			{K: "detach", V: 0}, {K: "detach", V: 2},
			{K: "goExport", V: 0, Raw: []byte{1}}, {K: "goExport", V: 1, Raw: []byte{1}}, {K: "goExportTo", V: 0, Raw: []byte{1}}, {K: "goExportToDV", V: 0, Raw: []byte{1}}}},
	{Tag: "C17-04 defineProperty on an element with a descriptor without [[Value]]",
		Bufs: []BufSpec{script0(0, 16)},
		Ops: []Op{nv(taref.Uint8, 0, 0, n(1), n(2)), nv(taref.BigUint64, 0, 1, n(8), n(1)),
			{K: "define", V: 0, X: "0", Fl: "wec"}, {K: "define", V: 1, X: "0", Fl: "e"}, {K: "define", V: 0, X: "1", Fl: ""}}},
	{Tag: "C17-05 BigInt64Array fill / includes / indexOf with negative BigInts",
		Bufs: []BufSpec{script0(0, 32)},
		Ops: []Op{nv(taref.BigInt64, 0, 0, n(0), n(3)), {K: "fill", V: 0, A: []Arg{big_("-170")}}, {K: "includes", V: 0, A: []Arg{big_("-170")}},
			{K: "fill", V: 0, A: []Arg{big_("-18446744073709551617"), n(1)}}, {K: "indexOf", V: 0, A: []Arg{big_("-1")}}, {K: "lastIndexOf", V: 0, A: []Arg{big_("-170")}}}},
	{Tag: "C17-06 ArrayBuffer.prototype.slice: detached receiver, validations with newLen = 0",
		Bufs: []BufSpec{script0(0, 8), script0(1, 8), script0(2, 8), script0(3, 8)},
		Ops: []Op{{K: "detach", V: 0}, {K: "bufSlice", V: 0, A: []Arg{n(0), n(1)}, OutB: 10},
			{K: "bufSlice", V: 0, A: []Arg{tricky(1, []Eff{{K: "throw", Err: "URIError"}}, n(0))}, OutB: 11},
			{K: "setBufCtor", V: 1, Sp: &Species{Kind: "species-fn", ID: 2, Res: "samebuf"}}, {K: "bufSlice", V: 1, A: []Arg{n(3), n(3)}, OutB: 12},
			{K: "bufSlice", V: 2, A: []Arg{tricky(3, detachEff(2), n(8))}, OutB: 13},
			{K: "setBufCtor", V: 3, Sp: &Species{Kind: "species-fn", ID: 4, Res: "detachedbuf"}}, {K: "bufSlice", V: 3, A: []Arg{n(2), n(2)}, OutB: 14}}},
	{Tag: "C17-07 fill converts the value before start and end",
		Bufs: []BufSpec{script0(0, 16)},
		Ops: []Op{nv(taref.Uint8, 0, 0, n(2), n(4)), {K: "fill", V: 0, A: []Arg{tricky(1, nil, n(1)), tricky(2, nil, n(0)), tricky(3, nil, n(4))}},
			nv(taref.BigInt64, 0, 1, n(8), n(1)), {K: "fill", V: 1, A: []Arg{n(7), tricky(4, detachEff(0), n(0))}}}},
	{Tag: "C17-08 [[ContentType]] checks (constructor, set, species)",
		Bufs: []BufSpec{script0(0, 32)},
		Ops: []Op{nv(taref.Float64, 0, 0, n(8), n(0)), {K: "newTA", T: int(taref.BigInt64), A: []Arg{viewRef(0)}, Out: 5, OutB: 95},
			nv(taref.BigInt64, 0, 1, n(8), n(2)), nv(taref.Float32, 0, 2, n(24), n(0)), {K: "set", V: 1, A: []Arg{viewRef(2)}},
			nv(taref.Uint8, 0, 3, n(0), n(1)), nv(taref.BigInt64, 0, 4), {K: "set", V: 3, A: []Arg{viewRef(4)}},
			{K: "setCtor", V: 1, Sp: &Species{Kind: "species-fn", ID: 1, Res: "new", T: int(taref.Float64), Delta: 2}},
			{K: "subarray", V: 1, Out: 6, OutB: 96}, {K: "slice", V: 1, A: []Arg{n(1), n(1)}, Out: 7, OutB: 97},
			{K: "filter", V: 1, A: []Arg{{K: "cb", I: 2, At: -1, L: []Arg{tb(false)}}}, Out: 8, OutB: 98}}},
	{Tag: "C17-09 toLocaleString on an empty array over a detached buffer",
		Bufs: []BufSpec{script0(0, 0), gobuf(1, 8, 8, false)},
		Ops:  []Op{nv(taref.Uint8, 0, 0), nv(taref.Int16, 1, 1, n(8), n(0)), {K: "detach", V: 0}, {K: "detach", V: 1}, {K: "toLocaleString", V: 0}, {K: "toLocaleString", V: 1}}},
	{Tag: "C17-10 a failing ToIndex must not run the user's conversion twice",
		Bufs: []BufSpec{script0(0, 8)},
		Ops: []Op{nv(taref.Int16, 0, 0, tricky(1, nil, n(-1))), {K: "dvNew", V: 0, A: []Arg{tricky(2, nil, n(-21))}, Out: 0},
			{K: "dvNew", V: 0, Out: 1}, {K: "dvGet", V: 1, T: int(taref.Uint16), A: []Arg{tricky(3, nil, n(-1))}},
			{K: "dvSet", V: 1, T: int(taref.Uint8), A: []Arg{tricky(4, nil, n(math.Inf(1))), n(1)}}, {K: "bufNew", A: []Arg{tricky(5, nil, n(-1))}, OutB: 9}}},
	{Tag: "C17-11 new DataView(buffer, offset, length) whose length conversion detaches the buffer",
		Bufs: []BufSpec{gobuf(0, 24, 24, false)},
		Ops:  []Op{{K: "dvNew", V: 0, A: []Arg{n(22), tricky(1, detachEff(0), n(2))}, Out: 0}}},
	{Tag: "C17-12 own property keys of a typed array over a detached buffer",
		Bufs: []BufSpec{script0(0, 8)},
		Ops:  []Op{nv(taref.Uint16, 0, 0, n(2), n(3)), {K: "keys", V: 0}, {K: "detach", V: 0}, {K: "keys", V: 0}}},
	{Tag: "C17-13 sort with a comparator that writes to the array / throws",
		Bufs: []BufSpec{script0(0, 16)},
		Ops: []Op{{K: "fromHex", A: []Arg{str("00112233445566778899aabbccddeeff")}, Out: 0, OutB: 1},
			{K: "sort", V: 0, A: []Arg{{K: "cmp", I: 1, S: "const0", E: []Eff{{K: "store", V: 0, I: 13, Val: &Arg{K: "n", F: math.Float64bits(2)}}}}}},
			{K: "sort", V: 0, A: []Arg{{K: "cmp", I: 2, S: "desc", E: []Eff{{K: "store", V: 0, I: 0, Val: &Arg{K: "n", F: math.Float64bits(9)}}}}}}}},
	{Tag: "C17-14 assignment to non-index canonical numeric keys converts by content type",
		Bufs: []BufSpec{script0(0, 64)},
		Ops: []Op{nv(taref.Float64, 0, 0, n(40), n(1)), nv(taref.BigUint64, 0, 1, n(32), n(1)),
			{K: "put", V: 0, X: "-0", A: []Arg{big_("4294967296")}}, {K: "put", V: 1, X: "-Infinity", A: []Arg{n(5)}},
			{K: "put", V: 1, X: "1e+21", A: []Arg{tricky(1, nil, str("abc"))}}, {K: "put", V: 1, X: "1.5", A: []Arg{big_("7")}}}},
	{Tag: "C17-15 filter: elements read after the callback detached the buffer are undefined",
		Bufs: []BufSpec{script0(0, 64), script0(1, 16)},
		Ops: []Op{nv(taref.Float32, 0, 0, n(20), n(5)), {K: "filter", V: 0, A: []Arg{{K: "cb", I: 1, At: 1, E: detachEff(0), L: []Arg{tb(true)}}}, Out: 5, OutB: 95},
			nv(taref.BigInt64, 1, 1), {K: "filter", V: 1, A: []Arg{{K: "cb", I: 2, At: 0, E: detachEff(1), L: []Arg{tb(true)}}}, Out: 6, OutB: 96}}},
	{Tag: "C17-16 includes / indexOf / lastIndexOf compare values, not raw encodings",
		Bufs: []BufSpec{script0(0, 16)},
		Ops: []Op{{K: "newObj", T: int(taref.Float32), A: []Arg{{K: "arr", L: []Arg{n(1), n(math.Copysign(0, -1)), n(0)}}}, Out: 0, OutB: 1},
			{K: "indexOf", V: 0, A: []Arg{n(math.Copysign(0, -1))}}, {K: "lastIndexOf", V: 0, A: []Arg{n(0)}}, {K: "lastIndexOf", V: 0, A: []Arg{n(7.006492321624085e-46)}},
			{K: "dvNew", V: 0, Out: 0}, {K: "dvSet", V: 0, T: int(taref.Uint32), A: []Arg{n(4), n(0x7fc00001), tb(true)}}, {K: "dvSet", V: 0, T: int(taref.Uint32), A: []Arg{n(8), n(0xffc12345), tb(true)}},
			nv(taref.Float32, 0, 2), {K: "includes", V: 2, A: []Arg{n(math.NaN())}}, {K: "indexOf", V: 2, A: []Arg{n(math.NaN())}},
			{K: "newObj", T: int(taref.BigUint64), A: []Arg{{K: "arr", L: []Arg{big_("18446744073709551615")}}}, Out: 3, OutB: 3},
			{K: "indexOf", V: 3, A: []Arg{big_("-1")}}, {K: "includes", V: 3, A: []Arg{big_("18446744073709551615")}}}},
	{Tag: "C17-17 toLocaleString: an element's toLocaleString detaches the buffer (remaining elements are undefined -> empty strings; no out-of-buffer read)",
		Bufs: []BufSpec{script0(0, 8), gobuf(1, 12, 9, false)},
		Ops: []Op{nv(taref.Uint8, 0, 0, n(2), n(3)), {K: "tls", V: 0, N: 1, At: 0, E: detachEff(0)},
			nv(taref.Float32, 1, 1, n(4), n(2)), {K: "tls", V: 1, N: 2, At: 0, E: detachEff(1)}}},
}
