package c17

// pinned regression witnesses (materialised cases as JSON): inputs that failed on the pinned tree.
var pinned = []string{}
