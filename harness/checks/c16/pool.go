package c16

import (
	"fmt"
	"math"
	"math/big"
	"strings"
	"sync"
	"sync/atomic"

	"github.com/dop251/goja"

	"verif/harness/core"
	"verif/harness/gj"
)

// Part (b): a pool of primitive Values is created on one Runtime / by package-level constructors on the worker's main
// goroutine and handed to N fresh Runtimes on N goroutines, which perform string / symbol / number operations on them at the
// same time — through scripts (globals p0..pk) and through the Go API (String methods, Export, SameAs, ...).
// The reference is the same operation list executed sequentially on a second pool built from the same recipe (so the
// shared pool is never touched — in particular never scanned — before it is shared).

type poolRecipe struct {
	Kind string `json:"kind"`
	Arg  string `json:"arg,omitempty"`
	A    int    `json:"a,omitempty"`
	B    int    `json:"b,omitempty"`
}

var asciiLong = []string{
	"a plain ASCII Go string, definitely longer than 16 bytes",
	"0123456789abcdefXYZ",
	"                    padded with spaces                    ",
	"12345678901234567890",
	"constructor-and-__proto__-and-length",
}
var uniLong = []string{
	"ünïcödé Go string, longer than sixteen bytes ☃",
	"ascii prefix that goes on and on and then: 😀",
	"éééééééééé",
	"mixed 漢字 and ASCII and emoji 🚀🚀 tail",
	"invalid utf8 \xff\xfe bytes in a long Go string",
}
var shorts = []string{"", "a", "short ascii", "é", "漢字", "😀", "sixteen bytes!!!"}

func genRecipes(r *core.Rng) []poolRecipe {
	var rs []poolRecipe
	add := func(k, arg string, a, b int) { rs = append(rs, poolRecipe{k, arg, a, b}) }
	// always: unscanned imported strings of both kinds
	add("go-string", core.Pick(r, asciiLong), 0, 0)
	add("go-string", core.Pick(r, uniLong), 0, 0)
	n := r.Range(6, 14)
	for i := 0; i < n; i++ {
		switch r.Intn(16) {
		case 0:
			add("go-string", core.Pick(r, asciiLong), 0, 0)
		case 1:
			add("go-string", core.Pick(r, uniLong), 0, 0)
		case 2:
			add("go-string", core.Pick(r, shorts), 0, 0)
		case 3: // concatenation of two earlier strings (importedString.Concat keeps it unscanned)
			add("concat", "", r.Intn(len(rs)), r.Intn(len(rs)))
		case 4:
			add("substring", "", r.Intn(len(rs)), r.Range(1, 9))
		case 5:
			add("utf16", core.Pick(r, []string{"plain", "bmp", "surrogates", "lone"}), 0, 0)
		case 6:
			add("script", core.Pick(r, []string{`'abc' + 'def'`, `'déf' + 'ghi'`, `'x'.repeat(20)`, `String.fromCharCode(0xD800, 0x61)`, `JSON.stringify({k: "ü and more than sixteen bytes"})`, `JSON.stringify(["ascii only but long enough to matter"])`, "`tmpl ${1 + 1} ☃`", `'Straße'.toUpperCase()`, `[1, 2, 3].join('-')`}), 0, 0)
		case 7:
			add("symbol-new", core.Pick(r, []string{"desc", "", "a description longer than sixteen bytes é"}), 0, 0)
		case 8:
			add("symbol-wellknown", "", r.Intn(12), 0)
		case 9:
			add("symbol-script", core.Pick(r, []string{`Symbol('s')`, `Symbol.for('registered key')`, `Symbol()`}), 0, 0)
		case 10:
			add("bigint", core.Pick(r, []string{"0", "-1", "12345678901234567890123456789012345678901234567890", "-9007199254740993", "255"}), 0, 0)
		case 11:
			add("bigint-script", core.Pick(r, []string{"2n ** 100n", "-(10n ** 30n)", "BigInt.asUintN(64, -1n)"}), 0, 0)
		case 12:
			add("int", "", r.Intn(7), 0)
		case 13:
			add("float", "", r.Intn(8), 0)
		case 14:
			add("misc", core.Pick(r, []string{"true", "false", "null", "undefined"}), 0, 0)
		default:
			add("concat", "", r.Intn(len(rs)), r.Intn(len(rs)))
		}
	}
	return rs
}

var wellKnown = []*goja.Symbol{goja.SymHasInstance, goja.SymIsConcatSpreadable, goja.SymIterator, goja.SymMatch, goja.SymMatchAll, goja.SymReplace,
	goja.SymSearch, goja.SymSpecies, goja.SymSplit, goja.SymToPrimitive, goja.SymToStringTag, goja.SymUnscopables}

// buildPool materialises the recipes on a fresh creator Runtime. Nothing is done to the values afterwards.
func buildPool(rs []poolRecipe) ([]goja.Value, error) {
	cr := gj.NewRuntime()
	goja.VerifSetFuel(cr, 200000)
	vals := make([]goja.Value, 0, len(rs))
	asString := func(i int) goja.String {
		if i < len(vals) {
			if s, ok := vals[i].(goja.String); ok {
				return s
			}
		}
		return cr.ToValue("fallback Go string of more than 16 bytes").(goja.String)
	}
	for _, rc := range rs {
		var v goja.Value
		switch rc.Kind {
		case "go-string":
			v = cr.ToValue(rc.Arg)
		case "concat":
			v = asString(rc.A).Concat(asString(rc.B))
		case "substring":
			s := asString(rc.A)
			// Substring scans an imported string: take it from a fresh copy so that the pool member itself stays untouched
			if gs, ok := s.Export().(string); ok {
				s = cr.ToValue(gs).(goja.String)
			}
			n := s.Length()
			a := rc.B % (n + 1)
			v = s.Substring(a, n)
		case "utf16":
			switch rc.Arg {
			case "plain":
				v = goja.StringFromUTF16([]uint16{'u', 't', 'f', '1', '6', ' ', 'p', 'l', 'a', 'i', 'n', ' ', 's', 't', 'r', 'i', 'n', 'g'})
			case "bmp":
				v = goja.StringFromUTF16([]uint16{0xe9, 'x', 0x6f22, 0x5b57, ' ', 'b', 'm', 'p'})
			case "surrogates":
				v = goja.StringFromUTF16([]uint16{0xd83d, 0xde00, 'a', 0xd83d, 0xde80})
			default:
				v = goja.StringFromUTF16([]uint16{'l', 'o', 'n', 'e', 0xd800, 'x', 0xdc00})
			}
		case "script", "symbol-script", "bigint-script":
			var err error
			v, err = cr.RunString(rc.Arg)
			if err != nil {
				return nil, fmt.Errorf("recipe %q: %v", rc.Arg, err)
			}
		case "symbol-new":
			v = goja.NewSymbol(rc.Arg)
		case "symbol-wellknown":
			v = wellKnown[rc.A%len(wellKnown)]
		case "bigint":
			b, _ := new(big.Int).SetString(rc.Arg, 10)
			v = cr.ToValue(b)
		case "int":
			v = cr.ToValue([]int64{0, 1, -1, 42, 1 << 31, -(1 << 53) + 1, 1<<53 - 1}[rc.A%7])
		case "float":
			v = cr.ToValue([]float64{0.5, -0.0, math.NaN(), math.Inf(1), math.Inf(-1), 1e21, 5e-324, 4294967296.5}[rc.A%8])
		case "misc":
			switch rc.Arg {
			case "true":
				v = cr.ToValue(true)
			case "false":
				v = cr.ToValue(false)
			case "null":
				v = goja.Null()
			default:
				v = goja.Undefined()
			}
		}
		if v == nil {
			return nil, fmt.Errorf("recipe %+v produced nil", rc)
		}
		vals = append(vals, v)
	}
	return vals, nil
}

// opsSrc is the script every Runtime runs over the globals p0..p{n-1}; it returns one string.
const opsSrc = `(function () {
  var out = [];
  function rec(f) { try { out.push(String(f())); } catch (e) { out.push('E:' + (e && e.name)); } }
  for (var i = 0; i < __n; i++) {
    (function (p, i) {
      var t = typeof p;
      out.push('#' + i + ':' + t);
      if (t === 'string') {
        var copy = ('' + p);
        rec(function () { return p.length; });
        rec(function () { return p.charAt(0) + p.charAt(p.length - 1) + p.charCodeAt(1) + ':' + p.codePointAt(0); });
        rec(function () { return (p === p) + ':' + (p === copy) + ':' + (p == copy) + ':' + Object.is(p, copy); });
        rec(function () { return (p < 'm') + ':' + (p > copy) + ':' + (p <= copy) + ':' + p.localeCompare(copy); });
        rec(function () { return (p + p).length + ':' + (p + 'x' + 1) + ':' + p.concat(p, '!').length; });
        rec(function () { return p.slice(1, 5) + '|' + p.substring(2) .length + '|' + p.substr(1, 3); });
        rec(function () { return p.toUpperCase() + '|' + p.toLowerCase() + '|' + p.trim().length; });
        rec(function () { return p.indexOf('a') + ':' + p.lastIndexOf('e') + ':' + p.includes('é') + ':' + p.startsWith(p.slice(0, 2)) + ':' + p.endsWith('s'); });
        rec(function () { return p.split('').length + ':' + Array.from(p).length + ':' + [...p].length; });
        rec(function () { var m = new Map([[p, 1]]), s = new Set([p, copy]); return m.get(copy) + ':' + m.has(p) + ':' + s.size; });
        rec(function () { var o = {}; o[p] = 1; var o2 = { [copy]: 2 }; return (p in o) + ':' + o[copy] + ':' + o2[p] + ':' + Object.keys(o)[0].length; });
        rec(function () { return ` + "`<${p}>`" + `.length + ':' + JSON.stringify(p) + ':' + JSON.stringify({ [p]: p }).length; });
        rec(function () { return p.replace(/[a-z]/g, 'Z').length + ':' + /\w+/.exec(p) + ':' + p.normalize('NFD').length + ':' + p.padEnd(30, p).length; });
        rec(function () { return Number(p) + ':' + parseInt(p) + ':' + (+p) + ':' + isNaN(p); });
        rec(function () { return encodeURIComponent(p).length; });
        rec(function () { return p.at(-1) + ':' + p.repeat(2).length + ':' + p[0] + ':' + Object(p).length + ':' + p.hasOwnProperty(0); });
      } else if (t === 'symbol') {
        rec(function () { return p.toString() + ':' + String(p.description) + ':' + (p === p); });
        rec(function () { var o = {}; o[p] = 1; var s = Object.getOwnPropertySymbols(o); return s.length + ':' + (s[0] === p) + ':' + o[p] + ':' + (p in o); });
        rec(function () { var m = new Map([[p, 'v']]); var s = new Set([p, p]); return m.get(p) + ':' + s.size; });
        rec(function () { return typeof Symbol.keyFor(p) + ':' + (Object(p) == p) + ':' + Object(p).toString(); });
        rec(function () { return p + ''; });
        rec(function () { return JSON.stringify({ a: p, [p]: 1 }) + ':' + JSON.stringify([p]); });
        rec(function () { return Object.prototype.toString.call(p) + ':' + (typeof p.valueOf()); });
      } else if (t === 'bigint') {
        rec(function () { return (p + 1n) + ':' + (p * p) + ':' + (-p) + ':' + p.toString(16) + ':' + (p === p) + ':' + (p == p + 0n); });
        rec(function () { return BigInt.asIntN(8, p) + ':' + BigInt.asUintN(8, p) + ':' + (p > 0n) + ':' + (p == 255) + ':' + Number(p); });
        rec(function () { var m = new Map([[p, 1]]); return m.get(p + 0n) + ':' + new Set([p, p + 0n]).size + ':' + ({ [p]: 1 })[p]; });
        rec(function () { return JSON.stringify(p); });
        rec(function () { return p + 1; });
      } else {
        rec(function () { return p + 1; });
        rec(function () { return String(p) + ':' + Object.is(p, p) + ':' + Object.is(p, -0) + ':' + (p === p) + ':' + JSON.stringify(p) + ':' + JSON.stringify([p]); });
        rec(function () { var m = new Map([[p, 1]]); return m.get(p) + ':' + new Set([p, p]).size + ':' + ({ [p]: 1 })[p] + ':' + [p].includes(p) + ':' + [p].indexOf(p); });
        rec(function () { return (p | 0) + ':' + (p >>> 0) + ':' + (p == null) + ':' + !p + ':' + (typeof Object(p)); });
        rec(function () { return (p != null && p.toFixed) ? p.toFixed(2) + ':' + p.toString(2).length + ':' + p.toPrecision(3) : 'n/a'; });
      }
    })(globalThis['p' + i], i);
  }
  // pairwise comparisons between pool members
  for (var a = 0; a < __n; a++) for (var b = a + 1; b < __n && b < a + 4; b++) {
    rec(function () { var x = globalThis['p' + a], y = globalThis['p' + b]; return (x === y) + ':' + Object.is(x, y) + ':' + (typeof x === typeof y && typeof x !== 'symbol' ? (x < y) + ':' + (x == y) : '-'); });
  }
  return out.join('\u0001');
})()`

var opsPrg = goja.MustCompile("ops.js", opsSrc, false)

// goSide exercises the Go API of the shared values (no Runtime involved for most of it).
func goSide(r *goja.Runtime, vals []goja.Value) string {
	var b strings.Builder
	for i, v := range vals {
		fmt.Fprintf(&b, "#%d:", i)
		o := gj.Call(func() (goja.Value, error) {
			fmt.Fprintf(&b, "%s;%v;%v;", gj.NewIds().Render(v), v.ToBoolean(), v.ExportType())
			if _, isSym := v.(*goja.Symbol); !isSym {
				fmt.Fprintf(&b, "%q;%v;%d;", v.String(), v.Export(), v.ToInteger())
				f := v.ToFloat()
				if f != f {
					b.WriteString("NaN;")
				} else {
					fmt.Fprintf(&b, "%x;", math.Float64bits(f))
				}
				fmt.Fprintf(&b, "%s;", gj.NewIds().Render(v.ToString()))
			} else {
				fmt.Fprintf(&b, "%q;", v.String())
			}
			if s, ok := v.(goja.String); ok {
				n := s.Length()
				fmt.Fprintf(&b, "len=%d;", n)
				if n > 0 {
					fmt.Fprintf(&b, "%d,%d;", s.CharAt(0), s.CharAt(n-1))
					fmt.Fprintf(&b, "%s;", gj.RenderString(s.Substring(n/2, n)))
				}
				fmt.Fprintf(&b, "%d;%d;", s.CompareTo(s), s.Concat(s).Length())
				rd := s.Reader()
				cnt := 0
				for {
					_, _, err := rd.ReadRune()
					if err != nil {
						break
					}
					cnt++
				}
				fmt.Fprintf(&b, "runes=%d;", cnt)
			}
			for j := i + 1; j < len(vals) && j < i+4; j++ {
				w := vals[j]
				fmt.Fprintf(&b, "%v%v%v", v.SameAs(w), v.StrictEquals(w), w.SameAs(v))
				if _, s1 := v.(*goja.Symbol); !s1 {
					if _, s2 := w.(*goja.Symbol); !s2 {
						fmt.Fprintf(&b, "%v", v.Equals(w))
					}
				}
				if s1, ok := v.(goja.String); ok {
					if s2, ok := w.(goja.String); ok {
						fmt.Fprintf(&b, "%d", s1.CompareTo(s2))
					}
				}
				b.WriteByte(',')
			}
			// as a property key through the Go API
			if r != nil {
				obj := r.NewObject()
				switch k := v.(type) {
				case *goja.Symbol:
					obj.SetSymbol(k, 1)
					fmt.Fprintf(&b, "symkey=%v;", obj.GetSymbol(k) != nil)
				case goja.String:
					obj.Set(k.String(), 1)
					fmt.Fprintf(&b, "strkey=%v;", obj.Get(k.String()) != nil)
				}
			}
			return nil, nil
		})
		if o.Panic != nil {
			fmt.Fprintf(&b, "PANIC(%v)", o.Panic)
		}
		b.WriteByte('\n')
	}
	return b.String()
}

type poolObs struct {
	Script string
	Go     string
}

func usePool(r *goja.Runtime, vals []goja.Value) poolObs {
	var obs poolObs
	for i, v := range vals {
		if err := r.Set(fmt.Sprintf("p%d", i), v); err != nil {
			obs.Script = "Set failed: " + err.Error()
			return obs
		}
	}
	r.Set("__n", len(vals))
	o := gj.Call(func() (goja.Value, error) { return r.RunProgram(opsPrg) })
	switch {
	case o.Panic != nil:
		obs.Script = fmt.Sprintf("go-panic: %v", o.Panic)
	case o.Fuel:
		obs.Script = "fuel"
	case o.Err != nil:
		obs.Script = "error: " + o.Err.Error()
	default:
		obs.Script = o.Val.String()
	}
	obs.Go = goSide(r, vals)
	return obs
}

type poolCase struct {
	Recipes    []poolRecipe `json:"recipes"`
	Goroutines int          `json:"goroutines"`
	Reprs      []string     `json:"representations,omitempty"`
}

func firstDiff(a, b string) string {
	as, bs := strings.Split(a, "\u0001"), strings.Split(b, "\u0001")
	if len(as) == 1 && len(bs) == 1 {
		as, bs = strings.Split(a, "\n"), strings.Split(b, "\n")
	}
	for i := 0; i < len(as) && i < len(bs); i++ {
		if as[i] != bs[i] {
			return fmt.Sprintf("item %d: %q vs reference %q", i, core.Trunc(as[i], 200), core.Trunc(bs[i], 200))
		}
	}
	return fmt.Sprintf("lengths %d vs %d", len(as), len(bs))
}

func newPoolRuntime() *goja.Runtime {
	r := gj.NewRuntime()
	goja.VerifSetFuel(r, 400000)
	return r
}

func runPool(c *core.Ctx, rs []poolRecipe, G int) core.Result {
	st := c.Stats
	cs := poolCase{Recipes: rs, Goroutines: G}
	res := core.Result{Verdict: core.Held, Key: fmt.Sprintf("%v|%d", rs, G)}
	refVals, err := buildPool(rs)
	if err != nil {
		res.Verdict = core.Inconclusive
		res.Monitor = "pool-recipe-error"
		res.Detail = err.Error()
		return res
	}
	ref := usePool(newPoolRuntime(), refVals)
	if ref.Script == "fuel" || strings.HasPrefix(ref.Script, "go-panic") || strings.HasPrefix(ref.Script, "error:") {
		res.Verdict = core.Inconclusive
		res.Monitor = "pool-reference-failed"
		res.Detail = core.Trunc(ref.Script, 300)
		return res
	}
	vals, err := buildPool(rs)
	if err != nil {
		res.Verdict = core.Inconclusive
		res.Monitor = "pool-recipe-error"
		return res
	}
	unscanned := 0
	for _, v := range vals {
		rp := goja.VerifRepr(v)
		cs.Reprs = append(cs.Reprs, rp)
		st.Inc("pool:member_repr:" + rp)
		if rp == "imported-unscanned" {
			unscanned++
		}
	}
	st.Count("pool:unscanned_imported_strings_shared", int64(unscanned))
	st.Inc("pool:pools")
	st.Count("pool:values_shared", int64(len(vals)))
	if c.Replay {
		fmt.Printf("pool (%d goroutines):\n", G)
		for i, rc := range rs {
			fmt.Printf("  p%d %+v  %s\n", i, rc, cs.Reprs[i])
		}
	}
	rts := make([]*goja.Runtime, G)
	for i := range rts {
		rts[i] = newPoolRuntime()
	}
	obs := make([]poolObs, G)
	starts, ends := make([]int64, G), make([]int64, G)
	var clock atomic.Int64
	var ready, done sync.WaitGroup
	gate := make(chan struct{})
	ready.Add(G)
	done.Add(G)
	for i := 0; i < G; i++ {
		go func(i int) {
			defer done.Done()
			ready.Done()
			<-gate
			starts[i] = clock.Add(1)
			obs[i] = usePool(rts[i], vals)
			ends[i] = clock.Add(1)
		}(i)
	}
	ready.Wait()
	close(gate)
	done.Wait()
	ov := maxOverlap(starts, ends)
	st.Inc(fmt.Sprintf("pool:pools_with_max_overlap_%02d", ov))
	st.Max("pool:max_goroutines_overlapping_on_one_pool", int64(ov))
	res.NonTrivial = ov >= 2
	for i := 0; i < G; i++ {
		if obs[i] != ref {
			d := ""
			if obs[i].Script != ref.Script {
				d = "script side: " + firstDiff(obs[i].Script, ref.Script)
			} else {
				d = "Go side: " + firstDiff(obs[i].Go, ref.Go)
			}
			return core.Result{Verdict: core.Violated, NonTrivial: true, Key: res.Key, Monitor: "pool-result-differs",
				Detail:    fmt.Sprintf("goroutine %d of %d observed a different result on the shared primitive pool than the sequential reference: %s", i, G, d),
				Signature: fmt.Sprintf("pool:result-differs|%v", rs), Case: cs}
		}
	}
	// representation well-formedness after concurrent use
	for i, v := range vals {
		if ok, why := goja.VerifStringWellFormed(v); !ok {
			return core.Result{Verdict: core.Violated, NonTrivial: true, Key: res.Key, Monitor: "pool-string-malformed",
				Detail: fmt.Sprintf("p%d (%+v) after concurrent use: %s", i, rs[i], why), Signature: fmt.Sprintf("pool:malformed|%+v", rs[i]), Case: cs}
		}
	}
	if st.WantSample() && c.Index%11 == 0 {
		st.Sample(map[string]any{"part": "primitive-pool", "case": cs})
	}
	res.Case = nil
	return res
}
