package c16

import (
	"fmt"
	"strings"
	"sync"
	"sync/atomic"

	"github.com/dop251/goja"

	"verif/harness/core"
	"verif/harness/gj"
)

// Part (e): lazily built source-position tables of a shared Program.  A Program's *file.File resolves offsets to line:column
// on demand and memoises the line table; every Runtime that runs the Program and looks at a stack trace goes through it.
// Workload: a fresh multi-line Program per case (100-300 lines, one "site" function per line with varying indentation:
// throw sites, `new Error().stack` reads, a native that calls CaptureCallStack and resolves StackFrame.Position()); the
// goroutines visit the sites in different, host-supplied orders (some late lines first, others early ones first), so that
// one goroutine extends the line table while another reads an already scanned part; every run ends with an uncaught throw
// at a host-chosen line whose *Exception is formatted on the Go side (Error(), String(), Stack()[i].Position()).
// Oracle: equality with the sequential run of a separately compiled copy given the same order; zero race reports.

type posCase struct {
	Lines      int     `json:"lines"`
	Goroutines int     `json:"goroutines"`
	Orders     [][]int `json:"orders"`
}

func genPositionsProgram(r *core.Rng, lines int) string {
	var b strings.Builder
	b.WriteString("var __res = [];\n")
	b.WriteString("function __pos(st) { var m = /:(\\d+):(\\d+)/.exec(String(st)); return m ? m[1] + ':' + m[2] : '?'; }\n")
	b.WriteString("var __sites = [\n")
	for i := 0; i < lines; i++ {
		ind := strings.Repeat(" ", r.Intn(9))
		switch r.Intn(5) {
		case 0:
			fmt.Fprintf(&b, "%sfunction s%d() { try { undefinedFunction%d(); } catch (e) { return __pos(e.stack); } },\n", ind, i, i)
		case 1:
			fmt.Fprintf(&b, "%sfunction s%d() { return __pos(new Error('e%d').stack); },\n", ind, i, i)
		case 2:
			fmt.Fprintf(&b, "%sfunction s%d() { return __cap(); },\n", ind, i)
		case 3:
			fmt.Fprintf(&b, "%sfunction s%d() { try { null.p%d; } catch (e) { return __pos(e.stack) + '/' + e.stack.split('\\n').length; } },\n", ind, i, i)
		default:
			fmt.Fprintf(&b, "%sfunction s%d() { try { throw new RangeError('é%d'); } catch (e) { return __pos(e.stack); } },\n", ind, i, i)
		}
	}
	b.WriteString("];\n")
	b.WriteString("for (var __i = 0; __i < __order.length; __i++) { __res.push(__sites[__order[__i]]()); }\n")
	b.WriteString("__out = __res.join(' ');\n")
	// the uncaught throw: thrower k sits on its own late line
	b.WriteString("var __throwers = [\n")
	for i := 0; i < 8; i++ {
		fmt.Fprintf(&b, "%sfunction t%d() { throw new TypeError('uncaught %d'); },\n", strings.Repeat(" ", r.Intn(6)), i, i)
	}
	b.WriteString("];\n__throwers[__final]();\n")
	return b.String()
}

type posObs struct {
	Out, Err, Str, Frames string
}

func runPositionsOnce(r *goja.Runtime, prg *goja.Program, order []int, final int) posObs {
	var obs posObs
	r.Set("__order", order)
	r.Set("__final", final)
	r.Set("__out", "")
	r.Set("__cap", func(call goja.FunctionCall) goja.Value {
		var b strings.Builder
		for _, f := range r.CaptureCallStack(0, nil) {
			p := f.Position()
			fmt.Fprintf(&b, "%s@%d:%d,", f.FuncName(), p.Line, p.Column)
		}
		return r.ToValue(b.String())
	})
	o := gj.Call(func() (goja.Value, error) { return r.RunProgram(prg) })
	switch {
	case o.Panic != nil:
		obs.Err = fmt.Sprintf("go-panic: %v", o.Panic)
	case o.Fuel:
		obs.Err = "fuel"
	case o.Err == nil:
		obs.Err = "no error"
	default:
		obs.Err = o.Err.Error()
		if ex, ok := o.Err.(*goja.Exception); ok {
			obs.Str = ex.String()
			var b strings.Builder
			for _, f := range ex.Stack() {
				p := f.Position()
				fmt.Fprintf(&b, "%s@%s:%d:%d,", f.FuncName(), f.SrcName(), p.Line, p.Column)
			}
			obs.Frames = b.String()
		}
	}
	if v := r.Get("__out"); v != nil {
		obs.Out = v.String()
	}
	return obs
}

func newPosRuntime() *goja.Runtime {
	r := gj.NewRuntime()
	goja.VerifSetFuel(r, 3_000_000)
	return r
}

func runPositions(c *core.Ctx, pinned bool) core.Result {
	rng := c.Rng
	st := c.Stats
	lines := rng.Range(100, 300)
	G := []int{2, 3, 4, 6, 8}[rng.Intn(5)]
	if pinned {
		lines, G = 400, 8
	}
	src := genPositionsProgram(rng.Fork(), lines)
	cs := posCase{Lines: lines, Goroutines: G}
	// per-goroutine visiting orders: ascending, descending, late-half-first, random, sparse
	orders := make([][]int, G)
	finals := make([]int, G)
	for g := 0; g < G; g++ {
		n := rng.Range(lines/4, lines)
		if n > 48 {
			n = 48
		}
		ord := make([]int, 0, n)
		switch (g + rng.Intn(2)) % 4 {
		case 0: // early lines first
			for i := 0; i < n; i++ {
				ord = append(ord, i*lines/n)
			}
		case 1: // late lines first
			for i := n - 1; i >= 0; i-- {
				ord = append(ord, i*lines/n)
			}
		case 2: // alternate late / early
			for i := 0; i < n; i++ {
				if i%2 == 0 {
					ord = append(ord, lines-1-i*lines/(2*n))
				} else {
					ord = append(ord, i*lines/(2*n))
				}
			}
		default:
			for i := 0; i < n; i++ {
				ord = append(ord, rng.Intn(lines))
			}
		}
		orders[g] = ord
		finals[g] = rng.Intn(8)
	}
	cs.Orders = orders
	if c.Replay {
		fmt.Printf("positions: %d lines, %d goroutines\n%s\n", lines, G, core.Trunc(src, 1500))
	}
	ref, err := goja.Compile("pos.js", src, false)
	if err != nil {
		return core.Result{Verdict: core.Inconclusive, Monitor: "positions-compile-error", Detail: err.Error()}
	}
	want := make([]posObs, G)
	for g := 0; g < G; g++ {
		want[g] = runPositionsOnce(newPosRuntime(), ref, orders[g], finals[g])
		if want[g].Err == "fuel" || strings.HasPrefix(want[g].Err, "go-panic") || want[g].Str == "" {
			return core.Result{Verdict: core.Inconclusive, Monitor: "positions-reference-failed", Detail: core.Trunc(want[g].Err, 300)}
		}
	}
	// the shared Program is compiled now and not touched before the barrier: its line table is unscanned
	shared, err := goja.Compile("pos.js", src, false)
	if err != nil {
		return core.Result{Verdict: core.Inconclusive, Monitor: "positions-compile-error"}
	}
	rts := make([]*goja.Runtime, G)
	for i := range rts {
		rts[i] = newPosRuntime()
	}
	got := make([]posObs, G)
	starts, ends := make([]int64, G), make([]int64, G)
	var clock atomic.Int64
	var ready, done sync.WaitGroup
	gate := make(chan struct{})
	ready.Add(G)
	done.Add(G)
	for g := 0; g < G; g++ {
		go func(g int) {
			defer done.Done()
			ready.Done()
			<-gate
			starts[g] = clock.Add(1)
			got[g] = runPositionsOnce(rts[g], shared, orders[g], finals[g])
			ends[g] = clock.Add(1)
		}(g)
	}
	ready.Wait()
	close(gate)
	done.Wait()
	ov := maxOverlap(starts, ends)
	st.Inc("positions:programs")
	st.Count("positions:source_lines", int64(lines))
	st.Inc(fmt.Sprintf("positions:programs_with_max_overlap_%02d", ov))
	for g := 0; g < G; g++ {
		st.Count("positions:position_resolutions_in_script", int64(len(orders[g])))
		st.Inc("positions:uncaught_exceptions_formatted_in_go")
	}
	for g := 0; g < G; g++ {
		if got[g] != want[g] {
			d := "script-side positions"
			a, b := got[g].Out, want[g].Out
			switch {
			case got[g].Err != want[g].Err:
				d, a, b = "Exception.Error()", got[g].Err, want[g].Err
			case got[g].Str != want[g].Str:
				d, a, b = "Exception.String()", got[g].Str, want[g].Str
			case got[g].Frames != want[g].Frames:
				d, a, b = "Exception.Stack() positions", got[g].Frames, want[g].Frames
			}
			return core.Result{Verdict: core.Violated, NonTrivial: true, Monitor: "positions-differ",
				Detail:    fmt.Sprintf("goroutine %d of %d running the shared %d-line Program: %s differ from the sequential run of a separately compiled copy: %s", g, G, lines, d, firstDiff(strings.ReplaceAll(a, " ", "\n"), strings.ReplaceAll(b, " ", "\n"))),
				Signature: "positions:differ|" + d, Case: cs}
		}
	}
	if st.WantSample() && c.Index%15 == 5 {
		st.Sample(map[string]any{"part": "positions", "lines": lines, "goroutines": G, "first_order": orders[0][:min(len(orders[0]), 12)], "reference_error": want[0].Str})
	}
	return core.Result{Verdict: core.Held, NonTrivial: ov >= 2, Key: fmt.Sprintf("pos:%d", c.Index), Case: cs}
}
