package c16

import (
	"fmt"
	"sync"

	"github.com/dop251/goja"

	"verif/harness/core"
	"verif/harness/gj"
)

// Part (c): an *Object of Runtime A handed to Runtime B through ToValue / Set / the arguments of an exported JS function /
// an element of a wrapped Go container must be rejected with a TypeError ("Illegal runtime transition of an Object").
// NewSharedDynamicObject / NewSharedDynamicArray are documented as shareable and must be accepted (also concurrently).

var objectMakers = []struct{ name, src string }{
	{"plain", `({a: 1})`},
	{"array", `[1, 2, 3]`},
	{"function", `(function f(x) { return x })`},
	{"arrow", `(() => 1)`},
	{"bound", `(function () {}).bind(null)`},
	{"class", `(class K {})`},
	{"proxy", `new Proxy({}, {})`},
	{"date", `new Date(0)`},
	{"regexp", `/x/g`},
	{"error", `new TypeError('t')`},
	{"promise", `Promise.resolve(1)`},
	{"symbol-object", `Object(Symbol('s'))`},
	{"string-object", `new String('boxed')`},
	{"typed-array", `new Uint8Array(4)`},
	{"arraybuffer", `new ArrayBuffer(8)`},
	{"map", `new Map([[1, 2]])`},
	{"generator-object", `(function* () { yield 1 })()`},
	{"arguments", `(function () { return arguments })(1, 2)`},
	{"global", `globalThis`},
	{"null-proto", `Object.create(null)`},
}

type sharedDyn struct {
	mu sync.Mutex
	m  map[string]goja.Value
}

func (d *sharedDyn) Get(key string) goja.Value {
	d.mu.Lock()
	defer d.mu.Unlock()
	return d.m[key]
}
func (d *sharedDyn) Set(key string, val goja.Value) bool {
	if _, isObj := val.(*goja.Object); isObj {
		return false
	}
	d.mu.Lock()
	defer d.mu.Unlock()
	d.m[key] = val
	return true
}
func (d *sharedDyn) Has(key string) bool {
	d.mu.Lock()
	defer d.mu.Unlock()
	_, ok := d.m[key]
	return ok
}
func (d *sharedDyn) Delete(key string) bool {
	d.mu.Lock()
	defer d.mu.Unlock()
	delete(d.m, key)
	return true
}
func (d *sharedDyn) Keys() []string {
	d.mu.Lock()
	defer d.mu.Unlock()
	ks := make([]string, 0, len(d.m))
	for k := range d.m {
		ks = append(ks, k)
	}
	sortStrings(ks)
	return ks
}

type sharedArr struct {
	mu sync.Mutex
	a  []goja.Value
}

func (d *sharedArr) Len() int {
	d.mu.Lock()
	defer d.mu.Unlock()
	return len(d.a)
}
func (d *sharedArr) Get(idx int) goja.Value {
	d.mu.Lock()
	defer d.mu.Unlock()
	if idx < 0 || idx >= len(d.a) {
		return nil
	}
	return d.a[idx]
}
func (d *sharedArr) Set(idx int, val goja.Value) bool { return false }
func (d *sharedArr) SetLen(int) bool                  { return false }

// isTypeError decides whether what came out of the attempt is a TypeError of runtime r.
func isTypeError(r *goja.Runtime, o gj.Outcome, err error) (bool, string) {
	var thrown goja.Value
	switch {
	case err != nil:
		ex, ok := err.(*goja.Exception)
		if !ok {
			return false, fmt.Sprintf("error of type %T: %v", err, err)
		}
		thrown = ex.Value()
	case o.Err != nil:
		ex, ok := o.Err.(*goja.Exception)
		if !ok {
			return false, fmt.Sprintf("error of type %T: %v", o.Err, o.Err)
		}
		thrown = ex.Value()
	case o.Panic != nil:
		switch p := o.Panic.(type) {
		case *goja.Object:
			thrown = p
		case *goja.Exception:
			thrown = p.Value()
		default:
			return false, fmt.Sprintf("Go panic %T: %v", o.Panic, o.Panic)
		}
	default:
		return false, "accepted without any error"
	}
	if name := gj.ErrorCtorName(r, thrown); name != "TypeError" {
		return false, "thrown value is a " + name
	}
	return true, ""
}

type crossCase struct {
	Object string `json:"object"`
	Route  string `json:"route"`
}

func runCross(c *core.Ctx) core.Result {
	st := c.Stats
	rng := c.Rng
	res := core.Result{Verdict: core.Held, NonTrivial: true}
	mk := objectMakers[rng.Intn(len(objectMakers))]
	res.Key = "cross:" + mk.name
	ra, rb := gj.NewRuntime(), gj.NewRuntime()
	v, err := ra.RunString(mk.src)
	if err != nil {
		res.Verdict = core.Inconclusive
		res.Monitor = "cross-maker-failed"
		return res
	}
	foreign, ok := v.(*goja.Object)
	if !ok {
		res.Verdict = core.Inconclusive
		res.Monitor = "cross-maker-not-object"
		return res
	}
	if rng.Chance(1, 6) {
		foreign = ra.ToValue(&struct{ X int }{1}).(*goja.Object)
		mk.name = "wrapped-go-struct"
	}
	fail := func(route, why string) core.Result {
		return core.Result{Verdict: core.Violated, NonTrivial: true, Key: res.Key, Monitor: "foreign-object-accepted",
			Detail:    fmt.Sprintf("an object (%s) of Runtime A passed to Runtime B via %s: %s; expected a TypeError", mk.name, route, why),
			Signature: "cross:" + route, Case: crossCase{mk.name, route}}
	}
	check := func(route string, f func() error) *core.Result {
		var e error
		o := gj.Call(func() (goja.Value, error) { e = f(); return nil, nil })
		st.Inc("cross:attempts")
		st.SetAdd("cross_cells", mk.name+" x "+route)
		if ok, why := isTypeError(rb, o, e); !ok {
			r := fail(route, why)
			return &r
		}
		st.Inc("cross:rejected_with_TypeError")
		return nil
	}
	if r := check("ToValue", func() error { rb.ToValue(foreign); return nil }); r != nil {
		return *r
	}
	if r := check("Set", func() error { return rb.Set("x", foreign) }); r != nil {
		return *r
	}
	if r := check("Object.Set", func() error { return rb.NewObject().Set("k", foreign) }); r != nil {
		return *r
	}
	if r := check("exported-function-argument", func() error {
		jsf, err := rb.RunString(`(function (a) { return typeof a })`)
		if err != nil {
			return nil
		}
		var fn func(goja.Value) (string, error)
		if err := rb.ExportTo(jsf, &fn); err != nil {
			return nil
		}
		_, err = fn(foreign)
		return err
	}); r != nil {
		return *r
	}
	if r := check("exported-variadic-function-argument", func() error {
		jsf, _ := rb.RunString(`(function () { return arguments.length })`)
		var fn func(...interface{}) (int, error)
		if err := rb.ExportTo(jsf, &fn); err != nil {
			return nil
		}
		_, err := fn(1, foreign)
		return err
	}); r != nil {
		return *r
	}
	if r := check("element-of-wrapped-Go-slice", func() error {
		if err := rb.Set("sl", []interface{}{1, foreign}); err != nil {
			return err
		}
		_, err := rb.RunString(`sl[1]`)
		return err
	}); r != nil {
		return *r
	}
	if r := check("value-of-wrapped-Go-map", func() error {
		if err := rb.Set("mp", map[string]interface{}{"k": foreign}); err != nil {
			return err
		}
		_, err := rb.RunString(`mp.k`)
		return err
	}); r != nil {
		return *r
	}
	if r := check("return-value-of-wrapped-Go-func", func() error {
		if err := rb.Set("gf", func() interface{} { return foreign }); err != nil {
			return err
		}
		_, err := rb.RunString(`gf()`)
		return err
	}); r != nil {
		return *r
	}
	// own objects are accepted
	own, _ := rb.RunString(mk.src)
	if err := rb.Set("own", own); err != nil {
		return core.Result{Verdict: core.Violated, NonTrivial: true, Monitor: "own-object-rejected", Detail: err.Error(), Signature: "cross:own-object-rejected", Case: crossCase{mk.name, "Set(own)"}}
	}
	// documented exemption: shared dynamic objects / arrays, used by several runtimes at once
	longStr := ra.ToValue("a shared Go string longer than sixteen bytes")
	sd := goja.NewSharedDynamicObject(&sharedDyn{m: map[string]goja.Value{"a": ra.ToValue(1), "s": longStr}})
	sa := goja.NewSharedDynamicArray(&sharedArr{a: []goja.Value{ra.ToValue(1), ra.ToValue("two"), goja.NewSymbol("three")}})
	G := rng.Range(2, 6)
	outs := make([]string, G)
	var wg sync.WaitGroup
	gate := make(chan struct{})
	for i := 0; i < G; i++ {
		wg.Add(1)
		r := gj.NewRuntime()
		go func(i int) {
			defer wg.Done()
			<-gate
			o := gj.Call(func() (goja.Value, error) {
				if err := r.Set("sd", sd); err != nil {
					return nil, err
				}
				if err := r.Set("sa", sa); err != nil {
					return nil, err
				}
				return r.RunString(`[sd.a, sd.s.length, Object.keys(sd).join(), 'a' in sd, Array.isArray(sa), sa.length, sa[1], typeof sa[2], (function () { var t = []; Array.prototype.forEach.call(sa, function (x) { t.push(typeof x) }); return t.join() })(), Array.prototype.indexOf.call(sa, 'two')].join('|')`)
			})
			switch {
			case o.Panic != nil:
				outs[i] = fmt.Sprintf("go-panic: %v", o.Panic)
			case o.Err != nil:
				outs[i] = "error: " + o.Err.Error()
			default:
				outs[i] = o.Val.String()
			}
		}(i)
	}
	close(gate)
	wg.Wait()
	st.Count("cross:shared_dynamic_object_users", int64(G))
	const want = "1|44|a,s|true|true|3|two|symbol|number,string,symbol|1"
	for i := range outs {
		if outs[i] != want {
			return core.Result{Verdict: core.Violated, NonTrivial: true, Monitor: "shared-dynamic-object-misbehaves",
				Detail:    fmt.Sprintf("runtime %d of %d using NewSharedDynamicObject/Array concurrently observed %q, expected %q", i, G, outs[i], want),
				Signature: "cross:shared-dynamic", Case: crossCase{"shared-dynamic", "Set"}}
		}
	}
	return res
}

// sharedDynWitness: pinned cases — operations on shared dynamic objects that made a Go panic escape RunString
// (inbox/C16-shared-dynamic-object-nil-runtime.md).
func sharedDynWitness(c *core.Ctx, k int) core.Result {
	ra := gj.NewRuntime()
	sd := goja.NewSharedDynamicObject(&sharedDyn{m: map[string]goja.Value{"a": ra.ToValue(1)}})
	sa := goja.NewSharedDynamicArray(&sharedArr{a: []goja.Value{ra.ToValue(1), ra.ToValue("two"), goja.NewSymbol("three")}})
	r := gj.NewRuntime()
	r.Set("sd", sd)
	r.Set("sa", sa)
	src := "Array.prototype.map.call(sa, function (x) { return typeof x }).join()"
	sig := "cross:shared-dynamic-array-map-call"
	if k == 1 {
		src = "String(sd)"
		sig = "cross:shared-dynamic-object-toprimitive"
	}
	o := gj.Call(func() (goja.Value, error) { return r.RunString(src) })
	c.Stats.Inc("pinned:shared_dynamic_witness_runs")
	bad := ""
	switch {
	case o.Panic != nil:
		bad = fmt.Sprintf("Go panic escaped RunString: %v", o.Panic)
	case k == 0 && (o.Err != nil || o.Val == nil || o.Val.String() != "number,string,symbol"):
		bad = fmt.Sprintf("result %v, error %v; expected \"number,string,symbol\"", o.Val, o.Err)
	case k == 1:
		if ok, why := isTypeError(r, o, nil); !ok {
			bad = "expected a TypeError (null-prototype object has no toString/valueOf): " + why
		}
	}
	if bad != "" {
		return core.Result{Verdict: core.Violated, NonTrivial: true, Monitor: "shared-dynamic-object-misbehaves",
			Detail: fmt.Sprintf("`%s` on a NewSharedDynamicObject/Array value: %s", src, bad), Signature: sig, Case: crossCase{"shared-dynamic", src}}
	}
	return core.Result{Verdict: core.Held, NonTrivial: true, Key: sig}
}
