// Package c16: "Programs and primitive values are shareable across goroutines without data races".
//
// Worker binary built with -race (cmd/c16/RACE, Binary "race"); GORACE=halt_on_error=0 log_path=<workdir>/race.w<i> is set by
// the parent.  Every worker attributes the reports that appeared in its own race log to the case that just ran (so a report
// comes with a replayable case); the parent's Post hook recounts all logs.  A report is reduced to the sorted pair
// "outermost goja entry point > innermost goja frame" of the two conflicting accesses (racelog.Report.Sig) — one violation
// per distinct pair; the finer stack-pair count (line numbers stripped) goes into the evidence.
//
//	(a) progs.go  one Program, compiled once, run by 2..16 goroutines on fresh Runtimes simultaneously (start barrier), 5 rounds;
//	              per-goroutine observation == sequential observation of a separately compiled copy
//	(b) pool.go   primitive pool created on one Runtime / by package constructors, used by N Runtimes on N goroutines at once
//	(c) cross.go  foreign *Object rejection (TypeError) and the NewSharedDynamicObject/Array exemption
//	(e) positions.go  lazily built source-position table of a shared multi-line Program: sites visited in different orders per
//	              goroutine (e.stack, new Error().stack, CaptureCallStack from a native), uncaught exceptions formatted in Go
//	(d) firsttouch.go  first-touch races on lazily scanned strings: long fresh values, PRNG-chosen first operation per goroutine,
//	              all goroutines released on the same value by a barrier; evidence = matrix of first-op pairs
//
// `one` / `replay` run in the normal binary: behaviourally identical, but without race detection.
package c16

import (
	"fmt"
	"runtime"
	"runtime/debug"
	"strings"
	"sync"
	"time"

	"github.com/dop251/goja"

	"verif/harness/core"
	"verif/harness/gj"
	"verif/harness/jsgen"
	"verif/harness/racelog"
)

// pinned shared-program witnesses (every feature family at the maximum goroutine count) — index -2 and below;
// index -1 is the importedString witness, the last two are the shared-dynamic-object witnesses (cross.go).
var pinnedProgs = []string{
	// regexp2-only patterns (lookahead, backreference), global + sticky, literal evaluated in a loop
	"var __out = [];\nfor (var i = 0; i < 20; i++) { var re = /(?=a)(a+)\\1?b/g; var s = 'xaab aab ab aaaab'; var m, acc = []; while ((m = re.exec(s)) !== null) { acc.push(m.index + m[0]); } __out.push(acc.join()); var st = /(?<!x)a/y; st.lastIndex = i % 5; __out.push(st.test(s) + ':' + st.lastIndex); }\n__out.length",
	// RE2 patterns with every flag, replace with callback
	"var __out = [];\nvar subj = 'Foo foo\\nBAR bar \\u{1F600}';\n[/foo/g, /foo/gi, /^bar/mi, /o+/y, /./su, /\\u{1F600}/u, /(?<w>\\w+) \\k<w>/i].forEach(function (re) { for (var i = 0; i < 5; i++) { re.lastIndex = 0; __out.push(String(re.exec(subj)), subj.replace(re, function (x) { return '[' + x + ']' })); } });\n__out.length",
	// tagged template call-site cache
	"var __out = [];\nfunction tag(s) { return s } function site() { return tag`a${1}b` }\nfor (var i = 0; i < 50; i++) { var t = site(); __out.push((t === site()) + ':' + (t instanceof Array) + ':' + Object.isFrozen(t) + ':' + t.raw.length); }\n__out.length",
	// dynamic scopes: eval-extended function scopes and with
	"var __out = [];\nfunction f(k) { eval('var dyn' + k + ' = k'); { let b = k; eval('var inner = b + 1'); } return inner + (typeof dyn0) + (typeof dyn1) }\nfor (var i = 0; i < 40; i++) { __out.push(f(i % 3)); with ({ w: i }) { __out.push(w); eval('var leaked = w'); } }\n__out.push(leaked); __out.length",
	// private names, static blocks, new Function, constant folding
	"var __out = [];\nfor (var i = 0; i < 30; i++) { class A { #x = i; static #c = 0; static inc() { return ++A.#c } get x() { return this.#x } static has(o) { return #x in o } } __out.push(new A().x + ':' + A.inc() + ':' + A.has({}) + ':' + new Function('a', 'return a + ' + i)(1) + ':' + (1 + 2 * 3) + ('a' + 'b') + (10n ** 20n)); }\n__out.length",
}

var (
	tailOnce sync.Once
	tail     *racelog.Tail
)

func Check() *core.Check {
	return &core.Check{
		ID:    "C16",
		Level: "exploration",
		Rule: "55%: program = 2-5 feature snippets (regexp literals: 16 flag sets x RE2/regexp2 bodies, tagged templates, classes with private names, eval/with dynamic scopes, constant-folded expressions, new Function, long string/BigInt constants) + a jsgen program (Safe; async in 1/3), " +
			"compiled ONCE and run by 2..16 goroutines on fresh Runtimes behind a start barrier, 5 rounds, each observation (outcome, value/error rendering, __out, instruction count) compared with the sequential run of a separately compiled copy; " +
			"20%: pool of 8-16 primitives (unscanned Go strings > 16 bytes ASCII/non-ASCII, concatenations, substrings, StringFromUTF16, script-made strings incl. JSON.stringify results, symbols new/well-known/script, BigInts, ints, floats, bools, null, undefined) used by 2..12 Runtimes at once through a script of string/symbol/number operations and through the Go API, compared with a sequential reference on a twin pool; " +
			"5%: positions: a fresh 100-400 line Program whose per-line site functions throw / read new Error().stack / call CaptureCallStack from a native, visited in a different host-supplied order by each of 2..8 goroutines (early lines first, late lines first, alternating, random), ending in an uncaught throw formatted on the Go side (Error(), String(), Stack()[i].Position()), compared with the sequential run of a separately compiled copy; " +
			"10%: first-touch: 10-20 fresh lazily scanned strings of 20-100 KB (ToValue / concatenation of unscanned / JSON.stringify result; non-ASCII nowhere, at the start, middle, end, dense) per case, 2..8 goroutines released by a barrier on each value, each performing a PRNG-chosen FIRST operation out of 50 (script operators and methods, Go API), compared with the same operations on a twin value; " +
			"10%: foreign *Object rejection over 21 object kinds x 8 routes + shared dynamic objects used concurrently; non-trivial = at least 2 goroutines overlapped in time on the same Program / pool (start/end timestamps from one atomic counter); zero race-detector reports",
		Assumptions: []string{
			"the race detector reports only races on schedules that occurred; the start barrier and 5 rounds are the mitigation",
			"programs whose sequential run is not reproducible, exhausts the fuel (60k instructions), allocates > 64 MiB or panics are inconclusive",
			"`one`/`replay` use the normal binary: no race detection there",
		},
		Cases: func(tier string) int {
			if tier == "thorough" {
				return 8000
			}
			return 450
		},
		MinConclusive: func(tier string) int { return 100 },
		NumPinned:     1 + len(pinnedProgs) + 2 + 2 + 1,
		Binary:        "race",
		CaseTimeoutS:  300,
		Run:           run,
		Post:          post,
	}
}

// importedWitness: pinned case -1 — one unscanned imported string, 4 runtimes, one operation.
func importedWitness(c *core.Ctx) core.Result {
	v := goja.New().ToValue("a Go string longer than 16 bytes")
	prg := goja.MustCompile("w.js", "s.length", false)
	const G = 4
	var wg sync.WaitGroup
	gate := make(chan struct{})
	outs := make([]int64, G)
	for i := 0; i < G; i++ {
		wg.Add(1)
		r := gj.NewRuntime()
		r.Set("s", v)
		go func(i int) {
			defer wg.Done()
			<-gate
			if res, err := r.RunProgram(prg); err == nil {
				outs[i] = res.ToInteger()
			}
		}(i)
	}
	close(gate)
	wg.Wait()
	c.Stats.Inc("pinned:imported_string_witness_runs")
	for i := range outs {
		if outs[i] != 32 {
			return core.Result{Verdict: core.Violated, NonTrivial: true, Monitor: "pool-result-differs", Detail: fmt.Sprintf("goroutine %d: s.length = %d, expected 32", i, outs[i]), Signature: "pinned:imported-length"}
		}
	}
	return core.Result{Verdict: core.Held, NonTrivial: true, Key: "pinned-imported"}
}

func heavy(f func()) (allocMB float64, dur time.Duration) {
	var m0, m1 runtime.MemStats
	runtime.ReadMemStats(&m0)
	t0 := time.Now()
	f()
	dur = time.Since(t0)
	runtime.ReadMemStats(&m1)
	return float64(m1.TotalAlloc-m0.TotalAlloc) / (1 << 20), dur
}

func sharedCase(c *core.Ctx, src string, tags map[string]bool, G int) core.Result {
	// filter: a program that is heavy by construction is not multiplied by 16
	if ref, err := goja.Compile("p.js", src, false); err == nil {
		mb, dur := heavy(func() { observe(newProgRuntime(), ref) })
		if mb > 64 || dur > 2*time.Second {
			c.Stats.Inc("shared:skipped_heavy_program")
			return core.Result{Verdict: core.Inconclusive, Monitor: "baseline-too-heavy", Detail: fmt.Sprintf("%.0f MiB, %v", mb, dur)}
		}
	}
	res := runShared(c, src, tags, G, 5)
	if res.Verdict == core.Violated && c.Index >= 0 && strings.HasPrefix(res.Monitor, "result-differs") {
		mon := res.Monitor
		min := jsgen.Minimize(src, 25, func(cand string) bool {
			if !strings.Contains(cand, "__out") {
				return false
			}
			quiet := &core.Ctx{Property: c.Property, Tier: c.Tier, Seed: c.Seed, Index: c.Index, Rng: core.NewRng(1), Stats: core.NewStats()}
			r2 := runShared(quiet, cand, tags, G, 5)
			return r2.Verdict == core.Violated && r2.Monitor == mon
		})
		if min != src {
			quiet := &core.Ctx{Property: c.Property, Tier: c.Tier, Seed: c.Seed, Index: c.Index, Rng: core.NewRng(1), Stats: core.NewStats()}
			if r2 := runShared(quiet, min, tags, G, 5); r2.Verdict == core.Violated && r2.Monitor == mon {
				r2.Detail += "\n(original program: " + core.Trunc(src, 800) + ")"
				res = r2
				src = min
			}
		}
		res.Signature = "shared:" + mon + "|" + strings.Join(strings.Fields(src), " ")
	}
	return res
}

func run(c *core.Ctx) core.Result {
	tailOnce.Do(func() {
		tail = racelog.NewTail()
		debug.SetGCPercent(300)
	})
	var res core.Result
	rng := c.Rng
	switch {
	case c.Index == -1:
		res = importedWitness(c)
	case c.Index == -6-len(pinnedProgs):
		res = runPositions(c, true)
	case c.Index == -5-len(pinnedProgs):
		res = runFirstTouchMode(c, "strictequals")
	case c.Index == -4-len(pinnedProgs):
		res = runFirstTouchMode(c, "concat")
	case c.Index <= -2-len(pinnedProgs):
		res = sharedDynWitness(c, -c.Index-2-len(pinnedProgs))
	case c.Index < -1:
		src := pinnedProgs[-c.Index-2]
		res = sharedCase(c, src, map[string]bool{"pinned": true}, 16)
		if res.Verdict == core.Violated && res.Signature == "" {
			res.Signature = "shared:" + res.Monitor + "|" + strings.Join(strings.Fields(src), " ")
		}
	case c.Index%20 == 5:
		res = runPositions(c, false)
	case c.Index%10 < 6:
		src, tags := genSharedProgram(rng)
		G := []int{2, 3, 4, 6, 8, 12, 16}[rng.Intn(7)]
		res = sharedCase(c, src, tags, G)
	case c.Index%10 < 8:
		rs := genRecipes(rng)
		G := []int{2, 3, 4, 6, 8, 12}[rng.Intn(6)]
		res = runPool(c, rs, G)
	case c.Index%10 < 9:
		res = runFirstTouch(c, false)
	default:
		res = runCross(c)
	}
	if tail.Enabled() {
		if reps := tail.New(); len(reps) > 0 {
			c.Stats.Count("race_reports_attributed_to_cases", int64(len(reps)))
			d := racelog.Distinct(reps)
			for _, r := range d {
				c.Stats.SetAdd("race_entry_point_pairs", r.Entries)
			}
			if res.Verdict != core.Violated {
				res = core.Result{Verdict: core.Violated, NonTrivial: true, Key: res.Key, Monitor: "data-race",
					Detail:    fmt.Sprintf("%d race report(s), %d distinct, while executing this case; first:\n%s", len(reps), len(d), core.Trunc(d[0].Text, 3500)),
					Signature: d[0].Sig, Case: res.Case}
			}
		}
	}
	return res
}

func post(p *core.PostCtx) {
	reps := racelog.ReadAll(p.WorkDir)
	d := racelog.Distinct(reps)
	pairs := map[string]bool{}
	entries := map[string]int{}
	for _, r := range reps {
		pairs[r.PairKey] = true
		entries[r.Entries]++
	}
	p.Evidence["race_detector"] = map[string]any{
		"reports_total":            len(reps),
		"distinct_signatures":      len(d),
		"distinct_stack_pairs":     len(pairs),
		"by_entry_point_pair":      entries,
		"worker_binary_built_with": "-race",
		"GORACE":                   "halt_on_error=0 log_path=<workdir>/race.w<i>",
		"signature_is":             "sorted pair of (outermost goja entry point > innermost goja frame) of the two conflicting accesses",
	}
	for _, r := range d {
		p.Report(core.Result{Monitor: "data-race", Signature: r.Sig,
			Detail: "race detector report (deduplicated by entry/access pair):\n" + core.Trunc(r.Text, 3500)}, 1<<20)
	}
}
