package c16

import (
	"fmt"
	"strings"
	"sync"
	"sync/atomic"

	"github.com/dop251/goja"

	"verif/harness/core"
	"verif/harness/gj"
	"verif/harness/jsgen"
)

// Part (a): one Program, compiled once, run by 2..16 goroutines on fresh Runtimes at the same time, 5 rounds.
// Each program = a few feature snippets (regexp literals of both engines and all flag sets, tagged templates, classes
// with private names, dynamic scopes, constant folding, new Function, long string / BigInt constants) that push strings
// into the global array __out, followed by a jsgen program.  Observed per run: outcome kind, rendering of the completion
// value / error text, __out, number of VM instructions.  Oracle: equal to the sequential run of a separately compiled
// copy of the same source (which itself must be reproducible — else the case is inconclusive).

const fuelPerRun = 60000

var reFlagSets = []string{"", "g", "i", "m", "s", "u", "y", "gi", "gm", "gu", "gy", "iu", "ms", "gimsuy", "gimsu", "imy"}

// bodies: RE2-eligible and regexp2-only (lookaround / backreference) patterns
var reBodies = []struct{ body, subject string }{
	{`a+b`, "xaab aab ab"},
	{`(x)|(y)`, "zyx"},
	{`[a-z]+\d*`, "foo12 Bar3 baz"},
	{`^\w+$`, "line1\nline2"},
	{`(?<n>\w)\k<n>`, "abccd eeff"},
	{`(?=a)a+b`, "xaab aab"},
	{`(a)\1`, "baab caac"},
	{`(?<!a)b+`, "abb cbb"},
	{`a.c`, "a\nc abc"},
	{`\u{1F600}|é+`, "x\U0001F600 éé"},
	{`(?:a|b)*?c`, "ababc"},
	{`\bfoo\b`, "a foo FOO foo."},
}

func q(s string) string { return jsgen.Quote(s) }

func pushExpr(e string) string {
	return "try { __out.push(String(" + e + ")); } catch (e) { __out.push('E:' + (e && e.name)); }\n"
}

func snippet(r *core.Rng, k int, tags map[string]bool) string {
	var b strings.Builder
	switch k {
	case 0: // regexp literal used through several entry points; the literal is evaluated repeatedly (loop) => many objects from one shared pattern
		rb := reBodies[r.Intn(len(reBodies))]
		fl := reFlagSets[r.Intn(len(reFlagSets))]
		if strings.Contains(rb.body, `\u{`) && !strings.Contains(fl, "u") {
			fl += "u"
		}
		tags["regexp"] = true
		tags["regexp-flags:"+fl] = true
		lit := "/" + rb.body + "/" + fl
		fmt.Fprintf(&b, "try { (function () { var s = %s, acc = [];\n", q(rb.subject))
		fmt.Fprintf(&b, " for (var i = 0; i < 3; i++) { var re = %s; re.lastIndex = i; var m = re.exec(s); acc.push(m ? m.index + ':' + m[0] + ':' + re.lastIndex : 'null:' + re.lastIndex); }\n", lit)
		fmt.Fprintf(&b, " acc.push(%s.test(s), s.replace(%s, function (x) { return '<' + x.length + '>'; }), s.split(%s).length, s.search(%s));\n", lit, lit, lit, lit)
		fmt.Fprintf(&b, " var lit = %s; acc.push(lit.source, lit.flags, lit.global, lit.sticky, String(lit));\n", lit)
		if strings.Contains(fl, "g") {
			fmt.Fprintf(&b, " acc.push(Array.from(s.matchAll(%s), function (m) { return m[0]; }).join(','), (s.match(%s) || []).join(','));\n", lit, lit)
		}
		b.WriteString(" __out.push(acc.join('|')); })(); } catch (e) { __out.push('E:' + (e && e.name)); }\n")
	case 1: // tagged template: call-site object identity, realm of the strings object, frozen-ness, raw
		tags["tagged-template"] = true
		b.WriteString("try { (function () { function tag(s) { return s; } function site() { return tag`a${1}b\\n${2}c`; }\n")
		b.WriteString(" var t1 = site(), t2 = site(), t3 = tag`a${1}b\\n${2}c`;\n")
		b.WriteString(" __out.push([t1 === t2, t1 === t3, Array.isArray(t1), t1 instanceof Array, Object.getPrototypeOf(t1) === Array.prototype, Object.isFrozen(t1), Object.isFrozen(t1.raw), t1.length, t1.raw[1], t1[1], String.raw`x\\ty${3}z`].join('|'));\n")
		b.WriteString(" try { t1[0] = 'mutated'; t1.extra = 1; } catch (e) {} __out.push(t1[0] + ':' + ('extra' in t1));\n")
		b.WriteString(" })(); } catch (e) { __out.push('E:' + (e && e.name)); }\n")
	case 2: // class with private names
		tags["private-names"] = true
		n := r.Range(1, 9)
		fmt.Fprintf(&b, "try { (function () { class A { #x = %d; static #count = 0; #m() { return this.#x * 2; } get v() { return this.#m() + A.#count; } set v(n) { this.#x = n; A.#count++; } static has(o) { return #x in o; } static { A.#count = %d; } }\n", n, n+1)
		b.WriteString(" class B extends A { #x = 'shadow'; peek() { return this.#x + this.v; } }\n")
		b.WriteString(" var a = new A(), bb = new B(); a.v = 5; bb.v = 7; var bad; try { A.prototype.peekless = function () { return this.v; }; bad = Object.getOwnPropertyDescriptor(A.prototype, 'v').get.call({}); } catch (e) { bad = e.name; }\n")
		b.WriteString(" __out.push([a.v, bb.v, bb.peek(), A.has(a), A.has({}), A.has(bb), bad].join('|')); })(); } catch (e) { __out.push('E:' + (e && e.name)); }\n")
	case 3: // dynamic scopes: eval-declared variables, with, functions whose scope is extended at run time
		tags["dynamic-scope"] = true
		n := r.Range(1, 50)
		fmt.Fprintf(&b, "try { (function () { function f(k) { var a = k; eval('var dyn' + (k %% 2) + ' = a + %d'); { let blk = a; eval('var inner = blk * 2'); } return (typeof dyn0) + (typeof dyn1) + inner; }\n", n)
		b.WriteString(" var o = { w: 1, f: f }; var acc = []; for (var i = 0; i < 4; i++) acc.push(f(i)); with (o) { acc.push(w + f(2)); w = 9; var viaWith = w; }\n")
		b.WriteString(" acc.push(o.w, viaWith, (0, eval)('typeof dyn0'), (function () { 'use strict'; eval('var se = 1'); return typeof se; })());\n")
		b.WriteString(" __out.push(acc.join('|')); })(); } catch (e) { __out.push('E:' + (e && e.name)); }\n")
		// eval-extended scopes in every kind of scope a Program stores a names map for: parameter scopes (initialisers),
		// function bodies, arrows, methods, blocks, catch, for-let heads, switch, class field initialisers, generators
		dyn := []string{
			"(function (a = eval('var z%d = %d; z%d'), b = typeof z%d) { return a + b + typeof z%d; })()",
			"(function (a, b = (() => eval('var y%d = a + %d'))()) { var c = typeof y%d; eval('var x%d = 1'); return b + c + typeof x%d; })(%d)",
			"((p = eval('var q%d = %d'), r = q%d) => r + typeof q%d)()",
			"(function () { try { throw %d } catch (e) { eval('var c%d = e'); } return c%d + (function (k = eval('var i%d = 2')) { return typeof i%d })(); })()",
			"(function () { for (let i = 0, f = eval('var l%d = %d'); i < 2; i++) { eval('var m' + i + ' = i'); } return l%d + m0 + m1; })()",
			"(function (s) { switch (s) { case 1: eval('var w%d = %d'); default: let t = 2; eval('var v%d = t'); } return (typeof w%d) + v%d; })(%d %% 3)",
			"(new (class { f = eval('var cf%d = %d; cf%d'); g = typeof cf%d; m(a = eval('var cm%d = 1')) { return a + typeof cm%d } })).m() + ''",
			"(function* (a = eval('var g%d = %d')) { yield a; eval('var h%d = 2'); yield typeof g%d + typeof h%d; })().next().value",
			"(function () { eval('function ef%d() { return %d }'); { eval('var blk%d = ef%d()'); } return blk%d + typeof ef%d; })()",
			"(function (a) { with ({a: %d}) { eval('var wv%d = a'); } return wv%d + a; })(%d)",
		}
		for i := 0; i < 3; i++ {
			t := dyn[r.Intn(len(dyn))]
			k := r.Range(1, 9)
			args := make([]any, strings.Count(t, "%d"))
			for j := range args {
				args[j] = k
			}
			b.WriteString(pushExpr(fmt.Sprintf(t, args...)))
		}
	case 4: // constant-folded expressions
		tags["constant-folding"] = true
		exprs := []string{"1 + 2 * 3", `"a" + "b" + 1`, "typeof 1", "10n ** 20n + 1n", "-(-0)", "!0 + !1", "void 0", "1 / 0 - 1 / 0", "2 ** 53 + 1", `"é".length + "😀".length`, "1 < 2 == true", "7 % 3 << 2", "0.1 + 0.2", `"x" + 1n`, "(1, 2, 3)", "null ?? 5", "0 || 'z'", "1 && 2"}
		for i := 0; i < 5; i++ {
			b.WriteString(pushExpr("Object.is(" + exprs[r.Intn(len(exprs))] + ", -0) + ':' + (" + exprs[r.Intn(len(exprs))] + ")"))
		}
	case 5: // new Function / Function()
		tags["new-function"] = true
		n := r.Range(2, 40)
		fmt.Fprintf(&b, "try { var nf = new Function('a', 'b', 'return a * %d + b + (typeof __out)'); var nf2 = Function('return /x+/g.exec(\"axxb\")[0] + `t${%d}`'); __out.push(nf(2, 1) + '|' + nf2() + '|' + nf.length + '|' + (nf === new Function('a', 'b', 'return 1'))); } catch (e) { __out.push('E:' + (e && e.name)); }\n", n, n)
	case 6: // long string / BigInt / float constants living in the Program, operated on by every runtime
		tags["program-constants"] = true
		consts := []string{`"a plain ascii constant of more than sixteen bytes"`, `"ünïcödé constant of more than sixteen bytes ☃"`, `"short"`, `"😀😀😀😀😀😀😀😀😀"`, `"\ud800 lone surrogate constant ......"`}
		c := consts[r.Intn(len(consts))]
		fmt.Fprintf(&b, "try { (function () { var s = %s, t = %s; var m = new Map([[s, 1]]), o = {}; o[s] = 2;\n", c, c)
		b.WriteString(" __out.push([s.length, s === t, s.charCodeAt(3), s.toUpperCase(), s.indexOf('con'), s.slice(2, 9), m.get(t), o[t], JSON.stringify(s), `${s}!`, s < 'b', s.localeCompare(t), (s + t).length, 123456789012345678901234567890n * 3n, 0.1 * 3, 9007199254740993].join('|')); })(); } catch (e) { __out.push('E:' + (e && e.name)); }\n")
	case 7: // generators, closures, destructuring defaults, symbols, getters: ordinary compiled code with shared name tables
		tags["ordinary-code"] = true
		n := r.Range(1, 5)
		fmt.Fprintf(&b, "try { (function () { function* g(k) { for (var i = 0; i < k; i++) { try { yield i * %d; } finally { cnt++; } } } var cnt = 0; var [x = 7, ...rest] = g(3); var { p: { q = 4 } = {}, [Symbol.iterator]: it } = { p: {} };\n", n)
		b.WriteString(" var sy = Symbol('d'), o = { [sy]: 1, get z() { return cnt; }, ['k' + 1]: 2 }; var cl = []; for (let i = 0; i < 3; i++) cl.push(function () { return i; }); L: for (var a = 0; a < 3; a++) { for (var c = 0; c < 3; c++) { if (c == 1) continue L; cnt += 10; } }\n")
		b.WriteString(" __out.push([x, rest.join(), q, typeof it, o.z, o.k1, sy.description, cl.map(function (f) { return f(); }).join(), cnt].join('|')); })(); } catch (e) { __out.push('E:' + (e && e.name)); }\n")
	}
	return b.String()
}

const nSnippetKinds = 8

type progCase struct {
	Src        string   `json:"src"`
	Tags       []string `json:"tags"`
	Goroutines int      `json:"goroutines"`
	Rounds     int      `json:"rounds"`
}

func genSharedProgram(r *core.Rng) (src string, tags map[string]bool) {
	tags = map[string]bool{}
	var b strings.Builder
	b.WriteString("var __out = [];\n")
	n := r.Range(2, 5)
	for i := 0; i < n; i++ {
		b.WriteString(snippet(r, r.Intn(nSnippetKinds), tags))
	}
	// a jsgen program (whole accepted syntax); async functions only in a third of the programs (jobs are drained by
	// RunProgram before it returns, so the result is still deterministic)
	body := "0"
	noAsync := !r.Chance(1, 3)
	for attempt := 0; attempt < 8; attempt++ {
		g := jsgen.New(r.Fork(), r.Range(10, 60))
		g.Safe = true
		g.NoAsync = noAsync
		cand := g.Program()
		if len(cand) > 20000 || jsgen.BracketDepth(cand) > 150 {
			continue
		}
		// jsgen output is only "nearly always" free of early errors; take the first candidate that compiles
		if _, err := goja.Compile("b.js", cand, false); err == nil {
			body = cand
			break
		}
	}
	if strings.Contains(body, "eval(") || strings.Contains(body, "with (") {
		tags["dynamic-scope"] = true
	}
	if strings.Contains(body, "new Function(") {
		tags["new-function"] = true
	}
	if strings.Contains(body, "#p") {
		tags["private-names"] = true
	}
	if strings.Contains(body, "`") {
		tags["template"] = true
	}
	b.WriteString(body)
	return b.String(), tags
}

type runObs struct {
	Kind  string
	Text  string // rendering of the completion value / error
	Out   string
	Steps int64
}

func (o runObs) String() string {
	return fmt.Sprintf("%s | %s | out=%s | steps=%d", o.Kind, core.Trunc(o.Text, 300), core.Trunc(o.Out, 600), o.Steps)
}

var collectPrg = goja.MustCompile("collect.js", "typeof __out === 'object' && __out !== null && typeof __out.join === 'function' ? Array.prototype.join.call(__out, '\\u0001') : String(__out)", false)

func newProgRuntime() *goja.Runtime {
	r := gj.NewRuntime()
	r.SetMaxCallStackSize(200)
	goja.VerifSetFuel(r, fuelPerRun)
	return r
}

func renderVal(r *goja.Runtime, v goja.Value) string {
	if v == nil {
		return "nil"
	}
	if _, isObj := v.(*goja.Object); !isObj {
		return gj.NewIds().Render(v)
	}
	var s string
	o := gj.Call(func() (goja.Value, error) {
		err := r.Try(func() { s = v.String() })
		if err != nil {
			s = "throws:" + core.Trunc(err.Error(), 120)
		}
		return nil, nil
	})
	if o.Panic != nil || o.Fuel {
		return "obj:(unprintable)"
	}
	return "obj:" + core.Trunc(s, 400)
}

// observe runs prg on r and renders what can be seen from outside.
func observe(r *goja.Runtime, prg *goja.Program) runObs {
	var obs runObs
	o := gj.Call(func() (goja.Value, error) { return r.RunProgram(prg) })
	obs.Steps = goja.VerifSteps(r)
	switch {
	case o.Panic != nil:
		obs.Kind = "go-panic"
		obs.Text = core.Trunc(fmt.Sprint(o.Panic), 300)
		return obs
	case o.Assertion != nil:
		obs.Kind = "assertion"
		obs.Text = o.Assertion.Error()
		return obs
	case o.Fuel:
		obs.Kind = "fuel"
		return obs
	case o.Err != nil:
		obs.Kind = gj.ErrKind(o.Err)
		eo := gj.Call(func() (goja.Value, error) { obs.Text = o.Err.Error(); return nil, nil })
		if eo.Panic != nil || eo.Fuel {
			obs.Text = "(error text unavailable)"
		}
	default:
		obs.Kind = "ok"
		goja.VerifSetFuel(r, goja.VerifSteps(r)+20000)
		obs.Text = renderVal(r, o.Val)
	}
	goja.VerifSetFuel(r, goja.VerifSteps(r)+20000)
	co := gj.Call(func() (goja.Value, error) { return r.RunProgram(collectPrg) })
	switch {
	case co.Fuel:
		obs.Out = "(collect: fuel)"
	case co.Panic != nil:
		obs.Out = "(collect: go panic)"
	case co.Err != nil:
		obs.Out = "(collect: " + gj.ErrKind(co.Err) + ")"
	case co.Val != nil:
		obs.Out = co.Val.String()
	}
	return obs
}

// maxOverlap computes the maximum number of [start,end] intervals that contain a common point.
func maxOverlap(starts, ends []int64) int {
	best := 0
	for i := range starts {
		n := 0
		for j := range starts {
			if starts[j] <= starts[i] && ends[j] >= starts[i] {
				n++
			}
		}
		if n > best {
			best = n
		}
	}
	return best
}

func runShared(c *core.Ctx, src string, tags map[string]bool, G, rounds int) core.Result {
	st := c.Stats
	res := core.Result{Verdict: core.Held, Key: src}
	var tagList []string
	for t := range tags {
		tagList = append(tagList, t)
	}
	sortStrings(tagList)
	cs := progCase{Src: src, Tags: tagList, Goroutines: G, Rounds: rounds}
	if c.Replay {
		fmt.Printf("--- program (%d goroutines x %d rounds; %v) ---\n%s\n--- end ---\n", G, rounds, tagList, src)
	}
	// sequential reference: a separately compiled copy, run twice (must be reproducible)
	ref, err := goja.Compile("p.js", src, false)
	if err != nil {
		st.Inc("shared:compile_error")
		res.Verdict = core.Inconclusive
		res.Monitor = "compile-error"
		return res
	}
	base := observe(newProgRuntime(), ref)
	if base.Kind == "fuel" || base.Kind == "go-panic" || base.Kind == "assertion" {
		st.Inc("shared:baseline_" + base.Kind)
		res.Verdict = core.Inconclusive
		res.Monitor = "baseline-" + base.Kind
		return res
	}
	// a second, independent compilation must observe the same (else the program is not deterministic by itself)
	if ref2, err := goja.Compile("p.js", src, false); err == nil {
		if again := observe(newProgRuntime(), ref2); again != base {
			st.Inc("shared:baseline_not_reproducible")
			res.Verdict = core.Inconclusive
			res.Monitor = "baseline-not-reproducible"
			res.Detail = base.String() + "\nvs\n" + again.String()
			return res
		}
	}
	// running the very same Program again, sequentially, on another fresh Runtime must observe the same
	if again := observe(newProgRuntime(), ref); again != base {
		r := core.Result{Verdict: core.Violated, NonTrivial: true, Key: src, Monitor: "result-differs-sequential-rerun",
			Detail: fmt.Sprintf("the second sequential run of one Program (fresh Runtime each) observed\n  %s\nthe first run observed\n  %s", again, base), Case: cs}
		return r
	}
	shared, err := goja.Compile("p.js", src, false)
	if err != nil {
		res.Verdict = core.Inconclusive
		res.Monitor = "compile-error"
		return res
	}
	st.Inc("shared:programs")
	st.Inc("shared:baseline_outcome_" + base.Kind)
	for _, t := range tagList {
		st.Inc("shared:feature:" + t)
	}
	fail := func(mon, detail string) core.Result {
		return core.Result{Verdict: core.Violated, NonTrivial: true, Key: src, Monitor: mon, Detail: detail, Case: cs}
	}
	var clock atomic.Int64
	overlapped := false
	for round := 0; round < rounds; round++ {
		rts := make([]*goja.Runtime, G)
		for i := range rts {
			rts[i] = newProgRuntime()
		}
		obs := make([]runObs, G)
		starts := make([]int64, G)
		ends := make([]int64, G)
		var ready, done sync.WaitGroup
		gate := make(chan struct{})
		ready.Add(G)
		done.Add(G)
		for i := 0; i < G; i++ {
			go func(i int) {
				defer done.Done()
				ready.Done()
				<-gate
				starts[i] = clock.Add(1)
				obs[i] = observe(rts[i], shared)
				ends[i] = clock.Add(1)
			}(i)
		}
		ready.Wait()
		close(gate)
		done.Wait()
		ov := maxOverlap(starts, ends)
		st.Inc(fmt.Sprintf("shared:rounds_with_max_overlap_%02d", ov))
		st.Max("shared:max_goroutines_overlapping_on_one_program", int64(ov))
		st.Count("shared:concurrent_runs", int64(G))
		if ov >= 2 {
			overlapped = true
		}
		for i := 0; i < G; i++ {
			if obs[i] != base {
				r := fail("result-differs", fmt.Sprintf("round %d, goroutine %d of %d observed\n  %s\nsequential run of the same source observed\n  %s", round, i, G, obs[i], base))
				r.Signature = "shared:result-differs"
				return r
			}
		}
	}
	// the shared Program must still behave sequentially afterwards
	if after := observe(newProgRuntime(), shared); after != base {
		r := fail("result-differs-after-sharing", fmt.Sprintf("a sequential run of the shared Program after the concurrent rounds observed\n  %s\nreference\n  %s", after, base))
		r.Signature = "shared:result-differs-after-sharing"
		return r
	}
	res.NonTrivial = overlapped
	if st.WantSample() && c.Index%9 == 0 {
		st.Sample(map[string]any{"part": "shared-program", "goroutines": G, "tags": tagList, "src": core.Trunc(src, 700), "reference": base.String()})
	}
	return res
}

func sortStrings(xs []string) {
	for i := 1; i < len(xs); i++ {
		for j := i; j > 0 && xs[j] < xs[j-1]; j-- {
			xs[j], xs[j-1] = xs[j-1], xs[j]
		}
	}
}
