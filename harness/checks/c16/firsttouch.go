package c16

import (
	"fmt"
	"sort"
	"strings"
	"sync"
	"sync/atomic"

	"github.com/dop251/goja"

	"verif/harness/core"
	"verif/harness/gj"
)

// Part (d): first-touch races on lazily scanned strings.  A Go string converted with ToValue (or produced by JSON.stringify /
// a concatenation of unscanned strings) memoises its scan on first use; the window in which two Runtimes can collide on that
// memoisation is the duration of the scan.  So: long strings (20-100 KB, ASCII and non-ASCII), many fresh shared values per
// case (each value is first-touched exactly once per goroutine), all goroutines released by a barrier on the same value, and the
// FIRST operation each goroutine performs on each value is PRNG-chosen from the whole operation list (script operators and
// methods, and the Go API).  Every result is compared with the same operation on a twin value computed sequentially (an operation's result does not depend on the scan state).
// Evidence: the matrix of (first op in goroutine A x first op in goroutine B) pairs exercised, overlaps measured with timestamps.

type ftOp struct {
	name string
	src  string                                     // script using globals s (the shared value) and n (its length in units); "" = Go API op
	goFn func(r *goja.Runtime, v goja.Value) string // Go API op
	prg  *goja.Program
}

func goStr(f func(s goja.String) string) func(*goja.Runtime, goja.Value) string {
	return func(_ *goja.Runtime, v goja.Value) string { return f(v.(goja.String)) }
}

var asciiLit = goja.New().ToValue("lit")
var uniLit = goja.New().ToValue("é")

var ftOps = []*ftOp{
	{name: `s + "lit"`, src: `var t = s + "lit"; t.length + ":" + t.charCodeAt(t.length - 4) + ":" + t.charCodeAt(0)`},
	{name: `"lit" + s`, src: `var t = "lit" + s; t.length + ":" + t.charCodeAt(t.length - 1) + ":" + t.charCodeAt(3)`},
	{name: `s + "é"`, src: `var t = s + "é"; t.length + ":" + t.charCodeAt(t.length - 2)`},
	{name: `s.concat("x")`, src: `var t = s.concat("x", 1); t.length + ":" + t.charCodeAt(t.length - 3)`},
	{name: `s += s`, src: `var t = s; t += s; t.length + ":" + t.charCodeAt(t.length - 1)`},
	{name: "template", src: "var t = `<${s}>`; t.length + ':' + t.charCodeAt(t.length - 2)"},
	{name: `s.length`, src: `s.length`},
	{name: `s.charAt`, src: `s.charAt(5) + s.charAt(s.length - 1)`},
	{name: `s.charCodeAt`, src: `s.charCodeAt(s.length - 1) + ":" + s.charCodeAt(0)`},
	{name: `s[i]`, src: `s[7] + s[s.length - 1]`},
	{name: `s.indexOf`, src: `s.indexOf("é") + ":" + s.indexOf("zz")`},
	{name: `s.lastIndexOf`, src: `s.lastIndexOf("a")`},
	{name: `s.includes`, src: `s.includes("漢") + ":" + s.startsWith("ab") + ":" + s.endsWith("é")`},
	{name: `s === "lit"`, src: `(s === "lit") + ":" + ("lit" === s) + ":" + (s !== "abc")`},
	{name: `s === s`, src: `(s === s) + ":" + (s == s) + ":" + Object.is(s, s)`},
	{name: `s === "é"`, src: `(s === "é") + ":" + ("é…" === s)`},
	{name: `s == 1`, src: `(s == 1) + ":" + (s == null)`},
	{name: `s < "b"`, src: `(s < "b") + ":" + (s > "é") + ":" + (s <= s)`},
	{name: `Map key`, src: `var m = new Map([[s, 1]]); m.get(s) + ":" + m.has("lit")`},
	{name: `Set has`, src: `new Set(["lit", "é"]).has(s)`},
	{name: `property key`, src: `var o = {}; o[s] = 1; Object.keys(o)[0].length + ":" + (s in o)`},
	{name: `s.toUpperCase`, src: `var t = s.toUpperCase(); t.length + ":" + t.charCodeAt(t.length - 1)`},
	{name: `s.slice`, src: `s.slice(1, 6) + s.slice(-2)`},
	{name: `s.substring`, src: `s.substring(s.length - 3)`},
	{name: `s.at`, src: `s.at(-1) + s.at(0)`},
	{name: `s.codePointAt`, src: `s.codePointAt(s.length - 1)`},
	{name: `s.trim`, src: `s.trim().length`},
	{name: `s.padEnd`, src: `s.padEnd(s.length + 2, "é").length`},
	{name: `s.localeCompare`, src: `s.localeCompare(s) + ":" + (s.localeCompare("a") > 0)`},
	{name: `JSON.stringify`, src: `JSON.stringify(s).length + ":" + JSON.stringify({k: s}).length`},
	{name: `typeof/String`, src: `typeof s + ":" + String(s).length + ":" + Object(s).length`},
	{name: `Number(s)`, src: `isNaN(Number(s)) + ":" + isNaN(parseInt(s))`},
	{name: `regexp.test`, src: `/é$/.test(s) + ":" + /^ab/.test(s)`},
	{name: `s.normalize`, src: `s.normalize("NFC").length`},
	{name: `[...s]`, src: `var c = 0; for (var ch of s) { c++; if (c > 50) break; } c`},
	{name: `switch`, src: `var r; switch (s) { case "lit": r = 1; break; case "é": r = 2; break; default: r = 3; } r`},
	{name: `Go Export`, goFn: func(_ *goja.Runtime, v goja.Value) string { e := v.Export().(string); return fmt.Sprint(len(e)) }},
	{name: `Go String()`, goFn: func(_ *goja.Runtime, v goja.Value) string { return fmt.Sprint(len(v.String())) }},
	{name: `Go Length`, goFn: goStr(func(s goja.String) string { return fmt.Sprint(s.Length()) })},
	{name: `Go CharAt`, goFn: goStr(func(s goja.String) string { return fmt.Sprint(s.CharAt(3)) })},
	{name: `Go Concat(lit)`, goFn: goStr(func(s goja.String) string {
		t := s.Concat(asciiLit.(goja.String))
		return fmt.Sprint(t.Length(), t.CharAt(t.Length()-4))
	})},
	{name: `Go lit.Concat(s)`, goFn: goStr(func(s goja.String) string {
		t := uniLit.(goja.String).Concat(s)
		return fmt.Sprint(t.Length(), t.CharAt(t.Length()-1))
	})},
	{name: `Go Substring`, goFn: goStr(func(s goja.String) string { return gj.RenderString(s.Substring(2, 6)) })},
	{name: `Go CompareTo`, goFn: goStr(func(s goja.String) string { return fmt.Sprint(s.CompareTo(asciiLit.(goja.String)), s.CompareTo(s)) })},
	{name: `Go StrictEquals(ascii)`, goFn: func(_ *goja.Runtime, v goja.Value) string {
		return fmt.Sprint(v.StrictEquals(asciiLit), asciiLit.StrictEquals(v), v.SameAs(asciiLit))
	}},
	{name: `Go StrictEquals(ascii) only`, goFn: func(_ *goja.Runtime, v goja.Value) string { return fmt.Sprint(v.StrictEquals(asciiLit)) }},
	{name: `Go StrictEquals(unicode)`, goFn: func(_ *goja.Runtime, v goja.Value) string {
		return fmt.Sprint(v.StrictEquals(uniLit), uniLit.StrictEquals(v), v.Equals(uniLit), uniLit.Equals(v))
	}},
	{name: `Go Equals(self)`, goFn: func(_ *goja.Runtime, v goja.Value) string {
		return fmt.Sprint(v.Equals(v), v.SameAs(v), v.StrictEquals(v))
	}},
	{name: `Go ToNumber`, goFn: func(_ *goja.Runtime, v goja.Value) string { f := v.ToFloat(); return fmt.Sprint(f != f, v.ToBoolean()) }},
	{name: `Go Reader`, goFn: goStr(func(s goja.String) string {
		rd := s.Reader()
		n := 0
		for n < 40 {
			if _, _, err := rd.ReadRune(); err != nil {
				break
			}
			n++
		}
		return fmt.Sprint(n)
	})},
	{name: `Go object key`, goFn: func(r *goja.Runtime, v goja.Value) string {
		o := r.NewObject()
		o.Set("k", v)
		return fmt.Sprint(o.Get("k").StrictEquals(v))
	}},
	{name: `Go ExportTo`, goFn: func(r *goja.Runtime, v goja.Value) string {
		var s string
		if err := r.ExportTo(v, &s); err != nil {
			return err.Error()
		}
		return fmt.Sprint(len(s))
	}},
}

// second operation of a goroutine on a value (after its first touch): cheap readers of the memoised scan
var cheapSecond = []string{`s.length`, `s.charCodeAt`, `s.indexOf`, `s === "lit"`, `s < "b"`, `s.at`, `Go Length`, `Go CharAt`, `Go StrictEquals(ascii)`, `Go CompareTo`, `s + "lit"`}

var ftOnce sync.Once

func ftInit() {
	ftOnce.Do(func() {
		for _, op := range ftOps {
			if op.src != "" {
				op.prg = goja.MustCompile("ft.js", op.src, false)
			}
		}
	})
}

type ftValue struct {
	Kind  string `json:"kind"`  // how the lazily scanned value is made
	Units int    `json:"units"` // approximate length
	NonA  string `json:"non_ascii"`
}

// makeGoString builds the Go string of a value recipe.
func (fv ftValue) makeGoString() string {
	unit := "abcdefghij"
	n := fv.Units / len(unit)
	body := strings.Repeat(unit, n)
	switch fv.NonA {
	case "none":
		return body
	case "start":
		return "é" + body
	case "middle":
		return body[:len(body)/2] + "漢" + body[len(body)/2:]
	case "end":
		return body + "é"
	default: // dense
		return strings.Repeat("abcdé", n*2)
	}
}

// materialise creates a fresh, never-touched lazily scanned value.
func (fv ftValue) materialise() (goja.Value, error) {
	cr := goja.New()
	gs := fv.makeGoString()
	switch fv.Kind {
	case "ToValue":
		return cr.ToValue(gs), nil
	case "concat-unscanned":
		h := len(gs) / 2
		for h > 0 && gs[h]&0xC0 == 0x80 {
			h--
		}
		a, b := cr.ToValue(gs[:h]).(goja.String), cr.ToValue(gs[h:]).(goja.String)
		return a.Concat(b), nil
	default: // JSON.stringify result (unscanned imported string when it may contain non-ASCII)
		cr.Set("g", gs)
		return cr.RunString(`JSON.stringify(g)`)
	}
}

func (op *ftOp) apply(r *goja.Runtime, v goja.Value) string {
	var out string
	o := gj.Call(func() (goja.Value, error) {
		if op.goFn != nil {
			out = op.goFn(r, v)
			return nil, nil
		}
		r.Set("s", v)
		res, err := r.RunProgram(op.prg)
		if err != nil {
			out = "error: " + err.Error()
			return nil, nil
		}
		out = res.String()
		return nil, nil
	})
	if o.Panic != nil {
		return fmt.Sprintf("go-panic: %v", o.Panic)
	}
	if o.Fuel {
		return "fuel"
	}
	return out
}

type ftCase struct {
	Goroutines int        `json:"goroutines"`
	Values     []ftValue  `json:"values"`
	FirstOps   [][]string `json:"first_ops"` // per value, per goroutine
}

func opByName(name string) *ftOp {
	for _, op := range ftOps {
		if op.name == name {
			return op
		}
	}
	panic("no such op " + name)
}

// runFirstTouch: random plan (pinned=false) or the fixed witness plan of the seeded defect family (pinned=true): one long
// string with its only non-ASCII unit at the very end, 8 goroutines, odd ones concatenate a literal to it, even ones read its length.
// Known finding C16-importedstring-strictequals-race (inbox/C16-importedstring-strictequals-race.md): while it is listed in
// known-findings.d/C16.json, random first-touch plans do not use the operations that compare the shared value with an ASCII
// string by StrictEquals (exclusion neighbourhood of that finding); pinned witness "strictequals" keeps exercising it.
const strictEqualsFinding = "C16-importedstring-strictequals-race"

var strictEqualsOps = map[string]bool{`Go StrictEquals(ascii) only`: true, `s === "lit"`: true, `switch`: true, `Set has`: true, `Go StrictEquals(ascii)`: true}

var (
	seFindOnce   sync.Once
	seFindListed bool
)

func strictEqualsListed() bool {
	seFindOnce.Do(func() {
		for _, k := range core.LoadFindings().Findings {
			if k.Property == "C16" && strings.HasPrefix(k.ID, strictEqualsFinding) {
				seFindListed = true
			}
		}
	})
	return seFindListed
}

// pickOp chooses an operation, honouring the exclusion above.
func pickOp(rng *core.Rng, from []*ftOp) *ftOp {
	for {
		op := from[rng.Intn(len(from))]
		if strictEqualsListed() && strictEqualsOps[op.name] {
			continue
		}
		return op
	}
}

func runFirstTouch(c *core.Ctx, pinned bool) core.Result {
	return runFirstTouchMode(c, map[bool]string{false: "", true: "concat"}[pinned])
}

// runFirstTouchMode: mode "" = random plan; "concat" / "strictequals" = fixed witness plans.
func runFirstTouchMode(c *core.Ctx, mode string) core.Result {
	_ = mode
	ftInit()
	rng := c.Rng
	st := c.Stats
	G := []int{2, 2, 3, 4, 6, 8}[rng.Intn(6)]
	nv := rng.Range(8, 14)
	if mode == "concat" {
		G, nv = 8, 10
	}
	if mode == "strictequals" {
		G, nv = 2, 6
	}
	cs := ftCase{Goroutines: G}
	kinds := []string{"ToValue", "ToValue", "ToValue", "concat-unscanned", "JSON.stringify"}
	nonA := []string{"none", "none", "end", "end", "middle", "start", "dense"}
	type valPlan struct {
		fv     ftValue
		ops    []*ftOp // first op per goroutine
		second []*ftOp
		shared goja.Value
		wantOf map[string]string
	}
	plans := make([]*valPlan, nv)
	for k := range plans {
		fv := ftValue{Kind: core.Pick(rng, kinds), Units: rng.Range(20000, 48000), NonA: core.Pick(rng, nonA)}
		if fv.Kind == "JSON.stringify" && fv.NonA == "none" {
			fv.NonA = "end" // an all-ASCII JSON result is an asciiString, not a lazily scanned one
		}
		if mode == "concat" {
			fv = ftValue{Kind: "ToValue", Units: 20000, NonA: "end"}
		}
		if mode == "strictequals" {
			fv = ftValue{Kind: "ToValue", Units: 30000, NonA: "none"}
		}
		p := &valPlan{fv: fv, wantOf: map[string]string{}}
		names := make([]string, G)
		// half of the values race one concatenation-family op against scanning ops, the rest is uniform
		for g := 0; g < G; g++ {
			op := pickOp(rng, ftOps)
			if k%2 == 0 && g == 0 {
				op = ftOps[rng.Intn(6)] // the concatenation family
			}
			second := opByName(core.Pick(rng, cheapSecond))
			for strictEqualsListed() && strictEqualsOps[second.name] {
				second = opByName(core.Pick(rng, cheapSecond))
			}
			if mode == "concat" {
				op, second = opByName(`s.length`), opByName(`s.charCodeAt`)
				if g%2 == 1 {
					op = opByName(`s + "lit"`)
				}
			}
			if mode == "strictequals" {
				op, second = opByName(`Go Length`), opByName(`Go Length`)
				if g == 0 {
					op = opByName(`Go StrictEquals(ascii) only`)
				}
			}
			p.ops = append(p.ops, op)
			p.second = append(p.second, second)
			names[g] = op.name
		}
		cs.Values = append(cs.Values, fv)
		cs.FirstOps = append(cs.FirstOps, names)
		plans[k] = p
	}
	// sequential reference on twin values: each op applied as the first op on its own fresh twin (so that the reference
	// of an op does not depend on an earlier op having scanned the value), plus the second op after it
	refRT := gj.NewRuntime()
	goja.VerifSetFuel(refRT, 50_000_000)
	for _, p := range plans {
		// the result of an operation does not depend on whether the value has been scanned before: one twin per value,
		// every distinct operation applied once, sequentially
		tw, err := p.fv.materialise()
		if err != nil {
			return core.Result{Verdict: core.Inconclusive, Monitor: "firsttouch-recipe-error", Detail: err.Error()}
		}
		for g := 0; g < G; g++ {
			for _, op := range []*ftOp{p.ops[g], p.second[g]} {
				if _, done := p.wantOf[op.name]; !done {
					p.wantOf[op.name] = op.apply(refRT, tw)
				}
			}
		}
		v, err := p.fv.materialise()
		if err != nil {
			return core.Result{Verdict: core.Inconclusive, Monitor: "firsttouch-recipe-error", Detail: err.Error()}
		}
		p.shared = v
		rp := goja.VerifRepr(v)
		st.Inc("firsttouch:value_repr:" + rp)
		if rp != "imported-unscanned" {
			st.Inc("firsttouch:values_not_lazily_scanned")
		}
	}
	if c.Replay {
		for k, p := range plans {
			fmt.Printf("value %d %+v first ops %v\n", k, p.fv, cs.FirstOps[k])
		}
	}
	// concurrent phase
	rts := make([]*goja.Runtime, G)
	for i := range rts {
		rts[i] = gj.NewRuntime()
		goja.VerifSetFuel(rts[i], 50_000_000)
	}
	got := make([][]string, nv)
	starts := make([][]int64, nv)
	ends := make([][]int64, nv)
	ready := make([]sync.WaitGroup, nv)
	fin := make([]sync.WaitGroup, nv)
	gates := make([]chan struct{}, nv)
	for k := range plans {
		got[k] = make([]string, G)
		starts[k] = make([]int64, G)
		ends[k] = make([]int64, G)
		ready[k].Add(G)
		fin[k].Add(G)
		gates[k] = make(chan struct{})
	}
	var clock atomic.Int64
	var wg sync.WaitGroup
	for g := 0; g < G; g++ {
		wg.Add(1)
		go func(g int) {
			defer wg.Done()
			r := rts[g]
			for k, p := range plans {
				ready[k].Done()
				<-gates[k]
				starts[k][g] = clock.Add(1)
				first := p.ops[g].apply(r, p.shared)
				ends[k][g] = clock.Add(1)
				got[k][g] = first + " ; " + p.second[g].apply(r, p.shared)
				fin[k].Done()
			}
		}(g)
	}
	for k := range plans {
		ready[k].Wait()
		close(gates[k])
		fin[k].Wait()
	}
	wg.Wait()
	st.Inc("firsttouch:cases")
	st.Count("firsttouch:fresh_shared_values", int64(nv))
	st.Count("firsttouch:first_touches", int64(nv*G))
	overlapped := 0
	for k, p := range plans {
		if ov := maxOverlap(starts[k], ends[k]); ov >= 2 {
			overlapped++
			st.Inc(fmt.Sprintf("firsttouch:values_with_first_ops_overlapping_%02d", ov))
		} else {
			st.Inc("firsttouch:values_with_first_ops_overlapping_01")
		}
		names := append([]string(nil), cs.FirstOps[k]...)
		sort.Strings(names)
		for a := 0; a < len(names); a++ {
			for b := a + 1; b < len(names); b++ {
				st.SetAdd("firsttouch_first_op_pairs", names[a]+"  x  "+names[b])
			}
		}
		for g := 0; g < G; g++ {
			st.SetAdd("firsttouch_first_ops", p.ops[g].name)
			want := p.wantOf[p.ops[g].name] + " ; " + p.wantOf[p.second[g].name]
			if got[k][g] != want {
				return core.Result{Verdict: core.Violated, NonTrivial: true, Monitor: "firsttouch-result-differs",
					Detail: fmt.Sprintf("value %d (%+v), goroutine %d of %d: first op %q then %q observed %q; the same two ops on a twin value, sequentially: %q",
						k, p.fv, g, G, p.ops[g].name, p.second[g].name, core.Trunc(got[k][g], 300), core.Trunc(want, 300)),
					Signature: "firsttouch:result-differs|" + p.ops[g].name + "|" + p.fv.Kind + "|" + p.fv.NonA, Case: cs}
			}
		}
		if ok, why := goja.VerifStringWellFormed(p.shared); !ok {
			return core.Result{Verdict: core.Violated, NonTrivial: true, Monitor: "pool-string-malformed",
				Detail: fmt.Sprintf("value %d (%+v) after concurrent first touches %v: %s", k, p.fv, cs.FirstOps[k], why), Signature: "firsttouch:malformed|" + p.fv.Kind, Case: cs}
		}
	}
	res := core.Result{Verdict: core.Held, NonTrivial: overlapped > 0, Key: fmt.Sprintf("ft:%d", c.Index), Case: cs}
	if st.WantSample() && c.Index%13 == 0 {
		st.Sample(map[string]any{"part": "first-touch", "case": cs})
	}
	return res
}
