package c02

import (
	"fmt"
	"strings"

	"verif/harness/core"
)

// Binding matrix (model-free sub-sweep, the first matrixSize() indices of the case list).
//
// goja selects among ~60 load/store/resolve instruction variants by where a binding lives (stack slot, stash,
// arguments-in-stash, dynamic scope, global) and from where it is accessed.  A cell fixes a declaration kind, what else
// the owning function contains (forcing stack / stash / dynamic placement), an access operation and the mode; the cell's
// program is instantiated once per access context — direct, inside a block, inside with ({}), through direct eval text,
// inside an arrow, inside an arrow that evals, inside with + arrow — and all contexts must log the same three
// observations (result of the operation or the error thrown, the binding read directly afterwards, typeof it).  By the
// specification the contexts are indistinguishable for these operations: a with object without the name, the empty
// declarative environment of an eval and an arrow (lexical this/arguments) do not change what an identifier resolves to.

type mxDecl struct {
	name      string
	pre, post string // declaration before / after the access
	params    string // parameter list of the owner ("" = (a))
	args      string // arguments of the call
	open      string // wrapper around access + post-reads (catch / for-let heads)
	close     string
	id        string // the identifier accessed (default x)
	noAssign  bool   // assignment operations are early errors or meaningless
	fnOnly    bool   // needs a function owner
}

var mxDecls = []mxDecl{
	{name: "var-unassigned", pre: "var x;"},
	{name: "var-assigned", pre: "var x = 1;"},
	{name: "var-late", post: "var x = 2;"},
	{name: "let", pre: "let x = 1;"},
	{name: "let-late", post: "let x = 3;"},
	{name: "const", pre: "const x = 1;"},
	{name: "const-late", post: "const x = 4;"},
	{name: "func", pre: "function x() { return 5; }"},
	{name: "func-late", post: "function x() { return 6; }"},
	{name: "class", pre: "class x { static m() { return 7; } }"},
	{name: "class-late", post: "class x { }"},
	{name: "param", params: "(a, x)", args: "(1, 2)", fnOnly: true},
	{name: "param-missing", params: "(a, x)", args: "(1)", fnOnly: true},
	{name: "param-default", params: "(a, x = a + 1)", args: "(1)", fnOnly: true},
	{name: "param-pattern", params: "(a, [x])", args: "(1, [2])", fnOnly: true},
	{name: "param-rest", params: "(a, ...x)", args: "(1, 2, 3)", fnOnly: true},
	{name: "catch-param", open: "try { throw 8; } catch (x) {", close: "}"},
	{name: "catch-pattern", open: "try { throw {x: 8}; } catch ({x}) {", close: "}"},
	{name: "for-let", open: "for (let x = 0; x < 1; x++) {", close: "}"},
	{name: "for-of-const", open: "for (const x of [4]) {", close: "}"},
	{name: "global-undeclared"},
	{name: "arguments", id: "arguments", noAssign: true, fnOnly: true},
	{name: "this", id: "this", noAssign: true},
}

// what else the owner contains (forces placement decisions)
var mxForces = []struct{ name, code string }{
	{"plain", ""},
	{"captured-param", "var g0 = function() { return a; };"},
	{"captured-x", "var g1 = () => X;"},
	{"uses-arguments", "var q0 = arguments.length;"},
	{"direct-eval", "eval('');"},
	{"dead-eval", "if (false) eval('');"},
	{"inner-eval", "var g2 = function() { return eval('1'); };"},
	{"assign-arguments-elem", "arguments[0] = 9;"},
}

var mxOps = []struct {
	name, expr string
	assign     bool
	sloppyOnly bool
}{
	{"read", "X", false, false},
	{"typeof", "typeof X", false, false},
	{"assign", "X = 9", true, false},
	{"compound", "X += 1", true, false},
	{"update", "X++", true, false},
	{"logical-assign", "X ??= 5", true, false},
	{"destructure", "[X] = [7]", true, false},
	{"call", "X()", false, false},
	{"delete", "delete X", true, true},
}

var mxContexts = []struct {
	name       string
	build      func(e string) string
	sloppyOnly bool
}{
	{"direct", func(e string) string { return "$r = " + e + ";" }, false},
	{"block", func(e string) string { return "{ let z0 = 1; $r = " + e + "; }" }, false},
	{"with", func(e string) string { return "with ({}) { $r = " + e + "; }" }, true},
	{"eval", func(e string) string { return "$r = eval(" + quote(e) + ");" }, false},
	{"arrow", func(e string) string { return "$r = (() => " + parenObj(e) + ")();" }, false},
	{"arrow-eval", func(e string) string { return "$r = (() => eval(" + quote(e) + "))();" }, false},
	{"with-arrow", func(e string) string { return "with ({}) { $r = (() => " + parenObj(e) + ")(); }" }, true},
	{"eval-arrow", func(e string) string { return "$r = eval(" + quote("(() => "+parenObj(e)+")()") + ");" }, false},
}

func quote(s string) string {
	return `"` + strings.ReplaceAll(strings.ReplaceAll(s, `\`, `\\`), `"`, `\"`) + `"`
}

func parenObj(e string) string {
	if strings.HasPrefix(e, "[") || strings.HasPrefix(e, "{") {
		return "(" + e + ")"
	}
	return e
}

type mxCell struct {
	decl, force, op int
	strict, global  bool
}

var mxCells = buildCells()

func buildCells() []mxCell {
	var cells []mxCell
	for d, dc := range mxDecls {
		for f := range mxForces {
			for o, op := range mxOps {
				if dc.noAssign && (op.assign || op.name == "delete") {
					continue
				}
				for _, strict := range []bool{false, true} {
					if strict && op.sloppyOnly {
						continue
					}
					for _, global := range []bool{false, true} {
						if global && (dc.fnOnly || mxForces[f].name == "captured-param" || strings.Contains(mxForces[f].code, "arguments")) {
							continue
						}
						cells = append(cells, mxCell{d, f, o, strict, global})
					}
				}
			}
		}
	}
	return cells
}

func matrixSize() int { return len(mxCells) }

func (c mxCell) name() string {
	mode, owner := "sloppy", "function"
	if c.strict {
		mode = "strict"
	}
	if c.global {
		owner = "global"
	}
	return fmt.Sprintf("%s/%s/%s/%s/%s", mxDecls[c.decl].name, mxForces[c.force].name, mxOps[c.op].name, mode, owner)
}

// source builds the cell's program for one access context.
func (c mxCell) source(ctx int) string {
	d := mxDecls[c.decl]
	id := d.id
	if id == "" {
		id = "x"
	}
	sub := func(s string) string { return strings.ReplaceAll(s, "X", id) }
	var b strings.Builder
	if c.strict {
		b.WriteString("\"use strict\";\n")
	}
	params, args := d.params, d.args
	if params == "" {
		// one formal parameter more than arguments: the prologue variants that pad missing arguments are exercised
		params, args = "(a, zz)", "(1)"
	}
	if !c.global {
		// leave recognisable values in the stack region the owner's frame is going to use: a prologue that forgets to
		// initialise a local shows them
		b.WriteString("(function(p, q, r) { var s1 = 11, s2 = 22, s3 = 33, s4 = 44; return [s1, s2, s3, s4, p, q, r]; })(55, 66, 77);\n")
		b.WriteString("(function" + params + " {\n")
	} else {
		b.WriteString("var a = 1;\n")
	}
	b.WriteString("var $r;\n")
	b.WriteString(d.pre + "\n")
	b.WriteString(sub(mxForces[c.force].code) + "\n")
	b.WriteString(d.open + "\n")
	b.WriteString("try { " + mxContexts[ctx].build(sub(mxOps[c.op].expr)) + " } catch (e) { $r = e; }\n")
	b.WriteString("log($r);\n")
	b.WriteString("try { log(" + id + "); } catch (e) { log(e); }\n")
	b.WriteString("try { log(typeof " + id + "); } catch (e) { log(e); }\n")
	b.WriteString(d.close + "\n")
	b.WriteString(d.post + "\n")
	if !c.global {
		b.WriteString("}).call(null, " + strings.TrimPrefix(args, "("))
		b.WriteString(";\n")
	}
	return b.String()
}

func runMatrix(c *core.Ctx) core.Result {
	cell := mxCells[c.Index]
	st := c.Stats
	st.Inc("matrix_cells")
	res := core.Result{Verdict: core.Held, Key: "matrix:" + cell.name()}
	var ref *Obs
	var refSrc string
	msSeen := map[string]bool{}
	for ctx := range mxContexts {
		if mxContexts[ctx].sloppyOnly && cell.strict {
			continue
		}
		src := cell.source(ctx)
		o := RunGoja(src, RunOpts{Fuel: origFuel, MaxStack: origStack, Cover: c.Index%4 == 0})
		st.Inc("matrix_runs")
		for _, t := range o.InstrSet {
			st.SetAdd("instr_types_executed", strings.TrimPrefix(strings.TrimPrefix(t, "*"), "goja."))
		}
		if o.Harness != "" {
			return core.Result{Verdict: core.Violated, NonTrivial: true, Key: res.Key, Monitor: "harness-matrix",
				Detail:    "binding matrix cell " + cell.name() + " context " + mxContexts[ctx].name + ": " + strings.SplitN(o.Harness, "\n", 2)[0] + "\n--- program ---\n" + src + "\n" + core.Trunc(o.Harness, 2000),
				Signature: "C02|matrix-crash|" + cell.name() + "|" + mxContexts[ctx].name, Case: caseRec{Strict: cell.strict, Original: src}}
		}
		if !o.Conclusive() {
			st.Inc("matrix_inconclusive")
			continue
		}
		if ms, _ := InstrMultiset(src, false); ms != "" {
			msSeen[ms] = true
		}
		if ref == nil {
			ref, refSrc = o, src
			continue
		}
		st.Inc("matrix_twins_compared")
		st.Count("events_compared", int64(len(o.Events)))
		if !ref.Same(o) {
			return core.Result{Verdict: core.Violated, NonTrivial: true, Key: res.Key, Monitor: "binding-matrix",
				Detail: fmt.Sprintf("binding matrix cell %s: context %s disagrees with context direct: %s\n--- direct ---\n%s--- %s ---\n%s",
					cell.name(), mxContexts[ctx].name, Diff(ref, o), refSrc, mxContexts[ctx].name, src),
				Signature: "C02|matrix|" + cell.name() + "|" + mxContexts[ctx].name,
				Case:      caseRec{Strict: cell.strict, Original: refSrc, Variant: src, Expected: ref.String(), Observed: o.String()}}
		}
	}
	res.NonTrivial = ref != nil && len(msSeen) > 1 && len(ref.Events) >= 3
	return res
}
