package c02

import (
	"fmt"
	"os"

	"github.com/dop251/goja"
)

// DevRunFile runs a file and prints the result value (development aid).
func DevRunFile(path string) {
	b, _ := os.ReadFile(path)
	rt := goja.New()
	rt.Set("log", func(call goja.FunctionCall) goja.Value { fmt.Println("log:", call.Arguments); return goja.Undefined() })
	v, err := rt.RunString(string(b))
	fmt.Println("=>", v, err)
}
