package c02

import "testing"

func BenchmarkRunGoja(b *testing.B) {
	for i := 0; i < b.N; i++ {
		RunGoja("log(1)", RunOpts{Fuel: 1000, MaxStack: 150})
	}
}
func BenchmarkMultiset(b *testing.B) {
	for i := 0; i < b.N; i++ {
		InstrMultiset("var a = 1; function f(x){ return x + a } log(f(2))", false)
	}
}
