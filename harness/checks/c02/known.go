package c02

import (
	"os"

	"verif/harness/refjs"
)

// development switch (mutation trials against a tree where the findings are fixed): VERIF_C02_NOEXCL=1 disables the exclusions
var noExclusions = os.Getenv("VERIF_C02_NOEXCL") != ""

// genOpts: the generator options of the check (the exclusions of listed findings are the defaults of refjs.GenOpts).
func genOpts(strict bool) refjs.GenOpts {
	o := refjs.GenOpts{Strict: strict}
	if noExclusions {
		o.NamedFuncExprNonSimple = true
		o.JumpOutOfFinally = false // (not patched in any tree)
	}
	return o
}

func init() {
	if noExclusions {
		// (no listed finding has a pending patch at the moment; the remaining traps guard unpatched findings)
	}
}

// Neighbourhoods of listed known findings (known-findings.d/C02.json).  A program (instantiated) inside one of them is
// not compared; each exclusion is counted in the evidence ("excluded_known:<id>") so that the loss of coverage is visible.
// Remove an entry when its fix is merged into /repo (the pinned witness stays).

// knownNeighbourhood returns the id of a listed finding whose minimal syntactic neighbourhood the program is in, or "".
func knownNeighbourhood(p *refjs.Node) string {
	id := ""
	if noExclusions {
		return ""
	}
	// C02-eval-func-lexical was fixed in /repo (51fa214); no structural exclusion is left at the moment.
	return id
}
