package c02

import (
	"os"

	"verif/harness/refjs"
)

// development switch (mutation trials against a tree where the findings are fixed): VERIF_C02_NOEXCL=1 disables the exclusions
var noExclusions = os.Getenv("VERIF_C02_NOEXCL") != ""

func init() {
	if noExclusions {
		refjs.AvoidVarOverPatternParam = false
		refjs.AvoidArrowParenBody = false
	}
}

// Neighbourhoods of listed known findings (known-findings.d/C02.json).  A program (instantiated) inside one of them is
// not compared; each exclusion is counted in the evidence ("excluded_known:<id>") so that the loss of coverage is visible.
// Remove an entry when its fix is merged into /repo (the pinned witness stays).

// knownNeighbourhood returns the id of a listed finding whose minimal syntactic neighbourhood the program is in, or "".
func knownNeighbourhood(p *refjs.Node) string {
	id := ""
	if noExclusions {
		return ""
	}
	refjs.Walk(p, &refjs.Visitor{List: func(owner *refjs.Node, l *[]*refjs.Node, c refjs.Ctx) {
		// C02-eval-func-lexical: a function declaration in sloppy eval code evaluated at global level (indirect eval, or a
		// direct eval outside any function) does not see the let/const/class declarations of the same eval code
		if owner.K == refjs.KEval && !c.Strict && c.FnDepth == 0 {
			fn, lex := false, false
			for _, s := range *l {
				switch s.K {
				case refjs.KFuncDecl:
					fn = true
				case refjs.KClassDecl:
					lex = true
				case refjs.KVar:
					if s.S != "var" {
						lex = true
					}
				}
			}
			if fn && lex {
				id = "C02-eval-func-lexical"
			}
		}
	}})
	return id
}
