package c02

import "verif/harness/core"

func Check() *core.Check { return &core.Check{ID: "C02"} }
