// Package c02: "Compiled code matches definitional semantics; compiler choices are invisible".
//
// Layer 1 (model-free, deciding): every generated program P (refjs generator) is instantiated as sloppy/strict
// global code, function body, direct-eval code and indirect-eval code; rewrites R from a catalogue of
// semantics-preserving transformations (refjs.Rewriter, R1..R12, singly and in pairs) are applied and goja must show
// the same event log, completion value and thrown value for P and R(P).
// Layer 2: the definitional interpreter refjs.Interp must agree with goja on every P in every instantiation.
// White-box data (VerifProgramDump) is used only as evidence that variant and original compiled differently.
package c02

import (
	"fmt"
	"runtime"
	"strings"
	"sync"

	"verif/harness/core"
	"verif/harness/refjs"
)

const (
	origFuel     = 120000
	origStack    = 150
	variantStack = 1500
)

type caseRec struct {
	Pinned    string   `json:"pinned,omitempty"`
	Strict    bool     `json:"strict"`
	Placement string   `json:"placement,omitempty"`
	Rewrites  []string `json:"rewrites,omitempty"`
	Original  string   `json:"original"`
	Variant   string   `json:"variant,omitempty"`
	Expected  string   `json:"expected,omitempty"`
	Observed  string   `json:"observed,omitempty"`
}

func Check() *core.Check {
	return &core.Check{
		ID:    "C02",
		Level: "exploration",
		Rule: "case = one program from the refjs generator (tiny name pool, statements <= 40, depth <= 5; sloppy or strict) instantiated as global code, function body, direct-eval code and indirect-eval code; " +
			"layer 1: 3 variants per program, each 1 or 2 rewrites from the catalogue R1..R14, event log + completion value + thrown value of goja must be equal for original and variant in all 4 placements; " +
			"layer 2: goja must agree with the definitional interpreter refjs on the original in all 4 placements; " +
			"the first cases of the list are the binding matrix (declaration kind x placement-forcing content x access operation x mode x owner, each instantiated in 8 access contexts that must log the same); " +
			"non-trivial = a variant's instruction multiset (VerifProgramDump) differs from the original's and the program logged >= 3 events; distinct = distinct program texts",
		Assumptions: []string{
			"programs are confined to the refjs subset (DESIGN Appendix A); numbers stay exact integers where the generator can arrange it",
			"a run that observes engine-defined text (Function.prototype.toString / Error.prototype.toString, trapped by the harness), exhausts the fuel in the original, or overflows the call stack in the original is inconclusive",
			"the neighbourhoods of the listed known findings are excluded from the generator (see known-findings.d/C02.json)",
		},
		Cases: func(tier string) int {
			if tier == "thorough" {
				return matrixSize() + 400000
			}
			return matrixSize() + 20000
		},
		MinConclusive: func(tier string) int { return 2000 },
		NumPinned:     len(pinned),
		CaseTimeoutS:  60,
		Run:           run,
		Post: func(p *core.PostCtx) {
			c := p.Stats.Counters
			if v := c["variants"]; v > 0 {
				p.Evidence["fraction_variants_with_differing_bytecode"] = float64(c["variants_bytecode_differs"]) / float64(v)
			}
			if n := c["l2_interpretations"]; n > 0 {
				p.Evidence["fraction_interpretations_in_domain"] = float64(c["l2_compared"]) / float64(n)
			}
			p.Evidence["placements"] = []string{"global", "function", "direct-eval", "indirect-eval"}
			p.Evidence["rewrite_catalogue"] = "R1 const<->var/(0,c), R2 capture by uncalled closure, R3 eval(\"\"), R4 with({}), R5 arguments, R6 expression<->statement, R7 unreachable code / constant-condition wrappers, R8 block/label/IIFE, R9 eval(toString), R10 let<->var, R11 for<->while, R12 (a)<->([a]), R13 closure<->eval(closure text), R14 end of loop body<->continue"
		},
	}
}

// ---- executing and comparing

type exec struct {
	c     *core.Ctx
	st    *core.Stats
	cover bool
}

func (x *exec) runOrig(src string) *Obs {
	o := RunGoja(src, RunOpts{Fuel: origFuel, MaxStack: origStack, Cover: x.cover})
	x.st.Inc("runs")
	x.st.Count("vm_steps", o.Steps)
	for _, t := range o.InstrSet {
		x.st.SetAdd("instr_types_executed", strings.TrimPrefix(strings.TrimPrefix(t, "*"), "goja."))
	}
	return o
}

func (x *exec) runVariant(src string, orig *Obs) *Obs {
	// generous budgets: a rewrite adds a few instructions / frames per executed region at most
	o := RunGoja(src, RunOpts{Fuel: 20*orig.Steps + 50000, MaxStack: variantStack, Cover: x.cover})
	x.st.Inc("runs")
	x.st.Count("vm_steps", o.Steps)
	for _, t := range o.InstrSet {
		x.st.SetAdd("instr_types_executed", strings.TrimPrefix(strings.TrimPrefix(t, "*"), "goja."))
	}
	return o
}

// verdict of one comparison
type cmp struct {
	monitor      string // "" = held
	detail       string
	inconclusive string
}

func origProblem(o *Obs) (c cmp, stop bool) {
	switch {
	case o.Harness != "":
		return cmp{monitor: "harness-original", detail: "original: " + o.Harness}, true
	case o.Fuel:
		return cmp{inconclusive: "fuel-original"}, true
	case o.Overflow:
		return cmp{inconclusive: "stack-overflow-original"}, true
	case o.Tainted != "":
		return cmp{inconclusive: "engine-defined-text-observed"}, true
	case strings.HasPrefix(o.Final, "COMPILE"):
		return cmp{inconclusive: "original-does-not-compile"}, true
	}
	return cmp{}, false
}

func compareObs(orig, v *Obs) cmp {
	switch {
	case v.Harness != "":
		return cmp{monitor: "harness-variant", detail: "variant: " + v.Harness}
	case v.Fuel:
		return cmp{monitor: "variant-hangs", detail: fmt.Sprintf("original finished after %d instructions, variant exceeded %d", orig.Steps, 20*orig.Steps+50000)}
	case v.Overflow:
		return cmp{monitor: "variant-overflows", detail: fmt.Sprintf("original finished within %d frames, variant exceeded %d", origStack, variantStack)}
	case v.Tainted != "":
		return cmp{inconclusive: "engine-defined-text-observed-variant"}
	case strings.HasPrefix(v.Final, "COMPILE"):
		return cmp{monitor: "variant-does-not-compile", detail: "original ran (" + orig.Final + "), variant: " + v.Final}
	}
	if !orig.Same(v) {
		return cmp{monitor: "rewrite-pair", detail: "original vs variant: " + Diff(orig, v)}
	}
	return cmp{}
}

// ---- variants

var rewriteWeights = []int{0, 10, 9, 9, 7, 7, 8, 12, 9, 8, 7, 7, 5, 9, 6} // index = RewriteKind

func pickKinds(r *core.Rng) []refjs.RewriteKind {
	n := 1
	if r.Chance(40, 100) {
		n = 2
	}
	var ks []refjs.RewriteKind
	for i := 0; i < n; i++ {
		ks = append(ks, refjs.RewriteKind(r.PickW(rewriteWeights)))
	}
	return ks
}

// applyAll applies the rewrites in sequence; inapplicable ones are skipped. Returns nil if none applied.
func applyAll(p *refjs.Node, kinds []refjs.RewriteKind, seed uint64, st *core.Stats) (*refjs.Node, []string) {
	rw := &refjs.Rewriter{R: core.NewRng(seed)}
	q := p
	var descs []string
	for _, k := range kinds {
		n, d, ok := rw.Apply(q, k)
		if !ok {
			if st != nil {
				st.Inc("rw_inapplicable:" + k.String())
			}
			continue
		}
		if st != nil {
			st.Inc("rw_applied:" + k.String())
		}
		q = n
		descs = append(descs, d)
	}
	if len(descs) == 0 {
		return nil, nil
	}
	return q, descs
}

type variant struct {
	kinds []refjs.RewriteKind
	seed  uint64
	q     *refjs.Node
	descs []string
}

func render(p *refjs.Node, pl refjs.Placement, alt bool) string {
	return refjs.Print(refjs.Instantiate(p, pl, alt))
}

var oneProc sync.Once

func run(c *core.Ctx) core.Result {
	// one OS thread per worker process: the workload is allocation-heavy (a fresh Runtime per execution) and the
	// parallel collector of 16 workers x 16 threads only fights over locks
	oneProc.Do(func() { runtime.GOMAXPROCS(1) })
	if c.Index < 0 {
		return runPinned(c)
	}
	if c.Index < matrixSize() {
		return runMatrix(c)
	}
	r := c.Rng
	st := c.Stats
	strict := r.Bool()
	alt := r.Bool()
	g := refjs.NewGen(r.Fork(), genOpts(strict))
	P := g.Program()
	if strict {
		P.F |= refjs.FStrict
	}
	srcP := refjs.Print(P)
	res := core.Result{Verdict: core.Held, Key: srcP}
	x := &exec{c: c, st: st, cover: c.Index%8 == 0}
	st.Inc("programs")
	if strict {
		st.Inc("programs_strict")
	}
	if c.Replay {
		fmt.Printf("--- program (strict=%v) ---\n%s\n--- end ---\n", strict, srcP)
	}

	// originals in all placements
	var orig [refjs.NumPlacements]*Obs
	var origSrc [refjs.NumPlacements]string
	usable := 0
	maxEvents := 0
	for pl := refjs.Placement(0); pl < refjs.NumPlacements; pl++ {
		inst := refjs.Instantiate(P, pl, alt)
		if id := knownNeighbourhood(inst); id != "" {
			st.Inc("excluded_known:" + id)
			continue
		}
		origSrc[pl] = refjs.Print(inst)
		o := x.runOrig(origSrc[pl])
		orig[pl] = o
		st.Inc("instantiations:" + pl.String())
		pc, stop := origProblem(o)
		if pc.monitor != "" {
			return violation(c, P, nil, pl, alt, pc, o, nil)
		}
		if stop {
			st.Inc("original_unusable:" + pc.inconclusive)
			orig[pl] = nil
			continue
		}
		usable++
		if len(o.Events) > maxEvents {
			maxEvents = len(o.Events)
		}
		st.Count("events_original", int64(len(o.Events)))
		switch {
		case strings.HasPrefix(o.Final, "RET"):
			st.Inc("final:RET")
		case strings.HasPrefix(o.Final, "THROW E:"):
			st.Inc("final:" + o.Final)
		default:
			st.Inc("final:THROW value")
		}
		// determinism self-check on 1 % of the executions
		if r.Chance(1, 100) {
			o2 := x.runOrig(origSrc[pl])
			st.Inc("determinism_rechecks")
			if !o.Same(o2) {
				return violation(c, P, nil, pl, alt, cmp{monitor: "nondeterministic", detail: "two runs of the same text differ: " + Diff(o, o2)}, o, o2)
			}
		}
	}
	if usable == 0 {
		return core.Result{Verdict: core.Inconclusive, Monitor: "no-usable-placement", Key: srcP}
	}

	// layer 2: definitional interpreter
	if r2 := layer2(c, x, P, alt, orig[:]); r2 != nil {
		return *r2
	}
	if !enableL1 {
		return res
	}

	// layer 1: rewrite pairs
	msP, _ := InstrMultiset(srcP, strict)
	differing := false
	for v := 0; v < 3; v++ {
		vr := variant{kinds: pickKinds(r), seed: r.U64()}
		vr.q, vr.descs = applyAll(P, vr.kinds, vr.seed, st)
		if vr.q == nil {
			st.Inc("variants_none_applicable")
			continue
		}
		st.Inc("variants")
		if len(vr.descs) > 1 {
			st.Inc("variants_pairs")
		}
		srcQ := refjs.Print(vr.q)
		msQ, names := InstrMultiset(srcQ, strict)
		for _, nme := range names {
			st.SetAdd("instr_types_compiled", nme)
		}
		if msQ != "" && msQ != msP {
			st.Inc("variants_bytecode_differs")
			differing = true
		} else if msQ == msP {
			st.Inc("variants_bytecode_same")
		}
		for pl := refjs.Placement(0); pl < refjs.NumPlacements; pl++ {
			if orig[pl] == nil {
				continue
			}
			vinst := refjs.Instantiate(vr.q, pl, alt)
			if id := knownNeighbourhood(vinst); id != "" {
				st.Inc("excluded_known:" + id)
				continue
			}
			vo := x.runVariant(refjs.Print(vinst), orig[pl])
			pc := compareObs(orig[pl], vo)
			st.Inc("pairs_compared")
			st.Count("events_compared", int64(len(orig[pl].Events)))
			if pc.inconclusive != "" {
				st.Inc("pair_inconclusive:" + pc.inconclusive)
				continue
			}
			if pc.monitor != "" {
				return violation(c, P, &vr, pl, alt, pc, orig[pl], vo)
			}
		}
	}
	res.NonTrivial = differing && maxEvents >= 3
	if res.NonTrivial && st.WantSample() && c.Index%97 == 0 {
		st.Sample(map[string]any{"strict": strict, "program": core.Trunc(srcP, 1500), "events": maxEvents})
	}
	return res
}

// ---- violations: minimise, then report

func violation(c *core.Ctx, P *refjs.Node, vr *variant, pl refjs.Placement, alt bool, pc cmp, o, vo *Obs) core.Result {
	strict := P.Has(refjs.FStrict)
	if strings.HasPrefix(pc.monitor, "harness-") && c.Index >= 0 {
		// the engine itself misbehaved (Go panic, VM not idle) on one text: minimise that text alone
		Q := P
		if vr != nil && pc.monitor == "harness-variant" {
			Q = vr.q
		}
		Q = minimiseCrash(Q, pl, alt)
		src := render(Q, pl, alt)
		ob := RunGoja(src, RunOpts{Fuel: origFuel, MaxStack: variantStack})
		if ob.Harness != "" {
			first := strings.SplitN(ob.Harness, "\n", 2)[0]
			return core.Result{Verdict: core.Violated, NonTrivial: true, Key: refjs.Print(P), Monitor: pc.monitor,
				Detail:    first + "\n--- program (" + pl.String() + ") ---\n" + src + "\n--- harness detail ---\n" + core.Trunc(ob.Harness, 2500),
				Signature: "C02|crash|" + pl.String() + "|" + refjs.PrintFlat(refjs.Instantiate(Q, pl, alt)),
				Case:      caseRec{Strict: strict, Placement: pl.String(), Original: src, Observed: first}}
		}
	}
	if vr != nil && c.Index >= 0 {
		P, vr = minimise(P, vr, pl, alt, pc.monitor)
		// recompute the observations of the minimised witness
		x := &exec{c: c, st: core.NewStats()}
		o = x.runOrig(render(P, pl, alt))
		vo = x.runVariant(render(vr.q, pl, alt), o)
		if pc2 := compareObs(o, vo); pc2.monitor != "" {
			pc = pc2
		}
	}
	rec := caseRec{Strict: strict, Placement: pl.String(), Original: render(P, pl, alt)}
	sig := "C02|" + pl.String() + "|" + refjs.PrintFlat(refjs.Instantiate(P, pl, alt))
	if vr != nil {
		rec.Rewrites = vr.descs
		rec.Variant = render(vr.q, pl, alt)
		sig += "|" + refjs.PrintFlat(refjs.Instantiate(vr.q, pl, alt))
	}
	if o != nil {
		rec.Expected = core.Trunc(o.String(), 1500)
	}
	if vo != nil {
		rec.Observed = core.Trunc(vo.String(), 1500)
	}
	detail := pc.detail + "\n--- original (" + pl.String() + ") ---\n" + rec.Original
	if vr != nil {
		detail += "\n--- variant " + strings.Join(vr.descs, " + ") + " ---\n" + rec.Variant
	}
	return core.Result{Verdict: core.Violated, NonTrivial: true, Key: refjs.Print(P), Monitor: pc.monitor, Detail: detail, Signature: sig, Case: rec}
}

// still reports whether (P, rewrites) is still a violation of the same monitor in the placement.
func still(P *refjs.Node, kinds []refjs.RewriteKind, seed uint64, pl refjs.Placement, alt bool, monitor string, budget *int) (*variant, bool) {
	if *budget <= 0 {
		return nil, false
	}
	*budget--
	q, descs := applyAll(P, kinds, seed, nil)
	if q == nil || knownNeighbourhood(refjs.Instantiate(q, pl, alt)) != "" || knownNeighbourhood(refjs.Instantiate(P, pl, alt)) != "" {
		return nil, false
	}
	x := &exec{st: core.NewStats()}
	o := x.runOrig(render(P, pl, alt))
	if _, stop := origProblem(o); stop {
		return nil, false
	}
	vo := x.runVariant(render(q, pl, alt), o)
	if pc := compareObs(o, vo); pc.monitor == monitor {
		return &variant{kinds: kinds, seed: seed, q: q, descs: descs}, true
	}
	return nil, false
}

func minimise(P *refjs.Node, vr *variant, pl refjs.Placement, alt bool, monitor string) (*refjs.Node, *variant) {
	budget := 900
	// fewer rewrites first
	if len(vr.kinds) > 1 {
		for i := range vr.kinds {
			if v2, ok := still(P, vr.kinds[i:i+1], vr.seed, pl, alt, monitor, &budget); ok {
				vr = v2
				break
			}
		}
	}
	seeds := []uint64{vr.seed, vr.seed + 1, vr.seed + 2, vr.seed + 3}
	try := func(cand *refjs.Node) bool {
		if cand == nil {
			return false
		}
		for _, s := range seeds {
			if v2, ok := still(cand, vr.kinds, s, pl, alt, monitor, &budget); ok {
				P, vr = cand, v2
				return true
			}
		}
		return false
	}
	for progress := true; progress && budget > 0; {
		progress = false
		for k := refjs.CountStmts(P) - 1; k >= 0 && budget > 0; k-- {
			if try(refjs.DeleteStmt(P, k)) || try(refjs.UnwrapStmt(P, k)) {
				progress = true
			}
		}
	}
	for k := 0; k < 60 && budget > 0; k++ {
		cand := refjs.SimplifyExpr(P, k)
		if cand == nil {
			break
		}
		if try(cand) {
			k--
		}
	}
	return P, vr
}

// minimiseCrash shrinks a program on which goja itself misbehaves (harness problem) while it still does.
func minimiseCrash(Q *refjs.Node, pl refjs.Placement, alt bool) *refjs.Node {
	budget := 1500
	bad := func(cand *refjs.Node) bool {
		if cand == nil || budget <= 0 {
			return false
		}
		budget--
		o := RunGoja(render(cand, pl, alt), RunOpts{Fuel: origFuel, MaxStack: variantStack})
		return o.Harness != ""
	}
	for progress := true; progress && budget > 0; {
		progress = false
		for k := refjs.CountStmts(Q) - 1; k >= 0 && budget > 0; k-- {
			if cand := refjs.DeleteStmt(Q, k); bad(cand) {
				Q, progress = cand, true
			} else if cand := refjs.UnwrapStmt(Q, k); bad(cand) {
				Q, progress = cand, true
			}
		}
	}
	for k := 0; k < 200 && budget > 0; k++ {
		cand := refjs.SimplifyExpr(Q, k)
		if cand == nil {
			break
		}
		if bad(cand) {
			Q = cand
			k--
		}
	}
	return Q
}
