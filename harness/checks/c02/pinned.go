package c02

import "verif/harness/core"

type pin struct{ name, a, b string }

var pinned = []pin{}

func runPinned(c *core.Ctx) core.Result { return core.Result{Verdict: core.Held} }
