package c02

import (
	"strings"

	"verif/harness/core"
)

// Pinned regression witnesses (indices -1 … -len(pinned)).  Two forms:
//
//	pair:   a and b are semantically equal programs (a rewrite pair); goja must show the same observation for both
//	expect: goja's observation of a must equal the literal expectation derived from the specification
//
// Each witness failed on the pinned tree or on a tree with one of today's compiler fixes reverted.
type pin struct {
	name   string
	a, b   string
	expect string // "event\nevent\n…\nFINAL"
}

var pinned = []pin{
	// ---- today's compiler fixes, as rewrite pairs
	{name: "and-fold-statement-position", // 41b15bf (R7)
		a: `function f(a, b) { var r = 0; for (var i = 0; i < 3; i++) { r += i; } return [a, b, r]; } var t = f(1, 2); log(t[0], t[1], t[2]);`,
		b: `false && 1; function f(a, b) { var r = 0; for (var i = 0; i < 3; i++) { false && a; (false && b, r += i); } return [a, b, r]; } var t = f(1, 2); log(t[0], t[1], t[2]);`},
	{name: "blocks-without-bindings-under-eval", // 01ece19 (R3)
		a: `function f(a) { var q = 5; { { log(a, q); return a + q; } } } log(f(1));`,
		b: `function f(a) { var q = 5; eval(""); { { log(a, q); return a + q; } } } log(f(1));`},
	{name: "class-expression-scope-under-eval", // 01ece19 (R3 inside a method of an anonymous class expression)
		a: `function f(a) { let q = 3; return new (class { m() { return a + q; } })().m(); } log(f(7));`,
		b: `function f(a) { let q = 3; return new (class { m() { eval(""); return a + q; } })().m(); } log(f(7));`},
	{name: "dummy-mode-break-chain", // b3d2da1 (R7)
		a: `for (var i = 0; i < 2; i++) { L: { for (;;) { break; } } log(i); }`,
		b: `for (var i = 0; i < 2; i++) { L: { for (;;) { break; if (0) { break L; } while (false) { continue; } } } log(i); }`},
	{name: "lexical-declaration-after-jump", // cd2cfb4
		a: `for (var i = 0; i < 2; i++) { log(i); continue; }`,
		b: `for (var i = 0; i < 2; i++) { log(i); continue; let z = 1; class K {} log(z); }`},
	{name: "switch-lexical-eval", // b711a1d (R3)
		a: `function f(x) { switch (x) { case 1: let y = 2; log(y, x); function g() { return y; } log(g()); } } f(1);`,
		b: `function f(x) { switch (x) { case 1: let y = 2; eval(""); log(y, x); function g() { return y; } log(g()); } } f(1);`},
	{name: "strict-parameter-expressions-eval", // 3f67a22 (R3)
		a: `"use strict"; function f(a = 1) { return [typeof this, a]; } var t = f.call(5); log(t[0], t[1]);`,
		b: `"use strict"; function f(a = 1) { eval(""); return [typeof this, a]; } var t = f.call(5); log(t[0], t[1]);`},
	{name: "optional-chain-in-spread-call", // d372857
		a:      `var o = null; log(o?.m(...[1, 2]), [o?.m(...[1])].length, 3);`,
		expect: "L u d:3ff0000000000000 d:4008000000000000\nRET u"},
	{name: "arguments-captured-by-arrow", // 187d0ea (R8 IIFE)
		a: `function f(c, b) { log(arguments[1]); } f(1, 5);`,
		b: `function f(c, b) { (() => { log(arguments[1]); })(); } f(1, 5);`},

	// ---- findings of this check
	{name: "constfold-error-global-lookup", // R1: constant operand <-> variable
		a: `var saved = TypeError; TypeError = function Mine() { this.mine = 1; }; var c = 1n; try { c + 1; } catch (e) { log(e instanceof saved, e.mine); }`,
		b: `var saved = TypeError; TypeError = function Mine() { this.mine = 1; }; try { 1n + 1; } catch (e) { log(e instanceof saved, e.mine); }`},
	{name: "arrow-tostring-paren", // R9
		a: `log(((x, f) => 0 + (f & 2))(0, 3));`,
		b: `log(eval("(" + $src((x, f) => 0 + (f & 2)) + ")")(0, 3));`},
	{name: "var-over-pattern-param", // R12
		a: `log((function(a) { var a; return a; })(7));`,
		b: `log((function([a]) { var a; return a; })([7]));`},
	{name: "var-named-like-function-expression",
		a:      `log((function g(a = 1) { var g; return typeof g; })());`,
		expect: "L s:9:undefined\nRET u"},
	{name: "eval-func-lexical", // R1 const@root
		a: `log((0, eval)("function f() { return 5; } f()"));`,
		b: `log((0, eval)("const k = 5; function f() { return k; } f()"));`},
	{name: "strict-eval-arguments", // R5
		a: `"use strict"; function y(b) { return eval("b"); } log(y(2));`,
		b: `"use strict"; function y(b) { return eval("void arguments.length; b"); } log(y(2));`},
	{name: "surplus-args-spill", // R3
		a: `try { ((a) => { let g = g; })(0, 1); log("no error"); } catch (e) { log(e); }`,
		b: `try { ((a) => { let g = g; (() => eval(""))(); })(0, 1); log("no error"); } catch (e) { log(e); }`},
	{name: "forward-ref-default-supplied-argument",
		a:      `var f = function(c = c) { var k; return [typeof arguments, arguments[0], c]; }; var t = f("2"); log(t[0], t[1], t[2]);`,
		expect: "L s:6:object s:1:2 s:1:2\nRET u"},
	{name: "eval-in-default-with-body-var", // R9 in a parameter list
		a: `function a(c = function(c) { }, [o, a, b = 0]) { var c = 0; return c; } log(a(0, "x"));`,
		b: `function a(c = eval("(function(c) { })"), [o, a, b = 0]) { var c = 0; return c; } log(a(0, "x"));`},
	{name: "relational-left-associative",
		a:      `log(3 > 2 > 1, 1 < 2 < 2, 3 >= 2 instanceof Error);`,
		expect: "L b:false b:true b:false\nRET u"},
	{name: "strict-primitive-base-destructuring-target",
		a:      `"use strict"; var a = 0; try { [a.p] = [1]; log("no error"); } catch (e) { log(e); } try { a.q ??= 1; log("no error"); } catch (e) { log(e); }`,
		expect: "L E:TypeError\nL E:TypeError\nRET u"},
	{name: "null-base-destructuring-target-order",
		a:      `var f; try { ({p: f.q} = {get p() { log("get"); }}); } catch (e) { log(e); }`,
		expect: "L s:3:get\nL E:TypeError\nRET u"},
	{name: "const-tdz-assignment",
		a:      `{ try { c = 1; } catch (e) { log(e); } const c = 2; }`,
		expect: "L E:ReferenceError\nRET u"},
	{name: "int-mul-negative-zero",
		a:      `var y = 0; log(-2 * y, y * -3);`,
		expect: "L d:8000000000000000 d:8000000000000000\nRET u"},
	{name: "catch-completion-value",
		a:      `try { 0; var o = o[2]; } catch (e) { }`,
		expect: "RET u"},
	{name: "mapped-arguments-eval-var",
		a:      `(function(x, o) { eval("var c = 1"); x = 5; arguments[1] = 9; log(arguments[0], o); })(0, 0);`,
		expect: "L d:4014000000000000 d:4022000000000000\nRET u"},
	{name: "catch-param-block-scope", // R9 / R3: the default of a catch parameter sees the block's let binding under dynamic scoping
		a: `var b = 1; try { throw {}; } catch ({r: a = b}) { let b = 4; log(a, b); }`,
		b: `var b = 1; try { throw {}; } catch ({r: a = b}) { let b = 4; eval(""); log(a, b); }`},
	{name: "eval-var-function-expression-name",
		a:      `log((function f() { eval("var f = 1"); return f; })());`,
		expect: "L d:3ff0000000000000\nRET u"},
	{name: "callee-binding-dropped",
		a:      `log((function() { var x; return (function g(y = x) { function f() { g = 0; } return 5; })(); })());`,
		expect: "L d:4014000000000000\nRET u"},
	{name: "funcname-assign-stack-leak",
		a:      `log((function f() { return [(f = 0, typeof f)].length; })(), (function g() { return {p: (g = 0, 7)}.p; })());`,
		expect: "L d:3ff0000000000000 d:401c000000000000\nRET u"},
	{name: "computed-key-over-accessor",
		a:      `var k = "p"; var o = {set p(g) { log("set", g); }, get q() { return 1; }, [k]: 2, [k === "p" ? "q" : "z"]: 3}; log(o.p, o.q);`,
		expect: "L d:4000000000000000 d:4008000000000000\nRET u"},
	{name: "param-default-name",
		a:      `log((function(a = () => 1) { return a.name; })(), ((b = function() { }) => b.name)());`,
		expect: "L s:1:a s:1:b\nRET u"},
	{name: "destructuring-default-name-dynamic-target", // seeded C02-destruct-default-name: R3 / R4 / placement
		a: `(function() { var f, g, h; [f = function() { }] = []; ({g = () => 1} = {}); ({k: h = class { }} = {}); log(f.name, g.name, h.name); })();`,
		b: `(function() { var f, g, h; with ({}) { [f = function() { }] = []; ({g = () => 1} = {}); ({k: h = class { }} = {}); } eval(""); log(f.name, g.name, h.name); })();`},
	{name: "for-let-copy-seen-through-eval", // seeded C02-forlet-eval-copy: R13
		a: `var q = []; for (let i = 0; i < 3; i++) { q[i] = () => i; } log(q[0](), q[1](), q[2]());`,
		b: `var q = []; for (let i = 0; i < 3; i++) { q[i] = eval("() => i"); } log(q[0](), q[1](), q[2]());`},
	{name: "eval-var-shadows-outer",
		a:      `(function() { let y = 0; return (function() { var g = () => y; eval("var y = 3;"); log(g(), f()); function f() { return y; } })(); })();`,
		expect: "L d:4008000000000000 d:4008000000000000\nRET u"},
	{name: "eval-var-over-pattern-param",
		a:      `log((function g(...x) { return eval("var x; x"); })(1), (function h([x]) { return eval("var x; x"); })([2]));`,
		expect: "L o#1 d:4000000000000000\nRET u"},
	{name: "this-in-eval-before-super",
		a:      `function g() { } class C extends g { constructor() { try { log(eval("typeof super.n")); } catch (e) { log(e); } try { log(eval("typeof this")); } catch (e) { log(e); } super(); } n() { } } new C(); 0;`,
		expect: "L E:ReferenceError\nL E:ReferenceError\nRET d:0000000000000000"},
	{name: "switch-nested-break-completion",
		a:      `switch (3) { default: 0; case 0: if (1) { break; } 0; case 1: }`,
		expect: "RET u"},
	{name: "param-tdz-through-eval", // R13 / R9 inside a parameter list
		a: `function g([b] = (() => [c])(), c) { } try { g(); log("no error"); } catch (e) { log(e); }`,
		b: `function g([b] = eval("() => [c]")(), c) { } try { g(); log("no error"); } catch (e) { log(e); }`},
	{name: "derived-ctor-return-in-try-finally",
		a:      `function b() { } new (class extends b { constructor() { super(); try { let g = () => eval(""); return; } finally { } } })(0); log("ok");`,
		expect: "L s:2:ok\nRET u"},
	{name: "unreachable-after-jump-completion", // seeded C02-completion-unreachable-after-break (R7 after-jump)
		a: `1; M: { break M; } 2; do { 3; break; } while (false); log(eval("4; N: { break N; }"), eval("for (var i = 0; i < 2; i++) { 5; continue; }"));`,
		b: `1; M: { break M; 5; } 2; do { 3; break; 6; log("dead"); } while (false); log(eval("4; N: { break N; 7; }"), eval("for (var i = 0; i < 2; i++) { 5; continue; 8; }"));`},
	{name: "unreachable-after-jump-completion-value",
		a:      `1; M: { break M; 5; }`,
		expect: "RET d:3ff0000000000000"},
	{name: "template-site-identity", // seeded C02-template-site-identity
		a:      "var t = function(s) { return s; }; function k() { return t`a${1}b`; } var q = []; for (let i = 0; i < 2; i++) { q[i] = t`x`; } log(k() === k(), q[0] === q[1], t`a` === t`a`, k(), k(), q[0], q[1]);",
		expect: "L b:true b:true b:false o#1 o#1 o#2 o#2\nRET u"},
	{name: "template-object-map-key", // known finding: keyed collections see a fresh object per evaluation of one site (=== / indexOf / Object.is are covered by template-site-identity above)
		a:      "var t = function(s) { return s; }; function k() { return t`a`; } var m = new Map(); m.set(k(), 1); var w = new WeakMap(); w.set(k(), 2); var ws = new WeakSet(); ws.add(k()); log(m.get(k()), new Set([k(), k()]).size, w.get(k()), ws.has(k()));",
		expect: "L d:3ff0000000000000 d:3ff0000000000000 d:4000000000000000 b:true\nRET u"},
	{name: "unresolvable-callee-order",
		a:      `function g() { log("g"); } try { nof(g()); } catch (e) { log(e); }`,
		expect: "L E:ReferenceError\nRET u"},
	{name: "finally-nested-jump-completion",
		a:      `for (var y = 0; y < 2; y++) { try { 7; } finally { if (1) continue; } }`,
		expect: "RET u"},
	{name: "nested-block-jump-completion",
		a:      `var a = 3; while (a-- > 0) { a; { continue; } if (0) { } }`,
		expect: "RET d:0000000000000000"},
	{name: "parser-valid-patterns-rejected",
		a:      `function f({r: [x = y >>>= b] = []}) { return x; } var y = 8, b = 1; var g = ([o = 1] = [], z) => o; var {q: [a = 1] = 2, p: c} = {q: []}; for (var {q: d = "q" in {}} of [{}]) ; log(f({}), g(), a, d);`,
		expect: "L d:4010000000000000 d:3ff0000000000000 d:3ff0000000000000 b:false\nRET u"},
}

func runPinned(c *core.Ctx) core.Result {
	p := pinned[-c.Index-1]
	sig := "pinned:" + p.name
	x := &exec{c: c, st: c.Stats}
	oa := x.runOrig(p.a)
	rec := caseRec{Pinned: p.name, Original: p.a, Variant: p.b, Expected: p.expect}
	fail := func(monitor, detail string) core.Result {
		return core.Result{Verdict: core.Violated, NonTrivial: true, Key: sig, Monitor: monitor, Detail: "pinned witness " + p.name + ": " + detail, Signature: sig, Case: rec}
	}
	if oa.Harness != "" {
		return fail("harness-original", oa.Harness)
	}
	if p.expect != "" {
		got := strings.Join(append(append([]string(nil), oa.Events...), oa.Final), "\n")
		rec.Observed = got
		if got != p.expect {
			return fail("pinned-expectation", "expected\n"+p.expect+"\nobserved\n"+oa.String()+"\n--- program ---\n"+p.a)
		}
		return core.Result{Verdict: core.Held, NonTrivial: true, Key: sig}
	}
	ob := x.runVariant(p.b, oa)
	rec.Observed = ob.String()
	if ob.Harness != "" {
		return fail("harness-variant", ob.Harness)
	}
	if oa.Final != ob.Final || !oa.Same(ob) {
		return fail("rewrite-pair", Diff(oa, ob)+"\n--- original ---\n"+p.a+"\n--- variant ---\n"+p.b)
	}
	return core.Result{Verdict: core.Held, NonTrivial: true, Key: sig}
}
