package c02

import (
	"fmt"
	"sort"
	"strings"

	"github.com/dop251/goja"

	"verif/harness/gj"
)

// Obs is what one execution of one source text showed at the boundary.
type Obs struct {
	Events   []string // "L v v …" per log call
	Final    string   // "RET v" | "THROW v" | "COMPILE <kind>"
	Steps    int64
	Fuel     bool   // instruction budget exhausted (logical-time hang)
	Overflow bool   // call stack limit reached (StackOverflowError)
	Tainted  string // engine-defined behaviour was observed by the program (function source text, error message text)
	Harness  string // harness-level problem (Go panic escaping, assertion, VM not idle)
	InstrSet []string
}

func (o *Obs) Conclusive() bool { return !o.Fuel && !o.Overflow && o.Tainted == "" }

// Same compares the observable parts.
func (o *Obs) Same(p *Obs) bool {
	if o.Final != p.Final || len(o.Events) != len(p.Events) {
		return false
	}
	for i := range o.Events {
		if o.Events[i] != p.Events[i] {
			return false
		}
	}
	return true
}

// Diff describes the first difference between two observations.
func Diff(a, b *Obs) string {
	n := len(a.Events)
	if len(b.Events) < n {
		n = len(b.Events)
	}
	for i := 0; i < n; i++ {
		if a.Events[i] != b.Events[i] {
			return fmt.Sprintf("event %d: %q vs %q", i, a.Events[i], b.Events[i])
		}
	}
	if len(a.Events) != len(b.Events) {
		var next string
		if len(a.Events) > n {
			next = "first has extra " + a.Events[n]
		} else {
			next = "second has extra " + b.Events[n]
		}
		return fmt.Sprintf("event count %d vs %d (%s); final %q vs %q", len(a.Events), len(b.Events), next, a.Final, b.Final)
	}
	return fmt.Sprintf("final %q vs %q (after %d equal events)", a.Final, b.Final, n)
}

func (o *Obs) String() string {
	var b strings.Builder
	for _, e := range o.Events {
		b.WriteString(e)
		b.WriteString("\n")
	}
	b.WriteString(o.Final)
	if o.Fuel {
		b.WriteString(" [fuel]")
	}
	if o.Overflow {
		b.WriteString(" [stack overflow]")
	}
	if o.Tainted != "" {
		b.WriteString(" [tainted:" + o.Tainted + "]")
	}
	if o.Harness != "" {
		b.WriteString(" [harness:" + o.Harness + "]")
	}
	return b.String()
}

var errorCtors = []string{"Error", "TypeError", "ReferenceError", "SyntaxError", "RangeError", "EvalError", "URIError"}

type renderer struct {
	next   int
	ids    map[*goja.Object]int
	protos map[*goja.Object]string
}

func (r *renderer) render(v goja.Value) string {
	if v == nil {
		return "u"
	}
	if o, ok := v.(*goja.Object); ok {
		// engine / user errors: constructor name of the nearest intrinsic error prototype, never the message
		p := o
		for depth := 0; p != nil && depth < 20; depth++ {
			if name, ok := r.protos[p]; ok {
				if p == o {
					break // the prototype object itself is an ordinary object for our purposes
				}
				return "E:" + name
			}
			p = p.Prototype()
		}
		tag := "o"
		if _, ok := goja.AssertFunction(o); ok {
			tag = "f"
		}
		k, ok := r.ids[o]
		if !ok {
			// identity as the script sees it (===): goja hands out a fresh *Object per evaluation of a tagged template
			// site that is strictly equal to the earlier ones
			if o.ClassName() == "Array" {
				for prev, pk := range r.ids {
					if prev.ClassName() == "Array" && prev.StrictEquals(o) {
						k, ok = pk, true
						break
					}
				}
			}
			if !ok {
				r.next++
				k = r.next
			}
			r.ids[o] = k
		}
		return fmt.Sprintf("%s#%d", tag, k)
	}
	return (*gj.Ids)(nil).Render(v)
}

// RunOpts configure one execution.
type RunOpts struct {
	Fuel     int64
	MaxStack int
	Cover    bool
}

// RunGoja executes src on a fresh Runtime with the host natives installed and returns what was observed.
func RunGoja(src string, opt RunOpts) *Obs {
	obs := &Obs{}
	rt := gj.NewRuntime()
	if opt.MaxStack > 0 {
		rt.SetMaxCallStackSize(opt.MaxStack)
	}
	rd := &renderer{ids: map[*goja.Object]int{}, protos: map[*goja.Object]string{}}
	for _, name := range errorCtors {
		if c, ok := rt.Get(name).(*goja.Object); ok {
			if p, ok := c.Get("prototype").(*goja.Object); ok {
				rd.protos[p] = name
			}
		}
	}
	rt.Set("log", func(call goja.FunctionCall) goja.Value {
		var b strings.Builder
		b.WriteString("L")
		for _, a := range call.Arguments {
			b.WriteByte(' ')
			b.WriteString(rd.render(a))
		}
		obs.Events = append(obs.Events, b.String())
		return goja.Undefined()
	})
	// engine-defined text must not be observed by the program: Function.prototype.toString and
	// Error.prototype.toString are replaced by natives that flag the run; $src gives the rewrites access to the real one
	fproto := rt.Get("Function").(*goja.Object).Get("prototype").(*goja.Object)
	origToString, _ := goja.AssertFunction(fproto.Get("toString"))
	fproto.Set("toString", func(call goja.FunctionCall) goja.Value {
		if obs.Tainted == "" {
			obs.Tainted = "Function.prototype.toString"
		}
		return rt.ToValue("function")
	})
	eproto := rt.Get("Error").(*goja.Object).Get("prototype").(*goja.Object)
	eproto.Set("toString", func(call goja.FunctionCall) goja.Value {
		if obs.Tainted == "" {
			obs.Tainted = "Error.prototype.toString"
		}
		return rt.ToValue("Error")
	})
	rt.Set("$src", func(call goja.FunctionCall) goja.Value {
		v, err := origToString(call.Argument(0))
		if err != nil {
			panic(err)
		}
		return v
	})
	if opt.Fuel > 0 {
		goja.VerifSetFuel(rt, goja.VerifSteps(rt)+opt.Fuel)
	}
	if opt.Cover {
		goja.VerifCoverInstr(rt, true)
	}
	// compile first: early errors are a different outcome ("COMPILE") than exceptions thrown while running
	var prg *goja.Program
	cout := gj.Call(func() (goja.Value, error) {
		p, err := goja.Compile("p.js", src, false)
		prg = p
		return nil, err
	})
	if cout.Panic != nil {
		obs.Harness = fmt.Sprintf("go panic escaped from Compile: %v\n%s", cout.Panic, cout.PanicStack)
		obs.Final = "PANIC"
		return obs
	}
	if cout.Err != nil || prg == nil {
		obs.Final = "COMPILE " + gj.ErrKind(cout.Err)
		return obs
	}
	start := goja.VerifSteps(rt)
	out := gj.Call(func() (goja.Value, error) { return rt.RunProgram(prg) })
	obs.Steps = goja.VerifSteps(rt) - start
	if opt.Cover {
		obs.InstrSet = goja.VerifInstrSet(rt)
	}
	switch {
	case out.Fuel:
		obs.Fuel = true
		obs.Final = "FUEL"
		return obs
	case out.Panic != nil:
		obs.Harness = fmt.Sprintf("go panic escaped: %v\n%s", out.Panic, out.PanicStack)
		obs.Final = "PANIC"
		return obs
	case out.Assertion != nil:
		obs.Harness = out.Assertion.Error()
		obs.Final = "ASSERT"
		return obs
	}
	switch kind := gj.ErrKind(out.Err); kind {
	case "":
		obs.Final = "RET " + rd.render(out.Val)
	case "exception":
		ex := out.Err.(*goja.Exception)
		obs.Final = "THROW " + rd.render(ex.Value())
	case "stackoverflow":
		obs.Overflow = true
		obs.Final = "OVERFLOW"
	case "parse", "compile-syntax", "compile-reference":
		obs.Final = "COMPILE " + kind
	default:
		obs.Harness = "unexpected error kind " + kind + ": " + out.Err.Error()
		obs.Final = "ERR " + kind
	}
	if obs.Harness == "" && !obs.Overflow {
		if why := gj.IdleProblem(rt, false); why != "" {
			obs.Harness = "VM not idle after return: " + why
		}
	}
	return obs
}

// InstrMultiset compiles src and returns the multiset of instruction type names of the compiled program
// (nested functions included) in canonical form, or "" if it does not compile.  Evidence only.
func InstrMultiset(src string, strict bool) (string, []string) {
	var prg *goja.Program
	out := gj.Call(func() (goja.Value, error) {
		p, err := goja.Compile("p.js", src, strict)
		prg = p
		return nil, err
	})
	if out.Err != nil || out.Panic != nil || prg == nil {
		return "", nil
	}
	dump := goja.VerifProgramDump(prg)
	counts := map[string]int{}
	for _, line := range strings.Split(dump, "\n") {
		line = strings.TrimLeft(line, " >")
		i := strings.Index(line, ": ")
		if i <= 0 || i > 7 {
			continue
		}
		isNum := true
		for _, ch := range line[:i] {
			if ch < '0' || ch > '9' {
				isNum = false
			}
		}
		if !isNum {
			continue
		}
		rest := line[i+2:]
		if j := strings.Index(rest, "("); j > 0 {
			rest = rest[:j]
		}
		rest = strings.TrimPrefix(rest, "*")
		rest = strings.TrimPrefix(rest, "goja.")
		if rest == "" || strings.HasPrefix(rest, "-") {
			continue
		}
		counts[rest]++
	}
	names := make([]string, 0, len(counts))
	for k := range counts {
		names = append(names, k)
	}
	sort.Strings(names)
	var b strings.Builder
	for _, k := range names {
		fmt.Fprintf(&b, "%s*%d ", k, counts[k])
	}
	return b.String(), names
}

// RunDebug prints the compile error of src (development aid).
func RunDebug(src string) {
	_, err := goja.Compile("p.js", src, false)
	fmt.Println("compile:", err)
}

// RunDebugFull runs src and prints the error text (development aid).
func RunDebugFull(src string) {
	rt := gj.NewRuntime()
	rt.Set("log", func(call goja.FunctionCall) goja.Value { return goja.Undefined() })
	_, err := rt.RunString(src)
	fmt.Printf("error: %v (%T)\n", err, err)
}

// ErrText returns the final error text of src with positions and digits removed (development aid).
func ErrText(src string) string {
	rt := gj.NewRuntime()
	rt.Set("log", func(call goja.FunctionCall) goja.Value { return goja.Undefined() })
	goja.VerifSetFuel(rt, 300000)
	o := gj.Call(func() (goja.Value, error) { return rt.RunString(src) })
	if o.Err == nil {
		return "ok"
	}
	s := o.Err.Error()
	if i := strings.Index(s, " at "); i > 0 {
		s = s[:i]
	}
	var b strings.Builder
	for _, c := range s {
		if c >= '0' && c <= '9' {
			continue
		}
		b.WriteRune(c)
	}
	return b.String()
}
