package c02

import (
	"fmt"
	"strings"

	"verif/harness/core"
	"verif/harness/refjs"
)

const interpFuel = 400000

var (
	enableL1 = true
	enableL2 = true
)

// refSame compares an interpretation with an observation.
func refSame(ref *refjs.Outcome, o *Obs) bool {
	if ref.Final != o.Final || len(ref.Events) != len(o.Events) {
		return false
	}
	for i := range ref.Events {
		if ref.Events[i] != o.Events[i] {
			return false
		}
	}
	return true
}

func refDiff(ref *refjs.Outcome, o *Obs) string {
	return Diff(&Obs{Events: ref.Events, Final: ref.Final}, o)
}

// layer2: goja must agree with the definitional interpreter on the original program in every placement.
func layer2(c *core.Ctx, x *exec, P *refjs.Node, alt bool, orig []*Obs) *core.Result {
	if !enableL2 {
		return nil
	}
	st := c.Stats
	for pl := refjs.Placement(0); pl < refjs.NumPlacements; pl++ {
		o := orig[pl]
		if o == nil {
			continue
		}
		inst := refjs.Instantiate(P, pl, alt)
		ref := refjs.Interpret(inst, interpFuel)
		st.Inc("l2_interpretations")
		st.Count("l2_interp_steps", ref.Steps)
		if ref.OutOfDomain != "" {
			st.Inc("l2_out_of_domain:" + ref.OutOfDomain)
			if strings.HasPrefix(ref.OutOfDomain, "known-finding") {
				// the run reached the neighbourhood of a listed finding: layer 1 does not judge this placement either
				st.Inc("excluded_known_placements")
				orig[pl] = nil
			}
			continue
		}
		st.Inc("l2_compared")
		st.Count("l2_events_compared", int64(len(ref.Events)))
		if refSame(ref, o) {
			continue
		}
		// minimise: delete statements while goja and the interpreter still disagree
		if c.Index >= 0 {
			P, ref, o = minimiseL2(P, pl, alt)
		}
		src := render(P, pl, alt)
		rec := caseRec{Strict: P.Has(refjs.FStrict), Placement: pl.String(), Original: src,
			Expected: core.Trunc(strings.Join(ref.Events, "\n")+"\n"+ref.Final, 1500), Observed: core.Trunc(o.String(), 1500)}
		r := core.Result{Verdict: core.Violated, NonTrivial: true, Key: refjs.Print(P), Monitor: "definitional-interpreter",
			Detail:    "refjs (expected) vs goja (observed): " + refDiff(ref, o) + "\n--- program (" + pl.String() + ") ---\n" + src,
			Signature: "C02|L2|" + pl.String() + "|" + refjs.PrintFlat(refjs.Instantiate(P, pl, alt)), Case: rec}
		return &r
	}
	return nil
}

func disagree(P *refjs.Node, pl refjs.Placement, alt bool) (*refjs.Outcome, *Obs, bool) {
	inst := refjs.Instantiate(P, pl, alt)
	if knownNeighbourhood(inst) != "" {
		return nil, nil, false
	}
	o := RunGoja(refjs.Print(inst), RunOpts{Fuel: origFuel, MaxStack: origStack})
	if _, stop := origProblem(o); stop {
		return nil, nil, false
	}
	ref := refjs.Interpret(inst, interpFuel)
	if ref.OutOfDomain != "" {
		return nil, nil, false
	}
	return ref, o, !refSame(ref, o)
}

func minimiseL2(P *refjs.Node, pl refjs.Placement, alt bool) (*refjs.Node, *refjs.Outcome, *Obs) {
	ref, o, _ := disagree(P, pl, alt)
	budget := 400
	try := func(cand *refjs.Node) bool {
		if cand == nil || budget <= 0 {
			return false
		}
		budget--
		r2, o2, bad := disagree(cand, pl, alt)
		if bad {
			P, ref, o = cand, r2, o2
			return true
		}
		return false
	}
	for progress := true; progress && budget > 0; {
		progress = false
		for k := refjs.CountStmts(P) - 1; k >= 0 && budget > 0; k-- {
			if try(refjs.DeleteStmt(P, k)) || try(refjs.UnwrapStmt(P, k)) {
				progress = true
			}
		}
	}
	for k := 0; k < 80 && budget > 0; k++ {
		cand := refjs.SimplifyExpr(P, k)
		if cand == nil {
			break
		}
		if try(cand) {
			k--
		}
	}
	_ = fmt.Sprint
	return P, ref, o
}
