package c02

import (
	"fmt"
	"os"
	"strconv"
	"strings"

	"verif/harness/core"
	"verif/harness/refjs"
)

// Dev is a development aid (not used by any registered command): `c02 dev gen <n> <seed> [strict]` prints generated
// programs with what goja observed; `c02 dev stats <n> <seed>` prints outcome statistics of the generator.
func Dev(args []string) {
	if len(args) > 0 && args[0] == "compile" {
		for _, a := range args[1:] {
			fmt.Printf("%s\n   => ", a)
			RunDebugFull(a)
		}
		return
	}
	if len(args) < 3 {
		fmt.Println("usage: dev gen|stats <n> <seed> [strict]")
		return
	}
	n, _ := strconv.Atoi(args[1])
	seed, _ := strconv.ParseUint(args[2], 10, 64)
	strict := len(args) > 3 && args[3] == "strict"
	switch args[0] {
	case "msgs":
		cnt := map[string]int{}
		for i := 0; i < n; i++ {
			st := i%2 == 1
			g := refjs.NewGen(core.CaseRng(seed, "dev", i), refjs.GenOpts{Strict: st})
			p := g.Program()
			if st {
				p.F |= refjs.FStrict
			}
			m := ErrText(refjs.Print(p))
			if len(m) > 70 {
				m = m[:70]
			}
			cnt[m]++
		}
		for k, v := range cnt {
			if v >= 3 {
				fmt.Printf("%6d %s\n", v, k)
			}
		}
	case "find":
		for i := 0; i < n; i++ {
			st := i%2 == 1
			g := refjs.NewGen(core.CaseRng(seed, "dev", i), refjs.GenOpts{Strict: st})
			p := g.Program()
			if st {
				p.F |= refjs.FStrict
			}
			src := refjs.Print(p)
			if strings.Contains(ErrText(src), args[3]) {
				fmt.Println(src)
				RunDebugFull(src)
				return
			}
		}
	case "why":
		// print the message of the final error of program <n>
		g := refjs.NewGen(core.CaseRng(seed, "dev", n), refjs.GenOpts{Strict: strict})
		src := refjs.Print(g.Program())
		fmt.Println(src)
		RunDebugFull(src)
	case "gen":
		for i := 0; i < n; i++ {
			g := refjs.NewGen(core.CaseRng(seed, "dev", i), refjs.GenOpts{Strict: strict})
			p := g.Program()
			src := refjs.Print(p)
			fmt.Printf("// ---- program %d\n%s\n", i, src)
			o := RunGoja(src, RunOpts{Fuel: 300000, MaxStack: 150})
			fmt.Printf("/* observed:\n%s\nsteps=%d */\n", o, o.Steps)
		}
	case "stats":
		cnt := map[string]int{}
		events := 0
		for i := 0; i < n; i++ {
			st := i%2 == 1
			g := refjs.NewGen(core.CaseRng(seed, "dev", i), refjs.GenOpts{Strict: st})
			p := g.Program()
			if st {
				p.F |= refjs.FStrict
			}
			src := refjs.Print(p)
			o := RunGoja(src, RunOpts{Fuel: 300000, MaxStack: 150})
			k := o.Final
			if len(k) > 4 && (k[:3] == "RET" || k[:5] == "THROW") {
				if k[:3] == "RET" {
					k = "RET"
				} else if len(k) > 8 && k[6:8] == "E:" {
					k = k
				} else {
					k = "THROW other"
				}
			}
			if o.Tainted != "" {
				k = "tainted " + o.Tainted
			}
			if o.Harness != "" {
				k = "harness"
				fmt.Fprintf(os.Stderr, "HARNESS %d: %s\n%s\n", i, o.Harness, src)
			}
			if o.Final == "COMPILE compile-syntax" || o.Final == "COMPILE parse" {
				if cnt[k] < 5 {
					fmt.Fprintf(os.Stderr, "COMPILE %d:\n%s\n", i, src)
					RunDebug(src)
				}
			}
			cnt[k]++
			events += len(o.Events)
			if len(o.Events) >= 3 {
				cnt[">=3 events"]++
			}
		}
		for k, v := range cnt {
			fmt.Printf("%6d %s\n", v, k)
		}
		fmt.Printf("events/program %.1f\n", float64(events)/float64(n))
	}
}
