package c02

import (
	"fmt"
	"os"
	"runtime/pprof"
	"sort"
	"strconv"
	"strings"
	"time"

	"github.com/dop251/goja"

	"verif/harness/core"
	"verif/harness/refjs"
)

// Dev is a development aid (not used by any registered command): `c02 dev gen <n> <seed> [strict]` prints generated
// programs with what goja observed; `c02 dev stats <n> <seed>` prints outcome statistics of the generator.
func Dev(args []string) {
	if len(args) > 1 && args[0] == "file" {
		DevRunFile(args[1])
		return
	}
	if len(args) > 1 && args[0] == "dump" {
		prg, err := goja.Compile("", args[1], false)
		if err != nil {
			fmt.Println(err)
			return
		}
		fmt.Println(goja.VerifProgramDump(prg))
		return
	}
	if len(args) > 0 && args[0] == "compile" {
		for _, a := range args[1:] {
			fmt.Printf("%s\n   => ", a)
			RunDebugFull(a)
		}
		return
	}
	if len(args) < 3 {
		fmt.Println("usage: dev gen|stats <n> <seed> [strict]")
		return
	}
	n, _ := strconv.Atoi(args[1])
	seed, _ := strconv.ParseUint(args[2], 10, 64)
	strict := len(args) > 3 && args[3] == "strict"
	if args[0] == "pinned" {
		for i := range pinned {
			ctx := &core.Ctx{Property: "C02", Tier: "quick", Seed: seed, Index: -i - 1, Rng: core.CaseRng(seed, "C02", -i-1), Stats: core.NewStats()}
			r := run(ctx)
			fmt.Printf("%-45s %s %s\n", pinned[i].name, r.Verdict, core.Trunc(strings.ReplaceAll(r.Detail, "\n", " | "), 260))
		}
		return
	}
	if args[0] == "one" {
		ctx := &core.Ctx{Property: "C02", Tier: "quick", Seed: seed, Index: n, Rng: core.CaseRng(seed, "C02", n), Stats: core.NewStats(), Replay: true}
		r := run(ctx)
		fmt.Printf("%s monitor=%s\n%s\n", r.Verdict, r.Monitor, r.Detail)
		return
	}
	if args[0] == "matrix" {
		bad := 0
		for i := 0; i < matrixSize(); i++ {
			ctx := &core.Ctx{Property: "C02", Tier: "quick", Seed: seed, Index: i, Rng: core.CaseRng(seed, "C02", i), Stats: core.NewStats()}
			r := run(ctx)
			if r.Verdict == core.Violated {
				bad++
				if bad <= n {
					fmt.Printf("=== %s\n%s\n", r.Monitor, core.Trunc(r.Detail, 1500))
				} else {
					fmt.Println("=== " + strings.SplitN(r.Detail, "\n", 2)[0])
				}
			}
		}
		fmt.Printf("matrix cells=%d violated=%d\n", matrixSize(), bad)
		return
	}
	if args[0] == "l2" {
		enableL1 = false
		args[0] = "sweep"
	}
	if args[0] == "l1" {
		enableL2 = false
		args[0] = "sweep"
	}
	switch args[0] {
	case "prof":
		f, _ := os.Create("/tmp/refjs/cpu.prof")
		pprof.StartCPUProfile(f)
		stats := core.NewStats()
		for i := 0; i < n; i++ {
			ctx := &core.Ctx{Property: "C02", Tier: "quick", Seed: seed, Index: i, Rng: core.CaseRng(seed, "C02", i), Stats: stats}
			run(ctx)
		}
		pprof.StopCPUProfile()
		f.Close()
	case "sweep":
		// run cases 0..n-1 in-process, print violations (first line) and a summary
		stats := core.NewStats()
		var held, viol, inc, nt int
		t0 := time.Now()
		sigs := map[string]int{}
		for i := 0; i < n; i++ {
			ctx := &core.Ctx{Property: "C02", Tier: "quick", Seed: seed, Index: i, Rng: core.CaseRng(seed, "C02", i), Stats: stats}
			r := run(ctx)
			switch r.Verdict {
			case core.Held:
				held++
			case core.Violated:
				viol++
				key := r.Monitor + ": " + strings.SplitN(r.Detail, "\n", 2)[0]
				os.MkdirAll("/tmp/refjs/viol", 0755)
				os.WriteFile(fmt.Sprintf("/tmp/refjs/viol/%d-%d.txt", seed, i), []byte(r.Monitor+"\n"+r.Detail+"\n"), 0644)
				fmt.Printf("=== VIOLATION index=%d %s\n", i, core.Trunc(key, 200))
				sigs[r.Monitor]++
			default:
				inc++
			}
			if r.NonTrivial {
				nt++
			}
		}
		fmt.Printf("held=%d violated=%d inconclusive=%d nontrivial=%d wall=%v\n", held, viol, inc, nt, time.Since(t0))
		keys := make([]string, 0)
		for k := range stats.Counters {
			keys = append(keys, k)
		}
		sort.Strings(keys)
		for _, k := range keys {
			fmt.Printf("  %-50s %d\n", k, stats.Counters[k])
		}
		for k, m := range stats.Sets {
			fmt.Printf("  set %s: %d members\n", k, len(m))
		}
	case "msgs":
		cnt := map[string]int{}
		for i := 0; i < n; i++ {
			st := i%2 == 1
			g := refjs.NewGen(core.CaseRng(seed, "dev", i), refjs.GenOpts{Strict: st})
			p := g.Program()
			if st {
				p.F |= refjs.FStrict
			}
			m := ErrText(refjs.Print(p))
			if len(m) > 70 {
				m = m[:70]
			}
			cnt[m]++
		}
		for k, v := range cnt {
			if v >= 3 {
				fmt.Printf("%6d %s\n", v, k)
			}
		}
	case "find":
		for i := 0; i < n; i++ {
			st := i%2 == 1
			g := refjs.NewGen(core.CaseRng(seed, "dev", i), refjs.GenOpts{Strict: st})
			p := g.Program()
			if st {
				p.F |= refjs.FStrict
			}
			src := refjs.Print(p)
			if strings.Contains(ErrText(src), args[3]) {
				fmt.Println(src)
				RunDebugFull(src)
				return
			}
		}
	case "why":
		// print the message of the final error of program <n>
		g := refjs.NewGen(core.CaseRng(seed, "dev", n), refjs.GenOpts{Strict: strict})
		src := refjs.Print(g.Program())
		fmt.Println(src)
		RunDebugFull(src)
	case "gen":
		for i := 0; i < n; i++ {
			g := refjs.NewGen(core.CaseRng(seed, "dev", i), refjs.GenOpts{Strict: strict})
			p := g.Program()
			src := refjs.Print(p)
			fmt.Printf("// ---- program %d\n%s\n", i, src)
			o := RunGoja(src, RunOpts{Fuel: 300000, MaxStack: 150})
			fmt.Printf("/* observed:\n%s\nsteps=%d */\n", o, o.Steps)
		}
	case "stats":
		cnt := map[string]int{}
		events := 0
		for i := 0; i < n; i++ {
			st := i%2 == 1
			g := refjs.NewGen(core.CaseRng(seed, "dev", i), refjs.GenOpts{Strict: st})
			p := g.Program()
			if st {
				p.F |= refjs.FStrict
			}
			src := refjs.Print(p)
			o := RunGoja(src, RunOpts{Fuel: 300000, MaxStack: 150})
			k := o.Final
			if len(k) > 4 && (k[:3] == "RET" || k[:5] == "THROW") {
				if k[:3] == "RET" {
					k = "RET"
				} else if len(k) > 8 && k[6:8] == "E:" {
					_ = k
				} else {
					k = "THROW other"
				}
			}
			if o.Tainted != "" {
				k = "tainted " + o.Tainted
			}
			if o.Harness != "" {
				k = "harness"
				fmt.Fprintf(os.Stderr, "HARNESS %d: %s\n%s\n", i, o.Harness, src)
			}
			if o.Final == "COMPILE compile-syntax" || o.Final == "COMPILE parse" {
				if cnt[k] < 5 {
					fmt.Fprintf(os.Stderr, "COMPILE %d:\n%s\n", i, src)
					RunDebug(src)
				}
			}
			cnt[k]++
			events += len(o.Events)
			if len(o.Events) >= 3 {
				cnt[">=3 events"]++
			}
		}
		for k, v := range cnt {
			fmt.Printf("%6d %s\n", v, k)
		}
		fmt.Printf("events/program %.1f\n", float64(events)/float64(n))
	}
}
