package c05

import (
	"math"
	"math/big"
	"strings"

	"verif/harness/core"
	"verif/harness/numref"
)

// Input neighbourhoods left out of random generation (and battery fields not judged) while the corresponding finding is
// listed in /verif/known-findings.d/ (DESIGN section 5). The pinned witness of every finding still runs in every tier and
// is printed as KNOWN-FINDING while it fails; once the entry is removed (fix merged) the neighbourhood is generated again.
// VERIF_NO_EXCLUDE=1 lifts everything (used to confirm the proposed patches against a patched worktree).

const two63 = 9223372036854775808.0

func hugeFinite(v float64) bool { return numref.IsFinite(v) && math.Abs(v) >= two63 }

// denormalRisk: subnormals other than ±MIN_VALUE (ftoa's bignum path hangs / mis-estimates for them).
func denormalRisk(v float64) bool {
	b := math.Float64bits(v) &^ (1 << 63)
	return b > 1 && b < 1<<52
}

func nonASCII(s string) bool {
	for i := 0; i < len(s); i++ {
		if s[i] >= 0x80 {
			return true
		}
	}
	return false
}

func opVal(n *node) (float64, bool) { return n.evalOperand() }

func isSafeIntVal(v float64) bool {
	return numref.IsFinite(v) && numref.IsInteger(v) && math.Abs(v) <= 9007199254740992 && !numref.IsNegZero(v)
}

var twoP53p1 = new(big.Int).Add(new(big.Int).Lsh(big.NewInt(1), 53), big.NewInt(1))

func isPlusMinus2p53p1(z *big.Int) bool { return new(big.Int).Abs(z).Cmp(twoP53p1) == 0 }

// literalExactInt returns the exact integer a literal text denotes (ok=false if it has a fraction/exponent).
func literalExactInt(l string) (*big.Int, bool) {
	l = strings.ReplaceAll(l, "_", "")
	z, ok := new(big.Int).SetString(l, 0)
	if ok && len(l) > 1 && l[0] == '0' && l[1] >= '0' && l[1] <= '9' {
		return nil, false
	}
	return z, ok
}

type treeExclusion struct {
	id   string
	what string
	in   func(n *node) bool // n is any node of the tree
}

func bitwiseOp(op string) bool {
	switch op {
	case "&", "|", "^", "<<", ">>", ">>>":
		return true
	}
	return false
}

var treeExclusions = []treeExclusion{
	{id: "C05-incdec-noncanonical", what: "++/-- whose result is an integer within ±2^53 while the operand is not a plain integer Number (−0, a non-integral or tiny float, a numeric string, an object wrapper)", in: func(n *node) bool {
		if n.Op != "upd" {
			return false
		}
		k := n.Kids[0]
		v, ok := opVal(k)
		if !ok {
			return false
		}
		r := numref.Add(v, 1)
		if n.Lit == "--" {
			r = numref.Sub(v, 1)
		}
		if !(numref.IsFinite(r) && numref.IsInteger(r) && math.Abs(r) <= 9007199254740992) {
			return false
		}
		return k.Op == "str" || k.Op == "wrap" || !isSafeIntVal(v)
	}},
	{id: "C05-neg-noncanonical", what: "unary minus applied to -0", in: func(n *node) bool {
		if n.Op != "un" || n.Lit != "neg" {
			return false
		}
		v, ok := opVal(n.Kids[0])
		return ok && numref.IsNegZero(v)
	}},
	{id: "C05-int-2p53plus1", what: "integer producers of exactly ±(2^53+1): literals, Go integers, and + - * ++ -- on integers within ±2^53", in: func(n *node) bool {
		switch n.Op {
		case "lit":
			z, ok := literalExactInt(n.Lit)
			return ok && isPlusMinus2p53p1(z)
		case "str":
			return strExact2p53p1(n.Lit)
		case "conv":
			if strings.HasSuffix(n.Lit, "parseInt") {
				if u, ok := n.Kids[0].stringOperand(); ok {
					if z := numref.ParseIntExact(u, int32(max(n.A, 0))); z != nil && isPlusMinus2p53p1(z) {
						return true
					}
				}
			}
			return false
		case "go":
			switch n.Go.Kind {
			case "float32", "float64":
				return false
			case "int", "int8", "int16", "int32", "int64":
				return isPlusMinus2p53p1(big.NewInt(n.Go.I))
			}
			return isPlusMinus2p53p1(new(big.Int).SetUint64(n.Go.U))
		case "bin", "cmp", "upd":
			var a, b float64
			var ok bool
			op := n.Lit
			if a, ok = opVal(n.Kids[0]); !ok {
				return false
			}
			if n.Op == "upd" {
				b = 1
				op = map[string]string{"++": "+", "--": "-"}[n.Lit]
			} else if b, ok = opVal(n.Kids[1]); !ok {
				return false
			}
			if !isSafeIntVal(a) || !isSafeIntVal(b) {
				return false
			}
			x, y := numref.TruncInt(a), numref.TruncInt(b)
			switch op {
			case "+":
				return isPlusMinus2p53p1(new(big.Int).Add(x, y))
			case "-":
				return isPlusMinus2p53p1(new(big.Int).Sub(x, y))
			case "*":
				return isPlusMinus2p53p1(new(big.Int).Mul(x, y))
			}
		}
		return false
	}},
	{id: "C05-toint-wrap-2p63", what: "ToInt32/ToUint32/ToInt8… users (bitwise and shift operators, ~, Math.imul/clz32, integer typed-array and DataView stores) applied to a finite |value| >= 2^63", in: func(n *node) bool {
		uses := false
		switch n.Op {
		case "bin", "cmp":
			uses = bitwiseOp(n.Lit)
		case "un":
			uses = n.Lit == "bitnot"
		case "math":
			uses = n.Lit == "imul" || n.Lit == "clz32"
		case "ta", "dv":
			uses = n.A <= 6
		}
		if !uses {
			return false
		}
		for _, k := range n.Kids {
			if v, ok := opVal(k); ok && hugeFinite(v) {
				return true
			}
		}
		return false
	}},
	{id: "C05-unicode-string-tofloat", what: "numeric strings containing non-ASCII white space as operands of anything but Number()/parseInt/parseFloat and the binary operators", in: func(n *node) bool {
		if n.Op == "conv" || n.Op == "bin" || n.Op == "cmp" {
			return false
		}
		for _, k := range n.Kids {
			if k.Op == "str" && nonASCII(k.Lit) {
				return true
			}
		}
		return false
	}},
	{id: "C05-math-sign-returns-arg", what: "Math.sign of a string / object operand", in: func(n *node) bool {
		return n.Op == "math" && n.Lit == "sign" && (n.Kids[0].Op == "str" || n.Kids[0].Op == "wrap")
	}},
	{id: "C05-mul-negzero", what: "integer * integer with one factor +0 and the other negative", in: func(n *node) bool {
		if (n.Op != "bin" && n.Op != "cmp") || n.Lit != "*" {
			return false
		}
		a, ok1 := opVal(n.Kids[0])
		b, ok2 := opVal(n.Kids[1])
		if !ok1 || !ok2 || !isSafeIntVal(a) || !isSafeIntVal(b) {
			return false
		}
		return (a == 0 && b < 0) || (b == 0 && a < 0)
	}},
	{id: "C05-number-of-bigint", what: "Number(bigint) for BigUint64 values >= 2^63", in: func(n *node) bool {
		if (n.Op != "ta" && n.Op != "dv") || elemTypes[n.A] != "BigUint64" {
			return false
		}
		v, ok := n.eval()
		return ok && v >= two63
	}},
	{id: "C05-bigint64array-fill-sign", what: "BigInt64Array.prototype.fill with a negative value", in: func(n *node) bool {
		if n.Op != "ta" || elemTypes[n.A] != "BigInt64" || n.B != 2 {
			return false
		}
		v, ok := n.eval()
		return ok && v < 0
	}},
	{id: "C12-long-nondecimal-literal", what: "0x/0o/0b literals needing more than 63 bits", in: func(n *node) bool {
		if n.Op != "lit" || len(n.Lit) < 3 || n.Lit[0] != '0' || !strings.ContainsRune("xXoObB", rune(n.Lit[1])) {
			return false
		}
		z, ok := literalExactInt(n.Lit)
		return ok && z.BitLen() > 63
	}},
	{id: "C12-long-nondecimal-string", what: "0x/0o/0b numeric strings needing more than 63 bits", in: func(n *node) bool {
		if n.Op != "str" {
			return false
		}
		return longNonDecimal(n.Lit)
	}},
	{id: "C12-number-nel-whitespace", what: "strings containing U+0085", in: func(n *node) bool {
		return n.Op == "str" && strings.Contains(n.Lit, "\u0085")
	}},
	{id: "C12-number-neg-zeros", what: "strings '-00…'", in: func(n *node) bool { return n.Op == "str" && negZeros(n.Lit) }},
	{id: "C12-parseint-neg-zero", what: "parseInt of '-0…'", in: func(n *node) bool {
		if n.Op != "conv" || !strings.HasSuffix(n.Lit, "parseInt") {
			return false
		}
		u, ok := n.Kids[0].stringOperand()
		if !ok {
			return false
		}
		res := numref.ParseInt(u, int32(max(n.A, 0)))
		return numref.IsNegZero(res.Value)
	}},
	{id: "C12-parseint-large-imprecise", what: "parseInt results of 2^57 or more", in: func(n *node) bool {
		if n.Op != "conv" || !strings.HasSuffix(n.Lit, "parseInt") {
			return false
		}
		v, ok := n.eval()
		return ok && numref.IsFinite(v) && math.Abs(v) >= 144115188075855872
	}},
	{id: "C12-ftoa-denormal", what: "trees whose value is a subnormal below 2^-1042 other than ±MIN_VALUE (String/toFixed of it may not terminate)", in: func(n *node) bool {
		v, ok := n.eval()
		return ok && denormalRisk(v)
	}},
}

// strExact2p53p1: the string, as a StringNumericLiteral, denotes exactly the integer ±(2^53+1)
func strExact2p53p1(s string) bool {
	t := strings.TrimFunc(s, func(r rune) bool { return r < 0x10000 && numref.IsStrWhiteSpace(uint16(r)) })
	if nonASCII(t) || t == "" {
		return false
	}
	body := strings.TrimLeft(t, "+-")
	if len(t)-len(body) > 1 {
		return false
	}
	z, ok := new(big.Int).SetString(strings.ToLower(body), 0)
	if !ok || strings.Contains(body, "_") || (len(body) > 1 && body[0] == '0' && body[1] >= '0' && body[1] <= '9') {
		z, ok = new(big.Int).SetString(strings.TrimLeft(body, "0"), 10)
		if !ok {
			return false
		}
	}
	return isPlusMinus2p53p1(z)
}

func longNonDecimal(s string) bool {
	u := numref.Units(s)
	i, j := 0, len(u)
	for i < j && numref.IsStrWhiteSpace(u[i]) {
		i++
	}
	for j > i && numref.IsStrWhiteSpace(u[j-1]) {
		j--
	}
	var b strings.Builder
	for _, c := range u[i:j] {
		if c >= 0x80 {
			return false
		}
		b.WriteByte(byte(c))
	}
	t := b.String()
	if len(t) < 3 || t[0] != '0' || !strings.ContainsRune("xXoObB", rune(t[1])) {
		return false
	}
	z, ok := new(big.Int).SetString(strings.ToLower(t), 0)
	return ok && z.BitLen() > 63
}

func negZeros(s string) bool {
	u := numref.Units(s)
	i, j := 0, len(u)
	for i < j && numref.IsStrWhiteSpace(u[i]) {
		i++
	}
	for j > i && numref.IsStrWhiteSpace(u[j-1]) {
		j--
	}
	if j-i < 3 || u[i] != '-' {
		return false
	}
	for _, c := range u[i+1 : j] {
		if c != '0' {
			return false
		}
	}
	return true
}

func excludedTree(st *core.Stats, n *node) bool {
	if noExclude {
		return false
	}
	hit := ""
	n.walk(func(k *node) {
		if hit != "" {
			return
		}
		for _, e := range treeExclusions {
			if listedBase[e.id] && e.in(k) {
				hit = e.id
				return
			}
		}
	})
	if hit != "" {
		st.Inc("excluded:" + hit)
		return true
	}
	return false
}

// excludedNeighbour: neighbour values that must not be produced while a finding is listed.
func excludedValue(v float64) bool {
	if noExclude {
		return false
	}
	return listedBase["C12-ftoa-denormal"] && denormalRisk(v)
}

// ---- battery fields not judged while a finding is listed ---------------------------------------------------------------

// on(id): the finding is listed and is not the one the current pinned witness is about
func on(id string) bool { return listedBase[id] && pinFinding != id }

func skipUnaryField(cr *caseRun, i int, v float64) bool {
	if noExclude {
		return false
	}
	skip := ""
	switch {
	case i >= 18 && i <= 22 && hugeFinite(v) && on("C05-toint-wrap-2p63"):
		skip = "C05-toint-wrap-2p63" // a|0, a>>>0, ~~a, a>>0, a<<0 of |a| >= 2^63
	case (i == 41 || i == 42) && v < 0 && on("C12-precision-negative-rollover"):
		// a.toPrecision(3) / a.toExponential(1) of a negative value whose digits all carry
		var m string
		if i == 41 {
			m, _ = numref.ToExponential(v, 2)
		} else {
			m, _ = numref.ToExponential(v, 1)
		}
		m, _, _ = strings.Cut(strings.TrimPrefix(m, "-"), "e")
		m = strings.Replace(m, ".", "", 1)
		if strings.HasPrefix(m, "1") && strings.Trim(m[1:], "0") == "" {
			skip = "C12-precision-negative-rollover"
		}
	}
	if skip != "" {
		cr.inc("battery_field_skipped:" + skip)
		return true
	}
	return false
}

func skipPairField(cr *caseRun, i int, a, b float64) bool {
	if noExclude {
		return false
	}
	// [−0].includes(+0): obs 15 is [a].includes(b), obs 16 is [b].includes(a)
	if on("C05-array-includes-negzero") {
		if (i == 15 && numref.IsNegZero(a) && numref.SameValue(b, 0)) || (i == 16 && numref.IsNegZero(b) && numref.SameValue(a, 0)) {
			cr.inc("battery_field_skipped:C05-array-includes-negzero")
			return true
		}
	}
	return false
}

// ---- conversion inputs -----------------------------------------------------------------------------------------------

type inputExclusion struct {
	id   string
	what string
	in   func(c cinput, op string) bool // op == "" asks about the input as a whole
}

// operations that reach the value through Value.ToFloat()/ToInteger() instead of ToNumber()
func viaToFloatOrInteger(op string) bool {
	switch op {
	case "Number(x)", "+x", "x*1", "x-0", "x/1", "x|0", "x>>0", "~~x", "x<<0", "x&-1", "x^0", "x>>>0", "1<<x", "-1>>>x", "parseFloat(x)", "parseInt(x)", "parseInt(x,16)",
		"Number.isInteger(x)", "Number.isSafeInteger(x)", "typedarray[x]", "array[x]":
		return false
	}
	return true
}

var inputExclusions = []inputExclusion{
	{id: "C05-unicode-string-tofloat", what: "strings with non-ASCII characters through operations that use ToFloat/ToInteger internally", in: func(c cinput, op string) bool {
		return op != "" && c.IsStr && nonASCII(c.S) && viaToFloatOrInteger(op)
	}},
	{id: "C05-string-tointeger-overflow", what: "numeric strings of magnitude >= 2^63 and the string 'NaN' (any case) through ToIntegerOrInfinity / ToLength / ToIndex users", in: func(c cinput, op string) bool {
		if op == "" || !c.IsStr {
			return false
		}
		n := c.num()
		t := strings.ToLower(strings.TrimLeft(strings.TrimSpace(c.S), "+-"))
		return (hugeFinite(n) || numref.IsInf(n) || t == "nan") && viaToFloatOrInteger(op)
	}},
	{id: "C05-toint-wrap-2p63", what: "finite |value| >= 2^63 through ToInt32/ToUint32/ToInt8…/ToUint16 users", in: func(c cinput, op string) bool {
		if op == "" || !hugeFinite(c.num()) {
			return false
		}
		switch op {
		case "x|0", "x>>0", "~~x", "x<<0", "x&-1", "x^0", "x>>>0", "1<<x", "-1>>>x", "Math.clz32(x)", "Math.imul(x,1)", "String.fromCharCode(x)", "DataView.setInt16/getInt16", "DataView.setUint32/getUint32 LE", "Uint8Array.fill(x)", "Int32Array element store":
			return true
		}
		return strings.HasPrefix(op, "new ") && strings.HasSuffix(op, "Array([x])[0]") && !strings.Contains(op, "Float") && !strings.Contains(op, "Clamped")
	}},
	{id: "C05-neg-noncanonical", what: "-(-x) where ToNumber(x) is ±0", in: func(c cinput, op string) bool {
		return op == "-(-x)" && numref.IsZero(c.num())
	}},
	{id: "C05-math-sign-returns-arg", what: "Math.sign of a string", in: func(c cinput, op string) bool { return op == "Math.sign(x)" && c.IsStr }},
	{id: "C12-long-nondecimal-string", what: "0x/0o/0b strings needing more than 63 bits", in: func(c cinput, op string) bool {
		return op == "" && c.IsStr && longNonDecimal(c.S)
	}},
	{id: "C12-number-prefix-sign", what: "sign after a radix prefix", in: func(c cinput, op string) bool {
		if op != "" || !c.IsStr {
			return false
		}
		t := strings.TrimSpace(c.S)
		return len(t) > 2 && t[0] == '0' && strings.ContainsRune("xXoObB", rune(t[1])) && (t[2] == '+' || t[2] == '-')
	}},
	{id: "C12-number-nel-whitespace", what: "strings containing U+0085", in: func(c cinput, op string) bool {
		return op == "" && c.IsStr && strings.Contains(c.S, "\u0085")
	}},
	{id: "C12-number-neg-zeros", what: "'-00…'", in: func(c cinput, op string) bool { return op == "" && c.IsStr && negZeros(c.S) }},
	{id: "C12-parseint-neg-zero", what: "parseInt giving -0", in: func(c cinput, op string) bool {
		if !strings.HasPrefix(op, "parseInt") {
			return false
		}
		R := int32(0)
		if op == "parseInt(x,16)" {
			R = 16
		}
		return numref.IsNegZero(numref.ParseInt(c.units(), R).Value)
	}},
	{id: "C12-parseint-large-imprecise", what: "parseInt results of 2^57 or more", in: func(c cinput, op string) bool {
		if !strings.HasPrefix(op, "parseInt") {
			return false
		}
		R := int32(0)
		if op == "parseInt(x,16)" {
			R = 16
		}
		v := numref.ParseInt(c.units(), R).Value
		return numref.IsFinite(v) && math.Abs(v) >= 144115188075855872
	}},
	{id: "C12-precision-negative-rollover", what: "(conversion ops do not format negative values)", in: func(c cinput, op string) bool { return false }},
}

func excludedInput(st *core.Stats, c cinput) bool {
	if noExclude {
		return false
	}
	for _, e := range inputExclusions {
		if listedBase[e.id] && e.in(c, "") {
			st.Inc("excluded:" + e.id)
			return true
		}
	}
	return false
}

func excludedConv(st *core.Stats, c cinput, op string) bool {
	if noExclude {
		return false
	}
	for _, e := range inputExclusions {
		if listedBase[e.id] && e.in(c, op) {
			st.Inc("excluded:" + e.id)
			return true
		}
	}
	return false
}
