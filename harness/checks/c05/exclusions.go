package c05

import (
	"verif/harness/core"
)

// Input neighbourhoods left out of random generation while the corresponding finding is listed in
// /verif/known-findings.d/ (DESIGN section 5). The pinned witness of every finding still runs in every tier.
// VERIF_NO_EXCLUDE=1 lifts all exclusions (used to confirm proposed patches against a patched worktree).
type treeExclusion struct {
	id string
	in func(n *node) bool // true if the tree contains the excluded construct
}

type inputExclusion struct {
	id string
	in func(c cinput, op string) bool // op == "" asks about the input as a whole
}

var treeExclusions = []treeExclusion{}
var inputExclusions = []inputExclusion{}

func excludedTree(st *core.Stats, n *node) bool {
	if noExclude {
		return false
	}
	for _, e := range treeExclusions {
		if listed[e.id] && e.in(n) {
			st.Inc("excluded:" + e.id)
			return true
		}
	}
	return false
}

func excludedInput(st *core.Stats, c cinput) bool {
	if noExclude {
		return false
	}
	for _, e := range inputExclusions {
		if listed[e.id] && e.in(c, "") {
			st.Inc("excluded:" + e.id)
			return true
		}
	}
	return false
}

func excludedConv(st *core.Stats, c cinput, op string) bool {
	if noExclude {
		return false
	}
	for _, e := range inputExclusions {
		if listed[e.id] && e.in(c, op) {
			st.Inc("excluded:" + e.id)
			return true
		}
	}
	return false
}
