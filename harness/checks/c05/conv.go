package c05

import (
	"fmt"
	"math"
	"math/big"
	"strings"

	"verif/harness/core"
	"verif/harness/numref"
)

// Part (b): conversions. An input is a string or a Number; every operation below applies a specified abstract conversion
// (ToNumber, ToInt32, ToUint32, ToIntegerOrInfinity, ToLength, ToIndex, ToUint16, element conversions, …) to it.

type cinput struct {
	IsStr bool    `json:"is_str"`
	S     string  `json:"s,omitempty"`
	F     float64 `json:"-"`
	Bits  string  `json:"bits,omitempty"`
}

func (c cinput) String() string {
	if c.IsStr {
		return "string " + jsQuote(c.S)
	}
	if c.F != c.F {
		return "number NaN"
	}
	return fmt.Sprintf("number %s (bits %016x)", numref.ToString(c.F), math.Float64bits(c.F)) + map[bool]string{true: " [-0]"}[numref.IsNegZero(c.F)]
}

// toNumber of the input
func (c cinput) num() float64 {
	if c.IsStr {
		return numref.StringToNumber(numref.Units(c.S))
	}
	return c.F
}

// toString of the input as UTF-16 units
func (c cinput) units() []uint16 {
	if c.IsStr {
		return numref.Units(c.S)
	}
	return numref.Units(numref.ToString(c.F))
}

func (c cinput) key() string {
	if c.IsStr {
		return c.S
	}
	return numref.ToString(c.F)
}

// outcome rendering: "n:<bits>|NaN", "s:<text>", "b:true", "u", "throw:<Ctor>"; "" = not judged (skip the call)
func outNum(f float64) string {
	if f != f {
		return "n:NaN"
	}
	return fmt.Sprintf("n:%016x", math.Float64bits(f))
}
func outInt(i int64) string  { return outNum(numref.Int64ToFloat(i)) }
func outStr(s string) string { return "s:" + s }
func outBool(b bool) string {
	if b {
		return "b:true"
	}
	return "b:false"
}

type convOp struct {
	name   string
	js     string // body of function(x) { … }
	expect func(c cinput) string
	accept func(c cinput, got string) bool // optional: several allowed results
}

// relative index clamp used by slice/fill/splice (ECMA-262: relativeStart)
func relClamp(f float64, length int64) int64 {
	t := numref.ToIntegerOrInfinity(f)
	switch {
	case t.Inf < 0:
		return 0
	case t.Inf > 0:
		return length
	}
	if t.Int.Sign() < 0 {
		v := new(big.Int).Add(t.Int, big.NewInt(length))
		if v.Sign() < 0 {
			return 0
		}
		return v.Int64()
	}
	if t.Int.Cmp(big.NewInt(length)) > 0 {
		return length
	}
	return t.Int.Int64()
}

// clamp(ToIntegerOrInfinity(f), 0, length)
func posClamp(f float64, length int64) int64 {
	t := numref.ToIntegerOrInfinity(f)
	switch {
	case t.Inf < 0:
		return 0
	case t.Inf > 0:
		return length
	case t.Int.Sign() < 0:
		return 0
	case t.Int.Cmp(big.NewInt(length)) > 0:
		return length
	}
	return t.Int.Int64()
}

// small returns ToIntegerOrInfinity(f) when it is an integer within [-lim, lim]; ok=false otherwise (incl. infinities).
func small(f float64, lim int64) (int64, bool) {
	t := numref.ToIntegerOrInfinity(f)
	if t.Inf != 0 || !t.Int.IsInt64() {
		return 0, false
	}
	v := t.Int.Int64()
	if v < -lim || v > lim {
		return 0, false
	}
	return v, true
}

func relIndex(f float64, length int64) (int64, bool) { // at / with: actual index or out of range
	t := numref.ToIntegerOrInfinity(f)
	if t.Inf != 0 {
		return 0, false
	}
	v := new(big.Int).Set(t.Int)
	if v.Sign() < 0 {
		v.Add(v, big.NewInt(length))
	}
	if v.Sign() < 0 || v.Cmp(big.NewInt(length)) >= 0 {
		return 0, false
	}
	return v.Int64(), true
}

func digitsRange(c cinput, lo, hi int64, f func(d int) string) string {
	t := numref.ToIntegerOrInfinity(c.num())
	if t.Inf != 0 || t.Int.Cmp(big.NewInt(lo)) < 0 || t.Int.Cmp(big.NewInt(hi)) > 0 {
		return "throw:RangeError"
	}
	return outStr(f(int(t.Int.Int64())))
}

func elemOp(t int) convOp {
	T := elemTypes[t] + "Array"
	return convOp{name: "new " + T + "([x])[0]", js: "return new " + T + "([x])[0]", expect: func(c cinput) string {
		v, ok := convElem(t, c.num())
		if !ok {
			return ""
		}
		return outNum(v)
	}}
}

var convOps []convOp

func init() {
	N := func(name, js string, f func(n float64) float64) convOp {
		return convOp{name: name, js: js, expect: func(c cinput) string { return outNum(f(c.num())) }}
	}
	i32 := func(n float64) float64 { return numref.Int64ToFloat(int64(numref.ToInt32(n))) }
	u32 := func(n float64) float64 { return numref.Int64ToFloat(int64(numref.ToUint32(n))) }
	id := func(n float64) float64 { return n }
	convOps = []convOp{
		N("Number(x)", "return Number(x)", id),
		N("+x", "return +x", id),
		N("x*1", "return x*1", id),
		N("x-0", "return x-0", id),
		N("x/1", "return x/1", id),
		N("-(-x)", "return -(-x)", id),
		N("x|0", "return x|0", i32),
		N("x>>0", "return x>>0", i32),
		N("~~x", "return ~~x", i32),
		N("x<<0", "return x<<0", i32),
		N("x&-1", "return x&-1", i32),
		N("x^0", "return x^0", i32),
		N("x>>>0", "return x>>>0", u32),
		N("1<<x", "return 1<<x", func(n float64) float64 { return numref.Shl(1, n) }),
		N("-1>>>x", "return -1>>>x", func(n float64) float64 { return numref.UShr(-1, n) }),
		N("Math.trunc(x)", "return Math.trunc(x)", numref.Trunc),
		N("Math.floor(x)", "return Math.floor(x)", numref.Floor),
		N("Math.ceil(x)", "return Math.ceil(x)", numref.Ceil),
		N("Math.round(x)", "return Math.round(x)", numref.Round),
		N("Math.abs(x)", "return Math.abs(x)", numref.Abs),
		N("Math.sign(x)", "return Math.sign(x)", numref.Sign),
		N("Math.fround(x)", "return Math.fround(x)", numref.RoundFloat32),
		N("Math.clz32(x)", "return Math.clz32(x)", numref.Clz32),
		N("Math.imul(x,1)", "return Math.imul(x,1)", func(n float64) float64 { return numref.Imul(n, 1) }),
		N("Math.max(x)", "return Math.max(x)", id),
		N("Math.min(x,Infinity)", "return Math.min(x,Infinity)", func(n float64) float64 { return numref.Min(n, numref.Inf(false)) }),
		{name: "parseFloat(x)", js: "return parseFloat(x)", expect: func(c cinput) string { return outNum(numref.ParseFloat(c.units())) }},
		{name: "parseInt(x)", js: "return parseInt(x)", expect: func(c cinput) string { return outNum(numref.ParseInt(c.units(), 0).Value) },
			accept: func(c cinput, got string) bool {
				res := numref.ParseInt(c.units(), 0)
				return got == outNum(res.Value) || got == outNum(res.Alt)
			}},
		{name: "parseInt(x,16)", js: "return parseInt(x,16)", expect: func(c cinput) string { return outNum(numref.ParseInt(c.units(), 16).Value) }},
		{name: "isNaN(x)", js: "return isNaN(x)", expect: func(c cinput) string { return outBool(numref.IsNaN(c.num())) }},
		{name: "isFinite(x)", js: "return isFinite(x)", expect: func(c cinput) string { return outBool(numref.IsFinite(c.num())) }},
		{name: "Number.isInteger(x)", js: "return Number.isInteger(x)", expect: func(c cinput) string { return outBool(!c.IsStr && numref.IsInteger(c.F)) }},
		{name: "Number.isSafeInteger(x)", js: "return Number.isSafeInteger(x)", expect: func(c cinput) string {
			return outBool(!c.IsStr && numref.IsInteger(c.F) && math.Abs(c.F) <= 9007199254740991)
		}},
	}
	for t := 0; t < 9; t++ {
		convOps = append(convOps, elemOp(t))
	}
	more := []convOp{
		{name: "DataView.setInt16/getInt16", js: "var d = new DataView(new ArrayBuffer(4)); d.setInt16(1, x); return d.getInt16(1)", expect: func(c cinput) string {
			return outInt(int64(numref.ToInt16(c.num())))
		}},
		{name: "DataView.setUint32/getUint32 LE", js: "var d = new DataView(new ArrayBuffer(8)); d.setUint32(2, x, true); return d.getUint32(2, true)", expect: func(c cinput) string {
			return outInt(int64(numref.ToUint32(c.num())))
		}},
		{name: "Uint8Array.fill(x)", js: "return new Uint8Array(2).fill(x)[1]", expect: func(c cinput) string { return outInt(int64(numref.ToUint8(c.num()))) }},
		{name: "Int32Array element store", js: "var t = new Int32Array(1); t[0] = x; return t[0]", expect: func(c cinput) string { return outInt(int64(numref.ToInt32(c.num()))) }},
		{name: "String.fromCharCode(x)", js: "return String.fromCharCode(x).charCodeAt(0)", expect: func(c cinput) string { return outInt(int64(numref.ToUint16(c.num()))) }},
		{name: "push.call({length:x})", js: "return Array.prototype.push.call({length: x})", expect: func(c cinput) string { return outInt(numref.ToLength(c.num())) }},
		{name: "pop.call({length:x}) length", js: "var o = {length: x}; Array.prototype.pop.call(o); return o.length", expect: func(c cinput) string {
			l := numref.ToLength(c.num())
			if l > 0 {
				l--
			}
			return outInt(l)
		}},
		{name: "charAt(x)", js: `return "abcdef".charAt(x)`, expect: func(c cinput) string {
			if p, ok := small(c.num(), 5); ok && p >= 0 {
				return outStr("abcdef"[p : p+1])
			}
			return outStr("")
		}},
		{name: "charCodeAt(x)", js: `return "abcdef".charCodeAt(x)`, expect: func(c cinput) string {
			if p, ok := small(c.num(), 5); ok && p >= 0 {
				return outInt(int64("abcdef"[p]))
			}
			return outNum(numref.NaN())
		}},
		{name: "codePointAt(x)", js: `return "abcdef".codePointAt(x)`, expect: func(c cinput) string {
			if p, ok := small(c.num(), 5); ok && p >= 0 {
				return outInt(int64("abcdef"[p]))
			}
			return "u"
		}},
		{name: "string.at(x)", js: `return "abcdef".at(x)`, expect: func(c cinput) string {
			if k, ok := relIndex(c.num(), 6); ok {
				return outStr("abcdef"[k : k+1])
			}
			return "u"
		}},
		{name: "array.at(x)", js: `return [10,20,30].at(x)`, expect: func(c cinput) string {
			if k, ok := relIndex(c.num(), 3); ok {
				return outInt(10 * (k + 1))
			}
			return "u"
		}},
		{name: "string.slice(x)", js: `return "abcdef".slice(x)`, expect: func(c cinput) string { return outStr("abcdef"[relClamp(c.num(), 6):]) }},
		{name: "string.substring(x)", js: `return "abcdef".substring(x)`, expect: func(c cinput) string { return outStr("abcdef"[posClamp(c.num(), 6):]) }},
		{name: "string.substr(x)", js: `return "abcdef".substr(x)`, expect: func(c cinput) string { return outStr("abcdef"[relClamp(c.num(), 6):]) }},
		{name: "array.slice(x).length", js: `return [0,1,2,3,4,5].slice(x).length`, expect: func(c cinput) string { return outInt(6 - relClamp(c.num(), 6)) }},
		{name: "array.slice(0,x).length", js: `return [0,1,2,3,4,5].slice(0,x).length`, expect: func(c cinput) string { return outInt(relClamp(c.num(), 6)) }},
		{name: "array.splice(x).length", js: `return [1,2,3].splice(x).length`, expect: func(c cinput) string { return outInt(3 - relClamp(c.num(), 3)) }},
		{name: "array.fill(1,x)", js: `return [0,0,0].fill(1, x).join("")`, expect: func(c cinput) string {
			k := relClamp(c.num(), 3)
			return outStr(strings.Repeat("0", int(k)) + strings.Repeat("1", int(3-k)))
		}},
		{name: "array.with(x,9)", js: `return [1,2,3,4].with(x, 9).join("")`, expect: func(c cinput) string {
			k, ok := relIndex(c.num(), 4)
			if !ok {
				return "throw:RangeError"
			}
			b := []byte("1234")
			b[k] = '9'
			return outStr(string(b))
		}},
		{name: "array.indexOf(2,x)", js: `return [1,2,3].indexOf(2, x)`, expect: func(c cinput) string {
			t := numref.ToIntegerOrInfinity(c.num())
			if t.Inf > 0 {
				return outInt(-1)
			}
			if relClamp(c.num(), 3) <= 1 {
				return outInt(1)
			}
			return outInt(-1)
		}},
		{name: "array.includes(2,x)", js: `return [1,2,3].includes(2, x)`, expect: func(c cinput) string {
			t := numref.ToIntegerOrInfinity(c.num())
			return outBool(t.Inf <= 0 && relClamp(c.num(), 3) <= 1)
		}},
		{name: "array.lastIndexOf(2,x)", js: `return [1,2,3].lastIndexOf(2, x)`, expect: func(c cinput) string {
			// n = ToIntegerOrInfinity(fromIndex); -inf -> -1; k = n >= 0 ? min(n, len-1) : len + n
			t := numref.ToIntegerOrInfinity(c.num())
			if t.Inf < 0 {
				return outInt(-1)
			}
			var k int64
			switch {
			case t.Inf > 0:
				k = 2
			case t.Int.Sign() >= 0:
				k = 2
				if t.Int.Cmp(big.NewInt(2)) < 0 {
					k = t.Int.Int64()
				}
			default:
				v := new(big.Int).Add(t.Int, big.NewInt(3))
				if v.Sign() < 0 {
					return outInt(-1)
				}
				k = v.Int64()
			}
			if k >= 1 {
				return outInt(1)
			}
			return outInt(-1)
		}},
		{name: "string.indexOf(b,x)", js: `return "abc".indexOf("b", x)`, expect: func(c cinput) string {
			if posClamp(c.num(), 3) <= 1 {
				return outInt(1)
			}
			return outInt(-1)
		}},
		{name: "string.lastIndexOf(b,x)", js: `return "abc".lastIndexOf("b", x)`, expect: func(c cinput) string {
			n := c.num()
			start := int64(3)
			if !numref.IsNaN(n) {
				start = posClamp(n, 3)
			}
			if start >= 1 {
				return outInt(1)
			}
			return outInt(-1)
		}},
		{name: "string.includes(c,x)", js: `return "abcabc".includes("c", x)`, expect: func(c cinput) string { return outBool(posClamp(c.num(), 6) <= 5) }},
		{name: "string.startsWith(b,x)", js: `return "abc".startsWith("b", x)`, expect: func(c cinput) string { return outBool(posClamp(c.num(), 3) == 1) }},
		{name: "string.endsWith(b,x)", js: `return "abc".endsWith("b", x)`, expect: func(c cinput) string { return outBool(posClamp(c.num(), 3) == 2) }},
		{name: "string.repeat(x).length", js: `return "ab".repeat(x).length`, expect: func(c cinput) string {
			t := numref.ToIntegerOrInfinity(c.num())
			if t.Inf != 0 || t.Int.Sign() < 0 {
				return "throw:RangeError"
			}
			if t.Int.Cmp(big.NewInt(1000)) > 0 {
				return "" // memory by construction
			}
			return outInt(2 * t.Int.Int64())
		}},
		{name: "string.padStart(x)", js: `return "abc".padStart(x, "*")`, expect: func(c cinput) string {
			l := numref.ToLength(c.num())
			if l > 1000 {
				return ""
			}
			if l <= 3 {
				return outStr("abc")
			}
			return outStr(strings.Repeat("*", int(l-3)) + "abc")
		}},
		{name: "toFixed(x)", js: `return (1.5).toFixed(x)`, expect: func(c cinput) string {
			return digitsRange(c, 0, 100, func(d int) string { s, _ := numref.ToFixed(1.5, d); return s })
		}},
		{name: "toExponential(x)", js: `return (1.5).toExponential(x)`, expect: func(c cinput) string {
			return digitsRange(c, 0, 100, func(d int) string { s, _ := numref.ToExponential(1.5, d); return s })
		}},
		{name: "toPrecision(x)", js: `return (1.5).toPrecision(x)`, expect: func(c cinput) string {
			return digitsRange(c, 1, 100, func(d int) string { s, _ := numref.ToPrecision(1.5, d); return s })
		}},
		{name: "toString(radix x)", js: `return (255).toString(x)`, expect: func(c cinput) string {
			return digitsRange(c, 2, 36, func(d int) string { return big.NewInt(255).Text(d) })
		}},
		{name: "new Array(x).length", js: `return new Array(x).length`, expect: func(c cinput) string {
			if c.IsStr {
				return outInt(1)
			}
			u := numref.Int64ToFloat(int64(numref.ToUint32(c.F)))
			if !numref.SameValueZero(u, c.F) {
				return "throw:RangeError"
			}
			if u > 100000 {
				return ""
			}
			return outNum(u)
		}},
		{name: "array.length = x", js: `var a = [1,2,3]; a.length = x; return a.length`, expect: func(c cinput) string {
			n := c.num()
			u := numref.Int64ToFloat(int64(numref.ToUint32(n)))
			if !numref.SameValueZero(u, n) {
				return "throw:RangeError"
			}
			return outNum(u)
		}},
		{name: "new ArrayBuffer(x).byteLength", js: `return new ArrayBuffer(x).byteLength`, expect: func(c cinput) string {
			i, ok := numref.ToIndex(c.num())
			if !ok {
				return "throw:RangeError"
			}
			if i > 65536 {
				return "" // a huge allocation may legitimately fail or succeed
			}
			return outInt(i)
		}},
		{name: "new Uint8Array(x).length", js: `return new Uint8Array(x).length`, expect: func(c cinput) string {
			i, ok := numref.ToIndex(c.num())
			if !ok {
				return "throw:RangeError"
			}
			if i > 65536 {
				return ""
			}
			return outInt(i)
		}},
		{name: "DataView.getUint8(x)", js: `return new DataView(new ArrayBuffer(8)).getUint8(x)`, expect: func(c cinput) string {
			i, ok := numref.ToIndex(c.num())
			if !ok || i+1 > 8 {
				return "throw:RangeError"
			}
			return outInt(0)
		}},
		{name: "new DataView(buf,x).byteOffset", js: `return new DataView(new ArrayBuffer(8), x).byteOffset`, expect: func(c cinput) string {
			i, ok := numref.ToIndex(c.num())
			if !ok || i > 8 {
				return "throw:RangeError"
			}
			return outInt(i)
		}},
		{name: "typedarray[x]", js: `return new Uint8Array([7,8,9])[x]`, expect: func(c cinput) string {
			switch c.key() {
			case "0":
				return outInt(7)
			case "1":
				return outInt(8)
			case "2":
				return outInt(9)
			}
			return "u"
		}},
		{name: "array[x]", js: `return [7,8,9][x]`, expect: func(c cinput) string {
			switch c.key() {
			case "0":
				return outInt(7)
			case "1":
				return outInt(8)
			case "2":
				return outInt(9)
			}
			return "u"
		}},
		{name: "arraybuffer.slice(x).byteLength", js: `return new ArrayBuffer(8).slice(x).byteLength`, expect: func(c cinput) string { return outInt(8 - relClamp(c.num(), 8)) }},
		{name: "typedarray.subarray(x).length", js: `return new Uint8Array(8).subarray(x).length`, expect: func(c cinput) string { return outInt(8 - relClamp(c.num(), 8)) }},
		{name: "new Date(x).getTime()", js: `return new Date(x).getTime()`, expect: func(c cinput) string {
			if c.IsStr {
				return "" // Date.parse: outside the model
			}
			return outNum(timeClip(c.F))
		}},
	}
	convOps = append(convOps, more...)
}

// ---- inputs ------------------------------------------------------------------------------------------------------------

func genConvInput(r *core.Rng) cinput {
	if r.Chance(2, 5) {
		s := genStr(r).Lit
		if r.Chance(1, 4) {
			// magnitude strings
			s = core.Pick(r, []string{"9223372036854775807", "9223372036854775808", "-9223372036854775809", "18446744073709551616", "1e19", "-1e19", "1e21", "-1e21", "4294967295.9", "-4294967296.5", "2147483647.5",
				"-2147483648.9", "4503599627370496.5", "1.9", "-1.9", "-0.9", "0.9", "2", "3", "5", "6", "7", "36", "37", "100", "101", "1000", "65536", "65537", "-5", "-6", "-7", "8", "9",
				"0x7fffffff", "0xffffffff", "0x100000000", "0x8000000000000000", "0x7fffffffffffffff", "0xffffffffffffffff", "0x1" + strings.Repeat("0", 20), "0b" + strings.Repeat("1", 32), "0b1" + strings.Repeat("0", 64), "0o" + strings.Repeat("7", 22)})
			if r.Chance(1, 3) {
				ws := []string{" ", "\u00a0", "\ufeff", "\u2028", "\u2029", "\t", "\u3000", "\u0085", "\u200b"}
				s = core.Pick(r, ws) + s + core.Pick(r, ws)
			}
		}
		return cinput{IsStr: true, S: s}
	}
	var f float64
	switch r.Intn(8) {
	case 0:
		f = core.Pick(r, []float64{0, math.Copysign(0, -1), 0.5, -0.5, 0.9, -0.9, 1, -1, 1.5, -1.5, 2, 2.5, 3, 5, 6, 7, 8, 9, 36, 37, 100, 101, -5, -6, -7, 254.5, 255.5, 127.5, -128.5, 65535.5})
	case 1:
		k := core.Pick(r, []int{7, 8, 15, 16, 31, 32, 52, 53, 62, 63, 64, 65, 84, 100, 1023})
		f = math.Ldexp(1, k)
		switch r.Intn(5) {
		case 0:
			f = numref.NextDown(f)
		case 1:
			f = numref.NextUp(f)
		case 2:
			f += float64(r.Range(-2, 2))
		case 3:
			f += 0.5
		}
	case 2:
		f = core.Pick(r, []float64{math.NaN(), math.Inf(1), math.Inf(-1), math.MaxFloat64, -math.MaxFloat64, 5e-324, -5e-324, 1e21, -1e21, 1e300, 9007199254740991, 9007199254740992, 9007199254740993, -9007199254740992, 4294967295, 4294967296, 4294967297, 2147483647, 2147483648, -2147483648, -2147483649, 65535, 65536, 8.64e15, 8.64e15 + 1, -8.64e15})
	case 3: // random magnitude with the integer part crossing 2^32 / 2^53 / 2^63 / 2^64
		e := r.Range(0, 100)
		f = math.Float64frombits(uint64(1023+e)<<52 | r.U64()&(1<<52-1))
	case 4: // wide integers with low bits set: 2^k + 2^j
		k, j := r.Range(33, 110), r.Range(0, 31)
		z := new(big.Int).Lsh(big.NewInt(1), uint(k))
		z.Add(z, new(big.Int).Lsh(big.NewInt(1), uint(j)))
		if k-j > 52 {
			z = new(big.Int).Lsh(big.NewInt(1), uint(k))
			z.Add(z, new(big.Int).Lsh(big.NewInt(1), uint(k-52+r.Intn(20))))
		}
		f = numref.RoundInt(z)
	case 5:
		f = float64(r.Range(-12, 40))
	case 6:
		f = float64(r.Range(-12, 40)) + core.Pick(r, []float64{0.5, 0.25, 0.75, 0.999, 0.001})
	default:
		f = r.Bits64()
	}
	if r.Chance(1, 3) {
		f = -f
	}
	if f != f {
		return cinput{F: f, Bits: "NaN"}
	}
	return cinput{F: f, Bits: fmt.Sprintf("%016x", math.Float64bits(f))}
}
