// Package c05: "Equal numbers are indistinguishable however computed; conversions follow the specification".
// (a) Indistinguishability battery: expression trees (depth <= 4) over arithmetic / bitwise / shift / unary / update /
// compound-assignment operators (on locals, closure variables, properties, elements, block-scoped bindings; on numbers,
// numeric strings and object wrappers), exact Math functions, Number / parseFloat / parseInt, typed-array and DataView
// store-load round trips for all 11 element types, JSON.parse, length / indexOf style integer producers, Date getters on exact
// time stamps and Runtime.ToValue of every Go numeric kind. The oracle (numref, math/big) evaluates each tree exactly; for
// every tree the value is also produced by five independent direct producers (string conversion, Go float64, source literal,
// JSON.parse, Float64Array load) and by the trees of the same case that landed in the same bucket; neighbouring buckets
// (next double up/down, the other zero, NaN) supply pairs that must be distinguishable exactly as SameValue / SameValueZero /
// === / ToString prescribe. 40 pair observables inside goja + 5 from Go (SameAs both ways, StrictEquals, Equals, Export),
// 80 single-value observables (44 of them with an oracle expectation).
// (b) Conversions: boundary strings and magnitudes through ~85 operations that apply ToNumber / ToInt32 / ToUint32 /
// ToIntegerOrInfinity / ToLength / ToIndex / ToUint16 / element conversions, compared with numref.
// VerifRepr / VerifNumberCanonical are recorded as evidence (representation pairs) and never decide.
package c05

import (
	"fmt"
	"math"
	"os"
	"sort"
	"strings"
	"sync"

	"github.com/dop251/goja"

	"verif/harness/core"
	"verif/harness/gj"
	"verif/harness/numref"
)

const (
	treesPerCase  = 9
	inputsPerConv = 10
)

func Check() *core.Check {
	return &core.Check{
		ID:    "C05",
		Level: "exploration",
		Rule: "case = (a) 9 random expression trees (depth <= 4) whose exact value the oracle can compute, each paired with 5 direct reference producers of the same double, with the other trees of the case in the same bucket, and with reference producers of the neighbouring doubles / the other zero / NaN; " +
			"40 in-engine pair observables, 5 Go-side ones and 80 single-value observables per member; or (b) 10 boundary inputs (strings with any StrWhiteSpace, prefixes, magnitudes up to 2^1023, |f| >= 2^63) through ~85 conversion-applying operations; " +
			"non-trivial = at least one compared pair whose members come from different producer families (a) / at least one non-integer-literal input (b); distinct = distinct case contents",
		Assumptions: []string{
			"only trees the big-rational oracle evaluates exactly are generated (exact ** / sqrt / hypot cases; no transcendental Math functions)",
			"NaN payload bits are not compared (implementation-defined)",
			"allocation-by-construction inputs (lengths > 65536 for ArrayBuffer / typed arrays, > 1000 for repeat / padStart) are not executed",
			"while a finding is listed in known-findings.d/C05.json the generator leaves out the input neighbourhood written next to it (counted as excluded:<id>)",
		},
		Cases: func(tier string) int {
			if tier == "thorough" {
				return 90000
			}
			return 4000
		},
		MinConclusive: func(tier string) int { return 500 },
		NumPinned:     len(pinned),
		CaseTimeoutS:  120,
		Run:           run,
	}
}

// ---- findings / exclusions ----------------------------------------------------------------------------------------------

var (
	findOnce   sync.Once
	listed     map[string]bool
	listedBase map[string]bool
	knownSig   map[string]bool
	noExclude  = os.Getenv("VERIF_NO_EXCLUDE") != ""
)

func loadFindings() {
	findOnce.Do(func() {
		listed = map[string]bool{}
		listedBase = map[string]bool{}
		knownSig = map[string]bool{}
		ff := core.LoadFindings()
		for _, f := range ff.Findings {
			listed[f.ID] = true
			base, _, _ := strings.Cut(f.ID, "/")
			listedBase[base] = true
			if f.Property == "C05" {
				knownSig[f.Signature] = true
			}
		}
	})
}

// ---- runtime ------------------------------------------------------------------------------------------------------------

type rt struct {
	r    *goja.Runtime
	B, U goja.Callable
	conv []goja.Callable
}

func newRT(withConv bool) (*rt, error) {
	r := gj.NewRuntime()
	goja.VerifSetFuel(r, 20_000_000)
	if _, err := r.RunString(preludeJS); err != nil {
		return nil, err
	}
	t := &rt{r: r}
	var ok bool
	if t.B, ok = goja.AssertFunction(r.Get("B")); !ok {
		return nil, fmt.Errorf("prelude: B")
	}
	if t.U, ok = goja.AssertFunction(r.Get("U")); !ok {
		return nil, fmt.Errorf("prelude: U")
	}
	if withConv {
		for _, op := range convOps {
			v, err := r.RunString("(function(x){ " + op.js + " })")
			if err != nil {
				return nil, fmt.Errorf("conv op %s: %v", op.name, err)
			}
			fn, _ := goja.AssertFunction(v)
			t.conv = append(t.conv, fn)
		}
	}
	return t, nil
}

func problem(o gj.Outcome, r *goja.Runtime) string {
	switch {
	case o.Panic != nil:
		return fmt.Sprintf("Go panic: %v", o.Panic)
	case o.Assertion != nil:
		return "verif assertion: " + o.Assertion.Error()
	case o.Fuel:
		return "fuel exhausted"
	case o.Err != nil:
		if ex, ok := o.Err.(*goja.Exception); ok {
			return "throw:" + gj.ErrorCtorName(r, ex.Value())
		}
		return "error: " + o.Err.Error()
	}
	return ""
}

// ---- items ----------------------------------------------------------------------------------------------------------------

type item struct {
	n     *node
	role  string // "tree" | "ref" | "nbr"
	want  float64
	val   goja.Value
	prob  string
	u     []string
	g     goObs
	owner int // for refs / nbrs: index of the tree they belong to
}

type violation struct {
	monitor string
	detail  string
	blame   *node // tree to minimise / sign
	other   *node
}

type caseRun struct {
	c     *core.Ctx
	st    *core.Stats
	t     *rt
	items []*item
	viols []violation
	quiet bool
	nontr bool
	pairs int
}

func (cr *caseRun) inc(k string) {
	if !cr.quiet {
		cr.st.Inc(k)
	}
}

func showF(f float64) string {
	if f != f {
		return "NaN"
	}
	s := numref.ToString(f)
	if numref.IsNegZero(f) {
		s = "-0"
	}
	return fmt.Sprintf("%s (bits %016x)", s, math.Float64bits(f))
}

// sigSrc renders a tree for signatures / reports with Go leaves spelled out.
func sigSrc(n *node) string {
	s := n.src()
	n.walk(func(k *node) {
		if k.Op == "go" {
			s = strings.Replace(s, fmt.Sprintf("G[%d]", k.Go.slot), fmt.Sprintf("ToValue(%s(%v))", k.Go.Kind, goShow(k.Go)), 1)
		}
	})
	return s
}

func goShow(g *goLeaf) string {
	switch g.Kind {
	case "float32":
		return fmt.Sprintf("%g", math.Float32frombits(uint32(g.F)))
	case "float64":
		f := math.Float64frombits(g.F)
		if f == 0 && math.Signbit(f) {
			return "-0"
		}
		return fmt.Sprintf("%g", f)
	case "int", "int8", "int16", "int32", "int64":
		return fmt.Sprint(g.I)
	}
	return fmt.Sprint(g.U)
}

// assignSlots numbers the Go leaves of all items and returns the values.
func assignSlots(items []*item) []any {
	var vals []any
	for _, it := range items {
		it.n.walk(func(k *node) {
			if k.Op == "go" {
				k.Go.slot = len(vals)
				vals = append(vals, k.Go.value())
			}
		})
	}
	return vals
}

func (cr *caseRun) evalAll() {
	r := cr.t.r
	vals := assignSlots(cr.items)
	gv := make([]interface{}, len(vals))
	for i, v := range vals {
		gv[i] = r.ToValue(v)
	}
	r.Set("G", r.NewArray(gv...))
	for _, it := range cr.items {
		src := "(function(){ return " + it.n.src() + " })"
		o := gj.Call(func() (goja.Value, error) {
			f, err := r.RunString(src)
			if err != nil {
				return nil, err
			}
			fn, _ := goja.AssertFunction(f)
			return fn(goja.Undefined())
		})
		if p := problem(o, r); p != "" {
			it.prob = p
			continue
		}
		it.val = o.Val
		if o.Val == nil || !goja.IsNumber(o.Val) {
			it.prob = fmt.Sprintf("non-number result %v", o.Val)
			continue
		}
		it.g = observeGo(o.Val)
		uo := gj.Call(func() (goja.Value, error) { return cr.t.U(goja.Undefined(), o.Val) })
		if p := problem(uo, r); p != "" {
			it.prob = "U(): " + p
			continue
		}
		it.u = strings.Split(uo.Val.String(), "|")
	}
}

var unaryNames = []string{"typeof", "String(a)", "template", "a+''", "a.toString()", "JSON.stringify(a)", "Object.keys({[a]:1})[0]", "Float64Array bits", "Object.is(a,0)", "Object.is(a,-0)", "1/a===-Infinity", "1/a===Infinity",
	"Number.isInteger", "Number.isSafeInteger", "Number.isFinite", "Number.isNaN", "isNaN", "isFinite", "a|0", "a>>>0", "~~a", "a>>0", "a<<0", "[10,20,30][a]", "'xyz'[a]", "'xyz'.charAt(a)", "[10,20,30].at(a)",
	"Object.is(a,+a)", "Object.is(a,Number(a))", "Object.is(a,a*1)", "Object.is(a,a/1)", "Object.is(-a,0-a)", "a===a", "a==a", "a<=a", "Math.sign(a)", "Math.trunc(a)", "Math.abs(a)", "new Number(a).valueOf()===a", "Object(a)==a",
	"a.toFixed(2)", "a.toPrecision(3)", "a.toExponential(1)", "a.toString(2).length>0"}

func unaryName(i int) string {
	if i < len(unaryNames) {
		return unaryNames[i]
	}
	return fmt.Sprintf("U-field-%d", i)
}

// checkSingle judges one item against the oracle value.
func (cr *caseRun) checkSingle(it *item) bool {
	fam := it.n.family()
	cr.inc("family:" + fam)
	cr.inc("role:" + it.role)
	if it.prob != "" {
		cr.viols = append(cr.viols, violation{monitor: "unexpected-abrupt", detail: fmt.Sprintf("%s => %s; oracle value %s", sigSrc(it.n), it.prob, showF(it.want)), blame: it.n})
		return false
	}
	got := it.val.ToFloat()
	if !numref.SameValue(got, it.want) {
		cr.viols = append(cr.viols, violation{monitor: "value", detail: fmt.Sprintf("%s => %s; oracle value %s", sigSrc(it.n), showF(got), showF(it.want)), blame: it.n})
		return false
	}
	cr.inc("repr:" + it.g.repr)
	if !it.g.canonical {
		cr.inc("noncanonical_repr_seen")
	}
	exp := expectedUnaryPrefix(it.want)
	for i, e := range exp {
		if skipUnaryField(cr, i, it.want) {
			continue
		}
		if i >= len(it.u) || it.u[i] != e {
			g := "<missing>"
			if i < len(it.u) {
				g = it.u[i]
			}
			cr.viols = append(cr.viols, violation{monitor: "observable:" + unaryName(i), detail: fmt.Sprintf("a = %s (oracle %s, repr %s, canonical=%v): %s = %s, expected %s", sigSrc(it.n), showF(it.want), it.g.repr, it.g.canonical, unaryName(i), g, e), blame: it.n})
			return false
		}
	}
	cr.inc("single_observables_checked")
	// Go side against the oracle
	if !exportMatches(it.g.export, it.want) {
		cr.viols = append(cr.viols, violation{monitor: "go:Export", detail: fmt.Sprintf("a = %s (oracle %s, repr %s): Export() = %s", sigSrc(it.n), showF(it.want), it.g.repr, it.g.export), blame: it.n})
		return false
	}
	if strings.Contains(it.g.expType, "!=") {
		cr.viols = append(cr.viols, violation{monitor: "go:ExportType", detail: fmt.Sprintf("a = %s: ExportType %s", sigSrc(it.n), it.g.expType), blame: it.n})
		return false
	}
	if it.g.str != numref.ToString(it.want) {
		cr.viols = append(cr.viols, violation{monitor: "go:String", detail: fmt.Sprintf("a = %s (oracle %s): Value.String() = %q", sigSrc(it.n), showF(it.want), it.g.str), blame: it.n})
		return false
	}
	return true
}

// checkPair runs the battery on (a,b). blameA says which side a violation is attributed to.
func (cr *caseRun) checkPair(a, b *item, blame *item) {
	if a.prob != "" || b.prob != "" || a.u == nil || b.u == nil {
		return
	}
	cr.pairs++
	st := cr.st
	same := numref.SameValue(a.want, b.want)
	fa, fb := a.n.family(), b.n.family()
	if fa != fb {
		cr.nontr = true
	}
	if !cr.quiet {
		rel := "same"
		if !same {
			rel = "neighbour"
		}
		st.Inc("pairs:" + rel)
		rp := a.g.repr + "/" + b.g.repr
		if !a.g.canonical || !b.g.canonical {
			rp += "(noncanonical)"
		}
		st.Inc("reprpair:" + rp)
		fp := []string{famClass(fa), famClass(fb)}
		sort.Strings(fp)
		st.SetAdd("family_pairs", fp[0]+" ~ "+fp[1])
	}
	other := b
	if blame == b {
		other = a
	}
	mk := func(monitor, what string) {
		cr.viols = append(cr.viols, violation{monitor: monitor, blame: blame.n, other: other.n,
			detail: fmt.Sprintf("a = %s [%s, %s, canonical=%v]; b = %s [%s, %s, canonical=%v]; oracle a=%s b=%s: %s", sigSrc(a.n), fa, a.g.repr, a.g.canonical, sigSrc(b.n), fb, b.g.repr, b.g.canonical, showF(a.want), showF(b.want), what)})
	}
	o := gj.Call(func() (goja.Value, error) { return cr.t.B(goja.Undefined(), a.val, b.val) })
	if p := problem(o, cr.t.r); p != "" {
		mk("battery-abrupt", "B(a,b) => "+p)
		return
	}
	got := o.Val.String()
	want := expectedPair(a.want, b.want)
	if got != want {
		for i := 0; i < len(want) && i < len(got); i++ {
			if got[i] != want[i] && skipPairField(cr, i, a.want, b.want) {
				continue
			}
			if got[i] != want[i] {
				mk("pair:"+pairObsNames[i], fmt.Sprintf("%s gave %c, expected %c (all observables got %s want %s)", pairObsNames[i], got[i], want[i], got, want))
				return
			}
		}
		if len(got) != len(want) {
			mk("pair:length", "battery length "+got)
			return
		}
	}
	if !cr.quiet {
		st.Count("pair_observables_checked", int64(len(want)))
	}
	// Go side
	type gcheck struct {
		name string
		got  bool
		want bool
	}
	se := numref.StrictEquals(a.want, b.want)
	for _, g := range []gcheck{
		{"a.SameAs(b)", a.val.SameAs(b.val), same}, {"b.SameAs(a)", b.val.SameAs(a.val), same},
		{"a.StrictEquals(b)", a.val.StrictEquals(b.val), se}, {"b.StrictEquals(a)", b.val.StrictEquals(a.val), se},
		{"a.Equals(b)", a.val.Equals(b.val), se}, {"b.Equals(a)", b.val.Equals(a.val), se},
	} {
		if g.got != g.want {
			mk("go:"+g.name, fmt.Sprintf("%s = %v, expected %v", g.name, g.got, g.want))
			return
		}
	}
	if !cr.quiet {
		st.Count("go_pair_observables_checked", 6)
	}
	if same {
		// every single-value observable must agree
		for i := range a.u {
			if i < len(b.u) && a.u[i] != b.u[i] {
				mk("same-value:"+unaryName(i), fmt.Sprintf("%s differs: %q vs %q", unaryName(i), a.u[i], b.u[i]))
				return
			}
		}
		if a.g.export != b.g.export || a.g.expType != b.g.expType || a.g.toInt != b.g.toInt || a.g.str != b.g.str || a.g.toFloat != b.g.toFloat || a.g.isNaN != b.g.isNaN {
			mk("go:same-value-export", fmt.Sprintf("Go-side observations differ: %+v vs %+v", a.g, b.g))
			return
		}
	}
}

func famClass(f string) string { return f }

// opKey names the operator of a node for the evidence counters (data-carrying leaves by kind only).
func opKey(n *node) string {
	switch n.Op {
	case "lit", "str", "json", "wrap":
		return n.Op
	case "go":
		return "go:" + n.Go.Kind
	case "ta", "dv":
		return n.Op + ":" + elemTypes[n.A]
	case "upd", "cmp":
		return n.Op + ":" + n.Lit + "=@" + storages[n.B]
	}
	return n.Op + ":" + n.Lit
}

// runTrees executes the (a) battery for the given trees. Returns the violations.
func (cr *caseRun) runTrees(trees []*node) {
	var refsOf [][]*item
	var nbrsOf [][]*item
	var treeItems []*item
	for i, t := range trees {
		v, ok := t.eval()
		if !ok {
			continue
		}
		ti := &item{n: t, role: "tree", want: v, owner: i}
		treeItems = append(treeItems, ti)
		cr.items = append(cr.items, ti)
		var rs []*item
		for _, rn := range refs(v) {
			rv, ok := rn.eval()
			if !ok || !numref.SameValue(rv, v) {
				continue // a reference producer the oracle cannot confirm is not used
			}
			ri := &item{n: rn, role: "ref", want: v, owner: i}
			rs = append(rs, ri)
			cr.items = append(cr.items, ri)
		}
		refsOf = append(refsOf, rs)
		var ns []*item
		for _, w := range neighbours(v) {
			if excludedValue(w) {
				continue
			}
			rn := refs(w)[cr.c.Rng.Intn(2)]
			ni := &item{n: rn, role: "nbr", want: w, owner: i}
			ns = append(ns, ni)
			cr.items = append(cr.items, ni)
		}
		nbrsOf = append(nbrsOf, ns)
	}
	cr.evalAll()
	okItem := map[*item]bool{}
	for _, it := range cr.items {
		okItem[it] = cr.checkSingle(it)
		if !cr.quiet && it.role == "tree" {
			cr.st.SetAdd("buckets", fmt.Sprintf("%016x", math.Float64bits(it.want)))
			cr.st.Inc("root_op:" + opKey(it.n))
			it.n.walk(func(k *node) {
				if k != it.n {
					cr.st.Inc("inner_op:" + opKey(k))
				}
			})
			cr.st.Max("tree_depth_max", int64(it.n.depth()))
			cr.st.Inc(fmt.Sprintf("tree_depth:%d", it.n.depth()))
		}
	}
	for i, ti := range treeItems {
		rs := refsOf[i]
		// the reference producers must agree among themselves first
		refsOK := true
		for k := 1; k < len(rs); k++ {
			before := len(cr.viols)
			cr.checkPair(rs[0], rs[k], rs[k])
			if len(cr.viols) > before {
				refsOK = false
			}
		}
		for _, ri := range rs {
			if !okItem[ri] {
				refsOK = false
			}
		}
		if !okItem[ti] || !refsOK {
			continue
		}
		for k, ri := range rs {
			if k%2 == 0 {
				cr.checkPair(ti, ri, ti)
			} else {
				cr.checkPair(ri, ti, ti)
			}
		}
		for _, ni := range nbrsOf[i] {
			if okItem[ni] {
				cr.checkPair(ti, ni, ti)
			}
		}
		for j := i + 1; j < len(treeItems); j++ {
			tj := treeItems[j]
			if okItem[tj] && numref.SameValue(ti.want, tj.want) {
				cr.inc("tree_tree_pairs")
				cr.checkPair(ti, tj, ti)
			}
		}
	}
}

// neighbours of v: adjacent doubles, the other zero, and a NaN / non-NaN counterpart.
func neighbours(v float64) []float64 {
	var out []float64
	switch {
	case numref.IsNaN(v):
		out = append(out, 0, numref.Inf(false))
	case numref.IsZero(v):
		out = append(out, numref.Neg(v), numref.NextUp(v), numref.NextDown(v), numref.NaN())
	case numref.IsInf(v):
		out = append(out, numref.Neg(v), numref.NaN())
		if numref.Signbit(v) {
			out = append(out, numref.NextUp(v))
		} else {
			out = append(out, numref.NextDown(v))
		}
	default:
		out = append(out, numref.NextUp(v), numref.NextDown(v), numref.Neg(v))
		if numref.IsInteger(v) && math.Abs(v) < 1<<53 {
			out = append(out, numref.Add(v, 1))
		}
	}
	return out
}

// ---- minimisation ---------------------------------------------------------------------------------------------------------

// failsAlone runs tree n as a one-tree case and reports the first violation blamed on it.
func failsAlone(c *core.Ctx, n *node) *violation {
	if _, ok := n.eval(); !ok {
		return nil
	}
	t, err := newRT(false)
	if err != nil {
		return nil
	}
	cr := &caseRun{c: &core.Ctx{Property: c.Property, Tier: c.Tier, Seed: c.Seed, Index: c.Index, Rng: core.NewRng(1), Stats: core.NewStats()}, t: t, quiet: true}
	cr.st = cr.c.Stats
	cr.runTrees([]*node{n.clone()})
	for i := range cr.viols {
		if cr.viols[i].blame != nil && cr.viols[i].blame.Op != "" {
			v := cr.viols[i]
			return &v
		}
	}
	return nil
}

func numericKids(n *node) []*node {
	var out []*node
	for _, k := range n.Kids {
		switch k.Op {
		case "str":
		case "wrap":
			out = append(out, k.Kids[0])
		default:
			out = append(out, k)
		}
	}
	return out
}

// valueLeaf returns a simple leaf producing v (literal, minus literal, or constant).
func valueLeaf(v float64) *node { return refs(v)[2] }

func minimise(c *core.Ctx, n *node) *node {
	budget := 150
	cur := n
	for changed := true; changed && budget > 0; {
		changed = false
		// descend into a failing operand
		for _, k := range numericKids(cur) {
			budget--
			if k.size() < cur.size() && failsAlone(c, k) != nil {
				cur, changed = k, true
				break
			}
		}
		if changed {
			continue
		}
		// replace non-leaf operands by a plain leaf of their value
		for i, k := range cur.Kids {
			tgt := k
			if k.Op == "wrap" {
				tgt = k.Kids[0]
			}
			if tgt.Op == "str" || len(tgt.Kids) == 0 && (tgt.Op == "lit" || tgt.Op == "const") {
				continue
			}
			v, ok := tgt.eval()
			if !ok {
				continue
			}
			leaf := valueLeaf(v)
			if leaf.size() >= tgt.size() && tgt.Op != "go" && tgt.Op != "json" && tgt.Op != "len" {
				continue
			}
			cand := cur.clone()
			if k.Op == "wrap" {
				cand.Kids[i].Kids[0] = leaf
			} else {
				cand.Kids[i] = leaf
			}
			budget--
			if failsAlone(c, cand) != nil {
				cur, changed = cand, true
				break
			}
		}
		if changed {
			continue
		}
		// drop wrappers
		for i, k := range cur.Kids {
			if k.Op == "wrap" {
				cand := cur.clone()
				cand.Kids[i] = k.Kids[0].clone()
				budget--
				if failsAlone(c, cand) != nil {
					cur, changed = cand, true
					break
				}
			}
		}
	}
	return cur
}

// ---- case driver ----------------------------------------------------------------------------------------------------------

type caseRec struct {
	Kind     string   `json:"kind"`
	Witness  string   `json:"witness"`
	Against  string   `json:"against,omitempty"`
	Original string   `json:"original,omitempty"`
	Tree     *node    `json:"tree,omitempty"`
	Input    *cinput  `json:"input,omitempty"`
	Op       string   `json:"op,omitempty"`
	All      []string `json:"all_violations,omitempty"`
}

func run(c *core.Ctx) core.Result {
	loadFindings()
	if c.Index < 0 {
		return runPinned(c, pinned[-c.Index-1])
	}
	if c.Rng.Chance(1, 5) {
		return runConvCase(c, nil)
	}
	return runTreeCase(c, nil)
}

func runTreeCase(c *core.Ctx, fixed []*node) core.Result {
	t, err := newRT(false)
	if err != nil {
		return core.Result{Verdict: core.Inconclusive, Monitor: "prelude-failed", Detail: err.Error()}
	}
	cr := &caseRun{c: c, st: c.Stats, t: t}
	trees := fixed
	if trees == nil {
		g := &gen{r: c.Rng, excl: func(n *node) bool { return excludedTree(c.Stats, n) }}
		for i := 0; i < treesPerCase; i++ {
			d := c.Rng.Range(2, 4)
			trees = append(trees, g.tree(d))
		}
	}
	cr.runTrees(trees)
	c.Stats.Count("pairs", int64(cr.pairs))
	c.Stats.Count("trees", int64(len(trees)))
	for _, nm := range pairObsNames {
		c.Stats.Count("observable:pair:"+nm, int64(cr.pairs))
	}
	for _, nm := range []string{"a.SameAs(b)", "b.SameAs(a)", "a.StrictEquals(b)", "b.StrictEquals(a)", "a.Equals(b)", "b.Equals(a)", "Export() type/value", "ToFloat/ToInteger/String"} {
		c.Stats.Count("observable:go:"+nm, int64(cr.pairs))
	}
	for i, nm := range unaryNames {
		_ = i
		c.Stats.Count("observable:single:"+nm, int64(len(cr.items)))
	}
	if why := gj.IdleProblem(t.r, false); why != "" {
		cr.viols = append(cr.viols, violation{monitor: "vm-not-idle", detail: why})
	}
	var key strings.Builder
	for _, tr := range trees {
		key.WriteString(sigSrc(tr))
		key.WriteByte(';')
	}
	if c.Stats.WantSample() && c.Index >= 0 && c.Index%53 == 0 && len(trees) > 0 {
		c.Stats.Sample(map[string]any{"index": c.Index, "tree": core.Trunc(sigSrc(trees[0]), 300), "value": showF(cr.items[0].want)})
	}
	res := core.Result{Verdict: core.Held, NonTrivial: cr.nontr, Key: key.String()}
	if len(cr.viols) == 0 {
		return res
	}
	// minimise each distinct blamed tree (bounded), report the first one that is not a listed finding
	type cand struct {
		v   violation
		min *node
		sig string
	}
	var cands []cand
	seen := map[string]bool{}
	fixedSrc := map[string]bool{}
	for _, tr := range fixed {
		fixedSrc[sigSrc(tr)] = true
	}
	for _, v := range cr.viols {
		if v.blame == nil {
			cands = append(cands, cand{v: v, sig: "C05|" + v.monitor})
			continue
		}
		s0 := sigSrc(v.blame)
		if fixed != nil && !fixedSrc[s0] {
			// a pinned witness is judged on its own tree only; its reference producers are covered by the generated cases
			c.Stats.Inc("pinned_secondary_violation_ignored")
			continue
		}
		if seen[s0] {
			continue
		}
		seen[s0] = true
		min := v.blame
		if c.Index >= 0 && len(cands) < 4 {
			min = minimise(c, v.blame)
			if mv := failsAlone(c, min); mv != nil {
				mv.detail += "\n(found as: " + core.Trunc(v.detail, 700) + ")"
				v = *mv
			}
		}
		cands = append(cands, cand{v: v, min: min, sig: "C05|" + v.monitor + "|" + sigSrc(min)})
	}
	if len(cands) == 0 {
		return res
	}
	pick := cands[0]
	for _, cd := range cands {
		if !knownSig[cd.sig] {
			pick = cd
			break
		}
	}
	var all []string
	for _, cd := range cands {
		all = append(all, cd.v.monitor+" :: "+cd.sig)
	}
	res.Verdict = core.Violated
	res.NonTrivial = true
	res.Monitor = pick.v.monitor
	res.Signature = pick.sig
	res.Detail = pick.v.detail
	rec := caseRec{Kind: "tree", Witness: strings.TrimPrefix(pick.sig, "C05|"), Tree: pick.min, All: all}
	if pick.min != nil {
		rec.Witness = sigSrc(pick.min)
	}
	if pick.v.other != nil {
		rec.Against = sigSrc(pick.v.other)
	}
	if pick.v.blame != nil && pick.min != nil && sigSrc(pick.v.blame) != sigSrc(pick.min) {
		rec.Original = sigSrc(pick.v.blame)
	}
	res.Case = rec
	return res
}

// ---- conversions case -------------------------------------------------------------------------------------------------

func renderOutcome(r *goja.Runtime, o gj.Outcome) string {
	if p := problem(o, r); p != "" {
		return p
	}
	v := o.Val
	switch {
	case v == nil || goja.IsUndefined(v):
		return "u"
	case goja.IsNumber(v):
		return outNum(v.ToFloat())
	}
	if s, ok := v.(goja.String); ok {
		return "s:" + s.String()
	}
	if b, ok := v.Export().(bool); ok {
		return outBool(b)
	}
	return fmt.Sprintf("?%v", v)
}

func runConvCase(c *core.Ctx, fixed []cinput) core.Result { return runConvCaseOp(c, fixed, "") }

func runConvCaseOp(c *core.Ctx, fixed []cinput, onlyOp string) core.Result {
	t, err := newRT(true)
	if err != nil {
		return core.Result{Verdict: core.Inconclusive, Monitor: "prelude-failed", Detail: err.Error()}
	}
	st := c.Stats
	inputs := fixed
	if inputs == nil {
		for len(inputs) < inputsPerConv {
			in := genConvInput(c.Rng)
			if excludedInput(st, in) {
				continue
			}
			inputs = append(inputs, in)
		}
	}
	type cviol struct {
		monitor, sig, detail string
		in                   cinput
		op                   string
	}
	var viols []cviol
	nontr := false
	var key strings.Builder
	for _, in := range inputs {
		key.WriteString(in.String())
		key.WriteByte(';')
		if in.IsStr {
			st.Inc("conv_input:string")
			nontr = true
		} else {
			st.Inc("conv_input:number")
			if !(numref.IsFinite(in.F) && numref.IsInteger(in.F) && math.Abs(in.F) < 1<<31) {
				nontr = true
			}
			if numref.IsFinite(in.F) && math.Abs(in.F) >= 9223372036854775808.0 {
				st.Inc("conv_input:|f|>=2^63")
			}
		}
		// the input value: strings alternately as an imported Go string and as a literal compiled from source
		var xv goja.Value
		if in.IsStr && c.Rng.Bool() {
			v, err := t.r.RunString(jsQuote(in.S))
			if err != nil {
				xv = t.r.ToValue(in.S)
			} else {
				xv = v
			}
			st.Inc("conv_via:string-literal")
		} else if in.IsStr {
			xv = t.r.ToValue(in.S)
			st.Inc("conv_via:go-string")
		} else {
			xv = t.r.ToValue(in.F)
		}
		for i, op := range convOps {
			if onlyOp != "" && op.name != onlyOp {
				continue
			}
			want := op.expect(in)
			if want == "" {
				st.Inc("conv_skipped:" + op.name)
				continue
			}
			if fixed == nil && excludedConv(st, in, op.name) {
				continue
			}
			o := gj.Call(func() (goja.Value, error) { return t.conv[i](goja.Undefined(), xv) })
			got := renderOutcome(t.r, o)
			st.Inc("conv_op:" + op.name)
			if strings.HasPrefix(want, "throw:") {
				st.Inc("conv_expected_throws")
			}
			ok := got == want
			if !ok && op.accept != nil {
				ok = op.accept(in, got)
			}
			if !ok {
				viols = append(viols, cviol{monitor: "conversion:" + op.name, sig: "C05|conversion|" + op.name + "|" + in.String(), in: in, op: op.name,
					detail: fmt.Sprintf("%s with x = %s (repr %s): got %s, expected %s (ToNumber(x) = %s)", op.name, in.String(), goja.VerifRepr(xv), showOutcome(got), showOutcome(want), showF(in.num()))})
			}
		}
	}
	st.Count("conv_inputs", int64(len(inputs)))
	res := core.Result{Verdict: core.Held, NonTrivial: nontr, Key: key.String()}
	if why := gj.IdleProblem(t.r, false); why != "" {
		viols = append(viols, cviol{monitor: "vm-not-idle", sig: "C05|idle", detail: why})
	}
	if len(viols) == 0 {
		return res
	}
	pick := viols[0]
	for _, v := range viols {
		if !knownSig[v.sig] {
			pick = v
			break
		}
	}
	var all []string
	for i, v := range viols {
		if i < 40 {
			all = append(all, v.sig)
		}
	}
	in := pick.in
	res.Verdict = core.Violated
	res.NonTrivial = true
	res.Monitor = pick.monitor
	res.Signature = pick.sig
	res.Detail = pick.detail + fmt.Sprintf(" (%d conversion violation(s) in this case)", len(viols))
	res.Case = caseRec{Kind: "conv", Witness: pick.op + " :: " + in.String(), Input: &in, Op: pick.op, All: all}
	return res
}

func showOutcome(s string) string {
	if strings.HasPrefix(s, "n:") && s != "n:NaN" {
		var u uint64
		fmt.Sscanf(s[2:], "%x", &u)
		return showF(math.Float64frombits(u))
	}
	return s
}
