package c05

import (
	"fmt"
	"math"
	"math/big"
	"strings"

	"verif/harness/core"
	"verif/harness/numref"
)

// ---- leaves ------------------------------------------------------------------------------------------------------------

var boundaryLits = []string{
	"0", "1", "2", "3", "7", "10", "100", "255", "256", "32767", "32768", "65535", "65536",
	"2147483647", "2147483648", "2147483649", "4294967295", "4294967296", "4294967297",
	"9007199254740990", "9007199254740991", "9007199254740992", "9007199254740993", "9007199254740994", "9007199254740995", "9007199254740996",
	"4503599627370496", "4503599627370495.5", "4503599627370497",
	"9223372036854775807", "9223372036854775808", "18446744073709551615", "18446744073709551616", "1e21", "1e22", "1e300", "1.7976931348623157e308", "1e309",
	"5e-324", "2.2250738585072014e-308", "1e-7", "1e-6", "0.1", "0.5", "1.5", "2.5", "0.25", "0.75", "127.5", "254.5", "255.5", "0.49999999999999994", "3.141592653589793",
	"0x7fffffff", "0x80000000", "0xffffffff", "0x100000000", "0x1fffffffffffff", "0x20000000000000", "0x20000000000001", "0x7fffffffffffffff", "0xffffffffffffffff",
	"0b11111111", "0o777", "0b1" + "00000000000000000000000000000000", "1_000", "0.0", "0e0", "00.5e1"[1:], "16777216", "16777217", "8640000000000000", "8640000000000001", "86400000", "1e3",
}

var boundaryStrs = []string{
	"", " ", "0", "-0", "+0", "-00", "00", "1", "-1", "12", "1.5", "-1.5", ".5", "5.", "1e3", "-1e3", "1e21", "1e-7", "Infinity", "-Infinity", "+Infinity", "NaN", "abc", "1px", "0x10", "0X1f", "0b101", "0o17",
	"-0x10", "0x", " 12 ", "\t\n12\r\n", "\u00a012\u00a0", "\ufeff12", "\u202812\u2029", "\u300012", "\u180e12", "\u008512", "12\u0085", "\u00a0-0", "\u00a0 1.5\ufeff", "2147483648", "-2147483649", "4294967296", "9007199254740993",
	"-9007199254740993", "9223372036854775808", "1e1000", "-1e1000", "1e-1000", "-1e-1000", "0x20000000000001", "0xffffffffffffffffffff", "0b" + "1111111111111111111111111111111111111111111111111111111111111111111111", "0o7777777777777777777777777",
	"1_000", "1n", "\u0663", "\uff11", "0.1", "2.5", "-2.5", "0.5", "-0.5", "255.5", "254.5", "-0.0e5", "0e-5", "-.0",
}

func genNumLit(r *core.Rng) *node {
	switch r.Intn(10) {
	case 0: // long decimal literal 1..400 digits
		k := r.Range(1, 40)
		if r.Chance(1, 4) {
			k = r.Range(40, 400)
		}
		b := make([]byte, k)
		for i := range b {
			b[i] = byte('0' + r.Intn(10))
		}
		if b[0] == '0' {
			b[0] = '1'
		}
		s := string(b)
		if r.Chance(1, 3) && k > 1 {
			p := r.Range(1, k-1)
			s = s[:p] + "." + s[p:]
		}
		if r.Chance(1, 4) {
			s += fmt.Sprintf("e%d", r.Range(-330, 300))
		}
		return &node{Op: "lit", Lit: s}
	case 1: // 0x/0b/0o up to 80 digits
		radix, pfx := 16, "0x"
		switch r.Intn(3) {
		case 1:
			radix, pfx = 8, "0o"
		case 2:
			radix, pfx = 2, "0b"
		}
		k := r.Range(1, 16)
		if r.Chance(1, 3) {
			k = r.Range(1, 80)
		}
		var b strings.Builder
		b.WriteString(pfx)
		for i := 0; i < k; i++ {
			b.WriteByte("0123456789abcdef"[r.Intn(radix)])
		}
		return &node{Op: "lit", Lit: b.String()}
	case 2: // small integers
		return &node{Op: "lit", Lit: fmt.Sprint(r.Intn(40))}
	case 3: // powers of two ± small
		k := r.Range(0, 64)
		z := new(big.Int).Lsh(big.NewInt(1), uint(k))
		z.Add(z, big.NewInt(int64(r.Range(-2, 2))))
		if z.Sign() < 0 {
			z.Neg(z)
		}
		return &node{Op: "lit", Lit: z.String()}
	case 4: // halves / quarters
		return &node{Op: "lit", Lit: fmt.Sprintf("%d.%s", r.Intn(300), core.Pick(r, []string{"5", "25", "75", "125", "0", "50"}))}
	case 5:
		return &node{Op: "const", Lit: core.Pick(r, []string{"NaN", "Infinity", "Number.MAX_SAFE_INTEGER", "Number.MIN_SAFE_INTEGER", "Number.MAX_VALUE", "Number.MIN_VALUE", "Number.EPSILON", "Number.POSITIVE_INFINITY", "Number.NEGATIVE_INFINITY", "Number.NaN"})}
	}
	return &node{Op: "lit", Lit: core.Pick(r, boundaryLits)}
}

func genStr(r *core.Rng) *node {
	if r.Chance(1, 6) {
		// numeric string of a boundary literal's digits with optional white space
		l := core.Pick(r, boundaryLits)
		l = strings.ReplaceAll(l, "_", "")
		ws := []string{"", "", " ", "\u00a0", "\ufeff", "\u2028", "\u2029", "\t", "\u3000", "\u0085"}
		sign := core.Pick(r, []string{"", "", "-", "+"})
		if strings.HasPrefix(l, "0x") || strings.HasPrefix(l, "0b") || strings.HasPrefix(l, "0o") {
			sign = ""
		}
		return &node{Op: "str", Lit: core.Pick(r, ws) + sign + l + core.Pick(r, ws)}
	}
	return &node{Op: "str", Lit: core.Pick(r, boundaryStrs)}
}

var goKinds = []string{"int", "int8", "int16", "int32", "int64", "uint", "uint8", "uint16", "uint32", "uint64", "float32", "float64"}

func genGo(r *core.Rng) *node {
	g := &goLeaf{Kind: core.Pick(r, goKinds)}
	i64s := []int64{0, 1, -1, 127, -128, 255, 32767, -32768, 65535, math.MaxInt32, math.MinInt32, math.MaxUint32, 1 << 53, 1<<53 - 1, 1<<53 + 1, 1<<53 + 2, 1<<53 + 3, -(1 << 53), -(1<<53 + 1), -(1<<53 + 2), math.MaxInt64, math.MinInt64, math.MaxInt64 - 1023, 1 << 62, 1<<62 + 1}
	u64s := []uint64{0, 1, 255, 65535, math.MaxUint32, 1 << 53, 1<<53 + 1, 1<<53 + 3, 1 << 63, 1<<63 + 1, 1<<63 + 1024, 1<<63 + 1025, math.MaxUint64, math.MaxUint64 - 1023, math.MaxUint64 - 1024}
	switch g.Kind {
	case "int", "int64":
		g.I = core.Pick(r, i64s)
		if r.Chance(1, 3) {
			g.I = int64(r.U64())
		}
	case "int8":
		g.I = int64(int8(r.U64()))
	case "int16":
		g.I = int64(int16(r.U64()))
	case "int32":
		g.I = int64(int32(r.U64()))
		if r.Bool() {
			g.I = int64(int32(core.Pick(r, i64s)))
		}
	case "uint", "uint64", "uintptr":
		g.U = core.Pick(r, u64s)
		if r.Chance(1, 3) {
			g.U = r.U64()
		}
	case "uint8":
		g.U = uint64(uint8(r.U64()))
	case "uint16":
		g.U = uint64(uint16(r.U64()))
	case "uint32":
		g.U = uint64(uint32(r.U64()))
		if r.Bool() {
			g.U = uint64(uint32(core.Pick(r, u64s)))
		}
	case "float32":
		fs := []float32{0, float32(math.Copysign(0, -1)), 1, -1, 0.5, 16777216, 16777218, math.MaxFloat32, math.SmallestNonzeroFloat32, float32(math.Inf(1)), float32(math.Inf(-1)), float32(math.NaN()), 1e10, 3.5, 2147483648, 4294967296, 0.1}
		g.F = uint64(math.Float32bits(core.Pick(r, fs)))
		if r.Chance(1, 3) {
			g.F = uint64(uint32(r.U64()))
		}
	default:
		fs := []float64{0, math.Copysign(0, -1), 1, -1, 0.5, 1 << 53, 1<<53 + 2, -(1 << 53), 1 << 31, 1 << 32, 1e21, -1e21, math.MaxFloat64, 5e-324, math.Inf(1), math.Inf(-1), math.NaN(), 1 << 63, 1 << 64, 6, 4294967295, 2147483647, -2147483648, 9007199254740991, 0.1, 2.5}
		g.F = math.Float64bits(core.Pick(r, fs))
		if r.Chance(1, 4) {
			g.F = r.U64()
		}
	}
	return &node{Op: "go", Go: g}
}

// ---- trees -------------------------------------------------------------------------------------------------------------

type gen struct {
	r    *core.Rng
	excl func(n *node) bool // domain exclusions of listed findings
}

// operand returns a subtree usable as an operand of a coercing operator: a Number tree, or (allowStr) a string leaf, or
// (allowWrap) an object wrapper around a Number tree.
func (g *gen) operand(depth int, allowStr, allowWrap bool) *node {
	r := g.r
	if allowStr && r.Chance(1, 7) {
		return genStr(r)
	}
	if allowWrap && depth >= 2 && r.Chance(1, 12) {
		return &node{Op: "wrap", A: r.Intn(4), Kids: []*node{g.tree(depth - 1)}}
	}
	return g.tree(depth)
}

var binOps = []string{"+", "-", "*", "/", "%", "**", "&", "|", "^", "<<", ">>", ">>>"}
var mathOps = []string{"abs", "ceil", "floor", "round", "trunc", "sign", "fround", "sqrt", "max", "min", "imul", "clz32", "hypot", "pow"}
var dateOps = []string{"getTime", "valueOf", "plus", "setTime", "UTC", "getUTCFullYear", "getUTCMonth", "getUTCDate", "getUTCDay", "getUTCHours", "getUTCMinutes", "getUTCSeconds", "getUTCMilliseconds"}

func jsonText(r *core.Rng) string {
	// JSON number grammar: -? (0 | [1-9][0-9]*) (. [0-9]+)? ([eE] [+-]? [0-9]+)?
	var b strings.Builder
	if r.Chance(1, 3) {
		b.WriteByte('-')
	}
	switch r.Intn(4) {
	case 0:
		b.WriteByte('0')
	case 1:
		b.WriteString(core.Pick(r, []string{"1", "2147483648", "4294967296", "9007199254740992", "9007199254740993", "9007199254740995", "123456789012345678901234567890", "18446744073709551616"}))
	default:
		fmt.Fprint(&b, 1+r.Intn(999))
	}
	if r.Chance(1, 3) {
		b.WriteString(core.Pick(r, []string{".0", ".5", ".25", ".000", ".1", ".49999999999999994"}))
	}
	if r.Chance(1, 4) {
		b.WriteString(core.Pick(r, []string{"e0", "E1", "e+2", "e-1", "e21", "e-7", "e300", "e-330"}))
	}
	return b.String()
}

// tree generates a Number-valued tree of at most the given depth that the oracle can evaluate exactly.
func (g *gen) tree(depth int) *node {
	for attempt := 0; attempt < 12; attempt++ {
		n := g.tryTree(depth)
		if n == nil {
			continue
		}
		if _, ok := n.eval(); !ok {
			continue
		}
		if n.depth() > depth && n.depth() > 1 {
			continue
		}
		if g.excl != nil && g.excl(n) {
			continue
		}
		return n
	}
	return genNumLit(g.r)
}

func (g *gen) leaf() *node {
	r := g.r
	switch r.PickW([]int{50, 18, 10, 10}) {
	case 0:
		return genNumLit(r)
	case 1:
		return genGo(r)
	case 2:
		return &node{Op: "json", Lit: jsonText(r)}
	default:
		return g.lenLeaf()
	}
}

func (g *gen) lenLeaf() *node {
	r := g.r
	k := core.Pick(r, lenKinds)
	a := r.Range(0, 12)
	switch k {
	case "string.indexOf", "array.indexOf", "findIndex", "lastIndexOf", "string.search":
		a = r.Range(-1, 12)
	case "array.push", "localeCompare-free:unshift":
		a = r.Range(1, 12)
	case "charCodeAt":
		a = core.Pick(r, []int{0, 1, 65, 127, 128, 255, 256, 0xd800, 0xffff, r.Intn(65536)})
	case "codePointAt":
		a = core.Pick(r, []int{0, 65, 0xffff, 0x10000, 0x10ffff, 0x1f600})
	case "new Array(n).length", "byteLength", "typedarray.length":
		a = core.Pick(r, []int{0, 1, 2, 255, 256, 1000, 65535, 65536, r.Intn(5000)})
	case "arguments.length", "function.length":
		a = r.Range(0, 8)
	}
	return &node{Op: "len", Lit: k, A: a}
}

func (g *gen) tryTree(depth int) *node {
	r := g.r
	if depth <= 1 {
		return g.leaf()
	}
	d := depth - 1
	switch r.PickW([]int{8, 10, 22, 12, 12, 12, 8, 8, 5, 3}) {
	case 0:
		return g.leaf()
	case 1: // unary
		return &node{Op: "un", Lit: core.Pick(r, []string{"neg", "neg", "pos", "bitnot"}), Kids: []*node{g.operand(d, true, true)}}
	case 2: // binary
		op := core.Pick(r, binOps)
		str := op != "+"
		wrap := op != "+" // `+` with an object operand is ToPrimitive(default) \u2014 fine for valueOf wrappers, but keep + purely numeric
		a, b := g.operand(d, str, wrap), g.operand(d, str, wrap)
		if op == "**" {
			// aim at exact cases
			if r.Chance(2, 3) {
				b = &node{Op: "lit", Lit: fmt.Sprint(r.Intn(6))}
				if r.Chance(1, 3) {
					b = &node{Op: "un", Lit: "neg", Kids: []*node{b}}
				}
			}
		}
		return &node{Op: "bin", Lit: op, Kids: []*node{a, b}}
	case 3: // update
		return &node{Op: "upd", Lit: core.Pick(r, []string{"++", "--"}), A: r.Intn(4), B: r.Intn(len(storages)), Kids: []*node{g.operand(d, true, true)}}
	case 4: // compound assignment
		op := core.Pick(r, binOps)
		str := op != "+"
		return &node{Op: "cmp", Lit: op, A: r.Intn(2), B: r.Intn(len(storages)), Kids: []*node{g.operand(d, str, str), g.operand(d, str, str)}}
	case 5: // Math
		op := core.Pick(r, mathOps)
		n := &node{Op: "math", Lit: op}
		switch op {
		case "max", "min":
			for i, k := 0, r.Range(1, 3); i < k; i++ {
				n.Kids = append(n.Kids, g.operand(d, true, true))
			}
		case "imul":
			n.Kids = []*node{g.operand(d, true, true), g.operand(d, true, true)}
		case "pow":
			n.Kids = []*node{g.operand(d, true, false), &node{Op: "lit", Lit: fmt.Sprint(r.Intn(5))}}
			if r.Chance(1, 3) {
				n.Kids[1] = g.operand(d, false, false)
			}
		case "hypot":
			if d < 2 {
				return nil
			}
			t := core.Pick(r, [][2]int{{3, 4}, {5, 12}, {8, 15}, {0, 7}, {20, 21}, {0, 0}})
			sc := core.Pick(r, []string{"1", "2", "0.5", "1024", "1e3"})
			mk := func(v int) *node {
				return &node{Op: "bin", Lit: "*", Kids: []*node{{Op: "lit", Lit: fmt.Sprint(v)}, {Op: "lit", Lit: sc}}}
			}
			n.Kids = []*node{mk(t[0]), mk(t[1])}
			if r.Chance(1, 4) {
				n.Kids[r.Intn(2)] = genNumLit(r)
			}
		case "sqrt":
			// squares of exact values
			b := g.operand(d-1, false, false)
			n.Kids = []*node{{Op: "bin", Lit: "*", Kids: []*node{b, b.clone()}}}
			if d < 2 {
				n.Kids = []*node{{Op: "lit", Lit: core.Pick(r, []string{"0", "1", "4", "9", "16", "2.25", "0.25", "1e300", "4e-324", "18014398509481984"})}}
			}
			if r.Chance(1, 4) {
				n.Kids = []*node{g.operand(d, true, false)}
			}
		default:
			n.Kids = []*node{g.operand(d, true, true)}
		}
		return n
	case 6: // conversions
		c := core.Pick(r, []string{"Number", "Number", "parseFloat", "Number.parseFloat", "parseInt", "Number.parseInt"})
		n := &node{Op: "conv", Lit: c, A: -1}
		if c == "Number" {
			n.Kids = []*node{g.operand(d, true, true)}
		} else {
			n.Kids = []*node{g.operand(d, true, false)}
			if r.Chance(1, 2) {
				n.Kids = []*node{genStr(r)}
			}
			if strings.HasSuffix(c, "parseInt") && r.Bool() {
				n.A = core.Pick(r, []int{0, 2, 8, 10, 16, 36, r.Range(2, 36)})
			}
		}
		return n
	case 7: // typed array / DataView round trip
		t := r.Intn(len(elemTypes))
		num := t >= 9
		kid := g.operand(d, !num, !num)
		if num {
			// BigInt() needs an integral Number: steer towards integers
			if r.Chance(2, 3) {
				kid = &node{Op: "math", Lit: "trunc", Kids: []*node{g.operand(d-1, false, false)}}
			}
		}
		if r.Bool() {
			return &node{Op: "ta", A: t, B: r.Intn(6), Kids: []*node{kid}}
		}
		if elemTypes[t] == "Uint8Clamped" {
			t = 1
		}
		return &node{Op: "dv", A: t, B: r.Intn(8), Kids: []*node{kid}}
	case 8: // Date
		op := core.Pick(r, dateOps)
		if op == "UTC" {
			n := &node{Op: "date", Lit: "UTC"}
			lim := [][2]int{{-2000, 4000}, {-20, 30}, {-40, 400}, {-30, 60}, {-70, 130}, {-70, 130}, {-2000, 3000}}
			k := r.Range(1, 7)
			for i := 0; i < k; i++ {
				v := r.Range(lim[i][0], lim[i][1])
				if i == 0 && r.Chance(1, 4) {
					v = core.Pick(r, []int{0, 99, 100, 1970, -1, 275760, -271821, 275761})
				}
				var kid *node = &node{Op: "lit", Lit: fmt.Sprint(abs(v))}
				if v < 0 {
					kid = &node{Op: "un", Lit: "neg", Kids: []*node{kid}}
				}
				n.Kids = append(n.Kids, kid)
			}
			return n
		}
		kid := g.operand(d, false, false)
		if r.Chance(1, 2) {
			ts := []string{"0", "1", "86400000", "8640000000000000", "8640000000000001", "1709294400123", "951782400000", "1.5", "0.9", "253402300799999", "62167219200000", "1e21"}
			kid = &node{Op: "lit", Lit: core.Pick(r, ts)}
			if r.Chance(1, 3) {
				kid = &node{Op: "un", Lit: "neg", Kids: []*node{kid}}
			}
		}
		return &node{Op: "date", Lit: op, Kids: []*node{kid}}
	default:
		return g.lenLeaf()
	}
}

func abs(v int) int {
	if v < 0 {
		return -v
	}
	return v
}

// ---- reference producers ("twins") of a value -----------------------------------------------------------------------------

// refs returns independent direct producers of the double v: a string conversion, a Go float64 through ToValue, a source
// literal (behind a unary minus when negative), JSON.parse, and a Float64Array load.
func refs(v float64) []*node {
	var out []*node
	s := numref.ToString(v)
	if numref.IsNegZero(v) {
		s = "-0"
	}
	out = append(out, &node{Op: "conv", Lit: "Number", A: -1, Kids: []*node{{Op: "str", Lit: s}}})
	out = append(out, &node{Op: "go", Go: &goLeaf{Kind: "float64", F: math.Float64bits(v)}})
	switch {
	case numref.IsNaN(v):
		out = append(out, &node{Op: "const", Lit: "NaN"})
	case numref.IsInf(v):
		c := &node{Op: "const", Lit: "Infinity"}
		if numref.Signbit(v) {
			c = &node{Op: "un", Lit: "neg", Kids: []*node{c}}
		}
		out = append(out, c)
	default:
		abs := strings.TrimPrefix(s, "-")
		c := &node{Op: "lit", Lit: abs}
		if numref.Signbit(v) {
			c = &node{Op: "un", Lit: "neg", Kids: []*node{c}}
		}
		out = append(out, c)
		out = append(out, &node{Op: "json", Lit: strings.Replace(s, "e+", "e", 1)})
	}
	out = append(out, &node{Op: "ta", A: 8, B: 0, Kids: []*node{{Op: "go", Go: &goLeaf{Kind: "float64", F: math.Float64bits(v)}}}})
	return out
}
