package c05

import (
	"fmt"
	"math"
	"reflect"
	"strings"

	"github.com/dop251/goja"

	"verif/harness/numref"
)

// The observables battery. B(a,b) returns one observation per entry of pairObs; U(a) one per entry of unaryObs.
// Expected values are computed from the oracle doubles only (SameValue / SameValueZero / === / ToString / JSON text).
const preludeJS = `
var G = [];
function B(a, b) {
  var o = [];
  o.push(Object.is(a, b));                                   // 0 SameValue
  o.push(Object.is(b, a));                                   // 1
  o.push(a === b);                                           // 2 strict
  o.push(b === a);                                           // 3
  o.push(a == b);                                            // 4
  o.push(!(a !== b));                                        // 5
  o.push(!(a != b));                                         // 6
  var sw; switch (a) { case b: sw = true; break; default: sw = false }
  o.push(sw);                                                // 7 switch
  switch (b) { case a: sw = true; break; default: sw = false }
  o.push(sw);                                                // 8
  var m = new Map([[a, 1]]);
  o.push(m.get(b) === 1);                                    // 9 SameValueZero
  o.push(m.has(b));                                          // 10
  m.set(b, 2);
  o.push(m.size === 1);                                      // 11
  var s = new Set([a]);
  o.push(s.has(b));                                          // 12
  s.add(b);
  o.push(s.size === 1);                                      // 13
  o.push(m.delete(a) && m.size === 0);                       // 14
  o.push([a].includes(b));                                   // 15 SVZ
  o.push([b].includes(a));                                   // 16
  o.push([a].indexOf(b) === 0);                              // 17 strict
  o.push([a].lastIndexOf(b) === 0);                          // 18
  o.push([0.5, a].indexOf(b, 1) === 1);                      // 19
  var k = {}; k[a] = 1;
  o.push(k[b] === 1);                                        // 20 property key = ToString equality
  o.push(({[a]: 1})[b] === 1);                               // 21
  o.push(Object.keys(k)[0] === String(b));                   // 22
  o.push(k.hasOwnProperty(b));                               // 23
  o.push(String(a) === String(b));                           // 24
  o.push(` + "`${a}` === `${b}`" + `);                                // 25
  o.push((a + "") === (b + ""));                             // 26
  o.push(a.toString() === b.toString());                     // 27
  o.push(JSON.stringify(a) === JSON.stringify(b));           // 28 JSON text equality
  o.push(JSON.stringify([a]) === JSON.stringify([b]));       // 29
  o.push(JSON.stringify({v: a}) === JSON.stringify({v: b})); // 30
  var f = new Float64Array([a, b]), u = new Uint8Array(f.buffer), same = true;
  for (var i = 0; i < 8; i++) if (u[i] !== u[i + 8]) same = false;
  o.push(same || (a !== a && b !== b));                      // 31 SameValue through stored bytes (NaN payloads may differ)
  var t = new Int32Array(new Float64Array([a]).buffer), t2 = new Int32Array(new Float64Array([b]).buffer);
  o.push((t[0] === t2[0] && t[1] === t2[1]) || (a !== a && b !== b)); // 32
  o.push(new Set([a, b]).size === 1);                        // 33 SVZ
  o.push(new Map([[a, 1], [b, 2]]).size === 1);              // 34
  o.push([a, b].indexOf(b) === 0);                           // 35 strict
  o.push([b, a].findIndex(function (x) { return Object.is(x, a) }) === 0); // 36 SameValue
  o.push(Object.is(a, b) === Object.is(b, a));               // 37 symmetry (expected true always)
  o.push((a < b) === false && (a > b) === false || a !== a || b !== b ? (a === b || a !== a || b !== b) : false); // 38 unordered iff strictly equal (or NaN)
  o.push(new WeakMap && [a].concat([])[0] === b);            // 39 strict via a copied element
  var r = "";
  for (var j = 0; j < o.length; j++) r += o[j] === true ? "1" : o[j] === false ? "0" : "?";
  return r;
}
function U(a) {
  var f = new Float64Array([a]), u = new Uint8Array(f.buffer), hex = "";
  for (var i = 7; i >= 0; i--) hex += (u[i] < 16 ? "0" : "") + u[i].toString(16);
  var o = [
    typeof a,
    String(a),
    ` + "`${a}`" + `,
    a + "",
    a.toString(),
    JSON.stringify(a),
    Object.keys({[a]: 1})[0],
    a !== a ? "nan" : hex,
    Object.is(a, 0), Object.is(a, -0), 1 / a === -Infinity, 1 / a === Infinity,
    Number.isInteger(a), Number.isSafeInteger(a), Number.isFinite(a), Number.isNaN(a), isNaN(a), isFinite(a),
    a | 0, a >>> 0, ~~a, a >> 0, a << 0,
    [10, 20, 30][a], "xyz"[a], "xyz".charAt(a), [10, 20, 30].at(a),
    Object.is(a, +a), Object.is(a, Number(a)), Object.is(a, a * 1), Object.is(a, a / 1), Object.is(-a, 0 - a) || a === 0,
    a === a, a == a, a <= a, Math.sign(a), Math.trunc(a), Object.is(Math.abs(a), a < 0 ? 0 - a : (a === 0 ? 0 : a)),
    new Number(a).valueOf() === a || a !== a, Object(a) == a || a !== a,
    a.toFixed(2), a.toPrecision(3), a.toExponential(1), a.toString(2).length > 0, a.toString(16),
    new Int8Array([a])[0], new Uint8Array([a])[0], new Uint8ClampedArray([a])[0], new Int16Array([a])[0], new Uint16Array([a])[0], new Int32Array([a])[0], new Uint32Array([a])[0], new Float32Array([a])[0],
    String(new Map([[a, "v"]]).keys().next().value), String([a][0]), [a].join(), String([a]),
    a % 1 === 0, a - a, a * 0, Math.max(a, a), Math.min(a), a + 0, Math.round(a), Math.floor(a), Math.ceil(a)
  ];
  return o.map(function (x) { return typeof x === "number" ? (Object.is(x, -0) ? "-0" : String(x)) : String(x) }).join("|");
}
`

const nPairObs = 40

var pairObsNames = []string{
	"Object.is(a,b)", "Object.is(b,a)", "a===b", "b===a", "a==b", "!(a!==b)", "!(a!=b)", "switch(a){case b}", "switch(b){case a}",
	"Map.get", "Map.has", "Map.set-same-key", "Set.has", "Set.add-same-key", "Map.delete", "[a].includes(b)", "[b].includes(a)", "[a].indexOf(b)", "[a].lastIndexOf(b)", "indexOf(b,1)",
	"k[a]=1;k[b]", "({[a]:1})[b]", "Object.keys", "hasOwnProperty(b)", "String()", "template", "a+''", "toString()", "JSON.stringify", "JSON.stringify([a])", "JSON.stringify({v:a})",
	"Float64Array bytes", "Int32 view of Float64", "new Set([a,b]).size", "new Map([[a],[b]]).size", "[a,b].indexOf(b)", "findIndex(Object.is)", "Object.is symmetry", "relational consistency", "concat copy ===",
}

func jsonText1(v float64) string {
	if !numref.IsFinite(v) {
		return "null"
	}
	return numref.ToString(v)
}

// expectedPair computes the expected B(a,b) string from the two oracle doubles.
func expectedPair(a, b float64) string {
	sv := numref.SameValue(a, b)
	svz := numref.SameValueZero(a, b)
	se := numref.StrictEquals(a, b)
	key := numref.ToString(a) == numref.ToString(b)
	js := jsonText1(a) == jsonText1(b)
	bothNaN := numref.IsNaN(a) && numref.IsNaN(b)
	e := make([]bool, nPairObs)
	e[0], e[1] = sv, sv
	for i := 2; i <= 8; i++ {
		e[i] = se
	}
	for i := 9; i <= 13; i++ {
		e[i] = svz
	}
	e[14] = true // m.delete(a) succeeds; size 0 afterwards iff b was the same key
	if !svz {
		e[14] = false
	}
	e[15], e[16] = svz, svz
	e[17], e[18], e[19] = se, se, se
	for i := 20; i <= 27; i++ {
		e[i] = key
	}
	e[28], e[29], e[30] = js, js, js
	e[31], e[32] = sv || bothNaN, sv || bothNaN
	e[33], e[34] = svz, svz
	e[35] = se
	e[36] = true // [b,a].findIndex(x => Object.is(x,a)) === 0 iff SameValue(b,a) … else index 1
	if !sv {
		e[36] = false
	}
	e[37] = true
	// 38: if neither a<b nor a>b (or a NaN involved) then (a===b or NaN involved) else false
	less, greater := numref.Less(a, b), numref.Less(b, a)
	nanInv := numref.IsNaN(a) || numref.IsNaN(b)
	if (!less && !greater) || nanInv {
		e[38] = se || nanInv
	} else {
		e[38] = false
	}
	e[39] = se
	var sb strings.Builder
	for _, x := range e {
		if x {
			sb.WriteByte('1')
		} else {
			sb.WriteByte('0')
		}
	}
	return sb.String()
}

// expectedUnaryPrefix returns the oracle's value for the leading, fully specified fields of U(a).
func expectedUnaryPrefix(v float64) []string {
	s := numref.ToString(v)
	hex := "nan"
	if !numref.IsNaN(v) {
		hex = fmt.Sprintf("%016x", math.Float64bits(v))
	}
	bs := func(b bool) string {
		if b {
			return "true"
		}
		return "false"
	}
	num := func(f float64) string {
		if numref.IsNegZero(f) {
			return "-0"
		}
		return numref.ToString(f)
	}
	fin := numref.IsFinite(v)
	isInt := fin && numref.IsInteger(v)
	safe := isInt && math.Abs(v) <= 9007199254740991
	i32 := numref.Int64ToFloat(int64(numref.ToInt32(v)))
	idx := "undefined"
	ch := "undefined"
	chAt := ""
	if isInt && v >= 0 && v <= 2 && !numref.IsNegZero(v) || numref.IsNegZero(v) {
		// property key is ToString(a): "0","1","2" (−0 has key "0")
		i := int(numref.ToInt32(v))
		idx = []string{"10", "20", "30"}[i]
		ch = []string{"x", "y", "z"}[i]
	}
	// charAt / at use ToIntegerOrInfinity
	at := "undefined"
	if ti := numref.ToIntegerOrInfinity(v); ti.Inf == 0 {
		if ti.Int.IsInt64() {
			p := ti.Int.Int64()
			if p >= 0 && p <= 2 {
				chAt = []string{"x", "y", "z"}[p]
				at = []string{"10", "20", "30"}[p]
			} else if p < 0 && p >= -3 {
				at = []string{"10", "20", "30"}[3+p]
			}
		}
	}
	out := []string{
		"number", s, s, s, s, jsonText1(v), s, hex,
		bs(numref.SameValue(v, 0)), bs(numref.IsNegZero(v)), bs(numref.SameValue(numref.Div(1, v), numref.Inf(true))), bs(numref.SameValue(numref.Div(1, v), numref.Inf(false))),
		bs(isInt), bs(safe), bs(fin), bs(numref.IsNaN(v)), bs(numref.IsNaN(v)), bs(fin),
		num(i32), num(numref.Int64ToFloat(int64(numref.ToUint32(v)))), num(i32), num(i32), num(i32),
		idx, ch, chAt, at,
		"true", "true", "true", "true", "true",
		bs(!numref.IsNaN(v)), bs(!numref.IsNaN(v)), bs(!numref.IsNaN(v)), num(numref.Sign(v)), num(numref.Trunc(v)), "true",
		"true", "true",
	}
	fx, _ := numref.ToFixed(v, 2)
	pr, _ := numref.ToPrecision(v, 3)
	ex, _ := numref.ToExponential(v, 1)
	out = append(out, fx, pr, ex, "true")
	return out
}

// ---- Go-side observables -----------------------------------------------------------------------------------------------

type goObs struct {
	repr      string
	canonical bool
	export    string // type:value
	expType   string
	toFloat   uint64
	toInt     int64
	str       string
	isNaN     bool
}

func observeGo(v goja.Value) goObs {
	o := goObs{repr: goja.VerifRepr(v), canonical: goja.VerifNumberCanonical(v)}
	ex := v.Export()
	switch x := ex.(type) {
	case int64:
		o.export = fmt.Sprintf("int64:%d", x)
	case float64:
		if x != x {
			o.export = "float64:NaN"
		} else {
			o.export = fmt.Sprintf("float64:%016x", math.Float64bits(x))
		}
	default:
		o.export = fmt.Sprintf("%T:%v", ex, ex)
	}
	if t := v.ExportType(); t != nil {
		o.expType = t.String()
	}
	if ex != nil && reflect.TypeOf(ex).String() != o.expType {
		o.expType += "!=" + reflect.TypeOf(ex).String()
	}
	f := v.ToFloat()
	o.isNaN = f != f
	if !o.isNaN {
		o.toFloat = math.Float64bits(f)
	}
	o.toInt = v.ToInteger()
	o.str = v.String()
	return o
}

// exportedValueMatches: the exported Go value must denote exactly the oracle double.
func exportMatches(export string, v float64) bool {
	switch {
	case strings.HasPrefix(export, "int64:"):
		var i int64
		fmt.Sscanf(export[6:], "%d", &i)
		return numref.IsFinite(v) && numref.IsInteger(v) && !numref.IsNegZero(v) && numref.SameValue(numref.Int64ToFloat(i), v) && (i < 1<<53+1 && i > -(1<<53+1))
	case export == "float64:NaN":
		return numref.IsNaN(v)
	case strings.HasPrefix(export, "float64:"):
		var u uint64
		fmt.Sscanf(export[8:], "%x", &u)
		return !numref.IsNaN(v) && u == math.Float64bits(v)
	}
	return false
}
