package c05

import (
	"fmt"
	"math"
	"math/big"
	"strings"

	"verif/harness/numref"
)

// node is one expression tree node. Every node evaluates to a Number (leaves of kind "str" / "wrap" appear only as
// operands of coercing operators). The oracle (eval) is exact: a tree it cannot evaluate exactly is not generated.
type node struct {
	Op   string  `json:"op"`
	Kids []*node `json:"kids,omitempty"`
	Lit  string  `json:"lit,omitempty"` // numeric literal / constant source text; string content for "str"; JSON text
	A    int     `json:"a,omitempty"`   // variant / element type / radix / count
	B    int     `json:"b,omitempty"`
	Go   *goLeaf `json:"go,omitempty"`
}

// goLeaf is a Go value pushed through Runtime.ToValue.
type goLeaf struct {
	Kind string `json:"kind"` // int, int8, … uint64, uintptr, float32, float64
	I    int64  `json:"i,omitempty"`
	U    uint64 `json:"u,omitempty"`
	F    uint64 `json:"fbits,omitempty"` // float bits
	slot int
}

func (g *goLeaf) value() any {
	switch g.Kind {
	case "int":
		return int(g.I)
	case "int8":
		return int8(g.I)
	case "int16":
		return int16(g.I)
	case "int32":
		return int32(g.I)
	case "int64":
		return g.I
	case "uint":
		return uint(g.U)
	case "uint8":
		return uint8(g.U)
	case "uint16":
		return uint16(g.U)
	case "uint32":
		return uint32(g.U)
	case "uint64":
		return g.U
	case "uintptr":
		return uintptr(g.U)
	case "float32":
		return math.Float32frombits(uint32(g.F))
	case "float64":
		return math.Float64frombits(g.F)
	}
	panic("bad go kind " + g.Kind)
}

// oracle value of a Go leaf: the Number nearest to the Go value (integers beyond 2^53 round to nearest even).
func (g *goLeaf) oracle() float64 {
	switch g.Kind {
	case "int", "int8", "int16", "int32", "int64":
		return numref.Int64ToFloat(g.I)
	case "uint", "uint8", "uint16", "uint32", "uint64", "uintptr":
		return numref.Uint64ToFloat(g.U)
	case "float32":
		f := math.Float32frombits(uint32(g.F))
		// exact widening: decompose by integer arithmetic
		b := uint32(g.F)
		e := int(b>>23) & 0xff
		m := uint64(b & (1<<23 - 1))
		neg := b>>31 != 0
		switch {
		case e == 0xff && m != 0:
			return numref.NaN()
		case e == 0xff:
			return numref.Inf(neg)
		case e == 0:
			if m == 0 {
				return numref.Zero(neg)
			}
			return numref.RoundFrac(neg, new(big.Int).SetUint64(m), new(big.Int).Lsh(big.NewInt(1), 149))
		}
		_ = f
		m |= 1 << 23
		ex := e - 150
		if ex >= 0 {
			return numref.RoundFrac(neg, new(big.Int).Lsh(new(big.Int).SetUint64(m), uint(ex)), big.NewInt(1))
		}
		return numref.RoundFrac(neg, new(big.Int).SetUint64(m), new(big.Int).Lsh(big.NewInt(1), uint(-ex)))
	case "float64":
		return math.Float64frombits(g.F)
	}
	panic("bad go kind")
}

var elemTypes = []string{"Int8", "Uint8", "Uint8Clamped", "Int16", "Uint16", "Int32", "Uint32", "Float32", "Float64", "BigInt64", "BigUint64"}
var elemSize = []int{1, 1, 1, 2, 2, 4, 4, 4, 8, 8, 8}

// storage variants of update / compound-assignment targets
var storages = []string{"local", "closure", "prop", "elem", "let-block"}

func isStrLeaf(n *node) bool  { return n.Op == "str" }
func isWrapLeaf(n *node) bool { return n.Op == "wrap" }

// family is the producer family of the root operator (non-triviality rule: pair members from different families).
func (n *node) family() string {
	switch n.Op {
	case "go":
		return "go:" + n.Go.Kind
	case "ta":
		return "ta:" + elemTypes[n.A]
	case "dv":
		return "dv:" + elemTypes[n.A]
	case "upd", "cmp":
		return n.Op + ":" + n.Lit
	case "bin", "un", "math", "conv", "date", "len":
		return n.Op + ":" + n.Lit
	}
	return n.Op
}

func jsQuote(s string) string {
	var b strings.Builder
	b.WriteByte('"')
	for _, c := range numref.Units(s) {
		if c >= 0x20 && c < 0x7f && c != '\\' && c != '"' {
			b.WriteByte(byte(c))
		} else {
			fmt.Fprintf(&b, "\\u%04x", c)
		}
	}
	b.WriteByte('"')
	return b.String()
}

// src renders the JavaScript source of the tree (fully parenthesised).
func (n *node) src() string {
	k := func(i int) string { return n.Kids[i].src() }
	switch n.Op {
	case "lit", "const":
		return n.Lit
	case "str":
		return jsQuote(n.Lit)
	case "go":
		return fmt.Sprintf("G[%d]", n.Go.slot)
	case "wrap":
		switch n.A {
		case 0:
			return "({valueOf(){ return " + k(0) + " }})"
		case 1:
			return "new Number(" + k(0) + ")"
		case 2:
			return "Object(" + k(0) + ")"
		default:
			return "({[Symbol.toPrimitive](){ return " + k(0) + " }})"
		}
	case "un":
		switch n.Lit {
		case "neg":
			return "(-(" + k(0) + "))"
		case "pos":
			return "(+(" + k(0) + "))"
		default:
			return "(~(" + k(0) + "))"
		}
	case "bin":
		return "((" + k(0) + ") " + n.Lit + " (" + k(1) + "))"
	case "upd":
		// Lit: "++" | "--"; A: 0 new value of the variable after postfix, 1 value of the postfix expression, 2 value of the prefix expression, 3 variable after prefix; B: storage
		op := n.Lit
		var body string
		tgt := storageTarget(n.B)
		switch n.A {
		case 0:
			body = tgt + op + "; return " + tgt
		case 1:
			body = "return " + tgt + op
		case 2:
			body = "return " + op + tgt
		default:
			body = op + tgt + "; return " + tgt
		}
		return storageWrap(n.B, k(0), body)
	case "cmp":
		// Lit: operator without '='; A: 0 variable afterwards, 1 value of the assignment expression; B: storage
		tgt := storageTarget(n.B)
		asg := tgt + " " + n.Lit + "= (" + k(1) + ")"
		body := asg + "; return " + tgt
		if n.A == 1 {
			body = "return (" + asg + ")"
		}
		return storageWrap(n.B, k(0), body)
	case "math":
		args := make([]string, len(n.Kids))
		for i := range n.Kids {
			args[i] = k(i)
		}
		return "Math." + n.Lit + "(" + strings.Join(args, ", ") + ")"
	case "conv":
		switch n.Lit {
		case "Number":
			return "Number(" + k(0) + ")"
		case "parseFloat":
			return "parseFloat(" + k(0) + ")"
		case "Number.parseFloat":
			return "Number.parseFloat(" + k(0) + ")"
		case "parseInt":
			if n.A == -1 {
				return "parseInt(" + k(0) + ")"
			}
			return fmt.Sprintf("parseInt(%s, %d)", k(0), n.A)
		case "Number.parseInt":
			if n.A == -1 {
				return "Number.parseInt(" + k(0) + ")"
			}
			return fmt.Sprintf("Number.parseInt(%s, %d)", k(0), n.A)
		}
	case "ta":
		T := elemTypes[n.A] + "Array"
		v := k(0)
		if n.A >= 9 {
			v = "BigInt(" + v + ")"
		}
		var e string
		switch n.B {
		case 0:
			e = "new " + T + "([" + v + "])[0]"
		case 1:
			e = "(function(t){ t[1] = " + v + "; return t[1] })(new " + T + "(3))"
		case 2:
			e = "new " + T + "(2).fill(" + v + ")[1]"
		case 3:
			e = T + ".of(" + v + ")[0]"
		case 4:
			e = "(function(t){ t.set([" + v + "], 1); return t[1] })(new " + T + "(2))"
		default:
			e = "new " + T + "(new " + T + "([" + v + "]).buffer.slice(0))[0]"
		}
		if n.A >= 9 {
			e = "Number(" + e + ")"
		}
		return e
	case "dv":
		T := elemTypes[n.A]
		v := k(0)
		if n.A >= 9 {
			v = "BigInt(" + v + ")"
		}
		le := "false"
		if n.B&1 == 1 {
			le = "true"
		}
		off := (n.B >> 1) & 3
		e := fmt.Sprintf("(function(d){ d.set%s(%d, %s, %s); return d.get%s(%d, %s) })(new DataView(new ArrayBuffer(16)))", T, off, v, le, T, off, le)
		if n.A >= 9 {
			e = "Number(" + e + ")"
		}
		return e
	case "json":
		return "JSON.parse(" + jsQuote(n.Lit) + ")"
	case "len":
		return n.lenSrc()
	case "date":
		switch n.Lit {
		case "getTime":
			return "new Date(" + k(0) + ").getTime()"
		case "valueOf":
			return "new Date(" + k(0) + ").valueOf()"
		case "plus":
			return "(+new Date(" + k(0) + "))"
		case "setTime":
			return "new Date(0).setTime(" + k(0) + ")"
		case "UTC":
			args := make([]string, len(n.Kids))
			for i := range n.Kids {
				args[i] = k(i)
			}
			return "Date.UTC(" + strings.Join(args, ", ") + ")"
		default: // UTC getters
			return "new Date(" + k(0) + ")." + n.Lit + "()"
		}
	}
	panic("src: unknown op " + n.Op + "/" + n.Lit)
}

func storageTarget(st int) string {
	switch storages[st] {
	case "prop":
		return "o.p"
	case "elem":
		return "o[0]"
	}
	return "x"
}

func storageWrap(st int, init, body string) string {
	switch storages[st] {
	case "local":
		return "(function(x){ " + body + " })(" + init + ")"
	case "closure":
		return "(function(x){ var f = function(){ return x }; f(); " + body + " })(" + init + ")"
	case "prop":
		return "(function(o){ " + body + " })({p: " + init + "})"
	case "elem":
		return "(function(o){ " + body + " })([" + init + "])"
	default:
		return "(function(){ { let x = " + init + "; " + body + " } })()"
	}
}

// ---- small-integer producers ------------------------------------------------------------------------------------------

var lenKinds = []string{"array.length", "string.length", "string.indexOf", "array.indexOf", "array.push", "new Array(n).length", "charCodeAt", "arguments.length", "function.length", "map.size", "byteLength", "findIndex", "lastIndexOf", "string.search", "typedarray.length", "codePointAt", "localeCompare-free:unshift"}

func (n *node) lenSrc() string {
	a := n.A // the resulting integer (>= -1)
	switch n.Lit {
	case "array.length":
		return "[" + strings.Repeat("0,", a) + "].length"
	case "string.length":
		return jsQuote(strings.Repeat("x", a)) + ".length"
	case "string.indexOf":
		if a < 0 {
			return `"abc".indexOf("z")`
		}
		return jsQuote(strings.Repeat("a", a)+"b") + `.indexOf("b")`
	case "array.indexOf":
		if a < 0 {
			return "[1,2,3].indexOf(9)"
		}
		return "[" + strings.Repeat("0,", a) + "7].indexOf(7)"
	case "array.push":
		return "[" + strings.Repeat("0,", a-1) + "].push(1)"
	case "new Array(n).length":
		return fmt.Sprintf("new Array(%d).length", a)
	case "charCodeAt":
		return fmt.Sprintf("String.fromCharCode(%d).charCodeAt(0)", a)
	case "arguments.length":
		return "(function(){ return arguments.length })(" + strings.TrimSuffix(strings.Repeat("0,", a), ",") + ")"
	case "function.length":
		ps := make([]string, a)
		for i := range ps {
			ps[i] = fmt.Sprintf("p%d", i)
		}
		return "(function(" + strings.Join(ps, ",") + "){}).length"
	case "map.size":
		var b strings.Builder
		b.WriteString("new Set([")
		for i := 0; i < a; i++ {
			fmt.Fprintf(&b, "%d,", i)
		}
		b.WriteString("]).size")
		return b.String()
	case "byteLength":
		return fmt.Sprintf("new ArrayBuffer(%d).byteLength", a)
	case "findIndex":
		if a < 0 {
			return "[1,2,3].findIndex(function(v){ return v === 9 })"
		}
		return "[" + strings.Repeat("0,", a) + "7].findIndex(function(v){ return v === 7 })"
	case "lastIndexOf":
		if a < 0 {
			return `"abc".lastIndexOf("z")`
		}
		return jsQuote(strings.Repeat("a", a)+"b") + `.lastIndexOf("b")`
	case "string.search":
		if a < 0 {
			return `"abc".search(/z/)`
		}
		return jsQuote(strings.Repeat("a", a)+"b") + `.search(/b/)`
	case "typedarray.length":
		return fmt.Sprintf("new Uint16Array(%d).length", a)
	case "codePointAt":
		return fmt.Sprintf("String.fromCodePoint(%d).codePointAt(0)", a)
	default:
		return "[" + strings.Repeat("0,", a-1) + "].unshift(1)"
	}
}

// ---- exact evaluation ---------------------------------------------------------------------------------------------------

// toNumeric evaluates an operand: numbers as is, string leaves through StringToNumber, wrappers through their content.
func (n *node) evalOperand() (float64, bool) {
	switch n.Op {
	case "str":
		return numref.StringToNumber(numref.Units(n.Lit)), true
	case "wrap":
		return n.Kids[0].evalOperand()
	}
	return n.eval()
}

// toStringOperand: ToString of the operand as UTF-16 units (for parseInt / parseFloat).
func (n *node) stringOperand() ([]uint16, bool) {
	switch n.Op {
	case "str":
		return numref.Units(n.Lit), true
	case "wrap":
		// ToString(object) uses hint string: {valueOf} objects would use Object.prototype.toString — not generated under parse*
		return nil, false
	}
	f, ok := n.eval()
	if !ok {
		return nil, false
	}
	return numref.Units(numref.ToString(f)), true
}

func convElem(t int, f float64) (float64, bool) {
	switch elemTypes[t] {
	case "Int8":
		return numref.Int64ToFloat(int64(numref.ToInt8(f))), true
	case "Uint8":
		return numref.Int64ToFloat(int64(numref.ToUint8(f))), true
	case "Uint8Clamped":
		return numref.Int64ToFloat(int64(numref.ToUint8Clamp(f))), true
	case "Int16":
		return numref.Int64ToFloat(int64(numref.ToInt16(f))), true
	case "Uint16":
		return numref.Int64ToFloat(int64(numref.ToUint16(f))), true
	case "Int32":
		return numref.Int64ToFloat(int64(numref.ToInt32(f))), true
	case "Uint32":
		return numref.Int64ToFloat(int64(numref.ToUint32(f))), true
	case "Float32":
		r := numref.RoundFloat32(f)
		if r2 := numref.Float32_2(f); !numref.SameValue(r, r2) {
			return 0, false
		}
		return r, true
	case "Float64":
		return f, true
	case "BigInt64":
		if !numref.IsInteger(f) {
			return 0, false // BigInt(non-integer) throws RangeError: not generated
		}
		return numref.Int64ToFloat(numref.ToBigInt64(numref.TruncInt(f))), true
	case "BigUint64":
		if !numref.IsInteger(f) {
			return 0, false
		}
		return numref.Uint64ToFloat(numref.ToBigUint64(numref.TruncInt(f))), true
	}
	panic("elem")
}

func agree(a, b float64) bool { return numref.SameValue(a, b) }

// eval returns the exact Number the tree evaluates to, or ok=false when the specification does not fix the result exactly
// (or the two oracle opinions differ).
func (n *node) eval() (float64, bool) {
	switch n.Op {
	case "lit":
		return numref.LiteralValue(n.Lit)
	case "const":
		switch n.Lit {
		case "NaN", "Number.NaN":
			return numref.NaN(), true
		case "Infinity", "Number.POSITIVE_INFINITY":
			return numref.Inf(false), true
		case "Number.NEGATIVE_INFINITY":
			return numref.Inf(true), true
		case "Number.MAX_SAFE_INTEGER":
			return 9007199254740991, true
		case "Number.MIN_SAFE_INTEGER":
			return -9007199254740991, true
		case "Number.MAX_VALUE":
			return math.Float64frombits(0x7fefffffffffffff), true
		case "Number.MIN_VALUE":
			return math.Float64frombits(1), true
		case "Number.EPSILON":
			return math.Float64frombits(0x3cb0000000000000), true
		}
	case "go":
		return n.Go.oracle(), true
	case "str", "wrap":
		return 0, false // not a Number-valued root
	case "un":
		a, ok := n.Kids[0].evalOperand()
		if !ok {
			return 0, false
		}
		switch n.Lit {
		case "neg":
			return numref.Neg(a), true
		case "pos":
			return a, true
		default:
			return numref.BitNot(a), true
		}
	case "bin", "cmp":
		a, ok := n.Kids[0].evalOperand()
		if !ok {
			return 0, false
		}
		b, ok := n.Kids[1].evalOperand()
		if !ok {
			return 0, false
		}
		return binop(n.Lit, a, b)
	case "upd":
		a, ok := n.Kids[0].evalOperand()
		if !ok {
			return 0, false
		}
		if n.A == 1 {
			return a, true // the postfix expression's value is ToNumeric(old value)
		}
		if n.Lit == "++" {
			return binop("+", a, 1)
		}
		return binop("-", a, 1)
	case "math":
		return n.evalMath()
	case "conv":
		switch n.Lit {
		case "Number":
			return n.Kids[0].evalOperand()
		case "parseFloat", "Number.parseFloat":
			u, ok := n.Kids[0].stringOperand()
			if !ok {
				return 0, false
			}
			return numref.ParseFloat(u), true
		default:
			u, ok := n.Kids[0].stringOperand()
			if !ok {
				return 0, false
			}
			R := int32(0)
			if n.A != -1 {
				R = int32(n.A)
			}
			res := numref.ParseInt(u, R)
			if res.Approx || !numref.SameValue(res.Alt, res.Value) {
				return 0, false // more than one allowed result: not exactly fixed
			}
			return res.Value, true
		}
	case "ta", "dv":
		a, ok := n.Kids[0].evalOperand()
		if !ok {
			return 0, false
		}
		if n.Op == "dv" && elemTypes[n.A] == "Uint8Clamped" {
			return 0, false
		}
		return convElem(n.A, a)
	case "json":
		u := numref.Units(n.Lit)
		return numref.StringToNumber(u), true // generator only emits JSON number texts (a subset of StrDecimalLiteral)
	case "len":
		return numref.Int64ToFloat(int64(n.A)), true
	case "date":
		return n.evalDate()
	}
	panic("eval: unknown op " + n.Op + "/" + n.Lit)
}

func binop(op string, a, b float64) (float64, bool) {
	switch op {
	case "+":
		r := numref.Add(a, b)
		return r, agree(r, numref.Add2(a, b))
	case "-":
		r := numref.Sub(a, b)
		return r, agree(r, float64(a-b))
	case "*":
		r := numref.Mul(a, b)
		return r, agree(r, numref.Mul2(a, b))
	case "/":
		r := numref.Div(a, b)
		return r, agree(r, numref.Div2(a, b))
	case "%":
		r := numref.Rem(a, b)
		return r, agree(r, numref.Rem2(a, b))
	case "**":
		return numref.Pow(a, b)
	case "&":
		return numref.BitAnd(a, b), true
	case "|":
		return numref.BitOr(a, b), true
	case "^":
		return numref.BitXor(a, b), true
	case "<<":
		return numref.Shl(a, b), true
	case ">>":
		return numref.Shr(a, b), true
	case ">>>":
		return numref.UShr(a, b), true
	}
	panic("binop " + op)
}

func (n *node) evalMath() (float64, bool) {
	args := make([]float64, len(n.Kids))
	for i, k := range n.Kids {
		v, ok := k.evalOperand()
		if !ok {
			return 0, false
		}
		args[i] = v
	}
	a := args[0]
	switch n.Lit {
	case "abs":
		return numref.Abs(a), true
	case "ceil":
		return numref.Ceil(a), true
	case "floor":
		return numref.Floor(a), true
	case "round":
		return numref.Round(a), true
	case "trunc":
		return numref.Trunc(a), true
	case "sign":
		return numref.Sign(a), true
	case "fround":
		r := numref.RoundFloat32(a)
		return r, agree(r, numref.Float32_2(a))
	case "sqrt":
		r, ok := numref.Sqrt(a)
		if ok && !agree(r, numref.Sqrt2(a)) {
			return 0, false
		}
		return r, ok
	case "max":
		r := a
		for _, x := range args[1:] {
			r = numref.Max(r, x)
		}
		return r, true
	case "min":
		r := a
		for _, x := range args[1:] {
			r = numref.Min(r, x)
		}
		return r, true
	case "imul":
		return numref.Imul(a, args[1]), true
	case "clz32":
		return numref.Clz32(a), true
	case "hypot":
		return numref.Hypot(a, args[1])
	case "pow":
		return numref.Pow(a, args[1])
	}
	panic("math " + n.Lit)
}

// ---- dates ------------------------------------------------------------------------------------------------------------

const msPerDay = 86400000

// timeClip (ECMA-262 21.4.1.31)
func timeClip(t float64) float64 {
	if !numref.IsFinite(t) {
		return numref.NaN()
	}
	lim := new(big.Int).SetInt64(8640000000000000)
	z := numref.TruncInt(t)
	if new(big.Int).Abs(z).Cmp(lim) > 0 {
		return numref.NaN()
	}
	// |t| may exceed the limit by a fraction only: compare exactly
	fr := numref.Exact(t)
	fr.Abs(fr)
	if fr.Cmp(new(big.Rat).SetInt(lim)) > 0 {
		return numref.NaN()
	}
	return numref.RoundInt(z) // +0 for zero
}

func floorDiv(a, b int64) int64 {
	q := a / b
	if (a%b != 0) && ((a < 0) != (b < 0)) {
		q--
	}
	return q
}

// civilFromDays: proleptic Gregorian date of a day number relative to 1970-01-01 (integer algorithm).
func civilFromDays(z int64) (y int64, m, d int) {
	z += 719468
	era := floorDiv(z, 146097)
	doe := z - era*146097
	yoe := (doe - doe/1460 + doe/36524 - doe/146096) / 365
	y = yoe + era*400
	doy := doe - (365*yoe + yoe/4 - yoe/100)
	mp := (5*doy + 2) / 153
	d = int(doy-(153*mp+2)/5) + 1
	if mp < 10 {
		m = int(mp) + 3
	} else {
		m = int(mp) - 9
	}
	if m <= 2 {
		y++
	}
	return
}

func daysFromCivil(y int64, m, d int) int64 {
	if m <= 2 {
		y--
	}
	era := floorDiv(y, 400)
	yoe := y - era*400
	mm := int64(m)
	if mm > 2 {
		mm -= 3
	} else {
		mm += 9
	}
	doy := (153*mm+2)/5 + int64(d) - 1
	doe := yoe*365 + yoe/4 - yoe/100 + doy
	return era*146097 + doe - 719468
}

func (n *node) evalDate() (float64, bool) {
	if n.Lit == "UTC" {
		args := make([]int64, 7)
		args[2] = 1
		for i, k := range n.Kids {
			v, ok := k.evalOperand()
			if !ok || !numref.IsInteger(v) || math.Abs(v) > 1e6 {
				return 0, false
			}
			args[i] = numref.TruncInt(v).Int64()
		}
		y := args[0]
		if y >= 0 && y <= 99 {
			y += 1900
		}
		ym := y + floorDiv(args[1], 12)
		mn := args[1] - floorDiv(args[1], 12)*12
		if ym < -271821 || ym > 275760 {
			return 0, false
		}
		day := daysFromCivil(ym, int(mn)+1, 1) + args[2] - 1
		tm := args[3]*3600000 + args[4]*60000 + args[5]*1000 + args[6]
		total := new(big.Int).Mul(big.NewInt(day), big.NewInt(msPerDay))
		total.Add(total, big.NewInt(tm))
		return timeClip(numref.RoundInt(total)), numref.IsInteger(numref.RoundInt(total)) && total.BitLen() <= 53
	}
	a, ok := n.Kids[0].evalOperand()
	if !ok {
		return 0, false
	}
	t := timeClip(a)
	switch n.Lit {
	case "getTime", "valueOf", "plus", "setTime":
		return t, true
	}
	if numref.IsNaN(t) {
		return t, true
	}
	ms := numref.TruncInt(t).Int64()
	day := floorDiv(ms, msPerDay)
	in := ms - day*msPerDay
	y, m, d := civilFromDays(day)
	var r int64
	switch n.Lit {
	case "getUTCFullYear":
		r = y
	case "getUTCMonth":
		r = int64(m - 1)
	case "getUTCDate":
		r = int64(d)
	case "getUTCDay":
		r = ((day+4)%7 + 7) % 7
	case "getUTCHours":
		r = in / 3600000
	case "getUTCMinutes":
		r = in / 60000 % 60
	case "getUTCSeconds":
		r = in / 1000 % 60
	case "getUTCMilliseconds":
		r = in % 1000
	default:
		panic("date " + n.Lit)
	}
	return numref.Int64ToFloat(r), true
}

// size counts nodes.
func (n *node) size() int {
	s := 1
	for _, k := range n.Kids {
		s += k.size()
	}
	return s
}

// depth counts operator levels (object wrappers around an operand are not a level of their own).
func (n *node) depth() int {
	d := 0
	for _, k := range n.Kids {
		if kd := k.depth(); kd > d {
			d = kd
		}
	}
	if n.Op == "wrap" {
		return d
	}
	return d + 1
}

func (n *node) walk(f func(*node)) {
	f(n)
	for _, k := range n.Kids {
		k.walk(f)
	}
}

func (n *node) clone() *node {
	c := *n
	c.Kids = make([]*node, len(n.Kids))
	for i, k := range n.Kids {
		c.Kids[i] = k.clone()
	}
	if n.Go != nil {
		g := *n.Go
		c.Go = &g
	}
	return &c
}
