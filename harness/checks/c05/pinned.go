package c05

import (
	"math"
	"strings"

	"verif/harness/core"
)

func lit(s string) *node              { return &node{Op: "lit", Lit: s} }
func sl(s string) *node               { return &node{Op: "str", Lit: s} }
func neg(n *node) *node               { return &node{Op: "un", Lit: "neg", Kids: []*node{n}} }
func bin(op string, a, b *node) *node { return &node{Op: "bin", Lit: op, Kids: []*node{a, b}} }
func upd(op string, a, st int, k *node) *node {
	return &node{Op: "upd", Lit: op, A: a, B: st, Kids: []*node{k}}
}
func convN(name string, radix int, k *node) *node {
	return &node{Op: "conv", Lit: name, A: radix, Kids: []*node{k}}
}
func wrap(kind int, k *node) *node { return &node{Op: "wrap", A: kind, Kids: []*node{k}} }

type pinnedCase struct {
	f    string // base id of the finding this witness belongs to (battery skips of that finding do not apply to it)
	tree *node
	in   *cinput
	op   string // conversion op name (with in)
}

func numIn(f float64) *cinput { return &cinput{F: f, Bits: bitsOf(f)} }
func strIn(s string) *cinput  { return &cinput{IsStr: true, S: s} }

func bitsOf(f float64) string {
	if f != f {
		return "NaN"
	}
	const hex = "0123456789abcdef"
	b := math.Float64bits(f)
	var sb strings.Builder
	for i := 15; i >= 0; i-- {
		sb.WriteByte(hex[(b>>(uint(i)*4))&15])
	}
	return sb.String()
}

// Pinned regression witnesses (negative indices): the C05 defects seen in reconnaissance and found by this check.
var pinned = []pinnedCase{
	{f: "C05-incdec-noncanonical", tree: upd("++", 0, 0, neg(lit("0")))},          // x=-0; x++
	{f: "C05-incdec-noncanonical", tree: upd("--", 0, 0, neg(lit("0")))},          // x=-0; x--
	{f: "C05-incdec-noncanonical", tree: upd("++", 2, 0, neg(lit("0")))},          // ++x on -0
	{f: "C05-incdec-noncanonical", tree: upd("++", 0, 0, sl("-0"))},               // x="-0"; x++
	{f: "C05-incdec-noncanonical", tree: upd("++", 0, 0, wrap(0, neg(lit("0"))))}, // x={valueOf(){return -0}}; x++
	{f: "C05-neg-noncanonical", tree: neg(neg(lit("0")))},                         // -(-0)
	{f: "C05-int-2p53plus1", tree: upd("++", 0, 0, lit("9007199254740992"))},      // x=2**53; x++
	{f: "C05-int-2p53plus1", tree: upd("--", 0, 0, neg(lit("9007199254740992")))}, // x=-(2**53); x--
	{f: "C05-int-2p53plus1", tree: lit("9007199254740993")},                       // literal above 2^53
	{f: "C12-number-neg-zeros", tree: convN("Number", -1, sl("-00"))},             // Number('-00')
	{f: "C12-parseint-neg-zero", tree: convN("parseInt", -1, sl("-0"))},           // parseInt('-0')
	{f: "C12-parseint-large-imprecise", tree: convN("parseInt", -1, sl("123456789012345678901234567890"))},
	{f: "C05-toint-wrap-2p63", tree: bin("|", lit("1e21"), lit("0"))},        // 1e21|0
	{f: "C05-toint-wrap-2p63", tree: bin(">>>", neg(lit("1e21")), lit("0"))}, // -1e21>>>0
	{f: "C05-toint-wrap-2p63", in: numIn(1e21), op: "x|0"},
	{f: "C05-toint-wrap-2p63", in: numIn(-1e21), op: "x>>>0"},
	{f: "C05-toint-wrap-2p63", in: numIn(1e21), op: "new Int32Array([x])[0]"},
	{f: "C12-number-neg-zeros", in: strIn("-00"), op: "Number(x)"},
	{f: "C05-unicode-string-tofloat", in: strIn(" 1.5"), op: "-(-x)"},
	{f: "C12-number-nel-whitespace", in: strIn("\u00855"), op: "Number(x)"},
	{f: "C12-long-nondecimal-string", in: strIn("0x10000000000000000"), op: "Number(x)"},
	{f: "C12-number-prefix-sign", in: strIn("0x-1"), op: "Number(x)"},
	// found by this check
	{f: "C05-incdec-noncanonical", tree: upd("++", 0, 0, sl("5"))},                                       // x="5"; x++
	{f: "C05-unicode-string-tofloat", tree: neg(sl("\u00a01.5"))},                                        // -"\u00a01.5": NaN
	{f: "C05-unicode-string-tofloat", tree: &node{Op: "math", Lit: "abs", Kids: []*node{sl("\u00a05")}}}, // Math.abs("\u00a05"): NaN
	{f: "C05-array-includes-negzero", tree: lit("0")},                                                    // [-0].includes(0)
	{f: "C05-math-sign-returns-arg", tree: &node{Op: "math", Lit: "sign", Kids: []*node{sl("0")}}},       // Math.sign("0") returns the string
	{f: "C05-mul-negzero", tree: bin("*", neg(lit("5")), lit("0"))},                                      // -5*0 is -0
	{f: "C05-number-of-bigint", tree: &node{Op: "ta", A: 10, B: 0, Kids: []*node{neg(lit("1024"))}}},     // Number(2n**64n-1024n)
	{f: "C05-bigint64array-fill-sign", tree: &node{Op: "ta", A: 9, B: 2, Kids: []*node{neg(lit("86"))}}}, // BigInt64Array.fill(-86n)
	{f: "C05-int-2p53plus1", tree: &node{Op: "go", Go: &goLeaf{Kind: "int64", I: 9007199254740993}}},
	{f: "C05-int-2p53plus1", tree: bin("+", lit("9007199254740992"), lit("1"))},
	{f: "C05-string-tointeger-overflow", in: strIn("1e30"), op: "push.call({length:x})"},
	{f: "C05-unicode-string-tofloat", in: strIn("\u00a05"), op: "Math.abs(x)"},
	{f: "C05-math-sign-returns-arg", in: strIn("0"), op: "Math.sign(x)"},
	{f: "C12-long-nondecimal-string", in: strIn("0b1" + strings.Repeat("0", 63)), op: "Number(x)"},
}

// pinFinding is the finding of the pinned witness being run ("" for generated cases).
var pinFinding string

func runPinned(c *core.Ctx, p pinnedCase) core.Result {
	pinFinding = p.f
	defer func() { pinFinding = "" }()
	if p.tree != nil {
		return runTreeCase(c, []*node{p.tree.clone()})
	}
	return runConvCaseOp(c, []cinput{*p.in}, p.op)
}
