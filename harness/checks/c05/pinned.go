package c05

import (
	"math"
	"strings"

	"verif/harness/core"
)

func lit(s string) *node              { return &node{Op: "lit", Lit: s} }
func sl(s string) *node               { return &node{Op: "str", Lit: s} }
func neg(n *node) *node               { return &node{Op: "un", Lit: "neg", Kids: []*node{n}} }
func bin(op string, a, b *node) *node { return &node{Op: "bin", Lit: op, Kids: []*node{a, b}} }
func upd(op string, a, st int, k *node) *node {
	return &node{Op: "upd", Lit: op, A: a, B: st, Kids: []*node{k}}
}
func convN(name string, radix int, k *node) *node {
	return &node{Op: "conv", Lit: name, A: radix, Kids: []*node{k}}
}
func wrap(kind int, k *node) *node { return &node{Op: "wrap", A: kind, Kids: []*node{k}} }

type pinnedCase struct {
	tree *node
	in   *cinput
	op   string // conversion op name (with in)
}

func numIn(f float64) *cinput { return &cinput{F: f, Bits: bitsOf(f)} }
func strIn(s string) *cinput  { return &cinput{IsStr: true, S: s} }

func bitsOf(f float64) string {
	if f != f {
		return "NaN"
	}
	const hex = "0123456789abcdef"
	b := math.Float64bits(f)
	var sb strings.Builder
	for i := 15; i >= 0; i-- {
		sb.WriteByte(hex[(b>>(uint(i)*4))&15])
	}
	return sb.String()
}

// Pinned regression witnesses (negative indices): the C05 defects seen in reconnaissance and found by this check.
var pinned = []pinnedCase{
	{tree: upd("++", 0, 0, neg(lit("0")))},                // x=-0; x++
	{tree: upd("--", 0, 0, neg(lit("0")))},                // x=-0; x--
	{tree: upd("++", 2, 0, neg(lit("0")))},                // ++x on -0
	{tree: upd("++", 0, 0, sl("-0"))},                     // x="-0"; x++
	{tree: upd("++", 0, 0, wrap(0, neg(lit("0"))))},       // x={valueOf(){return -0}}; x++
	{tree: neg(neg(lit("0")))},                            // -(-0)
	{tree: upd("++", 0, 0, lit("9007199254740992"))},      // x=2**53; x++
	{tree: upd("--", 0, 0, neg(lit("9007199254740992")))}, // x=-(2**53); x--
	{tree: lit("9007199254740993")},                       // literal above 2^53
	{tree: convN("Number", -1, sl("-00"))},                // Number('-00')
	{tree: convN("parseInt", -1, sl("-0"))},               // parseInt('-0')
	{tree: convN("parseInt", -1, sl("123456789012345678901234567890"))},
	{tree: bin("|", lit("1e21"), lit("0"))},        // 1e21|0
	{tree: bin(">>>", neg(lit("1e21")), lit("0"))}, // -1e21>>>0
	{in: numIn(1e21), op: "x|0"},
	{in: numIn(-1e21), op: "x>>>0"},
	{in: numIn(1e21), op: "new Int32Array([x])[0]"},
	{in: strIn("-00"), op: "Number(x)"},
	{in: strIn(" 1.5"), op: "-(-x)"},
	{in: strIn("\u00855"), op: "Number(x)"},
	{in: strIn("0x10000000000000000"), op: "Number(x)"},
	{in: strIn("0x-1"), op: "Number(x)"},
}

func runPinned(c *core.Ctx, p pinnedCase) core.Result {
	if p.tree != nil {
		return runTreeCase(c, []*node{p.tree.clone()})
	}
	return runConvCaseOp(c, []cinput{*p.in}, p.op)
}
