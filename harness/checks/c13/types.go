package c13

import (
	"fmt"
	"math"
	"math/big"
	"reflect"
	"strings"
	"time"

	"verif/harness/core"
)

// ---------------------------------------------------------------------------------------------
// Hand-declared catalogue of named types (what reflect.StructOf & co cannot build: methods,
// embedded fields with methods, unexported fields, named maps, Stringer/error/JsonEncodable).
// No method of these types may panic for any receiver the generator can produce (a panicking host
// method is a foreign panic and by design propagates to the host — that is C14's subject, not ours).
// ---------------------------------------------------------------------------------------------

// Inner: embedded by value into Rich; has a pointer-receiver method.
type Inner struct {
	X      int
	Y      string `json:"why"`
	hidden int
}

func (i *Inner) PtrM() int {
	if i == nil {
		return -1
	}
	return i.X + 1
}

// PInner: embedded by pointer into Rich; nil-safe pointer-receiver method only.
type PInner struct {
	PX int   `json:"px"`
	PS []int `json:"ps"`
}

func (p *PInner) PGet() int {
	if p == nil {
		return -1
	}
	return p.PX
}

type unexpEmb struct {
	UE  int `json:"ue"`
	ue2 string
}

// Rich has embedded (value / pointer / unexported-type) fields, tagged, hidden and unexported fields,
// nested non-pointer compound fields (copy-on-change territory), value and pointer receiver methods.
type Rich struct {
	Inner
	unexpEmb
	Name  string `json:"name"`
	Count int32  `json:"count,omitempty"`
	Skip  int    `json:"-"`
	NoTag uint8
	Bad   int `json:"not valid"`
	priv  int
	Any   interface{}    `json:"any"`
	Sub   Inner          `json:"sub"`
	Arr   [3]int16       `json:"arr"`
	List  []Inner        `json:"list"`
	PtrTo *Inner         `json:"ptrTo"`
	M     map[string]int `json:"m"`
}

// RichP embeds a pointer: its promoted fields are reachable only while the pointer is non-nil.
type RichP struct {
	*PInner
	Title string `json:"title"`
	N     int    `json:"n"`
}

func (r *RichP) Describe() string {
	if r == nil {
		return "nil"
	}
	return r.Title
}

func (r Rich) ValueRecv() string { return "v:" + r.Name }
func (r *Rich) SetName(s string) { r.Name = s }
func (r *Rich) Incr() int32      { r.Count++; return r.Count }

// NamedMap: a map type with methods (its wrapper shows methods, not keys).
type NamedMap map[string]int

func (m NamedMap) Len() int { return len(m) }

// Str implements fmt.Stringer.
type Str struct{ A int }

func (s Str) String() string { return fmt.Sprintf("Str<%d>", s.A) }

// MyErr implements error (pointer receiver, nil-safe).
type MyErr struct{ Code int }

func (e *MyErr) Error() string {
	if e == nil {
		return "MyErr<nil>"
	}
	return fmt.Sprintf("MyErr<%d>", e.Code)
}

// JE implements goja.JsonEncodable.
type JE struct {
	A int
	B string
}

func (j JE) JsonEncodable() interface{} { return map[string]interface{}{"a": j.A, "b": j.B} }

// Named primitives.
type MyInt int
type MyI8 int8
type MyU8 uint8
type MyU64 uint64
type MyF32 float32
type MyF64 float64
type MyStr string
type MyBool bool

func (s MyStr) Upper() string { return strings.ToUpper(string(s)) }

// S is the struct of the ToValue doc comment examples.
type S struct {
	Field int
}

// Plain: method-less struct, usable as embedded field of reflect.StructOf types.
type Plain struct {
	EX int
	EY string `json:"ey"`
}

// Node: recursive type for graph exports.
type Node struct {
	Name  string           `json:"name"`
	Next  *Node            `json:"next"`
	Other *Node            `json:"other"`
	Kids  []*Node          `json:"kids"`
	M     map[string]*Node `json:"m"`
}

const pkgPath = "verif/harness/checks/c13"

// ---------------------------------------------------------------------------------------------
// Generated types
// ---------------------------------------------------------------------------------------------

// tnode describes a generated Go type.
type tnode struct {
	K      string // prim kind name | "iface" | "bigint" | "time" | "cat:<Name>" | "struct" | "ptr" | "slice" | "array" | "map" | "func"
	T      reflect.Type
	Elem   *tnode
	Key    *tnode
	Fields []*tnode // struct: field types (parallel to T.Field(i)); func: ins then outs
	NIn    int      // func
	Depth  int      // nesting depth below (0 for leaves)
}

var primTypes = map[string]reflect.Type{
	"int": reflect.TypeOf(int(0)), "int8": reflect.TypeOf(int8(0)), "int16": reflect.TypeOf(int16(0)), "int32": reflect.TypeOf(int32(0)), "int64": reflect.TypeOf(int64(0)),
	"uint": reflect.TypeOf(uint(0)), "uint8": reflect.TypeOf(uint8(0)), "uint16": reflect.TypeOf(uint16(0)), "uint32": reflect.TypeOf(uint32(0)), "uint64": reflect.TypeOf(uint64(0)),
	"float32": reflect.TypeOf(float32(0)), "float64": reflect.TypeOf(float64(0)), "string": reflect.TypeOf(""), "bool": reflect.TypeOf(false),
}
var primNames = []string{"int", "int8", "int16", "int32", "int64", "uint", "uint8", "uint16", "uint32", "uint64", "float32", "float64", "string", "bool"}
var keyNames = []string{"string", "string", "string", "int", "int8", "int16", "int32", "int64", "uint", "uint8", "uint16", "uint32", "uint64", "float32", "float64"}

var catTypes = map[string]reflect.Type{
	"Inner": reflect.TypeOf(Inner{}), "PInner": reflect.TypeOf(PInner{}), "Rich": reflect.TypeOf(Rich{}), "RichP": reflect.TypeOf(RichP{}), "NamedMap": reflect.TypeOf(NamedMap{}),
	"Str": reflect.TypeOf(Str{}), "MyErr": reflect.TypeOf(MyErr{}), "JE": reflect.TypeOf(JE{}), "S": reflect.TypeOf(S{}), "Plain": reflect.TypeOf(Plain{}),
	"MyInt": reflect.TypeOf(MyInt(0)), "MyI8": reflect.TypeOf(MyI8(0)), "MyU8": reflect.TypeOf(MyU8(0)), "MyU64": reflect.TypeOf(MyU64(0)), "MyF32": reflect.TypeOf(MyF32(0)),
	"MyF64": reflect.TypeOf(MyF64(0)), "MyStr": reflect.TypeOf(MyStr("")), "MyBool": reflect.TypeOf(MyBool(false)),
}
var catNames = []string{"Inner", "PInner", "Rich", "Rich", "RichP", "NamedMap", "Str", "MyErr", "JE", "S", "S", "Plain", "MyInt", "MyI8", "MyU8", "MyU64", "MyF32", "MyF64", "MyStr", "MyBool"}

var (
	typIface  = reflect.TypeOf((*interface{})(nil)).Elem()
	typBigInt = reflect.TypeOf((*big.Int)(nil))
	typTime   = reflect.TypeOf(time.Time{})
	typError  = reflect.TypeOf((*error)(nil)).Elem()
)

func leaf(k string, t reflect.Type) *tnode { return &tnode{K: k, T: t} }

func primNode(name string) *tnode { return leaf(name, primTypes[name]) }

func catNode(name string) *tnode {
	if name == "MyErr" && !fixedRebind() {
		// a re-bound element wrapper of a type whose error/Stringer methods have pointer receivers panics in toString
		// (known finding C13-rebind-incomplete): the type is left to the pinned witness until that is fixed
		name = "Str"
	}
	if name == "RichP" && !(fixedNilEmbedded() && fixedEmbCache()) {
		// any write that zeroes the struct makes the embedded pointer nil, and then every promoted-field access panics
		// (known finding C13-nil-embedded-ptr): the type is left to the pinned witness until that is fixed
		name = "Rich"
	}
	n := leaf("cat:"+name, catTypes[name])
	switch name {
	case "Rich", "RichP":
		n.Depth = 2
	case "Inner", "PInner", "Str", "MyErr", "JE", "S", "Plain", "NamedMap":
		n.Depth = 1
	}
	return n
}

// genType builds a random type of nesting depth <= depth.
func genType(r *core.Rng, depth int) *tnode {
	if depth <= 0 {
		return genLeaf(r)
	}
	switch r.PickW([]int{22, 14, 10, 12, 7, 11, 4, 8}) {
	case 0:
		return genLeaf(r)
	case 1: // struct via StructOf
		return genStruct(r, depth)
	case 2:
		e := genType(r, depth-1)
		if e.K == "iface" || e.K == "bigint" || e.K == "func" {
			// *interface{}, **big.Int and *func fall under "any other type" (generic host object): outside the documented mapping
			e = primNode(core.Pick(r, primNames))
		}
		return &tnode{K: "ptr", T: reflect.PointerTo(e.T), Elem: e, Depth: e.Depth + 1}
	case 3:
		e := genType(r, depth-1)
		return &tnode{K: "slice", T: reflect.SliceOf(e.T), Elem: e, Depth: e.Depth + 1}
	case 4:
		e := genType(r, depth-1)
		n := r.Intn(4)
		return &tnode{K: "array", T: reflect.ArrayOf(n, e.T), Elem: e, Depth: e.Depth + 1}
	case 5:
		e := genType(r, depth-1)
		k := primNode(core.Pick(r, keyNames))
		if e.K == "func" && k.K != "string" && !fixedNilFuncCall() {
			// every name (toJSON, toString …) converts to a numeric key: JSON.stringify then calls the entry at key 0, which may
			// be a nil func (known finding C13-nil-func-call)
			e = primNode(core.Pick(r, primNames))
		}
		return &tnode{K: "map", T: reflect.MapOf(k.T, e.T), Elem: e, Key: k, Depth: e.Depth + 1}
	case 6:
		return genFunc(r)
	default:
		c := catNode(core.Pick(r, catNames))
		if c.Depth > depth {
			return genLeaf(r)
		}
		return c
	}
}

func genLeaf(r *core.Rng) *tnode {
	switch r.PickW([]int{60, 10, 5, 4, 21}) {
	case 0:
		return primNode(core.Pick(r, primNames))
	case 1:
		return leaf("iface", typIface)
	case 2:
		return leaf("bigint", typBigInt)
	case 3:
		return leaf("time", typTime)
	default:
		c := catNode(core.Pick(r, catNames))
		if c.Depth > 0 {
			return primNode(core.Pick(r, primNames))
		}
		return c
	}
}

var tagPool = []string{"", "", `json:"%s"`, `json:"%s"`, `json:"%s,omitempty"`, `json:"-"`, `json:"not valid"`, `json:",omitempty"`, `other:"x"`}

func genStruct(r *core.Rng, depth int) *tnode {
	n := r.Range(1, 4)
	var fs []reflect.StructField
	var kids []*tnode
	maxd := 0
	if r.Chance(1, 5) {
		// embedded method-less struct (StructOf cannot promote methods)
		k := catNode("Plain")
		fs = append(fs, reflect.StructField{Name: "Plain", Type: k.T, Anonymous: true})
		kids = append(kids, k)
		maxd = 1
	}
	for i := 0; i < n; i++ {
		k := genType(r, depth-1)
		name := fmt.Sprintf("F%d", i)
		if r.Chance(1, 6) {
			name = []string{"Alpha", "URL", "Zed", "A"}[r.Intn(4)] + fmt.Sprint(i)
		}
		tag := core.Pick(r, tagPool)
		if strings.Contains(tag, "%s") {
			tag = fmt.Sprintf(tag, fmt.Sprintf("t%d", i))
		}
		fs = append(fs, reflect.StructField{Name: name, Type: k.T, Tag: reflect.StructTag(tag)})
		kids = append(kids, k)
		if k.Depth > maxd {
			maxd = k.Depth
		}
	}
	if r.Chance(1, 4) {
		k := primNode(core.Pick(r, []string{"int", "string"}))
		fs = append(fs, reflect.StructField{Name: "u", PkgPath: pkgPath, Type: k.T})
		kids = append(kids, k)
	}
	return &tnode{K: "struct", T: reflect.StructOf(fs), Fields: kids, Depth: maxd + 1}
}

// genFunc: func types with 0..3 primitive-ish params (optionally variadic) and 0..3 results, optionally ending in error.
func genFunc(r *core.Rng) *tnode {
	nin := r.Intn(4)
	var ins, outs []reflect.Type
	var kids []*tnode
	argLeaf := func() *tnode {
		switch r.Intn(6) {
		case 0:
			return leaf("iface", typIface)
		case 1:
			return catNode(core.Pick(r, []string{"S", "MyInt", "MyStr"}))
		case 2:
			e := primNode(core.Pick(r, primNames))
			return &tnode{K: "slice", T: reflect.SliceOf(e.T), Elem: e, Depth: 1}
		}
		return primNode(core.Pick(r, primNames))
	}
	for i := 0; i < nin; i++ {
		k := argLeaf()
		ins = append(ins, k.T)
		kids = append(kids, k)
	}
	variadic := nin > 0 && r.Chance(1, 3)
	if variadic {
		e := kids[nin-1]
		s := &tnode{K: "slice", T: reflect.SliceOf(e.T), Elem: e, Depth: e.Depth + 1}
		kids[nin-1] = s
		ins[nin-1] = s.T
	}
	nout := r.Intn(4)
	for i := 0; i < nout; i++ {
		k := argLeaf()
		outs = append(outs, k.T)
		kids = append(kids, k)
	}
	if r.Chance(1, 2) {
		outs = append(outs, typError)
		kids = append(kids, leaf("error", typError))
	}
	return &tnode{K: "func", T: reflect.FuncOf(ins, outs, variadic), Fields: kids, NIn: nin, Depth: 1}
}

// describe returns a stable textual description of a generated type.
func (t *tnode) describe() string { return t.T.String() }

// kindsOf collects the reflect kinds (and special leaves) occurring in a type, as evidence.
func (t *tnode) kindsOf(add func(string)) {
	if t == nil {
		return
	}
	if strings.HasPrefix(t.K, "cat:") || t.K == "iface" || t.K == "bigint" || t.K == "time" {
		add(t.K)
	} else {
		add(t.T.Kind().String())
	}
	t.Elem.kindsOf(add)
	t.Key.kindsOf(add)
	for _, f := range t.Fields {
		f.kindsOf(add)
	}
}

// ---------------------------------------------------------------------------------------------
// Boundary values
// ---------------------------------------------------------------------------------------------

var (
	intBounds   = []int64{0, 1, -1, 2, 7, 42, 100, 127, 128, -128, -129, 255, 256, 32767, 32768, -32768, 65535, 65536, math.MaxInt32, math.MinInt32, 1 << 32, 1<<53 - 1, 1 << 53, 1<<53 + 1, math.MaxInt64, math.MinInt64}
	uintBounds  = []uint64{0, 1, 2, 7, 42, 127, 128, 255, 256, 65535, 65536, math.MaxUint32, 1 << 32, 1 << 53, 1<<53 + 1, math.MaxInt64, math.MaxInt64 + 1, math.MaxUint64}
	floatBounds = []float64{0, math.Copysign(0, -1), 1, -1, 1.5, -2.5, 0.1, 3, 255, 256, 65536, 1 << 31, 1<<31 - 1, 4294967296, 1 << 53, 1e21, 1e-7, math.MaxFloat32, math.SmallestNonzeroFloat64, math.MaxFloat64, math.Inf(1), math.Inf(-1), math.NaN()}
	strBounds   = []string{"", "a", "abc", "12", "-0", "héllo", "日本語", "a b", "with\"quote", "\x00nul", "line\nbreak", "0123456789abcdefXYZ-long-ascii", "長い文字列です、十六バイト超", "😀 astral", "length", "constructor"}
)

// named uint64 above MaxInt64 shows up negative in script (known finding C13-named-uint64-valueof): excluded from
// random generation until the pinned witness passes.
func fillValue(r *core.Rng, t *tnode, v reflect.Value, depth int) { fill(r, t, v, depth, false) }

// viaPtr: v is the target of a pointer (script sees pointed-to primitives as host objects)
func fill(r *core.Rng, t *tnode, v reflect.Value, depth int, viaPtr bool) {
	switch v.Kind() {
	case reflect.Bool:
		v.SetBool(r.Bool())
	case reflect.Int, reflect.Int8, reflect.Int16, reflect.Int32, reflect.Int64:
		x := core.Pick(r, intBounds)
		if v.OverflowInt(x) {
			// wrap into range deterministically
			bits := v.Type().Bits()
			x = x << (64 - bits) >> (64 - bits)
		}
		v.SetInt(x)
	case reflect.Uint, reflect.Uint8, reflect.Uint16, reflect.Uint32, reflect.Uint64, reflect.Uintptr:
		x := core.Pick(r, uintBounds)
		if v.OverflowUint(x) {
			bits := v.Type().Bits()
			x = x << (64 - bits) >> (64 - bits)
		}
		if (viaPtr || !unnamed(v.Type())) && x > math.MaxInt64 && !fixedNamedUint64() {
			x = math.MaxInt64
		}
		v.SetUint(x)
	case reflect.Float32, reflect.Float64:
		x := core.Pick(r, floatBounds)
		if v.Kind() == reflect.Float32 {
			x = float64(float32(x))
		}
		v.SetFloat(x)
	case reflect.String:
		v.SetString(core.Pick(r, strBounds))
	case reflect.Interface:
		if v.Type() == typError {
			if r.Chance(1, 3) {
				v.Set(reflect.ValueOf(&MyErr{Code: r.Intn(5)}))
			}
			return
		}
		if r.Chance(1, 5) {
			return // nil interface
		}
		var dt *tnode
		if depth > 0 && r.Chance(1, 3) {
			dt = genType(r, 1)
		} else {
			dt = genLeaf(r)
		}
		if dt.K == "func" || dt.K == "iface" {
			dt = primNode("uint8")
		}
		dv := reflect.New(dt.T).Elem()
		fillValue(r, dt, dv, depth-1)
		v.Set(dv)
	case reflect.Ptr:
		if t != nil && t.K == "bigint" || v.Type() == typBigInt {
			if r.Chance(1, 6) {
				return
			}
			b := new(big.Int)
			switch r.Intn(5) {
			case 0:
			case 1:
				b.SetInt64(core.Pick(r, intBounds))
			case 2:
				b.SetString("123456789012345678901234567890", 10)
			case 3:
				b.SetString("-340282366920938463463374607431768211456", 10)
			default:
				b.SetInt64(int64(r.Intn(1000)))
			}
			v.Set(reflect.ValueOf(b))
			return
		}
		if r.Chance(1, 5) {
			return
		}
		p := reflect.New(v.Type().Elem())
		fill(r, elemOf(t), p.Elem(), depth-1, true)
		v.Set(p)
	case reflect.Slice:
		if r.Chance(1, 8) {
			return
		}
		n := r.Intn(5)
		c := n
		if r.Chance(1, 3) {
			c = n + r.Intn(4)
		}
		s := reflect.MakeSlice(v.Type(), n, c)
		for i := 0; i < n; i++ {
			fillValue(r, elemOf(t), s.Index(i), depth-1)
		}
		v.Set(s)
	case reflect.Array:
		for i := 0; i < v.Len(); i++ {
			fillValue(r, elemOf(t), v.Index(i), depth-1)
		}
	case reflect.Map:
		if r.Chance(1, 8) {
			return
		}
		m := reflect.MakeMap(v.Type())
		n := r.Intn(4)
		for i := 0; i < n; i++ {
			k := reflect.New(v.Type().Key()).Elem()
			fillKey(r, k)
			e := reflect.New(v.Type().Elem()).Elem()
			fillValue(r, elemOf(t), e, depth-1)
			m.SetMapIndex(k, e)
		}
		v.Set(m)
	case reflect.Struct:
		if v.Type() == typTime {
			ts := []time.Time{{}, time.Unix(0, 0).UTC(), time.Date(2024, 3, 1, 12, 0, 0, 0, time.UTC), time.Date(1969, 12, 31, 23, 59, 59, 999000000, time.FixedZone("X", 3600))}
			v.Set(reflect.ValueOf(core.Pick(r, ts)))
			return
		}
		for i := 0; i < v.NumField(); i++ {
			f := v.Field(i)
			sf := v.Type().Field(i)
			var ft *tnode
			if t != nil && t.K == "struct" && i < len(t.Fields) {
				ft = t.Fields[i]
			}
			if !f.CanSet() {
				// unexported: fill through unsafe-free route where possible (ints/strings only) using reflect.NewAt is unsafe; leave
				// unexported fields of hand-declared types to fillUnexported.
				continue
			}
			if sf.Anonymous && f.Kind() == reflect.Ptr && !(fixedNilEmbedded() && fixedEmbCache()) {
				// nil embedded pointers make promoted-field access panic (known finding C13-nil-embedded-ptr): keep non-nil
				p := reflect.New(f.Type().Elem())
				fillValue(r, nil, p.Elem(), depth-1)
				f.Set(p)
				continue
			}
			fillValue(r, ft, f, depth-1)
		}
		fillUnexported(r, v)
	case reflect.Func:
		if r.Chance(1, 4) {
			return // nil func
		}
		v.Set(makeFunc(v.Type(), nil))
	}
}

func elemOf(t *tnode) *tnode {
	if t == nil {
		return nil
	}
	return t.Elem
}

// fillUnexported sets the unexported fields of the hand-declared types (so that copies can be told from zero values).
func fillUnexported(r *core.Rng, v reflect.Value) {
	if !v.CanAddr() {
		return
	}
	switch p := v.Addr().Interface().(type) {
	case *Inner:
		p.hidden = r.Intn(100)
	case *Rich:
		p.priv = r.Intn(100)
		p.unexpEmb.ue2 = "u2"
		p.unexpEmb.UE = r.Intn(50)
		p.Inner.hidden = r.Intn(100)
		p.Sub.hidden = r.Intn(100)
	}
}

func fillKey(r *core.Rng, k reflect.Value) {
	switch k.Kind() {
	case reflect.String:
		k.SetString(core.Pick(r, []string{"a", "b", "k1", "0", "1", "x y", "héllo", "", "length"}))
	case reflect.Int, reflect.Int8, reflect.Int16, reflect.Int32, reflect.Int64:
		x := core.Pick(r, []int64{0, 1, -1, 2, 40, 127, -128, 32767, -32768, math.MaxInt32, math.MinInt32, 1 << 40, -(1 << 40)})
		if k.OverflowInt(x) {
			bits := k.Type().Bits()
			x = x << (64 - bits) >> (64 - bits)
		}
		k.SetInt(x)
	case reflect.Uint, reflect.Uint8, reflect.Uint16, reflect.Uint32, reflect.Uint64:
		x := core.Pick(r, []uint64{0, 1, 2, 40, 255, 65535, math.MaxUint32, 1 << 40})
		if k.OverflowUint(x) {
			bits := k.Type().Bits()
			x = x << (64 - bits) >> (64 - bits)
		}
		k.SetUint(x)
	case reflect.Float32, reflect.Float64:
		k.SetFloat(core.Pick(r, []float64{0, 1.5, -2, 0.25, 3, 1e21, 100}))
	}
}

// makeFunc builds a non-panicking implementation of a func type: it records its arguments and returns
// zero values, except that a trailing error result is errVal (nil if rec == nil or rec.Err == nil) and a first
// result of the same type as the first argument echoes that argument.
type callRec struct {
	Calls [][]reflect.Value
	Err   error
}

func makeFunc(t reflect.Type, rec *callRec) reflect.Value {
	return reflect.MakeFunc(t, func(args []reflect.Value) []reflect.Value {
		if rec != nil {
			rec.Calls = append(rec.Calls, args)
		}
		out := make([]reflect.Value, t.NumOut())
		for i := range out {
			out[i] = reflect.Zero(t.Out(i))
		}
		if len(out) > 0 && len(args) > 0 && args[0].Type() == t.Out(0) {
			out[0] = args[0]
		}
		if rec != nil && rec.Err != nil && len(out) > 0 && t.Out(len(out)-1) == typError {
			out[len(out)-1] = reflect.ValueOf(rec.Err).Convert(typError)
		}
		return out
	})
}
