package c13

import (
	"fmt"
	"math"
	"math/big"
	"reflect"
	"sort"
	"strings"

	"github.com/dop251/goja"

	"verif/harness/core"
	"verif/harness/gj"
)

// ---------------------------------------------------------------------------------------------
// Scenario "roundtrip": laws 1 and 2.
// ---------------------------------------------------------------------------------------------

type rtCase struct {
	Scenario string `json:"scenario"`
	Mapper   string `json:"mapper"`
	Type     string `json:"type"`
	Form     string `json:"form"`
	Value    string `json:"value"`
	Literal  string `json:"literal,omitempty"`
	SubjSeed uint64 `json:"subjSeed"`
}

// deepEq: reflect.DeepEqual with NaN == NaN, *big.Int by value (nil == 0), funcs by code pointer.
func deepEq(a, b reflect.Value, depth int) bool {
	if depth > 12 {
		return true
	}
	if !a.IsValid() || !b.IsValid() {
		return a.IsValid() == b.IsValid()
	}
	if a.Type() != b.Type() {
		return false
	}
	if a.Type() == typBigInt {
		x, y := new(big.Int), new(big.Int)
		if !a.IsNil() {
			x = a.Interface().(*big.Int)
		}
		if !b.IsNil() {
			y = b.Interface().(*big.Int)
		}
		return x.Cmp(y) == 0
	}
	switch a.Kind() {
	case reflect.Float32, reflect.Float64:
		x, y := a.Float(), b.Float()
		return x == y && math.Signbit(x) == math.Signbit(y) || x != x && y != y
	case reflect.Func:
		return a.IsNil() == b.IsNil() && (a.IsNil() || a.Pointer() == b.Pointer())
	case reflect.Ptr:
		if a.IsNil() || b.IsNil() {
			return a.IsNil() == b.IsNil()
		}
		if a.Pointer() == b.Pointer() {
			return true
		}
		return deepEq(a.Elem(), b.Elem(), depth+1)
	case reflect.Interface:
		if a.IsNil() || b.IsNil() {
			return a.IsNil() == b.IsNil()
		}
		return deepEq(a.Elem(), b.Elem(), depth+1)
	case reflect.Struct:
		if a.Type() == typTime {
			return a.Interface() == b.Interface()
		}
		for i := 0; i < a.NumField(); i++ {
			if !deepEq(a.Field(i), b.Field(i), depth+1) {
				return false
			}
		}
		return true
	case reflect.Array:
		for i := 0; i < a.Len(); i++ {
			if !deepEq(a.Index(i), b.Index(i), depth+1) {
				return false
			}
		}
		return true
	case reflect.Slice:
		if a.IsNil() != b.IsNil() || a.Len() != b.Len() {
			return false
		}
		for i := 0; i < a.Len(); i++ {
			if !deepEq(a.Index(i), b.Index(i), depth+1) {
				return false
			}
		}
		return true
	case reflect.Map:
		if a.IsNil() != b.IsNil() || a.Len() != b.Len() {
			return false
		}
		it := a.MapRange()
		for it.Next() {
			bv := b.MapIndex(it.Key())
			if !bv.IsValid() || !deepEq(it.Value(), bv, depth+1) {
				return false
			}
		}
		return true
	case reflect.Bool:
		return a.Bool() == b.Bool()
	case reflect.Int, reflect.Int8, reflect.Int16, reflect.Int32, reflect.Int64:
		return a.Int() == b.Int()
	case reflect.Uint, reflect.Uint8, reflect.Uint16, reflect.Uint32, reflect.Uint64, reflect.Uintptr:
		return a.Uint() == b.Uint()
	case reflect.String:
		return a.String() == b.String()
	}
	return reflect.DeepEqual(a.Interface(), b.Interface())
}

// chainNil: following pointers/interfaces from v ends in a nil (ToValue: "Nil is converted to null").
func chainNil(v reflect.Value) bool {
	for v.IsValid() && (v.Kind() == reflect.Ptr || v.Kind() == reflect.Interface) {
		if v.Type() == typBigInt {
			return false
		}
		if v.IsNil() {
			return true
		}
		v = v.Elem()
	}
	return !v.IsValid()
}

// lossyInt: a top-level unnamed integer beyond 2^53 (becomes a JS primitive Number, which cannot hold it).
func lossyInt(v reflect.Value) bool {
	if !unnamed(v.Type()) {
		return false
	}
	switch v.Kind() {
	case reflect.Int, reflect.Int64:
		return v.Int() > 1<<53 || v.Int() < -(1<<53)
	case reflect.Uint, reflect.Uint64:
		return v.Uint() > 1<<53
	}
	return false
}

// law1: Export(ToValue(arg)) against the documented mapping.
func law1(av reflect.Value, exp interface{}) (ok bool, why string, cell string) {
	ev := reflect.ValueOf(exp)
	if !av.IsValid() || chainNil(av) {
		return exp == nil, "nil converts to null, Export() of null is nil", "nil"
	}
	t := av.Type()
	if t == typBigInt {
		b, isBig := exp.(*big.Int)
		if !isBig {
			return false, "Export() of a BigInt is a *big.Int", "bigint"
		}
		x := new(big.Int)
		if !av.IsNil() {
			x = av.Interface().(*big.Int)
			if b == x {
				return false, "the *big.Int is documented to be copied (BigInt is immutable)", "bigint"
			}
		}
		return b.Cmp(x) == 0, "Export() of ToValue(*big.Int) is a copy with the same value", "bigint"
	}
	if t == reflect.TypeOf(map[string]interface{}(nil)) && av.IsNil() {
		return exp == nil, "a nil map[string]interface{} converts to null", "nil-simplemap"
	}
	switch t.Kind() {
	case reflect.Bool, reflect.String:
		if unnamed(t) {
			return ev.IsValid() && ev.Type() == t && deepEq(ev, av, 0), "primitive round trip", t.Kind().String()
		}
	case reflect.Int, reflect.Int8, reflect.Int16, reflect.Int32, reflect.Int64:
		if unnamed(t) {
			x := av.Int()
			if x > 1<<53 || x < -(1<<53) {
				// not representable as a Number: the nearest double (or the exact integer) is all a JS primitive can hold
				if f, isF := exp.(float64); isF {
					return f == float64(x), "integers beyond 2^53 become the nearest Number", t.Kind().String() + ">2^53"
				}
				if i, isInt := exp.(int64); isInt && i != x {
					return float64(i) == float64(x) && float64(int64(float64(i))) == float64(i), "integers beyond 2^53 become the nearest Number", t.Kind().String() + ">2^53"
				}
			}
			i, isInt := exp.(int64)
			return isInt && i == x, "integer kinds export as int64", t.Kind().String()
		}
	case reflect.Uint, reflect.Uint8, reflect.Uint16, reflect.Uint32, reflect.Uint64:
		if unnamed(t) {
			u := av.Uint()
			if u > 1<<53 && u <= math.MaxInt64 {
				if f, isF := exp.(float64); isF {
					return f == float64(u), "integers beyond 2^53 become the nearest Number", t.Kind().String() + ">2^53"
				}
				if i, isInt := exp.(int64); isInt && uint64(i) != u {
					return i > 0 && float64(i) == float64(u), "integers beyond 2^53 become the nearest Number", t.Kind().String() + ">2^53"
				}
			}
			if u <= math.MaxInt64 {
				i, isInt := exp.(int64)
				return isInt && uint64(i) == u, "unsigned kinds up to MaxInt64 export as int64", t.Kind().String()
			}
			f, isF := exp.(float64)
			return isF && f == float64(u), "unsigned values above MaxInt64 export as float64", t.Kind().String() + ">maxint64"
		}
	case reflect.Float32, reflect.Float64:
		if unnamed(t) {
			x := av.Float()
			switch e := exp.(type) {
			case float64:
				return e == x && math.Signbit(e) == math.Signbit(x) || e != e && x != x, "float round trip", t.Kind().String()
			case int64:
				return float64(e) == x && !(x == 0 && math.Signbit(x)), "an integral float may export as int64 of the same value", t.Kind().String() + "->int64"
			}
			return false, "floats export as float64 (or int64 when integral)", t.Kind().String()
		}
	}
	// everything else is a wrapped Go value: "calling Export() returns the original Go value"
	if !ev.IsValid() || ev.Type() != t {
		return false, fmt.Sprintf("Export() returns the original Go value: expected type %s, got %T", t, exp), "wrapped-type"
	}
	switch t.Kind() {
	case reflect.Ptr, reflect.Map, reflect.Func:
		if av.IsNil() != ev.IsNil() {
			return false, "nil-ness differs", t.Kind().String()
		}
		return av.IsNil() || av.Pointer() == ev.Pointer(), "reference kinds: the same pointer / map / func", t.Kind().String()
	case reflect.Slice:
		return av.Len() == ev.Len() && (av.Len() == 0 && av.Cap() == 0 || av.Pointer() == ev.Pointer()), "slices: same backing array and length", "slice"
	}
	return deepEq(av, ev, 0), "value kinds: an equal value of the original type", t.Kind().String()
}

func runRoundtrip(c *core.Ctx) core.Result {
	r := c.Rng
	st := c.Stats
	st.Inc("scenario:roundtrip")
	seed := r.U64()
	mapper := r.Intn(3)
	depth := r.Range(0, 4)
	rr := core.NewRng(seed)
	t := genType(rr, depth)
	p := reflect.New(t.T)
	fillValue(rr, t, p.Elem(), 3)
	t.kindsOf(func(k string) { st.SetAdd("kind_x_mapper", k+"/"+mapperNames[mapper]) })
	st.SetAdd("mappers", mapperNames[mapper])
	cs := rtCase{Scenario: "roundtrip", Mapper: mapperNames[mapper], Type: t.describe(), Value: describeValue(p.Elem()), SubjSeed: seed}
	if c.Replay {
		fmt.Printf("--- case ---\n%+v\n", cs)
	}
	checked := 0
	rt := gj.NewRuntime()
	goja.VerifSetFuel(rt, opsFuel)
	setMapper(rt, mapper)
	fail := func(form, monitor, detail, sig string) core.Result {
		cs.Form = form
		v := &violation{monitor, fmt.Sprintf("mapper=%s type=%s form=%s\nvalue=%s\n%s", cs.Mapper, cs.Type, form, cs.Value, detail), sig}
		return violated(v, cs, jsonKey(cs))
	}
	forms := []string{"value", "pointer"}
	for _, form := range forms {
		var arg interface{}
		if form == "value" {
			arg = p.Elem().Interface()
		} else {
			if t.K == "iface" || t.K == "bigint" || t.K == "func" {
				continue // *interface{} / **big.Int / *func: outside the documented mapping
			}
			arg = p.Interface()
		}
		av := reflect.ValueOf(arg)
		var v goja.Value
		var exp interface{}
		o := gjCall(func() { v = rt.ToValue(arg); exp = v.Export() })
		if o.Panic != nil {
			return fail(form, "go-panic-escaped", fmt.Sprintf("ToValue/Export panicked: %v\n%s", o.Panic, core.Trunc(o.PanicStack, 1800)), panicSig(o)+"|roundtrip")
		}
		ok, why, cell := law1(av, exp)
		st.Inc("law1:checked")
		st.SetAdd("law1_cells", cell+"/"+form)
		checked++
		if !ok {
			return fail(form, "export-identity", fmt.Sprintf("Export(ToValue(x)) = %T %v\nlaw: %s", exp, core.Trunc(fmt.Sprintf("%+v", exp), 400), why), "export-identity:"+cell+"/"+form)
		}
		// law 2: ExportTo into a variable of x's own type
		if av.IsValid() {
			tv := reflect.New(av.Type())
			var err error
			o = gjCall(func() { err = rt.ExportTo(v, tv.Interface()) })
			if o.Panic != nil {
				return fail(form, "go-panic-escaped", fmt.Sprintf("ExportTo panicked: %v\n%s", o.Panic, core.Trunc(o.PanicStack, 1800)), panicSig(o)+"|exportto")
			}
			st.Inc("law2:checked")
			checked++
			if err != nil {
				return fail(form, "exportto-own-type", fmt.Sprintf("ExportTo(ToValue(x), &%s) failed: %v", av.Type(), err), "exportto-own-type:error:"+cell)
			}
			if chainNil(av) && chainNil(tv.Elem()) || lossyInt(av) {
				continue // nil converts to null (zero value back); integers beyond 2^53 are not representable as Numbers
			}
			if !deepEq(tv.Elem(), av, 0) {
				return fail(form, "exportto-own-type", fmt.Sprintf("ExportTo(ToValue(x), &%s) = %s, not deep-equal to x", av.Type(), core.Trunc(fmt.Sprintf("%+v", tv.Elem().Interface()), 500)), "exportto-own-type:differs:"+cell)
			}
		}
	}
	// law 2 (literal form): the JS literal of x exported into x's type shows x
	if js, ok := litOfValue(p.Elem(), mapper, 0); ok {
		cs.Literal = core.Trunc(js, 1500)
		var v goja.Value
		o := gj.Call(func() (goja.Value, error) { return rt.RunString("(" + js + ")") })
		if o.Panic != nil || o.Err != nil {
			return fail("literal", "harness-literal", fmt.Sprintf("literal %s does not evaluate: %v %v", js, o.Err, o.Panic), "harness-literal")
		}
		v = o.Val
		tv := reflect.New(t.T)
		var err error
		o = gjCall(func() { err = rt.ExportTo(v, tv.Interface()) })
		if o.Panic != nil {
			return fail("literal", "go-panic-escaped", fmt.Sprintf("ExportTo(%s) panicked: %v\n%s", js, o.Panic, core.Trunc(o.PanicStack, 1800)), panicSig(o)+"|exportto-literal")
		}
		st.Inc("law2:literal_checked")
		checked++
		if err != nil {
			return fail("literal", "exportto-literal", fmt.Sprintf("ExportTo(%s, &%s) failed: %v", core.Trunc(js, 600), t.T, err), "exportto-literal:error:"+t.T.Kind().String())
		}
		want, got := goView(p.Elem(), mapper, 0), goView(tv.Elem(), mapper, 0)
		if want != got {
			return fail("literal", "exportto-literal", fmt.Sprintf("ExportTo(%s, &%s) shows\n  %s\nexpected\n  %s", core.Trunc(js, 600), t.T, core.Trunc(got, 800), core.Trunc(want, 800)), "exportto-literal:differs:"+firstDiffKind(want, got))
		}
	}
	if why := gj.IdleProblem(rt, false); why != "" {
		return fail("", "vm-not-idle", why, "idle:"+why)
	}
	return held(jsonKey(cs), checked >= 3 && t.Depth >= 1)
}

func firstDiffKind(a, b string) string {
	i := 0
	for i < len(a) && i < len(b) && a[i] == b[i] {
		i++
	}
	j := i
	for j > 0 && !strings.ContainsRune(",[{:(", rune(a[j-1])) {
		j--
	}
	if j+2 <= len(a) {
		return a[j : j+2]
	}
	return "end"
}

// litOfValue renders a Go value as a JS literal whose ExportTo conversion into the value's type is determined by the documentation.
func litOfValue(v reflect.Value, mapper int, depth int) (string, bool) {
	if v.Kind() == reflect.Ptr && !v.IsNil() && v.Type() != typBigInt && v.Elem().Type() == typSimpleMap && v.Elem().IsNil() {
		// a pointer to a nil map[string]interface{} shows as an empty object (only the bare nil map is null)
		return "{}", true
	}
	if depth > 8 {
		return "", false
	}
	t := v.Type()
	switch v.Kind() {
	case reflect.Bool:
		if v.Bool() {
			return "true", true
		}
		return "false", true
	case reflect.Int, reflect.Int8, reflect.Int16, reflect.Int32, reflect.Int64:
		x := v.Int()
		if x > 1<<53 || x < -(1<<53) {
			return "", false
		}
		return jsNum(float64(x)), true
	case reflect.Uint, reflect.Uint8, reflect.Uint16, reflect.Uint32, reflect.Uint64:
		x := v.Uint()
		if x > 1<<53 {
			return "", false
		}
		return jsNum(float64(x)), true
	case reflect.Float32, reflect.Float64:
		return jsNum(v.Float()), true
	case reflect.String:
		return jsStr(v.String()), true
	case reflect.Interface:
		if v.IsNil() {
			return "null", true
		}
		d := v.Elem()
		// only dynamic values whose type is what Export() of the literal produces keep the view
		switch d.Interface().(type) {
		case int64, float64, string, bool:
			if f, isF := d.Interface().(float64); isF && f == math.Trunc(f) && !(f == 0 && math.Signbit(f)) {
				return "", false // an integral float literal exports as int64: fine for the view, but keep types honest
			}
			return litOfValue(d, mapper, depth+1)
		}
		return "", false
	case reflect.Ptr:
		if t == typBigInt {
			if v.IsNil() {
				return "null", true
			}
			return v.Interface().(*big.Int).String() + "n", true
		}
		if v.IsNil() {
			return "null", true
		}
		return litOfValue(v.Elem(), mapper, depth+1)
	case reflect.Struct:
		if t == typTime || hasAnonymous(t) {
			return "", false
		}
		var parts []string
		for _, f := range visibleFields(t, mapper) {
			fv, ok := fieldByIndexSafe(v, f.Index)
			if !ok {
				return "", false
			}
			if fv.Kind() == reflect.Func {
				continue
			}
			js, ok := litOfValue(fv, mapper, depth+1)
			if !ok {
				return "", false
			}
			parts = append(parts, jsStr(f.JS)+":"+js)
		}
		return "{" + strings.Join(parts, ",") + "}", true
	case reflect.Map:
		if t.NumMethod() > 0 || !mapKeySupported(t.Key().Kind()) || t.Elem().Kind() == reflect.Func {
			return "", false
		}
		if v.IsNil() {
			if t == typSimpleMap {
				return "null", true
			}
			return "{}", true // nil and empty maps show alike
		}
		var parts []string
		it := v.MapRange()
		for it.Next() {
			js, ok := litOfValue(it.Value(), mapper, depth+1)
			if !ok {
				return "", false
			}
			parts = append(parts, jsStr(fmt.Sprintf("%v", it.Key().Interface()))+":"+js)
		}
		sort.Strings(parts)
		return "{" + strings.Join(parts, ",") + "}", true
	case reflect.Slice, reflect.Array:
		if t.Elem().Kind() == reflect.Func {
			return "", false
		}
		if v.Kind() == reflect.Slice && v.IsNil() {
			return "[]", true // nil and empty slices show alike
		}
		var parts []string
		for i := 0; i < v.Len(); i++ {
			js, ok := litOfValue(v.Index(i), mapper, depth+1)
			if !ok {
				return "", false
			}
			parts = append(parts, js)
		}
		return "[" + strings.Join(parts, ",") + "]", true
	}
	return "", false
}
