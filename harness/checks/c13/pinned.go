package c13

import (
	"fmt"
	"os"
	"os/exec"
	"reflect"
	"strconv"
	"strings"
	"sync"

	"github.com/dop251/goja"

	"verif/harness/core"
	"verif/harness/gj"
)

func gjCall(f func()) gj.Outcome {
	return gj.Call(func() (goja.Value, error) { f(); return nil, nil })
}

// A pinned witness: hand-written scenario (doc-comment example or the minimal witness of a finding) with its expectation.
type pin struct {
	Name string
	Doc  string // the documentation sentence it encodes / what fails
	Run  func(p *pinEnv)
}

// fatalPins: witnesses that kill an unfixed process (fatal Go error); they are run in a child process.
var fatalPins = map[string]bool{"cyclic-goslice-join": true}

type pinEnv struct {
	r    *goja.Runtime
	viol *violation
	name string
}

func (p *pinEnv) fail(monitor, detail string) {
	if p.viol == nil {
		p.viol = &violation{monitor, p.name + ": " + detail, "pinned:" + p.name + ":" + monitor}
	}
}

// js runs src; a Go panic is a law-9 violation, an exception is returned as its constructor name.
func (p *pinEnv) js(src string) (val goja.Value, threw string) {
	o := gj.Call(func() (goja.Value, error) { return p.r.RunString(src) })
	if o.Panic != nil {
		p.fail("go-panic-escaped", fmt.Sprintf("`%s`: Go panic escaped: %v\n%s", src, core.Trunc(fmt.Sprint(o.Panic), 300), core.Trunc(o.PanicStack, 1800)))
		return goja.Undefined(), "panic"
	}
	if o.Fuel || o.Assertion != nil {
		p.fail("harness", fmt.Sprintf("`%s`: fuel/assertion %v", src, o.Assertion))
		return goja.Undefined(), "harness"
	}
	if o.Err != nil {
		if ex, ok := o.Err.(*goja.Exception); ok {
			n := gj.ErrorCtorName(p.r, ex.Value())
			if n == "" {
				n = "non-error"
			}
			return goja.Undefined(), n
		}
		p.fail("undocumented-error-kind", fmt.Sprintf("`%s`: %T %v", src, o.Err, o.Err))
		return goja.Undefined(), "other"
	}
	return o.Val, ""
}

// expect runs src and requires the rendered result.
func (p *pinEnv) expect(src, want string) {
	v, threw := p.js(src)
	if p.viol != nil {
		return
	}
	got := threw
	if threw == "" {
		got = renderVal(v)
	} else {
		got = "throws " + threw
	}
	if got != want {
		p.fail("doc-example", fmt.Sprintf("`%s`: expected %s, observed %s", src, want, got))
	}
}

func renderVal(v goja.Value) string {
	if v == nil {
		return "nil"
	}
	if o, ok := v.(*goja.Object); ok {
		return "object:" + o.ClassName()
	}
	return v.String()
}

func (p *pinEnv) set(name string, v interface{}) {
	o := gjCall(func() { p.r.Set(name, v) })
	if o.Panic != nil {
		p.fail("go-panic-escaped", fmt.Sprintf("Set(%s): %v", name, o.Panic))
	}
}

func (p *pinEnv) check(ok bool, format string, args ...interface{}) {
	if !ok {
		p.fail("doc-example", fmt.Sprintf(format, args...))
	}
}

var pinned = []pin{
	// ---- the examples of the ToValue doc comment, verbatim ------------------------------------------------------
	{"doc-caveat1-export-copies", "m.obj = obj: obj gets Export()'ed, i.e. copied to a new map[string]interface{}", func(p *pinEnv) {
		m := map[string]interface{}{}
		p.set("m", m)
		p.js(`var obj = {test: false}; m.obj = obj; obj.test = true;`)
		p.expect(`m.obj.test`, "false")
		mm, _ := m["obj"].(map[string]interface{})
		p.check(mm != nil && mm["test"] == false, "Go side: m[obj] = %#v, expected map with test=false", m["obj"])
	}},
	{"doc-caveat2-copy-on-change", "tmp = a[0] is a reference; a[0] = {Field: 2} detaches tmp with the old value; a[1] = tmp copies", func(p *pinEnv) {
		a := []S{{1}, {2}}
		p.set("a", &a)
		p.js(`var tmp = a[0]; tmp.Field = 1;`)
		p.expect(`a[0].Field`, "1")
		p.check(a[0].Field == 1, "Go a[0].Field=%d after tmp.Field=1", a[0].Field)
		p.js(`tmp.Field = 11`)
		p.check(a[0].Field == 11, "tmp is documented to be a reference to a[0]: Go a[0].Field=%d after tmp.Field=11", a[0].Field)
		p.js(`tmp.Field = 1; a[0] = {Field: 2};`)
		p.expect(`a[0].Field === 2 && tmp.Field === 1`, "true")
		p.check(a[0].Field == 2, "Go a[0].Field=%d after a[0]={Field:2}", a[0].Field)
		p.js(`a[1] = tmp; tmp.Field = 3;`)
		p.expect(`a[1].Field`, "1")
		p.check(a[1].Field == 1, "Go a[1].Field=%d: a[1] = tmp is documented to copy", a[1].Field)
		p.expect(`tmp.Field`, "3")
	}},
	{"doc-caveat2-two-assignments", "let tmp = {Field: 1}; a[0] = tmp; a[1] = tmp; tmp.Field = 2 does not change a[0], a[1]", func(p *pinEnv) {
		a := []S{{1}, {2}}
		p.set("a", &a)
		p.js(`let tmp = {Field: 1}; a[0] = tmp; a[1] = tmp; tmp.Field = 2;`)
		p.expect(`a[0].Field + ',' + a[1].Field`, "1,1")
		p.check(a[0].Field == 1 && a[1].Field == 1, "Go a=%v", a)
	}},
	{"doc-caveat2-sort-adjusts", "in-place sort does not count as re-assignment, references are adjusted to the new indices", func(p *pinEnv) {
		a := []S{{3}, {1}, {2}}
		p.set("a", &a)
		p.js(`var t0 = a[0], t1 = a[1]; a.sort(function(x, y) { return x.Field - y.Field });`)
		p.expect(`a[0].Field + ',' + a[1].Field + ',' + a[2].Field`, "1,2,3")
		p.expect(`t0.Field + ',' + t1.Field`, "3,1")
		p.js(`t0.Field = 30; t1.Field = 10;`)
		p.expect(`a[0].Field + ',' + a[1].Field + ',' + a[2].Field`, "10,2,30")
		p.check(a[0].Field == 10 && a[2].Field == 30, "Go a=%v after writes through the adjusted references", a)
	}},
	{"doc-caveat2-shrink-detaches", "shrinking the array copies the old element; the earlier returned value refers to the copy", func(p *pinEnv) {
		a := []S{{1}, {2}}
		p.set("a", &a)
		p.js(`var t = a[1]; a.length = 1; t.Field = 5; a.length = 2;`)
		p.expect(`t.Field + ',' + a[1].Field + ',' + a.length`, "5,0,2")
		p.check(len(a) == 2 && a[1].Field == 0, "Go a=%v", a)
	}},
	{"doc-caveat2-delete-detaches", "deletion re-assigns: the old element is copied, the slot becomes the zero value", func(p *pinEnv) {
		a := []S{{1}, {2}}
		p.set("a", &a)
		p.js(`var t = a[0]; delete a[0]; t.Field = 9;`)
		p.expect(`t.Field + ',' + a[0].Field + ',' + (0 in a)`, "9,0,true")
		p.check(a[0].Field == 0, "Go a=%v", a)
	}},
	{"doc-caveat2-struct-field", "the same mechanism for nested structs in struct fields", func(p *pinEnv) {
		type O struct{ A, B S }
		o := &O{S{1}, S{2}}
		p.set("o", o)
		p.js(`var t = o.A; t.Field = 7;`)
		p.check(o.A.Field == 7, "Go o.A.Field=%d after t.Field=7", o.A.Field)
		p.js(`o.A = {Field: 8}; t.Field = 70; o.B = t; t.Field = 71;`)
		p.expect(`o.A.Field + ',' + o.B.Field + ',' + t.Field`, "8,70,71")
		p.check(o.A.Field == 8 && o.B.Field == 70, "Go o=%v", *o)
	}},
	{"doc-caveat3-nonaddressable", "a1 := []interface{}{S{1}, S{2}}: a1[0].Field = 2 is dropped (copy)", func(p *pinEnv) {
		a1 := []interface{}{S{1}, S{2}}
		p.set("a1", &a1)
		p.expect(`a1[0].Field === 1`, "true")
		p.js(`a1[0].Field = 2;`)
		p.expect(`a1[0].Field === 2`, "false")
		p.check(a1[0].(S).Field == 1, "Go a1[0]=%v", a1[0])
	}},
	{"doc-slice-by-value", "a := []interface{}{1}; vm.Set(a); a.push(2); a[0] = 0 — Go a[0] still 1", func(p *pinEnv) {
		a := []interface{}{1}
		p.set("a", a)
		p.js(`a.push(2); a[0] = 0;`)
		p.check(len(a) == 1 && a[0] == 1, "Go a=%v", a)
	}},
	{"doc-struct-symbol", "field1 === field2 (wrapped values compared); symbol properties live in the wrapper only", func(p *pinEnv) {
		type Field struct{}
		type SS struct{ Field *Field }
		s := SS{Field: &Field{}}
		p.set("s", &s)
		p.js(`var sym = Symbol(66); var field1 = s.Field; field1[sym] = true; var field2 = s.Field;`)
		p.expect(`field1 === field2`, "true")
		p.expect(`field1[sym] === true`, "true")
		p.expect(`field2[sym] === undefined`, "true")
	}},
	{"doc-struct-props", "fields writable non-configurable, methods non-writable non-configurable; define/delete fail", func(p *pinEnv) {
		p.set("o", &Rich{})
		p.expect(`var d = Object.getOwnPropertyDescriptor(o, 'Name'); [d.writable, d.configurable, d.enumerable].join()`, "true,false,true")
		p.expect(`var d = Object.getOwnPropertyDescriptor(o, 'SetName'); [d.writable, d.configurable, typeof d.value].join()`, "false,false,function")
		p.expect(`'use strict'; o.nope = 1`, "throws TypeError")
		p.expect(`'use strict'; delete o.Name`, "throws TypeError")
		p.expect(`Object.defineProperty(o, 'Name', {get: function(){}})`, "throws TypeError")
	}},
	{"doc-funcs", "multiple results → Array; (T, error) → T; non-nil error → GoError exception", func(p *pinEnv) {
		p.set("f2", func(a int, b string) (int, string) { return a + 1, b + "!" })
		p.set("fe", func(a int) (int, error) {
			if a < 0 {
				return 0, &MyErr{Code: a}
			}
			return a * 2, nil
		})
		p.set("fv", func(xs ...int) int { return len(xs) })
		p.expect(`var r = f2(1, "x"); Array.isArray(r) && r.length === 2 && r[0] === 2 && r[1] === "x!"`, "true")
		p.expect(`fe(4)`, "8")
		p.expect(`try { fe(-3); 'no' } catch (e) { (e instanceof GoError) + ':' + (e.value.Code) }`, "true:-3")
		p.expect(`fv() + ',' + fv(1) + ',' + fv(1, 2, 3)`, "0,1,3")
		p.expect(`fe({})`, "0")
		p.expect(`f2(1, 2, 3, 4)[1]`, "2!")
	}},
	{"doc-slices-arrays", "no holes; delete zeroes; beyond length undefined; arrays not resizable", func(p *pinEnv) {
		s := []int{1, 2, 3}
		arr := [2]string{"a", "b"}
		p.set("s", &s)
		p.set("arr", &arr)
		p.expect(`s.hasOwnProperty(2) + ',' + s.hasOwnProperty(3) + ',' + (delete s[1]) + ',' + s[1] + ',' + s[7]`, "true,false,true,0,undefined")
		p.expect(`'use strict'; arr.length = 1`, "throws TypeError")
		p.expect(`Object.getOwnPropertyDescriptor(arr, 'length').writable`, "false")
		p.check(s[1] == 0 && len(s) == 3, "Go s=%v", s)
	}},
	// ---- witnesses of findings (see /verif/inbox/C13-*.md) -------------------------------------------------------
	{"equal-uncomparable", "a == b on two wrappers of a named map type with methods (or a map with an unsupported key kind) must not panic", func(p *pinEnv) {
		p.set("a", NamedMap{"x": 1})
		p.set("b", NamedMap{"x": 1})
		p.set("c", map[bool]int{true: 1})
		p.js(`a == b; a === b; Object.is(a, b); new Map([[a, 1]]).has(b); c == c; [c].indexOf(c)`)
		p.expect(`(a == a) + ',' + (a === a) + ',' + ((a == b) === (b == a))`, "true,true,true")
	}},
	{"define-without-value", "Object.defineProperty(w, k, {enumerable:true}) / Object.seal(w) on host objects: no panic, values unchanged", func(p *pinEnv) {
		st := &S{5}
		m1 := map[string]interface{}{"x": 1}
		m2 := map[string]int{"x": 1}
		s1 := []interface{}{1, 2}
		s2 := []int{1, 2}
		p.set("st", st)
		p.set("m1", m1)
		p.set("m2", m2)
		p.set("s1", &s1)
		p.set("s2", &s2)
		p.js(`Object.defineProperty(st, 'Field', {enumerable: true}); Object.seal(st);`)
		p.js(`Object.defineProperty(m1, 'x', {enumerable: true}); Object.seal(m1);`)
		p.js(`Object.defineProperty(m2, 'x', {enumerable: true}); Object.seal(m2);`)
		p.js(`Object.defineProperty(s1, 0, {enumerable: true}); Object.seal(s1);`)
		p.js(`Object.defineProperty(s2, 0, {enumerable: true}); Object.seal(s2);`)
		p.check(st.Field == 5 && m1["x"] == 1 && m2["x"] == 1 && s1[0] == 1 && s1[1] == 2 && s2[0] == 1 && s2[1] == 2,
			"a descriptor without [[Value]] must leave existing values alone: st=%v m1=%v m2=%v s1=%v s2=%v", *st, m1, m2, s1, s2)
	}},
	{"array-oob-write", "writing / defining / pushing beyond the length of a wrapped Go array: TypeError (arrays are not resizable), not a Go panic", func(p *pinEnv) {
		arr := [2]int{1, 2}
		p.set("arr", &arr)
		p.expect(`'use strict'; arr[5] = 1`, "throws TypeError")
		p.expect(`Object.defineProperty(arr, 7, {value: 1})`, "throws TypeError")
		p.expect(`arr.push(1)`, "throws TypeError")
		p.js(`arr[2] = 1`)
		p.check(arr == [2]int{1, 2}, "Go arr=%v", arr)
	}},
	{"nil-func-call", "calling a wrapped nil func: exception, not a Go panic", func(p *pinEnv) {
		type F struct{ F func(int) int }
		p.set("o", &F{})
		var nf func()
		p.set("nf", nf)
		_, t := p.js(`o.F(1)`)
		p.check(t != "", "calling a nil func field did not throw")
		_, t = p.js(`nf()`)
		p.check(t != "", "calling a nil func did not throw")
	}},
	{"nil-embedded-ptr", "reading a field promoted through a nil embedded pointer: no Go panic", func(p *pinEnv) {
		p.set("o", &RichP{})
		p.js(`o.PX; 'PX' in o; Object.keys(o); JSON.stringify(o); for (var k in o) o[k];`)
		p.js(`try { o.PX = 1 } catch (e) {}`)
	}},
	{"named-uint64-valueof", "a value of a named uint64 type above MaxInt64 is a positive Number", func(p *pinEnv) {
		p.set("u", MyU64(1<<63+5))
		p.expect(`+u > 0`, "true")
		p.expect(`u + 0 === 9223372036854775808`, "true")
	}},
	{"nil-map-write", "writing to a wrapped nil map of a reflect map type: exception or success, not a Go panic", func(p *pinEnv) {
		var nm map[string]int
		type H struct{ M map[string]int }
		p.set("nm", nm)
		p.set("h", &H{})
		p.js(`try { nm.a = 1 } catch (e) { if (!(e instanceof TypeError)) throw e }`)
		p.js(`try { h.M.a = 1 } catch (e) { if (!(e instanceof TypeError)) throw e }`)
		p.js(`try { Object.defineProperty(h.M, 'b', {value: 1}) } catch (e) { if (!(e instanceof TypeError)) throw e }`)
	}},
	{"cache-detached-on-throw", "a write whose conversion throws (BigInt → Number) must leave earlier element wrappers attached: later writes through the container still reach Go", func(p *pinEnv) {
		a := []S{{1}}
		p.set("a", &a)
		p.js(`var x = a[0]; try { a[0] = {Field: 1n} } catch (e) {}`)
		p.js(`a[0].Field = 7`)
		p.check(a[0].Field == 7, "Go a[0].Field=%d after `a[0].Field = 7` (a failed `a[0] = {Field: 1n}` came before)", a[0].Field)
		type T struct{ A [2]uint8 }
		t := &T{}
		p.set("t", t)
		p.js(`var y = t.A; try { t.A = [1n, 2] } catch (e) {}; t.A[1] = 5`)
		p.check(t.A[1] == 5, "Go t.A=%v after `t.A[1] = 5` (a failed `t.A = [1n, 2]` came before)", t.A)
	}},
	{"rebind-incomplete", "re-binding an element wrapper (slice growth, sort, detach) must keep it a pointer wrapper and re-bind the wrappers nested in it", func(p *pinEnv) {
		type In struct{ Z string }
		type Out struct{ F2 In }
		a := make([]Out, 1, 1)
		p.set("a", &a)
		p.js(`a[0].F2; a.length = 5; a[0].F2.Z = "x";`)
		p.check(a[0].F2.Z == "x", "Go a[0].F2.Z=%q after growth + `a[0].F2.Z = \"x\"`", a[0].F2.Z)
		e := []MyErr{{2}, {1}}
		p.set("e", &e)
		p.expect(`var x = e[0]; e.sort(function(p, q) { return p.Code - q.Code }); String(x)`, "MyErr<2>")
	}},
	{"jsonencodable-stale", "JSON.stringify of a by-value struct implementing JsonEncodable shows the current field values", func(p *pinEnv) {
		p.set("j", JE{A: 1, B: "a"})
		p.js(`j.B = "b"`)
		// (JsonEncodable returns a Go map: its key order in the JSON text is unspecified)
		p.expect(`var o = JSON.parse(JSON.stringify(j)); j.B + ':' + o.a + ':' + o.b`, `b:1:b`)
	}},
	{"jsfunc-conversion-panic", "a JS function stored in a Go func location and called from script: a result that does not convert is an exception, not a Go panic", func(p *pinEnv) {
		fs := []func() []uint32{nil}
		p.set("fs", &fs)
		p.js(`fs[0] = function() { return 1 }`)
		_, t := p.js(`fs[0]()`)
		p.check(t != "", "expected an exception")
	}},
	{"embedded-ptr-promoted-cache", "after an embedded pointer is replaced from script, fields promoted through it are read from the new target", func(p *pinEnv) {
		o := &RichP{PInner: &PInner{PX: 1, PS: []int{1}}}
		p.set("o", o)
		p.js(`var ps = o.PS; o.PInner = null;`)
		_, t := p.js(`if (o.PS !== undefined) throw new Error('stale')`)
		p.check(t == "" || t == "TypeError", "after `o.PInner = null` reading o.PS still yields the old slice (%s)", t)
		p.expect(`ps.length`, "1")
	}},
	{"ptr-element-slot-alias", "the wrapper of a pointer-typed element keeps referring to the value it was taken from: swap through a temporary and reverse() work on []*T", func(p *pinEnv) {
		a := []*S{{1}, {2}, {3}}
		p.set("a", &a)
		p.js(`var x = a[0]; a[0] = a[2]; a[2] = x;`)
		p.check(a[0].Field == 3 && a[2].Field == 1, "swap through a temporary: Go a = [%d %d %d], expected [3 2 1]", a[0].Field, a[1].Field, a[2].Field)
		b := []*S{{1}, {2}, {3}}
		p.set("b", &b)
		p.js(`b.reverse()`)
		p.check(b[0].Field == 3 && b[2].Field == 1, "reverse(): Go b = [%d %d %d], expected [3 2 1]", b[0].Field, b[1].Field, b[2].Field)
		c := []MyF32{1, 2, 3}
		d := []map[string]int{{"k": 1}, {"k": 2}, {"k": 3}}
		p.set("c", &c)
		p.set("d", &d)
		p.js(`c.reverse(); d.reverse()`)
		p.check(c[0] == 3 && c[2] == 1 && d[0]["k"] == 3 && d[2]["k"] == 1, "reverse(): Go c = %v d = %v, expected [3 2 1] / k: 3 2 1", c, d)
	}},
	{"cyclic-goslice-join", "a Go slice that (through script writes) contains itself: toString / join / toLocaleString return like for cyclic Arrays instead of overflowing the Go stack", func(p *pinEnv) {
		s := []interface{}{1}
		p.set("s", &s)
		p.expect(`s[0] = s; String(s) + '|' + s.toLocaleString()`, "|")
	}},
	{"export-array-twice", "one script array exported into a Go array type at two places of one ExportTo: both get the elements", func(p *pinEnv) {
		v, _ := p.js(`var n = [9, 13, 37]; ({A: n, B: n})`)
		var res struct{ A, B [3]int }
		err := p.r.ExportTo(v, &res)
		p.check(err == nil && res.A == [3]int{9, 13, 37} && res.B == res.A, "ExportTo({A: n, B: n}, &struct{A, B [3]int}) = %v (err %v), expected both [9 13 37]", res, err)
	}},
	{"doc-mixed-export-sharing", "one script object reached three times in one ExportTo (interface{}, map[string]int, interface{}): the generic exports are one map", func(p *pinEnv) {
		v, _ := p.js(`var o = {x: 1}; o.self = o; ({A: o, B: o, C: o, D: [o]})`)
		var res struct {
			A interface{}
			B map[string]int
			C interface{}
			D []interface{}
		}
		err := p.r.ExportTo(v, &res)
		a, _ := res.A.(map[string]interface{})
		c, _ := res.C.(map[string]interface{})
		p.check(err == nil && a != nil && c != nil && len(res.D) == 1, "ExportTo failed: %v %v", err, res)
		if a != nil && c != nil && len(res.D) == 1 {
			d, _ := res.D[0].(map[string]interface{})
			self, _ := a["self"].(map[string]interface{})
			a["mark"] = true
			p.check(c["mark"] == true && d["mark"] == true && self["mark"] == true && res.B["x"] == 1, "sharing lost: A=%v C=%v D[0]=%v A.self=%v B=%v", a, c, d, self, res.B)
		}
	}},
}

func runPin(i int) *violation {
	if fatalPins[pinned[i].Name] && os.Getenv("C13_CHILD") == "" {
		// run the witness in a child process (same binary, `one <index>`): a fatal error there is an ordinary observation here
		cmd := exec.Command(os.Args[0], "one", strconv.Itoa(-(i + 1)))
		cmd.Env = append(os.Environ(), "C13_CHILD=1")
		out, _ := cmd.CombinedOutput()
		if strings.Contains(string(out), fmt.Sprintf("index=%d: held", -(i+1))) {
			return nil
		}
		first := strings.SplitN(strings.TrimSpace(string(out)), "\n", 2)[0]
		return &violation{"host-crash", pinned[i].Name + ": the witness killed the (child) process or failed: " + core.Trunc(first, 300), "pinned:" + pinned[i].Name + ":host-crash"}
	}
	p := &pinEnv{r: gj.NewRuntime(), name: pinned[i].Name}
	goja.VerifSetFuel(p.r, 2_000_000)
	o := gjCall(func() { pinned[i].Run(p) })
	if o.Panic != nil && p.viol == nil {
		p.fail("go-panic-escaped", fmt.Sprintf("Go panic: %v\n%s", o.Panic, core.Trunc(o.PanicStack, 1500)))
	}
	return p.viol
}

func runPinned(c *core.Ctx, i int) core.Result {
	c.Stats.Inc("scenario:pinned")
	v := runPin(i)
	key := "pinned:" + pinned[i].Name
	if v == nil {
		return held(key, true)
	}
	v.detail = pinned[i].Doc + "\n" + v.detail
	return violated(v, map[string]string{"pinned": pinned[i].Name, "doc": pinned[i].Doc}, key)
}

// fixed(name): does the pinned witness of a finding pass on this tree? Evaluated once per process. While it fails, the
// finding's minimal neighbourhood is excluded from random generation (DESIGN section 5); once the fix is merged the
// exclusion lifts by itself.
var (
	fixedOnce sync.Once
	fixedMap  map[string]bool
)

func fixed(name string) bool {
	fixedOnce.Do(func() {
		fixedMap = map[string]bool{}
		for i, p := range pinned {
			if strings.HasPrefix(p.Name, "doc-") || fatalPins[p.Name] && os.Getenv("C13_CHILD") != "" {
				continue
			}
			fixedMap[p.Name] = runPin(i) == nil
		}
	})
	return fixedMap[name]
}

func fixedEqUncomparable() bool { return fixed("equal-uncomparable") }
func fixedDefineNoValue() bool  { return fixed("define-without-value") }
func fixedArrayOOB() bool       { return fixed("array-oob-write") }
func fixedNilFuncCall() bool    { return fixed("nil-func-call") }
func fixedNilEmbedded() bool    { return fixed("nil-embedded-ptr") }
func fixedNamedUint64() bool    { return fixed("named-uint64-valueof") }
func fixedNilMapWrite() bool    { return fixed("nil-map-write") }
func fixedCacheOnThrow() bool   { return fixed("cache-detached-on-throw") }
func fixedRebind() bool         { return fixed("rebind-incomplete") }
func fixedJsonEncodable() bool  { return fixed("jsonencodable-stale") }
func fixedJSFuncConv() bool     { return fixed("jsfunc-conversion-panic") }
func fixedEmbCache() bool       { return fixed("embedded-ptr-promoted-cache") }
func fixedPtrSlot() bool        { return fixed("ptr-element-slot-alias") }

func fixedArrayTwice() bool { return fixed("export-array-twice") }
func fixedCyclicJoin() bool { return fixed("cyclic-goslice-join") }

var _ = reflect.TypeOf
