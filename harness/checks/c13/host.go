package c13

import (
	"fmt"
	"reflect"
	"sort"
	"strconv"
	"strings"

	"github.com/dop251/goja"

	"verif/harness/core"
	"verif/harness/gj"
)

// ---------------------------------------------------------------------------------------------
// Scenario "host" (law 7): []interface{} (by value / by pointer) and map[string]interface{} against exact small models.
// Model, from the ToValue doc comment: a wrapped slice is an Array without holes (hasOwnProperty(n) iff n < length; delete sets the
// zero value — nil, shown as null; writing beyond length grows with nil; nil elements are null; beyond length undefined); a wrapped
// map is an Object whose own properties are the map entries; assigned script objects are Export()'ed (copied) into
// map[string]interface{} / []interface{}; assigned wrappers alias. Array.prototype methods are the generic ES algorithms on that.
// ---------------------------------------------------------------------------------------------

type mval interface{} // nil | int64 | float64 | string | bool | *mMap | *mSlice

type mMap struct{ m map[string]mval }
type mSlice struct{ s []mval }

type hostOp struct {
	Op   string   `json:"op"`
	I    int      `json:"i,omitempty"`
	J    int      `json:"j,omitempty"`
	K    string   `json:"k,omitempty"`
	K2   string   `json:"k2,omitempty"`
	Lits []string `json:"lits,omitempty"` // value literals (see hostLit)
}

type hostCase struct {
	Scenario string   `json:"scenario"`
	Root     string   `json:"root"` // slice-ptr | slice-val | map
	Init     []string `json:"init"` // literals of the initial elements / entries (maps: k=lit)
	Ops      []hostOp `json:"ops"`
	Script   []string `json:"script,omitempty"`
}

// value literals: a tiny language shared by JS source and model
var hostLits = []string{"0", "1", "2", "7", "10", "-3", "1.5", `"a"`, `"b"`, `"10"`, `""`, "true", "false", "null", "undefined", `{x:1}`, `{x:"a",y:null}`, `[1,2]`, `[]`, `{x:{y:2}}`, `["b",[3]]`}

func parseLit(s string) mval {
	s = strings.TrimSpace(s)
	switch {
	case s == "null" || s == "undefined":
		return nil
	case s == "true":
		return true
	case s == "false":
		return false
	case strings.HasPrefix(s, `"`):
		u, _ := strconv.Unquote(s)
		return u
	case strings.HasPrefix(s, "{"):
		m := &mMap{m: map[string]mval{}}
		for _, part := range splitTop(s[1 : len(s)-1]) {
			i := strings.Index(part, ":")
			m.m[strings.TrimSpace(part[:i])] = parseLit(part[i+1:])
		}
		return m
	case strings.HasPrefix(s, "["):
		sl := &mSlice{}
		for _, part := range splitTop(s[1 : len(s)-1]) {
			sl.s = append(sl.s, parseLit(part))
		}
		return sl
	}
	if i, err := strconv.ParseInt(s, 10, 64); err == nil {
		return i
	}
	f, _ := strconv.ParseFloat(s, 64)
	return f
}

func splitTop(s string) []string {
	var out []string
	depth, start := 0, 0
	inStr := false
	for i, c := range s {
		switch {
		case c == '"':
			inStr = !inStr
		case inStr:
		case c == '{' || c == '[':
			depth++
		case c == '}' || c == ']':
			depth--
		case c == ',' && depth == 0:
			out = append(out, s[start:i])
			start = i + 1
		}
	}
	if strings.TrimSpace(s[start:]) != "" {
		out = append(out, s[start:])
	}
	return out
}

// goOf builds the Go value of a literal as Export() is documented to produce it.
func goOf(v mval) interface{} {
	switch x := v.(type) {
	case *mMap:
		m := map[string]interface{}{}
		for k, e := range x.m {
			m[k] = goOf(e)
		}
		return m
	case *mSlice:
		s := make([]interface{}, len(x.s))
		for i, e := range x.s {
			s[i] = goOf(e)
		}
		return s
	}
	return v
}

func mRender(v mval) string {
	switch x := v.(type) {
	case nil:
		return "null"
	case int64:
		return renderNum(float64(x))
	case float64:
		return renderNum(x)
	case string:
		return renderStr(x)
	case bool:
		if x {
			return "b:true"
		}
		return "b:false"
	case *mMap:
		keys := make([]string, 0, len(x.m))
		for k := range x.m {
			keys = append(keys, k)
		}
		sort.Strings(keys)
		var b strings.Builder
		b.WriteByte('{')
		for i, k := range keys {
			if i > 0 {
				b.WriteByte(',')
			}
			b.WriteString(strconv.Quote(k) + ":" + mRender(x.m[k]))
		}
		b.WriteByte('}')
		return b.String()
	case *mSlice:
		var parts []string
		for _, e := range x.s {
			parts = append(parts, mRender(e))
		}
		return "[" + strings.Join(parts, ",") + "]"
	}
	return "?"
}

// mToString: ES ToString of the values of the alphabet (for the default sort order and join).
func mToString(v mval) string {
	switch x := v.(type) {
	case nil:
		return "null"
	case int64:
		return strconv.FormatInt(x, 10)
	case float64:
		return strconv.FormatFloat(x, 'f', -1, 64)
	case string:
		return x
	case bool:
		return strconv.FormatBool(x)
	case *mMap:
		return "[object Object]"
	case *mSlice:
		var parts []string
		for _, e := range x.s {
			if e == nil {
				parts = append(parts, "")
			} else {
				parts = append(parts, mToString(e))
			}
		}
		return strings.Join(parts, ",")
	}
	return "?"
}

// mStrictEq: === between two model values as script sees them (containers: wrapped-value identity)
func mStrictEq(a, b mval) bool {
	switch x := a.(type) {
	case int64:
		switch y := b.(type) {
		case int64:
			return x == y
		case float64:
			return float64(x) == y
		}
		return false
	case float64:
		switch y := b.(type) {
		case int64:
			return x == float64(y)
		case float64:
			return x == y
		}
		return false
	case *mMap, *mSlice:
		return false // identity of nested wrappers is not part of the model; callers avoid it
	}
	return a == b
}

type hostEnv struct {
	cs    *hostCase
	r     *goja.Runtime
	st    *core.Stats
	quiet bool
	sl    *mSlice // slice roots
	mp    *mMap   // map roots
	goSl  *[]interface{}
	goMp  map[string]interface{}
	root  goja.Value
}

var hostKeys = []string{"a", "b", "c", "k1", "0", "1", "x y", "length"}

func (e *hostEnv) build() {
	switch e.cs.Root {
	case "map":
		e.mp = &mMap{m: map[string]mval{}}
		e.goMp = map[string]interface{}{}
		for _, kv := range e.cs.Init {
			i := strings.Index(kv, "=")
			v := parseLit(kv[i+1:])
			e.mp.m[kv[:i]] = v
			e.goMp[kv[:i]] = goOf(v)
		}
		e.root = e.r.ToValue(e.goMp)
	default:
		e.sl = &mSlice{}
		s := make([]interface{}, 0, len(e.cs.Init)+1)
		for _, l := range e.cs.Init {
			v := parseLit(l)
			e.sl.s = append(e.sl.s, v)
			s = append(s, goOf(v))
		}
		e.goSl = &s
		if e.cs.Root == "slice-ptr" {
			e.root = e.r.ToValue(e.goSl)
		} else {
			e.root = e.r.ToValue(s)
		}
	}
	e.r.Set("a", e.root)
}

// expectation of one op: result rendering ("" = not compared) or the constructor name of the expected exception
type hostExp struct {
	js     string
	result string
	throws string
	skip   bool
}

func litAt(l []string, i int) string {
	if i < len(l) {
		return l[i]
	}
	return "null"
}

func (e *hostEnv) plan(op hostOp) hostExp {
	if e.sl != nil {
		return e.planSlice(op)
	}
	return e.planMap(op)
}

func jsLit(l string) string {
	if strings.HasPrefix(l, "{") {
		return "(" + l + ")"
	}
	return l
}

func (e *hostEnv) planSlice(op hostOp) hostExp {
	m := e.sl
	n := len(m.s)
	v0 := func() mval { return parseLit(litAt(op.Lits, 0)) }
	l0 := jsLit(litAt(op.Lits, 0))
	grow := func(to int) {
		for len(m.s) < to {
			m.s = append(m.s, nil)
		}
	}
	switch op.Op {
	case "get":
		x := hostExp{js: fmt.Sprintf("return R(a[%d], 0)", op.I), result: "undef"}
		if op.I < n {
			x.result = mRender(m.s[op.I])
		}
		return x
	case "set":
		grow(op.I + 1)
		m.s[op.I] = v0()
		return hostExp{js: fmt.Sprintf("a[%d] = %s", op.I, l0)}
	case "delete":
		if op.I < n {
			m.s[op.I] = nil
		}
		return hostExp{js: fmt.Sprintf("return R(delete a[%d], 0)", op.I), result: "b:true"}
	case "define":
		grow(op.I + 1)
		m.s[op.I] = v0()
		return hostExp{js: fmt.Sprintf("Object.defineProperty(a, %d, {value: %s})", op.I, l0)}
	case "define-accessor":
		return hostExp{js: fmt.Sprintf("Object.defineProperty(a, %d, {get: function() { return 1 }})", op.I), throws: "TypeError"}
	case "in":
		return hostExp{js: fmt.Sprintf("return R((%d in a) + ':' + a.hasOwnProperty(%d) + ':' + ('length' in a), 0)", op.I, op.I), result: renderStr(fmt.Sprintf("%v:%v:true", op.I < n, op.I < n))}
	case "keys":
		var ks []string
		for i := 0; i < n; i++ {
			ks = append(ks, strconv.Itoa(i))
		}
		return hostExp{js: "return R(Object.keys(a).join('|'), 0)", result: renderStr(strings.Join(ks, "|"))}
	case "for-in":
		var ks []string
		for i := 0; i < n; i++ {
			ks = append(ks, strconv.Itoa(i))
		}
		return hostExp{js: "var ks = []; for (var k in a) ks.push(k); return R(ks.join('|'), 0)", result: renderStr(strings.Join(ks, "|"))}
	case "json":
		return hostExp{js: "return RJ(a)", result: mRender(m)}
	case "spread":
		return hostExp{js: "return R([...a], 0)", result: mRender(m)}
	case "length-get":
		return hostExp{js: "return R(a.length, 0)", result: renderNum(float64(n))}
	case "push":
		var js []string
		for _, l := range op.Lits {
			m.s = append(m.s, parseLit(l))
			js = append(js, jsLit(l))
		}
		return hostExp{js: "return R(a.push(" + strings.Join(js, ", ") + "), 0)", result: renderNum(float64(len(m.s)))}
	case "pop":
		x := hostExp{js: "return R(a.pop(), 0)", result: "undef"}
		if n > 0 {
			x.result = mRender(m.s[n-1])
			m.s = m.s[:n-1]
		}
		return x
	case "shift":
		x := hostExp{js: "return R(a.shift(), 0)", result: "undef"}
		if n > 0 {
			x.result = mRender(m.s[0])
			m.s = append([]mval{}, m.s[1:]...)
		}
		return x
	case "unshift":
		var js []string
		var vs []mval
		for _, l := range op.Lits {
			vs = append(vs, parseLit(l))
			js = append(js, jsLit(l))
		}
		m.s = append(vs, m.s...)
		return hostExp{js: "return R(a.unshift(" + strings.Join(js, ", ") + "), 0)", result: renderNum(float64(len(m.s)))}
	case "splice":
		start, del := op.I, op.J
		if start > n {
			start = n
		}
		if del > n-start {
			del = n - start
		}
		removed := &mSlice{s: append([]mval{}, m.s[start:start+del]...)}
		var js []string
		var vs []mval
		for _, l := range op.Lits {
			vs = append(vs, parseLit(l))
			js = append(js, jsLit(l))
		}
		rest := append([]mval{}, m.s[start+del:]...)
		m.s = append(append(m.s[:start:start], vs...), rest...)
		args := fmt.Sprintf("%d, %d", op.I, op.J)
		if len(js) > 0 {
			args += ", " + strings.Join(js, ", ")
		}
		return hostExp{js: "return R(a.splice(" + args + "), 0)", result: mRender(removed)}
	case "sort":
		sort.SliceStable(m.s, func(i, j int) bool { return utf16Less(mToString(m.s[i]), mToString(m.s[j])) })
		return hostExp{js: "a.sort()"}
	case "sortnum":
		for _, x := range m.s {
			switch x.(type) {
			case int64, float64:
			default:
				return hostExp{skip: true}
			}
		}
		num := func(x mval) float64 {
			if i, ok := x.(int64); ok {
				return float64(i)
			}
			return x.(float64)
		}
		sort.SliceStable(m.s, func(i, j int) bool { return num(m.s[i]) > num(m.s[j]) })
		return hostExp{js: "a.sort(function(x, y) { return y - x })"}
	case "reverse":
		for i, j := 0, n-1; i < j; i, j = i+1, j-1 {
			m.s[i], m.s[j] = m.s[j], m.s[i]
		}
		return hostExp{js: "a.reverse()"}
	case "length-set":
		if op.I < n {
			m.s = m.s[:op.I]
		} else {
			grow(op.I)
		}
		return hostExp{js: fmt.Sprintf("a.length = %d", op.I)}
	case "indexOf":
		idx := -1
		v := v0()
		for i, x := range m.s {
			if _, isC := x.(*mMap); isC {
				continue
			}
			if _, isC := x.(*mSlice); isC {
				continue
			}
			if v != nil && mStrictEq(x, v) || v == nil && x == nil && litAt(op.Lits, 0) == "null" {
				idx = i
				break
			}
		}
		if litAt(op.Lits, 0) == "undefined" || strings.HasPrefix(litAt(op.Lits, 0), "{") || strings.HasPrefix(litAt(op.Lits, 0), "[") {
			return hostExp{skip: true}
		}
		return hostExp{js: "return R(a.indexOf(" + l0 + "), 0)", result: renderNum(float64(idx))}
	case "join":
		var parts []string
		for _, x := range m.s {
			if x == nil {
				parts = append(parts, "")
			} else {
				parts = append(parts, mToString(x))
			}
		}
		return hostExp{js: "return R(a.join('|'), 0)", result: renderStr(strings.Join(parts, "|"))}
	case "nested-set":
		if op.I >= n {
			return hostExp{skip: true}
		}
		switch x := m.s[op.I].(type) {
		case *mMap:
			x.m["x"] = v0()
			return hostExp{js: fmt.Sprintf("a[%d].x = %s", op.I, l0)}
		case *mSlice:
			if op.J < len(x.s) {
				x.s[op.J] = v0()
				return hostExp{js: fmt.Sprintf("a[%d][%d] = %s", op.I, op.J, l0)}
			}
		}
		return hostExp{skip: true}
	case "alias":
		if op.I >= n || op.J >= n {
			return hostExp{skip: true}
		}
		m.s[op.I] = m.s[op.J]
		return hostExp{js: fmt.Sprintf("a[%d] = a[%d]", op.I, op.J)}
	case "go-set":
		if op.I >= n {
			return hostExp{skip: true}
		}
		v := v0()
		m.s[op.I] = v
		// Go-side write through the original slice (by-value roots share the backing array only until the first re-allocation:
		// use the wrapper's own current slice)
		s := reflect.ValueOf(e.root.Export())
		if s.Kind() == reflect.Ptr {
			s = s.Elem()
		}
		s.Index(op.I).Set(reflect.ValueOf(&[]interface{}{goOf(v)}).Elem().Index(0))
		return hostExp{js: "/* Go-side write */"}
	}
	return hostExp{skip: true}
}

func utf16Less(a, b string) bool {
	// the alphabet is ASCII: UTF-16 code unit order = byte order
	return a < b
}

func (e *hostEnv) planMap(op hostOp) hostExp {
	m := e.mp
	v0 := func() mval { return parseLit(litAt(op.Lits, 0)) }
	l0 := jsLit(litAt(op.Lits, 0))
	k := jsStr(op.K)
	sortedKeys := func() []string {
		ks := make([]string, 0, len(m.m))
		for k := range m.m {
			ks = append(ks, k)
		}
		sort.Strings(ks)
		return ks
	}
	_, has := m.m[op.K]
	switch op.Op {
	case "get":
		x := hostExp{js: "return R(a[" + k + "], 0)", result: "undef"}
		if has {
			x.result = mRender(m.m[op.K])
		}
		return x
	case "set":
		m.m[op.K] = v0()
		return hostExp{js: "a[" + k + "] = " + l0}
	case "delete":
		delete(m.m, op.K)
		return hostExp{js: "return R(delete a[" + k + "], 0)", result: "b:true"}
	case "define":
		m.m[op.K] = v0()
		return hostExp{js: "Object.defineProperty(a, " + k + ", {value: " + l0 + "})"}
	case "define-accessor":
		return hostExp{js: "Object.defineProperty(a, " + k + ", {get: function() { return 1 }})", throws: "TypeError"}
	case "in":
		return hostExp{js: "return R((" + k + " in a) + ':' + a.hasOwnProperty(" + k + "), 0)", result: renderStr(fmt.Sprintf("%v:%v", has, has))}
	case "keys":
		return hostExp{js: "return R(Object.keys(a).sort(CMP).join('|'), 0)", result: renderStr(strings.Join(sortedKeys(), "|"))}
	case "for-in":
		return hostExp{js: "var ks = []; for (var k in a) ks.push(k); return R(ks.sort(CMP).join('|'), 0)", result: renderStr(strings.Join(sortedKeys(), "|"))}
	case "json":
		return hostExp{js: "return RJ(a)", result: mRender(m)}
	case "spread":
		return hostExp{js: "return R({...a}, 0)", result: mRender(m)}
	case "entries":
		return hostExp{js: "return R(Object.entries(a).length + Object.values(a).length + Object.getOwnPropertyNames(a).length, 0)", result: renderNum(float64(3 * len(m.m)))}
	case "assign":
		m.m[op.K] = v0()
		m.m[op.K2] = parseLit(litAt(op.Lits, 1))
		return hostExp{js: "Object.assign(a, {" + k + ": " + l0 + ", " + jsStr(op.K2) + ": " + jsLit(litAt(op.Lits, 1)) + "})"}
	case "nested-set":
		switch x := m.m[op.K].(type) {
		case *mMap:
			x.m["x"] = v0()
			return hostExp{js: "a[" + k + "].x = " + l0}
		case *mSlice:
			if op.J < len(x.s) {
				x.s[op.J] = v0()
				return hostExp{js: fmt.Sprintf("a[%s][%d] = %s", k, op.J, l0)}
			}
		}
		return hostExp{skip: true}
	case "alias":
		if _, ok := m.m[op.K2]; !ok {
			return hostExp{skip: true}
		}
		m.m[op.K] = m.m[op.K2]
		return hostExp{js: "a[" + k + "] = a[" + jsStr(op.K2) + "]"}
	case "go-set":
		v := v0()
		m.m[op.K] = v
		e.goMp[op.K] = goOf(v)
		return hostExp{js: "/* Go-side write */"}
	case "go-delete":
		delete(m.m, op.K)
		delete(e.goMp, op.K)
		return hostExp{js: "/* Go-side delete */"}
	}
	return hostExp{skip: true}
}

func execHost(cs *hostCase, st *core.Stats, quiet bool) (*violation, int, []string) {
	e := &hostEnv{cs: cs, r: gj.NewRuntime(), st: st, quiet: quiet}
	goja.VerifSetFuel(e.r, opsFuel)
	installNatives(e.r, nil)
	if _, err := e.r.RunString(jsPrelude); err != nil {
		panic(err)
	}
	e.build()
	var script []string
	check := func(after, opName string) *violation {
		o := gj.Call(func() (goja.Value, error) { return e.r.RunString("R(a, 0)") })
		if o.Panic != nil {
			return &violation{"go-panic-escaped", fmt.Sprintf("reading after %s: %v\n%s", after, o.Panic, core.Trunc(o.PanicStack, 1800)), panicSig(o) + "|host-read"}
		}
		if o.Err != nil || o.Fuel {
			return &violation{"host-model", fmt.Sprintf("reading after %s threw %v", after, o.Err), "host:read-throws:" + opName}
		}
		var want string
		if e.sl != nil {
			want = mRender(e.sl)
		} else {
			want = mRender(e.mp)
		}
		got := o.Val.String()
		exp := e.root.Export()
		gov := goView(reflect.ValueOf(exp), mapNil, 0)
		if !quiet {
			st.Inc("law7:states_checked")
		}
		if got != want || gov != want {
			which := "script"
			if got == want {
				which = "go"
			}
			return &violation{"host-model", fmt.Sprintf("after %s:\n script view: %s\n Go value   : %s\n model      : %s", after, core.Trunc(got, 900), core.Trunc(gov, 900), core.Trunc(want, 900)), "host:" + cs.Root + ":state-" + which + ":" + opName}
		}
		// law 1 for the pointer / map root
		switch cs.Root {
		case "slice-ptr":
			if p, ok := exp.(*[]interface{}); !ok || p != e.goSl {
				return &violation{"export-identity", fmt.Sprintf("after %s Export() is %T, not the original *[]interface{}", after, exp), "export-identity:host-slice-ptr"}
			}
		case "map":
			if mm, ok := exp.(map[string]interface{}); !ok || reflect.ValueOf(mm).Pointer() != reflect.ValueOf(e.goMp).Pointer() {
				return &violation{"export-identity", fmt.Sprintf("after %s Export() is %T, not the original map", after, exp), "export-identity:host-map"}
			}
		}
		return nil
	}
	if v := check("wrapping", "init"); v != nil {
		return v, -1, script
	}
	for i, op := range cs.Ops {
		x := e.plan(op)
		if x.skip {
			continue
		}
		script = append(script, x.js)
		after := fmt.Sprintf("op #%d `%s`", i, x.js)
		if !strings.HasPrefix(x.js, "/*") {
			o := gj.Call(func() (goja.Value, error) { return e.r.RunString("(function(){ 'use strict'; " + x.js + "\n})()") })
			if o.Panic != nil {
				return &violation{"go-panic-escaped", fmt.Sprintf("%s: Go panic escaped: %v\n%s", after, o.Panic, core.Trunc(o.PanicStack, 1800)), panicSig(o) + "|host:" + op.Op}, i, script
			}
			if o.Fuel {
				return &violation{monitor: "fuel"}, i, script
			}
			threw := ""
			if o.Err != nil {
				if ex, ok := o.Err.(*goja.Exception); ok {
					threw = gj.ErrorCtorName(e.r, ex.Value())
				} else {
					threw = fmt.Sprintf("%T", o.Err)
				}
			}
			if !quiet {
				st.Inc("host-op:" + cs.Root + ":" + op.Op)
			}
			if threw != x.throws {
				return &violation{"host-model", fmt.Sprintf("%s: expected %s, observed %s (%v)", after, orOK(x.throws), orOK(threw), o.Err), "host:" + cs.Root + ":outcome:" + op.Op + ":" + orOK(threw)}, i, script
			}
			if x.result != "" && threw == "" {
				if got := o.Val.String(); got != x.result {
					return &violation{"host-model", fmt.Sprintf("%s returned %s, the model says %s", after, got, x.result), "host:" + cs.Root + ":result:" + op.Op}, i, script
				}
			}
		}
		if v := check(after, op.Op); v != nil {
			return v, i, script
		}
	}
	if why := gj.IdleProblem(e.r, false); why != "" {
		return &violation{"vm-not-idle", why, "idle:" + why}, len(cs.Ops) - 1, script
	}
	return nil, -1, script
}

func runHost(c *core.Ctx) core.Result {
	r := c.Rng
	st := c.Stats
	st.Inc("scenario:host")
	cs := hostCase{Scenario: "host", Root: core.Pick(r, []string{"slice-ptr", "slice-ptr", "slice-val", "map", "map"})}
	n := r.Intn(5)
	for i := 0; i < n; i++ {
		l := core.Pick(r, hostLits)
		if l == "undefined" {
			l = "null"
		}
		if cs.Root == "map" {
			l = core.Pick(r, hostKeys) + "=" + l
		}
		cs.Init = append(cs.Init, l)
	}
	sliceOps := []string{"get", "get", "set", "set", "set", "delete", "define", "define-accessor", "in", "keys", "for-in", "json", "spread", "length-get", "push", "push", "pop", "shift", "unshift", "splice", "splice", "sort", "sortnum", "reverse", "length-set", "indexOf", "join", "nested-set", "alias", "go-set"}
	mapOps := []string{"get", "get", "set", "set", "set", "delete", "delete", "define", "define-accessor", "in", "keys", "for-in", "json", "spread", "entries", "assign", "nested-set", "alias", "go-set", "go-delete"}
	nops := r.Range(3, 20)
	goW, jsW := false, false
	for i := 0; i < nops; i++ {
		var op hostOp
		if cs.Root == "map" {
			op.Op = core.Pick(r, mapOps)
		} else {
			op.Op = core.Pick(r, sliceOps)
		}
		op.I = r.Intn(8)
		if r.Chance(1, 10) {
			op.I = r.Range(8, 40)
		}
		op.J = r.Intn(4)
		op.K, op.K2 = core.Pick(r, hostKeys), core.Pick(r, hostKeys)
		for k, nl := 0, r.Range(1, 3); k < nl; k++ {
			op.Lits = append(op.Lits, core.Pick(r, hostLits))
		}
		if op.Op == "splice" && r.Bool() {
			op.Lits = nil
		}
		switch op.Op {
		case "go-set", "go-delete":
			goW = true
			if op.Lits[0] == "undefined" {
				op.Lits[0] = "null"
			}
		case "set", "define", "push", "unshift", "splice", "nested-set", "alias", "assign", "delete", "length-set", "sort", "reverse", "shift", "pop":
			jsW = true
		}
		cs.Ops = append(cs.Ops, op)
	}
	v, at, script := execHost(&cs, st, false)
	cs.Script = script
	if c.Replay {
		fmt.Printf("--- case ---\n%+v\n", cs)
	}
	if v != nil && v.monitor == "fuel" {
		return core.Result{Verdict: core.Inconclusive, Monitor: "fuel"}
	}
	nontrivial := goW && jsW
	if st.WantSample() && nontrivial && c.Index%17 == 0 {
		st.Sample(cs)
	}
	if v == nil {
		return held(jsonKey(cs), nontrivial)
	}
	cs.Ops = cs.Ops[:at+1]
	quiet := core.NewStats()
	budget := 200
	for i := len(cs.Ops) - 2; i >= 0 && budget > 0; i-- {
		cand := cs
		cand.Ops = append(append([]hostOp{}, cs.Ops[:i]...), cs.Ops[i+1:]...)
		budget--
		if v2, _, _ := execHost(&cand, quiet, true); v2 != nil && v2.monitor == v.monitor && v2.sig == v.sig {
			cs.Ops = cand.Ops
		}
	}
	if v2, _, script := execHost(&cs, quiet, true); v2 != nil && v2.sig == v.sig {
		v = v2
		cs.Script = script
	}
	v.detail = fmt.Sprintf("root=%s init=%v\nscript: %s\n%s", cs.Root, cs.Init, strings.Join(cs.Script, "; "), v.detail)
	return violated(v, cs, jsonKey(cs))
}
