package c13

import (
	"fmt"
	"reflect"
	"strings"

	"github.com/dop251/goja"

	"verif/harness/core"
	"verif/harness/gj"
)

// ---------------------------------------------------------------------------------------------
// Scenario "graph" (law 3): a generated graph description → JS source building it → Export() / ExportTo into
// map[string]interface{} / []interface{} / *Node; the Go result must be isomorphic to the description, including sharing and cycles.
// ---------------------------------------------------------------------------------------------

type gEdge struct {
	Key  string `json:"key"`            // property name (objects) — arrays use position
	To   int    `json:"to"`             // node id, or -1 for a primitive
	Prim string `json:"prim,omitempty"` // JS literal of the primitive
}

type gNode struct {
	Arr   bool    `json:"arr,omitempty"`
	Edges []gEdge `json:"edges"`
}

type graphCase struct {
	Scenario string  `json:"scenario"`
	Mapper   string  `json:"mapper,omitempty"`
	Mode     string  `json:"mode"` // export | exportto-map | exportto-slice | node-ptr | node-val | node-map | node-slice
	Nodes    []gNode `json:"nodes"`
	Source   string  `json:"source"`
}

var gPrims = []struct{ js, view string }{{"1", "n:3ff0000000000000"}, {`"s"`, `s:"s"`}, {"null", "null"}, {"true", "b:true"}, {"2.5", "n:4004000000000000"}}

func genGraph(r *core.Rng, rootArr bool) []gNode {
	n := r.Range(1, 8)
	nodes := make([]gNode, n)
	for i := range nodes {
		nodes[i].Arr = r.Chance(1, 3)
	}
	nodes[0].Arr = rootArr
	for i := range nodes {
		ne := r.Intn(5)
		for k := 0; k < ne; k++ {
			e := gEdge{Key: fmt.Sprintf("p%d", k), To: -1}
			if r.Chance(2, 3) {
				e.To = r.Intn(n) // sharing and cycles (self loops included) arise by chance
			} else {
				e.Prim = gPrims[r.Intn(len(gPrims))].js
			}
			nodes[i].Edges = append(nodes[i].Edges, e)
		}
	}
	return nodes
}

func graphSource(nodes []gNode) string {
	var b strings.Builder
	for i, n := range nodes {
		if n.Arr {
			fmt.Fprintf(&b, "var n%d = [];\n", i)
		} else {
			fmt.Fprintf(&b, "var n%d = {};\n", i)
		}
	}
	for i, n := range nodes {
		for k, e := range n.Edges {
			val := e.Prim
			if e.To >= 0 {
				val = fmt.Sprintf("n%d", e.To)
			}
			if n.Arr {
				fmt.Fprintf(&b, "n%d[%d] = %s;\n", i, k, val)
			} else {
				fmt.Fprintf(&b, "n%d.%s = %s;\n", i, e.Key, val)
			}
		}
	}
	b.WriteString("n0")
	return b.String()
}

func primView(js string) string {
	for _, p := range gPrims {
		if p.js == js {
			return p.view
		}
	}
	return "?"
}

// identity of an exported container within one export ("" = not observable: empty slice)
func goIdentity(v reflect.Value) string {
	switch v.Kind() {
	case reflect.Map, reflect.Ptr:
		return fmt.Sprintf("%s@%x", v.Kind(), v.Pointer())
	case reflect.Slice:
		if v.Len() == 0 {
			return ""
		}
		return fmt.Sprintf("slice@%x/%d", v.Pointer(), v.Len())
	}
	return ""
}

// isoUntyped checks the Export() shape: objects → map[string]interface{}, arrays → []interface{}.
func isoUntyped(nodes []gNode, root interface{}) string {
	n2g := map[int]string{}
	g2n := map[string]int{}
	var walk func(id int, v interface{}, path string, depth int) string
	walk = func(id int, v interface{}, path string, depth int) string {
		rv := reflect.ValueOf(v)
		nd := nodes[id]
		if nd.Arr {
			if _, ok := v.([]interface{}); !ok {
				return fmt.Sprintf("%s: node n%d is an array, exported as %T", path, id, v)
			}
		} else if _, ok := v.(map[string]interface{}); !ok {
			return fmt.Sprintf("%s: node n%d is an object, exported as %T", path, id, v)
		}
		idn := goIdentity(rv)
		if idn != "" {
			if prev, seen := n2g[id]; seen {
				if prev != idn {
					return fmt.Sprintf("%s: node n%d was exported twice (%s and %s): sharing lost", path, id, prev, idn)
				}
				return ""
			}
			if other, seen := g2n[idn]; seen && other != id {
				return fmt.Sprintf("%s: distinct nodes n%d and n%d share one Go value %s", path, other, id, idn)
			}
			n2g[id], g2n[idn] = idn, id
		} else if depth > 3*len(nodes)+3 {
			return ""
		}
		// final value of each key/position (later assignments overwrite)
		if nd.Arr {
			s := v.([]interface{})
			if len(s) != len(nd.Edges) {
				return fmt.Sprintf("%s: array n%d has %d elements, exported %d", path, id, len(nd.Edges), len(s))
			}
			for k, e := range nd.Edges {
				if msg := walkEdge(e, s[k], fmt.Sprintf("%s[%d]", path, k), depth, walk); msg != "" {
					return msg
				}
			}
			return ""
		}
		m := v.(map[string]interface{})
		if len(m) != len(nd.Edges) {
			return fmt.Sprintf("%s: object n%d has %d properties, exported %d", path, id, len(nd.Edges), len(m))
		}
		for _, e := range nd.Edges {
			x, ok := m[e.Key]
			if !ok {
				return fmt.Sprintf("%s: property %s missing", path, e.Key)
			}
			if msg := walkEdge(e, x, path+"."+e.Key, depth, walk); msg != "" {
				return msg
			}
		}
		return ""
	}
	return walk(0, root, "root", 0)
}

func walkEdge(e gEdge, x interface{}, path string, depth int, walk func(int, interface{}, string, int) string) string {
	if e.To < 0 {
		got := goView(reflect.ValueOf(x), mapNil, 0)
		if got != primView(e.Prim) {
			return fmt.Sprintf("%s: primitive %s exported as %s", path, e.Prim, got)
		}
		return ""
	}
	return walk(e.To, x, path, depth+1)
}

// ---- Node-shaped graphs -------------------------------------------------------------------------

type nNode struct {
	Name  string         `json:"name"`
	Next  int            `json:"next"`  // node id or -1 (null)
	Other int            `json:"other"` // node id or -1
	Kids  int            `json:"kids"`  // kids-array id or -1 (null)
	M     map[string]int `json:"m,omitempty"`
}

type nodeGraph struct {
	Nodes []nNode `json:"nodes"`
	Kids  [][]int `json:"kidArrays"` // shared arrays of node ids
}

func genNodeGraph(r *core.Rng) nodeGraph {
	n := r.Range(1, 7)
	g := nodeGraph{Nodes: make([]nNode, n)}
	na := r.Intn(4)
	for a := 0; a < na; a++ {
		var ks []int
		for i, l := 0, r.Range(1, 4); i < l; i++ {
			ks = append(ks, r.Intn(n))
		}
		g.Kids = append(g.Kids, ks)
	}
	pick := func() int {
		if r.Chance(1, 3) {
			return -1
		}
		return r.Intn(n)
	}
	for i := range g.Nodes {
		nd := nNode{Name: fmt.Sprintf("node%d", i), Next: pick(), Other: pick(), Kids: -1}
		if na > 0 && r.Chance(2, 3) {
			nd.Kids = r.Intn(na)
		}
		if r.Chance(1, 3) {
			nd.M = map[string]int{}
			for k, l := 0, r.Range(1, 3); k < l; k++ {
				nd.M[fmt.Sprintf("k%d", k)] = r.Intn(n)
			}
		}
		g.Nodes[i] = nd
	}
	return g
}

func nodeFieldNames(mapper int) (name, next, other, kids, m string) {
	t := reflect.TypeOf(Node{})
	f := func(n string) string { sf, _ := t.FieldByName(n); return jsFieldName(mapper, sf) }
	return f("Name"), f("Next"), f("Other"), f("Kids"), f("M")
}

func nodeGraphSource(g nodeGraph, mapper int, mode string) string {
	fn, fx, fo, fk, fm := nodeFieldNames(mapper)
	var b strings.Builder
	for i := range g.Nodes {
		fmt.Fprintf(&b, "var n%d = {};\n", i)
	}
	for a := range g.Kids {
		fmt.Fprintf(&b, "var k%d = [", a)
		for i, id := range g.Kids[a] {
			if i > 0 {
				b.WriteByte(',')
			}
			fmt.Fprintf(&b, "n%d", id)
		}
		b.WriteString("];\n")
	}
	ref := func(id int) string {
		if id < 0 {
			return "null"
		}
		return fmt.Sprintf("n%d", id)
	}
	for i, nd := range g.Nodes {
		fmt.Fprintf(&b, "n%d.%s = %s; n%d.%s = %s; n%d.%s = %s;\n", i, fn, jsStr(nd.Name), i, fx, ref(nd.Next), i, fo, ref(nd.Other))
		if nd.Kids >= 0 {
			fmt.Fprintf(&b, "n%d.%s = k%d;\n", i, fk, nd.Kids)
		}
		if nd.M != nil {
			fmt.Fprintf(&b, "n%d.%s = {", i, fm)
			first := true
			for k := 0; k < 3; k++ {
				key := fmt.Sprintf("k%d", k)
				if id, ok := nd.M[key]; ok {
					if !first {
						b.WriteByte(',')
					}
					first = false
					fmt.Fprintf(&b, "%s: n%d", key, id)
				}
			}
			b.WriteString("};\n")
		}
	}
	switch mode {
	case "node-map":
		b.WriteString("({a: n0, b: n0, c: n" + fmt.Sprint(len(g.Nodes)-1) + "})")
	case "node-slice":
		b.WriteString("[n0, n" + fmt.Sprint(len(g.Nodes)-1) + ", n0]")
	default:
		b.WriteString("n0")
	}
	return b.String()
}

// isoNodes checks a *Node graph against the description starting at (id, p).
type nodeIso struct {
	g     nodeGraph
	n2p   map[int]*Node
	p2n   map[*Node]int
	kid2s map[int]string
}

func (x *nodeIso) walk(id int, p *Node, path string) string {
	if p == nil {
		return fmt.Sprintf("%s: node n%d exported as nil", path, id)
	}
	if prev, seen := x.n2p[id]; seen {
		if prev != p {
			return fmt.Sprintf("%s: node n%d was exported to two different *Node (%p, %p): sharing lost", path, id, prev, p)
		}
		return ""
	}
	if other, seen := x.p2n[p]; seen && other != id {
		return fmt.Sprintf("%s: distinct nodes n%d and n%d share one *Node", path, other, id)
	}
	x.n2p[id], x.p2n[p] = p, id
	nd := x.g.Nodes[id]
	if p.Name != nd.Name {
		return fmt.Sprintf("%s: name %q, expected %q", path, p.Name, nd.Name)
	}
	for _, e := range []struct {
		f  string
		to int
		p  *Node
	}{{"next", nd.Next, p.Next}, {"other", nd.Other, p.Other}} {
		if e.to < 0 {
			if e.p != nil {
				return fmt.Sprintf("%s.%s: null exported as non-nil", path, e.f)
			}
			continue
		}
		if msg := x.walk(e.to, e.p, path+"."+e.f); msg != "" {
			return msg
		}
	}
	if nd.Kids < 0 {
		if len(p.Kids) != 0 {
			return fmt.Sprintf("%s.kids: absent, exported with %d elements", path, len(p.Kids))
		}
	} else {
		want := x.g.Kids[nd.Kids]
		if len(p.Kids) != len(want) {
			return fmt.Sprintf("%s.kids: %d elements, expected %d", path, len(p.Kids), len(want))
		}
		idn := goIdentity(reflect.ValueOf(p.Kids))
		if prev, seen := x.kid2s[nd.Kids]; seen && prev != idn {
			return fmt.Sprintf("%s.kids: the shared array k%d was exported twice (%s, %s): sharing lost", path, nd.Kids, prev, idn)
		}
		x.kid2s[nd.Kids] = idn
		for i, id2 := range want {
			if msg := x.walk(id2, p.Kids[i], fmt.Sprintf("%s.kids[%d]", path, i)); msg != "" {
				return msg
			}
		}
	}
	if len(p.M) != len(nd.M) {
		return fmt.Sprintf("%s.m: %d entries, expected %d", path, len(p.M), len(nd.M))
	}
	for k := 0; k < 3; k++ {
		key := fmt.Sprintf("k%d", k)
		if id2, ok := nd.M[key]; ok {
			if msg := x.walk(id2, p.M[key], path+".m."+key); msg != "" {
				return msg
			}
		}
	}
	return ""
}

func runGraph(c *core.Ctx) core.Result {
	r := c.Rng
	st := c.Stats
	st.Inc("scenario:graph")
	mapper := r.Intn(3)
	rt := gj.NewRuntime()
	goja.VerifSetFuel(rt, opsFuel)
	rt.SetMaxCallStackSize(400)
	setMapper(rt, mapper)
	mode := core.Pick(r, []string{"export", "export", "exportto-map", "exportto-slice", "node-ptr", "node-ptr", "node-val", "node-map", "node-slice", "mixed", "mixed", "mixed", "mixed"})
	cs := graphCase{Scenario: "graph", Mapper: mapperNames[mapper], Mode: mode}
	st.Inc("graph:" + mode)
	if mode == "mixed" {
		return runGraphMixed(c, r, rt)
	}
	if c.Replay {
		fmt.Printf("--- case --- scenario=graph mode=%s mapper=%s\n", mode, cs.Mapper)
	}
	fail := func(monitor, detail, sig string) core.Result {
		v := &violation{monitor, fmt.Sprintf("mode=%s mapper=%s\n%s\nsource:\n%s", mode, cs.Mapper, detail, core.Trunc(cs.Source, 1500)), sig}
		return violated(v, cs, jsonKey(cs))
	}
	evalSrc := func(src string) (goja.Value, *core.Result) {
		o := gj.Call(func() (goja.Value, error) { return rt.RunString(src) })
		if o.Panic != nil || o.Err != nil || o.Fuel {
			res := fail("harness-graph", fmt.Sprintf("graph source does not evaluate: %v %v", o.Err, o.Panic), "harness-graph")
			return nil, &res
		}
		return o.Val, nil
	}
	switch mode {
	case "export", "exportto-map", "exportto-slice":
		nodes := genGraph(r, mode == "exportto-slice" || mode == "export" && r.Chance(1, 3))
		cs.Nodes = nodes
		cs.Source = graphSource(nodes)
		v, bad := evalSrc(cs.Source)
		if bad != nil {
			return *bad
		}
		var out interface{}
		var err error
		o := gjCall(func() {
			switch mode {
			case "export":
				out = v.Export()
			case "exportto-map":
				var m map[string]interface{}
				err = rt.ExportTo(v, &m)
				out = m
			default:
				var s []interface{}
				err = rt.ExportTo(v, &s)
				out = s
			}
		})
		if o.Panic != nil {
			return fail("go-panic-escaped", fmt.Sprintf("export panicked: %v\n%s", o.Panic, core.Trunc(o.PanicStack, 1800)), panicSig(o)+"|graph")
		}
		if err != nil {
			return fail("graph-export", "ExportTo failed: "+err.Error(), "graph-export:error:"+mode)
		}
		shared, cyc := graphStats(nodes)
		st.Count("graph:shared_nodes", int64(shared))
		if cyc {
			st.Inc("graph:cyclic")
		}
		st.Inc("law3:checked")
		if msg := isoUntyped(nodes, out); msg != "" {
			return fail("graph-export", msg, "graph-export:"+mode+":"+sigClass(msg))
		}
		return held(jsonKey(cs), shared > 0 || cyc)
	}
	g := genNodeGraph(r)
	cs.Source = nodeGraphSource(g, mapper, mode)
	cs.Nodes = nil
	type nodeCase struct {
		graphCase
		Graph nodeGraph `json:"graph"`
	}
	nc := nodeCase{cs, g}
	failN := func(monitor, detail, sig string) core.Result {
		v := &violation{monitor, fmt.Sprintf("mode=%s mapper=%s\n%s\nsource:\n%s", mode, cs.Mapper, detail, core.Trunc(cs.Source, 1500)), sig}
		return violated(v, nc, jsonKey(nc))
	}
	v, bad := evalSrc(cs.Source)
	if bad != nil {
		return *bad
	}
	iso := &nodeIso{g: g, n2p: map[int]*Node{}, p2n: map[*Node]int{}, kid2s: map[int]string{}}
	var err error
	var msg string
	last := len(g.Nodes) - 1
	o := gjCall(func() {
		switch mode {
		case "node-ptr":
			var p *Node
			if err = rt.ExportTo(v, &p); err == nil {
				msg = iso.walk(0, p, "root")
			}
		case "node-val":
			var n Node
			if err = rt.ExportTo(v, &n); err == nil {
				// the root is a value: its pointer identity is not part of the graph; check its out-edges
				root := g.Nodes[0]
				if n.Name != root.Name {
					msg = "root name differs"
				}
				for _, e := range []struct {
					f  string
					to int
					p  *Node
				}{{"next", root.Next, n.Next}, {"other", root.Other, n.Other}} {
					if msg != "" {
						break
					}
					if e.to < 0 {
						if e.p != nil {
							msg = "root." + e.f + ": null exported as non-nil"
						}
					} else {
						msg = iso.walk(e.to, e.p, "root."+e.f)
					}
				}
			}
		case "node-map":
			var m map[string]*Node
			if err = rt.ExportTo(v, &m); err == nil {
				if len(m) != 3 {
					msg = fmt.Sprintf("map has %d entries, expected 3", len(m))
				}
				for _, k := range []struct {
					k  string
					id int
				}{{"a", 0}, {"b", 0}, {"c", last}} {
					if msg == "" {
						msg = iso.walk(k.id, m[k.k], "root."+k.k)
					}
				}
			}
		case "node-slice":
			var s []*Node
			if err = rt.ExportTo(v, &s); err == nil {
				if len(s) != 3 {
					msg = fmt.Sprintf("slice has %d entries, expected 3", len(s))
				} else {
					for i, id := range []int{0, last, 0} {
						if msg == "" {
							msg = iso.walk(id, s[i], fmt.Sprintf("root[%d]", i))
						}
					}
				}
			}
		}
	})
	if o.Panic != nil {
		return failN("go-panic-escaped", fmt.Sprintf("ExportTo panicked: %v\n%s", o.Panic, core.Trunc(o.PanicStack, 1800)), panicSig(o)+"|graph")
	}
	if err != nil {
		return failN("graph-export", "ExportTo failed: "+err.Error(), "graph-export:error:"+mode)
	}
	st.Inc("law3:checked")
	st.Count("graph:node_ptrs_matched", int64(len(iso.n2p)))
	if msg != "" {
		return failN("graph-export", msg, "graph-export:"+mode+":"+sigClass(msg))
	}
	return held(jsonKey(nc), len(iso.n2p) >= 2)
}

func sigClass(msg string) string {
	for _, k := range []string{"sharing lost", "share one", "exported as", "missing", "elements", "properties", "entries", "name", "primitive"} {
		if strings.Contains(msg, k) {
			return k
		}
	}
	return "other"
}

// graphStats: number of nodes with in-degree >= 2 among reachable nodes, and whether a cycle is reachable.
func graphStats(nodes []gNode) (shared int, cyclic bool) {
	indeg := map[int]int{}
	state := map[int]int{}
	final := func(n gNode) []gEdge { return n.Edges }
	var dfs func(i int)
	dfs = func(i int) {
		state[i] = 1
		for _, e := range final(nodes[i]) {
			if e.To < 0 {
				continue
			}
			indeg[e.To]++
			switch state[e.To] {
			case 0:
				dfs(e.To)
			case 1:
				cyclic = true
			}
		}
		state[i] = 2
	}
	dfs(0)
	for _, d := range indeg {
		if d >= 2 {
			shared++
		}
	}
	return
}
