// Package c13: "Go<->JS value bridge: round-trip identity and aliasing coherence".
//
// Workload: random Go values of generated types (hand-declared catalogue composed with reflect.StructOf/MapOf/SliceOf/ArrayOf/
// PointerTo/FuncOf, nesting <= 4) under the three FieldNameMappers; script op sequences <= 20 on the wrappers interleaved with
// Go-side writes. No full semantic model of the host objects; monitors are the laws of the ToValue / ExportTo doc comments:
//
//	law 1 round trip   Export(ToValue(x)) is x (same pointer/map/slice; documented Go type for primitives)      roundtrip.go
//	law 2 ExportTo     ExportTo(ToValue(x), &T) deep-equals x; ExportTo(eval(literal(x)), &T) shows x             roundtrip.go
//	law 3 graphs       exported script graphs keep sharing and cycles (isomorphism description <-> Go pointers)   graph.go
//	law 4 coherence    old wrapper = fresh wrapper = Go value after every op                                       ops.go
//	law 5 write-through a successful script write shows in Go as the ExportTo conversion; Go writes show in script  ops.go
//	law 6 copy-on-change alias / detach-on-reassign / sort-adjusts / shrink-detaches against a small reference model  cow.go
//	law 7 host objects []interface{} and map[string]interface{} against exact small models                         host.go
//	law 8 equality     ==, ===, Object.is, Map/Set keys of two wrappers: no panic, reflexive, symmetric            ops.go
//	law 9 no Go panic  escapes any script op on a wrapper (gj.Call classifier)                                     everywhere
package c13

import (
	"encoding/json"
	"fmt"
	"reflect"
	"runtime/debug"
	"strings"

	"verif/harness/core"
)

func init() {
	// an export that loses its identity cache recurses forever on a cyclic graph: die quickly (the parent attributes the death to the case)
	debug.SetMaxStack(96 << 20)
}

func Check() *core.Check {
	return &core.Check{
		ID:    "C13",
		Level: "exploration",
		Rule: "case = one scenario drawn from {ops: random Go value of a generated type (nesting<=4) wrapped by pointer or by value under nil/Tag/Uncap FieldNameMapper + <=20 script ops interleaved with Go-side writes; " +
			"roundtrip: ToValue/Export/ExportTo of a random value and of its JS literal; graph: script-built object graph with sharing and cycles exported through Export()/ExportTo; " +
			"cow: copy-on-change op sequences on nested struct/array elements vs reference model; host: []interface{} / map[string]interface{} op sequences vs exact models; funcs: reflect-wrapped funcs called with right and wrong arity/types}; " +
			"non-trivial = the type has nesting >= 2 and the sequence mixes Go-side and script-side writes (ops), resp. the scenario executed >= 3 checked law instances; distinct = distinct materialised cases",
		Assumptions: []string{
			"indices written to Go slice wrappers stay <= 40 (a[hugeIndex]=v grows the Go slice by construction)",
			"numbers written to 64-bit integer locations stay below 2^62 in magnitude (larger ones are C05's subject)",
			"Go-side writes are in place (no re-slicing behind the wrappers), strings are valid UTF-8, map keys are not NaN",
			"no two locations of one Go value share a backing array of compound elements (script never copies such a slice header between locations)",
			"host methods of the catalogue never panic; a panicking host function is a foreign panic (C14)",
			"the minimal neighbourhood of each listed known finding is excluded from random generation until its pinned witness passes (see pinned.go)",
		},
		Cases: func(tier string) int {
			if tier == "thorough" {
				return 500000
			}
			return 30000
		},
		MinConclusive: func(tier string) int { return 1000 },
		NumPinned:     len(pinned),
		CaseTimeoutS:  60,
		Run:           run,
	}
}

func run(c *core.Ctx) core.Result {
	if c.Index < 0 {
		return runPinned(c, -c.Index-1)
	}
	r := c.Rng
	switch r.PickW([]int{46, 12, 10, 12, 14, 6}) {
	case 0:
		return runOps(c)
	case 1:
		return runRoundtrip(c)
	case 2:
		return runGraph(c)
	case 3:
		return runCow(c)
	case 4:
		return runHost(c)
	default:
		return runFuncs(c)
	}
}

func held(key string, nontrivial bool) core.Result {
	return core.Result{Verdict: core.Held, NonTrivial: nontrivial, Key: key}
}

func violated(v *violation, cs any, key string) core.Result {
	return core.Result{Verdict: core.Violated, NonTrivial: true, Key: key, Monitor: v.monitor, Detail: v.detail, Signature: v.sig, Case: cs}
}

func jsonKey(v any) string {
	b, _ := json.Marshal(v)
	return string(b)
}

// ---------------------------------------------------------------------------------------------
// ops scenario driver
// ---------------------------------------------------------------------------------------------

type opsParams struct {
	SubjSeed uint64
	Mapper   int
	ByVal    bool
	Depth    int
}

// execOps wraps the subject and runs ops. gen != nil: ops are generated on the fly (n of them) and recorded.
func execOps(c *core.Ctx, st *core.Stats, p opsParams, ops []opRec, gen *core.Rng, n int) (v *violation, rec []opRec, failedAt int, e *env, scriptWrites, goWrites int) {
	e = newEnv(c, st, p.Mapper)
	t, ptr := mkSubject(p.SubjSeed, p.Depth)
	e.t, e.rootPtr, e.byVal = t, ptr, p.ByVal
	var arg interface{} = ptr.Interface()
	if p.ByVal {
		arg = ptr.Elem().Interface()
	}
	o := gjCall(func() { e.w = e.r.ToValue(arg); e.r.Set("w", e.w) })
	if v, _ := e.judgeOutcome("ToValue", o); v != nil {
		return v, nil, -1, e, 0, 0
	}
	for i := 0; i < 4; i++ {
		e.r.Set(fmt.Sprintf("h%d", i), nil)
	}
	if v := e.coherence("wrapping"); v != nil {
		return v, nil, -1, e, 0, 0
	}
	total := len(ops)
	if gen != nil {
		total = n
	}
	for i := 0; i < total; i++ {
		var op opRec
		if gen != nil {
			root, v := e.goRoot()
			if v != nil {
				return v, rec, i, e, scriptWrites, goWrites
			}
			if !root.IsValid() {
				break
			}
			op = e.genOp(gen, root)
		} else {
			op = ops[i]
		}
		v := e.execOp(i, &op)
		rec = append(rec, op)
		if v != nil && v.monitor == "fuel" {
			return v, rec, i, e, scriptWrites, goWrites
		}
		switch op.Kind {
		case "goset":
			goWrites++
		case "set", "define", "arraymeth", "regrow", "set-wrapper", "set-held", "held-write", "delete", "method":
			scriptWrites++
		}
		if v == nil {
			v = e.coherence(fmt.Sprintf("op #%d %s `%s`", i, op.Kind, core.Trunc(op.JS+op.Path, 200)))
		}
		if v != nil {
			v.sig = v.sig + "|op=" + op.Kind
			return v, rec, i, e, scriptWrites, goWrites
		}
	}
	return nil, rec, -1, e, scriptWrites, goWrites
}

func describeValue(v reflect.Value) string {
	return core.Trunc(fmt.Sprintf("%+v", v.Interface()), 600)
}

func runOps(c *core.Ctx) core.Result {
	r := c.Rng
	p := opsParams{SubjSeed: r.U64(), Mapper: r.Intn(3), ByVal: r.Chance(1, 5), Depth: r.Range(1, 4)}
	n := r.Range(3, 20)
	gen := r.Fork()
	st := c.Stats
	t, ptr := mkSubject(p.SubjSeed, p.Depth)
	if t.K == "iface" || t.K == "bigint" || t.K == "func" {
		p.ByVal = true // *interface{} / **big.Int / *func are outside the documented mapping
	}
	st.Inc("scenario:ops")
	st.SetAdd("mappers", mapperNames[p.Mapper])
	t.kindsOf(func(k string) { st.SetAdd("kind_x_mapper", k+"/"+mapperNames[p.Mapper]) })
	st.Max("type_nesting_max", int64(t.Depth))
	cs := opsCase{Scenario: "ops", Mapper: mapperNames[p.Mapper], Type: t.describe(), Root: map[bool]string{false: "ptr", true: "val"}[p.ByVal], Value: describeValue(ptr.Elem()), SubjSeed: p.SubjSeed}
	v, rec, failedAt, _, sw, gw := execOps(c, st, p, nil, gen, n)
	cs.Ops = rec
	st.Count("ops_executed", int64(len(rec)))
	if c.Replay {
		b, _ := json.MarshalIndent(cs, "", " ")
		fmt.Printf("--- case ---\n%s\n", b)
	}
	if v != nil && v.monitor == "fuel" {
		return core.Result{Verdict: core.Inconclusive, Monitor: "fuel"}
	}
	nontrivial := t.Depth >= 2 && sw > 0 && gw > 0
	if st.WantSample() && nontrivial && c.Index%11 == 0 {
		st.Sample(cs)
	}
	key := jsonKey(cs)
	if v == nil {
		return held(key, nontrivial)
	}
	// minimise: drop ops while the same monitor and signature fire (bounded re-execution)
	cs.FailedAt = failedAt
	ops := append([]opRec{}, rec...)
	budget := 200
	quiet := core.NewStats()
	try := func(cand []opRec) bool {
		if budget <= 0 {
			return false
		}
		budget--
		cp := append([]opRec{}, cand...)
		v2, _, _, _, _, _ := execOps(c, quiet, p, cp, nil, 0)
		return v2 != nil && v2.monitor == v.monitor && v2.sig == v.sig
	}
	if failedAt >= 0 {
		ops = ops[:failedAt+1]
		for i := len(ops) - 2; i >= 0; i-- {
			cand := append(append([]opRec{}, ops[:i]...), ops[i+1:]...)
			if try(cand) {
				ops = cand
			}
		}
		v2, _, _, _, _, _ := execOps(c, quiet, p, append([]opRec{}, ops...), nil, 0)
		if v2 != nil && v2.monitor == v.monitor && v2.sig == v.sig {
			v = v2
			cs.Ops = ops
			cs.FailedAt = len(ops) - 1
			v.detail += fmt.Sprintf("\n(minimised from %d ops to %d)", len(rec), len(ops))
		}
	}
	v.detail = fmt.Sprintf("mapper=%s root=%s type=%s\nvalue=%s\n%s", cs.Mapper, cs.Root, cs.Type, cs.Value, v.detail)
	return violated(v, cs, key)
}

func opNames(ops []opRec) string {
	var s []string
	for _, o := range ops {
		s = append(s, o.Kind)
	}
	return strings.Join(s, ",")
}
