package c13

import (
	"fmt"
	"reflect"
	"sort"
	"strconv"
	"strings"

	"github.com/dop251/goja"

	"verif/harness/core"
	"verif/harness/gj"
)

// ---------------------------------------------------------------------------------------------
// Scenario "ops": a random Go value wrapped once (w); a sequence of <= 20 script ops and Go-side writes; after every op
// the monitors of laws 1 (Export identity), 4 (view coherence old wrapper = fresh wrapper = Go), 5 (write-through),
// 8 (equality), 9 (no Go panic) run.
// ---------------------------------------------------------------------------------------------

type opRec struct {
	Kind string `json:"kind"`
	JS   string `json:"js,omitempty"`   // script op: body of a strict function; `w` old wrapper, `h0..h3` held values
	Path string `json:"path,omitempty"` // JS path of the location the op addresses (for law 5 / Go-side writes)
	// law-5 expectation
	View      string `json:"view,omitempty"`
	Known     bool   `json:"known,omitempty"`
	Fail      bool   `json:"fail,omitempty"`
	IfaceType string `json:"ifaceType,omitempty"`
	LitKind   string `json:"litKind,omitempty"`
	// Go-side write: value generated from this seed for the type found at Path
	GoSeed uint64 `json:"goSeed,omitempty"`
	Src    string `json:"src,omitempty"` // set-wrapper: JS path of the wrapper that is written (expected view computed at execution time)
	Del    bool   `json:"del,omitempty"` // Go-side map delete
}

type opsCase struct {
	Scenario string  `json:"scenario"`
	Mapper   string  `json:"mapper"`
	Type     string  `json:"type"`
	Root     string  `json:"root"` // "ptr" | "val"
	Value    string  `json:"value"`
	SubjSeed uint64  `json:"subjSeed"`
	Ops      []opRec `json:"ops"`
	FailedAt int     `json:"failedAt,omitempty"`
}

type step struct {
	kind byte // 'f' struct field, 'i' index, 'k' map key
	anon bool // embedded field
	js   string
	idx  int
	fidx []int
	key  reflect.Value
}

type loc struct {
	js    string
	steps []step
	v     reflect.Value
	t     reflect.Type
	addr  bool // a successful script write at this location lands in the Go value (documented caveats 2/3 excluded)
	depth int
}

type violation struct {
	monitor, detail, sig string
}

type env struct {
	held    map[string]string // holder variable → JS path it was taken from
	heldPtr map[string]bool   // … and whether the location is of pointer type
	c       *core.Ctx
	st      *core.Stats
	r       *goja.Runtime
	mapper  int
	t       *tnode
	rootPtr reflect.Value // pointer to the subject value
	byVal   bool
	w       goja.Value
	frozen  bool // an op made the old wrapper behave differently from a fresh one by design (proto / extensibility): stop comparing keys via inherited paths
}

const opsFuel = 3_000_000

func newEnv(c *core.Ctx, st *core.Stats, mapper int) *env {
	r := gj.NewRuntime()
	r.SetMaxCallStackSize(300)
	goja.VerifSetFuel(r, opsFuel)
	setMapper(r, mapper)
	installNatives(r, core.NewRng(c.Seed*0x9e3779b97f4a7c15+uint64(int64(c.Index))))
	if _, err := r.RunString(jsPrelude); err != nil {
		panic(err)
	}
	return &env{c: c, st: st, r: r, mapper: mapper}
}

// mkSubject deterministically builds type and value from a seed.
func mkSubject(seed uint64, maxDepth int) (*tnode, reflect.Value) {
	r := core.NewRng(seed)
	var t *tnode
	for {
		t = genType(r, maxDepth)
		if t.K != "func" && t.Depth >= 1 || r.Chance(1, 6) {
			break
		}
	}
	p := reflect.New(t.T)
	fill(r, t, p.Elem(), 3, true)
	return t, p
}

func (e *env) run(src string) gj.Outcome {
	return gj.Call(func() (goja.Value, error) { return e.r.RunString(src) })
}

func panicSig(o gj.Outcome) string {
	msg := strings.SplitN(fmt.Sprint(o.Panic), "\n", 2)[0]
	// strip type names / numbers after well-known prefixes so that the signature is stable across generated types
	for _, p := range []string{"comparing uncomparable type", "reflect: call of", "interface conversion:", "reflect.Set: value of type", "reflect.Value.Convert: value of type", "reflect.Value.SetMapIndex: value of type", "reflect: Call using", "reflect: Call with too"} {
		if i := strings.Index(msg, p); i >= 0 {
			msg = msg[:i+len(p)]
		}
	}
	var b strings.Builder
	for _, c := range core.Trunc(msg, 100) {
		if c >= '0' && c <= '9' {
			continue
		}
		b.WriteRune(c)
	}
	return "panic:" + b.String() + "@" + firstGojaFrame(o.PanicStack)
}

func firstGojaFrame(stack string) string {
	lines := strings.Split(stack, "\n")
	for _, l := range lines {
		if !strings.HasPrefix(l, "github.com/dop251/goja.") {
			continue
		}
		if strings.Contains(l, "handleThrow") || strings.Contains(l, ".func") && (strings.Contains(l, "RunProgram") || strings.Contains(l, "runTryInner") || strings.Contains(l, "runWrapped") || strings.Contains(l, ".try.")) || strings.Contains(l, "Verif") {
			continue
		}
		if k := strings.LastIndex(l, "("); k > 0 {
			l = l[:k]
		}
		return strings.TrimPrefix(l, "github.com/dop251/goja.")
	}
	return ""
}

// judgeOutcome: law 9 and harness-level conditions common to every script evaluation.
func (e *env) judgeOutcome(what string, o gj.Outcome) (*violation, bool) {
	switch {
	case o.Panic != nil:
		return &violation{"go-panic-escaped", fmt.Sprintf("%s: Go panic escaped a script operation on a wrapper: %v\n%s", what, core.Trunc(fmt.Sprint(o.Panic), 300), core.Trunc(o.PanicStack, 2200)), panicSig(o)}, false
	case o.Assertion != nil:
		return &violation{"verif-assertion", o.Assertion.Error(), "assert:" + o.Assertion.Hook}, false
	case o.Fuel:
		return nil, false
	}
	if o.Err != nil {
		if _, ok := o.Err.(*goja.Exception); !ok {
			return &violation{"undocumented-error-kind", fmt.Sprintf("%s: error of Go type %T: %v", what, o.Err, o.Err), "errkind:" + gj.ErrKind(o.Err)}, false
		}
	}
	return nil, true
}

// goRoot returns the Go value behind the old wrapper (law 1: for a pointer root it must be that very pointer).
func (e *env) goRoot() (reflect.Value, *violation) {
	var exp interface{}
	o := gj.Call(func() (goja.Value, error) { exp = e.w.Export(); return nil, nil })
	if v, _ := e.judgeOutcome("Export()", o); v != nil {
		return reflect.Value{}, v
	}
	rv := reflect.ValueOf(exp)
	if !e.byVal {
		if d := derefAll(e.rootPtr); d.Kind() == reflect.Ptr || d.Kind() == reflect.Interface {
			// a nil pointer (or nil interface) somewhere on the chain: "Nil is converted to null"
			if d.Type() != typBigInt {
				if exp != nil {
					return rv, &violation{"export-identity", fmt.Sprintf("Export() of the wrapper of a nil %s is %T %v, expected nil", d.Type(), exp, exp), "export-identity:nil"}
				}
				return rv, nil
			}
		}
		if !rv.IsValid() || rv.Kind() != reflect.Ptr || rv.Pointer() != e.rootPtr.Pointer() || rv.Type() != e.rootPtr.Type() {
			return rv, &violation{"export-identity", fmt.Sprintf("Export() of the wrapper of a %s does not return that pointer: got %T %v", e.rootPtr.Type(), exp, exp), "export-identity:ptr"}
		}
	}
	return rv, nil
}

// coherence: law 4.
func (e *env) coherence(after string) *violation {
	root, v := e.goRoot()
	if v != nil {
		return v
	}
	var fresh goja.Value
	o := gj.Call(func() (goja.Value, error) {
		if root.IsValid() {
			fresh = e.r.ToValue(root.Interface())
		} else {
			fresh = e.r.ToValue(nil)
		}
		return nil, e.r.Set("f", fresh)
	})
	if v, _ := e.judgeOutcome("ToValue (fresh wrapper)", o); v != nil {
		return v
	}
	o = e.run(`[R(w,0), R(f,0)]`)
	if v, ok := e.judgeOutcome("reading all paths", o); v != nil || !ok {
		return v
	}
	if o.Err != nil {
		return &violation{"read-throws", fmt.Sprintf("%s: reading the wrapper's properties throws: %v", after, o.Err), "read-throws"}
	}
	arr := o.Val.Export().([]interface{})
	old, fr := arr[0].(string), arr[1].(string)
	gv := goView(root, e.mapper, 0)
	e.st.Inc("law4:coherence_checked")
	if old != fr || old != gv {
		which := "old-vs-fresh"
		if old == fr {
			which = "script-vs-go"
		} else if fr == gv {
			which = "old-vs-go"
		}
		return &violation{"view-incoherent", fmt.Sprintf("after %s the three views differ (%s):\n old wrapper : %s\n fresh wrapper: %s\n Go value    : %s", after, which, core.Trunc(old, 1500), core.Trunc(fr, 1500), core.Trunc(gv, 1500)), "view-incoherent:" + which}
	}
	return nil
}

// locs enumerates the addressable paths of the current Go value.
func (e *env) locs(root reflect.Value) []loc {
	var out []loc
	var walk func(v reflect.Value, js string, steps []step, addr bool, depth int)
	walk = func(v reflect.Value, js string, steps []step, addr bool, depth int) {
		if depth > 5 || len(out) > 200 {
			return
		}
		out = append(out, loc{js: js, steps: steps, v: v, t: v.Type(), addr: addr, depth: depth})
		x := v
		below := addr
		for x.Kind() == reflect.Ptr || x.Kind() == reflect.Interface {
			if x.Type() == typBigInt || x.IsNil() {
				return
			}
			if x.Kind() == reflect.Interface {
				k := x.Elem().Kind()
				below = k == reflect.Ptr || k == reflect.Map
			} else {
				below = true
			}
			x = x.Elem()
		}
		if x.Type().PkgPath() == "github.com/dop251/goja" {
			return
		}
		ext := func(s step) []step { return append(append([]step{}, steps...), s) }
		switch x.Kind() {
		case reflect.Struct:
			if x.Type() == typTime {
				return
			}
			for _, f := range visibleFields(x.Type(), e.mapper) {
				fv, ok := fieldByIndexSafe(x, f.Index)
				if !ok {
					continue
				}
				j := js + "[" + jsStr(f.JS) + "]"
				walk(fv, j, ext(step{kind: 'f', js: f.JS, fidx: f.Index, anon: f.Anon}), below, depth+1)
			}
		case reflect.Slice, reflect.Array:
			for i := 0; i < x.Len() && i < 6; i++ {
				walk(x.Index(i), js+"["+strconv.Itoa(i)+"]", ext(step{kind: 'i', idx: i}), below, depth+1)
			}
		case reflect.Map:
			if x.Type().NumMethod() > 0 || !mapKeySupported(x.Type().Key().Kind()) {
				return
			}
			keys := x.MapKeys()
			sortKeys(keys)
			ek := x.Type().Elem().Kind()
			// values of struct/array/slice kind are handed out as copies (doc caveat 3)
			sub := !(ek == reflect.Struct || ek == reflect.Array || ek == reflect.Slice || ek == reflect.Interface)
			for i, k := range keys {
				if i >= 5 {
					break
				}
				ks := fmt.Sprintf("%v", k.Interface())
				walk(x.MapIndex(k), js+"["+jsStr(ks)+"]", ext(step{kind: 'k', js: ks, key: k}), sub, depth+1)
			}
		}
	}
	walk(root, "w", nil, true, 0)
	return out
}

func sortKeys(keys []reflect.Value) {
	// insertion sort by %v text (deterministic, tiny inputs)
	for i := 1; i < len(keys); i++ {
		for j := i; j > 0 && fmt.Sprintf("%v", keys[j].Interface()) < fmt.Sprintf("%v", keys[j-1].Interface()); j-- {
			keys[j], keys[j-1] = keys[j-1], keys[j]
		}
	}
}

// resolve re-walks a recorded JS path ("w["a"][0]") against the current Go value.
func (e *env) resolve(root reflect.Value, path string) (loc, bool) {
	for _, l := range e.locs(root) {
		if l.js == path {
			return l, true
		}
	}
	return loc{}, false
}

// derefAll strips pointers and interfaces.
func derefAll(v reflect.Value) reflect.Value {
	for v.IsValid() && (v.Kind() == reflect.Ptr || v.Kind() == reflect.Interface) {
		if v.Type() == typBigInt || v.IsNil() {
			return v
		}
		v = v.Elem()
	}
	return v
}

var catalogueMethods = map[string][]string{ // type name → method, JS argument list
	"Inner": {"PtrM|"}, "PInner": {"PGet|"}, "Rich": {"ValueRecv|", "SetName|\"zz\"", "SetName|5", "Incr|", "PtrM|"}, "RichP": {"Describe|", "PGet|"},
	"NamedMap": {"Len|"}, "Str": {"String|"}, "MyErr": {"Error|"}, "JE": {"JsonEncodable|"}, "MyStr": {"Upper|"},
}

// genOp produces the next op for the current state.
func (e *env) genOp(r *core.Rng, root reflect.Value) opRec {
	ls := e.locs(root)
	pick := func(pred func(l loc) bool) (loc, bool) {
		var c []loc
		for _, l := range ls {
			if pred(l) {
				c = append(c, l)
			}
		}
		if len(c) == 0 {
			return loc{}, false
		}
		return c[r.Intn(len(c))], true
	}
	kindOf := func(l loc) reflect.Kind {
		d := derefAll(l.v)
		if !d.IsValid() {
			return reflect.Invalid
		}
		return d.Kind()
	}
	isObj := func(l loc) bool {
		switch kindOf(l) {
		case reflect.Struct, reflect.Map, reflect.Slice, reflect.Array:
			d := derefAll(l.v)
			return !(d.Kind() == reflect.Ptr || d.Kind() == reflect.Interface) && d.Type() != typTime
		}
		return false
	}
	isArrLike := func(l loc) bool {
		k := kindOf(l)
		return (k == reflect.Slice || k == reflect.Array) && !derefIsNilPtr(l.v)
	}
	holder := func() string { return fmt.Sprintf("h%d", r.Intn(4)) }
	for attempt := 0; attempt < 8; attempt++ {
		switch r.PickW([]int{26, 8, 12, 6, 5, 5, 10, 6, 5, 4, 4, 4, 5, 4}) {
		case 0: // script write  PATH = LIT
			l, ok := pick(func(l loc) bool { return len(l.steps) > 0 })
			if !ok {
				continue
			}
			li := genLit(r, l.t, e.mapper, 2)
			if e.writeExcluded(l, ls) {
				continue
			}
			op := opRec{Kind: "set", JS: l.js + " = " + li.JS, Path: l.js, LitKind: li.Kind}
			if l.addr || parentIsMap(l) {
				op.View, op.Known, op.Fail, op.IfaceType = li.View, li.Known, li.Fail, li.IfaceType
			}
			return op
		case 1: // hold an element wrapper, then maybe use it later
			l, ok := pick(isObj)
			if !ok {
				continue
			}
			h := holder()
			if e.heldPtr == nil {
				e.heldPtr = map[string]bool{}
			}
			e.heldPtr[h] = slotAliased(l.t)
			return opRec{Kind: "hold", JS: h + " = " + l.js, Src: l.js}
		case 2: // Go-side write (leaf values, map entries, pointer targets) — in place, never re-slicing (see DESIGN: Go-side
			// reallocation of a slice is invisible to element wrappers handed out earlier, which the doc does not promise to track)
			if e.byVal && root.Kind() != reflect.Map && root.Kind() != reflect.Slice {
				continue
			}
			l, ok := pick(func(l loc) bool {
				if len(l.steps) == 0 || !l.v.CanSet() && l.steps[len(l.steps)-1].kind != 'k' {
					return false
				}
				switch l.t.Kind() {
				case reflect.Slice, reflect.Func:
					return false
				}
				// a Go-side replacement of an embedded pointer is not "in place" for the fields promoted through it
				if last := l.steps[len(l.steps)-1]; last.anon && l.t.Kind() == reflect.Ptr || containsEmbeddedPtr(l.t) {
					return false
				}
				return !e.writeExcluded(l, nil)
			})
			if !ok {
				continue
			}
			return opRec{Kind: "goset", Path: l.js, GoSeed: r.U64() | 1, Del: l.steps[len(l.steps)-1].kind == 'k' && r.Chance(1, 4)}
		case 3: // delete
			l, ok := pick(func(l loc) bool { return len(l.steps) > 0 })
			if !ok {
				continue
			}
			return opRec{Kind: "delete", JS: "delete " + l.js, Path: l.js}
		case 4: // defineProperty with a value
			l, ok := pick(func(l loc) bool { return len(l.steps) > 0 })
			if !ok {
				continue
			}
			if e.writeExcluded(l, ls) {
				continue
			}
			li := genLit(r, l.t, e.mapper, 2)
			last := l.steps[len(l.steps)-1]
			key := jsStr(last.js)
			if last.kind == 'i' {
				key = strconv.Itoa(last.idx)
			}
			parent := strings.TrimSuffix(l.js, lastSeg(l.js))
			op := opRec{Kind: "define", JS: "Object.defineProperty(" + parent + ", " + key + ", {value: " + li.JS + "})", Path: l.js, LitKind: li.Kind}
			if l.addr || parentIsMap(l) {
				op.View, op.Known, op.Fail, op.IfaceType = li.View, li.Known, li.Fail, li.IfaceType
			}
			return op
		case 5: // accessor define / descriptor flags / freeze / seal / preventExtensions / proto / symbol
			l, ok := pick(isObj)
			if !ok {
				continue
			}
			d := derefAll(l.v)
			if derefIsNilMap(d) && !fixedNilMapWrite() {
				continue // on numeric-keyed maps even "__proto__" is a key: a write to a nil map (known finding C13-nil-map-write)
			}
			switch r.Intn(8) {
			case 0:
				return opRec{Kind: "accessor", JS: "Object.defineProperty(" + l.js + ", " + e.someKey(r, d) + ", {get: function(){ return 1 }})"}
			case 1:
				if !fixedDefineNoValue() {
					continue // Object.seal defines {configurable:false} without a value (known finding C13-define-without-value)
				}
				return opRec{Kind: "seal", JS: "Object.seal(" + l.js + ")"}
			case 2:
				return opRec{Kind: "freeze", JS: "Object.freeze(" + l.js + ")"}
			case 3:
				return opRec{Kind: "preventExtensions", JS: "Object.preventExtensions(" + l.js + ")"}
			case 4:
				if d.Kind() == reflect.Map && (d.Type().Key().Kind() == reflect.Float32 || d.Type().Key().Kind() == reflect.Float64) {
					// once the prototype is gone "__proto__" is an ordinary name, i.e. the NaN key of a float-keyed map
					return opRec{Kind: "setproto", JS: "Object.setPrototypeOf(" + l.js + ", null)"}
				}
				return opRec{Kind: "setproto", JS: core.Pick(r, []string{l.js + ".__proto__ = null", "Object.setPrototypeOf(" + l.js + ", {})", l.js + ".__proto__ = Array.prototype", l.js + ".__proto__ = 5"})}
			case 5:
				return opRec{Kind: "symbol", JS: "var s = Symbol('q'); " + l.js + "[s] = 1; if (" + l.js + "[s] !== 1 && typeof " + l.js + " === 'object' && " + l.js + " !== null) throw new Error('symbol lost')"}
			case 6:
				if d.Kind() != reflect.Struct {
					continue
				}
				return e.descOp(r, l, d)
			default:
				if !fixedDefineNoValue() {
					continue
				}
				return opRec{Kind: "define-novalue", JS: "Object.defineProperty(" + l.js + ", " + e.someKey(r, d) + ", {enumerable: true})"}
			}
		case 6: // array methods on slices / arrays
			l, ok := pick(isArrLike)
			if !ok {
				continue
			}
			d := derefAll(l.v)
			et := d.Type().Elem()
			if d.Kind() == reflect.Array && !fixedArrayOOB() {
				// growing writes on Go arrays panic (known finding C13-array-oob-write): only in-range methods
				meths := []string{".reverse()", ".sort()", ".fill(null, 0, 1)", ".copyWithin(0, 1)", ".pop()", ".shift()", ".length = 0"}
				if !fixedRebind() && nestedContainer(et) {
					meths = []string{".reverse()", ".fill(null, 0, 1)", ".copyWithin(0, 1)", ".pop()"} // (sort re-binds wrappers: see below)
				}
				if !fixedPtrSlot() && slotAliased(et) {
					meths = meths[1:] // reverse duplicates such elements (known finding C13-ptr-element-slot-alias)
				}
				m := core.Pick(r, meths)
				if strings.HasPrefix(m, ".copyWithin") && aliasesContainers(et) {
					m = ".pop()"
				}
				return opRec{Kind: "arraymeth", JS: l.js + m, Path: l.js, LitKind: methTag(m)}
			}
			lits := func(n int) string {
				var s []string
				for i := 0; i < n; i++ {
					s = append(s, genLit(r, et, e.mapper, 1).JS)
				}
				return strings.Join(s, ", ")
			}
			n := d.Len()
			var js string
			pickOp := r.Intn(15)
			if pickOp >= 12 {
				// shrink-then-regrow cycle: look at (and hold) high elements, truncate below them, grow beyond them again and look
				// at the last element first; the coherence check that follows reads every index in random order
				if !fixedRebind() && nestedContainer(et) {
					pickOp = 1
				} else {
					k := 0
					if n > 0 {
						k = r.Intn(n)
					}
					h := holder()
					js := "var a = " + l.js + ", n = a.length; if (n) { " + h + " = a[n - 1]; var lo = a[" + strconv.Itoa(k) + "]; } " +
						core.Pick(r, []string{"a.length = " + strconv.Itoa(k), "a.splice(" + strconv.Itoa(k) + ")", "while (a.length > " + strconv.Itoa(k) + ") a.pop()"}) + "; "
					for c, m := 0, n-k+r.Intn(2); c < m; c++ {
						js += "a.push(" + lits(1) + "); "
					}
					js += "return typeof a[a.length - 1]"
					delete(e.held, h)
					return opRec{Kind: "regrow", JS: js, Path: l.js}
				}
			}
			if !fixedRebind() && nestedContainer(et) {
				// growing the slice re-allocates; wrappers of containers nested inside the elements are not re-bound
				// (known finding C13-rebind-incomplete): only non-growing methods until that is fixed
				pickOp = []int{1, 2, 7, 10, 10, 1, 2, 7, 10, 10, 1, 2}[pickOp]
			}
			if !fixedRebind() && pickOp >= 5 && pickOp <= 6 && (hasPtrMethods(et) || nestedContainer(et)) {
				pickOp = 7 // sort re-binds element wrappers: they lose their pointer-ness and nested wrappers are not re-bound (same finding)
			}
			if !fixedPtrSlot() && pickOp == 7 && slotAliased(et) {
				pickOp = 1 // reverse duplicates such elements (known finding C13-ptr-element-slot-alias)
			}
			if pickOp == 10 && aliasesContainers(et) {
				pickOp = 1 // copyWithin would duplicate slice headers of compound elements (see aliasesContainers)
			}
			switch pickOp {
			case 0:
				js = ".push(" + lits(r.Range(1, 2)) + ")"
			case 1:
				js = ".pop()"
			case 2:
				js = ".shift()"
			case 3:
				js = ".unshift(" + lits(1) + ")"
			case 4:
				js = fmt.Sprintf(".splice(%d, %d, %s)", r.Intn(n+1), r.Intn(3), lits(r.Intn(2)))
				js = strings.Replace(js, ", )", ")", 1)
			case 5:
				js = ".sort()"
			case 6:
				js = ".sort(function(a, b) { return (a < b) ? 1 : (a > b) ? -1 : 0 })"
			case 7:
				js = ".reverse()"
			case 8:
				js = fmt.Sprintf(".length = %d", r.Intn(n+4))
			case 9:
				js = fmt.Sprintf("[%d] = %s", n+r.Intn(4), lits(1))
			case 10:
				js = fmt.Sprintf(".copyWithin(0, %d)", r.Intn(n+1))
			default:
				js = ".fill(" + lits(1) + ")"
			}
			return opRec{Kind: "arraymeth", JS: l.js + js, Path: l.js, LitKind: methTag(js)}
		case 7: // read-only object protocol: in / keys / for-in / JSON / spread / entries
			l, ok := pick(isObj)
			if !ok {
				continue
			}
			d := derefAll(l.v)
			p := l.js
			switch r.Intn(7) {
			case 0:
				return opRec{Kind: "in", JS: "return (" + e.someKey(r, d) + " in " + p + ")"}
			case 1:
				return opRec{Kind: "keys", JS: "return Object.keys(" + p + ").length + Object.getOwnPropertyNames(" + p + ").length"}
			case 2:
				return opRec{Kind: "for-in", JS: "var n = 0; for (var k in " + p + ") n++; return n"}
			case 3:
				if !fixedJsonEncodable() && strings.Contains(e.t.T.String(), "c13.JE") {
					continue // JsonEncodable of a by-value struct is bound to a snapshot (known finding C13-jsonencodable-stale)
				}
				return opRec{Kind: "json", JS: "return RJ(" + p + ")"}
			case 4:
				if d.Kind() == reflect.Slice || d.Kind() == reflect.Array {
					return opRec{Kind: "spread", JS: "return [..." + p + "].length"}
				}
				return opRec{Kind: "spread", JS: "return Object.keys({..." + p + "}).length"}
			case 5:
				return opRec{Kind: "entries", JS: "return Object.entries(" + p + ").length + Object.values(" + p + ").length"}
			default:
				return opRec{Kind: "hasOwn", JS: "return Object.prototype.hasOwnProperty.call(" + p + ", " + e.someKey(r, d) + ")"}
			}
		case 8: // equality between two wrappers (law 8)
			a, ok1 := pick(isObj)
			b, ok2 := pick(isObj)
			if !ok1 || !ok2 {
				continue
			}
			bj := b.js
			switch r.Intn(4) {
			case 0:
				bj = strings.Replace(bj, "w", "f", 1) // through the fresh wrapper
			case 1:
				bj = holder()
			}
			if e.eqExcluded(a) || e.eqExcluded(b) {
				continue
			}
			return opRec{Kind: "eq", JS: eqProbe(a.js, bj)}
		case 9: // catalogue method calls
			l, ok := pick(func(l loc) bool {
				d := derefAll(l.v)
				if !d.IsValid() || d.Kind() == reflect.Ptr || d.Kind() == reflect.Interface {
					return false
				}
				_, ok := catalogueMethods[d.Type().Name()]
				return ok && d.Type().PkgPath() == pkgPath
			})
			if !ok {
				continue
			}
			d := derefAll(l.v)
			m := strings.SplitN(core.Pick(r, catalogueMethods[d.Type().Name()]), "|", 2)
			return opRec{Kind: "method", JS: l.js + "[" + jsStr(jsMethodName(e.mapper, m[0])) + "](" + m[1] + ")"}
		case 10: // func values: calls with right / wrong arity and types
			l, ok := pick(func(l loc) bool { return kindOf(l) == reflect.Func })
			if !ok {
				continue
			}
			d := derefAll(l.v)
			if d.IsNil() && !fixedNilFuncCall() {
				continue // calling a wrapped nil func panics (known finding C13-nil-func-call)
			}
			var args []string
			for i, n := 0, r.Intn(5); i < n; i++ {
				args = append(args, core.Pick(r, []string{"1", "-1.5", `"s"`, "true", "null", "undefined", "({})", "[1,2]", "({Field:1})", "Symbol()", "300", "NaN", "w", "function(){}", "5n"}))
			}
			return opRec{Kind: "call", JS: l.js + "(" + strings.Join(args, ", ") + ")"}
		case 11: // write through a held wrapper / another wrapper as the written value
			l, ok := pick(func(l loc) bool { return len(l.steps) > 0 && isObj(l) })
			if !ok {
				continue
			}
			src, ok2 := pick(func(m loc) bool { return m.t == l.t && len(m.steps) > 0 })
			if !ok2 || e.writeExcluded(l, ls) {
				continue
			}
			if aliasesContainers(l.t) {
				// copying a slice header makes two locations of the Go value share one backing array of compound elements; the
				// element wrappers reached through the two paths cannot know of each other (like Go-side re-slicing: outside the
				// documented copy-on-change tracking)
				continue
			}
			if r.Chance(1, 3) {
				h := holder()
				hp, ok := e.held[h]
				if !ok || strings.HasPrefix(l.js, hp) || strings.HasPrefix(hp, l.js) {
					continue // writing a container into itself: outside the documented domain
				}
				if e.heldPtr[h] && !fixedPtrSlot() {
					continue // the wrapper of a pointer-typed slot exports the slot's current content (known finding C13-ptr-element-slot-alias)
				}
				hl, hok := e.resolve(root, hp)
				if !fixedRebind() && (!hok || hl.t != l.t) {
					continue // a failing element conversion leaves the re-attached wrapper with a stale element cache (C13-rebind-incomplete)
				}
				if d := derefAll(l.v); d.IsValid() && d.Kind() == reflect.Map && (!hok || hl.t != l.t) {
					if k := d.Type().Key().Kind(); k == reflect.Float32 || k == reflect.Float64 {
						continue // an object with non-numeric property names would put the NaN key into a float-keyed map
					}
				}
				if !fixedCyclicJoin() && (!hok || sharesRef(hl.v, root, l.steps)) {
					// the written value (transitively) references a container on the path to the target: a cyclic Go value, whose
					// toString / join recurses until the Go stack overflows (known finding C13-cyclic-goslice-join)
					continue
				}
				return opRec{Kind: "set-held", JS: l.js + " = " + h, Src: h + "=" + hp}
			}
			op := opRec{Kind: "set-wrapper", JS: l.js + " = " + src.js, Path: l.js, Src: src.js, LitKind: "wrapper"}
			if l.addr && src.js != l.js && !strings.HasPrefix(src.js, l.js) && !strings.HasPrefix(l.js, src.js) {
				op.Known = true
			}
			return op
		case 12: // property write through a held wrapper (copy-on-change territory; laws 4 and 9 only)
			h := holder()
			return opRec{Kind: "held-write", JS: "if (typeof " + h + " === 'object' && " + h + " !== null) { var ks = Object.keys(" + h + "); if (ks.length) " + h + "[ks[0]] = " + core.Pick(r, []string{"7", `"hw"`, "null", "({})", "[]", "true"}) + " }"}
		default: // odd keys on containers: negative / fractional / huge-but-harmless indices, unknown names
			l, ok := pick(isObj)
			if !ok {
				continue
			}
			d := derefAll(l.v)
			key := core.Pick(r, []string{"-1", `"-0"`, "1.5", `"01"`, `"zzz"`, `"length"`, `"constructor"`, `"toString"`, `"valueOf"`, "4294967296", `"__proto__"`, "Symbol.iterator", "Symbol.toPrimitive"})
			if strings.HasPrefix(key, "Symbol.") && !fixedCacheOnThrow() {
				key = `"zzz"` // a broken @@iterator / @@toPrimitive makes later conversions throw mid-write (known finding C13-cache-detached-on-throw)
			}
			if (d.Kind() == reflect.Slice) && key == "4294967296" {
				continue // growing a Go slice to a huge index allocates by construction (RECON): excluded
			}
			if d.Kind() == reflect.Array && !fixedArrayOOB() {
				continue
			}
			if d.Kind() == reflect.Map && derefIsNilMap(d) && !fixedNilMapWrite() {
				continue
			}
			if d.Kind() == reflect.Map {
				switch d.Type().Key().Kind() {
				case reflect.Float32, reflect.Float64:
					key = core.Pick(r, []string{"-1", `"-0"`, "1.5", `"01"`, "4294967296"}) // non-numeric names would become the NaN key
				case reflect.Uint, reflect.Uint64, reflect.Int, reflect.Int64:
					key = core.Pick(r, []string{`"-0"`, "1.5", `"01"`, `"zzz"`, "7"}) // keys beyond 2^53 do not survive the string round trip
				}
			}
			if r.Bool() {
				return opRec{Kind: "oddkey-read", JS: "return typeof " + l.js + "[" + key + "]"}
			}
			return opRec{Kind: "oddkey-write", JS: l.js + "[" + key + "] = " + core.Pick(r, []string{"1", `"v"`, "null", "({})"})}
		}
	}
	return opRec{Kind: "keys", JS: "return Object.keys(Object(w)).length"}
}

// nestedContainer: values of type t (a slice element) contain further non-pointer compound values.
func nestedContainer(t reflect.Type) bool {
	switch t.Kind() {
	case reflect.Struct:
		for i := 0; i < t.NumField(); i++ {
			switch t.Field(i).Type.Kind() {
			case reflect.Struct, reflect.Array, reflect.Slice:
				return true
			}
		}
	case reflect.Array:
		switch t.Elem().Kind() {
		case reflect.Struct, reflect.Array, reflect.Slice:
			return true
		}
	}
	return false
}

// hasPtrMethods: *t has methods that t lacks (pointer-receiver Stringer / error implementations).
func hasPtrMethods(t reflect.Type) bool {
	return t.Kind() != reflect.Ptr && t.Kind() != reflect.Interface && reflect.PointerTo(t).NumMethod() > t.NumMethod()
}

// refIDs collects the identities of everything reachable by reference from v (bounded).
func refIDs(v reflect.Value, out map[string]bool, depth int) {
	if depth > 8 || !v.IsValid() || len(out) > 400 {
		return
	}
	switch v.Kind() {
	case reflect.Ptr:
		if !v.IsNil() {
			out[fmt.Sprintf("p%x", v.Pointer())] = true
			refIDs(v.Elem(), out, depth+1)
		}
	case reflect.Interface:
		if !v.IsNil() {
			refIDs(v.Elem(), out, depth+1)
		}
	case reflect.Map:
		if !v.IsNil() {
			out[fmt.Sprintf("m%x", v.Pointer())] = true
			it := v.MapRange()
			for it.Next() {
				refIDs(it.Value(), out, depth+1)
			}
		}
	case reflect.Slice:
		if v.Len() > 0 {
			out[fmt.Sprintf("s%x", v.Pointer())] = true
		}
		fallthrough
	case reflect.Array:
		for i := 0; i < v.Len(); i++ {
			refIDs(v.Index(i), out, depth+1)
		}
	case reflect.Struct:
		if v.Type() == typTime {
			return
		}
		for i := 0; i < v.NumField(); i++ {
			refIDs(v.Field(i), out, depth+1)
		}
	}
}

// sharesRef: does val reference a container that lies on the path from root along steps?
func sharesRef(val, root reflect.Value, steps []step) bool {
	ids := map[string]bool{}
	refIDs(val, ids, 0)
	if len(ids) == 0 {
		return false
	}
	cur := root
	for i := 0; i <= len(steps); i++ {
		// identities of the containers at this level (pointers, maps, slices)
		x := cur
		for x.IsValid() && (x.Kind() == reflect.Ptr || x.Kind() == reflect.Interface) && !x.IsNil() {
			if x.Kind() == reflect.Ptr && ids[fmt.Sprintf("p%x", x.Pointer())] {
				return true
			}
			x = x.Elem()
		}
		if !x.IsValid() {
			return false
		}
		switch x.Kind() {
		case reflect.Map:
			if !x.IsNil() && ids[fmt.Sprintf("m%x", x.Pointer())] {
				return true
			}
		case reflect.Slice:
			if x.Len() > 0 && ids[fmt.Sprintf("s%x", x.Pointer())] {
				return true
			}
		}
		if i == len(steps) {
			break
		}
		st := steps[i]
		switch st.kind {
		case 'f':
			if x.Kind() != reflect.Struct {
				return false
			}
			f, ok := fieldByIndexSafe(x, st.fidx)
			if !ok {
				return false
			}
			cur = f
		case 'i':
			if (x.Kind() != reflect.Slice && x.Kind() != reflect.Array) || st.idx >= x.Len() {
				return false
			}
			cur = x.Index(st.idx)
		case 'k':
			if x.Kind() != reflect.Map {
				return false
			}
			cur = x.MapIndex(st.key)
		}
	}
	return false
}

// aliasesContainers: copying a value of type t copies a slice header whose elements are compound values (directly or nested by value).
func aliasesContainers(t reflect.Type) bool {
	switch t.Kind() {
	case reflect.Slice:
		switch t.Elem().Kind() {
		case reflect.Struct, reflect.Array, reflect.Slice:
			return true
		}
	case reflect.Array:
		return aliasesContainers(t.Elem())
	case reflect.Struct:
		for i := 0; i < t.NumField(); i++ {
			if aliasesContainers(t.Field(i).Type) {
				return true
			}
		}
	}
	return false
}

// slotAliased: wrappers of elements of this type keep referring to the slot they were read from (non-compound, not an unnamed primitive).
func slotAliased(t reflect.Type) bool {
	switch t.Kind() {
	case reflect.Ptr, reflect.Map, reflect.Func:
		return true
	case reflect.Struct, reflect.Array, reflect.Slice, reflect.Interface:
		return false
	}
	return !unnamed(t)
}

func methTag(js string) string {
	for _, m := range []string{"reverse", "pop", "shift", "sort(function", "sort()"} {
		if strings.HasPrefix(js, "."+m) {
			return strings.TrimSuffix(strings.TrimSuffix(m, "()"), "(function")
		}
	}
	return ""
}

// elemViews: the views of the elements of the slice/array at path.
func (e *env) elemViews(path string) ([]string, bool) {
	root, v := e.goRoot()
	if v != nil || !root.IsValid() {
		return nil, false
	}
	l, ok := e.resolve(root, path)
	if !ok {
		return nil, false
	}
	for x := l.v; x.IsValid() && (x.Kind() == reflect.Ptr || x.Kind() == reflect.Interface) && !x.IsNil(); x = x.Elem() {
		if x.Kind() == reflect.Interface && x.Elem().Kind() != reflect.Ptr {
			return nil, false // a slice/array held by value in an interface{} is handed out as a copy (doc caveat 3)
		}
	}
	d := derefAll(l.v)
	if !d.IsValid() || d.Kind() != reflect.Slice && d.Kind() != reflect.Array || !l.addr {
		return nil, false // (copies: doc caveat 3)
	}
	switch et := d.Type().Elem(); et.Kind() {
	case reflect.Int, reflect.Int64, reflect.Uint, reflect.Uint64, reflect.Interface:
		if unnamed(et) || et.Kind() == reflect.Interface {
			return nil, false // elements travel through JS Numbers: 64-bit integers beyond 2^53 do not survive
		}
	}
	out := make([]string, d.Len())
	for i := range out {
		out[i] = goView(d.Index(i), e.mapper, 0)
	}
	return out, true
}

func derefIsNilPtr(v reflect.Value) bool {
	d := derefAll(v)
	return !d.IsValid() || (d.Kind() == reflect.Ptr || d.Kind() == reflect.Interface)
}

func derefIsNilMap(d reflect.Value) bool { return d.Kind() == reflect.Map && d.IsNil() }

func lastSeg(js string) string {
	i := strings.LastIndex(js, "[")
	if i < 0 {
		return ""
	}
	return js[i:]
}

func parentIsMap(l loc) bool { return len(l.steps) > 0 && l.steps[len(l.steps)-1].kind == 'k' }

// writeExcluded: the documented-domain / known-finding exclusions for script writes at l.
func (e *env) writeExcluded(l loc, all []loc) bool {
	if len(l.steps) == 0 {
		return true
	}
	// a nil embedded pointer makes every promoted-field access panic (known finding C13-nil-embedded-ptr)
	if last := l.steps[len(l.steps)-1]; last.anon && l.t.Kind() == reflect.Ptr && !(fixedNilEmbedded() && fixedEmbCache()) {
		return true
	}
	return false
}

// containsEmbeddedPtr: values of t hold an embedded pointer somewhere by value (replacing such a value replaces the pointer).
func containsEmbeddedPtr(t reflect.Type) bool {
	switch t.Kind() {
	case reflect.Struct:
		for i := 0; i < t.NumField(); i++ {
			f := t.Field(i)
			if f.Anonymous && f.Type.Kind() == reflect.Ptr || containsEmbeddedPtr(f.Type) {
				return true
			}
		}
	case reflect.Array:
		return containsEmbeddedPtr(t.Elem())
	}
	return false
}

// eqExcluded: == on wrappers of uncomparable dynamic types panics (known finding C13-equal-uncomparable).
func (e *env) eqExcluded(l loc) bool {
	if fixedEqUncomparable() {
		return false
	}
	d := derefAll(l.v)
	return d.IsValid() && d.Kind() == reflect.Map && (d.Type().NumMethod() > 0 || !mapKeySupported(d.Type().Key().Kind()))
}

func eqProbe(a, b string) string {
	return "var a = " + a + ", b = " + b + "; var m = new Map([[a, 1]]), s = new Set([b]);" +
		" return [a == b, b == a, a === b, b === a, Object.is(a, b), Object.is(b, a), a == a, a === a, Object.is(a, a), m.has(a), s.has(b), m.has(b), s.has(a), [a].indexOf(b) >= 0, [b].includes(a)].map(function(x){ return x ? 1 : 0 }).join('')"
}

func (e *env) someKey(r *core.Rng, d reflect.Value) string {
	switch d.Kind() {
	case reflect.Struct:
		fs := visibleFields(d.Type(), e.mapper)
		if len(fs) > 0 && r.Chance(3, 4) {
			return jsStr(fs[r.Intn(len(fs))].JS)
		}
	case reflect.Slice, reflect.Array:
		return strconv.Itoa(r.Intn(d.Len() + 2))
	case reflect.Map:
		if d.Len() > 0 && mapKeySupported(d.Type().Key().Kind()) && r.Chance(3, 4) {
			keys := d.MapKeys()
			sortKeys(keys)
			return jsStr(fmt.Sprintf("%v", keys[r.Intn(len(keys))].Interface()))
		}
		if k := d.Type().Key().Kind(); k == reflect.Float32 || k == reflect.Float64 {
			return core.Pick(r, []string{`"1"`, `"2.5"`, "7"}) // other names would be the NaN key
		}
		return core.Pick(r, []string{`"a"`, `"k1"`, `"1"`, `"nope"`})
	}
	return core.Pick(r, []string{`"nope"`, `"X"`, `"length"`})
}

// descOp: "Field properties are writable and non-configurable. Method properties are non-writable and non-configurable."
func (e *env) descOp(r *core.Rng, l loc, d reflect.Value) opRec {
	fs := visibleFields(d.Type(), e.mapper)
	pt := reflect.PointerTo(d.Type())
	var meths []string
	for i := 0; i < pt.NumMethod(); i++ {
		if n := jsMethodName(e.mapper, pt.Method(i).Name); n != "" {
			meths = append(meths, n)
		}
	}
	if len(fs) > 0 && (len(meths) == 0 || r.Bool()) {
		f := fs[r.Intn(len(fs))]
		if _, ok := fieldByIndexSafe(d, f.Index); ok {
			return opRec{Kind: "desc-field", JS: "var d = Object.getOwnPropertyDescriptor(" + l.js + ", " + jsStr(f.JS) + "); return d === undefined ? 'none' : (d.writable ? 'W' : 'w') + (d.configurable ? 'C' : 'c') + ('value' in d ? 'V' : 'v')"}
		}
	}
	if len(meths) > 0 {
		m := meths[r.Intn(len(meths))]
		return opRec{Kind: "desc-method", JS: "var d = Object.getOwnPropertyDescriptor(" + l.js + ", " + jsStr(m) + "); return d === undefined ? 'none' : (d.writable ? 'W' : 'w') + (d.configurable ? 'C' : 'c') + (typeof d.value === 'function' ? 'F' : 'f')"}
	}
	return opRec{Kind: "keys", JS: "return Object.keys(" + l.js + ").length"}
}

// execOp runs one op and its monitors.
func (e *env) execOp(i int, op *opRec) *violation {
	e.st.Inc("op:" + op.Kind)
	what := fmt.Sprintf("op #%d %s `%s`", i, op.Kind, core.Trunc(op.JS+op.Path, 200))
	if op.Kind == "goset" {
		return e.execGoSet(what, op)
	}
	if e.held == nil {
		e.held = map[string]string{}
	}
	switch op.Kind {
	case "hold":
		e.held[op.JS[:2]] = op.Src
	case "set-held":
		// (replay of a shortened sequence: the holder must still hold what it held when the op was generated)
		if i := strings.Index(op.Src, "="); i < 0 || e.held[op.Src[:i]] != op.Src[i+1:] {
			return nil
		}
	}
	if op.Kind == "set-wrapper" && op.Known {
		// expected: the location shows what the source wrapper showed before the write
		op.View = ""
		if root, v := e.goRoot(); v == nil {
			if src, ok := e.resolve(root, op.Src); ok {
				op.View = goView(src.v, e.mapper, 0)
			}
		}
		if op.View == "" {
			op.Known = false
		}
	}
	var before []string
	permLaw := false
	if op.Kind == "arraymeth" && op.LitKind != "" {
		before, permLaw = e.elemViews(op.Path)
	}
	o := e.run("(function(){ 'use strict'; " + op.JS + "\n})()")
	v, ok := e.judgeOutcome(what, o)
	if v != nil {
		return v
	}
	if !ok {
		return &violation{monitor: "fuel"}
	}
	threw := ""
	if o.Err != nil {
		threw = gj.ErrorCtorName(e.r, o.Err.(*goja.Exception).Value())
		if threw == "" {
			threw = "non-error"
		}
		e.st.Inc("op-threw:" + op.Kind + ":" + threw)
	} else {
		e.st.Inc("op-ok:" + op.Kind)
	}
	if permLaw && threw == "" {
		if after, ok := e.elemViews(op.Path); ok {
			var want []string
			switch op.LitKind {
			case "reverse":
				for i := len(before) - 1; i >= 0; i-- {
					want = append(want, before[i])
				}
			case "pop":
				if len(before) > 0 {
					want = before[:len(before)-1]
				}
			case "shift":
				if len(before) > 0 {
					want = before[1:]
				}
			case "sort":
				want = append([]string{}, before...)
				sort.Strings(want)
				after = append([]string{}, after...)
				sort.Strings(after)
			}
			e.st.Inc("law:array_method_result_checked")
			if strings.Join(after, "\x01") != strings.Join(want, "\x01") {
				return &violation{"array-method", fmt.Sprintf("%s: elements before %v, after %v, Array.prototype.%s gives %v", what, before, after, op.LitKind, want), "array-method:" + op.LitKind}
			}
		}
	}
	switch op.Kind {
	case "set", "define", "set-wrapper":
		if op.Fail {
			e.st.Inc("law9:illtyped_write_checked")
			if threw != "TypeError" {
				return &violation{"illtyped-write-accepted", fmt.Sprintf("%s: the conversion is documented impossible, expected TypeError, observed %s", what, orOK(threw)), "illtyped-write:" + op.LitKind + ":" + orOK(threw)}
			}
		} else if threw == "" && op.Known {
			root, v := e.goRoot()
			if v != nil {
				return v
			}
			l, ok := e.resolve(root, op.Path)
			if !ok {
				return &violation{"write-through", fmt.Sprintf("%s succeeded but the location no longer exists in the Go value", what), "write-through:gone:" + op.LitKind}
			}
			got := goView(l.v, e.mapper, 0)
			e.st.Inc("law5:write_through_checked")
			if got != op.View {
				return &violation{"write-through", fmt.Sprintf("%s succeeded; Go value at %s (type %s) shows\n  %s\nexpected (ExportTo conversion of the written value)\n  %s", what, op.Path, l.t, core.Trunc(got, 800), core.Trunc(op.View, 800)),
					"write-through:" + l.t.Kind().String() + ":" + op.LitKind}
			}
			if op.IfaceType != "" && l.t == typIface {
				gt := "nil"
				if !l.v.IsNil() {
					gt = l.v.Elem().Type().String()
				}
				if gt != op.IfaceType {
					return &violation{"write-through-type", fmt.Sprintf("%s: interface{} location holds %s, Export() of the written value is documented to be %s", what, gt, op.IfaceType), "write-through-type:" + op.IfaceType + ":" + gt}
				}
			}
		}
	case "accessor":
		e.st.Inc("law9:accessor_define_checked")
		if threw != "TypeError" {
			return &violation{"accessor-accepted", fmt.Sprintf("%s: host objects do not support accessor properties, expected TypeError, observed %s", what, orOK(threw)), "accessor:" + orOK(threw)}
		}
	case "desc-field":
		if threw == "" {
			e.st.Inc("law:descriptor_checked")
			if s := o.Val.String(); s != "WcV" {
				return &violation{"descriptor-flags", fmt.Sprintf("%s: field properties are documented writable and non-configurable data properties, observed %s", what, s), "desc-field:" + s}
			}
		}
	case "desc-method":
		if threw == "" {
			e.st.Inc("law:descriptor_checked")
			if s := o.Val.String(); s != "wcF" {
				return &violation{"descriptor-flags", fmt.Sprintf("%s: method properties are documented non-writable and non-configurable, observed %s", what, s), "desc-method:" + s}
			}
		}
	case "eq":
		if threw == "" {
			e.st.Inc("law8:equality_checked")
			s := o.Val.String()
			// [a==b, b==a, a===b, b===a, is(a,b), is(b,a), a==a, a===a, is(a,a), m.has(a), s.has(b), m.has(b), s.has(a), indexOf, includes]
			bad := ""
			switch {
			case s[0] != s[1]:
				bad = "== not symmetric"
			case s[2] != s[3]:
				bad = "=== not symmetric"
			case s[4] != s[5]:
				bad = "Object.is not symmetric"
			case s[6] != '1' || s[7] != '1' || s[8] != '1':
				bad = "not reflexive"
			case s[9] != '1' || s[10] != '1':
				bad = "Map/Set does not find its own key"
			case s[11] != s[12]:
				bad = "Map.has / Set.has not symmetric"
			case s[13] != s[2]:
				bad = "indexOf disagrees with ==="
			}
			if bad != "" {
				return &violation{"equality", fmt.Sprintf("%s: %s (results %s)", what, bad, s), "equality:" + bad}
			}
		}
	case "json":
		if threw == "" {
			// the same through a fresh wrapper
			fresh := strings.Replace(op.JS, "RJ(w", "RJ(f", 1)
			if root, v := e.goRoot(); v == nil && root.IsValid() {
				e.r.Set("f", e.r.ToValue(root.Interface()))
				o2 := e.run("(function(){ 'use strict'; " + fresh + "\n})()")
				if v, _ := e.judgeOutcome(what+" (fresh)", o2); v != nil {
					return v
				}
				e.st.Inc("law4:json_checked")
				if o2.Err == nil && o2.Val.String() != o.Val.String() {
					return &violation{"view-incoherent", fmt.Sprintf("%s: JSON.stringify through the old wrapper gives %s, through a fresh wrapper %s", what, core.Trunc(o.Val.String(), 600), core.Trunc(o2.Val.String(), 600)), "view-incoherent:json"}
				}
			}
		}
	}
	return nil
}

func orOK(s string) string {
	if s == "" {
		return "success"
	}
	return s
}

func (e *env) execGoSet(what string, op *opRec) *violation {
	root, v := e.goRoot()
	if v != nil {
		return v
	}
	l, ok := e.resolve(root, op.Path)
	if !ok {
		return nil
	}
	r := core.NewRng(op.GoSeed)
	last := l.steps[len(l.steps)-1]
	if last.kind == 'k' {
		// map entry
		parent, ok := e.resolve(root, strings.TrimSuffix(l.js, lastSeg(l.js)))
		if !ok {
			return nil
		}
		m := derefAll(parent.v)
		if m.Kind() != reflect.Map || m.IsNil() {
			return nil
		}
		if op.Del {
			m.SetMapIndex(last.key, reflect.Value{})
		} else {
			nv := reflect.New(m.Type().Elem()).Elem()
			fillValueNoSlices(r, nv)
			m.SetMapIndex(last.key, nv)
		}
		e.st.Inc("go-write:mapentry")
		return nil
	}
	if !l.v.CanSet() {
		return nil
	}
	nv := reflect.New(l.t).Elem()
	fillValueNoSlices(r, nv)
	if containsSlice(l.t) && l.t.Kind() != reflect.Ptr && l.t.Kind() != reflect.Map && l.t.Kind() != reflect.Interface {
		// in-place replacement of a value that embeds slice headers would re-slice behind goja's back: keep the old headers
		return nil
	}
	l.v.Set(nv)
	e.st.Inc("go-write:" + l.t.Kind().String())
	return nil
}

func fillValueNoSlices(r *core.Rng, v reflect.Value) { fillValue(r, nil, v, 2) }

func containsSlice(t reflect.Type) bool {
	switch t.Kind() {
	case reflect.Slice:
		return true
	case reflect.Array:
		return containsSlice(t.Elem())
	case reflect.Struct:
		for i := 0; i < t.NumField(); i++ {
			if containsSlice(t.Field(i).Type) {
				return true
			}
		}
	}
	return false
}
