package c13

import (
	"fmt"
	"go/token"
	"math"
	"math/big"
	"reflect"
	"sort"
	"strconv"
	"strings"
	"unicode"
	"unicode/utf8"

	"github.com/dop251/goja"

	"verif/harness/core"
)

// ---------------------------------------------------------------------------------------------
// Field-name model, written from the documentation of FieldNameMapper / TagFieldNameMapper / UncapFieldNameMapper
// and from Go's own rules for promoted fields (reflect.VisibleFields) — not from goja's buildFieldInfo.
// ---------------------------------------------------------------------------------------------

var typSimpleMap = reflect.TypeOf(map[string]interface{}(nil))

const (
	mapNil = iota
	mapTag
	mapUncap
)

var mapperNames = []string{"nil", "tag(json,true)", "uncap"}

func setMapper(r *goja.Runtime, m int) {
	switch m {
	case mapTag:
		r.SetFieldNameMapper(goja.TagFieldNameMapper("json", true))
	case mapUncap:
		r.SetFieldNameMapper(goja.UncapFieldNameMapper())
	}
}

func uncap(s string) string {
	if s == "" {
		return s
	}
	_, n := utf8.DecodeRuneInString(s)
	return strings.ToLower(s[:n]) + s[n:]
}

func isIdent(s string) bool {
	if s == "" || token.IsKeyword(s) && false {
		return false
	}
	for i, c := range s {
		if !(c == '_' || c == '$' || unicode.IsLetter(c) || i > 0 && unicode.IsDigit(c)) {
			return false
		}
	}
	return true
}

// jsFieldName: the script-visible name of a struct field under a mapper ("" = hidden).
func jsFieldName(mapper int, f reflect.StructField) string {
	switch mapper {
	case mapTag:
		tag := f.Tag.Get("json")
		if i := strings.IndexByte(tag, ','); i >= 0 {
			tag = tag[:i]
		}
		if isIdent(tag) {
			return tag
		}
		return ""
	case mapUncap:
		return uncap(f.Name)
	}
	return f.Name
}

func jsMethodName(mapper int, name string) string {
	if mapper == mapNil {
		return name
	}
	return uncap(name)
}

type visField struct {
	JS    string
	Index []int
	Type  reflect.Type
	Anon  bool
}

// visibleFields lists the script-visible fields of a struct type: every exported field reachable by Go's
// selector rules (own and promoted), under the mapper's name. Ambiguous/shadowed fields are dropped by VisibleFields' rules
// (reflect.VisibleFields lists them; Go's FieldByName decides reachability).
func visibleFields(t reflect.Type, mapper int) []visField {
	var out []visField
	seen := map[string]bool{}
	for _, f := range reflect.VisibleFields(t) {
		if !f.IsExported() {
			continue
		}
		// reachable by plain selector?
		g, ok := t.FieldByName(f.Name)
		if !ok || !reflect.DeepEqual(g.Index, f.Index) {
			continue
		}
		name := jsFieldName(mapper, f)
		if name == "" || seen[name] {
			continue
		}
		seen[name] = true
		out = append(out, visField{JS: name, Index: f.Index, Type: f.Type, Anon: f.Anonymous})
	}
	return out
}

// fieldByIndexSafe walks an index path; ok=false when it would step through a nil embedded pointer.
func fieldByIndexSafe(v reflect.Value, index []int) (reflect.Value, bool) {
	for i, x := range index {
		if i > 0 {
			if v.Kind() == reflect.Ptr {
				if v.IsNil() {
					return reflect.Value{}, false
				}
				v = v.Elem()
			}
		}
		v = v.Field(x)
	}
	return v, true
}

// ---------------------------------------------------------------------------------------------
// Go-side view: what script is documented to see for a Go value (ToValue doc comment), as canonical text.
// ---------------------------------------------------------------------------------------------

func renderNum(f float64) string {
	if f != f {
		return "n:NaN"
	}
	return fmt.Sprintf("n:%016x", math.Float64bits(f))
}

func renderStr(s string) string { return "s:" + strconv.Quote(s) }

// unnamed reports whether t is one of Go's predeclared primitive types (ToValue converts those to JS primitives;
// named types of the same kinds become reflect-based host objects).
func unnamed(t reflect.Type) bool {
	p, ok := primTypes[t.Kind().String()]
	return ok && p == t
}

func mapKeySupported(k reflect.Kind) bool {
	switch k {
	case reflect.String, reflect.Int, reflect.Int8, reflect.Int16, reflect.Int32, reflect.Int64,
		reflect.Uint, reflect.Uint8, reflect.Uint16, reflect.Uint32, reflect.Uint64, reflect.Float32, reflect.Float64:
		return true
	}
	return false
}

// goView renders v as script should see it. depth guards against cycles.
func goView(v reflect.Value, mapper int, depth int) string {
	if !v.IsValid() {
		return "null"
	}
	viaPtr := false // a pointer to a primitive is "any other type": a reflect based host object that behaves like a Number/String/Boolean
	for v.Kind() == reflect.Interface || v.Kind() == reflect.Ptr {
		if v.Kind() == reflect.Ptr && v.Type() == typBigInt && !viaPtr {
			b := new(big.Int)
			if !v.IsNil() {
				b = v.Interface().(*big.Int)
			}
			return "g:" + b.String()
		}
		if v.IsNil() {
			return "null"
		}
		if v.Kind() == reflect.Ptr {
			viaPtr = true
		}
		v = v.Elem()
	}
	t := v.Type()
	// goja's own types pass through
	if t.PkgPath() == "github.com/dop251/goja" {
		return "gojaval"
	}
	switch v.Kind() {
	case reflect.Bool:
		s := "b:false"
		if v.Bool() {
			s = "b:true"
		}
		if viaPtr || !unnamed(t) {
			return "W(" + s + ")"
		}
		return s
	case reflect.Int, reflect.Int8, reflect.Int16, reflect.Int32, reflect.Int64:
		s := renderNum(float64(v.Int()))
		if viaPtr || !unnamed(t) {
			return "W(" + s + ")"
		}
		return s
	case reflect.Uint, reflect.Uint8, reflect.Uint16, reflect.Uint32, reflect.Uint64:
		s := renderNum(float64(v.Uint()))
		if viaPtr || !unnamed(t) {
			return "W(" + s + ")"
		}
		return s
	case reflect.Float32, reflect.Float64:
		s := renderNum(v.Float())
		if viaPtr || !unnamed(t) {
			return "W(" + s + ")"
		}
		return s
	case reflect.String:
		s := renderStr(v.String())
		if viaPtr || !unnamed(t) {
			return "W(" + s + ")"
		}
		return s
	case reflect.Func:
		return "func"
	}
	if depth > 7 {
		return "deep" // same cut as the script-side renderer (objects only)
	}
	switch v.Kind() {
	case reflect.Slice, reflect.Array:
		var b strings.Builder
		b.WriteByte('[')
		for i := 0; i < v.Len(); i++ {
			if i > 0 {
				b.WriteByte(',')
			}
			b.WriteString(goView(v.Index(i), mapper, depth+1))
		}
		b.WriteByte(']')
		return b.String()
	case reflect.Map:
		if t.NumMethod() > 0 || !mapKeySupported(t.Key().Kind()) {
			return "{}" // generic host object: methods only
		}
		if v.IsNil() && t == typSimpleMap && !viaPtr {
			return "null" // a nil map[string]interface{} is converted to null
		}
		type kv struct{ k, v string }
		var items []kv
		it := v.MapRange()
		for it.Next() {
			e := it.Value()
			if isFuncish(e) {
				continue
			}
			items = append(items, kv{fmt.Sprintf("%v", it.Key().Interface()), goView(e, mapper, depth+1)})
		}
		sort.Slice(items, func(i, j int) bool { return items[i].k < items[j].k })
		var b strings.Builder
		b.WriteByte('{')
		for i, it := range items {
			if i > 0 {
				b.WriteByte(',')
			}
			b.WriteString(strconv.Quote(it.k) + ":" + it.v)
		}
		b.WriteByte('}')
		return b.String()
	case reflect.Struct:
		type kv struct{ k, v string }
		var items []kv
		for _, f := range visibleFields(t, mapper) {
			fv, ok := fieldByIndexSafe(v, f.Index)
			if !ok {
				continue // promoted through a nil embedded pointer: no value to show
			}
			if isFuncish(fv) {
				continue
			}
			items = append(items, kv{f.JS, goView(fv, mapper, depth+1)})
		}
		sort.Slice(items, func(i, j int) bool { return items[i].k < items[j].k })
		var b strings.Builder
		b.WriteByte('{')
		for i, it := range items {
			if i > 0 {
				b.WriteByte(',')
			}
			b.WriteString(strconv.Quote(it.k) + ":" + it.v)
		}
		b.WriteByte('}')
		return b.String()
	}
	return "other:" + v.Kind().String()
}

// isFuncish: the value shows up in script as a function (renderers skip function-valued properties,
// because method properties and func fields are indistinguishable to a key walk).
func isFuncish(v reflect.Value) bool {
	for v.IsValid() && (v.Kind() == reflect.Interface || v.Kind() == reflect.Ptr) {
		if v.IsNil() {
			return false
		}
		v = v.Elem()
	}
	return v.IsValid() && v.Kind() == reflect.Func
}

// ---------------------------------------------------------------------------------------------
// Script-side renderer (same text format). P renders primitives exactly (Go native), K classifies objects.
// ---------------------------------------------------------------------------------------------

const jsPrelude = `
function R(v, d) {
  if (v === null) return "null";
  var t = typeof v;
  if (t === "undefined") return "undef";
  if (t === "function") return "func";
  if (t !== "object") return P(v);
  var k = K(v);
  if (k === "num") return "W(" + P(+v) + ")";
  if (k === "str") return "W(" + P(STR(v)) + ")";
  if (k === "bool") return "W(" + P(v.valueOf()) + ")";
  if (k === "goja") return "gojaval";
  if (d > 7) return "deep";
  if (Array.isArray(v)) {
    // elements are looked at in ascending, descending or shuffled order (PERM): what a wrapper hands out for index k must not
    // depend on which indices were read before
    var n = v.length, parts = new Array(n), ord = PERM(n);
    for (var q = 0; q < n; q++) { var i = ord ? ord[q] : q; parts[i] = R(v[i], d + 1); }
    return "[" + parts.join(",") + "]";
  }
  var keys = Object.keys(v).sort(CMP), s = "{", first = true;
  for (var i = 0; i < keys.length; i++) {
    var x = v[keys[i]];
    // (functions: methods and func fields; undefined: a field promoted through a nil embedded pointer has a name but no value)
    if (typeof x === "function" || x === undefined) continue;
    s += (first ? "" : ",") + Q(keys[i]) + ":" + R(x, d + 1);
    first = false;
  }
  return s + "}";
}
function RJ(v) { // JSON round trip rendered canonically (key order of Go maps is unspecified)
  var j = JSON.stringify(v);
  if (j === undefined) return "undef";
  return R(JSON.parse(j), 0);
}
`

// installNatives defines P, K, Q, STR, CMP used by R.
func installNatives(r *goja.Runtime, order *core.Rng) {
	r.Set("PERM", func(call goja.FunctionCall) goja.Value {
		n := int(call.Argument(0).ToInteger())
		if order == nil || n < 2 || n > 64 {
			return goja.Undefined()
		}
		mode := order.Intn(3)
		if mode == 0 {
			return goja.Undefined()
		}
		perm := make([]interface{}, n)
		for i := range perm {
			perm[i] = n - 1 - i
		}
		if mode == 2 {
			order.Shuffle(n, func(i, j int) { perm[i], perm[j] = perm[j], perm[i] })
		}
		return r.NewArray(perm...)
	})
	r.Set("P", func(call goja.FunctionCall) goja.Value { return r.ToValue(renderPrim(call.Argument(0))) })
	r.Set("Q", func(call goja.FunctionCall) goja.Value { return r.ToValue(strconv.Quote(call.Argument(0).String())) })
	r.Set("CMP", func(call goja.FunctionCall) goja.Value {
		return r.ToValue(strings.Compare(call.Argument(0).String(), call.Argument(1).String()))
	})
	// STR: the underlying string of a named-string wrapper (its toString may be a Stringer's)
	r.Set("STR", func(call goja.FunctionCall) goja.Value {
		x := reflect.ValueOf(call.Argument(0).Export())
		for x.IsValid() && x.Kind() == reflect.Ptr && !x.IsNil() {
			x = x.Elem()
		}
		if x.IsValid() && x.Kind() == reflect.String {
			return r.ToValue(x.String())
		}
		return goja.Undefined()
	})
	r.Set("K", func(call goja.FunctionCall) goja.Value {
		o, ok := call.Argument(0).(*goja.Object)
		if !ok {
			return r.ToValue("prim")
		}
		et := o.ExportType()
		for et != nil && et.Kind() == reflect.Ptr && et != typBigInt {
			et = et.Elem()
		}
		if et == nil {
			return r.ToValue("obj")
		}
		if et.PkgPath() == "github.com/dop251/goja" {
			return r.ToValue("goja")
		}
		switch et.Kind() {
		case reflect.Int, reflect.Int8, reflect.Int16, reflect.Int32, reflect.Int64, reflect.Uint, reflect.Uint8, reflect.Uint16, reflect.Uint32, reflect.Uint64, reflect.Float32, reflect.Float64:
			return r.ToValue("num")
		case reflect.String:
			return r.ToValue("str")
		case reflect.Bool:
			return r.ToValue("bool")
		}
		return r.ToValue("obj")
	})
}

func renderPrim(v goja.Value) string {
	switch {
	case v == nil || goja.IsUndefined(v):
		return "undef"
	case goja.IsNull(v):
		return "null"
	case goja.IsNumber(v):
		return renderNum(v.ToFloat())
	case goja.IsBigInt(v):
		return "g:" + v.String()
	case goja.IsString(v):
		return renderStr(v.String())
	}
	if b, ok := v.Export().(bool); ok {
		if b {
			return "b:true"
		}
		return "b:false"
	}
	if _, ok := v.(*goja.Symbol); ok {
		return "sym"
	}
	return fmt.Sprintf("?%T", v)
}
