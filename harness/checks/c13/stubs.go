package c13

import "verif/harness/core"

func runGraph(c *core.Ctx) core.Result     { return held("", false) }
func runCow(c *core.Ctx) core.Result       { return held("", false) }
func runHost(c *core.Ctx) core.Result      { return held("", false) }
func runFuncs(c *core.Ctx) core.Result     { return held("", false) }
