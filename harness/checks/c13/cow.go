package c13

import (
	"fmt"
	"reflect"
	"sort"
	"strconv"
	"strings"

	"github.com/dop251/goja"

	"verif/harness/core"
	"verif/harness/gj"
)

// ---------------------------------------------------------------------------------------------
// Scenario "cow" (law 6): the copy-on-change rules of the ToValue doc comment as a reference model.
//
//   * "When a nested compound value is accessed, the returned ES value becomes a reference to the literal value."   (alias)
//   * "if a[0] is reassigned (e.g. by direct assignment, deletion or shrinking the array) the old a[0] is copied and the
//      earlier returned value becomes a reference to the copy"                                                        (detach)
//   * "Array value swaps caused by in-place sort do not count as re-assignments, the references are adjusted"       (sort)
//   * "Assignment to an inner compound value always does a copy"                                                     (copy-in)
//
// The generic Array.prototype algorithms (reverse/shift/unshift) are sequences of Get/Set/Delete and are modelled as such.
// ---------------------------------------------------------------------------------------------

type cowOp struct {
	Op string `json:"op"` // take wset assign-lit assign-ref delete length sort push pop reverse shift unshift go-write
	I  int    `json:"i,omitempty"`
	N  int    `json:"n,omitempty"`
	T  int    `json:"t,omitempty"`
}

type cowCase struct {
	Scenario  string   `json:"scenario"`
	Container string   `json:"container"` // slice | array | struct
	Elem      string   `json:"elem"`      // S | arr2
	Init      []int    `json:"init"`
	Cap       int      `json:"cap,omitempty"`
	Seed      uint64   `json:"seed"` // order in which the slots are read back after every op (ascending / descending / shuffled)
	Ops       []cowOp  `json:"ops"`
	Script    []string `json:"script,omitempty"`
}

type cowWrapper struct {
	attached bool
	slot     int
	val      int
}

type cowModel struct {
	slots []int
	slotW []*cowWrapper
	refs  [4]*cowWrapper
}

func (m *cowModel) get(i int) *cowWrapper {
	if m.slotW[i] == nil {
		m.slotW[i] = &cowWrapper{attached: true, slot: i}
	}
	return m.slotW[i]
}

func (m *cowModel) value(w *cowWrapper) int {
	if w.attached {
		return m.slots[w.slot]
	}
	return w.val
}

func (m *cowModel) detach(i int) bool {
	if w := m.slotW[i]; w != nil {
		w.attached, w.val = false, m.slots[i]
		m.slotW[i] = nil
		return true
	}
	return false
}

func (m *cowModel) set(i, v int) {
	for i >= len(m.slots) {
		m.slots = append(m.slots, 0)
		m.slotW = append(m.slotW, nil)
	}
	m.detach(i)
	m.slots[i] = v
}

func (m *cowModel) setLen(n int) (detached int) {
	for len(m.slots) > n {
		if m.detach(len(m.slots) - 1) {
			detached++
		}
		m.slots = m.slots[:len(m.slots)-1]
		m.slotW = m.slotW[:len(m.slotW)-1]
	}
	for len(m.slots) < n {
		m.slots = append(m.slots, 0)
		m.slotW = append(m.slotW, nil)
	}
	return
}

var structSlots = []string{"A", "B", "C"}

type cowEnv struct {
	order *core.Rng
	cs    *cowCase
	r     *goja.Runtime
	m     *cowModel
	cont  reflect.Value // pointer to the container
	st    *core.Stats
	quiet bool
}

func (e *cowEnv) slotJS(i int) string {
	if e.cs.Container == "struct" {
		return "a." + structSlots[i]
	}
	return "a[" + strconv.Itoa(i) + "]"
}

func (e *cowEnv) valJS(expr string) string {
	if e.cs.Elem == "arr2" {
		return expr + "[0]"
	}
	return expr + ".Field"
}

func (e *cowEnv) litJS(n int) string {
	if e.cs.Elem == "arr2" {
		return fmt.Sprintf("[%d, 0]", n)
	}
	return fmt.Sprintf("{Field: %d}", n)
}

func (e *cowEnv) cmpJS() string {
	return "function(x, y) { return " + e.valJS("x") + " - " + e.valJS("y") + " }"
}

func elemType(elem string) reflect.Type {
	if elem == "arr2" {
		return reflect.TypeOf([2]int{})
	}
	return reflect.TypeOf(S{})
}

func setElem(v reflect.Value, n int) {
	if v.Kind() == reflect.Array {
		v.Index(0).SetInt(int64(n))
	} else {
		v.Field(0).SetInt(int64(n))
	}
}

func getElem(v reflect.Value) int {
	if v.Kind() == reflect.Array {
		return int(v.Index(0).Int())
	}
	return int(v.Field(0).Int())
}

func (e *cowEnv) build() {
	et := elemType(e.cs.Elem)
	n := len(e.cs.Init)
	switch e.cs.Container {
	case "slice":
		p := reflect.New(reflect.SliceOf(et))
		p.Elem().Set(reflect.MakeSlice(reflect.SliceOf(et), n, n+e.cs.Cap))
		e.cont = p
	case "array":
		e.cont = reflect.New(reflect.ArrayOf(n, et))
	default:
		var fs []reflect.StructField
		for i := 0; i < n; i++ {
			fs = append(fs, reflect.StructField{Name: structSlots[i], Type: et})
		}
		e.cont = reflect.New(reflect.StructOf(fs))
	}
	for i, v := range e.cs.Init {
		setElem(e.goSlot(i), v)
	}
	e.m = &cowModel{slots: append([]int{}, e.cs.Init...), slotW: make([]*cowWrapper, n)}
}

func (e *cowEnv) goSlot(i int) reflect.Value {
	c := e.cont.Elem()
	if c.Kind() == reflect.Struct {
		return c.Field(i)
	}
	return c.Index(i)
}

func (e *cowEnv) goLen() int {
	c := e.cont.Elem()
	if c.Kind() == reflect.Struct {
		return c.NumField()
	}
	return c.Len()
}

// apply runs one op in script (or Go) and on the model. Returns the JS executed.
func (e *cowEnv) apply(op cowOp) (js string, v *violation) {
	m := e.m
	n := len(m.slots)
	inRange := op.I >= 0 && op.I < n
	t := fmt.Sprintf("t%d", op.T)
	switch op.Op {
	case "take":
		if !inRange {
			return "", nil
		}
		js = t + " = " + e.slotJS(op.I)
		m.refs[op.T] = m.get(op.I)
	case "wset":
		w := m.refs[op.T]
		if w == nil {
			return "", nil
		}
		js = e.valJS(t) + " = " + strconv.Itoa(op.N)
		if w.attached {
			m.slots[w.slot] = op.N
		} else {
			w.val = op.N
		}
	case "assign-lit":
		if !inRange {
			return "", nil
		}
		js = e.slotJS(op.I) + " = " + e.litJS(op.N)
		m.set(op.I, op.N)
	case "assign-ref":
		w := m.refs[op.T]
		if w == nil || !inRange {
			return "", nil
		}
		js = e.slotJS(op.I) + " = " + t
		m.set(op.I, m.value(w))
	case "delete":
		if !inRange || e.cs.Container == "struct" {
			return "", nil
		}
		js = "delete " + e.slotJS(op.I)
		m.set(op.I, 0)
	case "length":
		if e.cs.Container != "slice" {
			return "", nil
		}
		js = "a.length = " + strconv.Itoa(op.N)
		if d := m.setLen(op.N); d > 0 && !e.quiet {
			e.st.Count("law6:shrink_detached_refs", int64(d))
		}
	case "sort":
		if e.cs.Container == "struct" {
			return "", nil
		}
		js = "a.sort(" + e.cmpJS() + ")"
		idx := make([]int, n)
		for i := range idx {
			idx[i] = i
		}
		sort.SliceStable(idx, func(x, y int) bool { return m.slots[idx[x]] < m.slots[idx[y]] })
		ns, nw := make([]int, n), make([]*cowWrapper, n)
		moved := 0
		for to, from := range idx {
			ns[to], nw[to] = m.slots[from], m.slotW[from]
			if nw[to] != nil {
				if nw[to].slot != to {
					moved++
				}
				nw[to].slot = to
			}
		}
		m.slots, m.slotW = ns, nw
		if moved > 0 && !e.quiet {
			e.st.Count("law6:sort_adjusted_refs", int64(moved))
		}
	case "push":
		if e.cs.Container != "slice" {
			return "", nil
		}
		js = "a.push(" + e.litJS(op.N) + ")"
		m.set(n, op.N)
	case "pop":
		if e.cs.Container != "slice" || n == 0 {
			return "", nil
		}
		js = "a.pop()"
		m.setLen(n - 1)
	case "reverse":
		if e.cs.Container == "struct" {
			return "", nil
		}
		js = "a.reverse()"
		for lo, hi := 0, n-1; lo < hi; lo, hi = lo+1, hi-1 {
			lw, hw := m.get(lo), m.get(hi)
			m.set(lo, m.value(hw))
			m.set(hi, m.value(lw))
		}
	case "shift":
		if e.cs.Container != "slice" || n == 0 {
			return "", nil
		}
		js = "a.shift()"
		m.get(0)
		for k := 1; k < n; k++ {
			m.set(k-1, m.value(m.get(k)))
		}
		m.set(n-1, 0)
		m.setLen(n - 1)
	case "unshift":
		if e.cs.Container != "slice" {
			return "", nil
		}
		js = "a.unshift(" + e.litJS(op.N) + ")"
		for k := n; k > 0; k-- {
			m.set(k, m.value(m.get(k-1)))
		}
		m.set(0, op.N)
	case "iset": // write through the container: a[i].Field = n
		if !inRange {
			return "", nil
		}
		js = e.valJS(e.slotJS(op.I)) + " = " + strconv.Itoa(op.N)
		m.get(op.I)
		m.slots[op.I] = op.N
	case "regrow": // truncate to I elements, then push T+1 new ones (wrappers of the old elements may still be held)
		if e.cs.Container != "slice" {
			return "", nil
		}
		k := op.I
		if k > n {
			k = n
		}
		js = "a.length = " + strconv.Itoa(k) + ";"
		m.setLen(k)
		for c := 0; c <= op.T; c++ {
			js += " a.push(" + e.litJS(op.N+c) + ");"
			m.set(len(m.slots), op.N+c)
		}
	case "splice-tail": // a.splice(I): Get + Delete of every removed element, then length
		if e.cs.Container != "slice" {
			return "", nil
		}
		k := op.I
		if k > n {
			k = n
		}
		js = "a.splice(" + strconv.Itoa(k) + ")"
		for i := k; i < n; i++ {
			m.get(i)
		}
		for i := n - 1; i >= k; i-- {
			m.set(i, 0)
		}
		m.setLen(k)
	case "go-write":
		if !inRange {
			return "", nil
		}
		setElem(e.goSlot(op.I), op.N)
		m.slots[op.I] = op.N
		return "/* Go: a[" + strconv.Itoa(op.I) + "] value = " + strconv.Itoa(op.N) + " */", nil
	default:
		return "", nil
	}
	o := gj.Call(func() (goja.Value, error) { return e.r.RunString("'use strict'; " + js) })
	if o.Panic != nil {
		return js, &violation{"go-panic-escaped", fmt.Sprintf("`%s`: Go panic escaped: %v\n%s", js, o.Panic, core.Trunc(o.PanicStack, 1800)), panicSig(o) + "|cow:" + op.Op}
	}
	if o.Fuel {
		return js, &violation{monitor: "fuel"}
	}
	if o.Err != nil {
		return js, &violation{"copy-on-change", fmt.Sprintf("`%s` threw %v", js, o.Err), "cow:throws:" + op.Op}
	}
	return js, nil
}

// verify compares script view, Go view and model.
func (e *cowEnv) verify(after string, op string) *violation {
	m := e.m
	n := len(m.slots)
	var parts []string
	if e.cs.Container == "struct" {
		parts = append(parts, strconv.Itoa(n))
	} else {
		parts = append(parts, "a.length")
	}
	// the slots are read back in ascending, descending or shuffled order: the element-wrapper cache of the container must not
	// depend on the order in which elements are looked at
	perm := make([]int, n)
	for i := range perm {
		perm[i] = i
	}
	switch e.order.Intn(3) {
	case 1:
		for i, j := 0, n-1; i < j; i, j = i+1, j-1 {
			perm[i], perm[j] = perm[j], perm[i]
		}
	case 2:
		e.order.Shuffle(n, func(i, j int) { perm[i], perm[j] = perm[j], perm[i] })
	}
	var reads strings.Builder
	reads.WriteString("var r = []; ")
	for _, i := range perm {
		fmt.Fprintf(&reads, "r[%d] = %s; ", i, e.valJS(e.slotJS(i)))
	}
	var refs []string
	for k := 0; k < 4; k++ {
		t := fmt.Sprintf("t%d", k)
		refs = append(refs, "(typeof "+t+" === 'undefined' ? 'u' : "+e.valJS(t)+")")
	}
	src := "(function() { " + reads.String() + "return [" + parts[0] + "].concat(r, [" + strings.Join(refs, ", ") + "]).join(',') })()"
	o := gj.Call(func() (goja.Value, error) { return e.r.RunString(src) })
	if o.Panic != nil {
		return &violation{"go-panic-escaped", fmt.Sprintf("reading after %s: Go panic escaped: %v\n%s", after, o.Panic, core.Trunc(o.PanicStack, 1800)), panicSig(o) + "|cow-read"}
	}
	if o.Err != nil || o.Fuel {
		return &violation{"copy-on-change", fmt.Sprintf("reading after %s threw %v", after, o.Err), "cow:read-throws:" + op}
	}
	var want []string
	want = append(want, strconv.Itoa(n))
	for _, v := range m.slots {
		want = append(want, strconv.Itoa(v))
	}
	attached, detached := 0, 0
	for k := 0; k < 4; k++ {
		if w := m.refs[k]; w == nil {
			want = append(want, "u")
		} else {
			want = append(want, strconv.Itoa(m.value(w)))
			if w.attached {
				attached++
			} else {
				detached++
			}
		}
	}
	got := o.Val.String()
	// Go view
	var gv []string
	gl := e.goLen()
	gv = append(gv, strconv.Itoa(gl))
	for i := 0; i < gl; i++ {
		gv = append(gv, strconv.Itoa(getElem(e.goSlot(i))))
	}
	if !e.quiet {
		e.st.Count("law6:alias_checked", int64(attached))
		e.st.Count("law6:detached_checked", int64(detached))
		e.st.Inc("law6:states_checked")
	}
	wantS := strings.Join(want, ",")
	wantGo := strings.Join(want[:n+1], ",")
	if got != wantS {
		return &violation{"copy-on-change", fmt.Sprintf("after %s: script sees [len, slots…, t0..t3] = %s, the documented copy-on-change rules give %s", after, got, wantS), "cow:script:" + op + ":" + cowDiffClass(got, wantS, n)}
	}
	if g := strings.Join(gv, ","); g != wantGo {
		return &violation{"copy-on-change", fmt.Sprintf("after %s: the Go container holds [len, slots…] = %s, expected %s", after, g, wantGo), "cow:go:" + op}
	}
	return nil
}

// cowDiffClass: does the first difference concern a slot or a reference?
func cowDiffClass(got, want string, n int) string {
	g, w := strings.Split(got, ","), strings.Split(want, ",")
	if len(g) != len(w) {
		return "shape"
	}
	for i := range g {
		if g[i] != w[i] {
			switch {
			case i == 0:
				return "length"
			case i <= n:
				return "slot"
			default:
				return "ref"
			}
		}
	}
	return "none"
}

func execCow(cs *cowCase, st *core.Stats, quiet bool) (*violation, int, []string) {
	e := &cowEnv{cs: cs, r: gj.NewRuntime(), st: st, quiet: quiet, order: core.NewRng(cs.Seed)}
	goja.VerifSetFuel(e.r, opsFuel)
	e.build()
	e.r.Set("a", e.cont.Interface())
	e.r.RunString("var t0, t1, t2, t3;")
	var script []string
	if v := e.verify("wrapping", "init"); v != nil {
		return v, -1, script
	}
	for i, op := range cs.Ops {
		js, v := e.apply(op)
		if js == "" && v == nil {
			continue
		}
		script = append(script, js)
		if v == nil {
			v = e.verify(fmt.Sprintf("op #%d `%s`", i, js), op.Op)
		}
		if v != nil {
			return v, i, script
		}
	}
	if why := gj.IdleProblem(e.r, false); why != "" {
		return &violation{"vm-not-idle", why, "idle:" + why}, len(cs.Ops) - 1, script
	}
	return nil, -1, script
}

func runCow(c *core.Ctx) core.Result {
	r := c.Rng
	st := c.Stats
	st.Inc("scenario:cow")
	cs := cowCase{Scenario: "cow", Container: core.Pick(r, []string{"slice", "slice", "slice", "array", "struct"}), Elem: core.Pick(r, []string{"S", "S", "arr2"})}
	n := r.Range(1, 5)
	if cs.Container == "struct" {
		n = r.Range(1, 3)
	}
	for i := 0; i < n; i++ {
		cs.Init = append(cs.Init, r.Intn(6))
	}
	if cs.Container == "slice" {
		cs.Cap = r.Intn(3)
	}
	cs.Seed = r.U64()
	nops := r.Range(3, 20)
	names := []string{"take", "take", "take", "wset", "wset", "wset", "assign-lit", "assign-lit", "assign-ref", "assign-ref", "delete", "length", "sort", "sort", "push", "pop", "reverse", "shift", "unshift", "go-write", "iset", "iset", "regrow", "regrow", "splice-tail"}
	for i := 0; i < nops; i++ {
		op := cowOp{Op: core.Pick(r, names), I: r.Intn(n + 2), N: r.Intn(9), T: r.Intn(4)}
		if op.Op == "length" {
			op.N = r.Intn(n + 3)
		}
		cs.Ops = append(cs.Ops, op)
	}
	st.SetAdd("cow_shapes", cs.Container+"/"+cs.Elem)
	v, at, script := execCow(&cs, st, false)
	cs.Script = script
	if c.Replay {
		fmt.Printf("--- case ---\n%+v\n", cs)
	}
	if v != nil && v.monitor == "fuel" {
		return core.Result{Verdict: core.Inconclusive, Monitor: "fuel"}
	}
	kinds := map[string]bool{}
	for _, op := range cs.Ops {
		kinds[op.Op] = true
	}
	nontrivial := kinds["take"] && kinds["wset"] && (kinds["assign-lit"] || kinds["assign-ref"] || kinds["sort"] || kinds["length"]) && kinds["go-write"]
	if st.WantSample() && nontrivial && c.Index%13 == 0 {
		st.Sample(cs)
	}
	if v == nil {
		return held(jsonKey(cs), nontrivial)
	}
	// minimise
	cs.Ops = cs.Ops[:at+1]
	quiet := core.NewStats()
	budget := 200
	for i := len(cs.Ops) - 2; i >= 0 && budget > 0; i-- {
		cand := cs
		cand.Ops = append(append([]cowOp{}, cs.Ops[:i]...), cs.Ops[i+1:]...)
		budget--
		if v2, _, _ := execCow(&cand, quiet, true); v2 != nil && v2.monitor == v.monitor && v2.sig == v.sig {
			cs.Ops = cand.Ops
		}
	}
	if v2, _, script := execCow(&cs, quiet, true); v2 != nil && v2.sig == v.sig {
		v = v2
		cs.Script = script
	}
	v.detail = fmt.Sprintf("container=%s elem=%s init=%v cap+%d\nscript: %s\n%s", cs.Container, cs.Elem, cs.Init, cs.Cap, strings.Join(cs.Script, "; "), v.detail)
	return violated(v, cs, jsonKey(cs))
}
