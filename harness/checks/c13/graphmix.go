package c13

import (
	"fmt"
	"reflect"
	"strings"

	"github.com/dop251/goja"

	"verif/harness/core"
	"verif/harness/gj"
)

// ---------------------------------------------------------------------------------------------
// Scenario "graph", mode "mixed" (law 3 with heterogeneous targets): ONE ExportTo in which the same script nodes are reached
// several times along different paths with MIXED target types — interface{} (generic Export() shape), map[string]interface{} /
// []interface{} (assignable: generic shape too), typed non-assignable maps / slices / structs / pointers — in random order and
// nested up to 3 levels. Laws: all generic exports of one node are one Go map / slice; typed exports of one node into the same
// reference type (map, slice, pointer) are shared; distinct nodes never share; contents are right; a cycle through a node's Self
// property closes on the node's generic export.
// ---------------------------------------------------------------------------------------------

// MixInner is the struct shape of object nodes ({X, Y, Self}).
type MixInner struct {
	X    int
	Y    int
	Self interface{}
}

type mixNode struct {
	Arr  bool  `json:"arr,omitempty"`
	X    int   `json:"x"`
	Y    int   `json:"y"`
	Self bool  `json:"self,omitempty"` // object nodes: node.Self = node
	Els  []int `json:"els,omitempty"`  // array nodes
}

type mixField struct {
	Node int    `json:"node"`
	Kind string `json:"kind"` // how the node is wrapped in script and what the Go target type is
}

type mixCase struct {
	Scenario string     `json:"scenario"`
	Mode     string     `json:"mode"`
	Nodes    []mixNode  `json:"nodes"`
	Fields   []mixField `json:"fields"`
	Source   string     `json:"source"`
	Target   string     `json:"target"`
}

var (
	tIface   = typIface
	tGMap    = reflect.TypeOf(map[string]interface{}(nil))
	tGSlice  = reflect.TypeOf([]interface{}(nil))
	tIMap    = reflect.TypeOf(map[string]int(nil))
	tISlice  = reflect.TypeOf([]int(nil))
	tInner   = reflect.TypeOf(MixInner{})
	tPInner  = reflect.TypeOf(&MixInner{})
	objKinds = []string{"iface", "iface", "iface", "gmap", "imap", "struct", "pstruct", "in-gslice", "in-gmap", "in-iface-arr", "in-iface-obj", "in-map-inner", "in-slice-pinner", "in-map-imap", "in-struct-iface", "deep"}
	arrKinds = []string{"iface", "iface", "gslice", "islice", "array3", "in-gmap", "in-iface-arr", "in-slice-islice", "in-struct-iface"}
)

// mixTarget: script expression wrapping node expression n, and the Go type of the field.
func mixTarget(kind, n string) (js string, t reflect.Type) {
	switch kind {
	case "iface":
		return n, tIface
	case "gmap":
		return n, tGMap
	case "gslice":
		return n, tGSlice
	case "imap":
		return n, tIMap
	case "islice":
		return n, tISlice
	case "array3":
		return n, reflect.ArrayOf(3, reflect.TypeOf(0))
	case "struct":
		return n, tInner
	case "pstruct":
		return n, tPInner
	case "in-gslice":
		return "[" + n + ", 7, " + n + "]", tGSlice
	case "in-gmap":
		return "({k: " + n + ", j: " + n + "})", tGMap
	case "in-iface-arr":
		return "[" + n + "]", tIface
	case "in-iface-obj":
		return "({k: " + n + "})", tIface
	case "in-map-inner":
		return "({k: " + n + "})", reflect.MapOf(reflect.TypeOf(""), tInner)
	case "in-slice-pinner":
		return "[" + n + ", " + n + "]", reflect.SliceOf(tPInner)
	case "in-map-imap":
		return "({k: " + n + ", j: " + n + "})", reflect.MapOf(reflect.TypeOf(""), tIMap)
	case "in-slice-islice":
		return "[" + n + ", " + n + "]", reflect.SliceOf(tISlice)
	case "in-struct-iface":
		return "({P: " + n + ", Q: [" + n + "]})", reflect.StructOf([]reflect.StructField{{Name: "P", Type: tIface}, {Name: "Q", Type: tGSlice}})
	case "deep":
		return "({A: [{B: " + n + "}], C: " + n + "})", reflect.StructOf([]reflect.StructField{
			{Name: "A", Type: reflect.SliceOf(reflect.StructOf([]reflect.StructField{{Name: "B", Type: tIface}}))},
			{Name: "C", Type: tPInner}})
	}
	return n, tIface
}

type mixObs struct {
	nodes    []mixNode
	generic  map[int]string            // node → identity of its generic export
	typed    map[int]map[string]string // node → type → identity of its typed reference export
	owner    map[string]int            // identity → node
	problems []string
	nGeneric int
	nTyped   int
}

func (o *mixObs) fail(format string, args ...interface{}) {
	if len(o.problems) < 3 {
		o.problems = append(o.problems, fmt.Sprintf(format, args...))
	}
}

func (o *mixObs) own(id string, node int, path string) {
	if id == "" {
		return
	}
	if prev, ok := o.owner[id]; ok && prev != node {
		o.fail("%s: distinct nodes n%d and n%d share one Go value %s", path, prev, node, id)
	}
	o.owner[id] = node
}

// see checks the export v (static type of the location: st) of node id.
func (o *mixObs) see(id int, v reflect.Value, path string, depth int) {
	nd := o.nodes[id]
	if depth > 6 {
		return
	}
	st := v.Type()
	for v.Kind() == reflect.Interface {
		if v.IsNil() {
			o.fail("%s: node n%d exported as nil", path, id)
			return
		}
		v = v.Elem()
	}
	generic := st == tIface || st == tGMap || st == tGSlice
	if generic {
		// Export() shape: object → map[string]interface{}, array → []interface{}
		want := tGMap
		if nd.Arr {
			want = tGSlice
		}
		if v.Type() != want {
			o.fail("%s: node n%d exported generically as %s, expected %s", path, id, v.Type(), want)
			return
		}
		idn := goIdentity(v)
		o.nGeneric++
		if prev, ok := o.generic[id]; ok {
			if idn != "" && prev != idn {
				o.fail("%s: the generic export of node n%d is %s here and %s elsewhere in the same ExportTo: sharing lost", path, id, idn, prev)
			}
			return // contents checked at the first sighting (and the cycle closes here)
		}
		if idn != "" {
			o.generic[id] = idn
			o.own(idn, id, path)
		}
		if nd.Arr {
			if v.Len() != len(nd.Els) {
				o.fail("%s: array node n%d has %d elements, exported %d", path, id, len(nd.Els), v.Len())
				return
			}
			for i, e := range nd.Els {
				if x, ok := v.Index(i).Interface().(int64); !ok || int(x) != e {
					o.fail("%s[%d]: %v, expected %d", path, i, v.Index(i).Interface(), e)
				}
			}
			return
		}
		m := v.Interface().(map[string]interface{})
		if x, ok := m["X"].(int64); !ok || int(x) != nd.X {
			o.fail("%s.X: %v, expected %d", path, m["X"], nd.X)
		}
		if nd.Self {
			sv, ok := m["Self"]
			if !ok || sv == nil {
				o.fail("%s.Self missing", path)
			} else {
				o.see(id, reflect.ValueOf(&sv).Elem(), path+".Self", depth+1)
			}
		}
		return
	}
	// typed export
	key := st.String()
	switch st.Kind() {
	case reflect.Map, reflect.Slice, reflect.Ptr:
		idn := goIdentity(v)
		if st.Kind() == reflect.Ptr && v.IsNil() {
			o.fail("%s: node n%d exported as nil %s", path, id, st)
			return
		}
		o.nTyped++
		if o.typed[id] == nil {
			o.typed[id] = map[string]string{}
		}
		if prev, ok := o.typed[id][key]; ok && idn != "" && prev != idn {
			o.fail("%s: node n%d exported into %s twice within one ExportTo as distinct values (%s, %s): sharing lost", path, id, st, prev, idn)
		}
		if idn != "" {
			o.typed[id][key] = idn
			o.own(idn, id, path)
		}
	}
	switch {
	case st == tIMap:
		if v.Len() == 0 || int(v.MapIndex(reflect.ValueOf("X")).Int()) != nd.X || int(v.MapIndex(reflect.ValueOf("Y")).Int()) != nd.Y {
			o.fail("%s: map[string]int export of node n%d is %v, expected X=%d Y=%d", path, id, v.Interface(), nd.X, nd.Y)
		}
	case st == tISlice || st.Kind() == reflect.Array:
		if v.Len() != len(nd.Els) {
			o.fail("%s: %s export of node n%d has %d elements, expected %d", path, st, id, v.Len(), len(nd.Els))
			return
		}
		for i, e := range nd.Els {
			if int(v.Index(i).Int()) != e {
				o.fail("%s[%d]: %d, expected %d", path, i, v.Index(i).Int(), e)
			}
		}
	case st == tInner || st == tPInner:
		if st == tPInner {
			v = v.Elem()
		}
		in := v.Interface().(MixInner)
		if in.X != nd.X || in.Y != nd.Y {
			o.fail("%s: struct export of node n%d is %+v, expected X=%d Y=%d", path, id, in, nd.X, nd.Y)
		}
		if nd.Self {
			if in.Self == nil {
				o.fail("%s.Self missing", path)
			} else {
				o.see(id, reflect.ValueOf(&in.Self).Elem(), path+".Self", depth+1)
			}
		}
	}
}

// walkField follows the wrapping of kind to the places where the node sits.
func (o *mixObs) walkField(f mixField, v reflect.Value, path string) {
	deref := func(x reflect.Value) reflect.Value {
		for x.IsValid() && x.Kind() == reflect.Interface && !x.IsNil() {
			x = x.Elem()
		}
		return x
	}
	at := func(x reflect.Value, i int) reflect.Value {
		x = deref(x)
		if !x.IsValid() || (x.Kind() != reflect.Slice && x.Kind() != reflect.Array) || i >= x.Len() {
			o.fail("%s: expected a slice with index %d, got %v", path, i, x)
			return reflect.Value{}
		}
		return x.Index(i)
	}
	key := func(x reflect.Value, k string) reflect.Value {
		x = deref(x)
		if !x.IsValid() || x.Kind() != reflect.Map {
			o.fail("%s: expected a map with key %s, got %v", path, k, x)
			return reflect.Value{}
		}
		e := x.MapIndex(reflect.ValueOf(k))
		if !e.IsValid() {
			o.fail("%s: key %s missing", path, k)
			return reflect.Value{}
		}
		// map elements are not addressable: copy into an addressable location of the element type
		c := reflect.New(x.Type().Elem()).Elem()
		c.Set(e)
		return c
	}
	see := func(x reflect.Value, p string) {
		if x.IsValid() {
			o.see(f.Node, x, path+p, 0)
		}
	}
	switch f.Kind {
	case "in-gslice":
		see(at(v, 0), "[0]")
		see(at(v, 2), "[2]")
	case "in-gmap", "in-map-imap":
		see(key(v, "k"), ".k")
		see(key(v, "j"), ".j")
	case "in-iface-arr":
		see(at(v, 0), "[0]")
	case "in-iface-obj", "in-map-inner":
		see(key(v, "k"), ".k")
	case "in-slice-pinner", "in-slice-islice":
		see(at(v, 0), "[0]")
		see(at(v, 1), "[1]")
	case "in-struct-iface":
		see(v.Field(0), ".P")
		see(at(v.Field(1), 0), ".Q[0]")
	case "deep":
		if a := at(v.Field(0), 0); a.IsValid() {
			see(a.Field(0), ".A[0].B")
		}
		see(v.Field(1), ".C")
	default:
		see(v, "")
	}
}

func runGraphMixed(c *core.Ctx, r *core.Rng, rt *goja.Runtime) core.Result {
	st := c.Stats
	// (field names F0…, X, Y, Self are used as they are: default field name mapping)
	rt = gj.NewRuntime()
	goja.VerifSetFuel(rt, opsFuel)
	cs := mixCase{Scenario: "graph", Mode: "mixed"}
	nn := r.Range(1, 3)
	for i := 0; i < nn; i++ {
		n := mixNode{Arr: r.Chance(1, 3), X: r.Range(1, 90), Y: r.Range(1, 90)}
		if n.Arr {
			n.Els = []int{r.Intn(50), r.Intn(50), r.Intn(50)}
		} else {
			n.Self = r.Chance(1, 2)
		}
		cs.Nodes = append(cs.Nodes, n)
	}
	nf := r.Range(3, 7)
	var fs []reflect.StructField
	var src strings.Builder
	for i, n := range cs.Nodes {
		if n.Arr {
			fmt.Fprintf(&src, "var n%d = [%d, %d, %d];\n", i, n.Els[0], n.Els[1], n.Els[2])
		} else {
			fmt.Fprintf(&src, "var n%d = {X: %d, Y: %d};\n", i, n.X, n.Y)
			if n.Self {
				fmt.Fprintf(&src, "n%d.Self = n%d;\n", i, i)
			}
		}
	}
	src.WriteString("({")
	for i := 0; i < nf; i++ {
		f := mixField{Node: r.Intn(nn)}
		if i >= 1 && r.Chance(1, 2) {
			f.Node = cs.Fields[r.Intn(i)].Node // revisit a node: that is what the scenario is about
		}
		if cs.Nodes[f.Node].Arr {
			f.Kind = core.Pick(r, arrKinds)
			if f.Kind == "array3" && !fixedArrayTwice() {
				// a second export of one array into a Go array type yields zeros (known finding C13-export-array-twice)
				for _, g := range cs.Fields {
					if g.Node == f.Node && g.Kind == "array3" {
						f.Kind = "islice"
					}
				}
			}
		} else {
			f.Kind = core.Pick(r, objKinds)
		}
		cs.Fields = append(cs.Fields, f)
		js, t := mixTarget(f.Kind, fmt.Sprintf("n%d", f.Node))
		name := fmt.Sprintf("F%d", i)
		fs = append(fs, reflect.StructField{Name: name, Type: t})
		if i > 0 {
			src.WriteString(", ")
		}
		src.WriteString(name + ": " + js)
	}
	src.WriteString("})")
	cs.Source = src.String()
	target := reflect.New(reflect.StructOf(fs))
	cs.Target = target.Elem().Type().String()
	if c.Replay {
		fmt.Printf("--- case --- scenario=graph mode=mixed\n%s\ntarget: %s\n", cs.Source, cs.Target)
	}
	fail := func(monitor, detail, sig string) core.Result {
		v := &violation{monitor, fmt.Sprintf("mode=mixed\n%s\nsource:\n%s\ntarget type: %s", detail, cs.Source, cs.Target), sig}
		return violated(v, cs, jsonKey(cs))
	}
	o := gj.Call(func() (goja.Value, error) { return rt.RunString(cs.Source) })
	if o.Panic != nil || o.Err != nil || o.Fuel {
		return fail("harness-graph", fmt.Sprintf("source does not evaluate: %v %v", o.Err, o.Panic), "harness-graph")
	}
	var err error
	o2 := gjCall(func() { err = rt.ExportTo(o.Val, target.Interface()) })
	if o2.Panic != nil {
		return fail("go-panic-escaped", fmt.Sprintf("ExportTo panicked: %v\n%s", o2.Panic, core.Trunc(o2.PanicStack, 1800)), panicSig(o2)+"|graph-mixed")
	}
	if err != nil {
		return fail("graph-export", "ExportTo failed: "+err.Error(), "graph-export:error:mixed")
	}
	obs := &mixObs{nodes: cs.Nodes, generic: map[int]string{}, typed: map[int]map[string]string{}, owner: map[string]int{}}
	kinds := map[string]bool{}
	for i, f := range cs.Fields {
		obs.walkField(f, target.Elem().Field(i), fmt.Sprintf("F%d", i))
		kinds[f.Kind] = true
		st.SetAdd("graph_mixed_kinds", f.Kind)
	}
	st.Inc("law3:checked")
	st.Inc("law3:mixed_checked")
	st.Count("graph:mixed_generic_sightings", int64(obs.nGeneric))
	st.Count("graph:mixed_typed_sightings", int64(obs.nTyped))
	if len(obs.problems) > 0 {
		return fail("graph-export", strings.Join(obs.problems, "\n"), "graph-export:mixed:"+sigClass(obs.problems[0]))
	}
	return held(jsonKey(cs), obs.nGeneric >= 2 && obs.nTyped >= 1)
}
