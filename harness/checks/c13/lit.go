package c13

import (
	"fmt"
	"math"
	"reflect"
	"sort"
	"strconv"
	"strings"

	"verif/harness/core"
)

// ---------------------------------------------------------------------------------------------
// Written values: a JS literal together with the view the target Go location is documented to show after a
// successful write (ExportTo doc: "Exporting to numeric types uses the standard ECMAScript conversion operations, same as
// used when assigning values to non-clamped typed array items"; "Exporting to an interface{} results in a value of the same
// type as Value.Export() would produce"; struct/map/slice rules). The conversion model below is written from ECMA-262
// (ToNumber on the literal alphabet, ToInt8..ToUint32 = truncate then modulo 2^n, Float32 = round to nearest) — not from goja.
// ---------------------------------------------------------------------------------------------

type lit struct {
	JS    string // JS source of the written value
	View  string // expected goView of the target afterwards ("" when Known is false)
	Known bool   // the documented contract determines the result
	Fail  bool   // the documented contract says the conversion is impossible (TypeError expected in strict mode)
	Kind  string // evidence: num/str/bool/null/undef/bigint/object/array/func
	// for interface{} targets: the Go type Export() would produce ("" = not checked)
	IfaceType string
}

var litNums = []float64{0, 1, -1, 5, 42, 127, 128, 255, 256, 300, -129, 32767, 32768, 65535, 65536, 70000, -70000, 2147483647, 2147483648, 4294967295, 4294967296, 4294967301,
	1.5, -1.5, 0.1, 2.5e9, -2.5e9, 1e10, 9007199254740991, math.Copysign(0, -1), math.NaN(), math.Inf(1), math.Inf(-1)}

type strLit struct {
	s   string
	num float64 // ToNumber(s)
}

var litStrs = []strLit{{"abc", math.NaN()}, {"12", 12}, {"", 0}, {"-0", math.Copysign(0, -1)}, {" 7 ", 7}, {"0x10", 16}, {"1e3", 1000}, {"300", 300}, {"héllo", math.NaN()}, {"-129", -129}}

func jsNum(f float64) string {
	switch {
	case f != f:
		return "NaN"
	case math.IsInf(f, 1):
		return "Infinity"
	case math.IsInf(f, -1):
		return "-Infinity"
	case f == 0 && math.Signbit(f):
		return "-0"
	}
	return strconv.FormatFloat(f, 'g', -1, 64)
}

// jsStr renders a (valid UTF-8) Go string as a JS string literal.
func jsStr(s string) string {
	var b strings.Builder
	b.WriteByte('"')
	for _, c := range s {
		switch {
		case c == '"' || c == '\\':
			b.WriteByte('\\')
			b.WriteRune(c)
		case c >= 0x20 && c < 0x7f:
			b.WriteRune(c)
		case c > 0xffff:
			c -= 0x10000
			fmt.Fprintf(&b, "\\u%04x\\u%04x", 0xd800+(c>>10), 0xdc00+(c&0x3ff))
		default:
			fmt.Fprintf(&b, "\\u%04x", c)
		}
	}
	b.WriteByte('"')
	return b.String()
}

// toIntN: ECMA-262 ToInt8/16/32 and ToUint8/16/32 (7.1.6 ff): NaN, ±∞ → 0; truncate; modulo 2^bits; signed wrap.
func toIntN(x float64, bits int, signed bool) float64 {
	if x != x || math.IsInf(x, 0) {
		return 0
	}
	t := math.Trunc(x)
	m := math.Ldexp(1, bits)
	t = math.Mod(t, m)
	if t < 0 {
		t += m
	}
	if signed && t >= m/2 {
		t -= m
	}
	if t == 0 {
		return 0 // +0
	}
	return t
}

// numToString: ECMA-262 Number::toString for the subset {NaN, ±∞, ±0, integers |x| < 2^53, a few short fractions}.
func numToString(x float64) (string, bool) {
	switch {
	case x != x:
		return "NaN", true
	case math.IsInf(x, 1):
		return "Infinity", true
	case math.IsInf(x, -1):
		return "-Infinity", true
	case x == 0:
		return "0", true
	case x == math.Trunc(x) && math.Abs(x) < 1<<53:
		return strconv.FormatFloat(x, 'f', 0, 64), true
	case x == 1.5 || x == -1.5 || x == 0.1:
		return strconv.FormatFloat(x, 'f', -1, 64), true
	}
	return "", false
}

// primLit describes a primitive literal: its JS text and its ES abstract values.
type primLit struct {
	js     string
	kind   string
	num    float64 // ToNumber
	numOK  bool
	str    string // ToString
	strOK  bool
	truthy bool   // ToBoolean
	exp    string // view of Export(): what an interface{} target shows
	expT   string // Go type of Export()
}

func genPrimLit(r *core.Rng) primLit {
	w := []int{50, 22, 10, 8, 6, 4}
	if !fixedCacheOnThrow() {
		// BigInt → Number conversion throws in the middle of a write, which leaves the container's element cache detached
		// (known finding C13-cache-detached-on-throw): no BigInt literals for non-BigInt locations until that is fixed
		w[5] = 0
	}
	switch r.PickW(w) {
	case 0:
		x := core.Pick(r, litNums)
		s, ok := numToString(x)
		p := primLit{js: jsNum(x), kind: "num", num: x, numOK: true, str: s, strOK: ok, truthy: x == x && x != 0}
		p.exp = renderNum(x)
		// Export() type of a Number: int64 for integral values (not -0) that goja stores as integers, float64 otherwise.
		// Only claimed where the documentation of Value.Export / ToValue is unambiguous: small integers and non-integers.
		if x == math.Trunc(x) && math.Abs(x) < 1<<31 && !(x == 0 && math.Signbit(x)) {
			p.expT = "int64"
		} else if x != math.Trunc(x) || x != x {
			p.expT = "float64"
		}
		return p
	case 1:
		s := core.Pick(r, litStrs)
		return primLit{js: jsStr(s.s), kind: "str", num: s.num, numOK: true, str: s.s, strOK: true, truthy: s.s != "", exp: renderStr(s.s), expT: "string"}
	case 2:
		b := r.Bool()
		n := 0.0
		if b {
			n = 1
		}
		v := "b:false"
		if b {
			v = "b:true"
		}
		return primLit{js: strconv.FormatBool(b), kind: "bool", num: n, numOK: true, str: strconv.FormatBool(b), strOK: true, truthy: b, exp: v, expT: "bool"}
	case 3:
		// null: zero value for every target type (ES ToNumber(null) = 0 agrees for numbers; ToString(null) = "null" does NOT
		// agree with the zero value for strings, so string targets are left undetermined)
		return primLit{js: "null", kind: "null", num: 0, numOK: true, truthy: false, exp: "null", expT: "nil"}
	case 4:
		return primLit{js: "undefined", kind: "undef", num: math.NaN(), numOK: true, truthy: false, exp: "null", expT: "nil"}
	default:
		big := core.Pick(r, []string{"0", "5", "-7", "123456789012345678901234567890"})
		return primLit{js: big + "n", kind: "bigint", truthy: big != "0", exp: "g:" + big, expT: "*big.Int"}
	}
}

func wrapNamed(t reflect.Type, s string) string {
	if !unnamed(t) {
		return "W(" + s + ")"
	}
	return s
}

// primInto: expected view of a primitive literal written into a location of primitive kind t.
func primInto(p primLit, t reflect.Type) (view string, known bool, fail bool) {
	k := t.Kind()
	if p.kind == "bigint" {
		return "", false, false // BigInt → Number conversions throw in ES; left undetermined
	}
	switch k {
	case reflect.Int8, reflect.Int16, reflect.Int32, reflect.Uint8, reflect.Uint16, reflect.Uint32:
		if !p.numOK {
			return "", false, false
		}
		signed := k == reflect.Int8 || k == reflect.Int16 || k == reflect.Int32
		return wrapNamed(t, renderNum(toIntN(p.num, t.Bits(), signed))), true, false
	case reflect.Int, reflect.Int64, reflect.Uint, reflect.Uint64:
		if !p.numOK {
			return "", false, false
		}
		x := p.num
		if x != x || math.IsInf(x, 0) {
			if p.kind == "null" || p.kind == "undef" || p.kind == "str" {
				// zero value / NaN → 0 by every ES integer conversion
				return wrapNamed(t, renderNum(0)), true, false
			}
			return "", false, false // no ES conversion to 64 bit defined for non-finite Numbers
		}
		tr := math.Trunc(x)
		if math.Abs(tr) >= 1<<62 || (tr < 0 && (k == reflect.Uint || k == reflect.Uint64)) {
			return "", false, false
		}
		if tr == 0 {
			tr = 0
		}
		return wrapNamed(t, renderNum(tr)), true, false
	case reflect.Float32:
		if !p.numOK || p.kind == "undef" { // undefined: ES says NaN, the zero value is as defensible; doc silent
			return "", false, false
		}
		return wrapNamed(t, renderNum(float64(float32(p.num)))), true, false
	case reflect.Float64:
		if !p.numOK || p.kind == "undef" {
			return "", false, false
		}
		return wrapNamed(t, renderNum(p.num)), true, false
	case reflect.String:
		if p.kind == "null" || p.kind == "undef" || !p.strOK {
			return "", false, false
		}
		return wrapNamed(t, renderStr(p.str)), true, false
	case reflect.Bool:
		s := "b:false"
		if p.truthy {
			s = "b:true"
		}
		return wrapNamed(t, s), true, false
	}
	return "", false, false
}

// genLit produces a value to write into a location of type t.
func genLit(r *core.Rng, t reflect.Type, mapper int, depth int) lit {
	// occasionally a deliberately ill-typed value
	if r.Chance(1, 7) {
		return genWrongLit(r, t)
	}
	return genGoodLit(r, t, mapper, depth)
}

func hasAnonymous(t reflect.Type) bool {
	for i := 0; i < t.NumField(); i++ {
		if t.Field(i).Anonymous {
			return true
		}
	}
	return false
}

func genGoodLit(r *core.Rng, t reflect.Type, mapper int, depth int) lit {
	switch t.Kind() {
	case reflect.Bool, reflect.Int, reflect.Int8, reflect.Int16, reflect.Int32, reflect.Int64, reflect.Uint, reflect.Uint8, reflect.Uint16, reflect.Uint32, reflect.Uint64,
		reflect.Float32, reflect.Float64, reflect.String:
		p := genPrimLit(r)
		if !fixedNamedUint64() && (t.Kind() == reflect.Uint64 || t.Kind() == reflect.Uint) && (p.numOK && !(p.num >= 0)) {
			// negative → wraps above MaxInt64, which named / pointed-to uint64 values show as negative (known finding C13-named-uint64-valueof)
			p = primLit{js: "5", kind: "num", num: 5, numOK: true, str: "5", strOK: true, truthy: true}
		}
		v, known, _ := primInto(p, t)
		return lit{JS: p.js, View: v, Known: known, Kind: p.kind}
	case reflect.Interface:
		if t != typIface {
			return lit{JS: "null", View: "null", Known: true, Kind: "null"}
		}
		if depth > 0 && r.Chance(1, 4) {
			// {a: <prim>} → map[string]interface{}; [<prim>..] → []interface{}
			p1, p2 := genPrimLit(r), genPrimLit(r)
			if p1.kind == "undef" || p2.kind == "undef" {
				p1.js, p1.exp, p2.js, p2.exp = "1", renderNum(1), "null", "null"
			}
			if r.Bool() {
				return lit{JS: "({a:" + p1.js + ",b:" + p2.js + "})", View: `{"a":` + p1.exp + `,"b":` + p2.exp + "}", Known: true, Kind: "object", IfaceType: "map[string]interface {}"}
			}
			return lit{JS: "[" + p1.js + "," + p2.js + "]", View: "[" + p1.exp + "," + p2.exp + "]", Known: true, Kind: "array", IfaceType: "[]interface {}"}
		}
		p := genPrimLit(r)
		return lit{JS: p.js, View: p.exp, Known: true, Kind: p.kind, IfaceType: p.expT}
	case reflect.Ptr:
		if t == typBigInt {
			big := core.Pick(r, []string{"0", "5", "-7", "123456789012345678901234567890"})
			if r.Chance(1, 5) {
				// null → nil *big.Int, which script sees as 0n
				return lit{JS: "null", View: "g:0", Known: true, Kind: "null"}
			}
			return lit{JS: big + "n", View: "g:" + big, Known: true, Kind: "bigint"}
		}
		if r.Chance(1, 5) {
			return lit{JS: "null", View: "null", Known: true, Kind: "null"}
		}
		l := genGoodLit(r, t.Elem(), mapper, depth)
		if l.Kind == "null" || l.Kind == "undef" {
			// null/undefined written into a pointer: nil pointer
			return lit{JS: l.JS, View: "null", Known: true, Kind: l.Kind}
		}
		if strings.HasPrefix(l.View, "n:") || strings.HasPrefix(l.View, "s:") || strings.HasPrefix(l.View, "b:") {
			l.View = "W(" + l.View + ")" // a pointer to a primitive shows as a Number/String/Boolean-like host object
		}
		return l
	case reflect.Struct:
		if t == typTime || hasAnonymous(t) || depth <= 0 {
			return lit{JS: "null", Kind: "null"} // null → zero value; not claimed for structs (doc silent)
		}
		if inPlacePtr(t) {
			// structs and arrays are converted in place: existing pointers inside them are written through, and those may
			// be shared with other locations — the result is then not a function of the literal alone
			l := genGoodLitUnknown(r, t, mapper, depth)
			return l
		}
		fs := visibleFields(t, mapper)
		type kv struct{ k, js, v string }
		var items []kv
		known := true
		for _, f := range fs {
			if f.Type.Kind() == reflect.Func {
				continue
			}
			l := genGoodLit(r, f.Type, mapper, depth-1)
			if f.Type.Kind() == reflect.Struct && !l.Known {
				known = false
			}
			if !l.Known {
				known = false
			}
			if l.Kind == "undef" {
				// an undefined property: doc silent on whether it zeroes or skips → supply a definite value instead
				l = lit{JS: "null", Known: false}
				known = false
			}
			items = append(items, kv{f.JS, l.JS, l.View})
		}
		var js strings.Builder
		js.WriteString("({")
		for i, it := range items {
			if i > 0 {
				js.WriteByte(',')
			}
			js.WriteString(jsStr(it.k) + ":" + it.js)
		}
		js.WriteString("})")
		view := ""
		if known {
			sort.Slice(items, func(i, j int) bool { return items[i].k < items[j].k })
			var b strings.Builder
			b.WriteByte('{')
			for i, it := range items {
				if i > 0 {
					b.WriteByte(',')
				}
				b.WriteString(strconv.Quote(it.k) + ":" + it.v)
			}
			b.WriteByte('}')
			view = b.String()
		}
		return lit{JS: js.String(), View: view, Known: known, Kind: "object"}
	case reflect.Map:
		if t.NumMethod() > 0 || !mapKeySupported(t.Key().Kind()) || depth <= 0 {
			return lit{JS: "null", Kind: "null"}
		}
		n := r.Intn(3)
		type kv struct{ k, js, v string }
		var items []kv
		seen := map[string]bool{}
		known := true
		for i := 0; i < n; i++ {
			k := reflect.New(t.Key()).Elem()
			fillKey(r, k)
			ks := fmt.Sprintf("%v", k.Interface())
			if seen[ks] {
				continue
			}
			seen[ks] = true
			l := genGoodLit(r, t.Elem(), mapper, depth-1)
			if !l.Known || l.Kind == "undef" {
				known = false
			}
			if isFuncKind(t.Elem()) {
				continue
			}
			items = append(items, kv{ks, l.JS, l.View})
		}
		var js strings.Builder
		js.WriteString("({")
		for i, it := range items {
			if i > 0 {
				js.WriteByte(',')
			}
			js.WriteString(jsStr(it.k) + ":" + it.js)
		}
		js.WriteString("})")
		view := ""
		if known {
			sort.Slice(items, func(i, j int) bool { return items[i].k < items[j].k })
			var b strings.Builder
			b.WriteByte('{')
			for i, it := range items {
				if i > 0 {
					b.WriteByte(',')
				}
				b.WriteString(strconv.Quote(it.k) + ":" + it.v)
			}
			b.WriteByte('}')
			view = b.String()
		}
		return lit{JS: js.String(), View: view, Known: known, Kind: "object"}
	case reflect.Slice, reflect.Array:
		if depth <= 0 {
			return lit{JS: "null", Kind: "null"}
		}
		if t.Kind() == reflect.Array && inPlacePtr(t) {
			return genGoodLitUnknown(r, t, mapper, depth)
		}
		n := r.Intn(4)
		if t.Kind() == reflect.Array {
			n = t.Len()
		}
		var js, view []string
		known := !isFuncKind(t.Elem())
		for i := 0; i < n; i++ {
			l := genGoodLit(r, t.Elem(), mapper, depth-1)
			if !l.Known || l.Kind == "undef" {
				known = false
			}
			js = append(js, l.JS)
			view = append(view, l.View)
		}
		v := ""
		if known {
			v = "[" + strings.Join(view, ",") + "]"
		}
		return lit{JS: "[" + strings.Join(js, ",") + "]", View: v, Known: known, Kind: "array"}
	case reflect.Func:
		if !fixedJSFuncConv() {
			// a JS function exported into a Go func type without error result panics with a plain Go error when its result
			// does not convert (known finding C13-jsfunc-conversion-panic)
			return lit{JS: "null", Kind: "null"}
		}
		return lit{JS: "(function(){ return 1 })", Kind: "func"}
	}
	return lit{JS: "null", Kind: "null"}
}

func isFuncKind(t reflect.Type) bool { return t.Kind() == reflect.Func }

// inPlacePtr: a value of type t holds pointers that an in-place conversion writes through (directly or in nested structs/arrays).
func inPlacePtr(t reflect.Type) bool {
	switch t.Kind() {
	case reflect.Ptr:
		return t != typBigInt
	case reflect.Array:
		return inPlacePtr(t.Elem())
	case reflect.Struct:
		if t == typTime {
			return false
		}
		for i := 0; i < t.NumField(); i++ {
			if inPlacePtr(t.Field(i).Type) {
				return true
			}
		}
	}
	return false
}

// genGoodLitUnknown: a well-typed literal for t without a claimed result (laws 4 and 9 still apply to the write).
func genGoodLitUnknown(r *core.Rng, t reflect.Type, mapper int, depth int) lit {
	var l lit
	switch t.Kind() {
	case reflect.Struct:
		var parts []string
		for _, f := range visibleFields(t, mapper) {
			if f.Type.Kind() == reflect.Func {
				continue
			}
			parts = append(parts, jsStr(f.JS)+":"+genGoodLit(r, f.Type, mapper, depth-1).JS)
		}
		l = lit{JS: "({" + strings.Join(parts, ",") + "})", Kind: "object"}
	default:
		var parts []string
		for i := 0; i < t.Len(); i++ {
			parts = append(parts, genGoodLit(r, t.Elem(), mapper, depth-1).JS)
		}
		l = lit{JS: "[" + strings.Join(parts, ",") + "]", Kind: "array"}
	}
	return l
}

// genWrongLit: a value whose conversion the documentation declares impossible (primitive → struct / map / slice / array / func),
// or a harmless odd one (object → number). Fail is claimed only for the clear-cut cases.
func genWrongLit(r *core.Rng, t reflect.Type) lit {
	prims := []string{"5", `"x"`, "true", "1.5"}
	switch t.Kind() {
	case reflect.Struct:
		if t == typTime {
			return lit{JS: "true", Kind: "bool"}
		}
		return lit{JS: core.Pick(r, prims), Fail: true, Kind: "wrong-prim"}
	case reflect.Map:
		return lit{JS: core.Pick(r, prims), Fail: true, Kind: "wrong-prim"}
	case reflect.Slice:
		if t.Elem().Kind() == reflect.Uint8 {
			return lit{JS: "5", Kind: "wrong-prim"}
		}
		return lit{JS: core.Pick(r, []string{"5", "true", "1.5"}), Fail: true, Kind: "wrong-prim"}
	case reflect.Array:
		if r.Bool() {
			// wrong length
			n := t.Len() + 1 + r.Intn(2)
			return lit{JS: "[" + strings.TrimSuffix(strings.Repeat("null,", n), ",") + "]", Fail: true, Kind: "wrong-len"}
		}
		return lit{JS: core.Pick(r, []string{"5", "true", "1.5"}), Fail: true, Kind: "wrong-prim"}
	case reflect.Func:
		return lit{JS: core.Pick(r, prims), Fail: true, Kind: "wrong-prim"}
	}
	dt := t
	for dt.Kind() == reflect.Ptr {
		dt = dt.Elem()
	}
	if dt.Kind() == reflect.Map || dt.Kind() == reflect.Struct && dt != typBigInt.Elem() && t.Kind() == reflect.Ptr {
		// (an object with arbitrary property names would put the NaN key into float-keyed maps)
		return lit{JS: core.Pick(r, prims), Kind: "wrong-prim"}
	}
	// primitive targets: objects, arrays, functions, symbols — any outcome but a Go panic
	odd := []string{"({})", "[]", "[1,2]", "({valueOf:function(){return 7}})", "(function(){})", "new Date(0)", "new Map()", "/re/", "new Number(3)"}
	if fixedCacheOnThrow() {
		odd = append(odd, "Symbol()", "Object.create(null)", "({valueOf:function(){throw new RangeError('vo')}})", "5n")
	}
	return lit{JS: core.Pick(r, odd), Kind: "odd-object"}
}
