package c13

import (
	"fmt"
	"reflect"
	"strings"

	"github.com/dop251/goja"

	"verif/harness/core"
	"verif/harness/gj"
)

// ---------------------------------------------------------------------------------------------
// Scenario "funcs": the func rules of the ToValue / ExportTo doc comments.
//   Go func called from script: arguments converted to the parameter types (TypeError when impossible); no result → undefined,
//   one result → that value, several → Array; a trailing non-nil error → GoError exception whose `value` is that error;
//   variadic parameters collect the remaining arguments. Wrong arity / ill-typed calls: any outcome but a Go panic.
//   JS function exported into a Go func type and called from Go: arguments through ToValue, result through ExportTo.
// ---------------------------------------------------------------------------------------------

type funcCase struct {
	Scenario string   `json:"scenario"`
	Mapper   string   `json:"mapper"`
	Type     string   `json:"type"`
	Dir      string   `json:"dir"` // go-from-js | js-from-go
	Calls    []string `json:"calls"`
	Seed     uint64   `json:"seed"`
}

func runFuncs(c *core.Ctx) core.Result {
	r := c.Rng
	st := c.Stats
	st.Inc("scenario:funcs")
	mapper := r.Intn(3)
	seed := r.U64()
	rr := core.NewRng(seed)
	ft := genFunc(rr)
	typ := ft.T
	cs := funcCase{Scenario: "funcs", Mapper: mapperNames[mapper], Type: typ.String(), Seed: seed}
	st.SetAdd("func_shapes", fmt.Sprintf("in%d%s/out%d", typ.NumIn(), map[bool]string{true: "v", false: ""}[typ.IsVariadic()], typ.NumOut()))
	rt := gj.NewRuntime()
	goja.VerifSetFuel(rt, opsFuel)
	setMapper(rt, mapper)
	installNatives(rt, nil)
	if _, err := rt.RunString(jsPrelude); err != nil {
		panic(err)
	}
	checked := 0
	if c.Replay {
		fmt.Printf("--- case --- scenario=funcs type=%s\n", cs.Type)
	}
	fail := func(monitor, detail, sig string) core.Result {
		v := &violation{monitor, fmt.Sprintf("mapper=%s func type=%s dir=%s\ncalls: %s\n%s", cs.Mapper, cs.Type, cs.Dir, strings.Join(cs.Calls, " ; "), detail), sig}
		return violated(v, cs, jsonKey(cs))
	}
	hasErr := typ.NumOut() > 0 && typ.Out(typ.NumOut()-1) == typError
	nres := typ.NumOut()
	if hasErr {
		nres--
	}
	if r.Chance(2, 3) {
		cs.Dir = "go-from-js"
		rec := &callRec{}
		fn := makeFunc(typ, rec)
		var theErr error = &MyErr{Code: 7}
		rt.Set("SAME", func(call goja.FunctionCall) goja.Value { return rt.ToValue(call.Argument(0).Export() == theErr) })
		o := gjCall(func() { rt.Set("fn", fn.Interface()) })
		if o.Panic != nil {
			return fail("go-panic-escaped", fmt.Sprintf("ToValue(func) panicked: %v", o.Panic), panicSig(o)+"|funcs")
		}
		ncalls := rr.Range(2, 6)
		for ci := 0; ci < ncalls; ci++ {
			good := rr.Chance(1, 2)
			rec.Calls, rec.Err = nil, nil
			wantErr := good && hasErr && rr.Chance(1, 3)
			if wantErr {
				rec.Err = theErr
			}
			var args, views []string
			known := good
			if good {
				nfixed := typ.NumIn()
				if typ.IsVariadic() {
					nfixed--
				}
				for i := 0; i < nfixed; i++ {
					l := genGoodLit(rr, typ.In(i), mapper, 2)
					args = append(args, l.JS)
					views = append(views, l.View)
					known = known && l.Known
				}
				if typ.IsVariadic() {
					et := typ.In(nfixed).Elem()
					var vv []string
					for i, n := 0, rr.Intn(4); i < n; i++ {
						l := genGoodLit(rr, et, mapper, 1)
						args = append(args, l.JS)
						vv = append(vv, l.View)
						known = known && l.Known
					}
					views = append(views, "["+strings.Join(vv, ",")+"]")
				}
			} else {
				for i, n := 0, rr.Intn(6); i < n; i++ {
					args = append(args, core.Pick(rr, []string{"1", "-1.5", `"s"`, "true", "null", "undefined", "({})", "[1,2]", "({Field:1})", "300", "NaN", "function(){}", "new Date(0)", "[[1]]", "({length: 2})"}))
				}
			}
			call := "fn(" + strings.Join(args, ", ") + ")"
			cs.Calls = append(cs.Calls, call)
			src := "(function(){ try { return ['ok', R(" + call + ", 0)] } catch (e) { return ['throw', (e instanceof GoError) ? 'GoError:' + SAME(e.value) : (e && e.constructor && e.constructor.name)] } })()"
			o := gj.Call(func() (goja.Value, error) { return rt.RunString(src) })
			if o.Panic != nil {
				return fail("go-panic-escaped", fmt.Sprintf("`%s`: Go panic escaped: %v\n%s", call, o.Panic, core.Trunc(o.PanicStack, 1800)), panicSig(o)+"|funcs")
			}
			if o.Fuel {
				return core.Result{Verdict: core.Inconclusive, Monitor: "fuel"}
			}
			if o.Err != nil {
				return fail("harness-funcs", fmt.Sprintf("`%s`: %v", call, o.Err), "harness-funcs")
			}
			out := o.Val.Export().([]interface{})
			kind, val := out[0].(string), fmt.Sprint(out[1])
			st.Inc("funcs:outcome:" + kind)
			if !good {
				st.Inc("law9:illtyped_call_checked")
				continue
			}
			if !known {
				continue
			}
			checked++
			st.Inc("law:func_call_checked")
			if wantErr {
				if kind != "throw" || val != "GoError:true" {
					return fail("func-contract", fmt.Sprintf("`%s` with a non-nil error result: expected a GoError whose value is that error, observed %s %s", call, kind, val), "func:error-result:"+kind)
				}
				continue
			}
			if kind != "ok" {
				return fail("func-contract", fmt.Sprintf("`%s` (well-typed arguments) threw %s", call, val), "func:well-typed-throws:"+val)
			}
			if len(rec.Calls) != 1 {
				return fail("func-contract", fmt.Sprintf("`%s`: the Go function ran %d times", call, len(rec.Calls)), "func:call-count")
			}
			got := rec.Calls[0]
			for i, a := range got {
				if gv := goView(a, mapper, 0); gv != views[i] {
					return fail("func-contract", fmt.Sprintf("`%s`: parameter %d (%s) received %s, the ExportTo conversion of the argument is %s", call, i, a.Type(), gv, views[i]), "func:param:"+a.Type().Kind().String())
				}
			}
			// result shape
			var want string
			echo := func(i int) string {
				if i == 0 && len(got) > 0 && got[0].Type() == typ.Out(0) {
					return goView(got[0], mapper, 0)
				}
				return goView(reflect.Zero(typ.Out(i)), mapper, 0)
			}
			switch nres {
			case 0:
				want = "undef"
			case 1:
				want = echo(0)
			default:
				var parts []string
				for i := 0; i < nres; i++ {
					parts = append(parts, echo(i))
				}
				want = "[" + strings.Join(parts, ",") + "]"
			}
			if strings.Contains(want, "func") {
				continue
			}
			if val != want {
				return fail("func-contract", fmt.Sprintf("`%s` returned %s, documented result shape gives %s", call, val, want), "func:result-shape:"+fmt.Sprint(nres))
			}
		}
	} else {
		cs.Dir = "js-from-go"
		// result literal for Out(0)
		retJS, retView, retKnown := "undefined", "", false
		if nres >= 1 {
			l := genGoodLit(rr, typ.Out(0), mapper, 2)
			retJS, retView, retKnown = l.JS, l.View, l.Known && l.Kind != "undef"
		}
		if !hasErr && !fixedJSFuncConv() && nres >= 1 {
			// (a result that does not convert panics with a plain error: known finding; good literals always convert)
		}
		src := "var LOG = []; (function() { var a = []; for (var i = 0; i < arguments.length; i++) a.push(R(arguments[i], 0)); LOG.push(a.join(';')); return " + retJS + " })"
		cs.Calls = append(cs.Calls, src)
		o := gj.Call(func() (goja.Value, error) { return rt.RunString(src) })
		if o.Err != nil || o.Panic != nil {
			return fail("harness-funcs", fmt.Sprintf("%v %v", o.Err, o.Panic), "harness-funcs")
		}
		fv := reflect.New(typ)
		var err error
		o2 := gjCall(func() { err = rt.ExportTo(o.Val, fv.Interface()) })
		if o2.Panic != nil || err != nil {
			return fail("func-contract", fmt.Sprintf("ExportTo(function, &%s): err=%v panic=%v", typ, err, o2.Panic), "func:exportto")
		}
		// arguments
		var in []reflect.Value
		var wantViews []string
		for i := 0; i < typ.NumIn(); i++ {
			a := reflect.New(typ.In(i)).Elem()
			fillValue(rr, nil, a, 1)
			in = append(in, a)
			if typ.IsVariadic() && i == typ.NumIn()-1 {
				for k := 0; k < a.Len(); k++ {
					wantViews = append(wantViews, goView(a.Index(k), mapper, 0))
				}
			} else {
				wantViews = append(wantViews, goView(a, mapper, 0))
			}
		}
		var outs []reflect.Value
		o3 := gjCall(func() {
			if typ.IsVariadic() {
				outs = fv.Elem().CallSlice(in)
			} else {
				outs = fv.Elem().Call(in)
			}
		})
		if o3.Panic != nil {
			if _, isEx := o3.Panic.(*goja.Exception); isEx && !retKnown {
				return held(jsonKey(cs), false) // documented: exceptions panic when there is no error result
			}
			if !retKnown {
				st.Inc("funcs:undetermined_result_panicked")
				return held(jsonKey(cs), false)
			}
			return fail("func-contract", fmt.Sprintf("calling the exported function panicked: %v\n%s", o3.Panic, core.Trunc(o3.PanicStack, 1500)), "func:gateway-panic")
		}
		lg, _ := rt.RunString("LOG.join('|')")
		checked++
		st.Inc("law:func_gateway_checked")
		if want := strings.Join(wantViews, ";"); lg.String() != want {
			return fail("func-contract", fmt.Sprintf("the JS function received %s, ToValue of the Go arguments shows %s", lg.String(), want), "func:gateway-args")
		}
		if hasErr && !outs[len(outs)-1].IsNil() {
			if retKnown {
				return fail("func-contract", fmt.Sprintf("error result %v although the function returned normally", outs[len(outs)-1].Interface()), "func:gateway-error")
			}
			return held(jsonKey(cs), false)
		}
		if retKnown && nres >= 1 {
			if gv := goView(outs[0], mapper, 0); gv != retView {
				return fail("func-contract", fmt.Sprintf("result %s, the ExportTo conversion of `%s` into %s shows %s", gv, retJS, typ.Out(0), retView), "func:gateway-result:"+typ.Out(0).Kind().String())
			}
			for i := 1; i < nres; i++ {
				if !outs[i].IsZero() {
					return fail("func-contract", fmt.Sprintf("extra result %d is %v, documented to be zeroed", i, outs[i].Interface()), "func:gateway-extra")
				}
			}
		}
	}
	if why := gj.IdleProblem(rt, false); why != "" {
		return fail("vm-not-idle", why, "idle:"+why)
	}
	return held(jsonKey(cs), checked >= 1)
}
