package c08

import (
	"os"
	"sort"
	"strconv"
	"testing"

	"verif/harness/core"
	"verif/harness/ctlref"
)

// development aid: collect distinct minimised script-mode completion-value disagreements
func TestCollectFinal(t *testing.T) {
	if os.Getenv("C08_COLLECT") == "" {
		t.Skip()
	}
	lo, _ := strconv.Atoi(os.Getenv("C08_LO"))
	hi, _ := strconv.Atoi(os.Getenv("C08_HI"))
	found := map[string]string{}
	for idx := lo; idx < hi; idx++ {
		c := &core.Ctx{Property: "C08", Tier: "quick", Seed: 1, Index: idx, Rng: core.CaseRng(1, "C08", idx), Stats: core.NewStats()}
		base, skel := skeleton(c)
		vs := append([]ctlref.Variant{{What: "base", Kind: "none"}}, ctlref.Variants(base)...)
		for _, v := range vs {
			prog, exitID := ctlref.Apply(base, v)
			if prog.HasReturn() {
				continue
			}
			in := &instance{prog: prog, v: v, exitID: exitID, mode: 1, skel: skel}
			bad := func(in *instance) (bool, string) {
				ref := ctlref.Run(in.prog, 1)
				er := runEngine(in.prog.Body(1), nil)
				if diffLogs(ref.Log, er.Log, "", "") != "" || er.Final == "" {
					return false, ""
				}
				return ref.Final != er.Final, "expected " + ref.Final + " observed " + er.Final
			}
			if b, _ := bad(in); !b {
				continue
			}
			cur := in
			for changed, budget := true, 300; changed && budget > 0; {
				changed = false
				for _, cand := range shrinks(cur.prog) {
					budget--
					if cand.HasReturn() {
						continue
					}
					t2 := &instance{prog: cand, v: v, mode: 1}
					if b, _ := bad(t2); b {
						cur, changed = t2, true
						break
					}
				}
			}
			_, why := bad(cur)
			k := cur.prog.Body(1)
			if _, ok := found[k]; !ok {
				found[k] = why
			}
		}
	}
	var keys []string
	for k := range found {
		keys = append(keys, k)
	}
	sort.Slice(keys, func(i, j int) bool { return len(keys[i]) < len(keys[j]) })
	for i, k := range keys {
		if i > 40 {
			break
		}
		t.Logf("---- %s\n%s", found[k], k)
	}
	t.Logf("%d distinct", len(keys))
}
