package c08

import (
	"fmt"
	"strings"

	"verif/harness/core"
	"verif/harness/ctlref"
)

type pin struct {
	name   string
	build  func() *ctlref.Program
	fault  bool // additionally run the exhaustive fault sweep
	script bool // script mode only (completion-value witnesses)
	known  bool // witness of a known finding (function mode)
}

func lg() *ctlref.Node { return &ctlref.Node{Kind: ctlref.Log} }

// pinned regression witnesses (run in every tier, before the generated cases).
var pinned = []pin{
	{
		// /verif/inbox/C08-finally-throw-caught-by-own-catch.md: try { } catch { } finally { throw } — the catch clause of
		// the same statement caught the exception raised in finally and finally ran twice.
		name: "throw in finally after a normal try block must not enter the statement's own catch",
		build: func() *ctlref.Program {
			p := &ctlref.Program{Main: []*ctlref.Node{
				{Kind: ctlref.Try, HasCatch: true, CatchParam: true, HasFinally: true,
					Stmts:   []*ctlref.Node{lg()},
					Catch:   []*ctlref.Node{lg()},
					Finally: []*ctlref.Node{{Kind: ctlref.Throw}}},
			}}
			p.Number()
			return p
		},
	},
	{
		// /verif/inbox/C08-generator-return-throw-in-nested-finally.md: return() on a generator suspended in a try/finally
		// nested in another try: the inner finally throws; the outer finally must run and the caller's catch must see it.
		name: "generator return(): throw from an inner finally goes through the generator's outer finally to the caller's catch",
		build: func() *ctlref.Program {
			p := &ctlref.Program{
				Gens: []*ctlref.GenDef{{Body: []*ctlref.Node{
					{Kind: ctlref.Try, HasFinally: true,
						Stmts: []*ctlref.Node{{Kind: ctlref.Try, HasFinally: true,
							Stmts:   []*ctlref.Node{{Kind: ctlref.Yield}},
							Finally: []*ctlref.Node{{Kind: ctlref.Throw}}}},
						Finally: []*ctlref.Node{lg()}},
				}}},
				Main: []*ctlref.Node{
					{Kind: ctlref.GenNew, Var: 1, Gen: 1},
					{Kind: ctlref.GenOp, Var: 1, Op: 0},
					{Kind: ctlref.Try, HasCatch: true, CatchParam: true,
						Stmts: []*ctlref.Node{{Kind: ctlref.GenOp, Var: 1, Op: 1}},
						Catch: []*ctlref.Node{lg()}},
					lg(),
				}}
			p.Number()
			return p
		},
	},
	{
		// RECON C03/C15 defect (fixed in /repo 8c93623, 3946397): an interrupt inside for-of over a generator suspended in
		// try/finally left tryStack/iterStack entries and ran the generator's finally / the iterator's return().
		name:  "uncatchable fault inside for-of over a generator suspended in try/finally",
		fault: true,
		build: func() *ctlref.Program {
			// main: for (v of G1()) { try { log } finally { log } }   G1: try { yield; yield } finally { log }
			return ctlref.Chain(mustKinds("genbody-forof", "tryF"))
		},
	},
	{
		name:  "uncatchable fault inside for-of over an instrumented iterator nested in try/finally inside a driven generator",
		fault: true,
		build: func() *ctlref.Program { return ctlref.Chain(mustKinds("genbody-driver", "tryCF", "forof")) },
	},
	{
		// /verif/inbox/C08-uncatchable-during-iterator-close-in-handleThrow.md: an interrupt that becomes visible inside the
		// iterator's return() while a *catchable* throw (from a destructuring target) is closing the iterator.
		name:  "uncatchable fault inside return() while a thrown exception closes a destructured iterator",
		fault: true,
		build: func() *ctlref.Program {
			p := &ctlref.Program{Main: []*ctlref.Node{
				{Kind: ctlref.Try, HasCatch: true, CatchParam: true,
					Stmts: []*ctlref.Node{{Kind: ctlref.Destruct, NElems: 3, Rest: true, At: 1, Iter: ctlref.Iter{N: 2, Ret: ctlref.RetOK}}}},
			}}
			p.Number()
			return p
		},
	},
	{
		// seeded twin /verif/seeded/C08-goapi-forof-throw-no-close: Runtime.ForOf (Go API) over a generator suspended in nested
		// try/finally and over an instrumented iterator; the Go step callback throws at item 2: return() / the finally blocks
		// must run exactly once and the callback's exception must reach the script's catch clause.
		name: "Runtime.ForOf: a throwing Go step callback closes the iterator (generator finally blocks, return())",
		build: func() *ctlref.Program {
			p := &ctlref.Program{
				Gens: []*ctlref.GenDef{{Body: []*ctlref.Node{
					{Kind: ctlref.Try, HasFinally: true,
						Stmts: []*ctlref.Node{{Kind: ctlref.Try, HasFinally: true,
							Stmts:   []*ctlref.Node{{Kind: ctlref.Yield}, {Kind: ctlref.Yield}, {Kind: ctlref.Yield}},
							Finally: []*ctlref.Node{lg()}}},
						Finally: []*ctlref.Node{lg()}},
				}}},
				Main: []*ctlref.Node{
					{Kind: ctlref.Try, HasCatch: true, CatchParam: true,
						Stmts: []*ctlref.Node{{Kind: ctlref.GoForOf, Iter: ctlref.Iter{Gen: 1}, Op: 4, At: 2}}, Catch: []*ctlref.Node{lg()}},
					{Kind: ctlref.Try, HasCatch: true, CatchParam: true,
						Stmts: []*ctlref.Node{{Kind: ctlref.GoForOf, Iter: ctlref.Iter{N: 3, Ret: ctlref.RetOK}, Op: 3, At: 2}}, Catch: []*ctlref.Node{lg()}},
					{Kind: ctlref.GoForOf, Iter: ctlref.Iter{N: 3, Ret: ctlref.RetOK}, Op: 1, At: 1},
					lg(),
				}}
			p.Number()
			return p
		},
	},
}

func init() {
	// Known findings (known-findings.d/C08.json, inbox C08-completion-value-break-continue-KNOWN-FINDINGS.md): script-level
	// completion value with a break / continue that is not a direct statement of its list.
	blk := func(s ...*ctlref.Node) *ctlref.Node { return &ctlref.Node{Kind: ctlref.Block, Stmts: s} }
	num := func(p *ctlref.Program) *ctlref.Program { p.Number(); return p }
	pinned = append(pinned,
		pin{name: "KNOWN D1: L: try { 3 } finally { { break L } }  evaluates to 3 (spec: undefined)", script: true, build: func() *ctlref.Program {
			return num(&ctlref.Program{Main: []*ctlref.Node{{Kind: ctlref.Labelled, Label: "M1", Stmts: []*ctlref.Node{
				{Kind: ctlref.Try, HasFinally: true, Stmts: []*ctlref.Node{lg()}, Finally: []*ctlref.Node{blk(&ctlref.Node{Kind: ctlref.Break, Label: "M1"})}}}}}})
		}},
		pin{name: "KNOWN D2: for (k in {a:1}) { 7; { continue; } 8 }  evaluates to undefined (spec: 7)", script: true, build: func() *ctlref.Program {
			return num(&ctlref.Program{Main: []*ctlref.Node{{Kind: ctlref.ForIn, Trip: 1, Stmts: []*ctlref.Node{lg(), blk(&ctlref.Node{Kind: ctlref.Continue}), lg()}}}})
		}},
		pin{name: "KNOWN D3: do { if (second iteration) { break; } 4 } while (..)  evaluates to 4 (spec: undefined)", script: true, build: func() *ctlref.Program {
			return num(&ctlref.Program{Main: []*ctlref.Node{{Kind: ctlref.DoWhile, Trip: 3, Stmts: []*ctlref.Node{
				{Kind: ctlref.If, Cond: ctlref.Expr{Kind: ctlref.CCounterEq, D: 0, K: 2}, Stmts: []*ctlref.Node{{Kind: ctlref.Break}}}, lg()}}}})
		}},
		pin{name: "Runtime.ForOf: the Go step callback's exception wins over a throwing return() (fixed 4ec883b)", known: true, build: func() *ctlref.Program {
			return num(&ctlref.Program{Main: []*ctlref.Node{{Kind: ctlref.GoForOf, Iter: ctlref.Iter{N: 2, Ret: ctlref.RetThrows}, Op: 2, At: 1}}})
		}},
	)
}

func mustKinds(names ...string) []int {
	var r []int
	for _, n := range names {
		found := false
		for k := 0; k < ctlref.NumChainKinds; k++ {
			if ctlref.ChainName([]int{k}) == n {
				r = append(r, k)
				found = true
			}
		}
		if !found {
			panic("unknown chain kind " + n)
		}
	}
	return r
}

func runPinned(c *core.Ctx) core.Result {
	p := pinned[-c.Index-1]
	prog := p.build()
	res := core.Result{Verdict: core.Held, Key: "pinned:" + p.name, NonTrivial: true}
	for mode := 0; mode < 2; mode++ {
		if mode == ctlref.ModeGlobal && prog.HasReturn() || mode == ctlref.ModeFunction && p.script {
			continue
		}
		in := &instance{prog: prog, v: ctlref.Variant{What: "base", Kind: "none"}, mode: mode, skel: "pinned:" + p.name}
		viol, _, _ := checkInstance(c, in, c.Stats)
		if viol != nil {
			return finishViolation(c, in, viol)
		}
		if p.fault {
			if r := faultSweep(c, in); r != nil {
				return finishViolation(c, in, r)
			}
		}
	}
	return res
}

// ---- minimisation and signatures ----

// violates re-runs an instance and reports whether the same monitor still fires.
func violates(c *core.Ctx, in *instance, monitor string) bool {
	quiet := &core.Ctx{Property: c.Property, Tier: c.Tier, Seed: c.Seed, Index: c.Index, Rng: core.CaseRng(c.Seed, c.Property, c.Index), Stats: core.NewStats()}
	if strings.HasPrefix(monitor, "fault") {
		r := faultSweep(quiet, in)
		return r != nil && r.Monitor == monitor
	}
	v, _, _ := checkInstance(quiet, in, quiet.Stats)
	return v != nil && v.Verdict == core.Violated && v.Monitor == monitor
}

// finishViolation minimises the witness (statement deletion / unwrapping, bounded) and attaches the signature.
func finishViolation(c *core.Ctx, in *instance, v *core.Result) core.Result {
	cur := in
	budget := 200
	if strings.HasPrefix(v.Monitor, "fault") {
		budget = 25
	}
	if c.Index >= 0 {
		for changed := true; changed && budget > 0; {
			changed = false
			for _, cand := range shrinks(cur.prog) {
				if budget <= 0 {
					break
				}
				budget--
				if cur.mode == ctlref.ModeGlobal && cand.HasReturn() {
					continue
				}
				t := &instance{prog: cand, v: cur.v, mode: cur.mode, skel: cur.skel}
				if violates(c, t, v.Monitor) {
					cur = t
					changed = true
					break
				}
			}
		}
	}
	res := *v
	if cur != in {
		quiet := &core.Ctx{Property: c.Property, Tier: c.Tier, Seed: c.Seed, Index: c.Index, Rng: core.CaseRng(c.Seed, c.Property, c.Index), Stats: core.NewStats()}
		var r2 *core.Result
		if strings.HasPrefix(v.Monitor, "fault") {
			r2 = faultSweep(quiet, cur)
		} else {
			r2, _, _ = checkInstance(quiet, cur, quiet.Stats)
		}
		if r2 != nil && r2.Verdict == core.Violated {
			res = *r2
			res.Detail += "\n(minimised from: " + in.skel + " / " + in.v.String() + ")"
		}
	}
	res.Signature = res.Monitor + "|" + modeNames[cur.mode] + "|" + canon(cur.prog.Body(cur.mode))
	res.NonTrivial = true
	res.Key = in.prog.Body(in.mode)
	return res
}

func canon(js string) string {
	f := strings.Fields(js)
	return strings.Join(f, " ")
}

// shrinks proposes smaller programs: delete one statement, or replace a compound statement by one of its bodies.
func shrinks(p *ctlref.Program) []*ctlref.Program {
	var out []*ctlref.Program
	pos := p.Positions()
	seen := map[string]bool{}
	add := func(q *ctlref.Program) {
		q.Number()
		if !legal(q) {
			return
		}
		k := q.Body(0)
		if !seen[k] {
			seen[k] = true
			out = append(out, q)
		}
	}
	for i, ps := range pos {
		if ps.Index >= len(*ps.List) {
			continue
		}
		// delete statement i
		q := p.Clone()
		qp := q.Positions()[i]
		l := *qp.List
		victim := l[qp.Index]
		nl := append(append([]*ctlref.Node{}, l[:qp.Index]...), l[qp.Index+1:]...)
		*qp.List = nl
		add(q)
		// unwrap: replace by its first body
		var inner []*ctlref.Node
		switch victim.Kind {
		case ctlref.Labelled:
			inner = victim.Stmts
		case ctlref.Block, ctlref.With, ctlref.If:
			inner = victim.Stmts
		}
		if inner != nil {
			q2 := p.Clone()
			qp2 := q2.Positions()[i]
			l2 := *qp2.List
			v2 := l2[qp2.Index]
			nl2 := append(append(append([]*ctlref.Node{}, l2[:qp2.Index]...), v2.Stmts...), l2[qp2.Index+1:]...)
			*qp2.List = nl2
			add(q2)
		}
	}
	// drop unused generators is not attempted (indices are referenced)
	return out
}

// legal: break/continue targets exist, yields only in generators, driver variables initialised syntactically.
func legal(p *ctlref.Program) bool {
	st := ctlref.Analyze(p)
	ok := true
	for fn, b := range p.Bodies() {
		ctlref.Walk(b, func(n *ctlref.Node) {
			switch n.Kind {
			case ctlref.Break, ctlref.Continue:
				if ctlref.Target(n.Kind, n.Label, st.Chain[n.ID]) < 0 {
					ok = false
				}
			case ctlref.Yield, ctlref.YieldStar:
				if fn == 0 {
					ok = false
				}
			case ctlref.Labelled:
				if len(n.Stmts) != 1 {
					ok = false
				}
			}
		})
	}
	vars := map[int]bool{}
	ctlref.Walk(p.Main, func(n *ctlref.Node) {
		if n.Kind == ctlref.GenNew {
			vars[n.Var] = true
		}
		if n.Kind == ctlref.GenOp && !vars[n.Var] {
			ok = false
		}
	})
	return ok
}

var _ = fmt.Sprint
