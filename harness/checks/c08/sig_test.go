package c08

import (
	"encoding/json"
	"os"
	"testing"

	"verif/harness/core"
)

// development aid: C08_SIGS=<file> writes the known-findings entries for the pinned KNOWN witnesses.
func TestPinnedSignatures(t *testing.T) {
	out := os.Getenv("C08_SIGS")
	if out == "" {
		t.Skip()
	}
	if len(pinned) != numPinned {
		t.Fatalf("numPinned = %d, len(pinned) = %d", numPinned, len(pinned))
	}
	var ff core.FindingsFile
	ids := []string{"C08-completion-value-D1-break-nested-in-finally", "C08-completion-value-D2-branch-nested-in-block", "C08-completion-value-D3-do-while-if-break", "C08-goapi-forof-return-replaces-body-exception"}
	cv := "goja decides completion values statically (scanStatements/lastProducingIdx/needResult); a break/continue that is not a direct statement of its list defeats the analysis; repair is structural (see /verif/inbox/C08-completion-value-break-continue-KNOWN-FINDINGS.md). " +
		"Domain exclusion: at script level C08 does not compare the NORMAL completion value of instances whose placed exit is a break/continue (event log, thrown values, function-level return values still compared)."
	why := []string{cv, cv, cv, "patch proposed in /verif/inbox/C08-goapi-forof-return-throw-replaces-body-exception.md, not merged yet. Domain exclusion: generated instances combining a throwing Go step callback (GoForOf Op>=2) with an instrumented iterator whose return() throws / returns a non-object, or with a generator (whose close may throw from a finally block), are not run (flag goForOfReturnOverrideKnown)."}
	k := 0
	for i, p := range pinned {
		if !p.script && !p.known {
			continue
		}
		idx := -(i + 1)
		c := &core.Ctx{Property: "C08", Tier: "quick", Seed: 1, Index: idx, Rng: core.CaseRng(1, "C08", idx), Stats: core.NewStats()}
		r := run(c)
		if r.Verdict != core.Violated {
			t.Logf("pinned %d holds now: %s", idx, p.name)
			k++
			continue
		}
		ff.Findings = append(ff.Findings, core.KnownFinding{Property: "C08", ID: ids[k], Signature: r.Signature, What: p.name + " — " + r.Detail,
			WhyNotFixed: why[k],
			Witness:     r.Case})
		k++
	}
	ff.Fixed = []string{
		"fixed: property=C08 fed7fd8 try{}catch{}finally{throw}: the statement's own catch caught the exception raised in finally, finally ran twice (pinned -1)",
		"fixed: property=C08 3834333 generator.return(): a throw from an inner finally skipped the generator's outer catch/finally and bypassed the caller's try/catch (pinned -2)",
		"fixed: property=C08 8c93623/3946397/0537d50 uncatchable fault inside for-of over a suspended generator ran finally/return() and left try/iterator stack entries (pinned -3, -4)",
		"fixed: property=C08 056e0c3 interrupt inside return() while a catchable throw closes a destructured iterator left call/try stacks and the interrupt flag behind (pinned -5)",
		"fixed: property=C08 1dd81f5 iteratorRecord.iterate called return() after a stack overflow / interrupt and swallowed an uncatchable error raised inside return() (found by the stack-limit sweep)",
		"fixed: property=C08 4ec883b Runtime.ForOf: a throwing / non-object return() replaced the exception of the Go step callback (pinned witness 'Runtime.ForOf: the Go step callback's exception wins')",
		"fixed: property=C08 5eaf5ea try { 4; var x = f() } catch (e) {} evaluated to 4 (script-level completion value)",
	}
	b, _ := json.MarshalIndent(&ff, "", " ")
	os.WriteFile(out, b, 0644)
}
