// Package c08: "Abrupt exits run each pending finally and iterator close exactly once, in order; interrupts and
// stack-overflow errors run none of them."
//
// Workload: control-flow skeletons (ctlref) — every nesting of 24 region kinds to depth 2 (plus a third of depth 3 in the thorough tier)
// plus sampled tree-shaped skeletons to depth 5 — and, exhaustively per skeleton, every single modification:
// one abrupt completion {break, break L, continue, continue L, return, throw} (unconditional and on the second
// iteration of the innermost loop) at EVERY statement position, every instrumented-iterator misbehaviour
// (next() throws / returns a non-object at call j, return() missing / throws / returns a non-object, callbacks and
// destructuring targets that throw), every generator driver operation turned into return()/throw().
// Each instance is printed to JavaScript and run by goja inside a function and (where legal) at script level.
//
// Monitors:  (1) model: full event log + completion value / thrown value equal to the definitional interpreter;
// (2) trace: model-free trace specification on the goja log alone (trace.go);
// (3) fault: uncatchable faults (Interrupt at every VM instruction, stack overflow for every stack limit) run no
// catch/finally/return() code, leave a prefix of the fault-free log, the documented error type and an idle VM.
package c08

import (
	"fmt"
	"os"
	"runtime/debug"
	"strings"

	"verif/harness/core"
	"verif/harness/ctlref"
)

type caseRec struct {
	Skeleton string   `json:"skeleton"`
	Variant  string   `json:"variant"`
	Mode     string   `json:"mode"`
	JS       string   `json:"js"`
	Expected []string `json:"expected,omitempty"`
	Observed []string `json:"observed,omitempty"`
	Fault    string   `json:"fault,omitempty"`
}

func init() {
	// a fresh Runtime per instance makes the default GC pacing (4 MB heap minimum) collect every few instances
	debug.SetGCPercent(1600)
}

func Check() *core.Check {
	return &core.Check{
		ID:    "C08",
		Level: "fault_enumeration",
		Rule: "case = one control-flow skeleton (chain of 24 region kinds: every nesting of depth 1 and 2, in the thorough tier also a seed-selected third of the depth-3 nestings; or a sampled tree skeleton to depth 5) together with ALL its single modifications " +
			"(abrupt completion of every kind at every statement position, every iterator misbehaviour, every driver return()/throw()), each run in function and script mode; " +
			"for a sample of instances additionally an Interrupt at every VM instruction and every call-stack limit (exhaustive per program); " +
			"non-trivial = some instance's exit was reached and crosses >= 2 enclosing regions of different kinds; distinct = distinct skeleton texts",
		Assumptions: []string{
			"skeleton language: block, label, if, five loop kinds, switch, with, try/catch/finally, throw/return/break/continue, log, array destructuring, spread, Array.from, Map/Set constructors, Promise.all, yield/yield*, generator drivers; literal trip bounds <= 3; nesting <= 5",
			"Instrumented iterators have no throw method; async generators / for-await are not supported by goja and not generated",
			"the fault part enumerates every instruction position and stack limit of the sampled programs only (exhaustive per program, sampled over programs)",
		},
		Exhaustive: true,
		Cases:      numCases,
		MinConclusive: func(tier string) int {
			if tier == "thorough" {
				return 2000
			}
			return 300
		},
		NumPinned:    numPinned,
		CaseTimeoutS: 300,
		Run:          run,
	}
}

// numPinned must equal len(pinned) (pinned.go: 6 regression witnesses + 4 known-finding witnesses appended in init).
const numPinned = 10

// try-stack depth dimension (see run): extra enclosing try/finally levels; nesting inside return() / finally blocks;
// nesting inside next() (kept smaller: what next() has already pushed can no longer grow the stack in return())
var (
	depthK = []int{0, 1, 2, 3, 5, 8, 13}
	depthR = []int{0, 0, 1, 2, 3, 4, 6, 9}
	depthN = []int{0, 0, 0, 1, 2}
)

const (
	quickRandom    = 320
	thoroughRandom = 4000
)

// depth-3 chains: the thorough tier runs a deterministic third of the 24^3 nestings (which third depends on the seed)
const chain3Stride = 3

func numCases(tier string) int {
	n := ctlref.NumChains(1) + ctlref.NumChains(2)
	if tier == "thorough" {
		return n + ctlref.NumChains(3)/chain3Stride + thoroughRandom
	}
	return n + quickRandom
}

// skeleton materialises the base skeleton of a case index.
func skeleton(c *core.Ctx) (*ctlref.Program, string) {
	i := c.Index
	if i < ctlref.NumChains(1) {
		k := ctlref.ChainKinds(1, i)
		return ctlref.Chain(k), "chain:" + ctlref.ChainName(k)
	}
	i -= ctlref.NumChains(1)
	if i < ctlref.NumChains(2) {
		k := ctlref.ChainKinds(2, i)
		return ctlref.Chain(k), "chain:" + ctlref.ChainName(k)
	}
	i -= ctlref.NumChains(2)
	if c.Thorough() {
		if i < ctlref.NumChains(3)/chain3Stride {
			k := ctlref.ChainKinds(3, i*chain3Stride+int(c.Seed%chain3Stride))
			return ctlref.Chain(k), "chain:" + ctlref.ChainName(k)
		}
		i -= ctlref.NumChains(3) / chain3Stride
	}
	depth := 2 + c.Rng.Intn(4)
	budget := 6 + c.Rng.Intn(16)
	return ctlref.Random(c.Rng, depth, budget), fmt.Sprintf("random:%d", i)
}

var modeNames = [...]string{"function", "script"}

type instance struct {
	prog   *ctlref.Program
	v      ctlref.Variant
	exitID int
	mode   int
	skel   string
}

func (in *instance) rec(exp, got []string) caseRec {
	return caseRec{Skeleton: in.skel, Variant: in.v.String(), Mode: modeNames[in.mode], JS: in.prog.Body(in.mode), Expected: exp, Observed: got}
}

func diffLogs(exp, got []string, expFinal, gotFinal string) string {
	n := len(exp)
	if len(got) < n {
		n = len(got)
	}
	for i := 0; i < n; i++ {
		if exp[i] != got[i] {
			return fmt.Sprintf("event %d: expected %q, observed %q (after %s)", i, exp[i], got[i], tail(exp[:i], 4))
		}
	}
	if len(exp) != len(got) {
		if len(exp) > len(got) {
			return fmt.Sprintf("observed log stops after %d events, expected next %q (after %s)", len(got), exp[n], tail(got, 4))
		}
		return fmt.Sprintf("observed log has extra event %q after the %d expected ones (after %s)", got[n], len(exp), tail(exp, 4))
	}
	if expFinal != gotFinal {
		return fmt.Sprintf("final completion: expected %q, observed %q", expFinal, gotFinal)
	}
	return ""
}

func tail(l []string, n int) string {
	if len(l) > n {
		l = l[len(l)-n:]
	}
	return "[" + strings.Join(l, " | ") + "]"
}

// check runs one instance through the engine and all per-run monitors; returns nil if everything held.
func checkInstance(c *core.Ctx, in *instance, st *core.Stats) (*core.Result, *engineRun, *ctlref.Outcome) {
	body := in.prog.Body(in.mode)
	ref := ctlref.Run(in.prog, in.mode)
	if ref.Aborted {
		return &core.Result{Verdict: core.Inconclusive, Monitor: "reference-fuel"}, nil, nil
	}
	er := runEngine(body, nil)
	fail := func(mon, detail string) *core.Result {
		return &core.Result{Verdict: core.Violated, Monitor: mon, Detail: detail, Case: in.rec(ref.Log, er.Log)}
	}
	switch {
	case er.Out.Panic != nil:
		return fail("go-panic-escaped", fmt.Sprintf("Go panic escaped RunString: %v\n%s", er.Out.Panic, core.Trunc(er.Out.PanicStack, 2000))), er, &ref
	case er.Out.Assertion != nil:
		return fail("verif-assertion", er.Out.Assertion.Error()), er, &ref
	case er.Out.Fuel:
		return fail("model", "engine ran out of fuel (3M instructions) on a program the reference model finishes"), er, &ref
	case er.Final == "":
		return fail("model", fmt.Sprintf("API returned %s error %v, the reference model says %q", er.ErrKind, er.Out.Err, ref.Final)), er, &ref
	}
	expFinal := ref.Final
	if in.mode == ctlref.ModeGlobal && in.v.What == "exit" && (in.v.Exit == ctlref.Break || in.v.Exit == ctlref.Continue) &&
		strings.HasPrefix(ref.Final, "RET ") && strings.HasPrefix(er.Final, "RET ") {
		// Known findings C08-completion-value-*: the compiler's static completion-value bookkeeping is wrong for break /
		// continue nested in blocks, in finally blocks and in do-while bodies.  The script-level NORMAL completion value of
		// instances whose placed exit is a break / continue is therefore not compared (event log, thrown values and
		// function-level return values still are).  See known-findings.d/C08.json.
		st.Inc("script_completion_value_not_compared")
		expFinal = er.Final
	}
	if d := diffLogs(ref.Log, er.Log, expFinal, er.Final); d != "" && monitorOn("model") {
		if t := traceSpecMode(in.prog, er.Log, er.Final, false, in.mode); t != "" {
			d += "\n(the model-free trace specification is violated as well: " + t + ")"
		}
		return fail("model", d), er, &ref
	}
	if er.Idle != "" && monitorOn("idle") {
		return fail("vm-not-idle", "VM registers not idle after the outermost return: "+er.Idle), er, &ref
	}
	if d := traceSpecMode(in.prog, er.Log, er.Final, false, in.mode); d != "" && monitorOn("trace") {
		return fail("trace", d), er, &ref
	}
	return nil, er, &ref
}

func run(c *core.Ctx) core.Result {
	if c.Index < 0 {
		return runPinned(c)
	}
	base, skel := skeleton(c)
	st := c.Stats
	stc := ctlref.Analyze(base)
	st.Max("max_region_nesting", int64(stc.MaxDep))
	st.SetAdd("skeleton_shapes", core.Trunc(shapeOf(base), 160))
	if strings.HasPrefix(skel, "chain:") {
		st.Inc("skeletons:chain")
	} else {
		st.Inc("skeletons:random")
	}
	vs := append([]ctlref.Variant{{What: "base", Kind: "none"}}, ctlref.Variants(base)...)
	st.Count("statement_positions_enumerated", int64(len(base.Positions())))
	res := core.Result{Verdict: core.Held, Key: base.Body(ctlref.ModeFunction)}
	var faultCands []*instance
	for vi, v := range vs {
		prog, ins := ctlref.Apply(base, v)
		// try-stack depth dimension (ctlref.Deepen): k extra enclosing try/finally levels, nested try statements inside
		// the iterators' next()/return() and inside every finally block — so that try frames pushed while an exit is being
		// dispatched (return() called during unwinding, finally blocks of generators being closed) cross every capacity
		// boundary of the engine's try stack. The base variant stays plain.
		if vi > 0 {
			h := core.HashString(fmt.Sprintf("%d/%d", c.Index, vi))
			k := depthK[h%uint64(len(depthK))]
			tdr := depthR[(h>>8)%uint64(len(depthR))]
			tdn := depthN[(h>>16)%uint64(len(depthN))]
			tm := int((h >> 24) % 4)
			if k+tdr+tdn > 0 {
				ctlref.Deepen(prog, k, tdn, tdr, tm)
				prog.Number()
				st.Inc(fmt.Sprintf("try_depth:wrap=%d", k))
				st.Inc(fmt.Sprintf("try_depth:return()=%d", tdr))
			}
		}
		if goForOfReturnOverrideKnown && goForOfReturnOverride(prog) {
			st.Inc("excluded:go_forof_throwing_step_and_bad_return")
			continue
		}
		exitID := 0
		if ins != nil {
			exitID = ins.ID
		}
		// the reference run tells whether the modification is reachable at all; unreachable placements (dead code after
		// an unconditional exit, unselected switch clauses, …) are still compiled and run by the engine for 1 in 6
		refReached := true
		if v.What == "exit" {
			refReached = refReaches(prog, exitID)
			if !refReached {
				st.Inc("unreachable_placements")
				if (vi+c.Index)%6 != 0 {
					continue
				}
			}
		}
		for mode := 0; mode < 2; mode++ {
			if mode == ctlref.ModeGlobal && (prog.HasReturn() || !(v.What == "base" || (vi+c.Index)%3 == 0)) {
				continue
			}
			in := &instance{prog: prog, v: v, exitID: exitID, mode: mode, skel: skel}
			viol, er, _ := checkInstance(c, in, st)
			if viol != nil && viol.Verdict == core.Inconclusive {
				st.Inc("inconclusive_instances:" + viol.Monitor)
				continue
			}
			st.Inc("instances")
			st.Inc("instances:" + modeNames[mode])
			if c.Replay && os.Getenv("C08_DUMP") != "" && (v.What == "base" || os.Getenv("C08_DUMP") == "all") {
				fmt.Printf("=== %s / %s / %s ===\n%s--- log: %s\n--- final: %s (steps %d)\n", skel, v.String(), modeNames[mode], prog.Body(mode), strings.Join(er.Log, " | "), er.Final, er.Steps1-er.Steps0)
			}
			if viol != nil {
				return finishViolation(c, in, viol)
			}
			reached := observe(st, in, er)
			if reached && ctlref.DistinctKinds(v.Crossed) >= 2 {
				res.NonTrivial = true
				st.Inc("nontrivial_instances")
			}
			if reached && mode == 0 {
				faultCands = append(faultCands, in)
			}
		}
	}
	if r := faultPart(c, faultCands); r != nil && monitorOn("fault") {
		return *r
	}
	if st.WantSample() && c.Index%97 == 5 {
		st.Sample(map[string]any{"skeleton": skel, "variants": len(vs), "js": core.Trunc(base.Body(0), 1500)})
	}
	return res
}

// Known finding C08-goapi-forof-return-replaces-body-exception (inbox C08-goapi-forof-return-throw-replaces-body-exception.md):
// Runtime.ForOf let a throwing / non-object return() replace the exception of the Go step callback. FIXED in /repo 4ec883b:
// the exclusion is switched off (kept only as a switch should the defect return); the pinned witness stays.
const goForOfReturnOverrideKnown = false

func goForOfReturnOverride(p *ctlref.Program) bool {
	bad := false
	for _, b := range p.Bodies() {
		ctlref.Walk(b, func(n *ctlref.Node) {
			// (a generator's return() throws whenever one of its pending finally blocks does: not decidable from the
			// consumer, so throwing callbacks over generators are left to the pinned witness until the merge)
			if n.Kind == ctlref.GoForOf && n.Op >= 2 && (n.Iter.Gen > 0 || n.Iter.Ret == ctlref.RetThrows || n.Iter.Ret == ctlref.RetBad) {
				bad = true
			}
		})
	}
	return bad
}

func refReaches(p *ctlref.Program, exitID int) bool {
	ref := ctlref.Run(p, ctlref.ModeFunction)
	pat := fmt.Sprintf(" %d @", exitID)
	for _, e := range ref.Log {
		if e[0] == 'X' && strings.Contains(e, pat) {
			return true
		}
	}
	return false
}

// monitorOn: development aid for mutation trials — C08_MONITORS=trace,fault switches the others off (default: all on).
func monitorOn(name string) bool {
	sel := os.Getenv("C08_MONITORS")
	return sel == "" || strings.Contains(","+sel+",", ","+name+",")
}

func shapeOf(p *ctlref.Program) string {
	s := ctlref.Shape(p.Main)
	for i, g := range p.Gens {
		s += fmt.Sprintf(" || G%d: %s", i+1, ctlref.Shape(g.Body))
	}
	return s
}

// observe records evidence from a held instance and reports whether the modification was actually reached.
func observe(st *core.Stats, in *instance, er *engineRun) bool {
	reached := false
	for _, e := range er.Log {
		tag := e
		if i := strings.IndexByte(e, ' '); i > 0 {
			tag = e[:i]
		}
		switch tag {
		case "F", "C", "T+", "Ro", "Rt", "Rb", "Nv", "Nd", "Nt", "Nb", "Y", "D<", "G+", "I", "GS", "GX":
			st.Inc("events:" + tag)
		}
		switch in.v.What {
		case "exit":
			if strings.HasPrefix(tag, "X") && strings.HasPrefix(e[len(tag):], fmt.Sprintf(" %d ", in.exitID)) {
				reached = true
			}
		case "iter":
			switch in.v.Field {
			case "ThrowAt":
				reached = reached || tag == "Nt"
			case "BadAt":
				reached = reached || tag == "Nb"
			case "Ret":
				reached = reached || tag == "Rt" || tag == "Rb" || tag == "Ro" || in.v.Value == ctlref.RetNone
			case "At":
				reached = reached || tag == "MF" || tag == "AD" || tag == "SX"
			case "GoOp":
				reached = reached || tag == "GX"
			case "Pairs":
				reached = true
			}
		case "driver":
			reached = reached || (tag == "D>" && strings.HasSuffix(e, fmt.Sprintf(" %d @0", in.v.Value)))
		}
	}
	if in.v.What == "base" {
		return false
	}
	if reached {
		st.Inc("reached:" + in.v.Kind)
		for _, k := range in.v.Crossed {
			st.SetAdd("exit_kind_x_region", in.v.Kind+" x "+k)
		}
		st.Max("max_regions_crossed", int64(len(in.v.Crossed)))
	} else {
		st.Inc("unreached_instances")
	}
	return reached
}
