package c08

import (
	"runtime"
	"runtime/debug"
	"syscall"
	"testing"
	"time"

	"verif/harness/core"
)

func cpu() time.Duration {
	var ru syscall.Rusage
	syscall.Getrusage(syscall.RUSAGE_SELF, &ru)
	return time.Duration(ru.Utime.Nano() + ru.Stime.Nano())
}

func TestProfCase(t *testing.T) {
	for _, gc := range []int{100, 400, 1600} {
		debug.SetGCPercent(gc)
		for _, idx := range []int{300, 1000} {
			c := &core.Ctx{Property: "C08", Tier: "quick", Seed: 1, Index: idx, Rng: core.CaseRng(1, "C08", idx), Stats: core.NewStats()}
			var m0, m1 runtime.MemStats
			runtime.ReadMemStats(&m0)
			t0 := time.Now()
			c0 := cpu()
			r := run(c)
			runtime.ReadMemStats(&m1)
			n := c.Stats.Counters["instances"]
			t.Log("gc", gc, idx, r.Verdict, n, "wall", time.Since(t0), "cpu", cpu()-c0, "bytes/inst", (m1.TotalAlloc-m0.TotalAlloc)/uint64(n), "gcs", m1.NumGC-m0.NumGC)
		}
	}
}
