package c08

import (
	"strings"
	"sync"

	"github.com/dop251/goja"

	"verif/harness/ctlref"
	"verif/harness/gj"
)

// engine-side execution of a printed program: natives, event log, rendering (harness code only).

var (
	preludeOnce sync.Once
	preludePrg  *goja.Program
)

func prelude() *goja.Program {
	preludeOnce.Do(func() {
		p, err := goja.Compile("prelude.js", ctlref.Prelude, false)
		if err != nil {
			panic(err)
		}
		preludePrg = p
	})
	return preludePrg
}

type engineRun struct {
	Log     []string
	Final   string // "RET v" / "THROW v" / "" when the API returned something else
	Out     gj.Outcome
	ErrKind string
	Steps0  int64 // instruction counter when the program proper started
	Steps1  int64 // … when it ended
	Idle    string
	rt      *goja.Runtime
}

const engineFuel = 3000000

func render(r *goja.Runtime, v goja.Value) string {
	if v == nil {
		return "nil"
	}
	if o, ok := v.(*goja.Object); ok {
		if name := gj.ErrorCtorName(r, o); strings.HasSuffix(name, "Error") {
			return "E:" + name
		}
		return "o"
	}
	return (*gj.Ids)(nil).Render(v)
}

func newEngine(er *engineRun) *goja.Runtime {
	r := gj.NewRuntime()
	er.rt = r
	ints := func(call goja.FunctionCall, from int) []int {
		var x []int
		for i := from; i < len(call.Arguments); i++ {
			x = append(x, int(call.Arguments[i].ToInteger()))
		}
		return x
	}
	r.Set("ev", func(call goja.FunctionCall) goja.Value {
		er.Log = append(er.Log, ctlref.Ev(call.Argument(0).String(), int(call.Argument(1).ToInteger()), ints(call, 2)...))
		return goja.Undefined()
	})
	r.Set("evv", func(call goja.FunctionCall) goja.Value {
		er.Log = append(er.Log, ctlref.Evv(call.Argument(0).String(), int(call.Argument(1).ToInteger()), int(call.Argument(2).ToInteger()), render(r, call.Argument(3))))
		return goja.Undefined()
	})
	r.Set("dres", func(call goja.FunctionCall) goja.Value {
		val, done := "?", false
		if o, ok := call.Argument(2).(*goja.Object); ok {
			val = render(r, o.Get("value"))
			if d := o.Get("done"); d != nil {
				done = d.ToBoolean()
			}
		}
		er.Log = append(er.Log, ctlref.EvD(int(call.Argument(0).ToInteger()), int(call.Argument(1).ToInteger()), val, done))
		return goja.Undefined()
	})
	r.Set("log", func(call goja.FunctionCall) goja.Value {
		er.Log = append(er.Log, "L "+call.Argument(0).String()+" @"+call.Argument(1).String())
		return call.Argument(0)
	})
	// goForOf(iterable, op, at, a, id, thrower): the Go embedding API front end of the iterator protocol (Runtime.ForOf)
	r.Set("goForOf", func(call goja.FunctionCall) goja.Value {
		op, at := int(call.Argument(1).ToInteger()), int(call.Argument(2).ToInteger())
		a, id := int(call.Argument(3).ToInteger()), int(call.Argument(4).ToInteger())
		j := 0
		r.ForOf(call.Argument(0), func(v goja.Value) bool {
			j++
			er.Log = append(er.Log, ctlref.Ev("GS", a, id, j))
			if op != 0 && j == at {
				er.Log = append(er.Log, ctlref.Ev("GX", a, id, j))
				switch op {
				case 1:
					return false
				case 2:
					panic(r.ToValue(63000 + id))
				case 3:
					panic(r.NewTypeError("step %d", j))
				default:
					if fn, ok := goja.AssertFunction(call.Argument(5)); ok {
						if _, err := fn(goja.Undefined(), v); err != nil {
							panic(err)
						}
					}
				}
			}
			return true
		})
		return goja.Undefined()
	})
	r.Set("sink", func(call goja.FunctionCall) goja.Value { return goja.Undefined() })
	return r
}

// runEngine executes body (program text without the prelude) on a fresh runtime. setup, if not nil, is called
// after the prelude ran and before the program starts (fault installation).
func runEngine(body string, setup func(r *goja.Runtime, er *engineRun)) *engineRun {
	er := &engineRun{}
	r := newEngine(er)
	goja.VerifSetFuel(r, engineFuel)
	o := gj.Call(func() (goja.Value, error) { return r.RunProgram(prelude()) })
	if o.Err != nil || o.Panic != nil {
		er.Out = o
		er.ErrKind = "prelude-failed"
		return er
	}
	er.Steps0 = goja.VerifSteps(r)
	if setup != nil {
		setup(r, er)
	}
	er.Out = gj.Call(func() (goja.Value, error) { return r.RunString(body) })
	er.Steps1 = goja.VerifSteps(r)
	er.ErrKind = gj.ErrKind(er.Out.Err)
	switch {
	case er.Out.Panic != nil || er.Out.Fuel || er.Out.Assertion != nil:
	case er.Out.Err == nil:
		er.Final = "RET " + render(r, er.Out.Val)
	case er.ErrKind == "exception":
		if ex, ok := er.Out.Err.(*goja.Exception); ok {
			er.Final = "THROW " + render(r, ex.Value())
		}
	}
	if er.Out.Panic == nil && !er.Out.Fuel && er.Out.Assertion == nil {
		er.Idle = gj.IdleProblem(r, false)
	}
	return er
}
