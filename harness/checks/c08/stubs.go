package c08

import (
	"verif/harness/core"
	"verif/harness/ctlref"
)

var pinned = []string{}

func traceSpec(p *ctlref.Program, log []string, final string, faulted bool) string { return "" }
func runPinned(c *core.Ctx) core.Result                                            { return core.Result{} }
func finishViolation(c *core.Ctx, in *instance, v *core.Result) core.Result {
	v.Signature = v.Monitor + ":" + in.prog.Body(in.mode)
	v.NonTrivial = true
	return *v
}
func faultPart(c *core.Ctx, cands []*instance) *core.Result { return nil }
