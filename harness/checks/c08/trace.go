package c08

import (
	"fmt"
	"strconv"
	"strings"

	"verif/harness/ctlref"
)

// Model-free trace specification.  Input: the program TEXT STRUCTURE (which statement is nested in which — pure syntax,
// ctlref.Analyze) and the event log produced by goja.  The definitional interpreter is not consulted.
//
// Per activation (main = 0, each generator instance its own) the monitor keeps a stack of open regions:
//   try frames   (id, phase T|C|F)       pushed by T+, moved by C / F, popped by T-/C-/F- or by leaving
//   iter frames  (consumer id, instance) pushed by M / G, closed by Nd (exhausted), Nt/Nb (next failed), R* (return())
// and a stack of pending abrupt completions created by the exit markers (X*, Nt, Nb, MF, AD, SX, Rt, Rb, driver
// return()/throw()).  Rules:
//   S1 well-nestedness: every event's syntactic position must be consistent with the open-region stack (after popping
//      regions the event is outside of); no event inside a region that was not entered.
//   S2 a try frame with a finally block may only leave the stack through its F event (exactly once, and only when it
//      is the innermost open region: innermost-to-outermost order).
//   S3 an iterator that is still open (not exhausted, next() did not fail) and has a return method may only leave
//      the stack through exactly one R event; R is illegal on a closed/exhausted/failed iterator.
//   S4 while an abrupt completion is pending, only its cleanup (finally bodies / return() calls of the regions between
//      source and target) may run; the first event outside the cleanup must be at the target (break: outside the
//      target statement; continue: next iteration of / outside the target loop; throw: the catching clause; return:
//      nothing).  An abrupt completion raised inside a cleanup finally that leaves it replaces the pending one.
//   S5 at the end: no open try-with-finally / open closable iterator in a finished activation; the value returned or
//      thrown by the outermost function is the one of the last pending completion.
// Where something unobservable may have happened (an exception coming out of a generator body driven by this
// activation) pending-completion checks are suspended ("tainted"), never guessed.

type tev struct {
	tag  string
	ints []int
	rest []string
	act  int
	raw  string
}

func parseEv(s string) (tev, bool) {
	f := strings.Split(s, " ")
	if len(f) < 2 || !strings.HasPrefix(f[len(f)-1], "@") {
		return tev{}, false
	}
	a, err := strconv.Atoi(f[len(f)-1][1:])
	if err != nil {
		return tev{}, false
	}
	e := tev{tag: f[0], act: a, raw: s}
	i := 1
	for ; i < len(f)-1; i++ {
		v, err := strconv.Atoi(f[i])
		if err != nil {
			break
		}
		e.ints = append(e.ints, v)
	}
	e.rest = f[i : len(f)-1]
	return e, true
}

const (
	phT = 0
	phC = 2
	phF = 3
)

type mframe struct {
	try        bool
	id         int
	phase      int // try: part number 0 / 2 / 3
	hasFinally bool
	// iterator frames
	inst      int
	isGen     bool
	open      bool
	hasReturn bool
	loop      bool
	genSeen   int // iterator frames over a generator: that generator's event count when this activation last did something
}

type pend struct {
	kind    byte // 'b' 'c' 'r' 't'
	site    int
	chain   []ctlref.Frame
	upto    int          // chain[0:upto] are the regions being left
	target  *ctlref.Node // b/c: target statement; t: catching try (nil: leaves the function)
	final   string       // expected final rendering when it leaves the outermost function ("" unknown)
	own     int          // consumer whose own iterator is closed as part of this completion (0 none)
	tainted bool
}

type actState struct {
	id          int
	stack       []mframe
	pends       []*pend
	started     bool
	complete    bool
	dead        bool // must never run (again)
	lastTag     string
	lastSite    int
	sawImplicit bool // an exception without marker may have passed through this activation (generator bodies driven by it)
	openOp      int  // generator instance of a driver op in progress (0 none)
	events      int  // number of located events seen so far
	susp        bool // suspended at a yield while completions are pending: the next resumption may replace them unseen
	drivers     map[int]int
}

type tmon struct {
	st   *ctlref.Static
	acts map[int]*actState
	err  string
}

func (m *tmon) act(a int) *actState {
	s := m.acts[a]
	if s == nil {
		s = &actState{id: a, drivers: map[int]int{}}
		m.acts[a] = s
	}
	return s
}

func (m *tmon) fail(e tev, idx int, f string, args ...any) {
	if m.err == "" {
		m.err = fmt.Sprintf("event %d %q: ", idx, e.raw) + fmt.Sprintf(f, args...)
	}
}

// reqOf converts a syntactic chain (innermost first) into the required region stack (outermost first).
func reqOf(chain []ctlref.Frame) []mframe {
	var r []mframe
	for i := len(chain) - 1; i >= 0; i-- {
		f := chain[i]
		switch f.N.Kind {
		case ctlref.Try:
			r = append(r, mframe{try: true, id: f.N.ID, phase: f.Part})
		case ctlref.ForOf:
			r = append(r, mframe{id: f.N.ID})
		}
	}
	return r
}

func sameFrame(s mframe, r mframe) bool {
	if s.try != r.try || s.id != r.id {
		return false
	}
	return !s.try || s.phase == r.phase
}

func (f mframe) String() string {
	if f.try {
		return fmt.Sprintf("try %d/%s", f.id, map[int]string{0: "block", 2: "catch", 3: "finally"}[f.phase])
	}
	return fmt.Sprintf("iterator %d.%d", f.id, f.inst)
}

// popCheck: may frame f leave the stack silently?
func (m *tmon) popCheck(a *actState, f mframe, e tev, idx int) {
	switch {
	case f.try:
		if f.hasFinally && f.phase != phF {
			m.fail(e, idx, "activation %d left %s although its finally block has not run (S2)", a.id, f)
		}
	case f.open && f.isGen:
		// Only decidable when the generator did not run at all since this activation's previous event: then no return()
		// was delivered (a delivered return() runs the finally block at once). A generator that ran may legitimately have
		// swallowed the return (caught an exception raised during it, yielded inside finally).
		x := m.acts[f.inst]
		if x != nil && x.started && !x.complete && x.events == f.genSeen && x.lastTag == "Y" {
			for i := len(x.stack) - 1; i >= 0; i-- {
				g := x.stack[i]
				if g.try && g.hasFinally {
					if g.phase != phF {
						m.fail(e, idx, "activation %d abandoned the loop over generator instance %d which is still suspended inside %s and did not run since: return() was not delivered (S3)", a.id, f.inst, g)
					}
					break
				}
			}
		}
	case f.open && f.hasReturn:
		m.fail(e, idx, "activation %d abandoned %s without calling return() (S3)", a.id, f)
	}
}

// reconcile pops the regions the event is outside of and checks that all required regions are open.
func (m *tmon) reconcile(a *actState, req []mframe, e tev, idx int) {
	p := 0
	for p < len(a.stack) && p < len(req) && sameFrame(a.stack[p], req[p]) {
		p++
	}
	for i := len(a.stack) - 1; i >= p; i-- {
		m.popCheck(a, a.stack[i], e, idx)
	}
	a.stack = a.stack[:p]
	if len(req) > p {
		m.fail(e, idx, "activation %d is inside %s which is not open (open: %v) (S1)", a.id, req[p], a.stack)
	}
}

func (m *tmon) top(a *actState) *mframe {
	if len(a.stack) == 0 {
		return nil
	}
	return &a.stack[len(a.stack)-1]
}

// chainOf returns the full syntactic chain of an event (innermost first), its node and whether it is located.
func (m *tmon) chainOf(e tev) ([]ctlref.Frame, *ctlref.Node, bool) {
	if len(e.ints) == 0 {
		return nil, nil, false
	}
	id := e.ints[0]
	n := m.st.ByID[id]
	if n == nil {
		return nil, nil, false
	}
	base := m.st.Chain[id]
	own := func(part int) []ctlref.Frame {
		return append([]ctlref.Frame{{N: n, Part: part}}, base...)
	}
	switch e.tag {
	case "T+", "T-":
		return own(0), n, true
	case "C", "C-":
		return own(2), n, true
	case "F", "F-":
		return own(3), n, true
	case "I":
		return own(0), n, true
	case "L", "Xt", "Xr", "Xb", "Xc", "Y", "Y-", "Y*", "Y*-", "D>", "D<", "M", "G", "Nv", "Nd", "Nt", "Nb", "Ro", "Rt", "Rb", "MF", "AD", "SX", "GS", "GX":
		return base, n, true
	}
	return nil, nil, false
}

func inChain(chain []ctlref.Frame, n *ctlref.Node) bool {
	for _, f := range chain {
		if f.N == n {
			return true
		}
	}
	return false
}

// inCleanup: is event e (with chain ec, node en) part of the cleanup of pending completion p?
func inCleanup(p *pend, e tev, ec []ctlref.Frame, en *ctlref.Node) bool {
	for _, fe := range ec {
		if fe.N.Kind == ctlref.Try && fe.Part == 3 {
			for i := 0; i < p.upto && i < len(p.chain); i++ {
				if p.chain[i].N == fe.N && p.chain[i].Part != 3 {
					return true
				}
			}
		}
	}
	if strings.HasPrefix(e.tag, "R") {
		if p.own != 0 && en.ID == p.own {
			return true
		}
		for i := 0; i < p.upto && i < len(p.chain); i++ {
			if p.chain[i].N == en && en.Kind == ctlref.ForOf {
				return true
			}
		}
	}
	return false
}

// closes: is the iterator of consumer en closed as part of completion p (a for-of loop being left, or the consumer
// that raised p itself)?
func closes(p *pend, en *ctlref.Node) bool {
	if p.own != 0 && en.ID == p.own {
		return true
	}
	for i := 0; i < p.upto && i < len(p.chain); i++ {
		if p.chain[i].N == en && en.Kind == ctlref.ForOf {
			return true
		}
	}
	return false
}

func outside(t *ctlref.Node, ec []ctlref.Frame, en *ctlref.Node) bool {
	return en != t && !inChain(ec, t)
}

func arrives(p *pend, e tev, ec []ctlref.Frame, en *ctlref.Node) bool {
	switch p.kind {
	case 'b':
		return outside(p.target, ec, en)
	case 'c':
		if e.tag == "I" && en == p.target {
			return true
		}
		if en == p.target && strings.HasPrefix(e.tag, "N") {
			return true
		}
		return outside(p.target, ec, en)
	case 't':
		return p.target != nil && e.tag == "C" && en == p.target
	}
	return false
}

// escapes: does completion p (raised at a site inside some finally of q's cleanup) leave that finally block?
func escapes(p, q *pend) bool {
	for i := 0; i < p.upto && i < len(p.chain); i++ {
		f := p.chain[i]
		if f.N.Kind == ctlref.Try && f.Part == 3 {
			for j := 0; j < q.upto && j < len(q.chain); j++ {
				if q.chain[j].N == f.N && q.chain[j].Part != 3 {
					return true
				}
			}
		}
	}
	return false
}

// hasLeft: completion p was raised inside a finally block that belongs to q's cleanup, crosses out of it, and the event with
// chain ec is already outside that block.
func hasLeft(p, q *pend, ec []ctlref.Frame) bool {
	for i := 0; i < p.upto && i < len(p.chain); i++ {
		f := p.chain[i]
		if f.N.Kind != ctlref.Try || f.Part != 3 {
			continue
		}
		inQ := false
		for j := 0; j < q.upto && j < len(q.chain); j++ {
			if q.chain[j].N == f.N && q.chain[j].Part != 3 {
				inQ = true
			}
		}
		if !inQ {
			continue
		}
		still := false
		for _, fe := range ec {
			if fe.N == f.N && fe.Part == 3 {
				still = true
			}
		}
		if !still {
			return true
		}
	}
	return false
}

func (m *tmon) newPend(kind byte, n *ctlref.Node, label string, final string) *pend {
	chain := m.st.Chain[n.ID]
	p := &pend{kind: kind, site: n.ID, chain: chain, final: final}
	switch kind {
	case 'b':
		t := ctlref.Target(ctlref.Break, label, chain)
		if t < 0 {
			return nil
		}
		p.upto, p.target = t+1, chain[t].N
	case 'c':
		t := ctlref.Target(ctlref.Continue, label, chain)
		if t < 0 {
			return nil
		}
		p.upto, p.target = t, chain[t].N
	case 'r':
		p.upto = len(chain)
	case 't':
		t := ctlref.ThrowTarget(chain)
		p.upto = t
		if t < len(chain) {
			p.target = chain[t].N
		}
	}
	for i := 0; i < p.upto && i < len(chain); i++ {
		if chain[i].N.Kind == ctlref.ForOf && chain[i].N.Iter.Gen > 0 {
			p.tainted = true // closing the generator runs its finally blocks, which may throw
		}
	}
	return p
}

func (m *tmon) pushPend(a *actState, p *pend) {
	if p == nil {
		return
	}
	// Completions are stacked, not replaced: one raised inside a cleanup finally overrides the pending one only when
	// it actually leaves that finally block (popArrived); if it is stopped inside (e.g. overridden itself by a break
	// that stays inside the block), the older one is still pending when the block ends.
	a.pends = append(a.pends, p)
}

// popArrived removes the topmost pending completion, which reached its target, together with every older one whose
// cleanup finally block it left on the way ("a completion from finally overrides the pending one").
func (m *tmon) popArrived(a *actState) {
	p := a.pends[len(a.pends)-1]
	a.pends = a.pends[:len(a.pends)-1]
	for len(a.pends) > 0 && escapes(p, a.pends[len(a.pends)-1]) {
		a.pends = a.pends[:len(a.pends)-1]
	}
}

func num(v int) string { return ctlref.Num(v).Render() }

// traceSpec returns "" if the log satisfies the specification, else a description of the first violation.
// faulted: the run was cut short by an uncatchable fault (no end-of-run checks).
func traceSpec(prog *ctlref.Program, log []string, final string, faulted bool) string {
	return traceSpecMode(prog, log, final, faulted, -1)
}

func traceSpecMode(prog *ctlref.Program, log []string, final string, faulted bool, mode int) string {
	m := &tmon{st: ctlref.Analyze(prog), acts: map[int]*actState{}}
	main := m.act(0)
	main.started = true
	for idx, raw := range log {
		e, ok := parseEv(raw)
		if !ok {
			return fmt.Sprintf("event %d %q: unparsable", idx, raw)
		}
		a := m.act(e.act)
		if a.complete || a.dead {
			if e.tag != "PAo" && e.tag != "PAr" {
				m.fail(e, idx, "activation %d runs although it has finished / was closed before it started", a.id)
			}
		}
		switch e.tag {
		case "PAo", "PAr":
			continue
		case "G+":
			a.started = true
			a.lastTag = "G+"
			continue
		case "G-":
			m.reconcile(a, nil, e, idx)
			// the end of the body is outside every statement: pending breaks / continues have arrived, others are lost
			for len(a.pends) > 0 {
				p := a.pends[len(a.pends)-1]
				a.pends = a.pends[:len(a.pends)-1]
				if p.kind != 'b' && p.kind != 'c' && !p.tainted {
					m.fail(e, idx, "generator activation %d completed normally while the %c completion of statement %d was pending (S4)", a.id, p.kind, p.site)
				}
			}
			a.complete = true
			continue
		}
		a.events++
		ec, en, located := m.chainOf(e)
		if !located {
			return fmt.Sprintf("event %d %q: refers to no statement of the program", idx, raw)
		}
		// a driver op in progress that did not produce D< threw: the driven generator is finished
		if a.openOp != 0 && e.tag != "D<" {
			if x := m.acts[a.openOp]; x != nil {
				x.complete = true
				if len(x.stack) > 0 {
					m.reconcileEnd(x, e, idx)
				}
			}
			a.openOp = 0
		}

		// A generator that yields while completions are pending (yield inside a cleanup finally) may be resumed by return() /
		// throw() of a consumer without any marker; only a plain resumption (Y-) keeps the pending completions.
		if a.susp {
			a.susp = false
			if !(e.tag == "Y-" || e.tag == "Nv" || e.tag == "Nd") {
				a.pends = nil
			}
		}
		// ---- S4 pending completions ----
		// override: a completion raised inside a cleanup finally of an older one has left that finally block (this event is
		// outside it): the older one is gone
		for i := len(a.pends) - 2; i >= 0; i-- {
			if hasLeft(a.pends[i+1], a.pends[i], ec) {
				a.pends = append(a.pends[:i], a.pends[i+1:]...)
			}
		}
		for len(a.pends) > 0 {
			p := a.pends[len(a.pends)-1]
			if inCleanup(p, e, ec, en) {
				break
			}
			if !arrives(p, e, ec, en) && !p.tainted {
				what := map[byte]string{'b': "break", 'c': "continue", 'r': "return", 't': "throw"}[p.kind]
				m.fail(e, idx, "activation %d: %s raised at statement %d is pending, this event is neither part of its cleanup nor at its target (S4)", a.id, what, p.site)
			}
			// arrived (or lost): completions below it that it did not override are re-evaluated against this event
			m.popArrived(a)
		}

		// ---- S1-S3 region stack ----
		switch e.tag {
		case "T+":
			m.reconcile(a, reqOf(ec[1:]), e, idx)
			a.stack = append(a.stack, mframe{try: true, id: en.ID, phase: phT, hasFinally: en.HasFinally})
		case "C", "F", "T-", "C-", "F-":
			// find the frame of this try
			k := -1
			for i := len(a.stack) - 1; i >= 0; i-- {
				if a.stack[i].try && a.stack[i].id == en.ID {
					k = i
					break
				}
			}
			if k < 0 {
				m.fail(e, idx, "activation %d: no open activation of try %d (S1)", a.id, en.ID)
				break
			}
			for i := len(a.stack) - 1; i > k; i-- {
				m.popCheck(a, a.stack[i], e, idx)
			}
			a.stack = a.stack[:k+1]
			parents := reqOf(ec[1:])
			if len(parents) != k {
				m.fail(e, idx, "activation %d: try %d is open at depth %d, its syntactic depth is %d (S1)", a.id, en.ID, k, len(parents))
				break
			}
			for i := range parents {
				if !sameFrame(a.stack[i], parents[i]) {
					m.fail(e, idx, "activation %d: enclosing region mismatch at depth %d: open %s, syntactic %s (S1)", a.id, i, a.stack[i], parents[i])
				}
			}
			f := &a.stack[k]
			switch e.tag {
			case "C":
				if f.phase != phT {
					m.fail(e, idx, "catch clause of try %d entered from phase %s (S1)", en.ID, *f)
				}
				f.phase = phC
			case "F":
				if f.phase == phF {
					m.fail(e, idx, "finally block of try %d runs a second time for the same activation (S2)", en.ID)
				}
				f.phase = phF
			case "T-":
				if f.phase != phT {
					m.fail(e, idx, "end of try block %d reached in phase %s (S1)", en.ID, *f)
				}
				if !en.HasFinally {
					a.stack = a.stack[:k]
				}
			case "C-":
				if f.phase != phC {
					m.fail(e, idx, "end of catch block %d reached in phase %s (S1)", en.ID, *f)
				}
				if !en.HasFinally {
					a.stack = a.stack[:k]
				}
			case "F-":
				if f.phase != phF {
					m.fail(e, idx, "end of finally block %d reached in phase %s (S1)", en.ID, *f)
				}
				a.stack = a.stack[:k]
			}
		case "M", "G":
			m.reconcile(a, reqOf(ec), e, idx)
			if e.tag == "G" && en.Kind == ctlref.GenNew {
				if len(e.ints) >= 3 {
					a.drivers[en.Var] = e.ints[2]
				}
				break
			}
			inst := 0
			if len(e.ints) >= 2 {
				inst = e.ints[len(e.ints)-1]
			}
			f := mframe{id: en.ID, inst: inst, open: true, loop: en.Kind == ctlref.ForOf}
			if e.tag == "G" {
				f.isGen = true
				f.hasReturn = true
				// exceptions raised by the generator body surface at this consumer without a marker
				m.taint(a)
			} else {
				f.hasReturn = en.Iter.Ret != ctlref.RetNone
			}
			a.stack = append(a.stack, f)
		case "Nv", "Nd", "Nt", "Nb", "Ro", "Rt", "Rb", "MF", "AD", "SX", "GS", "GX":
			req := append(reqOf(ec), mframe{id: en.ID})
			m.reconcile(a, req, e, idx)
			f := m.top(a)
			if f == nil || f.try || f.id != en.ID {
				break
			}
			if e.tag != "SX" && e.tag != "MF" && e.tag != "AD" && e.tag != "GS" && e.tag != "GX" && len(e.ints) >= 2 && f.inst != e.ints[1] {
				m.fail(e, idx, "event of iterator instance %d while instance %d of consumer %d is the open one (S1)", e.ints[1], f.inst, en.ID)
			}
			switch e.tag[0] {
			case 'N':
				if !f.open {
					m.fail(e, idx, "next() called on %s after it was exhausted / failed / closed (S3)", *f)
				}
				if e.tag != "Nv" {
					f.open = false
				}
			case 'R':
				if !f.open {
					m.fail(e, idx, "return() called on %s which is not open (already closed, exhausted, or its next() failed) (S3)", *f)
				}
				f.open = false
			}
		case "I":
			m.reconcile(a, reqOf(ec), e, idx)
			if en.Kind == ctlref.ForOf {
				if f := m.top(a); f != nil && !f.try && f.id == en.ID && !f.open && !f.isGen {
					m.fail(e, idx, "loop body of for-of %d runs although its iterator is closed / exhausted (S3)", en.ID)
				}
			}
		default:
			m.reconcile(a, reqOf(ec), e, idx)
		}

		// ---- new pending completions ----
		switch e.tag {
		case "Xt":
			m.pushPend(a, m.newPend('t', en, "", "THROW "+num(1000+en.ID)))
		case "Xr":
			m.pushPend(a, m.newPend('r', en, "", "RET "+num(2000+en.ID)))
		case "Xb":
			m.pushPend(a, m.newPend('b', en, en.Label, ""))
		case "Xc":
			m.pushPend(a, m.newPend('c', en, en.Label, ""))
		case "Nt", "Nb":
			if en.Kind != ctlref.PromiseAll {
				fin := "THROW E:TypeError"
				if e.tag == "Nt" && len(e.ints) >= 3 {
					fin = "THROW " + num(30000+en.ID*16+e.ints[2])
				}
				m.pushPend(a, m.newPend('t', en, "", fin))
			}
		case "Nv":
			if en.Kind == ctlref.NewMap && !en.Iter.Pairs {
				p := m.newPend('t', en, "", "THROW E:TypeError") // AddEntriesFromIterable: entry is not an object
				p.own = en.ID
				m.pushPend(a, p)
			}
		case "GX":
			if en.Op >= 2 { // the Go step callback throws: Runtime.ForOf closes the iterator, the callback's exception wins
				fin := "THROW " + num(63000+en.ID)
				if en.Op == 3 {
					fin = "THROW E:TypeError"
				}
				p := m.newPend('t', en, "", fin)
				p.own = en.ID
				m.pushPend(a, p)
			}
		case "MF", "AD", "SX":
			v := map[string]int{"MF": 60000, "AD": 61000, "SX": 62000}[e.tag]
			p := m.newPend('t', en, "", "THROW "+num(v+en.ID))
			p.own = en.ID
			m.pushPend(a, p)
		case "Rt", "Rb":
			fin := "THROW E:TypeError"
			if e.tag == "Rt" {
				fin = "THROW " + num(40000+en.ID)
			}
			covered, inherit := false, false
			if len(a.pends) > 0 {
				p := a.pends[len(a.pends)-1]
				if closes(p, en) {
					covered = true
					if p.kind == 't' {
						break // IteratorClose: the original throw completion wins
					}
					// (if what is really pending is no longer known — p is tainted — the same holds for its replacement:
					// an unseen throw out of a generator body would win over this return()'s throw)
					inherit = p.tainted
					a.pends = a.pends[:len(a.pends)-1]
				}
			}
			if en.Kind == ctlref.ForOf && !covered {
				// a for-of iterator is only closed by an abrupt exit of the loop body; none is pending, so it is a throw
				// without marker (out of a generator body driven by the loop body) — IteratorClose keeps that throw
				break
			}
			np := m.newPend('t', en, "", fin)
			if inherit {
				np.tainted = true
			}
			if en.Kind == ctlref.YieldStar {
				np.tainted = true // the kind of resumption (return vs throw) decides whether this throw is used
			}
			m.pushPend(a, np)
		case "D>":
			x := a.drivers[en.Var]
			m.taint(a)
			if x == 0 {
				break
			}
			a.openOp = x
			xs := m.act(x)
			op := 0
			if len(e.ints) >= 2 {
				op = e.ints[1]
			}
			if op != 0 {
				switch {
				case !xs.started:
					xs.dead = true
				case xs.complete:
				default:
					yn := m.st.ByID[xs.lastSite]
					if yn != nil && (xs.lastTag == "Y" || yn.Kind == ctlref.YieldStar) {
						k := byte('r')
						if op == 2 {
							k = 't'
						}
						p := m.newPend(k, yn, "", "")
						if yn.Kind == ctlref.YieldStar {
							p.own = yn.ID
							p.tainted = yn.Iter.Gen > 0 || op == 2
						}
						xs.pends = append(xs.pends[:0], p)
						xs.susp = false
					}
				}
			}
		case "D<":
			x := a.openOp
			a.openOp = 0
			if x != 0 && len(e.rest) >= 2 && e.rest[len(e.rest)-1] == "true" {
				xs := m.act(x)
				xs.complete = true
				m.reconcileEnd(xs, e, idx)
			}
		case "Y*":
			m.taint(a)
		}
		a.lastTag, a.lastSite = e.tag, en.ID
		if (e.tag == "Y" || (en.Kind == ctlref.YieldStar && e.tag == "Nv")) && len(a.pends) > 0 {
			a.susp = true
		}
		for i := range a.stack {
			if f := &a.stack[i]; !f.try && f.isGen {
				if x := m.acts[f.inst]; x != nil {
					f.genSeen = x.events
				} else {
					f.genSeen = 0
				}
			}
		}
		if m.err != "" {
			return m.err
		}
	}
	if faulted {
		return m.err
	}
	// ---- S5 end of run ----
	end := tev{tag: "END", raw: "<end of run: " + final + ">"}
	m.reconcileEnd(main, end, len(log))
	if m.err != "" {
		return m.err
	}
	{
		switch {
		case len(main.pends) >= 1:
			p := main.pends[len(main.pends)-1]
			if !p.tainted && p.final != "" && (p.kind == 'r' || (p.kind == 't' && p.target == nil)) && p.final != final {
				return fmt.Sprintf("the outermost function finished with %q, the last pending completion (statement %d) requires %q: a completion was lost or not overridden (S5)", final, p.site, p.final)
			}
			if !p.tainted && p.kind == 't' && p.target != nil {
				// (a break / continue whose target is followed by nothing is not observable; a caught throw always is:
				// the catch clause starts with its marker)
				return fmt.Sprintf("the run ended while the throw of statement %d had not reached the catch clause of try %d (S4)", p.site, p.target.ID)
			}
		case mode == ctlref.ModeFunction && final != "RET u" && !main.sawImplicit && len(main.pends) == 0:
			return fmt.Sprintf("no abrupt completion is pending at the end of the outermost function but it finished with %q (S5)", final)
		}
	}
	return ""
}

// taint: an operation that may throw without a marker (a generator body driven by this activation) runs while
// completions are pending (inside a cleanup finally): their arrival can no longer be predicted.
func (m *tmon) taint(a *actState) {
	for _, p := range a.pends {
		p.tainted = true
	}
	a.sawImplicit = true
}

// reconcileEnd: a finished activation must have no region left that still owes a finally / return().
func (m *tmon) reconcileEnd(a *actState, e tev, idx int) {
	for i := len(a.stack) - 1; i >= 0; i-- {
		m.popCheck(a, a.stack[i], e, idx)
	}
	a.stack = a.stack[:0]
}
