package c08

import (
	"fmt"

	"github.com/dop251/goja"

	"verif/harness/core"
	"verif/harness/ctlref"
	"verif/harness/gj"
)

// Uncatchable faults: an Interrupt injected before every VM instruction of the program, and every call-stack limit.
// Exhaustive per program.  Oracle (no model involved): the log is a prefix of the fault-free log of the same program on
// the same engine, nothing is logged after the fault became visible (at most the one native call that was the
// instruction in flight), the API returns the documented error type, the VM registers are idle afterwards.

const (
	maxStackSweep = 9
	// programs longer than this are not swept (the sweep is quadratic); another candidate is taken
	maxFaultSteps = 1500
)

type faultStats struct {
	positions, interrupted, tooLate, overflowed, liveTry, liveIter, liveBoth int64
}

func faultSweep(c *core.Ctx, in *instance) *core.Result {
	st := c.Stats
	body := in.prog.Body(in.mode)
	base := runEngine(body, nil)
	if base.Final == "" || base.Out.Fuel {
		return nil // the fault-free run is judged by the other monitors
	}
	steps := base.Steps1 - base.Steps0
	if steps > maxFaultSteps {
		st.Inc("fault:skipped_program_too_long")
		return nil
	}
	fail := func(mon, fault, detail string, got []string) *core.Result {
		rec := in.rec(base.Log, got)
		rec.Fault = fault
		return &core.Result{Verdict: core.Violated, Monitor: mon, Detail: fault + ": " + detail, Case: rec}
	}
	judge := func(fault string, er *engineRun, mark int, wantKind string, after int64) *core.Result {
		switch {
		case er.Out.Panic != nil:
			return fail("fault-go-panic", fault, fmt.Sprintf("Go panic escaped RunString: %v\n%s", er.Out.Panic, core.Trunc(er.Out.PanicStack, 2000)), er.Log)
		case er.Out.Assertion != nil:
			return fail("fault-verif-assertion", fault, er.Out.Assertion.Error(), er.Log)
		case er.Out.Fuel:
			return fail("fault-hang", fault, "the run did not end within the instruction budget after the fault", er.Log)
		}
		for i, e := range er.Log {
			if i >= len(base.Log) || base.Log[i] != e {
				return fail("fault-ran-cleanup", fault, fmt.Sprintf("event %d %q is not in the fault-free log at that position (expected %q): code ran because of the uncatchable fault (after %s)",
					i, e, at(base.Log, i), tail(er.Log[:i], 4)), er.Log)
			}
		}
		if er.Final != "" && er.Final == base.Final && len(er.Log) == len(base.Log) {
			// The run is the fault-free one.  Legitimate only if the fault never became visible: for an interrupt, no
			// instruction was dispatched after the one in flight (it was the last one, or it threw out of the VM loop);
			// for a stack limit, the program never got that deep.
			if after > 0 {
				return fail("fault-ignored", fault, fmt.Sprintf("%d instructions were dispatched after Interrupt() and the run completed normally", after), er.Log)
			}
			st.Inc("fault:too_late_to_notice")
			er.rt.ClearInterrupt()
			return nil
		}
		if er.Out.Err == nil || er.ErrKind == "exception" {
			return fail("fault-result", fault, fmt.Sprintf("API returned %q (error kind %q) — neither the fault-free result %q nor %s", er.Final, er.ErrKind, base.Final, wantKind), er.Log)
		}
		if er.ErrKind != wantKind {
			return fail("fault-error-type", fault, fmt.Sprintf("API returned %s (%v), documented: %s", er.ErrKind, er.Out.Err, wantKind), er.Log)
		}
		if mark >= 0 && len(er.Log) > mark+1 {
			return fail("fault-ran-cleanup", fault, fmt.Sprintf("%d events were logged after the fault was injected (at most the instruction in flight may log one): %s", len(er.Log)-mark, tail(er.Log[mark:], 6)), er.Log)
		}
		if why := gj.IdleProblem(er.rt, false); why != "" {
			return fail("fault-vm-not-idle", fault, fmt.Sprintf("VM registers not idle after %s: %s (%+v)", wantKind, why, goja.VerifState(er.rt)), er.Log)
		}
		if d := traceSpec(in.prog, er.Log, "", true); d != "" {
			return fail("fault-trace", fault, d, er.Log)
		}
		// the runtime must be reusable: a trivial script runs normally afterwards
		o := gj.Call(func() (goja.Value, error) { return er.rt.RunString("1+1") })
		if o.Err != nil || o.Panic != nil || o.Val == nil || o.Val.ToInteger() != 2 {
			return fail("fault-not-reusable", fault, fmt.Sprintf("after the fault RunString(\"1+1\") gave %v / %v / panic %v", o.Val, o.Err, o.Panic), er.Log)
		}
		if why := gj.IdleProblem(er.rt, false); why != "" {
			return fail("fault-vm-not-idle", fault, "after a follow-up run: "+why, er.Log)
		}
		return nil
	}
	var fs faultStats
	for n := int64(1); n <= steps; n++ {
		mark := -1
		var live goja.VerifVMState
		er := runEngine(body, func(r *goja.Runtime, er *engineRun) {
			goja.VerifAtStep(r, er.Steps0+n, func() {
				mark = len(er.Log)
				live = goja.VerifState(r)
				r.Interrupt("x")
			})
		})
		fs.positions++
		if mark < 0 {
			return fail("fault-hook", fmt.Sprintf("interrupt@%d", n), "the instruction hook never fired although the fault-free run executes that many instructions (non-deterministic execution?)", er.Log)
		}
		if r := judge(fmt.Sprintf("interrupt before instruction %d of %d", n, steps), er, mark, "interrupted", er.Steps1-(er.Steps0+n)); r != nil {
			return r
		}
		if er.Out.Err != nil {
			fs.interrupted++
			// live.TryStack counts the API-boundary frame too
			st.Max("fault:max_live_try_stack", int64(live.TryStack))
			t, i := live.TryStack > 1, live.IterStack > 0
			switch {
			case t && i:
				fs.liveBoth++
			case t:
				fs.liveTry++
			case i:
				fs.liveIter++
			}
		} else {
			fs.tooLate++
		}
	}
	for l := 0; l <= maxStackSweep; l++ {
		er := runEngine(body, func(r *goja.Runtime, er *engineRun) { r.SetMaxCallStackSize(l) })
		if r := judge(fmt.Sprintf("SetMaxCallStackSize(%d)", l), er, -1, "stackoverflow", 0); r != nil {
			return r
		}
		st.Inc("fault:stack_limits_tried")
		if er.Out.Err != nil {
			fs.overflowed++
			st.SetAdd("fault:overflow_limit_x_events", fmt.Sprintf("limit %d after %d events", l, len(er.Log)))
		}
	}
	st.Inc("fault:programs_swept")
	st.Count("fault:instruction_positions", fs.positions)
	st.Count("fault:interrupted_runs", fs.interrupted)
	st.Count("fault:live_try_frames", fs.liveTry)
	st.Count("fault:live_iterators", fs.liveIter)
	st.Count("fault:live_try_and_iterator", fs.liveBoth)
	st.Count("fault:stack_overflows", fs.overflowed)
	st.Max("fault:max_instructions_per_program", steps)
	return nil
}

func at(l []string, i int) string {
	if i < len(l) {
		return l[i]
	}
	return "<end of log>"
}

// faultPart sweeps a deterministic sample of the case's reached instances.
func faultPart(c *core.Ctx, cands []*instance) *core.Result {
	if len(cands) == 0 {
		return nil
	}
	every := 5
	n := 1
	if c.Thorough() {
		every, n = 3, 2
	}
	if c.Index%every != 0 {
		return nil
	}
	// prefer instances whose exit crosses several regions
	var rich []*instance
	for _, in := range cands {
		if ctlref.DistinctKinds(in.v.Crossed) >= 2 {
			rich = append(rich, in)
		}
	}
	if len(rich) > 0 {
		cands = rich
	}
	done := 0
	for try := 0; try < 4*n && done < n; try++ {
		in := cands[c.Rng.Intn(len(cands))]
		before := c.Stats.Counters["fault:programs_swept"]
		if r := faultSweep(c, in); r != nil {
			res := finishViolation(c, in, r)
			return &res
		}
		if c.Stats.Counters["fault:programs_swept"] > before {
			done++
		}
	}
	return nil
}
