package c19

import "verif/harness/jsonref"

// unitAlphabet: the units used for single-unit insertions and replacements.
var unitAlphabet = []uint16{
	'{', '}', '[', ']', ',', ':', '"', '\\', '\'', '/', '0', '1', '9', '-', '+', '.', 'e', 'E', 'a', 'b', 'f', 'l', 'n', 'r', 's', 't', 'u', 'x', 'N', 'I',
	' ', '\t', '\n', '\r', 0x0B, 0x0C, 0xA0, 0xFEFF, 0x2028, 0x00, 0x1F, 0x7F, 0xE9, 0xD800, 0xDC00,
}

// tokenAlphabet: the tokens used for token-level insertions and replacements.
var tokenAlphabet = []string{"{", "}", "[", "]", ",", ":", `"s"`, `""`, "0", "-1", "1.5e3", "true", "false", "null", " ", "{}", "[]", `"a":1`, "01", "undefined", "NaN", "//", "/**/"}

func asUnits(s string) []uint16 {
	u := make([]uint16, len(s))
	for i := 0; i < len(s); i++ {
		u[i] = uint16(s[i])
	}
	return u
}

func splice(base []uint16, from, to int, ins []uint16) []uint16 {
	out := make([]uint16, 0, len(base)-(to-from)+len(ins))
	out = append(out, base[:from]...)
	out = append(out, ins...)
	return append(out, base[to:]...)
}

// eachCorruption enumerates every single-edit corruption of base: deletion / insertion / replacement of one code unit
// (insertions and replacements over unitAlphabet) and deletion / duplication / insertion / replacement / adjacent swap
// of one lexical token (over tokenAlphabet).  f returns false to stop.
func eachCorruption(base []uint16, f func(kind string, text []uint16) bool) {
	n := len(base)
	for i := 0; i < n; i++ {
		if !f("unit-delete", splice(base, i, i+1, nil)) {
			return
		}
	}
	for i := 0; i < n; i++ {
		for _, c := range unitAlphabet {
			if c == base[i] {
				continue
			}
			if !f("unit-replace", splice(base, i, i+1, []uint16{c})) {
				return
			}
		}
	}
	for i := 0; i <= n; i++ {
		for _, c := range unitAlphabet {
			if !f("unit-insert", splice(base, i, i, []uint16{c})) {
				return
			}
		}
	}
	toks := jsonref.Tokens(base)
	for _, t := range toks {
		if t.End-t.Start > 1 {
			if !f("token-delete", splice(base, t.Start, t.End, nil)) {
				return
			}
		}
		if !f("token-duplicate", splice(base, t.End, t.End, base[t.Start:t.End])) {
			return
		}
		for _, a := range tokenAlphabet {
			if !f("token-replace", splice(base, t.Start, t.End, asUnits(a))) {
				return
			}
		}
	}
	for i := 0; i <= len(toks); i++ {
		pos := n
		if i < len(toks) {
			pos = toks[i].Start
		}
		for _, a := range tokenAlphabet {
			if len(a) == 1 {
				continue // covered by unit-insert
			}
			if !f("token-insert", splice(base, pos, pos, asUnits(a))) {
				return
			}
		}
	}
	for i := 0; i+1 < len(toks); i++ {
		a, b := toks[i], toks[i+1]
		sw := make([]uint16, 0, n)
		sw = append(sw, base[:a.Start]...)
		sw = append(sw, base[b.Start:b.End]...)
		sw = append(sw, base[a.Start:a.End]...)
		sw = append(sw, base[b.End:]...)
		if !f("token-swap", sw) {
			return
		}
	}
	// truncations: every proper prefix and suffix
	for i := 1; i < n; i++ {
		if !f("truncate-prefix", append([]uint16(nil), base[:i]...)) {
			return
		}
		if !f("truncate-suffix", append([]uint16(nil), base[i:]...)) {
			return
		}
	}
}
