package c19

import (
	"fmt"
	"runtime/debug"
	"strconv"

	"github.com/dop251/goja"

	"verif/harness/gj"
	"verif/harness/jsonref"
)

// walkerSrc is the harness-written structure walker.  It never formats a number or a string through the engine: it
// emits a flat array of markers, raw numbers and raw strings which the Go side renders by float64 bits / UTF-16 code
// units (protocol: see jsonref.Tok).
const walkerSrc = `
(function(){
  var ownKeys = Reflect.ownKeys, gopd = Object.getOwnPropertyDescriptor, getProto = Object.getPrototypeOf;
  var isArray = Array.isArray, OP = Object.prototype, AP = Array.prototype;
  function isIndex(k){ var n = k >>> 0; return String(n) === k && n !== 4294967295; }
  function attrs(d){ return (d.writable ? "w" : "-") + (d.enumerable ? "e" : "-") + (d.configurable ? "c" : "-"); }
  function prop(out, o, k, depth){
    var d = gopd(o, k);
    if (!d) { out.push("vanished"); return; }
    if (!("value" in d)) { out.push("accessor"); return; }
    if (!(d.writable && d.enumerable && d.configurable)) out.push("attrs:" + attrs(d));
    walk(out, d.value, depth + 1);
  }
  function walk(out, v, depth){
    if (v === null) { out.push("null"); return; }
    switch (typeof v) {
      case "undefined": out.push("undef"); return;
      case "boolean": out.push(v ? "true" : "false"); return;
      case "number": out.push("n", v); return;
      case "string": out.push("s", v); return;
      case "object": break;
      default: out.push("other:" + typeof v); return;
    }
    if (depth > 64) { out.push("deep"); return; }
    var keys = ownKeys(v), i, k;
    if (isArray(v)) {
      var len = v.length;
      out.push("[", len);
      if (getProto(v) !== AP) out.push("badproto");
      for (i = 0; i < len; i++) {
        if (OP.hasOwnProperty.call(v, i)) prop(out, v, String(i), depth); else out.push("hole");
      }
      for (i = 0; i < keys.length; i++) {
        k = keys[i];
        if (typeof k === "symbol") { out.push("symkey"); continue; }
        if (k === "length" || (isIndex(k) && (k >>> 0) < len)) continue;
        out.push("extra", k);
        prop(out, v, k, depth);
      }
      out.push("]");
    } else {
      out.push("{");
      if (getProto(v) !== OP) out.push("badproto");
      for (i = 0; i < keys.length; i++) {
        k = keys[i];
        if (typeof k === "symbol") { out.push("symkey"); continue; }
        out.push("k", k);
        prop(out, v, k, depth);
      }
      out.push("}");
    }
  }
  return function(v){ var out = []; walk(out, v, 0); return out; };
})()
`

var (
	walkerPrg  = goja.MustCompile("c19-walker.js", walkerSrc, false)
	preludePrg = goja.MustCompile("c19-prelude.js", jsonref.PreludeJS(), false)
)

const caseFuel = 40000000

// maxCallStack is the documented guard against runaway recursion; the model's depth bound (jsonref.MaxDepth) is below it.
const maxCallStack = 400

func init() {
	// a runaway native recursion inside the engine must die quickly and attributably, not after growing a 1 GB stack
	debug.SetMaxStack(96 << 20)
}

// eng is one goja runtime prepared for JSON work.
type eng struct {
	r         *goja.Runtime
	parse     goja.Callable
	stringify goja.Callable
	walker    goja.Callable
	problem   string // setup failure
}

func newEng(withPrelude bool) *eng {
	r := gj.NewRuntime()
	goja.VerifSetFuel(r, caseFuel)
	r.SetMaxCallStackSize(maxCallStack)
	e := &eng{r: r}
	o := gj.Call(func() (goja.Value, error) {
		j := r.Get("JSON").ToObject(r)
		var ok bool
		if e.parse, ok = goja.AssertFunction(j.Get("parse")); !ok {
			return nil, fmt.Errorf("JSON.parse is not callable")
		}
		if e.stringify, ok = goja.AssertFunction(j.Get("stringify")); !ok {
			return nil, fmt.Errorf("JSON.stringify is not callable")
		}
		w, err := r.RunProgram(walkerPrg)
		if err != nil {
			return nil, err
		}
		if e.walker, ok = goja.AssertFunction(w); !ok {
			return nil, fmt.Errorf("walker is not callable")
		}
		if withPrelude {
			if _, err := r.RunProgram(preludePrg); err != nil {
				return nil, err
			}
		}
		return nil, nil
	})
	if o.Err != nil || o.Panic != nil || o.Fuel || o.Assertion != nil {
		e.problem = fmt.Sprintf("engine setup failed: err=%v panic=%v fuel=%v", o.Err, o.Panic, o.Fuel)
	}
	return e
}

// out is the classified outcome of one engine call.
type out struct {
	val     goja.Value
	thrown  string // constructor name of the thrown error ("" = completed normally); "?" for a thrown non-error
	crash   string // Go panic escaped / hook assertion: always a violation
	incon   string // fuel exhausted etc.: inconclusive
	errText string
}

func (e *eng) classify(o gj.Outcome) out {
	switch {
	case o.Panic != nil:
		return out{crash: fmt.Sprintf("Go panic escaped the API: %v\n%s", o.Panic, trunc(o.PanicStack, 1500))}
	case o.Assertion != nil:
		return out{crash: "verif assertion: " + o.Assertion.Error()}
	case o.Fuel:
		return out{incon: "fuel"}
	case o.Err != nil:
		if ex, ok := o.Err.(*goja.Exception); ok {
			name := gj.ErrorCtorName(e.r, ex.Value())
			if name == "" {
				name = "?"
			}
			return out{thrown: name, errText: trunc(ex.Error(), 200)}
		}
		return out{thrown: "go:" + gj.ErrKind(o.Err), errText: trunc(o.Err.Error(), 200)}
	}
	return out{val: o.Val}
}

func (e *eng) call(fn goja.Callable, args ...goja.Value) out {
	return e.classify(gj.Call(func() (goja.Value, error) { return fn(goja.Undefined(), args...) }))
}

func (e *eng) run(src string) out {
	return e.classify(gj.Call(func() (goja.Value, error) { return e.r.RunString(src) }))
}

// dump walks an engine value with the JS walker and converts the flat token array.
func (e *eng) dump(v goja.Value) ([]jsonref.Tok, out) {
	o := e.call(e.walker, v)
	if o.thrown != "" || o.crash != "" || o.incon != "" {
		return nil, o
	}
	var toks []jsonref.Tok
	g := gj.Call(func() (goja.Value, error) {
		arr := o.val.ToObject(e.r)
		n := int(arr.Get("length").ToInteger())
		toks = make([]jsonref.Tok, 0, n)
		for i := 0; i < n; i++ {
			x := arr.Get(strconv.Itoa(i))
			switch s := x.(type) {
			case goja.String:
				toks = append(toks, jsonref.Tok{S: jsonref.FromUnits(gj.Units(s))})
			default:
				if goja.IsNumber(x) {
					toks = append(toks, jsonref.Tok{IsNum: true, N: x.ToFloat()})
				} else {
					toks = append(toks, jsonref.Tok{S: "?walker-emitted-" + fmt.Sprintf("%T", x)})
				}
			}
		}
		return nil, nil
	})
	if g.Panic != nil || g.Err != nil || g.Fuel || g.Assertion != nil {
		return nil, e.classify(g)
	}
	return toks, out{}
}

func (e *eng) global(name string) goja.Value {
	if v := e.r.Get(name); v != nil {
		return v
	}
	return goja.Undefined()
}

// strUnits returns the UTF-16 code units of an engine string value; ok=false if v is not a string.
func strUnits(v goja.Value) ([]uint16, bool) {
	s, ok := v.(goja.String)
	if !ok {
		return nil, false
	}
	return gj.Units(s), true
}

func trunc(s string, n int) string {
	if len(s) <= n {
		return s
	}
	return s[:n] + "…"
}
