package c19

import (
	"math"
	"strconv"
	"strings"

	"verif/harness/core"
	"verif/harness/jsonref"
)

type valGen struct {
	r        *core.Rng
	d        *Desc
	budget   int
	maxDepth int
	bigint   bool // BigInt values allowed (they make most results a TypeError)
	cycles   bool
	goOK     bool
	plain    bool // JSON-representable values only (round-trip cases)
	wsGap    bool // string gaps consist of JSON white space only
	stack    []int
}

var objKeys = []string{"a", "b", "c", "t", "x", "w", "n", "0", "1", "2", "7", "10", "01", "-1", "1.5", "4294967294", "4294967295", "__proto__", "constructor", "length", "", "é", "k y", "toString", "valueOf"}
var goKeys = []string{"a", "b", "c", "t", "x", "w", "k", "é", "zz", "Key", ""}
var tjFns = []string{"TJ_const", "TJ_key", "TJ_undef", "TJ_this_a", "TJ_nested", "TJ_num", "TJ_throw", "TJ_log", "F_arrow", "F_class"}
var replFns = []string{"R_identity", "R_drop_b", "R_double", "R_bang", "R_undef_root", "R_wrap_root", "R_holder_len", "R_box", "R_big", "R_log", "R_fn_sym", "R_undef_to_null", "R_throw", "R_drop_obj", "R_dup_x"}
var plainFns = []string{"F_plain", "F_arrow", "F_class", "F_seven", "TJ_const"}

func (g *valGen) randString(wellFormed bool) string {
	n := g.r.PickW([]int{10, 30, 30, 20, 10})
	if n == 4 {
		n = g.r.Range(4, 14)
	}
	var u []uint16
	for i := 0; i < n; i++ {
		switch g.r.PickW([]int{50, 12, 10, 10, 8, 10}) {
		case 0:
			u = append(u, uint16(0x20+g.r.Intn(0x5f)))
		case 1:
			u = append(u, uint16(g.r.Intn(0x20)))
		case 2:
			u = append(u, core.Pick(g.r, []uint16{'"', '\\', '/', 0x7f, 0x2028, 0x2029, 0xFEFF, 0xFFFD, 0xA0, 0xE9}))
		case 3:
			c := uint16(0x80 + g.r.Intn(0xD800-0x80))
			u = append(u, c)
		case 4:
			u = append(u, uint16(0xD800+g.r.Intn(0x400)), uint16(0xDC00+g.r.Intn(0x400)))
		default:
			if wellFormed {
				u = append(u, 'q')
			} else {
				u = append(u, uint16(0xD800+g.r.Intn(0x800))) // usually a lone surrogate
			}
		}
	}
	return jsonref.FromUnits(u)
}

func (g *valGen) randNumber() float64 {
	switch g.r.PickW([]int{30, 10, 15, 12, 10, 8, 15}) {
	case 0:
		return float64(g.r.Range(-20, 100))
	case 1:
		return math.Copysign(0, -1)
	case 2:
		if g.plain {
			return 0.5
		}
		return core.Pick(g.r, []float64{math.NaN(), math.Inf(1), math.Inf(-1)})
	case 3:
		return core.Pick(g.r, []float64{1e21, 1e20, 123456789012345680000, 1e-6, 1e-7, 1.5e-7, 5e-324, math.MaxFloat64, 0.1, 1 / 3.0, 4294967295, 4294967296, 9007199254740992, -9007199254740991, 2.2250738585072014e-308, 1e300, -1e-300, 0.000001234, 1.2e22, 25e-1})
	case 4:
		return float64(int64(g.r.U64()>>11)) * core.Pick(g.r, []float64{1, -1, 0.001, 1e-20, 1e20})
	case 5:
		return float64(int32(g.r.U64()))
	}
	for {
		f := g.r.Bits64()
		if f == f && !math.IsInf(f, 0) {
			return f
		}
	}
}

func (g *valGen) primitive() DV {
	if g.plain {
		switch g.r.PickW([]int{10, 15, 40, 35}) {
		case 0:
			return DV{T: "null"}
		case 1:
			return dBool(g.r.Bool())
		case 2:
			f := g.randNumber()
			if f == 0 {
				f = 0 // −0 is not JSON-representable
			}
			return dNum(f)
		}
		return dStr(g.randString(true))
	}
	w := []int{8, 8, 10, 30, 25, 0, 5, 6}
	if g.bigint {
		w[5] = 6
	}
	switch g.r.PickW(w) {
	case 0:
		return DV{T: "undef"}
	case 1:
		return DV{T: "null"}
	case 2:
		return dBool(g.r.Bool())
	case 3:
		return dNum(g.randNumber())
	case 4:
		return dStr(g.randString(false))
	case 5:
		return DV{T: "big", S: core.Pick(g.r, []string{"0", "1", "-5", "12345678901234567890123"})}
	case 6:
		return DV{T: "sym", S: core.Pick(g.r, []string{"", "s", "desc"})}
	}
	return dFn(core.Pick(g.r, plainFns))
}

func (g *valGen) key() string {
	if g.r.Chance(1, 10) {
		return notIdentifier(g.randString(g.plain))
	}
	return core.Pick(g.r, objKeys)
}

// notIdentifier keeps random keys away from the names of standard prototype methods the model does not carry
// (Array.prototype.map, …): a random key that looks like an identifier gets a '!' appended.
func notIdentifier(s string) string {
	if len(s) < 2 {
		return s
	}
	for i := 0; i < len(s); i++ {
		c := s[i]
		if !(c >= 'a' && c <= 'z' || c >= 'A' && c <= 'Z' || c == '_' || c == '$' || c >= '0' && c <= '9') {
			return s
		}
	}
	return s + "!"
}

// value generates a value slot at the given depth.
func (g *valGen) value(depth int) DV {
	g.budget--
	if depth >= g.maxDepth || g.budget <= 0 {
		return g.primitive()
	}
	if g.plain {
		switch g.r.PickW([]int{40, 30, 30}) {
		case 0:
			return g.primitive()
		case 1:
			return g.object(depth)
		}
		return g.array(depth)
	}
	w := []int{34, 22, 18, 10, 5, 3, 0, 0}
	//          prim obj arr box proxy sharedref cycle go
	if g.cycles && len(g.stack) > 0 {
		w[6] = 4
	}
	if g.goOK {
		w[7] = 8
	}
	switch g.r.PickW(w) {
	case 0:
		return g.primitive()
	case 1:
		return g.object(depth)
	case 2:
		return g.array(depth)
	case 3:
		return g.boxed()
	case 4:
		var t DV
		switch {
		case g.goOK && g.r.Chance(1, 4):
			t = g.goNode(depth, false)
		case g.r.Chance(1, 3):
			t = g.array(depth)
		default:
			t = g.object(depth)
		}
		p := g.d.add("proxy")
		p.Target = t.Ref
		return dRef(p.ID)
	case 5:
		// a reference to an already finished node that is not an ancestor (shared, not cyclic)
		var cands []int
		for _, n := range g.d.Nodes {
			if n.GoNested || g.onStack(n.ID) || n.Kind == "proxy" && g.onStack(n.Target) {
				continue
			}
			if g.reaches(n.ID, g.stack) {
				continue
			}
			cands = append(cands, n.ID)
		}
		if len(cands) == 0 {
			return g.primitive()
		}
		return dRef(core.Pick(g.r, cands))
	case 6:
		return dRef(core.Pick(g.r, g.stack))
	}
	return g.goNode(depth, false)
}

func (g *valGen) onStack(id int) bool {
	for _, s := range g.stack {
		if s == id {
			return true
		}
	}
	return false
}

// reaches reports whether node id (transitively) references one of the target nodes.
func (g *valGen) reaches(id int, targets []int) bool {
	seen := map[int]bool{}
	var walk func(i int) bool
	walk = func(i int) bool {
		if seen[i] {
			return false
		}
		seen[i] = true
		for _, t := range targets {
			if t == i {
				return true
			}
		}
		n := g.d.Nodes[i]
		if n.Target >= 0 && walk(n.Target) {
			return true
		}
		if n.Proto >= 0 && walk(n.Proto) {
			return true
		}
		for _, p := range n.Props {
			if p.Val.T == "ref" && walk(p.Val.Ref) {
				return true
			}
		}
		return false
	}
	return walk(id)
}

func (g *valGen) object(depth int) DV {
	proto := -1
	if !g.plain && g.r.Chance(1, 8) {
		// prototype object carrying toJSON (data properties only)
		pn := g.d.add("obj")
		pn.Props = append(pn.Props, DProp{Key: "toJSON", Val: dFn(core.Pick(g.r, tjFns))})
		if g.r.Bool() {
			pn.Props = append(pn.Props, DProp{Key: "a", Val: dStr("proto-a")})
		}
		proto = pn.ID
	}
	n := g.d.add("obj")
	n.Proto = proto
	g.stack = append(g.stack, n.ID)
	cnt := g.r.PickW([]int{12, 22, 25, 20, 12, 9})
	for i := 0; i < cnt; i++ {
		k := g.key()
		if g.plain {
			n.Props = append(n.Props, DProp{Key: k, Val: g.value(depth + 1)})
			continue
		}
		switch g.r.PickW([]int{80, 5, 5, 4, 6}) {
		case 0:
			n.Props = append(n.Props, DProp{Key: k, Val: g.value(depth + 1)})
		case 1:
			if k != "__proto__" {
				n.Props = append(n.Props, DProp{Key: k, Val: g.value(depth + 1), Kind: pHidden})
			}
		case 2:
			if k != "__proto__" {
				n.Props = append(n.Props, DProp{Key: k, Val: dFn(core.Pick(g.r, []string{"G_42", "G_undef", "G_obj"})), Kind: pGetter})
			}
		case 3:
			n.Props = append(n.Props, DProp{Key: "sk", Val: g.primitive(), Kind: pSymbol})
		default:
			if g.r.Chance(1, 5) {
				n.Props = append(n.Props, DProp{Key: "toJSON", Val: g.primitive()})
			} else {
				n.Props = append(n.Props, DProp{Key: "toJSON", Val: dFn(core.Pick(g.r, tjFns))})
			}
		}
	}
	g.stack = g.stack[:len(g.stack)-1]
	// a getter followed by an assignment to the same key would be a silent no-op in JS but not in Set(): keep the
	// description inside the domain by dropping data writes that follow an accessor definition of the same key
	n.Props = dropWritesAfterGetter(n.Props)
	return dRef(n.ID)
}

func dropWritesAfterGetter(ps []DProp) []DProp {
	getter := map[string]bool{}
	var out []DProp
	for _, p := range ps {
		if p.Kind == pSymbol {
			out = append(out, p)
			continue
		}
		if getter[p.Key] && p.Kind == pData && p.Key != "__proto__" {
			continue
		}
		getter[p.Key] = p.Kind == pGetter
		out = append(out, p)
	}
	return out
}

func (g *valGen) array(depth int) DV {
	n := g.d.add("arr")
	g.stack = append(g.stack, n.ID)
	cnt := g.r.PickW([]int{12, 22, 25, 20, 12, 9})
	if g.plain || g.r.Chance(2, 3) {
		for i := 0; i < cnt; i++ {
			n.Props = append(n.Props, DProp{Key: strconv.Itoa(i), Val: g.value(depth + 1)})
		}
		n.Len = cnt
	} else {
		// sparse: random indices in random insertion order, explicit length
		n.Len = g.r.Intn(9)
		for i := 0; i < cnt; i++ {
			n.Props = append(n.Props, DProp{Key: strconv.Itoa(g.r.Intn(10)), Val: g.value(depth + 1)})
		}
	}
	if !g.plain && g.r.Chance(1, 12) {
		n.Props = append(n.Props, DProp{Key: "toJSON", Val: dFn(core.Pick(g.r, tjFns))})
	}
	if !g.plain && g.r.Chance(1, 12) {
		n.Props = append(n.Props, DProp{Key: "named", Val: g.primitive()})
	}
	g.stack = g.stack[:len(g.stack)-1]
	return dRef(n.ID)
}

func (g *valGen) boxed() DV {
	kinds := []string{"boxnum", "boxnum", "boxstr", "boxstr", "boxbool", "boxsym"}
	if g.bigint {
		kinds = append(kinds, "boxbig")
	}
	n := g.d.add(core.Pick(g.r, kinds))
	switch n.Kind {
	case "boxnum":
		n.Prim = dNum(g.randNumber())
		if g.r.Chance(1, 5) {
			n.Props = append(n.Props, DProp{Key: "valueOf", Val: dFn(core.Pick(g.r, []string{"F_seven", "F_nan", "F_three"}))})
		}
	case "boxstr":
		n.Prim = dStr(g.randString(false))
		if g.r.Chance(1, 5) {
			n.Props = append(n.Props, DProp{Key: "toString", Val: dFn("F_ts")})
		}
	case "boxbool":
		n.Prim = dBool(g.r.Bool())
	case "boxbig":
		n.Prim = DV{T: "big", S: "7"}
	case "boxsym":
		n.Prim = DV{T: "sym", S: "w"}
	}
	if g.r.Chance(1, 8) {
		n.Props = append(n.Props, DProp{Key: "toJSON", Val: dFn(core.Pick(g.r, tjFns))})
	}
	return dRef(n.ID)
}

// goLeaf: values that can live inside Go containers.
func (g *valGen) goLeaf() DV {
	switch g.r.PickW([]int{10, 15, 40, 35}) {
	case 0:
		return DV{T: "null"}
	case 1:
		return dBool(g.r.Bool())
	case 2:
		return dNum(g.randNumber())
	}
	return dStr(g.randString(true))
}

func (g *valGen) goValue(depth int) DV {
	g.budget--
	if depth >= g.maxDepth || g.budget <= 0 || g.r.Chance(1, 2) {
		return g.goLeaf()
	}
	return g.goNode(depth, true)
}

func (g *valGen) goNode(depth int, nested bool) DV {
	switch g.r.Intn(3) {
	case 0:
		n := g.d.add("gomap")
		n.GoNested = nested
		cnt := g.r.PickW([]int{15, 45, 25, 15})
		seen := map[string]bool{}
		for i := 0; i < cnt; i++ {
			k := core.Pick(g.r, goKeys)
			if seen[k] {
				continue
			}
			seen[k] = true
			n.Props = append(n.Props, DProp{Key: k, Val: g.goValue(depth + 1)})
		}
		return dRef(n.ID)
	case 1:
		n := g.d.add("goslice")
		n.GoNested = nested
		cnt := g.r.Intn(4)
		for i := 0; i < cnt; i++ {
			n.Props = append(n.Props, DProp{Key: strconv.Itoa(i), Val: g.goValue(depth + 1)})
		}
		n.Len = cnt
		return dRef(n.ID)
	}
	return g.goStruct(depth, nested, 0)
}

func (g *valGen) goStruct(depth int, nested bool, level int) DV {
	n := g.d.add("gostruct")
	n.GoNested = nested
	e := g.d.add("goslice")
	e.GoNested = true
	for i, cnt := 0, g.r.Intn(3); i < cnt; i++ {
		e.Props = append(e.Props, DProp{Key: strconv.Itoa(i), Val: g.goLeaf()})
	}
	e.Len = len(e.Props)
	f := g.d.add("gomap")
	f.GoNested = true
	if g.r.Bool() {
		f.Props = append(f.Props, DProp{Key: core.Pick(g.r, goKeys), Val: g.goLeaf()})
	}
	gv := DV{T: "null"}
	if level < 2 && g.r.Chance(1, 3) {
		gv = g.goStruct(depth+1, true, level+1)
	}
	n.Props = []DProp{
		{Key: "A", Val: dNum(float64(g.r.Range(-5, 50)))},
		{Key: "B", Val: dStr(g.randString(true))},
		{Key: "C", Val: dNum(g.randNumber())},
		{Key: "D", Val: dBool(g.r.Bool())},
		{Key: "E", Val: dRef(e.ID)},
		{Key: "F", Val: dRef(f.ID)},
		{Key: "G", Val: gv},
	}
	return dRef(n.ID)
}

// ---------------------------------------------------------------- replacers and indents

// genReplacer returns the replacer slot and a short class name for the evidence.
func (g *valGen) genReplacer(keysInUse []string) (DV, string) {
	switch g.r.PickW([]int{30, 30, 30, 10}) {
	case 0:
		return DV{T: "undef"}, "none"
	case 1:
		id := core.Pick(g.r, replFns)
		return dFn(id), "fn:" + id
	case 2:
		n := g.d.add("arr")
		cnt := g.r.PickW([]int{8, 12, 20, 20, 20, 20})
		var hasNum, hasBoxed, hasDup, hasHole bool
		for i := 0; i < cnt; i++ {
			var v DV
			switch g.r.PickW([]int{45, 12, 10, 10, 8, 8, 7}) {
			case 0:
				if len(keysInUse) > 0 && g.r.Chance(3, 4) {
					v = dStr(core.Pick(g.r, keysInUse))
				} else {
					v = dStr(core.Pick(g.r, objKeys))
				}
			case 1:
				v = dNum(core.Pick(g.r, []float64{0, 1, 2, 7, 10, 1.5, math.Copysign(0, -1), -1, 4294967294, 1e21, math.NaN(), math.Inf(1)}))
				hasNum = true
			case 2:
				b := g.d.add("boxstr")
				b.Prim = dStr(core.Pick(g.r, append([]string{"a", "b", "0"}, keysInUse...)))
				v = dRef(b.ID)
				hasBoxed = true
			case 3:
				b := g.d.add("boxnum")
				b.Prim = dNum(core.Pick(g.r, []float64{0, 1, 2, 10, 1.5}))
				v = dRef(b.ID)
				hasBoxed = true
			case 4: // duplicate of an earlier entry
				if len(n.Props) > 0 {
					v = core.Pick(g.r, n.Props).Val
					hasDup = true
				} else {
					v = dStr("a")
				}
			case 5: // ignored entries
				switch g.r.Intn(5) {
				case 0:
					v = dBool(true)
				case 1:
					v = DV{T: "null"}
				case 2:
					v = DV{T: "undef"}
				case 3:
					v = DV{T: "sym", S: "a"}
				default:
					o := g.d.add("obj")
					v = dRef(o.ID)
				}
			default: // hole
				n.Len = i + 1 + g.r.Intn(2)
				hasHole = true
				continue
			}
			n.Props = append(n.Props, DProp{Key: strconv.Itoa(i), Val: v})
		}
		if n.Len < cnt {
			n.Len = cnt
		}
		class := "list"
		for _, f := range []struct {
			on   bool
			name string
		}{{hasNum, "+num"}, {hasBoxed, "+boxed"}, {hasDup, "+dup"}, {hasHole, "+hole"}} {
			if f.on {
				class += f.name
			}
		}
		if g.r.Chance(1, 8) {
			p := g.d.add("proxy")
			p.Target = n.ID
			return dRef(p.ID), "proxy" + class
		}
		return dRef(n.ID), class
	}
	// ignored replacers
	switch g.r.Intn(5) {
	case 0:
		return DV{T: "null"}, "ignored:null"
	case 1:
		return dNum(5), "ignored:number"
	case 2:
		return dStr("a"), "ignored:string"
	case 3:
		o := g.d.add("obj")
		o.Props = append(o.Props, DProp{Key: "0", Val: dStr("a")}, DProp{Key: "length", Val: dNum(1)})
		return dRef(o.ID), "ignored:array-like-object"
	}
	return dBool(true), "ignored:boolean"
}

var gapChars = []string{" ", "\t", "-", "ab", "\n", "\u00e9", "\u2028", "\U0001F600", "\"", "\\", "x"}

// genSpace returns the space slot and its class for the evidence.  Excluded from the domain (known finding
// C19-gap-lone-surrogate): string gaps whose first 10 code units contain an unpaired surrogate.
func (g *valGen) genSpace() (DV, string) {
	box := func(kind string, prim DV, class string) (DV, string) {
		n := g.d.add(kind)
		n.Prim = prim
		if kind == "boxnum" && g.r.Chance(1, 4) {
			n.Props = append(n.Props, DProp{Key: "valueOf", Val: dFn(core.Pick(g.r, []string{"F_seven", "F_three", "F_nan"}))})
			class += "+valueOf"
		}
		if kind == "boxstr" && g.r.Chance(1, 4) {
			if !g.wsGap {
				n.Props = append(n.Props, DProp{Key: "toString", Val: dFn("F_ts")})
				class += "+toString"
			}
		}
		return dRef(n.ID), class
	}
	str := func() string {
		n := g.r.Intn(13)
		var b strings.Builder
		for jsonref.Len16(b.String()) < n {
			if g.wsGap {
				b.WriteString(core.Pick(g.r, []string{" ", "\t", "\n", "\r"}))
			} else {
				b.WriteString(core.Pick(g.r, gapChars))
			}
		}
		s := b.String()
		u := jsonref.Units(s)
		if len(u) > 10 && jsonref.HasLoneSurrogate(u[:10]) {
			// the 10-unit cut would split a surrogate pair: outside the domain (known finding)
			s = strings.Repeat(" ", n)
		}
		return s
	}
	switch g.r.PickW([]int{12, 30, 10, 10, 22, 8, 8}) {
	case 0:
		return DV{T: "undef"}, "none"
	case 1:
		n := g.r.Range(-1, 12)
		return dNum(float64(n)), "int:" + strconv.Itoa(n)
	case 2:
		f := core.Pick(g.r, []float64{0.5, 0.99, 1.9, 3.7, 9.99, 10.5, -0.5, 2.5, 1e-300})
		return dNum(f), "fractional"
	case 3:
		f := core.Pick(g.r, []float64{math.NaN(), math.Inf(1), math.Inf(-1), 1e21, 2147483648, 4294967296, 9007199254740992, 9223372036854775808, 18446744073709551616, 1e300, -1e300, math.Copysign(0, -1)})
		return dNum(f), "extreme-number"
	case 4:
		s := str()
		return dStr(s), "string:len" + strconv.Itoa(jsonref.Len16(s))
	case 5:
		if g.r.Bool() {
			return box("boxnum", dNum(float64(g.r.Range(-1, 12))), "boxed-number")
		}
		return box("boxstr", dStr(str()), "boxed-string")
	}
	switch g.r.Intn(6) {
	case 0:
		return DV{T: "null"}, "ignored:null"
	case 1:
		return dBool(true), "ignored:boolean"
	case 2:
		n := g.d.add("boxbool")
		n.Prim = dBool(true)
		return dRef(n.ID), "ignored:boxed-boolean"
	case 3:
		o := g.d.add("arr")
		o.Props = append(o.Props, DProp{Key: "0", Val: dNum(2)})
		o.Len = 1
		return dRef(o.ID), "ignored:array"
	case 4:
		return DV{T: "sym", S: "sp"}, "ignored:symbol"
	}
	return DV{T: "big", S: "4"}, "ignored:bigint"
}

// genDesc generates a stringify case: value, replacer, indent.
func genDesc(r *core.Rng) (*Desc, string, string) {
	d := &Desc{Root: DV{T: "undef"}, Repl: DV{T: "undef"}, Space: DV{T: "undef"}}
	g := &valGen{r: r, d: d, budget: r.Range(3, 30), maxDepth: r.Range(1, 6)}
	g.bigint = r.Chance(1, 7)
	g.cycles = r.Chance(1, 10)
	g.goOK = r.Chance(1, 4)
	if r.Chance(1, 10) {
		protos := []string{"Number", "String", "Boolean", "BigInt", "Array", "Object", "Symbol", "Function"}
		d.Patches = append(d.Patches, Patch{Proto: core.Pick(r, protos), Fn: core.Pick(r, tjFns)})
	}
	if r.Chance(1, 12) {
		g.maxDepth = 0 // primitive root
	}
	d.Root = g.value(0)
	var keys []string
	for _, n := range d.Nodes {
		if n.Kind == "obj" || n.Kind == "gomap" {
			for _, p := range n.Props {
				if p.Kind != pSymbol {
					keys = append(keys, p.Key)
				}
			}
		}
	}
	var rc, sc string
	d.Repl, rc = g.genReplacer(keys)
	d.Space, sc = g.genSpace()
	return d, rc, sc
}

// genPlainDesc generates a JSON-representable value (round-trip cases).
func genPlainDesc(r *core.Rng) (*Desc, string) {
	d := &Desc{Root: DV{T: "undef"}, Repl: DV{T: "undef"}, Space: DV{T: "undef"}}
	g := &valGen{r: r, d: d, budget: r.Range(3, 40), maxDepth: r.Range(1, 8), plain: true}
	d.Root = g.value(0)
	var sc string
	switch r.Intn(3) {
	case 0:
		sc = "none"
	case 1:
		n := r.Range(1, 10)
		d.Space, sc = dNum(float64(n)), "int:"+strconv.Itoa(n)
	default:
		d.Space, sc = dStr(core.Pick(r, []string{"\t", " \n", "\r\n\t "})), "ws-string"
	}
	return d, sc
}
