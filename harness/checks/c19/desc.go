package c19

import (
	"fmt"
	"math"
	"strconv"
	"strings"

	"verif/harness/jsonref"
)

// The value description language.  A Desc is understood by two interpreters: JS() prints a script that builds the value
// in the engine, Model() builds the same abstract value in the jsonref model (and GoValue() builds the Go values handed to
// Runtime.ToValue for the wrapper nodes).  User code appears only as references to the fixed callback catalogue.

// DV is a value slot.
type DV struct {
	T   string // undef null bool num str big sym fn ref
	B   bool
	N   float64
	S   string // str: WTF-8 text; big: decimal digits with optional '-'; sym: description; fn: catalogue id
	Ref int    // node id
}

const (
	pData   = iota // enumerable data property (assignment, or defineProperty for "__proto__")
	pHidden        // non-enumerable data property
	pGetter        // enumerable accessor; Val is a fn
	pSymbol        // symbol-keyed data property (invisible to JSON)
)

type DProp struct {
	Key  string
	Val  DV
	Kind int
}

// DNode is an object-valued node; it becomes the JS variable v<ID>.
type DNode struct {
	ID       int
	Kind     string  // obj arr boxnum boxstr boxbool boxbig boxsym proxy gomap goslice gostruct
	Props    []DProp // in insertion order (arr: Key is the decimal index)
	Len      int     // arr: length set before the elements are assigned
	Prim     DV      // box*
	Target   int     // proxy
	Proto    int     // obj: node id of the prototype (Object.create), -1 = default
	GoNested bool    // Go node reachable only through an enclosing Go value (no JS variable)
}

type Patch struct{ Proto, Fn string } // <Proto>.prototype.toJSON = F.<Fn>

type Desc struct {
	Nodes   []*DNode
	Patches []Patch
	Root    DV
	Repl    DV
	Space   DV
}

func dNum(f float64) DV { return DV{T: "num", N: f} }
func dStr(s string) DV  { return DV{T: "str", S: s} }
func dRef(id int) DV    { return DV{T: "ref", Ref: id} }
func dFn(id string) DV  { return DV{T: "fn", S: id} }
func dBool(b bool) DV   { return DV{T: "bool", B: b} }
func (d *Desc) add(kind string) *DNode {
	n := &DNode{ID: len(d.Nodes), Kind: kind, Proto: -1, Target: -1}
	d.Nodes = append(d.Nodes, n)
	return n
}

func (d *Desc) clone() *Desc {
	c := &Desc{Root: d.Root, Repl: d.Repl, Space: d.Space, Patches: append([]Patch(nil), d.Patches...)}
	for _, n := range d.Nodes {
		m := *n
		m.Props = append([]DProp(nil), n.Props...)
		c.Nodes = append(c.Nodes, &m)
	}
	return c
}

// compact drops the nodes that are not reachable from the value, the replacer or the indent and renumbers the rest
// (creation order is preserved).
func (d *Desc) compact() *Desc {
	reach := map[int]bool{}
	var visitNode func(id int)
	visit := func(v DV) {
		if v.T == "ref" {
			visitNode(v.Ref)
		}
	}
	visitNode = func(id int) {
		if id < 0 || reach[id] {
			return
		}
		reach[id] = true
		n := d.Nodes[id]
		visitNode(n.Target)
		visitNode(n.Proto)
		visit(n.Prim)
		for _, p := range n.Props {
			visit(p.Val)
		}
	}
	visit(d.Root)
	visit(d.Repl)
	visit(d.Space)
	newID := map[int]int{}
	c := &Desc{Patches: append([]Patch(nil), d.Patches...)}
	for _, n := range d.Nodes {
		if reach[n.ID] {
			newID[n.ID] = len(c.Nodes)
			m := *n
			m.ID = len(c.Nodes)
			m.Props = append([]DProp(nil), n.Props...)
			c.Nodes = append(c.Nodes, &m)
		}
	}
	fix := func(v DV) DV {
		if v.T == "ref" {
			v.Ref = newID[v.Ref]
		}
		return v
	}
	for _, n := range c.Nodes {
		if n.Target >= 0 {
			n.Target = newID[n.Target]
		}
		if n.Proto >= 0 {
			n.Proto = newID[n.Proto]
		}
		n.Prim = fix(n.Prim)
		for i := range n.Props {
			n.Props[i].Val = fix(n.Props[i].Val)
		}
	}
	c.Root, c.Repl, c.Space = fix(d.Root), fix(d.Repl), fix(d.Space)
	return c
}

// ---------------------------------------------------------------- JS printer

func jsString(s string) string {
	const hexd = "0123456789abcdef"
	var b strings.Builder
	b.WriteByte('"')
	for _, c := range jsonref.Units(s) {
		if c >= 0x20 && c < 0x7f && c != '"' && c != '\\' {
			b.WriteByte(byte(c))
		} else {
			b.WriteString(`\u`)
			b.WriteByte(hexd[c>>12])
			b.WriteByte(hexd[(c>>8)&15])
			b.WriteByte(hexd[(c>>4)&15])
			b.WriteByte(hexd[c&15])
		}
	}
	b.WriteByte('"')
	return b.String()
}

// jsNumber prints a double without relying on the engine's decimal literal conversion: small integers as literals,
// everything else rebuilt from its bit pattern by the prelude helper D(hi, lo).
func jsNumber(f float64) string {
	switch {
	case f != f:
		return "NaN"
	case math.IsInf(f, 1):
		return "Infinity"
	case math.IsInf(f, -1):
		return "-Infinity"
	case f == 0 && math.Signbit(f):
		return "-0"
	case f == math.Trunc(f) && math.Abs(f) < 1<<31:
		return strconv.FormatInt(int64(f), 10)
	}
	bits := math.Float64bits(f)
	return fmt.Sprintf("D(0x%x, 0x%x)", uint32(bits>>32), uint32(bits))
}

const helperJS = "function D(hi, lo){ return new Float64Array(new Uint32Array([lo, hi]).buffer)[0]; }\n"

func (v DV) js() string {
	switch v.T {
	case "undef":
		return "undefined"
	case "null":
		return "null"
	case "bool":
		if v.B {
			return "true"
		}
		return "false"
	case "num":
		return jsNumber(v.N)
	case "str":
		return jsString(v.S)
	case "big":
		return v.S + "n"
	case "sym":
		return "Symbol(" + jsString(v.S) + ")"
	case "fn":
		return "F." + v.S
	case "ref":
		return "v" + strconv.Itoa(v.Ref)
	}
	panic("c19: bad DV " + v.T)
}

// JS prints the script that builds the value and leaves V (value), R (replacer), S (space) as globals.  Go wrapper roots
// are expected as globals G<id>.
func (d *Desc) JS() string {
	var b strings.Builder
	b.WriteString(helperJS)
	for _, p := range d.Patches {
		fmt.Fprintf(&b, "%s.prototype.toJSON = F.%s;\n", p.Proto, p.Fn)
	}
	for _, n := range d.Nodes {
		if n.GoNested {
			continue
		}
		v := "v" + strconv.Itoa(n.ID)
		switch n.Kind {
		case "obj":
			if n.Proto >= 0 {
				fmt.Fprintf(&b, "var %s = Object.create(v%d);\n", v, n.Proto)
			} else {
				fmt.Fprintf(&b, "var %s = {};\n", v)
			}
		case "arr":
			fmt.Fprintf(&b, "var %s = [];", v)
			if n.Len > 0 {
				fmt.Fprintf(&b, " %s.length = %d;", v, n.Len)
			}
			b.WriteByte('\n')
		case "boxnum":
			fmt.Fprintf(&b, "var %s = new Number(%s);\n", v, n.Prim.js())
		case "boxstr":
			fmt.Fprintf(&b, "var %s = new String(%s);\n", v, n.Prim.js())
		case "boxbool":
			fmt.Fprintf(&b, "var %s = new Boolean(%s);\n", v, n.Prim.js())
		case "boxbig", "boxsym":
			fmt.Fprintf(&b, "var %s = Object(%s);\n", v, n.Prim.js())
		case "proxy":
			fmt.Fprintf(&b, "var %s = new Proxy(v%d, {});\n", v, n.Target)
		case "gomap", "goslice", "gostruct":
			fmt.Fprintf(&b, "var %s = G%d;\n", v, n.ID)
		}
	}
	for _, n := range d.Nodes {
		if n.Kind == "gomap" || n.Kind == "goslice" || n.Kind == "gostruct" || n.Kind == "proxy" {
			continue
		}
		v := "v" + strconv.Itoa(n.ID)
		for _, p := range n.Props {
			switch {
			case p.Kind == pSymbol:
				fmt.Fprintf(&b, "%s[Symbol(%s)] = %s;\n", v, jsString(p.Key), p.Val.js())
			case p.Kind == pGetter:
				fmt.Fprintf(&b, "Object.defineProperty(%s, %s, {get: %s, enumerable: true, configurable: true});\n", v, jsString(p.Key), p.Val.js())
			case p.Kind == pHidden:
				fmt.Fprintf(&b, "Object.defineProperty(%s, %s, {value: %s, writable: true, enumerable: false, configurable: true});\n", v, jsString(p.Key), p.Val.js())
			case p.Key == "__proto__":
				fmt.Fprintf(&b, "Object.defineProperty(%s, %s, {value: %s, writable: true, enumerable: true, configurable: true});\n", v, jsString(p.Key), p.Val.js())
			default:
				fmt.Fprintf(&b, "%s[%s] = %s;\n", v, jsString(p.Key), p.Val.js())
			}
		}
	}
	fmt.Fprintf(&b, "var V = %s, R = %s, S = %s;\n", d.Root.js(), d.Repl.js(), d.Space.js())
	return b.String()
}

// ---------------------------------------------------------------- model builder

type built struct {
	rt   *jsonref.Realm
	objs []*jsonref.Obj
}

func (bl *built) val(v DV) jsonref.V {
	switch v.T {
	case "undef":
		return jsonref.Undefined
	case "null":
		return jsonref.Null
	case "bool":
		return jsonref.Bool(v.B)
	case "num":
		return jsonref.Num(v.N)
	case "str":
		return jsonref.Str(v.S)
	case "big":
		return jsonref.BigInt(v.S)
	case "sym":
		return jsonref.Symbol(v.S)
	case "fn":
		return jsonref.ObjV(bl.rt.FnObj(v.S))
	case "ref":
		return jsonref.ObjV(bl.objs[v.Ref])
	}
	panic("c19: bad DV " + v.T)
}

// Model builds the value in a fresh realm.
func (d *Desc) Model() (rt *jsonref.Realm, value, repl, space jsonref.V) {
	rt = jsonref.NewRealm()
	bl := &built{rt: rt}
	for _, p := range d.Patches {
		rt.ProtoByName(p.Proto).CreateDataProperty("toJSON", jsonref.ObjV(rt.FnObj(p.Fn)))
	}
	for _, n := range d.Nodes {
		o := &jsonref.Obj{}
		switch n.Kind {
		case "obj":
			o.Class = jsonref.CObject
			if n.Proto >= 0 {
				o.Proto = bl.objs[n.Proto]
			}
		case "arr":
			o.Class = jsonref.CArray
			o.SetLength(n.Len)
		case "boxnum":
			o.Class = jsonref.CNumber
		case "boxstr":
			o.Class = jsonref.CString
		case "boxbool":
			o.Class = jsonref.CBoolean
		case "boxbig":
			o.Class = jsonref.CBigInt
		case "boxsym":
			o.Class = jsonref.CSymbol
		case "proxy":
			o.Class = jsonref.CProxy
			o.Target = bl.objs[n.Target]
		case "gomap":
			o.Class, o.Go = jsonref.CObject, jsonref.GoMap
		case "goslice":
			o.Class, o.Go = jsonref.CArray, jsonref.GoSlice
		case "gostruct":
			o.Class, o.Go = jsonref.CObject, jsonref.GoStruct
		}
		bl.objs = append(bl.objs, o)
	}
	for _, n := range d.Nodes {
		o := bl.objs[n.ID]
		if n.Kind[:3] == "box" {
			o.Prim = bl.val(n.Prim)
		}
		for _, p := range n.Props {
			switch p.Kind {
			case pSymbol:
			case pGetter:
				o.DefineGetter(p.Key, bl.rt.FnObj(p.Val.S))
			case pHidden:
				o.DefineHidden(p.Key, bl.val(p.Val))
			default:
				if p.Key == "__proto__" {
					o.CreateDataProperty(p.Key, bl.val(p.Val))
				} else {
					o.Set(p.Key, bl.val(p.Val))
				}
			}
		}
		if n.Kind == "gostruct" {
			// methods of the Go type are properties holding (native) functions
			o.CreateDataProperty("Method", jsonref.ObjV(rt.FnObj("F_plain")))
		}
	}
	return rt, bl.val(d.Root), bl.val(d.Repl), bl.val(d.Space)
}

// ---------------------------------------------------------------- Go values for the wrapper nodes

// GoS is the struct type used for struct wrappers.
type GoS struct {
	A int
	B string
	C float64
	D bool
	E []interface{}
	F map[string]interface{}
	G *GoS
	h int
}

func (GoS) Method() int { return 1 }

func (d *Desc) goVal(v DV) interface{} {
	switch v.T {
	case "null":
		return nil
	case "bool":
		return v.B
	case "num":
		if v.N == math.Trunc(v.N) && math.Abs(v.N) < 1<<31 && !(v.N == 0 && math.Signbit(v.N)) && int(v.N)%3 != 0 {
			return int(v.N) // some integers travel as Go ints, the rest as float64
		}
		return v.N
	case "str":
		return v.S
	case "ref":
		return d.GoValue(v.Ref)
	}
	panic("c19: value kind " + v.T + " cannot live in a Go container")
}

// GoValue builds the Go value of a gomap/goslice/gostruct node.
func (d *Desc) GoValue(id int) interface{} {
	n := d.Nodes[id]
	switch n.Kind {
	case "gomap":
		m := map[string]interface{}{}
		for _, p := range n.Props {
			m[p.Key] = d.goVal(p.Val)
		}
		return m
	case "goslice":
		s := make([]interface{}, len(n.Props))
		for i, p := range n.Props {
			s[i] = d.goVal(p.Val)
		}
		return s
	case "gostruct":
		s := &GoS{h: 7}
		for _, p := range n.Props {
			switch p.Key {
			case "A":
				s.A = int(p.Val.N)
			case "B":
				s.B = p.Val.S
			case "C":
				s.C = p.Val.N
			case "D":
				s.D = p.Val.B
			case "E":
				s.E = d.GoValue(p.Val.Ref).([]interface{})
			case "F":
				s.F = d.GoValue(p.Val.Ref).(map[string]interface{})
			case "G":
				if p.Val.T == "ref" {
					s.G = d.GoValue(p.Val.Ref).(*GoS)
				}
			}
		}
		return s
	}
	panic("c19: not a Go node")
}

// features counts what Appendix C's non-triviality rule looks at.
func (d *Desc) features() map[string]bool {
	f := map[string]bool{}
	if d.Repl.T == "fn" || d.Repl.T == "ref" {
		f["replacer"] = true
	}
	if len(d.Patches) > 0 {
		f["toJSON"] = true
	}
	var look func(v DV)
	look = func(v DV) {
		if v.T == "num" && (v.N != v.N || math.IsInf(v.N, 0)) {
			f["non-finite"] = true
		}
	}
	for _, n := range d.Nodes {
		if strings.HasPrefix(n.Kind, "box") {
			f["boxed"] = true
			look(n.Prim)
		}
		if strings.HasPrefix(n.Kind, "go") {
			f["gowrapper"] = true
		}
		if n.Kind == "proxy" {
			f["proxy"] = true
		}
		if n.Proto >= 0 {
			f["proto"] = true
		}
		if n.Kind == "arr" && len(n.Props) < n.Len {
			f["holes"] = true
		}
		for _, p := range n.Props {
			if p.Key == "toJSON" && p.Kind != pSymbol {
				f["toJSON"] = true
			}
			look(p.Val)
			if p.Kind == pGetter {
				f["getter"] = true
			}
		}
	}
	return f
}
