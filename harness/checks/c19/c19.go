// Package c19: "JSON.parse and JSON.stringify conform to the JSON grammar and round-trip".
//
// Workload (every case a pure function of seed and index):
//
//	text       grammar-generated JSON text → accept/reject vs the jsonref recogniser, structure dump vs the model,
//	           stringify(parse(t)) vs the canonical form
//	corrupt    a short sample text and EVERY single-edit corruption of it (unit delete/insert/replace, token
//	           delete/duplicate/insert/replace/swap, truncations) through the same monitors
//	stringify  a value from the description language × 3 (replacer, indent) pairs → text / undefined / error class vs the
//	           model, callback log vs the model, Object.MarshalJSON vs JSON.stringify
//	roundtrip  JSON-representable value: parse(stringify(v, indent)) structurally equals v
//	reviver    text × reviver from the catalogue (or a non-callable one) → result dump, call log, error class vs the model
//
// Monitors compare only boundary observables: error constructor names, UTF-16 code units of result strings, float64
// bits of numbers, own-key order / attributes / prototypes as seen by a harness-written JS walker.
package c19

import (
	"fmt"
	"sort"
	"strings"
	"unicode/utf16"
	"unicode/utf8"

	"github.com/dop251/goja"

	"verif/harness/core"
	"verif/harness/gj"
	"verif/harness/jsonref"
)

type caseRec struct {
	Kind     string `json:"kind"`
	Text     string `json:"text,omitempty"` // code units, non-ASCII as \uXXXX
	Base     string `json:"base,omitempty"`
	Edit     string `json:"edit,omitempty"`
	JS       string `json:"js,omitempty"`
	Call     string `json:"call,omitempty"`
	Reviver  string `json:"reviver,omitempty"`
	Expected string `json:"expected,omitempty"`
	Observed string `json:"observed,omitempty"`
}

type viol struct {
	monitor, detail, sig string
	rec                  caseRec
}

func (v *viol) result(key string) core.Result {
	v.rec.Expected, v.rec.Observed = "", ""
	return core.Result{Verdict: core.Violated, NonTrivial: true, Key: key, Monitor: v.monitor, Detail: v.detail, Signature: v.sig, Case: v.rec}
}

// ---------------------------------------------------------------- pinned witnesses

type pin struct {
	text string // parse witness (Go string, \u escapes allowed through Go syntax)
	js   string // or: JS expression evaluated after the prelude
	want string // for js: "=<text>", "throw:<Ctor>", "undefined"
}

var pinned = []pin{
	// exponent overflow (fixed by "fix: JSON.parse … ±Infinity"); kept as regression witnesses
	{text: `1e400`}, {text: `-1e400`}, {text: `1E400`}, {text: `123e1000000`}, {text: `[2e308, -2e308]`}, {text: `{"a":1.7976931348623159e308}`},
	{text: `1e-400`}, {text: `-1e-400`}, {text: `{"__proto__":{"x":1},"a":2,"1":3,"a":4,"__proto__":5}`},
	// Symbol wrapper objects are ordinary objects for JSON.stringify
	{js: `JSON.stringify({a:Object(Symbol())})`, want: `={"a":{}}`},
	{js: `JSON.stringify([Object(Symbol())])`, want: `=[{}]`},
	{js: `JSON.stringify(Object(Symbol()))`, want: `={}`},
	// indentation after empty containers
	{js: `JSON.stringify([[], [1]], null, 2)`, want: "=[\n  [],\n  [\n    1\n  ]\n]"},
	{js: `JSON.stringify({a:{}, b:{c:1}}, null, 2)`, want: "={\n  \"a\": {},\n  \"b\": {\n    \"c\": 1\n  }\n}"},
	// numeric space beyond int64 / infinite
	{js: `JSON.stringify([1], null, Infinity)`, want: "=[\n          1\n]"},
	{js: `JSON.stringify([1], null, 1e300)`, want: "=[\n          1\n]"},
	{js: `JSON.stringify([1], null, 9223372036854775808)`, want: "=[\n          1\n]"},
	{js: `JSON.stringify([1], null, -Infinity)`, want: "=[1]"},
	// string gap: 10 code units, non-ASCII
	{js: `JSON.stringify([1], null, "ééééééééééé")`, want: "=[\néééééééééé1\n]"},
	{js: `JSON.stringify([1], null, "é")`, want: "=[\né1\n]"},
	{js: `JSON.stringify([1], null, "ああああ")`, want: "=[\nああああ1\n]"},
	// non-terminating serialisation (fresh object per level): bounded by SetMaxCallStackSize, must not overflow the Go stack
	{js: `var o = {toJSON(){ return [o] }}; JSON.stringify(o)`, want: `throw:go:stackoverflow`},
	{js: `JSON.stringify({a:1}, function(k, v){ return typeof v === "number" ? {n: v} : v })`, want: `throw:go:stackoverflow`},
	{js: `Function.prototype.toJSON = function(){ return {f: function(){}} }; JSON.stringify([function(){}])`, want: `throw:go:stackoverflow`},
	// revoked proxies: IsArray throws
	{js: `var p = Proxy.revocable([], {}); p.revoke(); JSON.stringify([p.proxy])`, want: `throw:TypeError`},
	{js: `var p = Proxy.revocable([], {}); p.revoke(); JSON.stringify({}, p.proxy)`, want: `throw:TypeError`},
	{js: `JSON.stringify({get a(){ delete this.b; return 1 }, b: 2, c: 3})`, want: `={"a":1,"c":3}`},
	{js: `JSON.stringify(Object.assign([1, 2], {length: 1}))`, want: `=[1]`},
	// allow-list names keep their code units
	{js: `var o = {}; o["\ud800"] = 1; o.a = 2; JSON.stringify(o, ["\ud800", "a", "\ud800"])`, want: "={\"\\ud800\":1,\"a\":2}"},
	// non-callable revivers are ignored
	{js: `JSON.stringify(JSON.parse('[1]', null))`, want: `=[1]`},
	{js: `JSON.stringify(JSON.parse('[1]', 5))`, want: `=[1]`},
	// ToString of the text argument
	{js: `JSON.stringify(JSON.parse(123))`, want: `=123`},
	{js: `JSON.stringify(JSON.parse(null))`, want: `=null`},
	{js: `JSON.stringify(JSON.parse([1]))`, want: `=1`},
	{js: `JSON.stringify(JSON.parse(new String("[1]")))`, want: `=[1]`},
	{js: `JSON.parse(undefined)`, want: `throw:SyntaxError`},
	{js: `JSON.parse()`, want: `throw:SyntaxError`},
	{js: `JSON.parse({})`, want: `throw:SyntaxError`},
	{js: `JSON.parse(Symbol())`, want: `throw:TypeError`},
	{js: `JSON.stringify()`, want: `undefined`},
	{js: `JSON.stringify(JSON.parse('{"a":[1,2,{"b":3}]}', function(k,v){ return k === "1" ? undefined : v }))`, want: `={"a":[1,null,{"b":3}]}`},
	// known finding (not a small patch): a lone surrogate inside the string gap is emitted as U+FFFD
	{js: `JSON.stringify([1], null, "\ud800")`, want: "=[\n\xed\xa0\x801\n]"},
	{js: `JSON.stringify([1], null, "aaaaaaaaa😀")`, want: "=[\naaaaaaaaa\xed\xa0\xbd1\n]"},
}

// ---------------------------------------------------------------- Check

func Check() *core.Check {
	return &core.Check{
		ID:    "C19",
		Level: "exploration",
		Rule: "case kinds by index: text (grammar-generated JSON text, nesting <= 8, all escape forms, 1-400 digit mantissas, exponents to +-400, legal and illegal white space), " +
			"corrupt (short sample text + every single-edit corruption of it), stringify (value description x 3 (replacer, indent) pairs), roundtrip (JSON-representable value), reviver (text x catalogue reviver); " +
			"oracle = jsonref (hand-written ECMA-404 recogniser + ECMA-262 25.5 model); non-trivial = text nests >= 2 levels or is a corruption sweep, value has >= 2 of {toJSON, replacer, holes, boxed, non-finite}, " +
			"round-trip value nests >= 2 levels, reviver case whose reviver changed the structure or logged >= 3 calls; distinct = distinct text / script",
		Assumptions: []string{
			"texts containing unpaired surrogates (literal or escaped) are judged for acceptance only (documented goja caveat, README 'JSON')",
			"string gaps whose first 10 code units contain an unpaired surrogate are outside the generator's domain (known finding C19-gap-lone-surrogate; two pinned witnesses re-execute it)",
			"numeric literals with more than 20 significant digits may round to either neighbour allowed by RoundMVResult (ECMA-262 12.9.3)",
			"key order of Go map wrappers is unspecified: results containing a multi-key Go map are compared modulo member order (plus an exact re-serialisation check of the engine's own order)",
			"user callbacks come from a fixed catalogue with Go twins (jsonref/catalog.go)",
			"a serialisation that does not terminate (a callback returns a fresh object on every level) must be stopped by the documented recursion guard (SetMaxCallStackSize(400) => StackOverflowError); the model recognises it by its depth bound of 96",
			"property keys that look like identifiers are taken from fixed pools only: of the inherited standard properties the model carries those of Object.prototype and constructor/toString/valueOf/length of the other intrinsic prototypes",
		},
		Cases: func(tier string) int {
			if tier == "thorough" {
				return 1200000
			}
			return 80000
		},
		MinConclusive: func(tier string) int { return 5000 },
		NumPinned:     len(pinned),
		CaseTimeoutS:  120,
		Run:           run,
	}
}

func classOf(idx int) string {
	switch m := idx % 40; {
	case m < 17:
		return "text"
	case m < 18:
		return "corrupt"
	case m < 31:
		return "stringify"
	case m < 35:
		return "roundtrip"
	}
	return "reviver"
}

func run(c *core.Ctx) core.Result {
	if c.Index < 0 {
		return runPinned(c, pinned[-c.Index-1])
	}
	switch classOf(c.Index) {
	case "text":
		return runText(c)
	case "corrupt":
		return runCorrupt(c)
	case "stringify":
		return runStringify(c)
	case "roundtrip":
		return runRoundTrip(c)
	}
	return runReviver(c)
}

func inconclusive(why string) core.Result {
	return core.Result{Verdict: core.Inconclusive, Monitor: why}
}

// ---------------------------------------------------------------- parse monitors

func unitsEqual(a, b []uint16) bool {
	if len(a) != len(b) {
		return false
	}
	for i := range a {
		if a[i] != b[i] {
			return false
		}
	}
	return true
}

func firstDiff(a, b []uint16) int {
	n := len(a)
	if len(b) < n {
		n = len(b)
	}
	for i := 0; i < n; i++ {
		if a[i] != b[i] {
			return i
		}
	}
	return n
}

func showAround(u []uint16, i int) string {
	lo, hi := i-40, i+40
	if lo < 0 {
		lo = 0
	}
	if hi > len(u) {
		hi = len(u)
	}
	return fmt.Sprintf("…%s⟦%s…", jsonref.ShowUnits(u[lo:i]), jsonref.ShowUnits(u[i:hi]))
}

func cmpText(want string, got []uint16) string {
	w := jsonref.Units(want)
	if unitsEqual(w, got) {
		return ""
	}
	i := firstDiff(w, got)
	return fmt.Sprintf("first difference at code unit %d (expected length %d, observed %d)\n  expected: %s\n  observed: %s", i, len(w), len(got), showAround(w, i), showAround(got, i))
}

// gapFor picks the indent used for the stringify(parse(t)) round trip as a function of the text alone.
func gapFor(u []uint16) (goja.Value, jsonref.V, string) {
	switch len(u) % 3 {
	case 0:
		return goja.Undefined(), jsonref.Undefined, "none"
	case 1:
		return intValue(2), jsonref.Num(2), "2"
	}
	return stringValue("\t"), jsonref.Str("\t"), "tab"
}

var theRT = goja.New()

func intValue(n int) goja.Value       { return theRT.ToValue(n) }
func stringValue(s string) goja.Value { return goja.StringFromUTF16(jsonref.Units(s)) }

// checkText runs one text through JSON.parse and all parse monitors.  st may be nil (quiet re-execution).
func checkText(e *eng, st *core.Stats, units []uint16, src string, roundTrip bool) (v *viol, pr *jsonref.ParseResult, incon string) {
	pr = jsonref.Parse(units)
	o := e.call(e.parse, goja.StringFromUTF16(units))
	rec := caseRec{Kind: "parse", Text: jsonref.ShowUnits(units)}
	fail := func(mon, detail string) (*viol, *jsonref.ParseResult, string) {
		return &viol{monitor: mon, detail: detail, rec: rec}, pr, ""
	}
	switch {
	case o.crash != "":
		return fail("parse-crash", o.crash)
	case o.incon != "":
		return nil, pr, o.incon
	}
	if st != nil {
		if pr.OK {
			st.Inc("texts_accepted")
			st.Inc("texts_accepted:" + src)
		} else {
			st.Inc("texts_rejected")
			st.Inc("texts_rejected:" + src)
		}
	}
	if !pr.OK {
		switch {
		case o.thrown == "":
			d, _ := e.dump(o.val)
			return fail("parse-accepts-invalid", fmt.Sprintf("the text is not a JSON text (%s) but JSON.parse returned a value: %s", pr.Err, jsonref.ShowToks(d, 0)))
		case o.thrown != "SyntaxError":
			return fail("parse-error-class", fmt.Sprintf("invalid JSON text (%s): expected SyntaxError, observed %s (%s)", pr.Err, o.thrown, o.errText))
		}
		return nil, pr, ""
	}
	if o.thrown != "" {
		return fail("parse-rejects-valid", fmt.Sprintf("valid JSON text rejected with %s (%s)", o.thrown, o.errText))
	}
	if pr.LoneSurrogate {
		if st != nil {
			st.Inc("texts_lone_surrogate_acceptance_only")
		}
		return nil, pr, ""
	}
	toks, do := e.dump(o.val)
	switch {
	case do.crash != "":
		return fail("parse-crash", "while walking the result: "+do.crash)
	case do.incon != "" || do.thrown != "":
		return nil, pr, "walker:" + do.incon + do.thrown
	}
	model := jsonref.Dump(&pr.Val)
	if st != nil {
		st.Inc("structure_dumps_compared")
		st.Count("dump_tokens_compared", int64(len(model)))
	}
	if d := jsonref.MatchDump(model, toks); d != "" {
		return fail("parse-structure", "parsed structure differs from the model: "+d)
	}
	if roundTrip {
		gv, gm, gname := gapFor(units)
		want := jsonref.NewRealm().Stringify(pr.Val, jsonref.Undefined, gm)
		so := e.call(e.stringify, o.val, goja.Undefined(), gv)
		switch {
		case so.crash != "":
			return fail("stringify-crash", so.crash)
		case so.incon != "":
			return nil, pr, so.incon
		case so.thrown != "":
			return fail("roundtrip-canonical", "stringify(parse(t)) threw "+so.thrown+" ("+so.errText+")")
		}
		got, ok := strUnits(so.val)
		if !ok {
			return fail("roundtrip-canonical", fmt.Sprintf("stringify(parse(t)) returned a non-string: %v", so.val))
		}
		if st != nil {
			st.Inc("roundtrips:stringify(parse(t))")
			st.Inc("roundtrips:stringify(parse(t)):indent=" + gname)
		}
		if d := cmpText(want.Text, got); d != "" {
			return fail("roundtrip-canonical", "stringify(parse(t), null, "+gname+") is not the canonical form of t: "+d)
		}
	}
	return nil, pr, ""
}

func recordFeatures(st *core.Stats, pr *jsonref.ParseResult) {
	for k, n := range pr.Feat {
		st.Count("feat:"+k, int64(n))
		switch {
		case strings.HasPrefix(k, "esc:"):
			st.SetAdd("escape_forms_seen", k[4:])
		case strings.HasPrefix(k, "num:"):
			st.SetAdd("number_shapes_seen", k[4:])
		case strings.HasPrefix(k, "ws:"):
			st.SetAdd("whitespace_placements_seen", k[3:])
		}
	}
	st.Max("max_nesting", int64(pr.Depth))
	st.Max("max_text_nodes", int64(pr.Nodes))
}

func minimizeText(units []uint16, monitor string, budget int) []uint16 {
	still := func(cand []uint16) bool {
		if budget <= 0 {
			return false
		}
		budget--
		e := newEng(false)
		if e.problem != "" {
			return false
		}
		v, _, _ := checkText(e, nil, cand, "min", true)
		return v != nil && v.monitor == monitor
	}
	cur := units
	for progress := true; progress && budget > 0; {
		progress = false
		// token spans first, then single units
		for _, t := range jsonref.Tokens(cur) {
			if t.End-t.Start < 2 {
				continue
			}
			cand := splice(cur, t.Start, t.End, nil)
			if still(cand) {
				cur, progress = cand, true
				break
			}
		}
		if progress {
			continue
		}
		for i := 0; i < len(cur); i++ {
			cand := splice(cur, i, i+1, nil)
			if still(cand) {
				cur, progress = cand, true
				break
			}
		}
	}
	return cur
}

// minimisations counts the violations this worker process has already minimised.  A healthy tree produces none; on a
// broken tree thousands of cases fail for the same reason, and only the first few per worker are worth the bounded
// re-execution budget (the verdict of a case never depends on this, only the size of the reported witness).
var minimisations int

const maxMinimisations = 10

func mayMinimise(c *core.Ctx) bool {
	if c.Index < 0 {
		return false
	}
	if c.Replay {
		return true
	}
	minimisations++
	return minimisations <= maxMinimisations
}

func textViolation(c *core.Ctx, v *viol, units []uint16) core.Result {
	min := units
	if mayMinimise(c) {
		min = minimizeText(units, v.monitor, 200)
	}
	if !unitsEqual(min, units) {
		e := newEng(false)
		if v2, _, _ := checkText(e, nil, min, "min", true); v2 != nil && v2.monitor == v.monitor {
			v2.detail += "\n(minimised from: " + core.Trunc(jsonref.ShowUnits(units), 400) + ")"
			v2.rec.Base, v2.rec.Edit = v.rec.Base, v.rec.Edit
			v = v2
		}
	}
	v.sig = v.monitor + ":" + jsonref.ShowUnits(min)
	return v.result(jsonref.ShowUnits(units))
}

func runText(c *core.Ctx) core.Result {
	units := genText(c.Rng, "grammar")
	if c.Replay {
		fmt.Printf("--- text ---\n%s\n", jsonref.ShowUnits(units))
	}
	e := newEng(false)
	if e.problem != "" {
		return inconclusive(e.problem)
	}
	v, pr, incon := checkText(e, c.Stats, units, "grammar", true)
	if incon != "" {
		return inconclusive(incon)
	}
	if v != nil {
		return textViolation(c, v, units)
	}
	recordFeatures(c.Stats, pr)
	if !pr.OK {
		for _, w := range illegalWS {
			for _, x := range units {
				if x == w {
					c.Stats.Inc("rejected_text_contains:" + illegalWSName[w])
					break
				}
			}
		}
	}
	if c.Stats.WantSample() && c.Index%997 == 0 {
		c.Stats.Sample(map[string]any{"kind": "text", "text": core.Trunc(jsonref.ShowUnits(units), 300), "accepted": pr.OK})
	}
	return core.Result{Verdict: core.Held, NonTrivial: pr.Depth >= 2, Key: "t:" + jsonref.ShowUnits(units)}
}

func runCorrupt(c *core.Ctx) core.Result {
	base := genText(c.Rng, "sample")
	for tries := 0; tries < 20 && (len(base) > 48 || !jsonref.Parse(base).OK); tries++ {
		base = genText(c.Rng, "sample")
	}
	if c.Replay {
		fmt.Printf("--- base ---\n%s\n", jsonref.ShowUnits(base))
	}
	e := newEng(false)
	if e.problem != "" {
		return inconclusive(e.problem)
	}
	v, pr, incon := checkText(e, c.Stats, base, "corruption-base", true)
	if incon != "" {
		return inconclusive(incon)
	}
	if v != nil {
		return textViolation(c, v, base)
	}
	recordFeatures(c.Stats, pr)
	var bad *viol
	var badText []uint16
	n := 0
	eachCorruption(base, func(kind string, text []uint16) bool {
		n++
		if n%4096 == 0 {
			e = newEng(false) // fresh fuel
		}
		v, pr, incon := checkText(e, c.Stats, text, "corruption", n%8 == 0)
		if incon != "" {
			c.Stats.Inc("corruption_inconclusive:" + incon)
			return true
		}
		if pr.OK {
			c.Stats.Inc("corruption:" + kind + ":still-valid")
		} else {
			c.Stats.Inc("corruption:" + kind + ":invalid")
		}
		if v != nil {
			v.rec.Base, v.rec.Edit = jsonref.ShowUnits(base), kind
			bad, badText = v, text
			return false
		}
		return true
	})
	c.Stats.Inc("corruption_sweeps")
	c.Stats.Max("max_corruptions_per_sweep", int64(n))
	if bad != nil {
		return textViolation(c, bad, badText)
	}
	if c.Stats.WantSample() && c.Index%1999 == 0 {
		c.Stats.Sample(map[string]any{"kind": "corrupt", "base": jsonref.ShowUnits(base), "corruptions": n})
	}
	return core.Result{Verdict: core.Held, NonTrivial: true, Key: "c:" + jsonref.ShowUnits(base)}
}

// ---------------------------------------------------------------- stringify monitors

func describeResult(r jsonref.StringifyResult) string {
	switch {
	case r.Err != nil:
		return "throw:" + r.Err.(*jsonref.Throw).Ctor
	case r.Undefined:
		return "undefined"
	}
	return "=" + jsonref.Show(r.Text)
}

func describeOut(o out) string {
	switch {
	case o.thrown != "":
		return "throw:" + o.thrown + " (" + o.errText + ")"
	case o.val == nil || goja.IsUndefined(o.val):
		return "undefined"
	}
	if u, ok := strUnits(o.val); ok {
		return "=" + jsonref.ShowUnits(u)
	}
	return fmt.Sprintf("non-string %T", o.val)
}

// unordered reports whether the description contains a Go map with more than one key.
func (d *Desc) unordered() bool {
	for _, n := range d.Nodes {
		if n.Kind == "gomap" && len(n.Props) > 1 {
			return true
		}
	}
	return false
}

func (d *Desc) hasPropertyList() bool {
	if d.Repl.T != "ref" {
		return false
	}
	n := d.Nodes[d.Repl.Ref]
	return n.Kind == "arr" || n.Kind == "proxy"
}

func sortMembers(v jsonref.V) {
	if v.K != jsonref.KObject {
		return
	}
	for i := range v.O.Elems {
		sortMembers(v.O.Elems[i])
	}
	sort.SliceStable(v.O.Props, func(i, j int) bool { return v.O.Props[i].Key < v.O.Props[j].Key })
	for _, p := range v.O.Props {
		sortMembers(p.Val)
	}
}

// canonSorted parses a JSON text and re-serialises it compactly with sorted members.
func canonSorted(u []uint16) (string, bool) {
	pr := jsonref.Parse(u)
	if !pr.OK {
		return "", false
	}
	sortMembers(pr.Val)
	return jsonref.NewRealm().Stringify(pr.Val, jsonref.Undefined, jsonref.Undefined).Text, true
}

// compareOutcome compares the engine outcome of a stringify call with the model's.
func compareOutcome(d *Desc, want jsonref.StringifyResult, o out, space func() jsonref.V) string {
	switch {
	case want.Err != nil:
		if o.thrown != want.Err.(*jsonref.Throw).Ctor {
			return fmt.Sprintf("expected %s, observed %s", describeResult(want), describeOut(o))
		}
		return ""
	case o.thrown != "":
		return fmt.Sprintf("expected %s, observed %s", core.Trunc(describeResult(want), 600), describeOut(o))
	case want.Undefined:
		if o.val != nil && !goja.IsUndefined(o.val) {
			return fmt.Sprintf("expected undefined, observed %s", core.Trunc(describeOut(o), 600))
		}
		return ""
	}
	got, ok := strUnits(o.val)
	if !ok {
		return fmt.Sprintf("expected %s, observed %s", core.Trunc(describeResult(want), 600), describeOut(o))
	}
	if !d.unordered() {
		return cmpText(want.Text, got)
	}
	// Go map member order is unspecified: compare modulo member order …
	cw, ok1 := canonSorted(jsonref.Units(want.Text))
	cg, ok2 := canonSorted(got)
	if !ok1 || !ok2 {
		return fmt.Sprintf("result is not a JSON text (model parses: %v, engine parses: %v)\n  expected: %s\n  observed: %s", ok1, ok2, core.Trunc(jsonref.Show(want.Text), 600), core.Trunc(jsonref.ShowUnits(got), 600))
	}
	if cw != cg {
		return "modulo Go-map member order: " + cmpText(cw, jsonref.Units(cg))
	}
	// … and the engine's text must be exactly the serialisation of its own member order (quoting, indentation)
	if !d.hasPropertyList() {
		pr := jsonref.Parse(got)
		again := jsonref.NewRealm().Stringify(pr.Val, jsonref.Undefined, space())
		if dd := cmpText(again.Text, got); dd != "" {
			return "re-serialising the engine's own structure with the same indent: " + dd
		}
	}
	return ""
}

// evalDesc executes one stringify case in a fresh engine and compares with the model.
func evalDesc(d *Desc, st *core.Stats, marshal bool) (*viol, string) {
	js := d.JS()
	rec := caseRec{Kind: "stringify", JS: js, Call: "JSON.stringify(V, R, S)"}
	fail := func(mon, detail string) (*viol, string) {
		return &viol{monitor: mon, detail: detail, rec: rec}, ""
	}
	rt, mv, mr, ms := d.Model()
	want := rt.Stringify(mv, mr, ms)
	divergent := want.Err == jsonref.ErrTooDeep

	e := newEng(true)
	if e.problem != "" {
		return nil, e.problem
	}
	for _, n := range d.Nodes {
		if strings.HasPrefix(n.Kind, "go") && !n.GoNested {
			gv := d.GoValue(n.ID)
			if o := e.classify(gj.Call(func() (goja.Value, error) { return nil, e.r.Set(fmt.Sprintf("G%d", n.ID), gv) })); o.crash != "" || o.thrown != "" {
				return fail("go-wrapper-setup", "Runtime.Set of a Go value failed: "+o.crash+o.thrown)
			}
		}
	}
	if o := e.run(js); o.crash != "" {
		return fail("stringify-crash", "while building the value: "+o.crash)
	} else if o.incon != "" {
		return nil, o.incon
	} else if o.thrown != "" {
		return fail("build-script", "the script that builds the value threw "+o.thrown+" ("+o.errText+")")
	}
	V, R, S := e.global("V"), e.global("R"), e.global("S")
	o := e.call(e.stringify, V, R, S)
	switch {
	case o.crash != "":
		return fail("stringify-crash", o.crash)
	case o.incon != "":
		return nil, o.incon
	}
	if divergent {
		// The serialisation does not terminate (a callback creates a fresh object on every level, so the cycle check never
		// fires).  The engine must end it with its documented recursion guard (SetMaxCallStackSize ⇒ StackOverflowError),
		// not by exhausting the Go stack (which would kill this worker and be reported as process death).
		if st != nil {
			st.Inc("divergent_serialisations_stopped_by_stack_guard")
		}
		if o.thrown != "go:stackoverflow" {
			return fail("stringify-divergent", "non-terminating serialisation: expected StackOverflowError (SetMaxCallStackSize), observed "+describeOut(o))
		}
		return nil, ""
	}
	if st != nil {
		st.Inc("stringify_evaluations")
		res := describeResult(want)
		if strings.HasPrefix(res, "=") {
			res = "text"
		}
		st.Inc("stringify_result:" + res)
	}
	spaceAgain := func() jsonref.V { _, _, _, s := d.Model(); return s }
	if dd := compareOutcome(d, want, o, spaceAgain); dd != "" {
		rec.Expected, rec.Observed = describeResult(want), describeOut(o)
		return fail("stringify-text", "JSON.stringify(V, R, S) differs from the model: "+dd)
	}
	// callback log (order and arguments of replacer / toJSON calls)
	if len(rt.Log) > 0 || st != nil {
		if !d.unordered() {
			toks, do := e.dump(e.global("LOG"))
			if do.crash != "" {
				return fail("stringify-crash", do.crash)
			}
			if do.incon == "" && do.thrown == "" {
				logArr := jsonref.ObjV(rt.NewArray(rt.Log...))
				if dd := jsonref.MatchDump(jsonref.Dump(&logArr), toks); dd != "" {
					return fail("stringify-callback-log", "sequence of (key, typeof value, holder kind) seen by the callbacks differs from the model: "+dd)
				}
				if st != nil && len(rt.Log) > 0 {
					st.Inc("callback_logs_compared")
					st.Count("callback_log_entries", int64(len(rt.Log)))
				}
			}
		}
	}
	// Object.MarshalJSON() ≡ JSON.stringify(o)
	if obj, isObj := V.(*goja.Object); isObj && marshal {
		e2 := e
		rt2, mv2, _, _ := d.Model()
		want2 := rt2.Stringify(mv2, jsonref.Undefined, jsonref.Undefined)
		if want2.Err == jsonref.ErrTooDeep {
			return nil, ""
		}
		var bytes []byte
		mo := e2.classify(gj.Call(func() (goja.Value, error) {
			b, err := obj.MarshalJSON()
			bytes = b
			return nil, err
		}))
		switch {
		case mo.crash != "":
			return fail("marshaljson-crash", mo.crash)
		case mo.incon != "":
			return nil, ""
		}
		if st != nil {
			st.Inc("marshaljson_compared")
		}
		rec.Call = "V.MarshalJSON()"
		if want2.Undefined {
			want2 = jsonref.StringifyResult{Text: "null"}
		}
		if mo.thrown == "" {
			if !utf8.Valid(bytes) {
				return fail("marshaljson", "MarshalJSON returned invalid UTF-8: "+fmt.Sprintf("%q", core.Trunc(string(bytes), 300)))
			}
			mo.val = goja.StringFromUTF16(utf16.Encode([]rune(string(bytes))))
		}
		if dd := compareOutcome(d, want2, mo, func() jsonref.V { return jsonref.Undefined }); dd != "" {
			return fail("marshaljson", "Object.MarshalJSON() differs from JSON.stringify(V) of the model: "+dd)
		}
	}
	return nil, ""
}

func minimizeDesc(d *Desc, monitor string, marshal bool, budget int) *Desc {
	still := func(c *Desc) bool {
		if budget <= 0 {
			return false
		}
		budget--
		var v *viol
		func() {
			defer func() {
				if recover() != nil {
					v = nil // the candidate left the description language
				}
			}()
			v, _ = evalDesc(c, nil, marshal)
		}()
		return v != nil && v.monitor == monitor
	}
	cur := d
	try := func(mut func(c *Desc) bool) bool {
		c := cur.clone()
		if !mut(c) {
			return false
		}
		if still(c) {
			cur = c
			return true
		}
		return false
	}
	cur = cur.compact()
	try(func(c *Desc) bool { c.Repl = DV{T: "undef"}; return d.Repl.T != "undef" })
	try(func(c *Desc) bool { c.Space = DV{T: "undef"}; return d.Space.T != "undef" })
	try(func(c *Desc) bool { c.Patches = nil; return len(d.Patches) > 0 })
	for progress := true; progress && budget > 0; {
		progress = false
		// make a child the root
		for _, n := range cur.Nodes {
			if n.GoNested || cur.Root.T == "ref" && cur.Root.Ref == n.ID {
				continue
			}
			id := n.ID
			if try(func(c *Desc) bool { c.Root = dRef(id); return true }) {
				progress = true
				break
			}
		}
		cur = cur.compact()
		// replace a container-valued slot by null
		for ni := 0; ni < len(cur.Nodes) && !progress; ni++ {
			if k := cur.Nodes[ni].Kind; k == "gostruct" || k == "goslice" {
				continue
			}
			for pi := range cur.Nodes[ni].Props {
				if cur.Nodes[ni].Props[pi].Val.T != "ref" {
					continue
				}
				a, b := ni, pi
				if try(func(c *Desc) bool { c.Nodes[a].Props[b].Val = DV{T: "null"}; return true }) {
					progress = true
					break
				}
			}
		}
		cur = cur.compact()
		for ni := len(cur.Nodes) - 1; ni >= 0 && !progress; ni-- {
			if cur.Nodes[ni].Kind == "gostruct" {
				continue
			}
			for pi := len(cur.Nodes[ni].Props) - 1; pi >= 0; pi-- {
				a, b := ni, pi
				if try(func(c *Desc) bool {
					n := c.Nodes[a]
					n.Props = append(n.Props[:b:b], n.Props[b+1:]...)
					if n.Kind == "goslice" {
						return false
					}
					return true
				}) {
					progress = true
					break
				}
			}
		}
	}
	return cur.compact()
}

func descViolation(c *core.Ctx, v *viol, d *Desc, marshal bool) core.Result {
	key := v.rec.JS
	min := d
	if mayMinimise(c) {
		min = minimizeDesc(d, v.monitor, marshal, 200)
	}
	if min != d {
		if v2, _ := evalDesc(min, nil, marshal); v2 != nil && v2.monitor == v.monitor {
			v2.detail += "\nminimised script:\n" + stripHelper(v2.rec.JS) + "(original script:\n" + core.Trunc(stripHelper(v.rec.JS), 1200) + ")"
			v = v2
		}
	}
	v.sig = v.monitor + ":" + stripHelper(v.rec.JS)
	return v.result(key)
}

func stripHelper(js string) string { return strings.TrimPrefix(js, helperJS) }

func runStringify(c *core.Ctx) core.Result {
	base, _, _ := genDesc(c.Rng)
	res := core.Result{Verdict: core.Held}
	for k := 0; k < 3; k++ {
		d := base.clone()
		d.Repl, d.Space = DV{T: "undef"}, DV{T: "undef"}
		g := &valGen{r: c.Rng, d: d}
		var keys []string
		for _, n := range d.Nodes {
			if n.Kind == "obj" || n.Kind == "gomap" {
				for _, p := range n.Props {
					if p.Kind != pSymbol {
						keys = append(keys, p.Key)
					}
				}
			}
		}
		var rc, sc string
		d.Repl, rc = g.genReplacer(keys)
		g.wsGap = d.unordered() // results compared modulo member order must stay parseable: white-space gaps only
		d.Space, sc = g.genSpace()
		marshal := (c.Index+k)%2 == 0
		if c.Replay {
			fmt.Printf("--- script %d (replacer %s, indent %s) ---\n%s", k, rc, sc, d.JS())
		}
		v, incon := evalDesc(d, c.Stats, marshal)
		if incon != "" {
			return inconclusive(incon)
		}
		if v != nil {
			return descViolation(c, v, d, marshal)
		}
		c.Stats.SetAdd("replacer_x_indent", replClass(rc)+" x "+indentClass(sc))
		c.Stats.Inc("replacer:" + replClass(rc))
		c.Stats.Inc("indent:" + indentClass(sc))
		c.Stats.SetAdd("replacer_functions_used", rc)
		c.Stats.SetAdd("indent_forms_used", sc)
		f := d.features()
		nf := 0
		for _, k := range []string{"toJSON", "replacer", "holes", "boxed", "non-finite"} {
			if f[k] {
				nf++
			}
		}
		for k := range f {
			c.Stats.Inc("value_feature:" + k)
		}
		if d.unordered() {
			c.Stats.Inc("compared_modulo_gomap_order")
		}
		if nf >= 2 {
			res.NonTrivial = true
		}
		if k == 0 {
			res.Key = "s:" + d.JS()
		}
		if c.Stats.WantSample() && c.Index%1013 == 0 && k == 0 {
			_, mv, mr, ms := d.Model()
			c.Stats.Sample(map[string]any{"kind": "stringify", "script": core.Trunc(stripHelper(d.JS()), 700), "expected": core.Trunc(describeResult(jsonref.NewRealm().Stringify(mv, mr, ms)), 300)})
		}
	}
	return res
}

func replClass(rc string) string {
	if strings.HasPrefix(rc, "fn:") {
		return "function"
	}
	return rc
}

func indentClass(sc string) string {
	if strings.HasPrefix(sc, "string:") || strings.HasPrefix(sc, "int:") {
		return sc
	}
	return sc
}

// ---------------------------------------------------------------- round trip of JSON-representable values

func depthOf(d *Desc, v DV, seen int) int {
	if v.T != "ref" || seen > 20 {
		return 0
	}
	m := 0
	for _, p := range d.Nodes[v.Ref].Props {
		if x := depthOf(d, p.Val, seen+1); x > m {
			m = x
		}
	}
	return m + 1
}

func evalRoundTrip(d *Desc, st *core.Stats) (*viol, string) {
	js := d.JS()
	rec := caseRec{Kind: "roundtrip", JS: js, Call: "JSON.parse(JSON.stringify(V, null, S))"}
	fail := func(mon, detail string) (*viol, string) {
		return &viol{monitor: mon, detail: detail, rec: rec}, ""
	}
	rt, mv, _, ms := d.Model()
	want := rt.Stringify(mv, jsonref.Undefined, ms)
	e := newEng(true)
	if e.problem != "" {
		return nil, e.problem
	}
	if o := e.run(js); o.crash != "" {
		return fail("stringify-crash", o.crash)
	} else if o.incon != "" {
		return nil, o.incon
	} else if o.thrown != "" {
		return fail("build-script", "the script that builds the value threw "+o.thrown+" ("+o.errText+")")
	}
	V, S := e.global("V"), e.global("S")
	so := e.call(e.stringify, V, goja.Undefined(), S)
	if so.crash != "" {
		return fail("stringify-crash", so.crash)
	} else if so.incon != "" {
		return nil, so.incon
	}
	if dd := compareOutcome(d, want, so, func() jsonref.V { return ms }); dd != "" {
		return fail("stringify-text", "JSON.stringify(V, null, S) differs from the model: "+dd)
	}
	if want.Undefined || want.Err != nil {
		return nil, ""
	}
	po := e.call(e.parse, so.val)
	switch {
	case po.crash != "":
		return fail("parse-crash", po.crash)
	case po.incon != "":
		return nil, po.incon
	case po.thrown != "":
		return fail("roundtrip-value", "JSON.parse(JSON.stringify(v)) threw "+po.thrown+" ("+po.errText+") for text "+core.Trunc(describeOut(so), 500))
	}
	toks, do := e.dump(po.val)
	if do.crash != "" {
		return fail("parse-crash", do.crash)
	} else if do.incon != "" || do.thrown != "" {
		return nil, "walker"
	}
	if st != nil {
		st.Inc("roundtrips:parse(stringify(v))")
		st.Count("dump_tokens_compared", int64(len(toks)))
	}
	if dd := jsonref.MatchDump(jsonref.Dump(&mv), toks); dd != "" {
		return fail("roundtrip-value", "parse(stringify(v)) is not structurally equal to v: "+dd)
	}
	if obj, ok := V.(*goja.Object); ok {
		var bytes []byte
		mo := e.classify(gj.Call(func() (goja.Value, error) {
			b, err := obj.MarshalJSON()
			bytes = b
			return nil, err
		}))
		if mo.crash != "" {
			return fail("marshaljson-crash", mo.crash)
		}
		if mo.incon == "" {
			rt2, mv2, _, _ := d.Model()
			want2 := rt2.Stringify(mv2, jsonref.Undefined, jsonref.Undefined)
			if mo.thrown == "" {
				if !utf8.Valid(bytes) {
					return fail("marshaljson", "MarshalJSON returned invalid UTF-8")
				}
				mo.val = goja.StringFromUTF16(utf16.Encode([]rune(string(bytes))))
			}
			rec.Call = "V.MarshalJSON()"
			if st != nil {
				st.Inc("marshaljson_compared")
			}
			if dd := compareOutcome(d, want2, mo, func() jsonref.V { return jsonref.Undefined }); dd != "" {
				return fail("marshaljson", "Object.MarshalJSON() differs from JSON.stringify(V) of the model: "+dd)
			}
		}
	}
	return nil, ""
}

func runRoundTrip(c *core.Ctx) core.Result {
	d, sc := genPlainDesc(c.Rng)
	if c.Replay {
		fmt.Printf("--- script (indent %s) ---\n%s", sc, d.JS())
	}
	v, incon := evalRoundTrip(d, c.Stats)
	if incon != "" {
		return inconclusive(incon)
	}
	if v != nil {
		v.sig = v.monitor + ":" + stripHelper(v.rec.JS)
		return v.result(v.rec.JS)
	}
	c.Stats.Inc("roundtrip_indent:" + sc)
	return core.Result{Verdict: core.Held, NonTrivial: depthOf(d, d.Root, 0) >= 2, Key: "r:" + d.JS()}
}

// ---------------------------------------------------------------- revivers

var reviverFns = []string{"RV_identity", "RV_del_odd", "RV_neg", "RV_inc", "RV_del_sibling_b", "RV_add_z", "RV_set_next", "RV_truncate", "RV_wrap_r", "RV_wrap_root", "RV_undef_root", "RV_log", "RV_throw", "RV_del_self", "RV_drop_prims", "RV_str_len", "RV_keys"}
var nonCallableRevivers = []string{"null", "5", `"s"`, "({})", "[]", "true", "Symbol()", "({call: F.RV_neg})"}

func evalReviver(units []uint16, reviver string, st *core.Stats) (*viol, *jsonref.ParseResult, bool, string) {
	rec := caseRec{Kind: "reviver", Text: jsonref.ShowUnits(units), Reviver: reviver, Call: "JSON.parse(text, reviver)"}
	fail := func(mon, detail string) (*viol, *jsonref.ParseResult, bool, string) {
		return &viol{monitor: mon, detail: detail, rec: rec}, nil, true, ""
	}
	rt := jsonref.NewRealm()
	mrev := jsonref.Null
	callable := strings.HasPrefix(reviver, "RV_")
	if callable {
		mrev = jsonref.ObjV(rt.FnObj(reviver))
	}
	plain := jsonref.Parse(units)
	before := ""
	if plain.OK {
		before = fmt.Sprint(jsonref.Dump(&plain.Val))
	}
	mval, pr, merr := rt.ParseWithReviver(units, mrev)
	e := newEng(true)
	if e.problem != "" {
		return nil, pr, false, e.problem
	}
	expr := reviver
	if callable {
		expr = "F." + reviver
	}
	ro := e.run(expr)
	if ro.crash != "" || ro.thrown != "" || ro.incon != "" {
		return nil, pr, false, "reviver-setup:" + ro.crash + ro.thrown + ro.incon
	}
	o := e.call(e.parse, goja.StringFromUTF16(units), ro.val)
	switch {
	case o.crash != "":
		return fail("parse-crash", o.crash)
	case o.incon != "":
		return nil, pr, false, o.incon
	}
	if st != nil {
		st.Inc("reviver_evaluations")
		st.Inc("reviver:" + reviver)
	}
	if merr != nil {
		want := merr.(*jsonref.Throw).Ctor
		if o.thrown != want {
			return fail("reviver-result", fmt.Sprintf("expected %s to be thrown, observed %s", want, describeOutAny(e, o)))
		}
		return nil, pr, false, ""
	}
	if o.thrown != "" {
		return fail("reviver-result", fmt.Sprintf("expected a value, observed throw:%s (%s)", o.thrown, o.errText))
	}
	if pr.LoneSurrogate || pr.Feat["num:two-admissible-roundings"] > 0 {
		return nil, pr, false, ""
	}
	toks, do := e.dump(o.val)
	if do.crash != "" {
		return fail("parse-crash", do.crash)
	} else if do.incon != "" || do.thrown != "" {
		return nil, pr, false, "walker"
	}
	md := jsonref.Dump(&mval)
	if st != nil {
		st.Count("dump_tokens_compared", int64(len(md)))
	}
	if dd := jsonref.MatchDump(md, toks); dd != "" {
		return fail("reviver-result", "JSON.parse(text, reviver) differs from the model: "+dd)
	}
	ltoks, lo := e.dump(e.global("LOG"))
	if lo.crash == "" && lo.incon == "" && lo.thrown == "" {
		logArr := jsonref.ObjV(rt.NewArray(rt.Log...))
		if dd := jsonref.MatchDump(jsonref.Dump(&logArr), ltoks); dd != "" {
			return fail("reviver-call-log", "sequence of reviver calls (key, typeof value, holder kind) differs from the model: "+dd)
		}
		if st != nil && len(rt.Log) > 0 {
			st.Inc("callback_logs_compared")
			st.Count("callback_log_entries", int64(len(rt.Log)))
		}
	}
	changed := callable && (fmt.Sprint(md) != before || len(rt.Log) >= 9)
	return nil, pr, changed, ""
}

func describeOutAny(e *eng, o out) string {
	if o.thrown != "" {
		return "throw:" + o.thrown + " (" + o.errText + ")"
	}
	d, _ := e.dump(o.val)
	return "value " + jsonref.ShowToks(d, 0)
}

func runReviver(c *core.Ctx) core.Result {
	units := genText(c.Rng, "reviver")
	var reviver string
	if c.Rng.Chance(1, 8) {
		reviver = core.Pick(c.Rng, nonCallableRevivers)
	} else {
		reviver = core.Pick(c.Rng, reviverFns)
	}
	if c.Replay {
		fmt.Printf("--- text ---\n%s\n--- reviver %s ---\n", jsonref.ShowUnits(units), reviver)
	}
	v, _, changed, incon := evalReviver(units, reviver, c.Stats)
	if incon != "" {
		return inconclusive(incon)
	}
	key := "v:" + reviver + ":" + jsonref.ShowUnits(units)
	if v != nil {
		// minimise the text under the same reviver
		min := units
		budget := 200
		if !mayMinimise(c) {
			budget = 0
		}
		for progress := true; progress && budget > 0; {
			progress = false
			for i := 0; i < len(min) && budget > 0; i++ {
				cand := splice(min, i, i+1, nil)
				budget--
				if v2, _, _, _ := evalReviver(cand, reviver, nil); v2 != nil && v2.monitor == v.monitor {
					min, v, progress = cand, v2, true
					break
				}
			}
		}
		v.sig = v.monitor + ":" + reviver + ":" + jsonref.ShowUnits(min)
		return v.result(key)
	}
	if changed {
		c.Stats.Inc("reviver_changed_structure_or_logged")
	}
	return core.Result{Verdict: core.Held, NonTrivial: changed, Key: key}
}

// ---------------------------------------------------------------- pinned witnesses

func runPinned(c *core.Ctx, p pin) core.Result {
	if p.text != "" {
		units := jsonref.Units(p.text)
		e := newEng(false)
		if e.problem != "" {
			return inconclusive(e.problem)
		}
		v, pr, incon := checkText(e, c.Stats, units, "pinned", true)
		if incon != "" {
			return inconclusive(incon)
		}
		if v != nil {
			v.sig = "pin:" + p.text
			return v.result("pin:" + p.text)
		}
		recordFeatures(c.Stats, pr)
		return core.Result{Verdict: core.Held, NonTrivial: true, Key: "pin:" + p.text}
	}
	e := newEng(true)
	if e.problem != "" {
		return inconclusive(e.problem)
	}
	o := e.run(p.js)
	rec := caseRec{Kind: "pinned", JS: p.js}
	var detail string
	switch {
	case o.crash != "":
		detail = o.crash
	case o.incon != "":
		return inconclusive(o.incon)
	case strings.HasPrefix(p.want, "throw:"):
		if o.thrown != p.want[6:] {
			detail = fmt.Sprintf("expected %s, observed %s", p.want, describeOut(o))
		}
	case p.want == "undefined":
		if o.thrown != "" || !goja.IsUndefined(o.val) {
			detail = fmt.Sprintf("expected undefined, observed %s", describeOut(o))
		}
	default:
		got, ok := strUnits(o.val)
		if o.thrown != "" || !ok {
			detail = fmt.Sprintf("expected =%s, observed %s", jsonref.Show(p.want[1:]), describeOut(o))
		} else if dd := cmpText(p.want[1:], got); dd != "" {
			detail = dd
		}
	}
	c.Stats.Inc("pinned_js_witnesses_run")
	if detail != "" {
		v := &viol{monitor: "pinned-witness", detail: p.js + ": " + detail, sig: "pin:" + p.js, rec: rec}
		return v.result("pin:" + p.js)
	}
	return core.Result{Verdict: core.Held, NonTrivial: true, Key: "pin:" + p.js}
}
