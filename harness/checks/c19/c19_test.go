package c19

import (
	"testing"
	"time"

	"verif/harness/core"
)

// TestClassCost runs a slice of every case class in-process and reports cost and verdicts (development aid).
func TestClassCost(t *testing.T) {
	per := map[string]time.Duration{}
	cnt := map[string]int{}
	st := core.NewStats()
	for idx := 0; idx < 1200; idx++ {
		cl := classOf(idx)
		c := &core.Ctx{Property: "C19", Tier: "quick", Seed: 1, Index: idx, Rng: core.CaseRng(1, "C19", idx), Stats: st}
		t0 := time.Now()
		res := run(c)
		per[cl] += time.Since(t0)
		cnt[cl]++
		if res.Verdict == core.Violated {
			t.Logf("case %d (%s) violated: %s\n%s", idx, cl, res.Monitor, core.Trunc(res.Detail, 1200))
		}
	}
	for cl, d := range per {
		t.Logf("%-10s %5d cases  %8.2f ms/case", cl, cnt[cl], float64(d.Microseconds())/1000/float64(cnt[cl]))
	}
	t.Logf("texts accepted=%d rejected=%d sweeps=%d stringify=%d", st.Counters["texts_accepted"], st.Counters["texts_rejected"], st.Counters["corruption_sweeps"], st.Counters["stringify_evaluations"])
}
