package c19

import (
	"math/big"
	"strings"

	"verif/harness/core"
)

// textGen produces JSON texts (UTF-16 code units) from the ECMA-404 grammar with deliberate exotic choices.  It is only a
// workload generator: whether a produced text is valid is decided by the jsonref recogniser, never by the generator.
type textGen struct {
	r        *core.Rng
	b        []uint16
	maxDepth int
	budget   int  // remaining value nodes
	wsMode   int  // 0 none, 1 sparse, 2 heavy
	lone     bool // may emit lone surrogates (documented goja exception: acceptance only)
	badWS    int  // emit one illegal white-space unit at the badWS-th white-space slot (-1 = never)
	wsSlot   int
	small    bool // short strings / numbers (corruption samples)
	plainNum bool // numbers with at most 17 significant digits (reviver cases)
	revKeys  bool // bias keys towards the ones the reviver catalogue reacts to
}

var illegalWS = []uint16{0x0B, 0x0C, 0xA0, 0xFEFF, 0x2028, 0x2029, 0x85, 0x1680, 0x2003, 0x3000, 0x00, 0x1F, 0x200B}

var illegalWSName = map[uint16]string{0x0B: "VT", 0x0C: "FF", 0xA0: "NBSP", 0xFEFF: "BOM", 0x2028: "LS", 0x2029: "PS", 0x85: "NEL", 0x1680: "OGHAM", 0x2003: "EMSP", 0x3000: "IDSP", 0x00: "NUL", 0x1F: "US", 0x200B: "ZWSP"}

func (g *textGen) emit(s string) {
	for i := 0; i < len(s); i++ {
		g.b = append(g.b, uint16(s[i]))
	}
}

func (g *textGen) ws() {
	slot := g.wsSlot
	g.wsSlot++
	if slot == g.badWS {
		g.b = append(g.b, core.Pick(g.r, illegalWS))
		return
	}
	var n int
	switch g.wsMode {
	case 0:
		return
	case 1:
		if !g.r.Chance(1, 4) {
			return
		}
		n = 1
	default:
		n = g.r.Intn(4)
	}
	for i := 0; i < n; i++ {
		g.b = append(g.b, core.Pick(g.r, []uint16{' ', ' ', '\t', '\n', '\r'}))
	}
}

func (g *textGen) value(depth int) {
	g.budget--
	w := []int{22, 22, 22, 24, 10}
	if depth >= g.maxDepth || g.budget <= 0 {
		w[0], w[1] = 0, 0
	}
	switch g.r.PickW(w) {
	case 0:
		g.object(depth)
	case 1:
		g.array(depth)
	case 2:
		g.str(false)
	case 3:
		g.number()
	default:
		g.emit(core.Pick(g.r, []string{"true", "false", "null"}))
	}
}

func (g *textGen) array(depth int) {
	g.emit("[")
	g.ws()
	n := g.r.PickW([]int{15, 25, 25, 15, 10, 10})
	if g.r.Chance(1, 6) && depth+1 < g.maxDepth {
		n = 1 // favour deep chains
	}
	for i := 0; i < n; i++ {
		if i > 0 {
			g.emit(",")
			g.ws()
		}
		g.value(depth + 1)
		g.ws()
	}
	g.emit("]")
}

var keyPool = []string{"a", "b", "c", "t", "r", "x", "z", "0", "1", "2", "10", "01", "-1", "1e3", "4294967294", "4294967295", "__proto__", "constructor", "toString", "valueOf", "toJSON", "length", "hasOwnProperty", "", "é", " ", "k1", "k2"}
var revKeyPool = []string{"a", "b", "r", "t", "z", "0", "1", "2", "3", "x", "q"}

func (g *textGen) object(depth int) {
	g.emit("{")
	g.ws()
	n := g.r.PickW([]int{15, 25, 25, 15, 10, 10})
	var used []string
	for i := 0; i < n; i++ {
		if i > 0 {
			g.emit(",")
			g.ws()
		}
		switch {
		case len(used) > 0 && g.r.Chance(1, 8):
			g.quoted(core.Pick(g.r, used)) // duplicate key
		case g.revKeys && g.r.Chance(3, 4):
			k := core.Pick(g.r, revKeyPool)
			used = append(used, k)
			g.quoted(k)
		case g.r.Chance(3, 4):
			k := core.Pick(g.r, keyPool)
			used = append(used, k)
			g.quoted(k)
		default:
			g.str(true)
		}
		g.ws()
		g.emit(":")
		g.ws()
		g.value(depth + 1)
		g.ws()
	}
	g.emit("}")
}

// quoted emits an ASCII/BMP key, sometimes spelling characters as \uXXXX escapes.
func (g *textGen) quoted(s string) {
	g.emit(`"`)
	for _, c := range s {
		if g.r.Chance(1, 12) {
			g.uesc(uint16(c))
		} else {
			g.b = append(g.b, uint16(c))
		}
	}
	g.emit(`"`)
}

func (g *textGen) uesc(c uint16) {
	const lo, up = "0123456789abcdef", "0123456789ABCDEF"
	g.emit(`\u`)
	mode := g.r.Intn(3)
	for sh := 12; sh >= 0; sh -= 4 {
		d := (c >> uint(sh)) & 15
		switch {
		case mode == 0, mode == 2 && g.r.Bool():
			g.b = append(g.b, uint16(lo[d]))
		default:
			g.b = append(g.b, uint16(up[d]))
		}
	}
}

func (g *textGen) str(key bool) {
	g.emit(`"`)
	max := 12
	if g.small {
		max = 4
	}
	n := g.r.Intn(max + 1)
	for i := 0; i < n; i++ {
		switch g.r.PickW([]int{40, 16, 14, 10, 6, 3}) {
		case 0: // printable ASCII except the two that need escaping
			c := uint16(0x20 + g.r.Intn(0x5f))
			if c == '"' || c == '\\' {
				c = 'q'
			}
			g.b = append(g.b, c)
		case 1: // two-character escapes
			g.emit(core.Pick(g.r, []string{`\"`, `\\`, `\/`, `\b`, `\f`, `\n`, `\r`, `\t`}))
		case 2: // \uXXXX
			switch g.r.PickW([]int{4, 3, 3, 3, 1}) {
			case 0:
				g.uesc(uint16(0x20 + g.r.Intn(0x5f)))
			case 1:
				g.uesc(uint16(g.r.Intn(0x20)))
			case 2:
				c := uint16(g.r.Intn(0x10000))
				if c >= 0xD800 && c < 0xE000 {
					c = 0xFFFD
				}
				g.uesc(c)
			case 3: // escaped surrogate pair
				g.uesc(uint16(0xD800 + g.r.Intn(0x400)))
				g.uesc(uint16(0xDC00 + g.r.Intn(0x400)))
			default:
				g.uesc(core.Pick(g.r, []uint16{0x7f, 0x2028, 0x2029, 0xFEFF, 0xFFFF, 0x0000, 0x0022, 0x005C, 0x002F}))
			}
		case 3: // literal non-ASCII
			switch g.r.Intn(3) {
			case 0:
				g.b = append(g.b, core.Pick(g.r, []uint16{0xE9, 0xA0, 0x7f, 0x2028, 0x2029, 0xFEFF, 0xFFFD, 0xFFFF, 0x80, 0x7FF, 0x800, 0x3042}))
			case 1:
				c := uint16(0x80 + g.r.Intn(0xD800-0x80))
				g.b = append(g.b, c)
			default:
				g.b = append(g.b, uint16(0xD800+g.r.Intn(0x400)), uint16(0xDC00+g.r.Intn(0x400)))
			}
		case 4:
			g.emit("/")
		default:
			if g.lone {
				switch g.r.Intn(4) {
				case 0:
					g.uesc(uint16(0xD800 + g.r.Intn(0x400)))
				case 1:
					g.uesc(uint16(0xDC00 + g.r.Intn(0x400)))
				case 2:
					g.b = append(g.b, uint16(0xD800+g.r.Intn(0x800)))
				default: // reversed pair
					g.uesc(uint16(0xDC00 + g.r.Intn(0x400)))
					g.uesc(uint16(0xD800 + g.r.Intn(0x400)))
				}
			} else {
				g.emit("x")
			}
		}
	}
	g.emit(`"`)
}

var specialNumbers = []string{
	"1e400", "-1e400", "1E400", "123e1000000", "1e309", "2e308", "-2e308", "1.7976931348623157e308", "1.7976931348623158e308", "1.797693134862315807e308",
	"1.797693134862315808e308", "1.7976931348623159e308", "17976931348623157" + "0000000000000000000000000000000000000000000000000000000000000000000000000000000000000000000000000000000000000000000000000000000000000000000000000000000000000000000000000000000000000000000000000000000000000000000000000000000000000000000000000000000000000000000000000000000000000000000000000000000000000000000000000000000000000000",
	"5e-324", "4.9406564584124654e-324", "2.4703282292062327e-324", "2.4703282292062328e-324", "2.47032822920623272088284396434110686182529901307162382212792841250337753635104375932649918180817996189898282347722858865463328355177969898199387398005390939063150356595155702263922908583924491051844359318028499365361525003193704576782492193656236698636584807570015857692699037063119282795585513329278343384093519780155312465972635795746227664652728272200563740064854999770965994704540208281662262378573934507363390079677619305775067401763246736009689513405355374585166611342237666786041621596804619144672918403005300575308490487653917113865916462395249126236538818796362393732804238910186723484976682350898633885879256283027559956575244555072551893136908362547791869486679949683240497058210285131854513962138377228261454376934125320985913276672363281251e-324",
	"2.2250738585072011e-308", "2.2250738585072014e-308", "2.2250738585072009e-308", "9007199254740993", "9007199254740992", "9007199254740991", "-9007199254740993", "9007199254740993.0000000000000000000001",
	"0.1", "0.30000000000000004", "-0", "-0.0", "0e0", "-0e-0", "0E+0", "0.0e-0", "1e-400", "-1e-400", "1e-323", "1e+0", "1e00", "1E-00", "0.000001", "0.0000001", "1e21", "1e20", "123456789012345680000", "1e-7",
	"4294967295", "4294967296", "2147483648", "-2147483648", "18446744073709551615", "18446744073709551616", "9223372036854775807", "9223372036854775808", "-9223372036854775809",
	"1e23", "8.5e-7", "5e-7", "1.5e300", "3.4028235e38", "1.0000000000000002", "1.00000000000000011102230246251565404236316680908203125", "1.00000000000000011102230246251565404236316680908203124", "1.00000000000000011102230246251565404236316680908203126",
}

func (g *textGen) digitsN(n int, firstNonZero bool) {
	for i := 0; i < n; i++ {
		d := g.r.Intn(10)
		if i == 0 && firstNonZero && d == 0 {
			d = 1 + g.r.Intn(9)
		}
		g.b = append(g.b, uint16('0'+d))
	}
}

func (g *textGen) lenPick(long bool) int {
	switch {
	case g.small || g.plainNum:
		return g.r.Range(1, 4)
	case !long:
		return g.r.Range(1, 3)
	}
	switch g.r.PickW([]int{30, 30, 20, 20}) {
	case 0:
		return g.r.Range(4, 14)
	case 1:
		return g.r.Range(15, 25)
	case 2:
		return g.r.Range(26, 120)
	}
	return g.r.Range(121, 400)
}

func (g *textGen) number() {
	if !g.small && !g.plainNum && g.r.Chance(1, 8) {
		g.emit(core.Pick(g.r, specialNumbers))
		return
	}
	if !g.small && !g.plainNum && g.r.Chance(1, 16) {
		g.emit(halfwayLiteral(g.r))
		return
	}
	if g.r.Chance(3, 10) {
		g.emit("-")
	}
	long := g.r.Chance(1, 3)
	if g.r.Chance(1, 5) {
		g.emit("0")
	} else {
		g.digitsN(g.lenPick(long), true)
	}
	if g.r.Chance(9, 20) {
		g.emit(".")
		g.digitsN(g.lenPick(g.r.Chance(1, 3)), false)
	}
	if g.r.Chance(2, 5) {
		g.emit(core.Pick(g.r, []string{"e", "E"}))
		g.emit(core.Pick(g.r, []string{"", "+", "-"}))
		if g.r.Chance(1, 10) {
			g.emit(strings.Repeat("0", g.r.Range(1, 5)))
		}
		var e int
		switch {
		case g.small || g.plainNum:
			e = g.r.Intn(25)
		default:
			switch g.r.PickW([]int{40, 25, 25, 10}) {
			case 0:
				e = g.r.Intn(25)
			case 1:
				e = g.r.Range(25, 290)
			case 2:
				e = g.r.Range(290, 345)
			default:
				e = g.r.Range(345, 400)
			}
		}
		g.emit(itoa(e))
	}
}

func itoa(n int) string {
	if n == 0 {
		return "0"
	}
	var b []byte
	for n > 0 {
		b = append([]byte{byte('0' + n%10)}, b...)
		n /= 10
	}
	return string(b)
}

// halfwayLiteral returns the exact decimal expansion of a point halfway between two adjacent doubles, optionally nudged
// by one unit in a far decimal place — the hardest inputs for a decimal→binary conversion.
func halfwayLiteral(r *core.Rng) string {
	m := new(big.Int).SetUint64(1<<52 | r.U64()&(1<<52-1))
	m.Lsh(m, 1)
	m.Add(m, big.NewInt(1)) // 2m+1: halfway in units of half an ulp
	e := r.Range(-80, 40) - 1
	q := new(big.Rat)
	fracDigits := 0
	if e >= 0 {
		q.SetInt(new(big.Int).Lsh(m, uint(e)))
	} else {
		q.SetFrac(m, new(big.Int).Lsh(big.NewInt(1), uint(-e)))
		fracDigits = -e
	}
	s := q.FloatString(fracDigits)
	switch r.Intn(3) {
	case 0:
		return s
	case 1: // slightly above
		if fracDigits == 0 {
			return s + ".000000000000000000001"
		}
		return s + "0000000001"
	default: // slightly below: decrement the last digit (it is never 0: odd numerator)
		b := []byte(s)
		b[len(b)-1]--
		return string(b) + "9999999999"
	}
}

// genText generates one text.  kind: "grammar" (any size), "sample" (short, for corruption sweeps), "reviver".
func genText(r *core.Rng, kind string) []uint16 {
	g := &textGen{r: r, badWS: -1}
	g.maxDepth = r.Range(1, 8)
	g.budget = r.Range(3, 45)
	g.wsMode = r.PickW([]int{35, 40, 25})
	switch kind {
	case "sample":
		g.small = true
		g.maxDepth = r.Range(1, 3)
		g.budget = r.Range(2, 7)
		g.wsMode = r.PickW([]int{50, 50, 0})
	case "reviver":
		g.plainNum = true
		g.revKeys = true
		g.maxDepth = r.Range(1, 5)
		g.budget = r.Range(3, 25)
		g.lone = r.Chance(1, 40)
	default:
		g.lone = r.Chance(1, 20)
		if r.Chance(1, 14) {
			g.badWS = r.Intn(12)
		}
	}
	g.ws()
	if r.Chance(1, 12) {
		// top-level scalar
		g.maxDepth = 0
	}
	g.value(0)
	g.ws()
	return g.b
}
