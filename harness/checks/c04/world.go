package c04

import (
	"fmt"
	"strings"
	"sync"

	"github.com/dop251/goja"

	"verif/harness/gj"
	"verif/harness/objmodel"
)

const worldFuel = 3000000

var (
	driverOnce sync.Once
	driverPrg  *goja.Program
)

func driverProgram() *goja.Program {
	driverOnce.Do(func() { driverPrg = goja.MustCompile("c04-driver.js", driverSrc, false) })
	return driverPrg
}

// failure is a monitor firing (or an inconclusive stop) inside a world.
type failure struct {
	monitor      string
	detail       string
	opIndex      int
	inconclusive bool
}

type stopWorld struct{ f *failure }

// world is one realm with the case's objects, optionally shadowed by an objmodel instance.
type world struct {
	tag   string
	c     *Case
	rt    *goja.Runtime
	fn    map[string]goja.Callable
	objs  map[string]*goja.Object
	syms  map[string]*goja.Symbol
	probe goja.Value
	buf   goja.ArrayBuffer
	host  interface{} // keeps the Go value behind a host kind
	pset  goja.Callable
	pget  goja.Callable

	spec      bool
	unordered bool // documented: key order not stable (Go maps)
	m         *objmodel.Machine
	mobjs     map[string]*objmodel.Object
	msyms     map[string]*objmodel.Symbol
	snapped   map[string]bool
	params    [2]*objmodel.Value
	modelDead bool // a mutating operation left the model's domain: no further model comparison in this world

	armed      *Op    // mutator to be run by the getter GM (enum via assign/spread/entries)
	bodyRes    string // what the armed / for-in body mutator produced ("-" = not run)
	mArmed     *Op
	mBodyRes   string
	mIter      *objmodel.ForInIterator // enumeration kept open across ops (model side)
	rejected   map[string]string       // abstract op -> world state in which it was rejected without changing anything
	mIterLoose bool                    // a trigger event ended the exact-order guarantee of the open enumeration
	slotSeen   map[string]bool         // keys the open enumeration produced so far
	slotObj    string                  // object of the open enumeration

	inv     map[string]*invState
	last    map[string]string // last dump per object
	opIndex int
	mon     *monitors
}

func (w *world) stop(monitor, format string, args ...any) {
	panic(&stopWorld{&failure{monitor: monitor, detail: fmt.Sprintf("[world %s] ", w.tag) + fmt.Sprintf(format, args...), opIndex: w.opIndex}})
}

// call invokes a driver function and returns its string result.
func (w *world) callV(name string, args ...goja.Value) goja.Value {
	f := w.fn[name]
	if f == nil {
		panic("c04: no driver function " + name)
	}
	o := gj.Call(func() (goja.Value, error) { return f(goja.Undefined(), args...) })
	w.judge(name, o)
	return o.Val
}

func (w *world) judge(what string, o gj.Outcome) {
	if sw, ok := o.Panic.(*stopWorld); ok {
		panic(sw) // a monitor fired inside a host callback (enumeration body): keep unwinding
	}
	switch {
	case o.Panic != nil:
		w.stop("go-panic-escaped", "Go panic escaped %s: %v\n%s", what, o.Panic, trunc(o.PanicStack, 2500))
	case o.Assertion != nil:
		w.stop("verif-assertion", "%s: %v", what, o.Assertion)
	case o.Fuel:
		panic(&stopWorld{&failure{monitor: "fuel", inconclusive: true, opIndex: w.opIndex}})
	case o.Err != nil:
		w.stop("driver-error", "driver function %s failed: %v", what, o.Err)
	}
}

func trunc(s string, n int) string {
	if len(s) > n {
		return s[:n] + "…"
	}
	return s
}

func (w *world) call(name string, args ...goja.Value) string {
	v := w.callV(name, args...)
	if v == nil {
		return "u"
	}
	return v.String()
}

// goCall runs a host-API call; a JS exception becomes its rendering ("!TypeError" …).
func (w *world) goCall(what string, f func() string) string {
	var res string
	var ex *goja.Exception
	o := gj.Call(func() (goja.Value, error) {
		ex = w.rt.Try(func() { res = f() })
		return nil, nil
	})
	w.judge(what, o)
	if ex != nil {
		return w.call("thrown", ex.Value())
	}
	return res
}

func (w *world) render(v goja.Value) string {
	if v == nil {
		return "u"
	}
	return w.call("render", v)
}

func errResult(w *world, err error) string {
	if err == nil {
		return "ok"
	}
	if ex, ok := err.(*goja.Exception); ok {
		return w.call("thrown", ex.Value())
	}
	w.stop("undocumented-error-kind", "host API returned a non-exception error %T: %v", err, err)
	return ""
}

// ---------------------------------------------------------------------------------------------------------------
// construction

type dynObj struct {
	keys []string
	m    map[string]goja.Value
}

func (d *dynObj) Get(key string) goja.Value { return d.m[key] }
func (d *dynObj) Set(key string, val goja.Value) bool {
	if _, ok := d.m[key]; !ok {
		d.keys = append(d.keys, key)
	}
	d.m[key] = val
	return true
}
func (d *dynObj) Has(key string) bool { _, ok := d.m[key]; return ok }
func (d *dynObj) Delete(key string) bool {
	if _, ok := d.m[key]; ok {
		delete(d.m, key)
		for i, k := range d.keys {
			if k == key {
				d.keys = append(d.keys[:i:i], d.keys[i+1:]...)
				break
			}
		}
	}
	return true
}
func (d *dynObj) Keys() []string { return append([]string(nil), d.keys...) }

type dynArr struct{ a []goja.Value }

func (d *dynArr) Len() int { return len(d.a) }
func (d *dynArr) Get(idx int) goja.Value {
	if idx < 0 || idx >= len(d.a) {
		return nil
	}
	return d.a[idx]
}
func (d *dynArr) Set(idx int, val goja.Value) bool {
	if idx < 0 || idx > 10000 {
		return false
	}
	for idx >= len(d.a) {
		d.a = append(d.a, goja.Undefined())
	}
	d.a[idx] = val
	return true
}
func (d *dynArr) SetLen(n int) bool {
	if n < 0 || n > 10000 {
		return false
	}
	for n > len(d.a) {
		d.a = append(d.a, goja.Undefined())
	}
	d.a = d.a[:n]
	return true
}

type hostS struct {
	A int
	B string
	C interface{}
}

func (s *hostS) M() int { return s.A }

func newWorld(tag string, c *Case, mon *monitors) *world {
	w := &world{tag: tag, c: c, mon: mon, fn: map[string]goja.Callable{}, objs: map[string]*goja.Object{}, syms: map[string]*goja.Symbol{}, inv: map[string]*invState{}, last: map[string]string{}, rejected: map[string]string{}}
	w.rt = gj.NewRuntime()
	goja.VerifSetFuel(w.rt, worldFuel)
	var dv goja.Value
	o := gj.Call(func() (goja.Value, error) { v, err := w.rt.RunProgram(driverProgram()); dv = v; return v, err })
	w.judge("driver", o)
	d := dv.ToObject(w.rt)
	for _, k := range d.Keys() {
		if f, ok := goja.AssertFunction(d.Get(k)); ok {
			w.fn[k] = f
		}
	}
	ki := kindByName[c.Kind]
	w.spec = ki.spec
	w.unordered = c.Kind == "gomap" || c.Kind == "gorefmap" || c.Kind == "dynobj"
	// symbols
	for _, n := range []string{"S1", "S2"} {
		s := goja.NewSymbol(n)
		w.syms[n] = s
		w.callV("reg", s, w.rt.ToValue(n))
	}
	for n, js := range wkSymbols {
		v := w.callV("mk", w.rt.ToValue("wk"), w.rt.ToValue(js))
		s, ok := v.(*goja.Symbol)
		if !ok {
			w.stop("driver-error", "Symbol.%s is not a symbol", js)
		}
		w.syms[n] = s
		w.callV("reg", s, w.rt.ToValue(n))
	}
	w.callV("protoAccessors")
	// target
	var t goja.Value
	switch c.Kind {
	case "gomap":
		hm := map[string]interface{}{"a": 1, "b": "x"}
		w.host = hm
		t = w.rt.ToValue(hm)
	case "gorefmap":
		hm := map[string]string{"a": "1", "b": "x"}
		w.host = hm
		t = w.rt.ToValue(hm)
	case "goslice":
		hs := []interface{}{1, "x", nil}
		w.host = &hs
		t = w.rt.ToValue(&hs)
	case "gorefslice":
		hs := []int{1, 2, 3}
		w.host = &hs
		t = w.rt.ToValue(&hs)
	case "gostruct":
		hs := &hostS{A: 1, B: "x"}
		w.host = hs
		t = w.rt.ToValue(hs)
		w.callV("setAnonFn", w.rt.ToValue(true))
	case "dynobj":
		dobj := &dynObj{m: map[string]goja.Value{}}
		dobj.Set("a", w.rt.ToValue(1))
		dobj.Set("b", w.rt.ToValue("x"))
		w.host = dobj
		t = w.rt.NewDynamicObject(dobj)
	case "dynarr":
		da := &dynArr{a: []goja.Value{w.rt.ToValue(1), w.rt.ToValue("x")}}
		w.host = da
		t = w.rt.NewDynamicArray(da)
	case "margs", "uargs":
		tri := w.callV("mk", w.rt.ToValue(c.Kind)).ToObject(w.rt)
		t = tri.Get("0")
		if c.Kind == "margs" {
			w.pget, _ = goja.AssertFunction(tri.Get("1"))
			w.pset, _ = goja.AssertFunction(tri.Get("2"))
		}
	default:
		t = w.callV("mk", w.rt.ToValue(c.Kind), w.rt.ToValue(c.Arg))
	}
	to, ok := t.(*goja.Object)
	if !ok {
		w.stop("driver-error", "kind %s did not produce an object", c.Kind)
	}
	if c.Kind == "ta" {
		bv := w.callV("buffer", to)
		if ab, ok := bv.Export().(goja.ArrayBuffer); ok {
			w.buf = ab
		} else {
			w.stop("driver-error", "typed array buffer does not export as ArrayBuffer")
		}
	}
	w.register("T", to)
	w.register("P1", w.callV("mk", w.rt.ToValue("plain")).(*goja.Object))
	w.register("P2", w.callV("mk", w.rt.ToValue("plain")).(*goja.Object))
	w.register("D", w.callV("mk", w.rt.ToValue("create"), to).(*goja.Object))
	w.register("U", w.callV("mk", w.rt.ToValue("plain")).(*goja.Object))
	for _, n := range []string{"V1", "V2", "E1"} {
		w.register(n, w.callV("mk", w.rt.ToValue("plain")).(*goja.Object))
	}
	w.objs["G1"] = w.callV("mkGetter", w.rt.ToValue("G1"), w.rt.ToValue(11)).(*goja.Object)
	w.objs["G2"] = w.callV("mkGetter", w.rt.ToValue("G2"), w.objs["V2"]).(*goja.Object)
	w.objs["GT"] = w.callV("mkThrowGetter", w.rt.ToValue("GT"), w.objs["E1"]).(*goja.Object)
	w.objs["GM"] = w.callV("mkMutGetter", w.rt.ToValue("GM"), w.rt.ToValue(12), w.rt.ToValue(func(goja.FunctionCall) goja.Value {
		if b := w.armed; b != nil {
			w.armed = nil
			w.bodyRes = w.issue(b)
		}
		return goja.Undefined()
	})).(*goja.Object)
	w.objs["St1"] = w.callV("mkSetter", w.rt.ToValue("St1")).(*goja.Object)
	w.objs["St2"] = w.callV("mkSetter", w.rt.ToValue("St2")).(*goja.Object)
	w.objs["StT"] = w.callV("mkThrowSetter", w.rt.ToValue("StT"), w.objs["E1"]).(*goja.Object)
	// probe keys
	var pk []interface{}
	for _, kn := range c.Keys {
		pk = append(pk, w.keyValue(kn, false))
	}
	w.probe = w.rt.NewArray(pk...)
	// touch every object once before the layout snapshot: lazily materialised properties (function `prototype`) are
	// judged by the laziness monitor, not here
	for _, n := range worldObjects {
		w.call("dump", w.objs[n])
	}
	if !w.spec {
		// host wrappers store exported Go values: an object read back is a fresh wrapper each time, identities
		// discovered from now on are rendered anonymously
		w.callV("setAnonAll", w.rt.ToValue(true))
	}
	if w.spec {
		w.buildModel()
	}
	// first observation of every world object (feeds the invariant monitor, and the model comparison)
	for _, n := range worldObjects {
		w.observe(n, "")
	}
	return w
}

func (w *world) register(name string, o *goja.Object) {
	w.objs[name] = o
	w.callV("reg", o, w.rt.ToValue(name))
}

// keyValue returns the engine value of a pool key (Number spelling when asked and possible).
func (w *world) keyValue(name string, num bool) goja.Value {
	ki := keyByName[name]
	if ki == nil {
		panic("c04: unknown key " + name)
	}
	if ki.sym != "" {
		return w.syms[ki.sym]
	}
	if num && ki.num {
		f := objmodel.StringToNumber(ki.str)
		if f == float64(int64(f)) {
			return w.rt.ToValue(int64(f))
		}
		return w.rt.ToValue(f)
	}
	return w.rt.ToValue(ki.str)
}

func (w *world) modelKeyValue(name string, num bool) objmodel.Value {
	ki := keyByName[name]
	if ki.sym != "" {
		return objmodel.SymV(w.msyms[ki.sym])
	}
	if num && ki.num {
		return objmodel.Num(objmodel.StringToNumber(ki.str))
	}
	return objmodel.Str(ki.str)
}

// value returns the engine value for a value-pool name.
func (w *world) value(name string) goja.Value {
	if v, ok := primValues[name]; ok {
		switch v.K {
		case objmodel.KUndefined:
			return goja.Undefined()
		case objmodel.KNull:
			return goja.Null()
		case objmodel.KBool:
			return w.rt.ToValue(v.B)
		case objmodel.KNumber:
			if v.N == float64(int64(v.N)) && !(v.N == 0 && 1/v.N < 0) {
				return w.rt.ToValue(int64(v.N))
			}
			return w.rt.ToValue(v.N)
		case objmodel.KString:
			return w.rt.ToValue(v.S)
		}
	}
	if name == "symS1" {
		return w.syms["S1"]
	}
	if name == "bad" {
		return w.rt.ToValue(1)
	}
	if o := w.objs[name]; o != nil {
		return o
	}
	panic("c04: unknown value " + name)
}

func (w *world) modelValue(name string) objmodel.Value {
	if v, ok := primValues[name]; ok {
		return v
	}
	if name == "symS1" {
		return objmodel.SymV(w.msyms["S1"])
	}
	if name == "bad" {
		return objmodel.Num(1)
	}
	if o := w.mobjs[name]; o != nil {
		return objmodel.ObjV(o)
	}
	panic("c04: unknown model value " + name)
}

// ---------------------------------------------------------------------------------------------------------------
// model construction from the engine's initial layout

func (w *world) Symbol(name string) *objmodel.Symbol { return w.msyms[name] }

func (w *world) Object(name string) *objmodel.Object {
	if o := w.mobjs[name]; o != nil {
		return o
	}
	// an object discovered in a snapshot: ask the driver what it is
	ev := w.callV("byName", w.rt.ToValue(name))
	eo, ok := ev.(*goja.Object)
	if !ok {
		return nil
	}
	w.objs[name] = eo
	kind := w.call("kindOf", eo)
	var o *objmodel.Object
	switch {
	case strings.HasPrefix(kind[1:], "array"):
		o = objmodel.NewArray(name, nil)
	case strings.HasPrefix(kind[1:], "string:"):
		o = objmodel.NewString(name, nil, kind[len("ostring:"):])
	default:
		o = objmodel.NewObject(name, nil)
	}
	o.Callable = kind[0] == 'f'
	o.ToNumberKnown = false
	w.mobjs[name] = o
	return o
}

func (w *world) logger(name string, ret func() objmodel.Value, throw func() *objmodel.Throw) objmodel.CallFn {
	return func(m *objmodel.Machine, this objmodel.Value, args []objmodel.Value) (objmodel.Value, *objmodel.Throw) {
		s := name + "(" + objmodel.RenderValue(this)
		if len(args) > 0 {
			s += "," + objmodel.RenderValue(args[0])
		}
		m.Log = append(m.Log, s+")")
		if throw != nil {
			return objmodel.Undefined, throw()
		}
		if ret != nil {
			return ret(), nil
		}
		return objmodel.Undefined, nil
	}
}

func (w *world) buildModel() {
	w.m = &objmodel.Machine{}
	w.mobjs = map[string]*objmodel.Object{}
	w.msyms = map[string]*objmodel.Symbol{}
	w.snapped = map[string]bool{}
	for n := range w.syms {
		w.msyms[n] = &objmodel.Symbol{Name: n}
	}
	c := w.c
	var t *objmodel.Object
	switch c.Kind {
	case "dense", "sparse", "arrayproto":
		t = objmodel.NewArray("T", nil)
	case "string":
		t = objmodel.NewString("T", nil, "ab")
	case "ta":
		t = objmodel.NewTypedArray("T", nil, elemTypes[c.Arg], 0)
	case "margs":
		t = objmodel.NewObject("T", nil)
		t.Class = objmodel.CArguments
		a, b := objmodel.Num(1), objmodel.Num(2)
		w.params = [2]*objmodel.Value{&a, &b}
		t.ParamMap = map[uint32]*objmodel.Value{0: &a, 1: &b}
	default:
		t = objmodel.NewObject("T", nil)
	}
	switch c.Kind {
	case "function", "arrow", "bound", "class", "method", "generator", "async":
		t.Callable = true
	}
	t.ToNumberKnown = false
	w.mobjs["T"] = t
	for _, n := range []string{"P1", "P2", "D", "U", "V1", "V2", "E1"} {
		w.mobjs[n] = objmodel.NewObject(n, nil)
	}
	for _, n := range []string{"P1", "P2", "D", "U"} {
		w.mobjs[n].ToNumberKnown = false
	}
	e1 := func() *objmodel.Throw { return &objmodel.Throw{Val: objmodel.ObjV(w.mobjs["E1"])} }
	w.mobjs["G1"] = objmodel.NewFunction("G1", nil, w.logger("G1", func() objmodel.Value { return objmodel.Num(11) }, nil))
	w.mobjs["G2"] = objmodel.NewFunction("G2", nil, w.logger("G2", func() objmodel.Value { return objmodel.ObjV(w.mobjs["V2"]) }, nil))
	w.mobjs["GT"] = objmodel.NewFunction("GT", nil, w.logger("GT", nil, e1))
	w.mobjs["GM"] = objmodel.NewFunction("GM", nil, func(m *objmodel.Machine, this objmodel.Value, args []objmodel.Value) (objmodel.Value, *objmodel.Throw) {
		m.Log = append(m.Log, "GM("+objmodel.RenderValue(this)+")")
		if b := w.mArmed; b != nil {
			w.mArmed = nil
			w.mBodyRes = w.modelOp(b)
		}
		return objmodel.Num(12), nil
	})

	w.mobjs["St1"] = objmodel.NewFunction("St1", nil, w.logger("St1", nil, nil))
	w.mobjs["St2"] = objmodel.NewFunction("St2", nil, w.logger("St2", nil, nil))
	w.mobjs["StT"] = objmodel.NewFunction("StT", nil, w.logger("StT", nil, e1))
	// Annex B.2.2.1 Object.prototype.__proto__
	w.mobjs["protoGet"] = objmodel.NewFunction("protoGet", nil, func(m *objmodel.Machine, this objmodel.Value, _ []objmodel.Value) (objmodel.Value, *objmodel.Throw) {
		switch this.K {
		case objmodel.KUndefined, objmodel.KNull:
			return objmodel.Undefined, &objmodel.Throw{Class: "TypeError"}
		case objmodel.KObject:
			return objmodel.ObjOrNull(m.GetPrototypeOf(this.O)), nil
		}
		panic(&objmodel.OutOfDomain{Why: "__proto__ getter on a primitive"})
	})
	w.mobjs["protoSet"] = objmodel.NewFunction("protoSet", nil, func(m *objmodel.Machine, this objmodel.Value, args []objmodel.Value) (objmodel.Value, *objmodel.Throw) {
		if this.K == objmodel.KUndefined || this.K == objmodel.KNull {
			return objmodel.Undefined, &objmodel.Throw{Class: "TypeError"}
		}
		proto := objmodel.Undefined
		if len(args) > 0 {
			proto = args[0]
		}
		if proto.K != objmodel.KObject && proto.K != objmodel.KNull {
			return objmodel.Undefined, nil
		}
		if this.K != objmodel.KObject {
			return objmodel.Undefined, nil
		}
		if !m.SetPrototypeOf(this.O, proto.O) {
			return objmodel.Undefined, &objmodel.Throw{Class: "TypeError"}
		}
		return objmodel.Undefined, nil
	})
	for _, n := range []string{"T", "P1", "P2", "D", "U", "V1", "V2", "E1", "G1", "G2", "GT", "GM", "St1", "St2", "StT"} {
		w.snapshot(n)
	}
}

// snapshot loads the engine's current layout of the named object (and, transitively, of its prototype chain)
// into the model.
func (w *world) snapshot(name string) {
	for name != "" {
		if w.snapped[name] {
			return
		}
		w.snapped[name] = true
		mo := w.Object(name)
		eo := w.objs[name]
		if mo == nil || eo == nil {
			w.stop("driver-error", "snapshot of unknown object %s", name)
		}
		d := w.call("dump", eo)
		if strings.HasPrefix(d, "!") {
			w.stop("driver-error", "dump of %s threw %s", name, d)
		}
		if err := mo.LoadDump(d, w); err != nil {
			w.stop("driver-error", "cannot load the initial layout of %s: %v\n%s", name, err, d)
		}
		if mo.Proto == nil {
			return
		}
		name = mo.Proto.Name
	}
}

// stateKey is the observable state of the world: the latest structural dump of every world object.
func (w *world) stateKey() string {
	var b strings.Builder
	for _, n := range worldObjects {
		b.WriteString(w.last[n])
		b.WriteByte('\n')
	}
	return b.String()
}
