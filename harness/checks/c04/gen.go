package c04

import (
	"os"
	"strings"

	"verif/harness/core"
)

// quarantine: ids of known findings (known-findings.d/C04.json) whose minimal syntactic neighbourhood the generator
// avoids while the finding is listed (DESIGN §5).  The pinned witness of each finding still runs in every tier.
var quarantine = func() map[string]bool {
	q := map[string]bool{}
	if s, ok := os.LookupEnv("VERIF_C04_QUARANTINE"); ok {
		// development aid (trial runs against a patched tree): explicit list instead of the findings file
		for _, id := range strings.Split(s, ",") {
			if id != "" {
				q[id] = true
			}
		}
		return q
	}
	f := core.LoadFindings()
	for _, k := range f.Findings {
		if k.Property == "C04" {
			q[k.ID] = true
		}
	}
	return q
}()

// excluded reports whether op lies in the neighbourhood of a listed known finding.
func excluded(c *Case, o *Op) bool {
	if quarantine["C04-setForeignSym-receiver"] {
		// Reflect.set(target, <symbol>, v, <object receiver other than target>)
		if o.Op == "set" && o.Recv != "" && o.Recv != o.Obj && keyByName[o.Key].sym != "" && isObjectValue(o.Recv) {
			return true
		}
	}
	if quarantine["C04-string-index-redefine"] {
		// [[DefineOwnProperty]] on a String object's own index with a value
		if c.Kind == "string" && o.Op == "define" && o.Obj == "T" && (o.Key == "0" || o.Key == "1") && o.Mask&1 != 0 {
			return true
		}
	}
	if quarantine["C04-dynamic-proto-cycle"] {
		// [[SetPrototypeOf]] of a Dynamic object/array to an object (a cycle kills the process)
		if (c.Kind == "dynobj" || c.Kind == "dynarr") && o.Obj == "T" && (o.Op == "setProto" || o.Op == "set" && o.Key == "__proto__") && isObjectValue(o.Val) {
			return true
		}
	}
	if quarantine["C04-setproto-nonextensible-tostring"] {
		// a failing [[SetPrototypeOf]] reported by throwing: any setProto/__proto__ assignment after an integrity op on the same object
		if o.Op == "setProto" && o.Iss != "reflect" || o.Op == "set" && o.Key == "__proto__" {
			for _, p := range c.Ops {
				if p.Obj == o.Obj && (p.Op == "preventExtensions" || p.Op == "seal" || p.Op == "freeze") {
					return true
				}
			}
		}
	}
	if quarantine["C04-host-slice-elements-nonconfigurable-removable"] {
		// Go slice wrappers: elements are reported non-configurable but vanish when length shrinks, and a non-extensible
		// wrapper still grows: no length writes and no integrity ops on the wrapper
		if (c.Kind == "goslice" || c.Kind == "gorefslice") && o.Obj == "T" {
			if o.Key == "length" && (o.Op == "set" || o.Op == "define") || o.Op == "preventExtensions" || o.Op == "seal" || o.Op == "freeze" {
				return true
			}
		}
		if (c.Kind == "goslice" || c.Kind == "gorefslice") && o.Op == "set" && o.Recv == "T" && o.Key == "length" {
			return true
		}
	}
	if quarantine["C04-detached-typedarray-ownkeys"] {
		if o.Op == "detach" {
			return true
		}
	}
	return false
}

func isObjectValue(n string) bool {
	for _, x := range objectValueNames {
		if x == n {
			return true
		}
	}
	return false
}

// keys relevant per kind get extra weight
func kindKeys(kind string) []string {
	switch kind {
	case "function", "class", "method", "generator", "async":
		return []string{"prototype", "length", "name", "@@hasInstance"}
	case "arrow", "bound":
		return []string{"prototype", "length", "name"}
	case "dense", "sparse", "arrayproto", "goslice", "gorefslice", "dynarr":
		return []string{"length", "0", "1", "2", "7", "5000", "4294967294", "4294967295", "@@unscopables", "@@iterator"}
	case "margs", "uargs":
		return []string{"0", "1", "2", "length", "callee", "@@iterator"}
	case "string":
		return []string{"0", "1", "2", "length", "-0", "1.5"}
	case "ta":
		return []string{"0", "1", "2", "7", "-0", "1.5", "-1", "NaN", "1e3", "length", "4294967295"}
	case "gostruct":
		return []string{"A", "B", "M", "a"}
	case "gomap", "gorefmap", "dynobj":
		return []string{"a", "b", "0", "1"}
	case "global", "math":
		return []string{"a", "NaN", "name", "@@toStringTag"}
	}
	return nil
}

func hostSliceKind(kind string) bool {
	return kind == "goslice" || kind == "gorefslice" || kind == "dynarr"
}

var opWeights = []struct {
	op string
	w  int
}{
	{"define", 26}, {"set", 18}, {"get", 8}, {"delete", 9}, {"has", 4}, {"hasOwn", 3}, {"isEnum", 1}, {"gopd", 5}, {"ownKeys", 4}, {"keys", 3}, {"forin", 2},
	{"syms", 1}, {"entries", 1}, {"preventExtensions", 2}, {"seal", 2}, {"freeze", 2}, {"isSealed", 1}, {"isFrozen", 1}, {"isExtensible", 1},
	{"getProto", 2}, {"setProto", 5}, {"special", 2},
}

var valueNames = []string{"u", "n", "t", "1", "2", "-0", "0", "nan", "1.5", "2.5", "300", "-1", "sa", "sb", "s7", "s", "V1", "V2", "symS1", "T", "P1", "D"}

func pickKey(r *core.Rng, c *Case) (string, bool) {
	k := core.Pick(r, c.Keys)
	num := keyByName[k].num && r.Chance(1, 2)
	return k, num
}

func genValue(r *core.Rng, c *Case, o *Op) string {
	v := core.Pick(r, valueNames)
	if o.Key == "length" && !hostSliceKind(c.Kind) && r.Chance(1, 3) {
		v = core.Pick(r, []string{"0", "1", "2", "big", "2^32", "s7", "300"})
	}
	if hostSliceKind(c.Kind) && o.Key == "length" {
		v = core.Pick(r, []string{"0", "1", "2", "s7", "300", "-1", "1.5", "u"})
	}
	return v
}

func genCase(r *core.Rng) *Case {
	c := &Case{Mode: "seq"}
	w := make([]int, len(kinds))
	for i := range kinds {
		w[i] = kinds[i].weight
	}
	ki := &kinds[r.PickW(w)]
	c.Kind = ki.name
	if len(ki.args) > 0 {
		c.Arg = core.Pick(r, ki.args)
	}
	// key subset: 3–6 keys, at least two key kinds
	nk := r.Range(3, 6)
	rel := kindKeys(c.Kind)
	have := map[string]bool{}
	classes := map[string]bool{}
	for len(c.Keys) < nk || len(classes) < 2 {
		var k string
		if len(rel) > 0 && r.Chance(1, 2) {
			k = core.Pick(r, rel)
		} else {
			k = keyPool[r.Intn(len(keyPool))].name
		}
		if have[k] {
			continue
		}
		if hostSliceKind(c.Kind) || c.Kind == "gorefmap" {
			// host slices grow to the index written (memory exhaustion by construction): small indices only
			switch k {
			case "5000", "4294967294", "4294967295":
				continue
			}
		}
		have[k] = true
		classes[keyByName[k].class] = true
		c.Keys = append(c.Keys, k)
	}
	c.Twin = "issuer"
	if r.Chance(1, 3) {
		c.Twin = "spelling"
	}
	c.TSeed = r.U64()
	// prelude: build the prototype chain and decorate it
	n := r.Range(8, 40)
	depth := r.Intn(3)
	if depth >= 1 {
		c.Ops = append(c.Ops, Op{Op: "setProto", Obj: "T", Val: "P1"})
	}
	if depth >= 2 {
		c.Ops = append(c.Ops, Op{Op: "setProto", Obj: "P1", Val: "P2"})
	}
	if depth >= 1 && r.Chance(1, 4) {
		c.Ops = append(c.Ops, Op{Op: "setProto", Obj: core.Pick(r, []string{"P1", "P2"}), Val: "n"})
	}
	for i := 0; i < depth*2; i++ {
		o := Op{Op: "define", Obj: core.Pick(r, []string{"P1", "P2"}[:depth])}
		o.Key, o.Num = pickKey(r, c)
		if r.Bool() {
			o.Mask = 4 | 8 | 16 | 32
			o.Get, o.Set = core.Pick(r, getterNames), core.Pick(r, setterNames)
			o.Flags = r.Intn(8)
		} else {
			o.Mask = 1 | 2 | 16 | 32
			o.Val = core.Pick(r, valueNames)
			o.Flags = r.Intn(8) &^ 1
		}
		c.Ops = append(c.Ops, o)
	}
	ow := make([]int, len(opWeights))
	for i := range opWeights {
		ow[i] = opWeights[i].w
	}
	for tries := 0; len(c.Ops) < n && tries < 400; tries++ {
		o := Op{Op: opWeights[r.PickW(ow)].op}
		o.Obj = []string{"T", "T", "T", "T", "T", "T", "P1", "P2", "D", "D", "U"}[r.Intn(11)]
		switch o.Op {
		case "special":
			switch c.Kind {
			case "ta":
				o = Op{Op: "detach", Obj: "T"}
			case "margs":
				o = Op{Op: "paramset", Obj: "T", Idx: r.Intn(2), Val: core.Pick(r, []string{"1", "2", "sa", "u", "V1"})}
			default:
				continue
			}
		case "define":
			o.Key, o.Num = pickKey(r, c)
			switch r.Intn(10) {
			case 0, 1, 2:
				o.Mask = r.Intn(64) // any of the 64 field-presence patterns
			case 3, 4, 5:
				o.Mask = r.Intn(64) &^ (4 | 8) // data / generic
			case 6, 7:
				o.Mask = r.Intn(64) &^ (1 | 2) // accessor / generic
			case 8:
				o.Mask = 1 | 2 | 16 | 32
			default:
				o.Mask = 1 << r.Intn(6)
			}
			o.Flags = r.Intn(8)
			if o.Mask == 1|2|16|32 && r.Chance(1, 3) {
				o.Flags = 7
			}
			if o.Mask&1 != 0 {
				o.Val = genValue(r, c, &o)
			}
			if o.Mask&4 != 0 {
				o.Get = core.Pick(r, []string{"G1", "G1", "G2", "GT", "u", "bad"})
			}
			if o.Mask&8 != 0 {
				o.Set = core.Pick(r, []string{"St1", "St1", "St2", "StT", "u", "bad"})
			}
		case "set":
			o.Key, o.Num = pickKey(r, c)
			o.Val = genValue(r, c, &o)
			if o.Key == "__proto__" && r.Chance(2, 3) {
				o.Val = core.Pick(r, []string{"P1", "P2", "U", "n", "T", "D"})
			}
			if r.Chance(1, 3) {
				o.Recv = core.Pick(r, []string{"T", "P1", "P2", "D", "U", "1", "sa", "t", "T", "D"})
			}
		case "get":
			o.Key, o.Num = pickKey(r, c)
			if r.Chance(1, 3) {
				o.Recv = core.Pick(r, []string{"T", "P1", "D", "U", "1", "sa"})
			}
		case "delete", "has", "hasOwn", "isEnum", "gopd":
			o.Key, o.Num = pickKey(r, c)
		case "setProto":
			o.Val = core.Pick(r, []string{"P1", "P2", "T", "D", "U", "n", "n", "V1", "1", "u"})
		}
		// issuer
		var ok []string
		for _, iss := range issuers[o.Op] {
			if issuerOK(&o, iss) {
				ok = append(ok, iss)
			}
		}
		if o.Op == "setProto" && !isObjectValue(o.Val) && o.Val != "n" {
			ok = []string{"object", "reflect"}
		}
		if len(ok) == 0 {
			continue
		}
		o.Iss = core.Pick(r, ok)
		if o.Iss == "go" {
			o.Num = false
		}
		if excluded(c, &o) {
			continue
		}
		c.Ops = append(c.Ops, o)
	}
	// issuers of the prelude ops
	for i := range c.Ops {
		if c.Ops[i].Iss == "" {
			o := &c.Ops[i]
			var ok []string
			for _, iss := range issuers[o.Op] {
				if issuerOK(o, iss) {
					ok = append(ok, iss)
				}
			}
			o.Iss = core.Pick(r, ok)
			if o.Iss == "go" {
				o.Num = false
			}
		}
	}
	return c
}

// twinOps derives the op list of the twin world.
func twinOps(c *Case) []Op {
	ops := append([]Op(nil), c.Ops...)
	switch c.Twin {
	case "spelling":
		for i := range ops {
			if ops[i].Key != "" && keyByName[ops[i].Key].num && ops[i].Iss != "go" {
				ops[i].Num = !ops[i].Num
			}
		}
	default:
		r := core.NewRng(c.TSeed)
		for i := range ops {
			o := &ops[i]
			var ok []string
			for _, iss := range issuers[o.Op] {
				if issuerOK(o, iss) {
					ok = append(ok, iss)
				}
			}
			if o.Op == "setProto" && !isObjectValue(o.Val) && o.Val != "n" {
				ok = []string{"object", "reflect"}
			}
			if len(ok) > 1 {
				// prefer a different issuer
				cand := core.Pick(r, ok)
				if cand == o.Iss {
					cand = core.Pick(r, ok)
				}
				o.Iss = cand
			}
			if o.Iss == "go" {
				o.Num = false
			}
		}
	}
	return ops
}
