package c04

import (
	"os"
	"strings"

	"verif/harness/core"
	"verif/harness/objmodel"
)

// quarantine: ids of known findings (known-findings.d/C04.json) whose minimal syntactic neighbourhood the generator
// avoids while the finding is listed (DESIGN §5).  The pinned witness of each finding still runs in every tier.
var quarantine = func() map[string]bool {
	q := map[string]bool{}
	if s, ok := os.LookupEnv("VERIF_C04_QUARANTINE"); ok {
		// development aid (trial runs against a patched tree): explicit list instead of the findings file
		for _, id := range strings.Split(s, ",") {
			if id != "" {
				q[id] = true
			}
		}
		return q
	}
	f := core.LoadFindings()
	for _, k := range f.Findings {
		if k.Property == "C04" {
			q[k.ID] = true
		}
	}
	return q
}()

// Quarantine ids (each is the id of a known finding; the rule is the minimal syntactic neighbourhood of its witness).
const (
	qSetForeignSym   = "C04-setForeignSym-receiver"
	qKindChange      = "C04-define-kind-change-nonconfigurable"
	qErrMsgConv      = "C04-error-message-stringifies-object"
	qDynCycle        = "C04-dynamic-proto-cycle"
	qDynDefine       = "C04-dynamic-define-without-value"
	qSliceLengthKey  = "C04-slice-wrapper-ownkeys-length"
	qStringIndex     = "C04-string-index-redefine"
	qMappedArgs      = "C04-mapped-arguments-attributes"
	qLengthConvOrder = "C04-array-length-set-conversion-order"
	qArrayProto      = "C04-array-prototype-length-bookkeeping"
	qLazyProto       = "C04-lazy-function-prototype-order"
	qRefMapConfig    = "C04-reflect-map-entries-nonconfigurable"
	qTruncation      = "C04-array-length-truncation-nonconfigurable"
	qDynArrGet       = "C04-dynamic-array-get-string-index"
	qGoMapForeignIdx = "C04-gomap-setforeignidx"
	qHostSlice       = "C04-host-slice-elements-nonconfigurable-removable"
	qLiveEnum        = "C04-exotic-enumeration-live-keys"
	qSliceSealWipe   = "C04-slice-seal-wipes-elements" // neighbourhood (seal/freeze/define without value on slice wrappers) is inside qHostSlice's
)

func isIndexKey(k string) bool {
	ki := keyByName[k]
	return ki != nil && (ki.class == "index" || ki.class == "index-max")
}

// excluded reports whether op lies in the neighbourhood of a listed known finding.
func excluded(c *Case, o *Op) bool {
	onT := o.Obj == "T"
	arrayKind := c.Kind == "dense" || c.Kind == "sparse" || c.Kind == "arrayproto"
	if quarantine[qSetForeignSym] {
		// Reflect.set(target, <symbol>, v, <object receiver other than target>)
		if o.Op == "set" && o.Recv != "" && o.Recv != o.Obj && keyByName[o.Key].sym != "" && isObjectValue(o.Recv) {
			return true
		}
	}
	if quarantine[qKindChange] && o.Op == "define" {
		// a data descriptor without [[Value]], or an accessor descriptor whose given functions are all undefined
		if o.Mask&2 != 0 && o.Mask&(1|4|8) == 0 {
			return true
		}
		if o.Mask&(4|8) != 0 && o.Mask&(1|2) == 0 && (o.Mask&4 == 0 || o.Get == "u") && (o.Mask&8 == 0 || o.Set == "u") {
			return true
		}
	}
	if quarantine[qErrMsgConv] {
		// a failing delete reported by throwing while a @@toStringTag accessor may be on the chain
		if o.Op == "delete" && (o.Iss == "jss" || o.Iss == "go") {
			for _, k := range c.Keys {
				if k == "@@toStringTag" {
					return true
				}
			}
		}
		// arrays and typed arrays convert themselves to a string even when the failure is not reported by throwing
		if o.Op == "delete" && onT && (arrayKind || c.Kind == "ta") && keyByName[o.Key].sym == "" {
			if _, isNum := objmodelNumeric(keyByName[o.Key].str); isNum {
				return true
			}
		}
	}
	if quarantine[qDynCycle] {
		// [[SetPrototypeOf]] of a Dynamic object/array to an object (a cycle kills the process)
		if (c.Kind == "dynobj" || c.Kind == "dynarr") && onT && (o.Op == "setProto" || o.Op == "set" && o.Key == "__proto__") && isObjectValue(o.Val) {
			return true
		}
	}
	if quarantine[qDynDefine] {
		if (c.Kind == "dynobj" || c.Kind == "dynarr") && onT && o.Op == "define" && o.Mask&1 == 0 {
			return true
		}
	}
	if quarantine[qSliceLengthKey] {
		if c.Kind == "dynarr" && onT && o.Op == "ownKeys" && o.Iss == "go" {
			return true
		}
	}
	if quarantine[qStringIndex] {
		// [[DefineOwnProperty]] on a String object's character index
		if c.Kind == "string" && o.Op == "define" && onT && (o.Key == "0" || o.Key == "1") {
			return true
		}
	}
	if quarantine[qMappedArgs] && c.Kind == "margs" && onT {
		if o.Op == "define" && (o.Key == "0" || o.Key == "1") && (o.Mask&16 != 0 && o.Flags&2 == 0 || o.Mask&32 != 0 && o.Flags&4 == 0) {
			return true
		}
		if o.Op == "seal" || o.Op == "freeze" {
			return true
		}
	}
	if (quarantine[qLengthConvOrder] || quarantine[qTruncation]) && arrayKind && o.Key == "length" && (onT || o.Recv == "T") {
		// conversion order: assignments whose value does not convert to a valid length; truncation: any shrinking write
		if o.Op == "set" && quarantine[qLengthConvOrder] {
			switch o.Val {
			case "0", "1", "2", "300", "big", "s7", "-0", "n", "t", "f", "s":
			default:
				return true
			}
		}
		if (o.Op == "set" || o.Op == "define" && o.Mask&1 != 0) && quarantine[qTruncation] && o.Val != "big" {
			return true
		}
	}
	if quarantine[qArrayProto] && c.Kind == "arrayproto" && (onT || o.Recv == "T") {
		if o.Op == "set" && (isIndexKey(o.Key) || o.Key == "length") {
			return true
		}
		if o.Op == "define" && o.Key == "length" && o.Mask&2 != 0 && o.Flags&1 == 0 {
			return true
		}
	}
	if quarantine[qRefMapConfig] && c.Kind == "gorefmap" && onT && o.Op == "delete" {
		return true
	}
	if quarantine[qDynArrGet] && c.Kind == "dynarr" && o.Op == "get" && (onT || o.Obj == "D") && o.Key != "" && keyByName[o.Key].sym == "" {
		if _, isNum := objmodelNumeric(keyByName[o.Key].str); isNum {
			return true
		}
	}
	if quarantine[qGoMapForeignIdx] && c.Kind == "gomap" && o.Op == "set" && isIndexKey(o.Key) && (o.Recv != "" || o.Obj == "D") {
		return true
	}
	if quarantine[qLiveEnum] && (c.Kind == "dense" || c.Kind == "sparse" || c.Kind == "string") {
		// arrays / String objects enumerate live: no key-adding mutator on T while an enumeration may be in progress
		adds := func(b *Op) bool {
			return b != nil && (b.Op == "set" || b.Op == "define") && (b.Obj == "T" || b.Recv == "T")
		}
		if o.Op == "enum" && adds(o.Body) {
			return true
		}
		// the sparse iterator (a dense array may have switched to sparse storage) indexes the live item list: a deletion
		// before the current position skips an element
		if o.Op == "enum" && c.Kind != "string" && o.Body != nil && (o.Body.Obj == "T" || o.Body.Recv == "T") {
			return true
		}
		if o.Op == "enumopen" && (o.Obj == "T" || o.Obj == "D") {
			return true
		}
	}
	if quarantine[qSliceSealWipe] && (c.Kind == "goslice" || c.Kind == "gorefslice") && onT {
		if o.Op == "seal" || o.Op == "freeze" || o.Op == "define" && o.Mask&1 == 0 {
			return true
		}
	}
	if quarantine[qHostSlice] {
		// Go slice wrappers: elements are reported non-configurable but vanish when length shrinks, and a non-extensible
		// wrapper still grows: no length writes and no integrity ops on the wrapper
		if (c.Kind == "goslice" || c.Kind == "gorefslice") && (onT || o.Recv == "T") {
			if o.Key == "length" && (o.Op == "set" || o.Op == "define") || o.Op == "preventExtensions" || o.Op == "seal" || o.Op == "freeze" {
				return true
			}
		}
	}
	return false
}

func objmodelNumeric(s string) (float64, bool) {
	return objmodel.StrKey(s).CanonicalNumericIndex()
}

func isObjectValue(n string) bool {
	for _, x := range objectValueNames {
		if x == n {
			return true
		}
	}
	return false
}

// keys relevant per kind get extra weight
func kindKeys(kind string) []string {
	switch kind {
	case "function", "class", "method", "generator", "async":
		return []string{"prototype", "length", "name", "@@hasInstance"}
	case "arrow", "bound":
		return []string{"prototype", "length", "name"}
	case "dense", "sparse", "arrayproto", "goslice", "gorefslice", "dynarr":
		return []string{"length", "0", "1", "2", "7", "5000", "4294967294", "4294967295", "@@unscopables", "@@iterator"}
	case "margs", "uargs":
		return []string{"0", "1", "2", "length", "callee", "@@iterator"}
	case "string":
		return []string{"0", "1", "2", "length", "-0", "1.5"}
	case "ta":
		return []string{"0", "1", "2", "7", "-0", "1.5", "-1", "NaN", "1e3", "length", "4294967295"}
	case "gostruct":
		return []string{"A", "B", "M", "a"}
	case "gomap", "gorefmap", "dynobj":
		return []string{"a", "b", "0", "1"}
	case "global", "math":
		return []string{"a", "NaN", "name", "@@toStringTag"}
	}
	return nil
}

func hostSliceKind(kind string) bool {
	return kind == "goslice" || kind == "gorefslice" || kind == "dynarr"
}

var opWeights = []struct {
	op string
	w  int
}{
	{"define", 26}, {"set", 18}, {"get", 8}, {"delete", 9}, {"has", 4}, {"hasOwn", 3}, {"isEnum", 1}, {"gopd", 5}, {"ownKeys", 4}, {"keys", 3}, {"forin", 2},
	{"syms", 1}, {"entries", 1}, {"preventExtensions", 2}, {"seal", 2}, {"freeze", 2}, {"isSealed", 1}, {"isFrozen", 1}, {"isExtensible", 1},
	{"getProto", 2}, {"setProto", 5}, {"special", 2}, {"enum", 7}, {"enumopen", 2}, {"enumnext", 4},
}

var valueNames = []string{"u", "n", "t", "1", "2", "-0", "0", "nan", "1.5", "2.5", "300", "-1", "sa", "sb", "s7", "s", "V1", "V2", "symS1", "T", "P1", "D"}

func pickKey(r *core.Rng, c *Case) (string, bool) {
	k := core.Pick(r, c.Keys)
	num := keyByName[k].num && r.Chance(1, 2)
	return k, num
}

func genValue(r *core.Rng, c *Case, o *Op) string {
	v := core.Pick(r, valueNames)
	if o.Key == "length" && !hostSliceKind(c.Kind) && r.Chance(1, 3) {
		v = core.Pick(r, []string{"0", "1", "2", "big", "2^32", "s7", "300"})
	}
	if hostSliceKind(c.Kind) && o.Key == "length" {
		v = core.Pick(r, []string{"0", "1", "2", "s7", "300", "-1", "1.5", "u"})
	}
	return v
}

func genCase(r *core.Rng) *Case {
	c := &Case{Mode: "seq"}
	w := make([]int, len(kinds))
	for i := range kinds {
		w[i] = kinds[i].weight
	}
	ki := &kinds[r.PickW(w)]
	c.Kind = ki.name
	if len(ki.args) > 0 {
		c.Arg = core.Pick(r, ki.args)
	}
	// key subset: 3–6 keys, at least two key kinds
	nk := r.Range(3, 6)
	rel := kindKeys(c.Kind)
	have := map[string]bool{}
	classes := map[string]bool{}
	for len(c.Keys) < nk || len(classes) < 2 {
		var k string
		if len(rel) > 0 && r.Chance(1, 2) {
			k = core.Pick(r, rel)
		} else {
			k = keyPool[r.Intn(len(keyPool))].name
		}
		if have[k] {
			continue
		}
		if quarantine[qSliceLengthKey] && k == "length" && (c.Kind == "goslice" || c.Kind == "gorefslice") {
			continue // the wrappers do not list their own 'length': every observation would re-derive the finding
		}
		if hostSliceKind(c.Kind) || c.Kind == "gorefmap" {
			// host slices grow to the index written (memory exhaustion by construction): small indices only
			switch k {
			case "5000", "4294967294", "4294967295":
				continue
			}
		}
		have[k] = true
		classes[keyByName[k].class] = true
		c.Keys = append(c.Keys, k)
	}
	c.Twin = "issuer"
	if r.Chance(1, 3) {
		c.Twin = "spelling"
	}
	c.TSeed = r.U64()
	// prelude: build the prototype chain and decorate it
	n := r.Range(8, 40)
	depth := r.Intn(3)
	if depth >= 1 {
		c.Ops = append(c.Ops, Op{Op: "setProto", Obj: "T", Val: "P1"})
	}
	if depth >= 2 {
		c.Ops = append(c.Ops, Op{Op: "setProto", Obj: "P1", Val: "P2"})
	}
	if depth >= 1 && r.Chance(1, 4) {
		c.Ops = append(c.Ops, Op{Op: "setProto", Obj: core.Pick(r, []string{"P1", "P2"}), Val: "n"})
	}
	for i := 0; i < depth*2; i++ {
		o := Op{Op: "define", Obj: core.Pick(r, []string{"P1", "P2"}[:depth])}
		o.Key, o.Num = pickKey(r, c)
		if r.Bool() {
			o.Mask = 4 | 8 | 16 | 32
			o.Get, o.Set = core.Pick(r, getterNames), core.Pick(r, setterNames)
			o.Flags = r.Intn(8)
		} else {
			o.Mask = 1 | 2 | 16 | 32
			o.Val = core.Pick(r, valueNames)
			o.Flags = r.Intn(8) &^ 1
		}
		c.Ops = append(c.Ops, o)
	}
	var pending []pendingRep
	if (c.Kind == "dense" || c.Kind == "sparse") && r.Chance(1, 2) {
		lengthProbe(r, c)
	}
	ow := make([]int, len(opWeights))
	for i := range opWeights {
		ow[i] = opWeights[i].w
	}
	for tries := 0; len(c.Ops) < n && tries < 400; tries++ {
		o := Op{Op: opWeights[r.PickW(ow)].op}
		o.Obj = []string{"T", "T", "T", "T", "T", "T", "P1", "P2", "D", "D", "U"}[r.Intn(11)]
		switch o.Op {
		case "special":
			switch c.Kind {
			case "ta":
				o = Op{Op: "detach", Obj: "T"}
			case "margs":
				o = Op{Op: "paramset", Obj: "T", Idx: r.Intn(2), Val: core.Pick(r, []string{"1", "2", "sa", "u", "V1"})}
			default:
				continue
			}
		case "define":
			o.Key, o.Num = pickKey(r, c)
			switch r.Intn(10) {
			case 0, 1, 2:
				o.Mask = r.Intn(64) // any of the 64 field-presence patterns
			case 3, 4, 5:
				o.Mask = r.Intn(64) &^ (4 | 8) // data / generic
			case 6, 7:
				o.Mask = r.Intn(64) &^ (1 | 2) // accessor / generic
			case 8:
				o.Mask = 1 | 2 | 16 | 32
			default:
				o.Mask = 1 << r.Intn(6)
			}
			o.Flags = r.Intn(8)
			if o.Mask == 1|2|16|32 && r.Chance(1, 3) {
				o.Flags = 7
			}
			if o.Mask&1 != 0 {
				o.Val = genValue(r, c, &o)
			}
			if o.Mask&4 != 0 {
				o.Get = core.Pick(r, []string{"G1", "G1", "G2", "GT", "GM", "u", "bad"})
			}
			if o.Mask&8 != 0 {
				o.Set = core.Pick(r, []string{"St1", "St1", "St2", "StT", "u", "bad"})
			}
		case "set":
			o.Key, o.Num = pickKey(r, c)
			o.Val = genValue(r, c, &o)
			if o.Key == "__proto__" && r.Chance(2, 3) {
				o.Val = core.Pick(r, []string{"P1", "P2", "U", "n", "T", "D"})
			}
			if r.Chance(1, 3) {
				o.Recv = core.Pick(r, []string{"T", "P1", "P2", "D", "U", "1", "sa", "t", "T", "D"})
			}
		case "get":
			o.Key, o.Num = pickKey(r, c)
			if r.Chance(1, 3) {
				o.Recv = core.Pick(r, []string{"T", "P1", "D", "U", "1", "sa"})
			}
		case "enum":
			o.Iss = core.Pick(r, issuers["enum"])
			o.Step = r.Intn(3)
			o.Brk = (o.Iss == "forin" || o.Iss == "forin-strict") && r.Bool()
			b := Op{Op: []string{"delete", "delete", "define", "set"}[r.Intn(4)], Obj: o.Obj}
			if r.Chance(1, 5) {
				b.Obj = core.Pick(r, worldObjects)
			}
			b.Key, b.Num = pickKey(r, c)
			switch b.Op {
			case "define":
				b.Mask = []int{1 | 2 | 16 | 32, 1, 4 | 8 | 16 | 32, 16, 32}[r.Intn(5)]
				b.Flags = r.Intn(8)
				if b.Mask&1 != 0 {
					b.Val = genValue(r, c, &b)
				}
				if b.Mask&4 != 0 {
					b.Get, b.Set = core.Pick(r, []string{"G1", "G2", "u"}), core.Pick(r, []string{"St1", "u"})
				}
			case "set":
				b.Val = genValue(r, c, &b)
			}
			var bok []string
			for _, iss := range issuers[b.Op] {
				if issuerOK(&b, iss) {
					bok = append(bok, iss)
				}
			}
			b.Iss = core.Pick(r, bok)
			if b.Iss == "go" {
				b.Num = false
			}
			if excluded(c, &b) {
				continue
			}
			o.Body = &b
			if o.Iss != "forin" && o.Iss != "forin-strict" && r.Chance(2, 3) && len(c.Ops) < n-1 {
				// give the source an enumerable accessor whose getter (GM) runs the body
				g := Op{Op: "define", Obj: o.Obj, Mask: 4 | 16 | 32, Get: "GM", Flags: 2 | 4, Iss: core.Pick(r, []string{"object", "reflect", "objects"})}
				g.Key, g.Num = pickKey(r, c)
				if !excluded(c, &g) {
					c.Ops = append(c.Ops, g)
				}
			}
		case "enumopen", "enumnext":
		case "delete", "has", "hasOwn", "isEnum", "gopd":
			o.Key, o.Num = pickKey(r, c)
		case "setProto":
			o.Val = core.Pick(r, []string{"P1", "P2", "T", "D", "U", "n", "n", "V1", "1", "u"})
		}
		// issuer
		var ok []string
		for _, iss := range issuers[o.Op] {
			if issuerOK(&o, iss) {
				ok = append(ok, iss)
			}
		}
		if o.Op == "setProto" && !isObjectValue(o.Val) && o.Val != "n" {
			ok = []string{"object", "reflect"}
		}
		if len(ok) == 0 {
			continue
		}
		if o.Op != "enum" {
			o.Iss = core.Pick(r, ok)
		}
		if o.Iss == "go" {
			o.Num = false
		}
		if excluded(c, &o) {
			continue
		}
		c.Ops = append(c.Ops, o)
		// repeat modifier: re-issue a status op 1-3 times at once and once more a few ops later, through the same or
		// another issuer (a rejected operation must stay rejected and must not wear the object down)
		if isStatusOp(o.Op) && o.Op != "seal" && o.Op != "freeze" && r.Chance(1, 4) {
			for k := r.Range(1, 3); k > 0 && len(c.Ops) < n; k-- {
				c.Ops = append(c.Ops, repeatOf(r, c, &o))
			}
			pending = append(pending, pendingRep{at: len(c.Ops) + r.Range(2, 4), op: o})
		}
		for len(pending) > 0 && pending[0].at <= len(c.Ops) && len(c.Ops) < n {
			c.Ops = append(c.Ops, repeatOf(r, c, &pending[0].op))
			pending = pending[1:]
		}
	}
	// issuers of the prelude ops
	for i := range c.Ops {
		if c.Ops[i].Iss == "" {
			o := &c.Ops[i]
			var ok []string
			for _, iss := range issuers[o.Op] {
				if issuerOK(o, iss) {
					ok = append(ok, iss)
				}
			}
			o.Iss = core.Pick(r, ok)
			if o.Iss == "go" {
				o.Num = false
			}
		}
	}
	return c
}

// twinOps derives the op list of the twin world.
func twinOps(c *Case) []Op {
	ops := append([]Op(nil), c.Ops...)
	switch c.Twin {
	case "spelling":
		for i := range ops {
			if ops[i].Key != "" && keyByName[ops[i].Key].num && ops[i].Iss != "go" {
				ops[i].Num = !ops[i].Num
			}
			if b := ops[i].Body; b != nil && keyByName[b.Key].num && b.Iss != "go" {
				nb := *b
				nb.Num = !nb.Num
				ops[i].Body = &nb
			}
		}
	default:
		r := core.NewRng(c.TSeed)
		for i := range ops {
			o := &ops[i]
			var ok []string
			for _, iss := range issuers[o.Op] {
				if issuerOK(o, iss) {
					ok = append(ok, iss)
				}
			}
			if o.Op == "setProto" && !isObjectValue(o.Val) && o.Val != "n" {
				ok = []string{"object", "reflect"}
			}
			if len(ok) > 1 {
				// prefer a different issuer
				cand := core.Pick(r, ok)
				if cand == o.Iss {
					cand = core.Pick(r, ok)
				}
				trial := *o
				trial.Iss = cand
				if !excluded(c, &trial) {
					o.Iss = cand
				}
			}
			if o.Iss == "go" {
				o.Num = false
			}
		}
	}
	return ops
}

type pendingRep struct {
	at int
	op Op
}

// repeatOf copies an op, re-drawing its issuer.
func repeatOf(r *core.Rng, c *Case, o *Op) Op {
	cp := *o
	cp.Rep = true
	var ok []string
	for _, iss := range issuers[cp.Op] {
		if issuerOK(&cp, iss) {
			trial := cp
			trial.Iss = iss
			if !excluded(c, &trial) {
				ok = append(ok, iss)
			}
		}
	}
	if cp.Op == "setProto" && !isObjectValue(cp.Val) && cp.Val != "n" {
		ok = []string{"object", "reflect"}
	}
	if len(ok) > 0 {
		cp.Iss = core.Pick(r, ok)
	}
	if cp.Iss == "go" {
		cp.Num = false
	} else if cp.Key != "" && keyByName[cp.Key].num {
		cp.Num = r.Bool()
	}
	return cp
}

// lengthProbe appends, for array kinds, a non-configurable data or accessor element and repeated length writes
// below / at / just above it (ArraySetLength must stop at the element every time).
func lengthProbe(r *core.Rng, c *Case) {
	type probe struct{ key, below, at, above string }
	p := core.Pick(r, []probe{{"1", "0", "1", "2"}, {"2", "0", "2", "3"}, {"7", "2", "7", "8"}, {"5000", "7", "5000", "5001"}})
	for _, k := range []string{p.key, "length"} {
		have := false
		for _, x := range c.Keys {
			have = have || x == k
		}
		if !have {
			c.Keys = append(c.Keys, k)
		}
	}
	el := Op{Op: "define", Obj: "T", Key: p.key, Num: r.Bool()}
	if r.Chance(2, 3) {
		el.Mask, el.Val, el.Flags = 1|2|16|32, core.Pick(r, []string{"1", "sa", "V1"}), r.Intn(4) // data, configurable: false
	} else {
		el.Mask, el.Get, el.Set, el.Flags = 4|8|16|32, "G1", core.Pick(r, []string{"St1", "u"}), r.Intn(4)&2
	}
	el.Iss = core.Pick(r, []string{"object", "reflect", "objects", "go"})
	if el.Iss == "go" {
		el.Num = false
	}
	c.Ops = append(c.Ops, el)
	if r.Chance(1, 3) {
		// a second descriptor-valued element below
		c.Ops = append(c.Ops, Op{Op: "define", Obj: "T", Key: "0", Mask: 1 | 2 | 16 | 32, Val: "2", Flags: core.Pick(r, []int{2, 6, 7}), Iss: core.Pick(r, []string{"object", "reflect"})})
	}
	for k := r.Range(2, 4); k > 0; k-- {
		v := core.Pick(r, []string{p.below, p.below, p.at, p.at, p.above, "0"})
		var o Op
		if r.Chance(2, 3) {
			o = Op{Op: "set", Obj: "T", Key: "length", Val: v, Iss: core.Pick(r, []string{"js", "jss", "reflect", "go"})}
		} else {
			o = Op{Op: "define", Obj: "T", Key: "length", Mask: 1, Val: v, Iss: core.Pick(r, []string{"object", "reflect", "objects", "go"})}
		}
		if !excluded(c, &o) {
			c.Ops = append(c.Ops, o)
		}
	}
}
