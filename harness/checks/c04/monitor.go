package c04

import (
	"sort"
	"strconv"
	"strings"

	"verif/harness/core"
	"verif/harness/objmodel"
)

type monitors struct {
	st    *core.Stats
	trace bool // replay: print every step
}

// ---------------------------------------------------------------------------------------------------------------
// (2) model-free invariant monitor

type propObs struct {
	key      string // rendered key
	accessor bool
	value    string // data: value rendering; accessor: "get set"
	w, e, c  bool
	ok       bool // descriptor well-formed
	absent   bool // ownKeys listed the key but getOwnPropertyDescriptor gave undefined
}

type invState struct {
	nc        map[string]propObs // keys seen non-configurable → last observation
	nonExt    bool
	protoAtNE string
	keysAtNE  map[string]bool
	prevOrder []string
}

func parseDesc(key, d string) propObs {
	p := propObs{key: key}
	if d == "u" {
		p.absent = true
		return p
	}
	if len(d) < 4 || d[0] != '{' || d[len(d)-1] != '}' {
		return p
	}
	f := strings.Split(d[1:len(d)-1], " ")
	n := len(f)
	flag := func(s string) (bool, bool) { return s == "1", s == "1" || s == "0" }
	switch {
	case f[0] == "d" && n >= 5:
		var o1, o2, o3 bool
		p.value = strings.Join(f[1:n-3], " ")
		p.w, o1 = flag(f[n-3])
		p.e, o2 = flag(f[n-2])
		p.c, o3 = flag(f[n-1])
		p.ok = o1 && o2 && o3
	case f[0] == "a" && n == 5:
		var o1, o2 bool
		p.accessor = true
		p.value = f[1] + " " + f[2]
		p.e, o1 = flag(f[3])
		p.c, o2 = flag(f[4])
		p.ok = o1 && o2
	}
	return p
}

type parsedDump struct {
	ext   bool
	proto string
	props []propObs
}

func parseDump(d string) (pd parsedDump, ok bool) {
	if i := strings.IndexByte(d, '~'); i >= 0 {
		d = d[:i]
	}
	parts := strings.SplitN(d, "|", 3)
	if len(parts) != 3 {
		return pd, false
	}
	pd.ext = parts[0] == "1"
	pd.proto = parts[1]
	if parts[2] != "" {
		for _, rec := range strings.Split(parts[2], ";") {
			k, ds, found := strings.Cut(rec, "=")
			if !found {
				return pd, false
			}
			pd.props = append(pd.props, parseDesc(k, ds))
		}
	}
	return pd, true
}

// keyClass: 0 array index, 1 other string, 2 symbol.
func keyClass(k string) (int, uint32) {
	if strings.HasPrefix(k, "y:") {
		return 2, 0
	}
	if i, ok := objmodel.StrKey(strings.TrimPrefix(k, "s:")).ArrayIndex(); ok {
		return 0, i
	}
	return 1, 0
}

func (w *world) invariants(name, dump, probes, opKey string, unordered bool) {
	st := w.mon.st
	st.Inc("invariant_observations")
	pd, ok := parseDump(dump)
	if !ok {
		w.stop("driver-error", "unparsable dump of %s: %s", name, dump)
	}
	is := w.inv[name]
	if is == nil {
		is = &invState{nc: map[string]propObs{}}
		w.inv[name] = is
	}
	kind := w.c.Kind
	isT := name == "T"
	fail := func(rule, format string, args ...any) {
		w.stop("invariant:"+rule, "object %s (kind %s) after op %d: "+format+"\n  dump: %s", append(append([]any{name, kindOfName(w, name), w.opIndex}, args...), dump)...)
	}
	// own keys unique, every listed key has a well-formed descriptor
	seen := map[string]propObs{}
	for _, p := range pd.props {
		if _, dup := seen[p.key]; dup {
			fail("duplicate-key", "own key %s listed twice", p.key)
		}
		seen[p.key] = p
		if p.absent {
			fail("key-without-descriptor", "ownKeys lists %s but getOwnPropertyDescriptor returns undefined", p.key)
		}
		if !p.ok {
			fail("malformed-descriptor", "descriptor of %s is incomplete", p.key)
		}
	}
	// order: array indices ascending, then strings, then symbols
	if !unordered {
		lastClass, lastIdx := 0, int64(-1)
		for _, p := range pd.props {
			c, idx := keyClass(p.key)
			if c < lastClass {
				fail("key-order", "key %s appears after a key of a later class (indices, strings, symbols)", p.key)
			}
			if c == 0 {
				if int64(idx) <= lastIdx {
					fail("key-order", "array index %s is not in ascending order", p.key)
				}
				lastIdx = int64(idx)
			}
			lastClass = c
		}
	}
	// once non-configurable …
	ncKeys := make([]string, 0, len(is.nc))
	for k := range is.nc {
		ncKeys = append(ncKeys, k)
	}
	sort.Strings(ncKeys)
	for _, k := range ncKeys {
		old := is.nc[k]
		st.Inc("invariant_nonconfigurable_rechecks")
		now, present := seen[k]
		switch {
		case !present:
			fail("nonconfigurable-vanished", "key %s was observed non-configurable (%s) and is now absent", k, descText(old))
		case now.c:
			fail("nonconfigurable-became-configurable", "key %s was non-configurable, now %s", k, descText(now))
		case now.accessor != old.accessor:
			fail("nonconfigurable-kind-change", "key %s was %s, now %s", k, descText(old), descText(now))
		case now.e != old.e:
			fail("nonconfigurable-enumerable-change", "key %s was %s, now %s", k, descText(old), descText(now))
		case old.accessor && now.value != old.value:
			fail("nonconfigurable-accessor-change", "key %s was %s, now %s", k, descText(old), descText(now))
		case !old.accessor && !old.w && now.w:
			fail("nonwritable-became-writable", "key %s was %s, now %s", k, descText(old), descText(now))
		case !old.accessor && !old.w && now.value != old.value:
			fail("nonwritable-value-change", "key %s was %s, now %s", k, descText(old), descText(now))
		}
	}
	for _, p := range pd.props {
		if !p.c {
			is.nc[p.key] = p
		}
	}
	// once non-extensible …
	if is.nonExt {
		if pd.ext {
			fail("nonextensible-became-extensible", "object was non-extensible and is extensible again")
		}
		if pd.proto != is.protoAtNE {
			fail("nonextensible-prototype-change", "prototype of a non-extensible object changed from %s to %s", is.protoAtNE, pd.proto)
		}
		for _, p := range pd.props {
			if !is.keysAtNE[p.key] {
				fail("nonextensible-gained-key", "non-extensible object gained key %s", p.key)
			}
		}
	}
	if !pd.ext {
		is.nonExt = true
		is.protoAtNE = pd.proto
		is.keysAtNE = map[string]bool{}
		for _, p := range pd.props {
			is.keysAtNE[p.key] = true
		}
	}
	// relative order of surviving non-index keys is stable from one observation to the next (a single op cannot
	// delete and re-create a key); the op's own key is exempt
	if !unordered && (w.spec || !isT) {
		opk := ""
		if opKey != "" {
			ki := keyByName[opKey]
			if ki.sym != "" {
				opk = "y:" + ki.sym
			} else {
				opk = "s:" + ki.str
			}
		}
		var cur []string
		for _, p := range pd.props {
			if c, _ := keyClass(p.key); c != 0 {
				cur = append(cur, p.key)
			}
		}
		pos := map[string]int{}
		for i, k := range cur {
			pos[k] = i
		}
		last := -1
		lastKey := ""
		for _, k := range is.prevOrder {
			if k == opk {
				continue
			}
			if i, ok := pos[k]; ok {
				if i < last {
					fail("key-order-unstable", "keys %s and %s swapped their relative order without being deleted", lastKey, k)
				}
				last, lastKey = i, k
			}
		}
		is.prevOrder = cur
	}
	// probes: ownKeys ≡ keys with descriptors ≡ hasOwn; has ⇔ own ∨ prototype-has
	if probes != "" {
		bits := strings.Split(strings.TrimSuffix(probes, ","), ",")
		for i, b := range bits {
			if i >= len(w.c.Keys) || len(b) != 4 {
				continue
			}
			ki := keyByName[w.c.Keys[i]]
			rk := "s:" + ki.str
			if ki.sym != "" {
				rk = "y:" + ki.sym
			}
			own, hasOwn, has, protoHas := b[0] == '1', b[1] == '1', b[2] == '1', b[3] == '1'
			_, listed := seen[rk]
			st.Inc("invariant_probe_checks")
			if own != listed {
				fail("ownkeys-vs-descriptor", "key %s: listed by ownKeys=%v but getOwnPropertyDescriptor defined=%v", rk, listed, own)
			}
			if own != hasOwn {
				fail("hasown-vs-descriptor", "key %s: hasOwnProperty=%v but getOwnPropertyDescriptor defined=%v", rk, hasOwn, own)
			}
			expHas := own || protoHas
			if isT && kind == "ta" && ki.sym == "" {
				if _, num := objmodel.StrKey(ki.str).CanonicalNumericIndex(); num {
					expHas = own // §10.4.5.2: canonical numeric keys never reach the prototype
				}
			}
			if has != expHas {
				fail("has-vs-descriptor", "key %s: 'in' gives %v, own descriptor defined=%v, prototype has=%v", rk, has, own, protoHas)
			}
		}
	}
	if isT && !w.spec {
		w.hostRules(pd, fail)
	}
}

func kindOfName(w *world, name string) string {
	if name == "T" {
		return w.c.Kind
	}
	return "plain"
}

func descText(p propObs) string {
	if p.accessor {
		return "{accessor " + p.value + " e=" + b01(p.e) + " c=" + b01(p.c) + "}"
	}
	return "{data " + p.value + " w=" + b01(p.w) + " e=" + b01(p.e) + " c=" + b01(p.c) + "}"
}

func b01(b bool) string {
	if b {
		return "1"
	}
	return "0"
}

// hostRules: what goja documents for host objects (runtime.go ToValue, object_dynamic.go).
func (w *world) hostRules(pd parsedDump, fail func(rule, format string, args ...any)) {
	w.mon.st.Inc("invariant_host_rule_checks")
	switch w.c.Kind {
	case "gostruct":
		for _, p := range pd.props {
			if strings.HasPrefix(p.key, "y:") {
				continue
			}
			switch p.key {
			case "s:A", "s:B", "s:C":
				if p.accessor || !p.w || p.c {
					fail("host-struct-field", "documented: field properties are writable and non-configurable; %s is %s", p.key, descText(p))
				}
			case "s:M":
				if p.accessor || p.w || p.c {
					fail("host-struct-method", "documented: method properties are non-writable and non-configurable; %s is %s", p.key, descText(p))
				}
			default:
				fail("host-struct-new-key", "documented: defining a new string property on a struct wrapper fails; found %s", p.key)
			}
		}
	case "dynobj":
		if !pd.ext {
			fail("host-dynamic-extensible", "documented: a DynamicObject is always extensible")
		}
		for _, p := range pd.props {
			if p.accessor || !p.w || !p.e || !p.c {
				fail("host-dynamic-attributes", "documented: all properties of a DynamicObject are writable, enumerable, configurable data properties; %s is %s", p.key, descText(p))
			}
			if strings.HasPrefix(p.key, "y:") {
				fail("host-dynamic-symbol", "documented: a DynamicObject cannot have own symbol properties; found %s", p.key)
			}
		}
	case "dynarr":
		if !pd.ext {
			fail("host-dynamic-extensible", "documented: a DynamicArray is always extensible")
		}
		for _, p := range pd.props {
			if c, _ := keyClass(p.key); c == 0 && (p.accessor || !p.w || !p.e || !p.c) {
				fail("host-dynamic-attributes", "documented: elements of a DynamicArray are writable, enumerable, configurable data properties; %s is %s", p.key, descText(p))
			}
			if c, _ := keyClass(p.key); c == 1 && p.key != "s:length" {
				fail("host-dynamic-string-key", "documented: a DynamicArray cannot have own string properties except length; found %s", p.key)
			}
		}
		fallthrough
	case "goslice", "gorefslice":
		// no holes below length
		length := -1
		idx := map[uint32]bool{}
		for _, p := range pd.props {
			if p.key == "s:length" && strings.HasPrefix(p.value, "d:") {
				if n, err := strconv.Atoi(p.value[2:]); err == nil {
					length = n
				}
			}
			if c, i := keyClass(p.key); c == 0 {
				idx[i] = true
			}
		}
		if length < 0 {
			// 'length' not listed among the own keys (judged by the ownKeys≡descriptors invariant): the indices must
			// still be contiguous from 0
			length = len(idx)
		}
		for i := 0; i < length && i < 20000; i++ {
			if !idx[uint32(i)] {
				fail("host-slice-hole", "documented: slice wrappers have no holes; index %d < length %d is missing", i, length)
			}
		}
	}
}

// ---------------------------------------------------------------------------------------------------------------
// (3)/(4) agreement between two issuers / two spellings of the same abstract op

// abstractOutcome maps a raw front-end result to the set of abstract outcomes it is compatible with:
// "T"/"F" status, "E:<class>" abrupt, "V:<rendering>" value.
func abstractOutcome(op *Op, raw string) []string {
	if !isStatusOp(op.Op) {
		return []string{"V:" + raw}
	}
	if strings.HasPrefix(raw, "!") {
		if raw == "!TypeError" && op.Iss != "reflect" && op.Iss != "js" {
			return []string{"F", "E:TypeError"}
		}
		return []string{"E:" + raw[1:]}
	}
	switch raw {
	case "b:true":
		return []string{"T"}
	case "b:false":
		return []string{"F"}
	case "ok":
		if op.Iss == "js" {
			return []string{"T", "F"}
		}
		return []string{"T"}
	}
	return []string{"V:" + raw}
}

func intersects(a, b []string) bool {
	for _, x := range a {
		for _, y := range b {
			if x == y {
				return true
			}
		}
	}
	return false
}

// listStringsOnly drops symbol entries from a rendered key list.
func listStringsOnly(l string) string {
	if len(l) < 2 || l[0] != '[' {
		return l
	}
	var out []string
	for _, e := range strings.Split(l[1:len(l)-1], ",") {
		if e != "" && !strings.HasPrefix(e, "y:") {
			out = append(out, e)
		}
	}
	return "[" + strings.Join(out, ",") + "]"
}

func sortList(l string) string {
	if len(l) < 2 || l[0] != '[' {
		return l
	}
	es := strings.Split(l[1:len(l)-1], ",")
	sort.Strings(es)
	return "[" + strings.Join(es, ",") + "]"
}
