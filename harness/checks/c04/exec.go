package c04

import (
	"fmt"
	"sort"
	"strings"

	"github.com/dop251/goja"

	"verif/harness/objmodel"
)

// stepRec is what one world observed for one op.
type stepRec struct {
	raw   string            // canonical rendering of the front-end result
	log   string            // accessor call log produced by the op
	dumps map[string]string // structural dumps of the touched objects after the op
}

func goFlag(mask, maskBit, flags, flagBit int) goja.Flag {
	if mask&maskBit == 0 {
		return goja.FLAG_NOT_SET
	}
	if flags&flagBit != 0 {
		return goja.FLAG_TRUE
	}
	return goja.FLAG_FALSE
}

// issue performs the op on the engine through its issuer and returns the canonical rendering of the result.
func (w *world) issue(op *Op) string {
	o := w.objs[op.Obj]
	rt := w.rt
	var k goja.Value
	var ki *keyInfo
	if op.Key != "" {
		k = w.keyValue(op.Key, op.Num)
		ki = keyByName[op.Key]
	}
	iss := op.Iss
	switch op.Op {
	case "get":
		switch iss {
		case "reflect":
			if op.Recv != "" {
				return w.call("get_reflect", o, k, rt.ToValue(true), w.value(op.Recv))
			}
			return w.call("get_reflect", o, k, rt.ToValue(false))
		case "go":
			return w.goCall("Object.Get", func() string {
				if ki.sym != "" {
					return w.render(o.GetSymbol(w.syms[ki.sym]))
				}
				return w.render(o.Get(ki.str))
			})
		}
		return w.call("get_"+iss, o, k)
	case "set":
		v := w.value(op.Val)
		switch iss {
		case "reflect":
			if op.Recv != "" {
				return w.call("set_reflect", o, k, v, rt.ToValue(true), w.value(op.Recv))
			}
			return w.call("set_reflect", o, k, v, rt.ToValue(false))
		case "go":
			return w.goCall("Object.Set", func() string {
				if ki.sym != "" {
					return errResult(w, o.SetSymbol(w.syms[ki.sym], v))
				}
				return errResult(w, o.Set(ki.str, v))
			})
		}
		return w.call("set_"+iss, o, k, v)
	case "delete":
		if iss == "go" {
			return w.goCall("Object.Delete", func() string {
				if ki.sym != "" {
					return errResult(w, o.DeleteSymbol(w.syms[ki.sym]))
				}
				return errResult(w, o.Delete(ki.str))
			})
		}
		return w.call("delete_"+iss, o, k)
	case "has", "hasOwn", "gopd":
		return w.call(op.Op+"_"+iss, o, k)
	case "isEnum":
		return w.call("hasOwn_pie", o, k)
	case "define":
		var v, g, s goja.Value = goja.Undefined(), goja.Undefined(), goja.Undefined()
		if op.Mask&1 != 0 {
			v = w.value(op.Val)
		}
		if op.Mask&4 != 0 {
			g = w.value(op.Get)
		}
		if op.Mask&8 != 0 {
			s = w.value(op.Set)
		}
		if iss == "go" {
			wr, en, cf := goFlag(op.Mask, 2, op.Flags, 1), goFlag(op.Mask, 16, op.Flags, 2), goFlag(op.Mask, 32, op.Flags, 4)
			return w.goCall("Object.Define*Property", func() string {
				if op.Mask&(4|8) != 0 {
					var gv, sv goja.Value
					if op.Mask&4 != 0 {
						gv = g
					}
					if op.Mask&8 != 0 {
						sv = s
					}
					if ki.sym != "" {
						return errResult(w, o.DefineAccessorPropertySymbol(w.syms[ki.sym], gv, sv, cf, en))
					}
					return errResult(w, o.DefineAccessorProperty(ki.str, gv, sv, cf, en))
				}
				var dv goja.Value
				if op.Mask&1 != 0 {
					dv = v
				}
				if ki.sym != "" {
					return errResult(w, o.DefineDataPropertySymbol(w.syms[ki.sym], dv, wr, cf, en))
				}
				return errResult(w, o.DefineDataProperty(ki.str, dv, wr, cf, en))
			})
		}
		return w.call("define_"+iss, o, k, rt.ToValue(op.Mask), v, g, s, rt.ToValue(op.Flags))
	case "ownKeys":
		if iss == "go" {
			return w.goCall("Object.GetOwnPropertyNames", func() string { return renderGoKeys(o.GetOwnPropertyNames()) })
		}
		return w.call("ownKeys_"+iss, o)
	case "keys":
		if iss == "go" {
			return w.goCall("Object.Keys", func() string { return renderGoKeys(o.Keys()) })
		}
		return w.call("keys_object", o)
	case "forin":
		return w.call("keys_"+iss, o)
	case "syms":
		return w.goCall("Object.Symbols", func() string {
			var parts []string
			for _, s := range o.Symbols() {
				if s == nil {
					parts = append(parts, "nil")
					continue
				}
				parts = append(parts, w.render(s))
			}
			return "[" + strings.Join(parts, ",") + "]"
		})
	case "entries":
		return w.call("entries_object", o)
	case "preventExtensions", "isExtensible":
		return w.call(op.Op+"_"+iss, o)
	case "seal", "freeze", "isSealed", "isFrozen":
		return w.call(op.Op+"_object", o)
	case "getProto":
		if iss == "go" {
			return w.goCall("Object.Prototype", func() string {
				if p := o.Prototype(); p != nil {
					return w.render(p)
				}
				return "n"
			})
		}
		return w.call("getProto_"+iss, o)
	case "setProto":
		v := w.value(op.Val)
		if iss == "go" {
			return w.goCall("Object.SetPrototype", func() string {
				p, _ := v.(*goja.Object)
				return errResult(w, o.SetPrototype(p))
			})
		}
		return w.call("setProto_"+iss, o, v)
	case "enum":
		switch iss {
		case "forin", "forin-strict":
			body := op.Body
			return w.call("enum_"+iss, o, rt.ToValue(op.Step), rt.ToValue(op.Brk), rt.ToValue(func(goja.FunctionCall) goja.Value {
				return rt.ToValue(w.issue(body))
			}))
		}
		w.armed, w.bodyRes = op.Body, "-"
		res := w.call("enum_"+iss, o)
		w.armed = nil
		return res + "|" + w.bodyRes
	case "enumopen":
		w.slotObj = op.Obj
		return w.call("enumOpen", o)
	case "enumnext":
		return w.call("enumNext")
	case "detach":
		return w.goCall("ArrayBuffer.Detach", func() string { w.buf.Detach(); return "ok" })
	case "paramset":
		if w.pset == nil {
			return "ok"
		}
		f := w.pset
		return w.goCall("paramset", func() string {
			if _, err := f(goja.Undefined(), rt.ToValue(op.Idx), w.value(op.Val)); err != nil {
				panic(err)
			}
			return "ok"
		})
	}
	panic("c04: unknown op " + op.Op)
}

func renderGoKeys(keys []string) string {
	var b strings.Builder
	b.WriteByte('[')
	for i, k := range keys {
		if i > 0 {
			b.WriteByte(',')
		}
		b.WriteString("s:" + k)
	}
	b.WriteByte(']')
	return b.String()
}

var issuerMap = map[string]string{"js": objmodel.JS, "jss": objmodel.JSStrict, "object": objmodel.ObjectFn, "objects": objmodel.ObjectPl,
	"reflect": objmodel.ReflectF, "go": objmodel.GoAPI, "field": objmodel.Field, "pie": objmodel.PropIsEn}

// modelIssue performs the op on the model; ood != nil when the model left its domain.
func (w *world) modelIssue(op *Op) (res string, ood *objmodel.OutOfDomain) {
	ood = w.m.Try(func() { res = w.modelOp(op) })
	return
}

func renderEntries(es []objmodel.Entry) string {
	var b strings.Builder
	b.WriteByte('[')
	for i, e := range es {
		if i > 0 {
			b.WriteByte(',')
		}
		b.WriteString(objmodel.RenderKey(e.K) + "=" + objmodel.RenderValue(e.V))
	}
	b.WriteByte(']')
	return b.String()
}

// modelEnum is the model side of enumerate-with-mutation.
func (w *world) modelEnum(op *Op) string {
	m, o := w.m, w.mobjs[op.Obj]
	switch op.Iss {
	case "forin", "forin-strict":
		var visited []objmodel.Key
		bodyRes := "-"
		it := m.NewForIn(o)
		for n := 0; ; n++ {
			k, ok := it.Next()
			if !ok {
				break
			}
			visited = append(visited, k)
			if n == op.Step {
				loose := w.c.Kind == "ta" || w.enumTrigger(op.Obj, op.Body)
				bodyRes = w.modelOp(op.Body)
				if op.Brk {
					break
				}
				if loose {
					// §14.7.5.9: after a removal / prototype or enumerability change (and for typed arrays at all) only the
					// general rules bind the rest of the enumeration: "~<exact prefix>~<key that must not follow>|<body>"
					forbidden := ""
					// the deleted property is ignored — unless the key is (still) reachable through the prototype chain
					if op.Body.Op == "delete" && op.Body.Obj == op.Obj && !ownOnChain(m, o, objmodel.ToPropertyKey(w.modelKeyValue(op.Body.Key, false))) {
						forbidden = objmodel.RenderKey(objmodel.ToPropertyKey(w.modelKeyValue(op.Body.Key, false)))
					}
					return "~" + objmodel.RenderKeys(visited) + "~" + forbidden + "|" + bodyRes
				}
			}
		}
		if w.c.Kind == "ta" {
			return "~[]~|" + bodyRes
		}
		return objmodel.RenderKeys(visited) + "|" + bodyRes
	}
	w.mArmed, w.mBodyRes = op.Body, "-"
	es, thr := m.CopyEnumerableOwn(o, op.Iss == "entries")
	w.mArmed = nil
	if thr != nil {
		return objmodel.RenderThrow(thr) + "|" + w.mBodyRes
	}
	if op.Iss != "entries" {
		// Object.assign(Object.create(null), o) / {__proto__: null, ...o}: the result is rendered in its own key order
		t := objmodel.NewObject("tmp", nil)
		for _, e := range es {
			m.CreateDataProperty(t, e.K, e.V)
		}
		es = es[:0]
		for _, k := range m.OwnPropertyKeys(t) {
			es = append(es, objmodel.Entry{K: k, V: t.RawProp(k).Value})
		}
	}
	return renderEntries(es) + "|" + w.mBodyRes
}

// modelOp performs the op on the model (an OutOfDomain panic travels to the caller's Try).
func (w *world) modelOp(op *Op) string {
	mo := objmodel.Op{Kind: op.Op, Issuer: issuerMap[op.Iss], O: w.mobjs[op.Obj]}
	if op.Key != "" {
		mo.K = w.modelKeyValue(op.Key, op.Num && op.Iss != "go")
	}
	switch op.Op {
	case "isEnum":
		mo.Kind, mo.Issuer = "hasOwn", objmodel.PropIsEn
	case "forin":
		mo.Kind = "keys"
	case "syms":
		mo.Kind, mo.Issuer = "keys", "gosyms"
	case "set", "setProto":
		mo.V = w.modelValue(op.Val)
	case "define":
		d := objmodel.Desc{HasValue: op.Mask&1 != 0, HasW: op.Mask&2 != 0, HasGet: op.Mask&4 != 0, HasSet: op.Mask&8 != 0, HasE: op.Mask&16 != 0, HasC: op.Mask&32 != 0,
			W: op.Flags&1 != 0, E: op.Flags&2 != 0, C: op.Flags&4 != 0}
		if d.HasValue {
			d.Value = w.modelValue(op.Val)
		}
		if d.HasGet {
			d.Get = w.modelValue(op.Get)
		}
		if d.HasSet {
			d.Set = w.modelValue(op.Set)
		}
		mo.D = d
	case "detach":
		w.mobjs["T"].Detach()
		return "ok"
	case "paramset":
		if w.params[op.Idx] != nil {
			*w.params[op.Idx] = w.modelValue(op.Val)
		}
		return "ok"
	case "enum":
		return w.modelEnum(op)
	case "enumopen":
		w.mIter = w.m.NewForIn(w.mobjs[op.Obj])
		w.mIterLoose = w.c.Kind == "ta"
		return "ok"
	case "enumnext":
		if w.mIter == nil {
			return "none"
		}
		if w.mIterLoose {
			return "~next"
		}
		if k, ok := w.mIter.Next(); ok {
			return objmodel.RenderKey(k)
		}
		return "done"
	}
	if op.Recv != "" {
		rv := w.modelValue(op.Recv)
		mo.Recv = &rv
	}
	return w.m.Exec(mo)
}

// exec runs one op in this world: issue, collect the accessor log, observe the touched objects, compare with the
// model, feed the invariant monitor.
func (w *world) exec(i int, op *Op) stepRec {
	w.opIndex = i
	st := w.mon.st
	rec := stepRec{dumps: map[string]string{}}
	if w.mon.trace {
		fmt.Printf("  [%s] op %d %s ...", w.tag, i, op)
	}
	before := w.last[op.Obj]
	stateBefore := ""
	if isStatusOp(op.Op) {
		stateBefore = w.stateKey()
	}
	if w.spec && !w.modelDead && w.mIter != nil && !w.mIterLoose && isMutator(op.Op) {
		b := op
		if op.Body != nil {
			b = op.Body
		}
		if w.enumTrigger(w.slotObj, b) {
			w.mIterLoose = true
		}
	}
	rec.raw = w.issue(op)
	if w.mon.trace {
		fmt.Printf(" -> %s\n", rec.raw)
	}
	if op.Op == "enumopen" {
		w.slotSeen = map[string]bool{} // a new enumeration (independent of whether the model still follows this world)
	}
	if op.Op == "enumnext" && strings.HasPrefix(rec.raw, "s:") {
		if w.slotSeen[rec.raw] {
			w.stop("enumeration-duplicate-key", "op %d %s: the open for-in enumeration of %s produced %s twice", i, op, w.slotObj, rec.raw)
		}
		if w.slotSeen != nil {
			w.slotSeen[rec.raw] = true
		}
	}
	rec.log = w.call("takeLog")
	if conv := w.call("takeConv"); conv != "" && w.spec {
		// legitimate only where the operation converts an object *value* (ToNumber for typed-array elements / array length)
		vop := op
		if op.Body != nil {
			vop = op.Body
		}
		legit := (vop.Op == "set" || vop.Op == "define") && vop.Val != "" && (isObjectValue(vop.Val) || vop.Val == "E1")
		if quarantine[qErrMsgConv] && (op.Op == "delete" || op.Op == "setProto" || op.Key == "__proto__") {
			legit = true // listed finding: error messages of failing delete / setPrototypeOf stringify the object
		}
		if !legit {
			w.stop("unexpected-conversion", "op %d %s -> %s called user-visible conversion methods: %s (no step of this operation converts an object to a primitive)", i, op, rec.raw, conv)
		}
	}
	modelLive := w.spec && !w.modelDead
	if modelLive {
		w.m.Log = w.m.Log[:0]
		exp, ood := w.modelIssue(op)
		switch {
		case ood != nil:
			st.Inc("model_out_of_domain")
			if isMutator(op.Op) {
				w.modelDead = true
				modelLive = false
				st.Inc("model_abandoned_worlds")
			}
		default:
			st.Inc("model_results_compared")
			if strings.HasPrefix(exp, "~") {
				if why := looseEnumMismatch(w, exp, rec.raw); why != "" {
					w.stop("model-result", "op %d %s: %s (objmodel: %s, goja: %s)", i, op, why, exp, rec.raw)
				}
				exp = rec.raw
			}
			if exp != rec.raw {
				w.stop("model-result", "op %d %s: objmodel expects %s, goja produced %s", i, op, exp, rec.raw)
			}
			mlog := ""
			for _, l := range w.m.Log {
				mlog += l + "|"
			}
			if mlog != rec.log {
				w.stop("model-accessor-log", "op %d %s: accessor calls expected %q, observed %q", i, op, mlog, rec.log)
			}
		}
	}
	// observe the touched objects
	touched := []string{op.Obj}
	addTouched := func(n string) {
		if n == "" || !isWorldObject(n) {
			return
		}
		for _, x := range touched {
			if x == n {
				return
			}
		}
		touched = append(touched, n)
	}
	addTouched(op.Recv)
	if op.Body != nil {
		addTouched(op.Body.Obj)
		addTouched(op.Body.Recv)
	}
	if op.Op == "enumnext" {
		touched = touched[:0]
		addTouched(w.slotObj)
	}
	for _, n := range touched {
		rec.dumps[n] = w.observe(n, op.Key)
	}
	switch op.Op {
	case "preventExtensions", "seal", "freeze":
		w.integrityKeepsValues(op, before, rec.dumps[op.Obj])
	}
	if isStatusOp(op.Op) {
		// model-free: an operation that was rejected without changing anything is rejected again, and again changes
		// nothing, whenever it is repeated in the same observable state (whatever the issuer)
		abs := abstractKey(op)
		oc := outcomeClass(op, rec.raw)
		stateAfter := w.stateKey()
		if prev, ok := w.rejected[abs]; ok && prev == stateBefore {
			st.Inc("repeat_rejected_checks")
			if oc == "accepted" {
				w.stop("repeat-rejected-now-accepted", "op %d %s -> %s: the same operation was rejected before in the same observable state", i, op, rec.raw)
			}
			if stateAfter != stateBefore {
				w.stop("repeat-rejected-changed-state", "op %d %s -> %s: the same operation was rejected before in the same observable state without changing anything; now the state changed\n  before: %s\n  after:  %s", i, op, rec.raw, before, rec.dumps[op.Obj])
			}
		}
		if oc == "rejected" && stateAfter == stateBefore {
			w.rejected[abs] = stateBefore
		}
	}
	if (i+1)%8 == 0 {
		w.checkpoint()
	}
	return rec
}

func isWorldObject(n string) bool {
	for _, x := range worldObjects {
		if x == n {
			return true
		}
	}
	return false
}

// checkpoint observes every world object (structural dump vs model + invariants).
func (w *world) checkpoint() {
	for _, n := range worldObjects {
		w.observe(n, "")
	}
	if w.spec && !w.modelDead {
		w.mon.st.Inc("checkpoints_compared")
	}
}

// observe takes the structural dump + probe bits of a world object, runs the invariant monitor on it, compares it
// with the model's dump, and returns the (order-normalised for unordered kinds) dump.
func (w *world) observe(name string, opKey string) string {
	o := w.objs[name]
	res := w.call("observe", o, w.probe)
	if strings.HasPrefix(res, "!") {
		w.stop("observer-threw", "observing %s threw %s (Reflect.ownKeys / getOwnPropertyDescriptor / has must not throw here)", name, res)
	}
	dump, probes, _ := strings.Cut(res, "#")
	if name == "T" && w.pget != nil {
		pv, err := w.pget(goja.Undefined())
		if err != nil {
			w.stop("driver-error", "parameter reader failed: %v", err)
		}
		dump += "~" + pv.String()
	}
	unordered := w.unordered && name == "T"
	if unordered {
		dump = sortDump(dump)
	}
	w.last[name] = dump
	w.invariants(name, dump, probes, opKey, unordered)
	if w.spec && !w.modelDead {
		md := w.m.Dump(w.mobjs[name])
		if name == "T" && w.pget != nil {
			md += "~" + objmodel.RenderValue(*w.params[0]) + "," + objmodel.RenderValue(*w.params[1])
		}
		w.mon.st.Inc("model_dumps_compared")
		if md != dump {
			w.stop("model-structure", "after op %d the structure of %s differs\n  objmodel: %s\n  goja:     %s", w.opIndex, name, md, dump)
		}
	}
	return dump
}

func sortDump(d string) string {
	parts := strings.SplitN(d, "|", 3)
	if len(parts) != 3 || parts[2] == "" {
		return d
	}
	recs := strings.Split(parts[2], ";")
	sort.Strings(recs)
	return parts[0] + "|" + parts[1] + "|" + strings.Join(recs, ";")
}

// integrityKeepsValues: preventExtensions / seal / freeze change attributes and extensibility only — every property
// present before and after keeps its value (data) or its functions (accessor), whether or not the op succeeded.
func (w *world) integrityKeepsValues(op *Op, before, after string) {
	pb, ok1 := parseDump(before)
	pa, ok2 := parseDump(after)
	if !ok1 || !ok2 {
		return
	}
	w.mon.st.Inc("integrity_value_checks")
	now := map[string]propObs{}
	for _, p := range pa.props {
		now[p.key] = p
	}
	for _, p := range pb.props {
		q, present := now[p.key]
		if !present {
			w.stop("integrity-op-removed-key", "op %d %s removed own key %s\n  before: %s\n  after:  %s", w.opIndex, op, p.key, before, after)
		}
		if p.accessor == q.accessor && p.value != q.value {
			w.stop("integrity-op-changed-value", "op %d %s changed the value of %s from %s to %s (SetIntegrityLevel only changes attributes)\n  before: %s\n  after:  %s", w.opIndex, op, p.key, p.value, q.value, before, after)
		}
	}
}

// enumTrigger reports whether mutator b ends the exact-behaviour guarantee of a for-in enumeration over object o
// (§14.7.5.9: a property removed from O or its chain, a prototype changed, a property added to an object of the chain,
// [[Enumerable]] changed).  Conservative: everything except a plain assignment to / a definition of a new property
// on O itself counts.
func (w *world) enumTrigger(o string, b *Op) bool {
	if b == nil || !isMutator(b.Op) {
		return false
	}
	if b.Obj != o || b.Key == "__proto__" || b.Key == "length" {
		return true
	}
	switch b.Op {
	case "set":
		return b.Recv != "" && b.Recv != o
	case "define":
		if w.m == nil {
			return true
		}
		return w.m.GetOwnProperty(w.mobjs[o], objmodel.ToPropertyKey(w.modelKeyValue(b.Key, false))) != nil
	}
	return true
}

// looseEnumMismatch checks a for-in result against a loose expectation "~<exact prefix list>~<forbidden key>|<body>"
// or "~next" (open enumeration after a trigger: any not yet produced key, or done).
func looseEnumMismatch(w *world, exp, raw string) string {
	if exp == "~next" {
		if raw == "done" || strings.HasPrefix(raw, "s:") {
			return ""
		}
		return "the open enumeration produced neither a key nor done"
	}
	parts := strings.SplitN(exp[1:], "~", 2)
	if len(parts) != 2 {
		return "bad loose expectation"
	}
	prefix := parts[0]
	forbidden, body, _ := strings.Cut(parts[1], "|")
	i := strings.LastIndex(raw, "]|")
	if i < 0 || raw[0] != '[' {
		return "for-in did not complete normally"
	}
	if raw[i+2:] != body {
		return "the body mutator produced " + raw[i+2:] + ", expected " + body
	}
	var keys, pre []string
	if i > 1 {
		keys = strings.Split(raw[1:i], ",")
	}
	if len(prefix) > 2 {
		pre = strings.Split(prefix[1:len(prefix)-1], ",")
	}
	if len(keys) < len(pre) {
		return "keys visited before the mutation are missing"
	}
	seen := map[string]bool{}
	for j, k := range keys {
		if j < len(pre) && k != pre[j] {
			return "keys visited before the mutation differ"
		}
		if seen[k] {
			return "key " + k + " was visited twice"
		}
		seen[k] = true
		if j >= len(pre) && k == forbidden && forbidden != "" {
			return "key " + k + " was deleted before it was processed but is still visited"
		}
	}
	return ""
}

// ownOnChain: some object on the prototype chain of o (o included) has an own property k — what a for-in walk can
// meet, unlike [[HasProperty]] which typed arrays cut short for numeric keys.
func ownOnChain(m *objmodel.Machine, o *objmodel.Object, k objmodel.Key) bool {
	for ; o != nil; o = m.GetPrototypeOf(o) {
		if m.GetOwnProperty(o, k) != nil {
			return true
		}
	}
	return false
}
