package c04

import (
	"fmt"
	"sort"
	"strings"

	"github.com/dop251/goja"

	"verif/harness/objmodel"
)

// stepRec is what one world observed for one op.
type stepRec struct {
	raw   string            // canonical rendering of the front-end result
	log   string            // accessor call log produced by the op
	dumps map[string]string // structural dumps of the touched objects after the op
}

func goFlag(mask, maskBit, flags, flagBit int) goja.Flag {
	if mask&maskBit == 0 {
		return goja.FLAG_NOT_SET
	}
	if flags&flagBit != 0 {
		return goja.FLAG_TRUE
	}
	return goja.FLAG_FALSE
}

// issue performs the op on the engine through its issuer and returns the canonical rendering of the result.
func (w *world) issue(op *Op) string {
	o := w.objs[op.Obj]
	rt := w.rt
	var k goja.Value
	var ki *keyInfo
	if op.Key != "" {
		k = w.keyValue(op.Key, op.Num)
		ki = keyByName[op.Key]
	}
	iss := op.Iss
	switch op.Op {
	case "get":
		switch iss {
		case "reflect":
			if op.Recv != "" {
				return w.call("get_reflect", o, k, rt.ToValue(true), w.value(op.Recv))
			}
			return w.call("get_reflect", o, k, rt.ToValue(false))
		case "go":
			return w.goCall("Object.Get", func() string {
				if ki.sym != "" {
					return w.render(o.GetSymbol(w.syms[ki.sym]))
				}
				return w.render(o.Get(ki.str))
			})
		}
		return w.call("get_"+iss, o, k)
	case "set":
		v := w.value(op.Val)
		switch iss {
		case "reflect":
			if op.Recv != "" {
				return w.call("set_reflect", o, k, v, rt.ToValue(true), w.value(op.Recv))
			}
			return w.call("set_reflect", o, k, v, rt.ToValue(false))
		case "go":
			return w.goCall("Object.Set", func() string {
				if ki.sym != "" {
					return errResult(w, o.SetSymbol(w.syms[ki.sym], v))
				}
				return errResult(w, o.Set(ki.str, v))
			})
		}
		return w.call("set_"+iss, o, k, v)
	case "delete":
		if iss == "go" {
			return w.goCall("Object.Delete", func() string {
				if ki.sym != "" {
					return errResult(w, o.DeleteSymbol(w.syms[ki.sym]))
				}
				return errResult(w, o.Delete(ki.str))
			})
		}
		return w.call("delete_"+iss, o, k)
	case "has", "hasOwn", "gopd":
		return w.call(op.Op+"_"+iss, o, k)
	case "isEnum":
		return w.call("hasOwn_pie", o, k)
	case "define":
		var v, g, s goja.Value = goja.Undefined(), goja.Undefined(), goja.Undefined()
		if op.Mask&1 != 0 {
			v = w.value(op.Val)
		}
		if op.Mask&4 != 0 {
			g = w.value(op.Get)
		}
		if op.Mask&8 != 0 {
			s = w.value(op.Set)
		}
		if iss == "go" {
			wr, en, cf := goFlag(op.Mask, 2, op.Flags, 1), goFlag(op.Mask, 16, op.Flags, 2), goFlag(op.Mask, 32, op.Flags, 4)
			return w.goCall("Object.Define*Property", func() string {
				if op.Mask&(4|8) != 0 {
					var gv, sv goja.Value
					if op.Mask&4 != 0 {
						gv = g
					}
					if op.Mask&8 != 0 {
						sv = s
					}
					if ki.sym != "" {
						return errResult(w, o.DefineAccessorPropertySymbol(w.syms[ki.sym], gv, sv, cf, en))
					}
					return errResult(w, o.DefineAccessorProperty(ki.str, gv, sv, cf, en))
				}
				var dv goja.Value
				if op.Mask&1 != 0 {
					dv = v
				}
				if ki.sym != "" {
					return errResult(w, o.DefineDataPropertySymbol(w.syms[ki.sym], dv, wr, cf, en))
				}
				return errResult(w, o.DefineDataProperty(ki.str, dv, wr, cf, en))
			})
		}
		return w.call("define_"+iss, o, k, rt.ToValue(op.Mask), v, g, s, rt.ToValue(op.Flags))
	case "ownKeys":
		if iss == "go" {
			return w.goCall("Object.GetOwnPropertyNames", func() string { return renderGoKeys(o.GetOwnPropertyNames()) })
		}
		return w.call("ownKeys_"+iss, o)
	case "keys":
		if iss == "go" {
			return w.goCall("Object.Keys", func() string { return renderGoKeys(o.Keys()) })
		}
		return w.call("keys_object", o)
	case "forin":
		return w.call("keys_"+iss, o)
	case "syms":
		return w.goCall("Object.Symbols", func() string {
			var parts []string
			for _, s := range o.Symbols() {
				if s == nil {
					parts = append(parts, "nil")
					continue
				}
				parts = append(parts, w.render(s))
			}
			return "[" + strings.Join(parts, ",") + "]"
		})
	case "entries":
		return w.call("entries_object", o)
	case "preventExtensions", "isExtensible":
		return w.call(op.Op+"_"+iss, o)
	case "seal", "freeze", "isSealed", "isFrozen":
		return w.call(op.Op+"_object", o)
	case "getProto":
		if iss == "go" {
			return w.goCall("Object.Prototype", func() string {
				if p := o.Prototype(); p != nil {
					return w.render(p)
				}
				return "n"
			})
		}
		return w.call("getProto_"+iss, o)
	case "setProto":
		v := w.value(op.Val)
		if iss == "go" {
			return w.goCall("Object.SetPrototype", func() string {
				p, _ := v.(*goja.Object)
				return errResult(w, o.SetPrototype(p))
			})
		}
		return w.call("setProto_"+iss, o, v)
	case "detach":
		return w.goCall("ArrayBuffer.Detach", func() string { w.buf.Detach(); return "ok" })
	case "paramset":
		if w.pset == nil {
			return "ok"
		}
		f := w.pset
		return w.goCall("paramset", func() string {
			if _, err := f(goja.Undefined(), rt.ToValue(op.Idx), w.value(op.Val)); err != nil {
				panic(err)
			}
			return "ok"
		})
	}
	panic("c04: unknown op " + op.Op)
}

func renderGoKeys(keys []string) string {
	var b strings.Builder
	b.WriteByte('[')
	for i, k := range keys {
		if i > 0 {
			b.WriteByte(',')
		}
		b.WriteString("s:" + k)
	}
	b.WriteByte(']')
	return b.String()
}

var issuerMap = map[string]string{"js": objmodel.JS, "jss": objmodel.JSStrict, "object": objmodel.ObjectFn, "objects": objmodel.ObjectPl,
	"reflect": objmodel.ReflectF, "go": objmodel.GoAPI, "field": objmodel.Field, "pie": objmodel.PropIsEn}

// modelIssue performs the op on the model; ok=false when the model left its domain.
func (w *world) modelIssue(op *Op) (res string, ood *objmodel.OutOfDomain) {
	mo := objmodel.Op{Kind: op.Op, Issuer: issuerMap[op.Iss], O: w.mobjs[op.Obj]}
	if op.Key != "" {
		mo.K = w.modelKeyValue(op.Key, op.Num && op.Iss != "go")
	}
	switch op.Op {
	case "isEnum":
		mo.Kind, mo.Issuer = "hasOwn", objmodel.PropIsEn
	case "forin":
		mo.Kind = "keys"
	case "syms":
		mo.Kind, mo.Issuer = "keys", "gosyms"
	case "set", "setProto":
		mo.V = w.modelValue(op.Val)
	case "define":
		d := objmodel.Desc{HasValue: op.Mask&1 != 0, HasW: op.Mask&2 != 0, HasGet: op.Mask&4 != 0, HasSet: op.Mask&8 != 0, HasE: op.Mask&16 != 0, HasC: op.Mask&32 != 0,
			W: op.Flags&1 != 0, E: op.Flags&2 != 0, C: op.Flags&4 != 0}
		if d.HasValue {
			d.Value = w.modelValue(op.Val)
		}
		if d.HasGet {
			d.Get = w.modelValue(op.Get)
		}
		if d.HasSet {
			d.Set = w.modelValue(op.Set)
		}
		mo.D = d
	case "detach":
		w.mobjs["T"].Detach()
		return "ok", nil
	case "paramset":
		if w.params[op.Idx] != nil {
			*w.params[op.Idx] = w.modelValue(op.Val)
		}
		return "ok", nil
	}
	if op.Recv != "" {
		rv := w.modelValue(op.Recv)
		mo.Recv = &rv
	}
	ood = w.m.Try(func() { res = w.m.Exec(mo) })
	return
}

// exec runs one op in this world: issue, collect the accessor log, observe the touched objects, compare with the
// model, feed the invariant monitor.
func (w *world) exec(i int, op *Op) stepRec {
	w.opIndex = i
	st := w.mon.st
	rec := stepRec{dumps: map[string]string{}}
	if w.mon.trace {
		fmt.Printf("  [%s] op %d %s ...", w.tag, i, op)
	}
	before := w.last[op.Obj]
	rec.raw = w.issue(op)
	if w.mon.trace {
		fmt.Printf(" -> %s\n", rec.raw)
	}
	rec.log = w.call("takeLog")
	if conv := w.call("takeConv"); conv != "" && w.spec {
		// legitimate only where the operation converts an object *value* (ToNumber for typed-array elements / array length)
		legit := (op.Op == "set" || op.Op == "define") && op.Val != "" && (isObjectValue(op.Val) || op.Val == "E1")
		if quarantine[qErrMsgConv] && (op.Op == "delete" || op.Op == "setProto" || op.Key == "__proto__") {
			legit = true // listed finding: error messages of failing delete / setPrototypeOf stringify the object
		}
		if !legit {
			w.stop("unexpected-conversion", "op %d %s -> %s called user-visible conversion methods: %s (no step of this operation converts an object to a primitive)", i, op, rec.raw, conv)
		}
	}
	modelLive := w.spec && !w.modelDead
	if modelLive {
		w.m.Log = w.m.Log[:0]
		exp, ood := w.modelIssue(op)
		switch {
		case ood != nil:
			st.Inc("model_out_of_domain")
			if isMutator(op.Op) {
				w.modelDead = true
				modelLive = false
				st.Inc("model_abandoned_worlds")
			}
		default:
			st.Inc("model_results_compared")
			if exp != rec.raw {
				w.stop("model-result", "op %d %s: objmodel expects %s, goja produced %s", i, op, exp, rec.raw)
			}
			mlog := ""
			for _, l := range w.m.Log {
				mlog += l + "|"
			}
			if mlog != rec.log {
				w.stop("model-accessor-log", "op %d %s: accessor calls expected %q, observed %q", i, op, mlog, rec.log)
			}
		}
	}
	// observe the touched objects
	touched := []string{op.Obj}
	if op.Recv != "" && w.objs[op.Recv] != nil && op.Recv != op.Obj && isWorldObject(op.Recv) {
		touched = append(touched, op.Recv)
	}
	for _, n := range touched {
		rec.dumps[n] = w.observe(n, op.Key)
	}
	switch op.Op {
	case "preventExtensions", "seal", "freeze":
		w.integrityKeepsValues(op, before, rec.dumps[op.Obj])
	}
	if (i+1)%8 == 0 {
		w.checkpoint()
	}
	return rec
}

func isWorldObject(n string) bool {
	for _, x := range worldObjects {
		if x == n {
			return true
		}
	}
	return false
}

// checkpoint observes every world object (structural dump vs model + invariants).
func (w *world) checkpoint() {
	for _, n := range worldObjects {
		w.observe(n, "")
	}
	if w.spec && !w.modelDead {
		w.mon.st.Inc("checkpoints_compared")
	}
}

// observe takes the structural dump + probe bits of a world object, runs the invariant monitor on it, compares it
// with the model's dump, and returns the (order-normalised for unordered kinds) dump.
func (w *world) observe(name string, opKey string) string {
	o := w.objs[name]
	res := w.call("observe", o, w.probe)
	if strings.HasPrefix(res, "!") {
		w.stop("observer-threw", "observing %s threw %s (Reflect.ownKeys / getOwnPropertyDescriptor / has must not throw here)", name, res)
	}
	dump, probes, _ := strings.Cut(res, "#")
	if name == "T" && w.pget != nil {
		pv, err := w.pget(goja.Undefined())
		if err != nil {
			w.stop("driver-error", "parameter reader failed: %v", err)
		}
		dump += "~" + pv.String()
	}
	unordered := w.unordered && name == "T"
	if unordered {
		dump = sortDump(dump)
	}
	w.last[name] = dump
	w.invariants(name, dump, probes, opKey, unordered)
	if w.spec && !w.modelDead {
		md := w.m.Dump(w.mobjs[name])
		if name == "T" && w.pget != nil {
			md += "~" + objmodel.RenderValue(*w.params[0]) + "," + objmodel.RenderValue(*w.params[1])
		}
		w.mon.st.Inc("model_dumps_compared")
		if md != dump {
			w.stop("model-structure", "after op %d the structure of %s differs\n  objmodel: %s\n  goja:     %s", w.opIndex, name, md, dump)
		}
	}
	return dump
}

func sortDump(d string) string {
	parts := strings.SplitN(d, "|", 3)
	if len(parts) != 3 || parts[2] == "" {
		return d
	}
	recs := strings.Split(parts[2], ";")
	sort.Strings(recs)
	return parts[0] + "|" + parts[1] + "|" + strings.Join(recs, ";")
}

// integrityKeepsValues: preventExtensions / seal / freeze change attributes and extensibility only — every property
// present before and after keeps its value (data) or its functions (accessor), whether or not the op succeeded.
func (w *world) integrityKeepsValues(op *Op, before, after string) {
	pb, ok1 := parseDump(before)
	pa, ok2 := parseDump(after)
	if !ok1 || !ok2 {
		return
	}
	w.mon.st.Inc("integrity_value_checks")
	now := map[string]propObs{}
	for _, p := range pa.props {
		now[p.key] = p
	}
	for _, p := range pb.props {
		q, present := now[p.key]
		if !present {
			w.stop("integrity-op-removed-key", "op %d %s removed own key %s\n  before: %s\n  after:  %s", w.opIndex, op, p.key, before, after)
		}
		if p.accessor == q.accessor && p.value != q.value {
			w.stop("integrity-op-changed-value", "op %d %s changed the value of %s from %s to %s (SetIntegrityLevel only changes attributes)\n  before: %s\n  after:  %s", w.opIndex, op, p.key, p.value, q.value, before, after)
		}
	}
}
