package c04

// driverSrc is evaluated once per Runtime.  It returns an object of dispatcher functions, one per (abstract op, JS
// issuer), each taking the object / key / value / descriptor pieces as arguments and returning the canonical
// rendering (see objmodel/frontend.go) of what happened.  Everything the driver needs from the realm is captured
// before any operation runs, it uses no global identifier afterwards (the global object, Array.prototype and Math
// are themselves operation targets), builds results by string concatenation and never relies on [[Set]] on arrays
// (an accessor on Array.prototype["0"] must not disturb it).
const driverSrc = `(function(){
var O=Object, R=Reflect, G=globalThis;
var R_get=R.get, R_set=R.set, R_has=R.has, R_del=R.deleteProperty, R_def=R.defineProperty, R_gopd=R.getOwnPropertyDescriptor,
    R_keys=R.ownKeys, R_pe=R.preventExtensions, R_isExt=R.isExtensible, R_gp=R.getPrototypeOf, R_sp=R.setPrototypeOf, R_apply=R.apply;
var O_dp=O.defineProperty, O_dps=O.defineProperties, O_gopd=O.getOwnPropertyDescriptor, O_gopds=O.getOwnPropertyDescriptors,
    O_gopn=O.getOwnPropertyNames, O_gops=O.getOwnPropertySymbols, O_keys=O.keys, O_entries=O.entries, O_pe=O.preventExtensions,
    O_seal=O.seal, O_freeze=O.freeze, O_isS=O.isSealed, O_isF=O.isFrozen, O_isE=O.isExtensible, O_gp=O.getPrototypeOf,
    O_sp=O.setPrototypeOf, O_hasOwn=O.hasOwn, O_create=O.create;
var hop=O.prototype.hasOwnProperty, pie=O.prototype.propertyIsEnumerable, isArr=Array.isArray, strValueOf=String.prototype.valueOf;
var errs=[["TypeError",TypeError.prototype],["RangeError",RangeError.prototype],["SyntaxError",SyntaxError.prototype],
          ["ReferenceError",ReferenceError.prototype],["EvalError",EvalError.prototype],["URIError",URIError.prototype],["Error",Error.prototype]];
var ids=new Map(), mapGet=Map.prototype.get, mapSet=Map.prototype.set;
var names=O_create(null), xcount=0, logs="", anonFn=false, anonAll=false;
var U8=Uint8Array, I8=Int8Array, U8C=Uint8ClampedArray, I16=Int16Array, U16=Uint16Array, I32=Int32Array, U32=Uint32Array, F32=Float32Array, F64=Float64Array;
var Str=String, Sym=Symbol, MathO=Math, ArrP=Array.prototype;

function reg(v,name){ R_apply(mapSet,ids,[v,name]); O_dp(names,name,{value:v,writable:true,enumerable:true,configurable:true}); return v }
function render(v){
  if (v === void 0) return "u";
  if (v === null) return "n";
  var t = typeof v;
  if (t === "boolean") return v ? "b:true" : "b:false";
  if (t === "number") return (v === 0 && 1/v < 0) ? "d:-0" : "d:"+v;
  if (t === "string") return "s:"+v;
  if (t === "bigint") return "g:"+v;
  var n = R_apply(mapGet,ids,[v]);
  if (n === void 0) {
    if (anonFn && t === "function") return "o:hostfn";
    if (anonAll && t !== "symbol") return t === "function" ? "o:hostfn" : "o:hostobj";
    n = "x"+(++xcount); reg(v,n);
  }
  return (t === "symbol" ? "y:" : "o:")+n;
}
function rkey(k){ return typeof k === "symbol" ? render(k) : "s:"+k }
function rkeys(a){ var s="["; for (var i=0;i<a.length;i++){ if(i) s+=","; s+=rkey(a[i]) } return s+"]" }
function bit(b){ return b === true ? "1" : b === false ? "0" : "?" }
function rdesc(d){
  if (d === void 0) return "u";
  if (R_apply(hop,d,["get"]) || R_apply(hop,d,["set"])) return "{a "+render(d.get)+" "+render(d.set)+" "+bit(d.enumerable)+" "+bit(d.configurable)+"}";
  return "{d "+render(d.value)+" "+bit(d.writable)+" "+bit(d.enumerable)+" "+bit(d.configurable)+"}";
}
function thrown(e){
  if (e !== null && (typeof e === "object" || typeof e === "function")) {
    var p = R_gp(e);
    for (var i=0;i<errs.length;i++) if (p === errs[i][1]) return "!"+errs[i][0];
  }
  return "!v:"+render(e);
}
function wrap(f){ return function(a,b,c,d,e,g,h){ try { return f(a,b,c,d,e,g,h) } catch(x){ return thrown(x) } } }
function mkdesc(mask,v,g,s,flags){
  var d={};
  if (mask&1) d.value=v;
  if (mask&2) d.writable=!!(flags&1);
  if (mask&4) d.get=g;
  if (mask&8) d.set=s;
  if (mask&16) d.enumerable=!!(flags&2);
  if (mask&32) d.configurable=!!(flags&4);
  return d;
}
function dump(o){
  var s=(R_isExt(o)?"1":"0")+"|"+render(R_gp(o))+"|", ks=R_keys(o);
  for (var i=0;i<ks.length;i++){ if(i) s+=";"; s+=rkey(ks[i])+"="+rdesc(R_gopd(o,ks[i])) }
  return s;
}
// conversion sentinels: no internal-method operation on these object kinds may call toString / valueOf of an object
// (error-message formatting included); the replacements never run the originals (Array.prototype.toString on a huge
// length would not return)
var conv="";
function mkConv(name,self){ return function(){ 'use strict'; conv+=name+"("+typeof this+")|"; return self ? this : "[conv]" } }
O_dp(O.prototype,"toString",{value:mkConv("Object.prototype.toString",false)});
O_dp(O.prototype,"valueOf",{value:mkConv("Object.prototype.valueOf",true)});
O_dp(ArrP,"toString",{value:mkConv("Array.prototype.toString",false)});
O_dp(Function.prototype,"toString",{value:mkConv("Function.prototype.toString",false)});
var D=O_create(null);
D.takeConv=function(){ var c=conv; conv=""; return c };
D.reg=reg; D.render=render; D.thrown=thrown;
D.byName=function(n){ return names[n] };
D.setAnonFn=function(b){ anonFn=b };
D.setAnonAll=function(b){ anonAll=b };
D.takeLog=function(){ var l=logs; logs=""; return l };
D.dump=wrap(dump);
// observe(o, k1, k2, …): dump, then per probe key: own-descriptor-defined, hasOwn, has, prototype-has
D.observe=wrap(function(o,keys){
  var s=dump(o)+"#", p=R_gp(o);
  for (var i=0;i<keys.length;i++){
    var k=keys[i];
    s+=(R_gopd(o,k)!==void 0?"1":"0")+(R_apply(hop,o,[k])?"1":"0")+(R_has(o,k)?"1":"0")+(p!==null&&R_has(p,k)?"1":"0")+",";
  }
  return s;
});
D.kindOf=function(o){
  var c = typeof o === "function" ? "f" : "o";
  if (isArr(o)) return c+"array";
  try { return c+"string:"+R_apply(strValueOf,o,[]) } catch(e) {}
  return c+"ordinary";
};
D.mkGetter=function(name,ret){ return reg(function(){ 'use strict'; logs+=name+"("+render(this)+")|"; return ret },name) };
D.mkSetter=function(name){ return reg(function(v){ 'use strict'; logs+=name+"("+render(this)+","+render(v)+")|" },name) };
D.mkThrowGetter=function(name,err){ return reg(function(){ 'use strict'; logs+=name+"("+render(this)+")|"; throw err },name) };
D.mkThrowSetter=function(name,err){ return reg(function(v){ 'use strict'; logs+=name+"("+render(this)+","+render(v)+")|"; throw err },name) };
D.mk=function(kind,arg){
  switch(kind){
  case "plain": return {};
  case "nullproto": return O_create(null);
  case "function": return function f(a,b){ return a };
  case "arrow": return (a)=>a;
  case "bound": return (function f(a,b){ return a }).bind(null,1);
  case "class": return class C { static sm(){} m(){} };
  case "method": return ({m(a){}}).m;
  case "generator": return function* g(a){};
  case "async": return async function af(a){};
  case "dense": return [1,2,3];
  case "sparse": var a=[1]; a[5000]=2; return a;
  case "margs": return (function(a,b){ return [arguments, function(){ return render(a)+","+render(b) }, function(i,v){ if(i===0) a=v; else b=v }] })(1,2,3);
  case "uargs": return (function(a,b){ 'use strict'; return [arguments] })(1,2,3);
  case "string": return new Str("ab");
  case "ta": var C={Uint8:U8,Int8:I8,Uint8Clamped:U8C,Int16:I16,Uint16:U16,Int32:I32,Uint32:U32,Float32:F32,Float64:F64}[arg]; var t=new C(3); t[0]=1; t[1]=2; return t;
  case "math": return MathO;
  case "arrayproto": return ArrP;
  case "global": return G;
  case "create": return O_create(arg);
  case "symbol": return Sym(arg);
  case "wk": return Sym[arg];
  }
};
D.buffer=function(t){ return t.buffer };
// GM: logging getter that first runs the armed mutator (a host function; no-op when nothing is armed)
D.mkMutGetter=function(name,ret,hook){ return reg(function(){ 'use strict'; logs+=name+"("+render(this)+")|"; hook(); return ret },name) };
function rentries(t){ var ks=R_keys(t), s="["; for (var i=0;i<ks.length;i++){ if(i) s+=","; s+=rkey(ks[i])+"="+render(R_gopd(t,ks[i]).value) } return s+"]" }
var O_assign=O.assign, slot=null;
D.enum_forin=wrap(function(o,step,brk,body){ var s="[",n=0,br="-"; for (var k in o){ if(n) s+=","; s+=rkey(k); if (n===step){ br=body(); if (brk) break } n++ } return s+"]|"+br });
D["enum_forin-strict"]=wrap(function(o,step,brk,body){ 'use strict'; var s="[",n=0,br="-"; for (var k in o){ if(n) s+=","; s+=rkey(k); if (n===step){ br=body(); if (brk) break } n++ } return s+"]|"+br });
D.enum_assign=wrap(function(o){ return rentries(O_assign(O_create(null),o)) });
D.enum_spread=wrap(function(o){ return rentries({__proto__:null, ...o}) });
D.enum_entries=wrap(function(o){ var a=O_entries(o), s="["; for (var i=0;i<a.length;i++){ if(i) s+=","; s+=rkey(a[i][0])+"="+render(a[i][1]) } return s+"]" });
D.enumOpen=wrap(function(o){ slot=(function*(){ for (var k in o) yield rkey(k) })(); return "ok" });
D.enumNext=wrap(function(){ if (slot===null) return "none"; var r=slot.next(); return r.done ? "done" : r.value });
D.protoAccessors=function(){ var d=O_gopd(O.prototype,"__proto__"); reg(d.get,"protoGet"); reg(d.set,"protoSet") };

D.get_js=wrap(function(o,k){ return render(o[k]) });
D.get_jss=wrap(function(o,k){ 'use strict'; return render(o[k]) });
D.get_reflect=wrap(function(o,k,hasR,r){ return render(hasR ? R_get(o,k,r) : R_get(o,k)) });
D.set_js=wrap(function(o,k,v){ o[k]=v; return "ok" });
D.set_jss=wrap(function(o,k,v){ 'use strict'; o[k]=v; return "ok" });
D.set_reflect=wrap(function(o,k,v,hasR,r){ return render(hasR ? R_set(o,k,v,r) : R_set(o,k,v)) });
D.delete_js=wrap(function(o,k){ return render(delete o[k]) });
D.delete_jss=wrap(function(o,k){ 'use strict'; return render(delete o[k]) });
D.delete_reflect=wrap(function(o,k){ return render(R_del(o,k)) });
D.has_js=wrap(function(o,k){ return render(k in o) });
D.has_reflect=wrap(function(o,k){ return render(R_has(o,k)) });
D.hasOwn_object=wrap(function(o,k){ return render(O_hasOwn(o,k)) });
D.hasOwn_objects=wrap(function(o,k){ return render(R_apply(hop,o,[k])) });
D.hasOwn_pie=wrap(function(o,k){ return render(R_apply(pie,o,[k])) });
D.gopd_object=wrap(function(o,k){ return rdesc(O_gopd(o,k)) });
D.gopd_reflect=wrap(function(o,k){ return rdesc(R_gopd(o,k)) });
D.gopd_objects=wrap(function(o,k){ var all=O_gopds(o), d=R_gopd(all,k); return d === void 0 ? "u" : rdesc(d.value) });
D.define_object=wrap(function(o,k,mask,v,g,s,flags){ O_dp(o,k,mkdesc(mask,v,g,s,flags)); return "ok" });
D.define_objects=wrap(function(o,k,mask,v,g,s,flags){
  var ps={}; O_dp(ps,k,{value:mkdesc(mask,v,g,s,flags),writable:true,enumerable:true,configurable:true}); O_dps(o,ps); return "ok" });
D.define_reflect=wrap(function(o,k,mask,v,g,s,flags){ return render(R_def(o,k,mkdesc(mask,v,g,s,flags))) });
D.define_field=wrap(function(o,k,mask,v){ new (class extends (function(){ return o }) { [k]=v }); return "ok" });
D.ownKeys_reflect=wrap(function(o){ return rkeys(R_keys(o)) });
D.ownKeys_objects=wrap(function(o){ var a=rkeys(O_gopn(o)), b=rkeys(O_gops(o)); if (a === "[]") return b; if (b === "[]") return a; return a.slice(0,-1)+","+b.slice(1) });
D.keys_object=wrap(function(o){ return rkeys(O_keys(o)) });
D.keys_js=wrap(function(o){ var s="[", n=0; for (var k in o){ if(n++) s+=","; s+=rkey(k) } return s+"]" });
D.keys_jss=wrap(function(o){ 'use strict'; var s="[", n=0; for (var k in o){ if(n++) s+=","; s+=rkey(k) } return s+"]" });
D.entries_object=wrap(function(o){ var a=O_entries(o), s="["; for (var i=0;i<a.length;i++){ if(i) s+=","; s+=rkey(a[i][0])+"="+render(a[i][1]) } return s+"]" });
D.preventExtensions_object=wrap(function(o){ O_pe(o); return "ok" });
D.preventExtensions_reflect=wrap(function(o){ return render(R_pe(o)) });
D.seal_object=wrap(function(o){ O_seal(o); return "ok" });
D.freeze_object=wrap(function(o){ O_freeze(o); return "ok" });
D.isSealed_object=wrap(function(o){ return render(O_isS(o)) });
D.isFrozen_object=wrap(function(o){ return render(O_isF(o)) });
D.isExtensible_object=wrap(function(o){ return render(O_isE(o)) });
D.isExtensible_reflect=wrap(function(o){ return render(R_isExt(o)) });
D.getProto_object=wrap(function(o){ return render(O_gp(o)) });
D.getProto_reflect=wrap(function(o){ return render(R_gp(o)) });
D.setProto_object=wrap(function(o,p){ O_sp(o,p); return "ok" });
D.setProto_reflect=wrap(function(o,p){ return render(R_sp(o,p)) });
return D;
})()`
