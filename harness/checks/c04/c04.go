// Package c04: "Essential object invariants hold for every object kind and every key kind".
// Workload: op sequences (≤ 40) over the whole internal-method alphabet, issued one op at a time through a
// PRNG-chosen issuer (JS syntax sloppy/strict, Object.*, Reflect.*, Go API) against one object of a chosen kind
// (ordinary, functions, arrays, arguments, String, typed arrays, templated built-ins, Go host wrappers, dynamic
// objects) sitting in a prototype chain of depth ≤ 3.
// Monitors: (1) online comparison with harness/objmodel (result, exception class, accessor-call log, structural
// dump); (2) model-free invariant monitor (non-configurable / non-extensible / key order / ownKeys≡descriptors /
// has⇔own∨proto / documented host rules); (3) cross-issuer agreement on a twin realm; (4) key-spelling agreement
// (Number vs String spelling) on a twin realm; (5) laziness invisibility (read history must not change layouts).
package c04

import (
	"fmt"
	"runtime/debug"
	"strings"

	"verif/harness/core"
)

func init() {
	// every case builds two short-lived realms: collect less often (the per-worker address-space limit stays far away)
	debug.SetGCPercent(600)
}

func Check() *core.Check {
	return &core.Check{
		ID:    "C04",
		Level: "exploration",
		Rule: "case = (object kind of T, key subset of 3-6 pool keys covering >= 2 key kinds, op sequence of 8-40 ops over {T, two prototype objects P1/P2, a descendant D, an unrelated U}, issuer per op, twin mode) " +
			"or a laziness case (two realms, identical mutators, different read interleavings); non-trivial = the sequence contains >= 1 rejected and >= 1 accepted define/set/delete and touches >= 2 key kinds " +
			"(laziness case: the two read histories differ and >= 1 lazily materialised object was mutated); distinct = distinct canonical case texts",
		Assumptions: []string{
			"property values come from a fixed pool of primitives, plain objects and logging accessor functions; keys from a fixed pool of 27 keys (objects as keys, Proxy on the chain and user ToPrimitive hooks are outside this check)",
			"the initial own-property layout of each engine-created object is taken from goja at creation (Reflect.ownKeys + getOwnPropertyDescriptor); only operations are judged by the model, layouts only by the laziness monitor",
			"Go host wrappers and Dynamic objects are judged by the invariant monitor, the documented host rules and issuer/spelling agreement only (no reference model)",
			"host slices are exercised with indices < 8 and lengths <= 300 (they grow to the index written)",
			"while a finding is listed in known-findings.d/C04.json the generator avoids its syntactic neighbourhood (gen.go excluded()); currently: no length writes and no preventExtensions/seal/freeze on Go slice wrappers (their elements are reported non-configurable yet removable, a non-extensible wrapper still grows)",
			"steps where objmodel leaves its domain (native accessor call, ToNumber of a non-plain object) are not compared; a mutating one ends model comparison for that realm",
		},
		Cases: func(tier string) int {
			if tier == "thorough" {
				return 400000
			}
			return 30000
		},
		MinConclusive: func(tier string) int { return 500 },
		NumPinned:     len(pinned),
		CaseTimeoutS:  120,
		Run:           run,
	}
}

func materialise(c *core.Ctx) *Case {
	if c.Index < 0 {
		p := pinned[-c.Index-1]
		cp := p
		cp.Ops = append([]Op(nil), p.Ops...)
		return &cp
	}
	if c.Index%16 == 15 {
		return genLazyCase(c.Rng)
	}
	return genCase(c.Rng)
}

func run(c *core.Ctx) core.Result {
	cs := materialise(c)
	if c.Replay {
		fmt.Printf("--- case ---\n%s\n", cs.canon())
	}
	res := execCase(c, cs, c.Stats)
	if res.Verdict != core.Violated {
		return res
	}
	// minimise: drop ops while the same monitor keeps firing
	min := minimise(c, cs, res)
	return min
}

func sigOf(monitor string, cs *Case) string {
	return monitor + " | " + cs.canon()
}

// Minimise can be switched off by development tools (triage sweeps).
var Minimise = true

func minimise(c *core.Ctx, cs *Case, first core.Result) core.Result {
	if !Minimise {
		return first
	}
	if cs.Mode != "seq" {
		return minimiseLazy(c, cs, first)
	}
	best := first
	cur := *cs
	cur.Ops = append([]Op(nil), cs.Ops...)
	budget := 200
	try := func(ops []Op) bool {
		if budget <= 0 {
			return false
		}
		budget--
		cand := cur
		cand.Ops = ops
		r := execCase(c, &cand, core.NewStats())
		if r.Verdict == core.Violated && r.Monitor == first.Monitor {
			cur = cand
			best = r
			return true
		}
		return false
	}
	// chunks, then single ops
	for chunk := len(cur.Ops) / 2; chunk >= 1; chunk /= 2 {
		for i := 0; i+chunk <= len(cur.Ops) && budget > 0; {
			ops := append(append([]Op(nil), cur.Ops[:i]...), cur.Ops[i+chunk:]...)
			if !try(ops) {
				i += chunk
			}
		}
	}
	best.Detail += "\n(original case: " + core.Trunc(cs.canon(), 1500) + ")"
	best.Key = cs.canon()
	return best
}

// execCase runs one materialised case and returns the verdict.
func execCase(c *core.Ctx, cs *Case, st *core.Stats) (res core.Result) {
	mon := &monitors{st: st, trace: c.Replay && st == c.Stats}
	res = core.Result{Verdict: core.Held, Key: cs.canon()}
	defer func() {
		if x := recover(); x != nil {
			sw, ok := x.(*stopWorld)
			if !ok {
				panic(x)
			}
			if sw.f.inconclusive {
				res = core.Result{Verdict: core.Inconclusive, Monitor: sw.f.monitor, Key: cs.canon()}
				return
			}
			res = core.Result{Verdict: core.Violated, NonTrivial: true, Key: cs.canon(), Monitor: sw.f.monitor, Detail: sw.f.detail,
				Signature: sigOf(sw.f.monitor, cs), Case: cs}
		}
	}()
	if cs.Mode == "lazy" {
		return execLazy(cs, mon)
	}
	st.Inc("kind:" + cs.Kind)
	if st.WantSample() && c.Index%9 == 0 {
		st.Sample(map[string]any{"kind": cs.Kind, "keys": cs.Keys, "twin": cs.Twin, "ops": core.Trunc(cs.canon(), 600)})
	}
	a := newWorld("A", cs, mon)
	opsB := twinOps(cs)
	b := newWorld("B("+cs.Twin+")", cs, mon)
	accepted, rejected := 0, 0
	keyKinds := map[string]bool{}
	for i := range cs.Ops {
		op := &cs.Ops[i]
		pre := ""
		if op.Op == "define" && op.Key != "" {
			pre = existingClass(a, op)
		}
		ra := a.exec(i, op)
		rb := b.exec(i, &opsB[i])
		compareTwins(a, b, cs, i, op, &opsB[i], ra, rb)
		// evidence
		st.Inc("ops_executed")
		st.Inc("op:" + op.Op)
		st.Inc("issuer:" + op.Op + "/" + op.Iss)
		st.Inc("issuer:" + opsB[i].Op + "/" + opsB[i].Iss)
		kc := "-"
		if op.Key != "" {
			kc = keyByName[op.Key].class
			keyKinds[kc] = true
		}
		oc := outcomeClass(op, ra.raw)
		target := cs.Kind
		if op.Obj != "T" {
			target = "chain:" + op.Obj
		}
		st.SetAdd("cells", target+"|"+kc+"|"+op.Op+"|"+oc)
		if op.Op == "define" {
			st.SetAdd("define_patterns", fmt.Sprintf("m%02d|%s|%s", op.Mask, pre, oc))
			st.SetAdd("define_masks", fmt.Sprintf("m%02d", op.Mask))
		}
		if op.Recv != "" {
			st.SetAdd("receivers", op.Op+"|"+recvClass(op))
		}
		if op.Op == "define" || op.Op == "set" || op.Op == "delete" {
			switch oc {
			case "accepted":
				accepted++
			case "rejected":
				rejected++
			}
		}
	}
	a.checkpoint()
	b.checkpoint()
	st.Inc("twin:" + cs.Twin)
	res.NonTrivial = accepted > 0 && rejected > 0 && len(keyKinds) >= 2
	return res
}

func recvClass(op *Op) string {
	switch op.Recv {
	case op.Obj:
		return "self"
	case "1", "sa", "t":
		return "primitive"
	case "U":
		return "unrelated"
	}
	switch op.Obj + ">" + op.Recv {
	case "T>P1", "T>P2", "D>T", "D>P1", "D>P2", "P1>P2":
		return "ancestor?"
	case "T>D", "P1>T", "P1>D", "P2>T", "P2>P1", "P2>D":
		return "descendant?"
	}
	return "other"
}

// outcomeClass classifies a raw result for the evidence matrix and the non-triviality rule.
func outcomeClass(op *Op, raw string) string {
	if isStatusOp(op.Op) {
		switch {
		case raw == "b:false", raw == "!TypeError" && op.Iss != "reflect":
			return "rejected"
		case strings.HasPrefix(raw, "!"):
			return "threw"
		case raw == "ok" && op.Iss == "js":
			return "sloppy-silent"
		}
		return "accepted"
	}
	if strings.HasPrefix(raw, "!") {
		return "threw"
	}
	switch raw {
	case "b:true":
		return "true"
	case "b:false":
		return "false"
	case "u":
		return "undefined"
	}
	return "value"
}

// existingClass classifies the current own property named by a define op from the last observation (evidence).
func existingClass(w *world, op *Op) string {
	ki := keyByName[op.Key]
	rk := "s:" + ki.str
	if ki.sym != "" {
		rk = "y:" + ki.sym
	}
	pd, ok := parseDump(w.last[op.Obj])
	if !ok {
		return "?"
	}
	ext := "ext"
	if !pd.ext {
		ext = "nonext"
	}
	for _, p := range pd.props {
		if p.key == rk {
			s := "data"
			if p.accessor {
				s = "accessor"
			} else if p.w {
				s += "-w"
			} else {
				s += "-ro"
			}
			if p.c {
				return s + "-cfg"
			}
			return s + "-nc"
		}
	}
	return "absent-" + ext
}

// compareTwins is monitor (3)/(4).
func compareTwins(a, b *world, cs *Case, i int, opA, opB *Op, ra, rb stepRec) {
	st := a.mon.st
	st.Inc("twin_steps_compared")
	rawA, rawB := ra.raw, rb.raw
	if a.unordered && (opA.Op == "enum" || opA.Op == "enumnext") {
		// which key is current when the body runs depends on the (undocumented) order of the host map
		rawA, rawB = "", ""
	}
	if a.unordered {
		switch opA.Op {
		case "ownKeys", "keys", "forin", "entries", "syms":
			rawA, rawB = sortList(rawA), sortList(rawB)
		case "enum":
			// "[list]|body": the visiting order of an unordered host object is not comparable
			sortHead := func(s string) string {
				if i := strings.LastIndex(s, "]|"); i > 0 {
					return sortList(s[:i+1]) + s[i+1:]
				}
				return s
			}
			rawA, rawB = sortHead(rawA), sortHead(rawB)
		}
	}
	monitor := "cross-issuer"
	if cs.Twin == "spelling" {
		monitor = "key-spelling"
	}
	fail := func(what string) {
		panic(&stopWorld{&failure{monitor: monitor, opIndex: i, detail: fmt.Sprintf("op %d: %s\n  world A: %s -> %s  log %q\n  world B: %s -> %s  log %q", i, what, opA, ra.raw, ra.log, opB, rb.raw, rb.log)}})
	}
	if cs.Twin == "spelling" {
		if rawA != rawB {
			fail("the same op with the key spelt as Number vs String gives different results")
		}
	} else {
		if opA.Op == "ownKeys" && (opA.Iss == "go") != (opB.Iss == "go") {
			rawA, rawB = listStringsOnly(rawA), listStringsOnly(rawB)
		}
		if !intersects(abstractOutcome(opA, rawA), abstractOutcome(opB, rawB)) {
			fail("two issuers of the same abstract operation disagree")
		}
	}
	if ra.log != rb.log {
		fail("accessor call logs differ")
	}
	for n, da := range ra.dumps {
		if db, ok := rb.dumps[n]; ok && da != db {
			fail(fmt.Sprintf("structure of %s differs afterwards\n  A: %s\n  B: %s", n, da, db))
		}
	}
}

// Show returns the canonical text of a generated case (development aid).
func Show(seed uint64, idx int) string {
	return materialise(&core.Ctx{Property: "C04", Seed: seed, Index: idx, Rng: core.CaseRng(seed, "C04", idx)}).canon()
}

// PinnedSignatures runs every pinned witness and returns, for those that fail, index → (monitor, signature, detail)
// (development aid for maintaining known-findings.d/C04.json).
func PinnedSignatures(skip map[int]bool) map[int][3]string {
	out := map[int][3]string{}
	for i := range pinned {
		idx := -(i + 1)
		if skip[idx] {
			continue
		}
		c := &core.Ctx{Property: "C04", Tier: "quick", Seed: 1, Index: idx, Rng: core.CaseRng(1, "C04", idx), Stats: core.NewStats()}
		r := run(c)
		if r.Verdict == core.Violated {
			out[idx] = [3]string{r.Monitor, r.Signature, strings.Split(r.Detail, "\n(original")[0]}
		}
	}
	return out
}

// minimiseLazy drops statements of a laziness case (a read from one realm, or a mutator from both) while the final
// layouts keep differing.
func minimiseLazy(c *core.Ctx, cs *Case, first core.Result) core.Result {
	if cs.Lazy == nil {
		return first
	}
	best := first
	cur := &LazyCase{A: append([]LazyStmt(nil), cs.Lazy.A...), B: append([]LazyStmt(nil), cs.Lazy.B...)}
	budget := 120
	try := func(l *LazyCase) bool {
		if budget <= 0 {
			return false
		}
		budget--
		cand := *cs
		cand.Lazy = l
		r := execCase(c, &cand, core.NewStats())
		if r.Verdict == core.Violated && r.Monitor == first.Monitor {
			cur = l
			best = r
			return true
		}
		return false
	}
	without := func(s []LazyStmt, i int) []LazyStmt {
		return append(append([]LazyStmt(nil), s[:i]...), s[i+1:]...)
	}
	indexOf := func(s []LazyStmt, src string) int {
		for i, x := range s {
			if !x.Read && x.Src == src {
				return i
			}
		}
		return -1
	}
	for changed := true; changed && budget > 0; {
		changed = false
		for i := len(cur.A) - 1; i >= 0 && budget > 0; i-- {
			if i >= len(cur.A) {
				continue
			}
			st := cur.A[i]
			l := &LazyCase{A: without(cur.A, i), B: cur.B}
			if !st.Read {
				j := indexOf(cur.B, st.Src)
				if j < 0 {
					continue
				}
				l.B = without(cur.B, j)
			}
			if try(l) {
				changed = true
			}
		}
		for i := len(cur.B) - 1; i >= 0 && budget > 0; i-- {
			if i < len(cur.B) && cur.B[i].Read {
				if try(&LazyCase{A: cur.A, B: without(cur.B, i)}) {
					changed = true
				}
			}
		}
	}
	best.Detail += "\n(original case: " + core.Trunc(cs.canon(), 1500) + ")"
	best.Key = cs.canon()
	return best
}
