package c04

import (
	"fmt"
	"math"
	"strings"

	"verif/harness/objmodel"
)

// Op is one step of a case (JSON-able; every field is a name from the fixed pools below).
type Op struct {
	Op    string `json:"op"`              // define get set delete has hasOwn isEnum gopd ownKeys keys forin syms entries preventExtensions seal freeze isSealed isFrozen isExtensible getProto setProto detach paramset
	Obj   string `json:"obj"`             // T P1 P2 D U
	Key   string `json:"key,omitempty"`   // key pool name
	Num   bool   `json:"num,omitempty"`   // spell the key as a Number
	Val   string `json:"val,omitempty"`   // value pool name (set value / new prototype / paramset value)
	Recv  string `json:"recv,omitempty"`  // explicit receiver of Reflect.get/set: value pool name
	Mask  int    `json:"mask,omitempty"`  // define: 1 value 2 writable 4 get 8 set 16 enumerable 32 configurable
	Get   string `json:"get,omitempty"`   // define: getter (function pool name, "u", or "bad")
	Set   string `json:"set,omitempty"`   // define: setter
	Flags int    `json:"flags,omitempty"` // define: 1 writable 2 enumerable 4 configurable (values of the present boolean fields)
	Iss   string `json:"iss"`             // issuer
	Idx   int    `json:"idx,omitempty"`   // paramset: parameter number
	Step  int    `json:"step,omitempty"`  // enum: the body runs when the (Step+1)-th key is visited
	Brk   bool   `json:"brk,omitempty"`   // enum (for-in): break after the body (abandoned enumeration)
	Body  *Op    `json:"body,omitempty"`  // enum: mutator issued while the enumeration is in progress
	Rep   bool   `json:"rep,omitempty"`   // repetition of an earlier op of the sequence (possibly through another issuer)
}

func (o Op) String() string {
	var b strings.Builder
	b.WriteString(o.Op + "(" + o.Obj)
	if o.Key != "" {
		b.WriteString("," + o.Key)
		if o.Num {
			b.WriteString("#")
		}
	}
	if o.Op == "define" {
		fmt.Fprintf(&b, ",m%d", o.Mask)
		if o.Mask&1 != 0 {
			b.WriteString(",v=" + o.Val)
		}
		if o.Mask&4 != 0 {
			b.WriteString(",g=" + o.Get)
		}
		if o.Mask&8 != 0 {
			b.WriteString(",s=" + o.Set)
		}
		if o.Mask&(2|16|32) != 0 {
			fmt.Fprintf(&b, ",f%d", o.Flags)
		}
	} else if o.Val != "" {
		b.WriteString("," + o.Val)
	}
	if o.Op == "paramset" {
		fmt.Fprintf(&b, ",#%d", o.Idx)
	}
	if o.Recv != "" {
		b.WriteString(",recv=" + o.Recv)
	}
	if o.Op == "enum" {
		fmt.Fprintf(&b, ",@%d", o.Step)
		if o.Brk {
			b.WriteString(",break")
		}
		if o.Body != nil {
			b.WriteString(",{" + o.Body.String() + "}")
		}
	}
	b.WriteString(")/" + o.Iss)
	if o.Rep {
		b.WriteString("*")
	}
	return b.String()
}

// Case is the materialised input of one check case.
type Case struct {
	Mode  string    `json:"mode"`            // "seq" | "lazy"
	Kind  string    `json:"kind"`            // object kind of T
	Arg   string    `json:"arg,omitempty"`   // kind argument (typed array element type)
	Keys  []string  `json:"keys"`            // the case's key subset (probe keys of the invariant monitor)
	Twin  string    `json:"twin,omitempty"`  // "issuer" | "spelling"
	TSeed uint64    `json:"tseed,omitempty"` // PRNG stream of the twin's issuer choices
	Ops   []Op      `json:"ops"`
	Lazy  *LazyCase `json:"lazy,omitempty"`
}

func (c *Case) canon() string {
	var b strings.Builder
	b.WriteString(c.Mode + ":" + c.Kind)
	if c.Arg != "" {
		b.WriteString(":" + c.Arg)
	}
	for _, o := range c.Ops {
		b.WriteString(" " + o.String())
	}
	if c.Lazy != nil {
		b.WriteString(" " + c.Lazy.canon())
	}
	return b.String()
}

// ---------------------------------------------------------------------------------------------------------------
// pools

type keyInfo struct {
	name  string
	str   string // string key ("" for symbols)
	sym   string // symbol name
	class string // key kind (evidence matrix / non-triviality)
	num   bool   // may be spelt as a Number (ToString(ToNumber(str)) == str)
}

var keyPool = []keyInfo{
	{"0", "0", "", "index", true}, {"1", "1", "", "index", true}, {"2", "2", "", "index", true}, {"7", "7", "", "index", true},
	{"5000", "5000", "", "index", true},
	{"4294967294", "4294967294", "", "index-max", true}, {"4294967295", "4294967295", "", "index-max+1", true},
	{"-0", "-0", "", "canonical-numeric", false}, {"1.5", "1.5", "", "canonical-numeric", true}, {"-1", "-1", "", "canonical-numeric", true},
	{"NaN", "NaN", "", "canonical-numeric", true}, {"1e3", "1e3", "", "noncanonical-numeric", false},
	{"a", "a", "", "string", false}, {"b", "b", "", "string", false}, {"A", "A", "", "string", false}, {"B", "B", "", "string", false}, {"M", "M", "", "string", false},
	{"length", "length", "", "length", false}, {"prototype", "prototype", "", "prototype", false},
	{"name", "name", "", "special", false}, {"callee", "callee", "", "special", false}, {"__proto__", "__proto__", "", "special", false},
	{"S1", "", "S1", "symbol", false}, {"S2", "", "S2", "symbol", false},
	{"@@iterator", "", "@@iterator", "wk-symbol", false}, {"@@toStringTag", "", "@@toStringTag", "wk-symbol", false},
	{"@@hasInstance", "", "@@hasInstance", "wk-symbol", false}, {"@@unscopables", "", "@@unscopables", "wk-symbol", false},
}

var keyByName = func() map[string]*keyInfo {
	m := map[string]*keyInfo{}
	for i := range keyPool {
		m[keyPool[i].name] = &keyPool[i]
	}
	return m
}()

var wkSymbols = map[string]string{"@@iterator": "iterator", "@@toStringTag": "toStringTag", "@@hasInstance": "hasInstance", "@@unscopables": "unscopables"}

// value pool: primitives by name; objects/symbols resolved per world.
var primValues = map[string]objmodel.Value{
	"u": objmodel.Undefined, "n": objmodel.Null, "t": objmodel.True, "f": objmodel.False,
	"1": objmodel.Num(1), "2": objmodel.Num(2), "-0": objmodel.Num(math.Copysign(0, -1)), "0": objmodel.Num(0), "nan": objmodel.Num(math.NaN()),
	"1.5": objmodel.Num(1.5), "2.5": objmodel.Num(2.5), "300": objmodel.Num(300), "-1": objmodel.Num(-1), "big": objmodel.Num(4294967295), "3": objmodel.Num(3), "7": objmodel.Num(7), "8": objmodel.Num(8), "5000": objmodel.Num(5000), "5001": objmodel.Num(5001), "2^32": objmodel.Num(4294967296),
	"sa": objmodel.Str("a"), "sb": objmodel.Str("b"), "s7": objmodel.Str("7"), "s": objmodel.Str(""),
}

var objectValueNames = []string{"V1", "V2", "T", "P1", "P2", "D", "U"}

var worldObjects = []string{"T", "P1", "P2", "D", "U"}

// function pool
var getterNames = []string{"G1", "G2", "GT", "GM"}
var setterNames = []string{"St1", "St2", "StT"}

// kinds
type kindInfo struct {
	name   string
	spec   bool // judged by objmodel
	weight int
	args   []string
}

var kinds = []kindInfo{
	{"plain", true, 10, nil}, {"nullproto", true, 4, nil}, {"function", true, 7, nil}, {"arrow", true, 3, nil}, {"bound", true, 3, nil},
	{"class", true, 5, nil}, {"method", true, 1, nil}, {"generator", true, 2, nil}, {"async", true, 1, nil},
	{"dense", true, 10, nil}, {"sparse", true, 6, nil}, {"margs", true, 8, nil}, {"uargs", true, 4, nil}, {"string", true, 8, nil},
	{"ta", true, 10, []string{"Uint8", "Int8", "Uint8Clamped", "Int16", "Uint16", "Int32", "Uint32", "Float32", "Float64"}},
	{"math", true, 3, nil}, {"arrayproto", true, 4, nil}, {"global", true, 4, nil},
	{"gomap", false, 4, nil}, {"gorefmap", false, 3, nil}, {"goslice", false, 4, nil}, {"gorefslice", false, 2, nil}, {"gostruct", false, 4, nil},
	{"dynobj", false, 3, nil}, {"dynarr", false, 3, nil},
}

var kindByName = func() map[string]*kindInfo {
	m := map[string]*kindInfo{}
	for i := range kinds {
		m[kinds[i].name] = &kinds[i]
	}
	return m
}()

var elemTypes = map[string]objmodel.ElemType{"Uint8": objmodel.Uint8, "Int8": objmodel.Int8, "Uint8Clamped": objmodel.Uint8Clamped, "Int16": objmodel.Int16,
	"Uint16": objmodel.Uint16, "Int32": objmodel.Int32, "Uint32": objmodel.Uint32, "Float32": objmodel.Float32, "Float64": objmodel.Float64}

// issuers per op kind (first entry = reference spelling)
var issuers = map[string][]string{
	"get": {"js", "jss", "reflect", "go"}, "set": {"js", "jss", "reflect", "go"}, "delete": {"js", "jss", "reflect", "go"},
	"has": {"js", "reflect"}, "hasOwn": {"object", "objects"}, "isEnum": {"pie"}, "gopd": {"object", "reflect", "objects"},
	"define": {"object", "objects", "reflect", "go", "field"}, "ownKeys": {"reflect", "objects", "go"}, "keys": {"object", "go"},
	"forin": {"js", "jss"}, "syms": {"go"}, "entries": {"object"}, "preventExtensions": {"object", "reflect"}, "seal": {"object"}, "freeze": {"object"},
	"isSealed": {"object"}, "isFrozen": {"object"}, "isExtensible": {"object", "reflect"}, "getProto": {"object", "reflect", "go"},
	"setProto": {"object", "reflect", "go"}, "detach": {"go"}, "paramset": {"js"},
	// enumerate-with-mutation: for-in whose body issues a mutator (sloppy / strict function), Object.assign / spread / entries
	// whose source runs the mutator from the getter GM; an enumeration kept open across ops (generator around for-in)
	"enum": {"forin", "forin-strict", "assign", "spread", "entries"}, "enumopen": {"js"}, "enumnext": {"js"},
}

// issuerOK reports whether the issuer can express the op.
func issuerOK(o *Op, iss string) bool {
	switch o.Op {
	case "define":
		switch iss {
		case "go":
			if o.Mask&(4|8) != 0 && o.Mask&(1|2) != 0 {
				return false
			}
			if o.Mask&4 != 0 && o.Get == "bad" || o.Mask&8 != 0 && o.Set == "bad" {
				return false
			}
		case "field":
			return o.Mask == 1|2|16|32 && o.Flags == 7
		}
	case "get", "set":
		if o.Recv != "" {
			return iss == "reflect"
		}
	case "enum":
		// same abstract enumeration: for-in sloppy/strict; Object.assign / spread; entries alone
		switch o.Iss {
		case "forin", "forin-strict":
			return iss == "forin" || iss == "forin-strict"
		case "assign", "spread":
			return iss == "assign" || iss == "spread"
		case "entries":
			return iss == "entries"
		}
	}
	return true
}

func isStatusOp(op string) bool {
	switch op {
	case "set", "delete", "define", "preventExtensions", "setProto", "seal", "freeze":
		return true
	}
	return false
}

func isMutator(op string) bool {
	return isStatusOp(op) || op == "detach" || op == "paramset" || op == "enum"
}

// abstractKey identifies the abstract operation of an op independently of issuer and key spelling.
func abstractKey(o *Op) string {
	flags := 0
	if o.Mask&2 != 0 {
		flags |= o.Flags & 1
	}
	if o.Mask&16 != 0 {
		flags |= o.Flags & 2
	}
	if o.Mask&32 != 0 {
		flags |= o.Flags & 4
	}
	s := fmt.Sprintf("%s|%s|%s|%s|%s|%d|%d", o.Op, o.Obj, o.Key, o.Val, o.Recv, o.Mask, flags)
	if o.Mask&4 != 0 {
		s += "|g=" + o.Get
	}
	if o.Mask&8 != 0 {
		s += "|s=" + o.Set
	}
	return s
}
