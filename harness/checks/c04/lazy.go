package c04

import (
	"fmt"
	"strings"

	"github.com/dop251/goja"

	"verif/harness/core"
	"verif/harness/gj"
)

// Monitor (5), laziness invisibility.  goja materialises some own properties on demand (function `prototype`,
// templated built-ins, global bindings).  By the specification all of them exist from creation, so the final
// own-key order and descriptors of every object must not depend on which *reads* happened and when.  A laziness case
// runs the same mutator statements in the same order in two fresh realms and interleaves two different sets of
// semantically read-only statements; the final dumps of all targets must be identical.

type LazyStmt struct {
	Src  string `json:"src"`
	Read bool   `json:"read"`
}

type LazyCase struct {
	A []LazyStmt `json:"a"` // statement list of realm A (mutators + reads)
	B []LazyStmt `json:"b"` // statement list of realm B (the same mutators, other reads)
}

func (l *LazyCase) canon() string {
	var b strings.Builder
	b.WriteString("A:")
	for _, s := range l.A {
		b.WriteString(" " + s.Src + ";")
	}
	b.WriteString(" B:")
	for _, s := range l.B {
		b.WriteString(" " + s.Src + ";")
	}
	return b.String()
}

const lazySetup = `var f0 = function(a,b){}; function f1(){}; class C0 { static s(){} m(){} }; function* g0(){}; var b0 = f0.bind(null);
var m0 = ({m(){}}).m; var a0 = async function(){}; var ar0 = ()=>1; var o0 = {get acc(){return 1}, m2(){}};`

var lazyTargets = []string{"f0", "f1", "C0", "g0", "b0", "m0", "a0", "ar0", "f0.prototype", "C0.prototype", "g0.prototype", "Math", "Array.prototype", "Object", "JSON", "Reflect",
	"globalThis", "Array", "Function.prototype", "String.prototype", "Map", "Promise", "Uint8Array", "Symbol", "TypeError", "Date", "RegExp.prototype", "Number",
	"Object.prototype", "Map.prototype", "Error.prototype", "Array.prototype.push", "Math.max", "JSON.parse", "Object.keys", "parseInt", "Promise.prototype",
	"Object.getPrototypeOf(Uint8Array)", "Object.getPrototypeOf(Uint8Array.prototype)", "Date.prototype", "Set.prototype", "WeakMap", "Proxy", "Boolean.prototype", "Function"}

var lazyKeys = []string{`"prototype"`, `"length"`, `"name"`, `"x"`, `"y"`, `"constructor"`, `"max"`, `"push"`, `0`, `7`, `Symbol.toStringTag`, `Symbol.iterator`, `"Array"`, `"Map"`, `"f0"`, `"toString"`, `"PI"`, `"get"`, `"then"`, `"keys"`}

var lazyReads = []string{`%E[%K]`, `%K in %E`, `Object.getOwnPropertyDescriptor(%E,%K)`, `Object.keys(%E)`, `Reflect.ownKeys(%E)`, `for (var k in %E);`,
	`Object.getOwnPropertyNames(%E)`, `Object.prototype.hasOwnProperty.call(%E,%K)`, `Object.isFrozen(%E)`, `Object.getPrototypeOf(%E)`, `typeof %E`,
	`Object.entries(%E)`, `Object.getOwnPropertyDescriptors(%E)`, `Object.getOwnPropertySymbols(%E)`, `Reflect.has(%E,%K)`, `Object.isExtensible(%E)`,
	`Object.prototype.propertyIsEnumerable.call(%E,%K)`, `JSON.stringify(Object.keys(%E))`, `Object.assign({}, %E)`, `({...%E})`}

var lazyMuts = []string{`%E.x = 1`, `%E[%K] = 2`, `Object.defineProperty(%E,%K,{value:1,configurable:true})`, `Object.defineProperty(%E,%K,{enumerable:true})`,
	`delete %E[%K]`, `Object.preventExtensions(%E)`, `Object.freeze(%E)`, `Object.seal(%E)`, `%E.y = 3`, `Object.defineProperty(%E,%K,{get(){return 1},configurable:true})`,
	`Reflect.set(%E,%K,5)`, `Reflect.deleteProperty(%E,%K)`, `Object.defineProperty(%E,%K,{writable:false})`}

func lazyQuarantined(target string) bool {
	if quarantine[qLazyProto] {
		switch target {
		case "f0", "f1":
			return true
		}
	}
	return false
}

func genLazyCase(r *core.Rng) *Case {
	c := &Case{Mode: "lazy", Kind: "lazy"}
	l := &LazyCase{}
	var targets []string
	for len(targets) < 3 {
		t := core.Pick(r, lazyTargets)
		if lazyQuarantined(t) {
			continue
		}
		targets = append(targets, t)
	}
	inst := func(tpl string) string {
		s := strings.ReplaceAll(tpl, "%E", core.Pick(r, targets))
		return strings.ReplaceAll(s, "%K", core.Pick(r, lazyKeys))
	}
	wrap := func(s string, strict bool) string {
		if strict {
			return `(function(){ 'use strict'; try { ` + s + ` } catch(e) {} })()`
		}
		return `(function(){ try { ` + s + ` } catch(e) {} })()`
	}
	nm := r.Range(1, 6)
	var muts []LazyStmt
	for i := 0; i < nm; i++ {
		muts = append(muts, LazyStmt{Src: wrap(inst(core.Pick(r, lazyMuts)), r.Chance(1, 3))})
	}
	build := func(maxReads int) []LazyStmt {
		var out []LazyStmt
		for i := 0; i <= len(muts); i++ {
			for k := r.Intn(maxReads + 1); k > 0; k-- {
				out = append(out, LazyStmt{Src: wrap(inst(core.Pick(r, lazyReads)), r.Chance(1, 4)), Read: true})
			}
			if i < len(muts) {
				out = append(out, muts[i])
			}
		}
		return out
	}
	l.A = build(3)
	if r.Chance(1, 3) {
		l.B = append([]LazyStmt(nil), muts...) // no reads at all
	} else {
		l.B = build(3)
	}
	c.Lazy = l
	return c
}

// lazyDump renders, for every target, extensibility, prototype-is-null and the ordered own keys with descriptors
// (values: primitives by value, objects by typeof only — identities cannot be compared across realms).
const lazyDumpSrc = `(function(){
var R=Reflect, out="";
function rv(v){ var t=typeof v; if (v===null) return "null"; if (t==="object"||t==="function") return "["+t+"]"; if (t==="symbol") return "sym"; if (t==="number"&&v===0&&1/v<0) return "-0"; return t+":"+String(v) }
function one(name,o){
  if (o===null || (typeof o!=="object" && typeof o!=="function")) return name+" = "+rv(o)+"\n";
  var s=name+" ext="+R.isExtensible(o)+" protoNull="+(R.getPrototypeOf(o)===null)+" {", ks=R.ownKeys(o);
  for (var i=0;i<ks.length;i++){ var k=ks[i], d=R.getOwnPropertyDescriptor(o,k); s+=(typeof k==="symbol"?"@"+String(k.description):k)+":";
    if (d===undefined) s+="NODESC"; else if ("value" in d) s+="d("+rv(d.value)+","+d.writable+","+d.enumerable+","+d.configurable+")"; else s+="a("+rv(d.get)+","+rv(d.set)+","+d.enumerable+","+d.configurable+")";
    s+=" " }
  return s+"}\n";
}
var T=[%TARGETS%];
for (var i=0;i<T.length;i++) out+=one(T[i][0],T[i][1]);
return out;
})()`

func lazyDumpProgram() string {
	var parts []string
	for _, t := range lazyTargets {
		parts = append(parts, fmt.Sprintf("[%q,(function(){ try { return %s } catch(e) { return \"unresolvable\" } })()]", t, t))
	}
	return strings.Replace(lazyDumpSrc, "%TARGETS%", strings.Join(parts, ","), 1)
}

func runLazyRealm(tag string, stmts []LazyStmt, mon *monitors) string {
	rt := gj.NewRuntime()
	goja.VerifSetFuel(rt, worldFuel)
	run := func(what, src string) goja.Value {
		o := gj.Call(func() (goja.Value, error) { return rt.RunString(src) })
		switch {
		case o.Panic != nil:
			panic(&stopWorld{&failure{monitor: "go-panic-escaped", detail: fmt.Sprintf("[lazy realm %s] Go panic in %s: %v\n%s", tag, what, o.Panic, trunc(o.PanicStack, 2500))}})
		case o.Assertion != nil:
			panic(&stopWorld{&failure{monitor: "verif-assertion", detail: fmt.Sprintf("[lazy realm %s] %s: %v", tag, what, o.Assertion)}})
		case o.Fuel:
			panic(&stopWorld{&failure{monitor: "fuel", inconclusive: true}})
		case o.Err != nil:
			panic(&stopWorld{&failure{monitor: "lazy-statement-error", detail: fmt.Sprintf("[lazy realm %s] %s failed: %v\n%s", tag, what, o.Err, src)}})
		}
		return o.Val
	}
	run("setup", lazySetup)
	for i, s := range stmts {
		run(fmt.Sprintf("statement %d", i), s.Src)
		mon.st.Inc("lazy_statements")
	}
	v := run("dump", lazyDumpProgram())
	return v.String()
}

func execLazy(cs *Case, mon *monitors) core.Result {
	res := core.Result{Verdict: core.Held, Key: cs.canon()}
	l := cs.Lazy
	da := runLazyRealm("A", l.A, mon)
	db := runLazyRealm("B", l.B, mon)
	mon.st.Inc("lazy_cases")
	mon.st.Count("lazy_targets_compared", int64(len(lazyTargets)))
	if da != db {
		la, lb := strings.Split(da, "\n"), strings.Split(db, "\n")
		diff := ""
		for i := range la {
			if i < len(lb) && la[i] != lb[i] {
				diff += "  A: " + la[i] + "\n  B: " + lb[i] + "\n"
			}
		}
		panic(&stopWorld{&failure{monitor: "laziness", detail: "final layouts depend on the read history:\n" + core.Trunc(diff, 3000)}})
	}
	reads := func(s []LazyStmt) string {
		var b strings.Builder
		for _, x := range s {
			if x.Read {
				b.WriteString(x.Src + ";")
			}
		}
		return b.String()
	}
	res.NonTrivial = reads(l.A) != reads(l.B)
	return res
}
