package c04

// pinned regression witnesses: histories that failed on the pinned tree (see /verif/inbox/C04-*.md and
// known-findings.d/C04.json).  They run first in every tier.
var pinned = []Case{
	// setForeignSym compares the receiver with the wrong object: Reflect.set(D, sym, 1, T) with T = D's prototype
	// must create the property on T (the receiver); goja writes it to T's prototype.
	{Mode: "seq", Kind: "plain", Keys: []string{"S1", "a", "7"}, Twin: "issuer", TSeed: 1, Ops: []Op{
		{Op: "set", Obj: "D", Key: "S1", Val: "1", Recv: "T", Iss: "reflect"},
	}},
	// String exotic [[DefineOwnProperty]] on an own index with the same value is compatible → true
	{Mode: "seq", Kind: "string", Keys: []string{"0", "a", "length"}, Twin: "issuer", TSeed: 1, Ops: []Op{
		{Op: "define", Obj: "T", Key: "0", Mask: 1, Val: "sa", Iss: "reflect"},
	}},
	// lazily materialised function `prototype`: own-key order depends on the read history
	{Mode: "lazy", Kind: "lazy", Lazy: &LazyCase{
		A: []LazyStmt{{Src: "f0.prototype", Read: true}, {Src: "f0.x = 1"}},
		B: []LazyStmt{{Src: "f0.x = 1"}},
	}},
}
