package c04

// pinned regression witnesses: histories that failed on the pinned tree (see /verif/inbox/C04-*.md and
// known-findings.d/C04.json).  They run first in every tier; index -k is pinned[k-1].
var pinned = []Case{
	// -1 setForeignSym compares the receiver with the wrong object: Reflect.set(D, sym, 1, T) with T = D's prototype
	// must create the property on T (the receiver); goja wrote it to T's prototype.
	{Mode: "seq", Kind: "plain", Keys: []string{"S1", "a", "7"}, Twin: "issuer", TSeed: 1, Ops: []Op{
		{Op: "set", Obj: "D", Key: "S1", Val: "1", Recv: "T", Iss: "reflect"},
	}},
	// -2 String exotic [[DefineOwnProperty]] on an own index with the same value is compatible → true
	{Mode: "seq", Kind: "string", Keys: []string{"0", "a", "length"}, Twin: "issuer", TSeed: 1, Ops: []Op{
		{Op: "define", Obj: "T", Key: "0", Mask: 1, Val: "sa", Iss: "reflect"},
	}},
	// -3 lazily materialised function `prototype`: own-key order depends on the read history
	{Mode: "lazy", Kind: "lazy", Lazy: &LazyCase{
		A: []LazyStmt{{Src: "f0.prototype", Read: true}, {Src: "f0.x = 1"}},
		B: []LazyStmt{{Src: "f0.x = 1"}},
	}},
	// -4 a non-configurable accessor turned into a data property by {writable:false}
	{Mode: "seq", Kind: "plain", Keys: []string{"a", "S1", "7"}, Twin: "issuer", TSeed: 1, Ops: []Op{
		{Op: "define", Obj: "T", Key: "a", Mask: 4, Get: "G1", Iss: "reflect"},
		{Op: "define", Obj: "T", Key: "a", Mask: 2, Flags: 0, Iss: "reflect"},
	}},
	// -5 a non-configurable data property turned into an accessor by {get: undefined}
	{Mode: "seq", Kind: "plain", Keys: []string{"b", "S1", "7"}, Twin: "issuer", TSeed: 1, Ops: []Op{
		{Op: "define", Obj: "T", Key: "b", Mask: 1, Val: "1", Iss: "reflect"},
		{Op: "define", Obj: "T", Key: "b", Mask: 4, Get: "u", Iss: "reflect"},
	}},
	// -6 Reflect.deleteProperty on a non-configurable array element converts the array to a string
	{Mode: "seq", Kind: "dense", Keys: []string{"0", "a", "length"}, Twin: "issuer", TSeed: 1, Ops: []Op{
		{Op: "define", Obj: "T", Key: "0", Mask: 32, Flags: 0, Iss: "reflect"},
		{Op: "delete", Obj: "T", Key: "0", Iss: "reflect"},
	}},
	// -7 a failing strict delete runs the @@toStringTag getter (its exception replaces the TypeError)
	{Mode: "seq", Kind: "plain", Keys: []string{"a", "@@toStringTag", "7"}, Twin: "issuer", TSeed: 1, Ops: []Op{
		{Op: "define", Obj: "T", Key: "a", Mask: 1, Val: "1", Iss: "reflect"},
		{Op: "define", Obj: "T", Key: "@@toStringTag", Mask: 4, Get: "GT", Iss: "reflect"},
		{Op: "delete", Obj: "T", Key: "a", Iss: "jss"},
	}},
	// -8 Object.setPrototypeOf on a non-extensible object converts it to a string for the error message
	{Mode: "seq", Kind: "plain", Keys: []string{"a", "S1", "7"}, Twin: "issuer", TSeed: 1, Ops: []Op{
		{Op: "preventExtensions", Obj: "T", Iss: "reflect"},
		{Op: "setProto", Obj: "T", Val: "U", Iss: "object"},
	}},
	// -9 DynamicObject: defineProperty without [[Value]] hands nil to the handler (ownKeys lists a key without descriptor)
	{Mode: "seq", Kind: "dynobj", Keys: []string{"a", "b", "0"}, Twin: "issuer", TSeed: 1, Ops: []Op{
		{Op: "define", Obj: "T", Key: "0", Mask: 16, Flags: 2, Iss: "reflect"},
	}},
	// -10 Go slice wrapper: own 'length' is not listed by ownKeys
	{Mode: "seq", Kind: "goslice", Keys: []string{"length", "0", "a"}, Twin: "issuer", TSeed: 1, Ops: []Op{
		{Op: "has", Obj: "T", Key: "length", Iss: "js"},
	}},
	// -11 mapped arguments: a non-enumerable mapped element is still listed by Object.keys
	{Mode: "seq", Kind: "margs", Keys: []string{"0", "1", "length"}, Twin: "issuer", TSeed: 1, Ops: []Op{
		{Op: "define", Obj: "T", Key: "0", Mask: 16, Flags: 0, Iss: "reflect"},
		{Op: "keys", Obj: "T", Iss: "object"},
	}},
	// -12 assignment to a non-writable array length converts the value first (RangeError in sloppy mode)
	{Mode: "seq", Kind: "dense", Keys: []string{"length", "0", "a"}, Twin: "issuer", TSeed: 1, Ops: []Op{
		{Op: "define", Obj: "T", Key: "length", Mask: 2, Flags: 0, Iss: "reflect"},
		{Op: "set", Obj: "T", Key: "length", Val: "V1", Iss: "js"},
	}},
	// -13 Array.prototype: an indexed assignment handled by an inherited setter raises length
	{Mode: "seq", Kind: "arrayproto", Keys: []string{"7", "length", "a"}, Twin: "issuer", TSeed: 1, Ops: []Op{
		{Op: "setProto", Obj: "T", Val: "P1", Iss: "object"},
		{Op: "define", Obj: "P1", Key: "7", Mask: 12, Get: "G1", Set: "St1", Iss: "object"},
		{Op: "set", Obj: "T", Key: "7", Val: "1", Iss: "jss"},
	}},
	// -14 reflect map wrapper: an entry reported non-configurable is deleted
	{Mode: "seq", Kind: "gorefmap", Keys: []string{"a", "b", "0"}, Twin: "issuer", TSeed: 1, Ops: []Op{
		{Op: "delete", Obj: "T", Key: "a", Iss: "reflect"},
	}},
	// -15 length = 0 over a non-configurable element defined during the dense->sparse transition
	{Mode: "seq", Kind: "dense", Keys: []string{"5000", "length", "a"}, Twin: "issuer", TSeed: 1, Ops: []Op{
		{Op: "define", Obj: "T", Key: "5000", Mask: 1, Val: "1", Iss: "reflect"},
		{Op: "set", Obj: "T", Key: "length", Val: "0", Iss: "reflect"},
	}},
	// -16 sparse array: truncation to exactly the index of a non-configurable element deletes it
	{Mode: "seq", Kind: "sparse", Keys: []string{"7", "length", "a"}, Twin: "issuer", TSeed: 1, Ops: []Op{
		{Op: "define", Obj: "T", Key: "7", Mask: 1, Val: "s7", Iss: "reflect"},
		{Op: "set", Obj: "T", Key: "length", Val: "s7", Iss: "reflect"},
	}},
	// -17 DynamicArray: a['7'] does not reach the prototype although a[7] does (key spelling)
	{Mode: "seq", Kind: "dynarr", Keys: []string{"7", "a", "0"}, Twin: "spelling", TSeed: 1, Ops: []Op{
		{Op: "setProto", Obj: "T", Val: "P1", Iss: "reflect"},
		{Op: "define", Obj: "P1", Key: "7", Mask: 51, Val: "t", Flags: 7, Iss: "object"},
		{Op: "get", Obj: "T", Key: "7", Num: true, Iss: "js"},
	}},
	// -18 map[string]interface{} wrapper: Reflect.set with an integer key and a foreign receiver ignores the own entry
	{Mode: "seq", Kind: "gomap", Keys: []string{"1", "a", "b"}, Twin: "spelling", TSeed: 1, Ops: []Op{
		{Op: "setProto", Obj: "T", Val: "P1", Iss: "reflect"},
		{Op: "define", Obj: "P1", Key: "1", Mask: 12, Get: "G1", Set: "St1", Iss: "object"},
		{Op: "define", Obj: "T", Key: "1", Mask: 1, Val: "0", Iss: "object"},
		{Op: "set", Obj: "T", Key: "1", Num: true, Val: "2.5", Recv: "D", Iss: "reflect"},
	}},
	// -19 Go slice wrapper: an element reported non-configurable vanishes when length shrinks (listed known finding)
	{Mode: "seq", Kind: "goslice", Keys: []string{"0", "1", "a"}, Twin: "issuer", TSeed: 1, Ops: []Op{
		{Op: "set", Obj: "T", Key: "length", Val: "1", Iss: "reflect"},
	}},
	// -21 is appended below (keep the order: indices are referenced by known-findings.d/C04.json)
	// -20 DynamicObject: a prototype cycle is rejected (on the pinned tree the next lookup overflowed the Go stack)
	{Mode: "seq", Kind: "dynobj", Keys: []string{"a", "b", "0"}, Twin: "issuer", TSeed: 1, Ops: []Op{
		{Op: "setProto", Obj: "T", Val: "D", Iss: "reflect"},
	}},
	// -21 Object.seal on a Go slice wrapper overwrites the elements (descriptor without [[Value]] stored as undefined)
	{Mode: "seq", Kind: "goslice", Keys: []string{"0", "1", "a"}, Twin: "issuer", TSeed: 1, Ops: []Op{
		{Op: "seal", Obj: "T", Iss: "object"},
	}},
	// -22 String object: a key added by the for-in body is visited (late snapshot of the non-index keys)
	{Mode: "seq", Kind: "string", Keys: []string{"a", "0", "length"}, Twin: "issuer", TSeed: 1, Ops: []Op{
		{Op: "enum", Obj: "T", Step: 0, Iss: "forin", Body: &Op{Op: "set", Obj: "T", Key: "a", Val: "1", Iss: "js"}},
	}},
	// -23 sparse array: Object.entries visits a key added by a getter and an element twice after an insertion
	{Mode: "seq", Kind: "sparse", Keys: []string{"7", "1", "a"}, Twin: "issuer", TSeed: 1, Ops: []Op{
		{Op: "define", Obj: "T", Key: "7", Mask: 4 | 16 | 32, Get: "GM", Flags: 6, Iss: "object"},
		{Op: "enum", Obj: "T", Step: 0, Iss: "entries", Body: &Op{Op: "set", Obj: "T", Key: "1", Val: "1", Iss: "js"}},
	}},
	// -24 dense array: a hole filled by the for-in body is visited
	{Mode: "seq", Kind: "dense", Keys: []string{"1", "a", "length"}, Twin: "issuer", TSeed: 1, Ops: []Op{
		{Op: "delete", Obj: "T", Key: "1", Iss: "js"},
		{Op: "enum", Obj: "T", Step: 0, Iss: "forin", Body: &Op{Op: "set", Obj: "T", Key: "1", Val: "1", Iss: "js"}},
	}},
	// -25 delete during an abandoned for-in, then index keys: own-key order (seeded mutation C04-delete-during-enum-proporder)
	{Mode: "seq", Kind: "plain", Keys: []string{"a", "b", "7", "2"}, Twin: "issuer", TSeed: 1, Ops: []Op{
		{Op: "set", Obj: "T", Key: "a", Val: "1", Iss: "js"},
		{Op: "set", Obj: "T", Key: "b", Val: "2", Iss: "js"},
		{Op: "enum", Obj: "T", Step: 0, Brk: true, Iss: "forin", Body: &Op{Op: "delete", Obj: "T", Key: "a", Iss: "js"}},
		{Op: "set", Obj: "T", Key: "7", Val: "sa", Iss: "js"},
		{Op: "set", Obj: "T", Key: "2", Val: "sb", Iss: "js"},
		{Op: "ownKeys", Obj: "T", Iss: "reflect"},
	}},
	// -26 same bookkeeping seen through the array [[Set]] fast path: the prototype's read-only index property must block
	{Mode: "seq", Kind: "dense", Keys: []string{"a", "b", "7"}, Twin: "spelling", TSeed: 1, Ops: []Op{
		{Op: "set", Obj: "P1", Key: "a", Val: "1", Iss: "js"},
		{Op: "set", Obj: "P1", Key: "b", Val: "2", Iss: "js"},
		{Op: "enum", Obj: "P1", Step: 0, Brk: true, Iss: "forin", Body: &Op{Op: "delete", Obj: "P1", Key: "a", Iss: "js"}},
		{Op: "define", Obj: "P1", Key: "7", Mask: 1 | 16 | 32, Val: "sa", Flags: 6, Iss: "object"},
		{Op: "setProto", Obj: "T", Val: "P1", Iss: "object"},
		{Op: "set", Obj: "T", Key: "7", Num: true, Val: "sb", Iss: "reflect"},
	}},
	// -27 a rejected length truncation repeated: the non-configurable element must survive every attempt (seeded
	// mutation C04-array-length-propcount: the rejected attempt wore a counter down, the second one took the fast path)
	{Mode: "seq", Kind: "dense", Keys: []string{"1", "length", "a"}, Twin: "issuer", TSeed: 1, Ops: []Op{
		{Op: "define", Obj: "T", Key: "1", Mask: 1 | 2 | 16 | 32, Val: "sa", Flags: 2, Iss: "object"},
		{Op: "set", Obj: "T", Key: "length", Val: "0", Iss: "reflect"},
		{Op: "set", Obj: "T", Key: "length", Val: "0", Iss: "reflect", Rep: true},
		{Op: "define", Obj: "T", Key: "length", Mask: 1, Val: "0", Iss: "reflect", Rep: true},
		{Op: "set", Obj: "T", Key: "length", Val: "0", Iss: "jss", Rep: true},
	}},
}
