// Package c11: "A forwarding Proxy equals its target; invariant-breaking handlers are rejected, honest ones accepted;
// revoked proxies throw on every operation".
//
// Three workloads share one case list (index ranges are fixed per tier):
//
//	[0, nLat)            lie lattice — fixed complete enumeration (same in every tier and for every seed), one triple per case,
//	                     verdict expected from harness/proxyref (ES §10.5 written from the spec text);
//	[nLat, nLat+nRev)    revoked proxies — fixed complete list;
//	[nLat+nRev, …)       lock-step: random op sequences applied to a target T and to a forwarding proxy stack over a twin T'.
package c11

import (
	_ "embed"
	"encoding/json"
	"fmt"
	"os"
	"strings"
	"sync"

	"github.com/dop251/goja"

	"verif/harness/core"
	"verif/harness/gj"
)

//go:embed prelude.js
var preludeSrc string

var (
	preludeOnce sync.Once
	preludePrg  *goja.Program
	lattice     []latCase
	revoked     []revCase
)

func setup() {
	preludeOnce.Do(func() {
		preludePrg = goja.MustCompile("c11-prelude.js", preludeSrc, false)
		lattice = buildLattice()
		revoked = buildRevoked()
		buildPinned()
	})
}

const fuelPerCase = 40_000_000

func newRT() (*goja.Runtime, *goja.Object) {
	r := gj.NewRuntime()
	r.SetMaxCallStackSize(400)
	goja.VerifSetFuel(r, fuelPerCase)
	if _, err := r.RunProgram(preludePrg); err != nil {
		panic("c11 prelude failed: " + err.Error())
	}
	return r, r.Get("__c11").ToObject(r)
}

func lockstepCases(tier string) int {
	if tier == "thorough" {
		return 400000
	}
	return 16000
}

func Check() *core.Check {
	setup()
	return &core.Check{
		ID:    "C11",
		Level: "exploration",
		Rule: "three sub-sweeps. (a) lie lattice, EXHAUSTIVE and identical in every tier/seed: one case per (trap × key kind{string,integer,symbol} × target property state{absent, data c×w×e, accessor c×e×get?×set?, frozen NaN, frozen -0} × target extensible? × trap behaviour{honest, exactly one descriptor field/key/boolean changed, dropped field, kind switch, missing/duplicate/extra/ill-typed key, wrong prototype, non-object results, effect-without-result and result-without-effect} × issuer{Reflect.*, Object.*, JS syntax sloppy/strict} × handler{JS object, Go ProxyTrapConfig with str/idx/sym variants}); " +
			"expected accept/TypeError and returned value from proxyref (ES §10.5). (b) revoked proxies: fixed list target kind × creator × operation. " +
			"(c) lock-step: random op sequences (<= 40 ops, C04 alphabet, all issuers) applied to T and to 1–3 forwarding proxy layers (JS Reflect handler / Go ProxyTrapConfig handler) over a twin T'; compared after every op: result, exception constructor, accessor/call log, full structural dump of T vs T' and of the auxiliary objects, and the trap-call log against the ES §10.5 call sequence for single-internal-method ops. " +
			"non-trivial = the trap result differs from the honest one in exactly one field/key/boolean, or the sequence executed >= 5 ops through >= 2 proxy layers; distinct = distinct triples / distinct (kind,handler,layers,op list)",
		Assumptions: []string{
			"lock-step targets: the listed kinds only; prototype candidates are ordinary objects (no proxy in a prototype chain except the subject itself; the subject and its descendant are never prototype candidates: SetPrototypeOf cycle detection stops at a proxy by specification)",
			"operations that the specification itself makes non-transparent are not generated: typed arrays — keys length/@@toStringTag and all Array.prototype methods (inherited accessors read an internal slot of the receiver, which is the proxy); String objects — JSON.stringify, Array.from and array spread ([[StringData]] slot); bound functions are not a target kind ([[BoundTargetFunction]] is consulted by instanceof/construct); a case in which the direct target's own answer to a single-internal-method op would be rejected by the §10.5 invariants (e.g. defineProperty(array,'length',{value:'7',writable:false}): SameValue('7',7) fails) ends inconclusive",
			"a divergence is attributed to the target, not to Proxy (verdict inconclusive, reason recorded in lock_target_inconsistencies), when the direct target breaks the essential invariants between two ops (model-free monitor on world A) or fails the post-mortem self-audit (descriptor vs Get vs HasProperty vs Object.keys, integer vs string spelling of a key, array index >= length): such targets belong to C04/C07/C13",
			"Go map/slice/struct wrappers: reduced alphabet (reads, enumeration, integrity queries, writes to existing keys, non-mutating Array.prototype methods) — their own define/delete/new-key semantics do not satisfy the essential invariants (reported in the inbox, by-products 12-15); struct without methods",
			"known finding C11-array-methods-no-has: length-walking Array.prototype methods are issued only while 0..length-1 of the target has no hole, and the hole-punching callback is not generated; Function 'caller' key excluded (legacy receiver-dependent accessor); a getter defined on @@iterator is the non-logging one (goja reads @@iterator twice in Array.from on a real array); the accessor log of an op that throws (in both worlds) is not compared (goja stringifies the object while building some TypeError messages, running user getters)",
			"logical cost bounds: Array.prototype methods / JSON.stringify only while length <= 6000; key 4294967294 is not used on real arrays; 40M VM instructions per case (exhaustion = inconclusive)",
			"trap-call sequences are checked only for operations that are exactly one internal method (get/set incl. receiver steps/has/delete/getOwnPropertyDescriptor/defineProperty/getPrototypeOf/setPrototypeOf/isExtensible/preventExtensions) issued on the subject itself, on spec-ordinary target kinds, against the ES §10.5 algorithms incl. the invariant-check calls on inner layers; for ownKeys only the per-layer ownKeys prefix (goja does not call target.[[GetOwnProperty]] for keys present in the trap result: documented, not checked); composite operations are compared by result, accessor log and state only",
			"Go handler variant: ProxyTrapConfig can only express typed results (no non-object descriptors / non-boolean results / primitive prototypes); the lock-step Go handler forwards with Object.Prototype() and the Reflect functions invoked through the Go API (the Go API has no boolean-returning / receiver-taking equivalents)",
		},
		Cases:         func(tier string) int { return len(lattice) + len(revoked) + lockstepCases(tier) },
		MinConclusive: func(tier string) int { return 5000 },
		NumPinned:     len(pinned),
		CaseTimeoutS:  600, // generous: also covers process start-up on an overloaded machine; its firing is inconclusive
		Run:           run,
		Post: func(p *core.PostCtx) {
			p.Evidence["exhaustive_subsweeps"] = map[string]any{
				"lie_lattice":     map[string]any{"exhaustive": true, "cases": len(lattice), "indices": fmt.Sprintf("[0,%d)", len(lattice))},
				"revoked_proxies": map[string]any{"exhaustive": true, "cases": len(revoked), "indices": fmt.Sprintf("[%d,%d)", len(lattice), len(lattice)+len(revoked))},
			}
			p.Evidence["lockstep_cases"] = lockstepCases(p.Tier)
		},
	}
}

type caseRec struct {
	Part     string    `json:"part"`
	Lattice  *latCase  `json:"lattice,omitempty"`
	Revoked  *revCase  `json:"revoked,omitempty"`
	Lockstep *lockCase `json:"lockstep,omitempty"`
}

func run(c *core.Ctx) core.Result {
	setup()
	if c.Index < 0 {
		p := pinned[-c.Index-1]
		switch {
		case p.Lattice != nil:
			return runLatMin(c, *p.Lattice)
		case p.Lockstep != nil:
			return runLockMin(c, *p.Lockstep)
		case p.Revoked != nil:
			return runRevoked(c, *p.Revoked)
		}
		return core.Result{Verdict: core.Held}
	}
	i := c.Index
	if part := os.Getenv("C11_PART"); part != "" { // development aid: run one sub-sweep only (never set by run.sh / MANIFEST)
		isLat, isRev := i < len(lattice), i >= len(lattice) && i < len(lattice)+len(revoked)
		if (part == "lattice" && !isLat) || (part == "revoked" && !isRev) || (part == "lockstep" && (isLat || isRev)) {
			return core.Result{Verdict: core.Held}
		}
	}
	if i < len(lattice) {
		return runLatMin(c, lattice[i])
	}
	i -= len(lattice)
	if i < len(revoked) {
		return runRevoked(c, revoked[i])
	}
	lc := genLock(c)
	return runLockMin(c, lc)
}

// ---------------------------------------------------------------------------------------------------
// lattice execution
// ---------------------------------------------------------------------------------------------------

type latViolation struct {
	monitor string
	class   string // what disagrees (expected vs observed), stable under simplification
	detail  string
}

// rtHolder caches one runtime for a run of lattice cases (they create all their objects afresh and leave the
// intrinsics alone).  Any violation seen on a cached runtime is re-executed on a fresh one before it is reported.
type rtHolder struct {
	r    *goja.Runtime
	api  *goja.Object
	uses int
}

func (h *rtHolder) get() (*goja.Runtime, *goja.Object) {
	if h == nil {
		return newRT()
	}
	if h.r == nil || h.uses >= 1000 {
		h.r, h.api = newRT()
		h.uses = 0
	}
	h.uses++
	goja.VerifSetFuel(h.r, goja.VerifSteps(h.r)+fuelPerCase)
	return h.r, h.api
}

func (h *rtHolder) drop() {
	if h != nil {
		h.r = nil
	}
}

var sharedRT = &rtHolder{}

func execLat(cs *latCase, st *core.Stats, rh *rtHolder) (viol *latViolation, inconclusive string, exp latExpect) {
	r, api := rh.get()
	defer func() {
		if viol != nil || inconclusive != "" {
			rh.drop()
		}
	}()
	s := &cs.Spec
	fnName := "lat"
	latFn, _ := goja.AssertFunction(api.Get(fnName))
	specJSON, _ := json.Marshal(s)
	var variants []string
	proxyCtor := r.Get("Proxy")
	mk := func(call goja.FunctionCall) goja.Value {
		T := call.Argument(0).ToObject(r)
		H := call.Argument(1).ToObject(r)
		if s.Go {
			cfg := adaptHandler(r, H, s.GoTraps, func(trap, variant, key string) {
				variants = append(variants, trap+":"+variant+":"+key)
			})
			return r.ToValue(r.NewProxy(T, cfg))
		}
		p, err := r.New(proxyCtor, T, H)
		if err != nil {
			panic(err)
		}
		return p
	}
	o := gj.Call(func() (goja.Value, error) { return latFn(goja.Undefined(), r.ToValue(string(specJSON)), r.ToValue(mk)) })
	switch {
	case o.Panic != nil:
		return &latViolation{"go-panic-escaped", "panic", fmt.Sprintf("Go panic escaped: %v\n%s", o.Panic, core.Trunc(o.PanicStack, 2000))}, "", exp
	case o.Assertion != nil:
		return &latViolation{"verif-assertion", "assert:" + o.Assertion.Hook, o.Assertion.Error()}, "", exp
	case o.Fuel:
		return nil, "fuel", exp
	case o.Err != nil:
		return &latViolation{"harness-error", "prelude", "lattice driver threw: " + o.Err.Error()}, "", exp
	}
	var rec latRec
	if err := json.Unmarshal([]byte(o.Val.String()), &rec); err != nil {
		return &latViolation{"harness-error", "json", "bad record: " + err.Error()}, "", exp
	}
	if why := gj.IdleProblem(r, false); why != "" {
		return &latViolation{"vm-not-idle", "idle:" + why, "VM registers not idle after the lattice case: " + why}, "", exp
	}
	if s.TrapVal != nil {
		// reference: the same operation on a plain twin (trap undefined/null), or TypeError (trap not callable)
		if *s.TrapVal == "und" || *s.TrapVal == "null" {
			r2, api2 := newRT()
			plainFn, _ := goja.AssertFunction(api2.Get("latPlain"))
			o2 := gj.Call(func() (goja.Value, error) { return plainFn(goja.Undefined(), r2.ToValue(string(specJSON))) })
			if o2.Err != nil || o2.Panic != nil || o2.Fuel {
				return nil, "plain-twin-failed", exp
			}
			var rec2 latRec
			json.Unmarshal([]byte(o2.Val.String()), &rec2)
			exp = latExpect{out: rec2.Out, accepted: true, why: "trap undefined/null: same as on the target"}
			a, _ := json.Marshal(rec.After)
			b, _ := json.Marshal(rec2.After)
			if string(a) != string(b) {
				return &latViolation{"lattice-target-state", "state", fmt.Sprintf("trap %s: target state after the operation differs from a plain twin: proxy-target %s, plain %s", *s.TrapVal, a, b)}, "", exp
			}
		} else {
			exp = latExpect{out: teOut, why: "GetMethod: trap value is neither undefined/null nor callable"}
		}
		if rec.Out != exp.out {
			return &latViolation{"lattice-trap-value", "exp=" + exp.out + " got=" + rec.Out, fmt.Sprintf("handler.%s = %s: expected %s (%s), observed %s", s.Trap, *s.TrapVal, exp.out, exp.why, rec.Out)}, "", exp
		}
		return nil, "", exp
	}
	exp = expectLat(cs, &rec)
	if st != nil {
		if exp.accepted {
			st.Inc("lattice:expected_accepted")
		} else {
			st.Inc("lattice:expected_rejected_or_no_trap")
		}
	}
	if exp.noTrap {
		if rec.Calls != 0 {
			return &latViolation{"lattice-trap-called", "called", fmt.Sprintf("trap %s was invoked %d times although the proxy must not have this internal method", s.Trap, rec.Calls)}, "", exp
		}
	} else {
		if rec.Calls == 0 {
			return &latViolation{"lattice-trap-not-called", "notcalled", fmt.Sprintf("trap %s was never invoked by %s; outcome %s", s.Trap, s.Op.Iss, rec.Out)}, "", exp
		}
		if rec.ArgBad != "" {
			return &latViolation{"lattice-trap-arguments", "args:" + rec.ArgBad, fmt.Sprintf("trap %s received wrong arguments: %s", s.Trap, rec.ArgBad)}, "", exp
		}
		if s.Trap == "defineProperty" {
			if want := rDescObj(s.Op.Desc.desc()); rec.DArg != want {
				return &latViolation{"lattice-trap-arguments", "descarg", fmt.Sprintf("defineProperty trap received descriptor %s, expected %s", rec.DArg, want)}, "", exp
			}
		}
	}
	if s.Go && !exp.noTrap {
		want := ""
		if s.Key != nil {
			switch {
			case strings.HasPrefix(*s.Key, "@"):
				want = s.Trap + ":sym:"
			case *s.Key == "3" && s.GoTraps == "all":
				want = s.Trap + ":idx:3"
			default:
				want = s.Trap + ":str:" + *s.Key
			}
		} else {
			want = s.Trap + "::"
		}
		for _, v := range variants {
			if strings.HasPrefix(v, s.Trap+":") && v != want {
				return &latViolation{"native-trap-variant", "variant", fmt.Sprintf("Go ProxyTrapConfig: dispatched %q, documented dispatch is %q (all: %v)", v, want, variants)}, "", exp
			}
		}
		if st != nil {
			for _, v := range variants {
				st.SetAdd("lattice_native_variants", v)
			}
		}
	}
	if rec.Out != exp.out {
		return &latViolation{"lattice-verdict", "exp=" + exp.out + " got=" + rec.Out,
			fmt.Sprintf("expected %s%s, observed %s; trap returned %s; target facts when the trap returned: %s", exp.out, whyStr(exp.why), rec.Out, strOrNil(rec.Tret), factsStr(rec.Facts))}, "", exp
	}
	if exp.wantSame && !rec.Same {
		return &latViolation{"lattice-value-identity", "identity", fmt.Sprintf("operation returned %s which is not the very value the trap returned (%s)", rec.Out, strOrNil(rec.Tret))}, "", exp
	}
	return nil, "", exp
}

func whyStr(s string) string {
	if s == "" {
		return ""
	}
	return " (" + s + ")"
}

func strOrNil(s *string) string {
	if s == nil {
		return "<trap not called>"
	}
	return *s
}

func factsStr(f *latFacts) string {
	if f == nil {
		return "<none>"
	}
	b, _ := json.Marshal(f)
	return string(b)
}

func runLatMin(c *core.Ctx, cs latCase) core.Result {
	st := c.Stats
	s := &cs.Spec
	st.Inc("lattice:cases")
	st.Inc("lattice:trap:" + s.Trap)
	if s.Go {
		st.Inc("lattice:handler:go")
	} else {
		st.Inc("lattice:handler:js")
	}
	if cs.Honest {
		st.Inc("lattice:honest")
	} else if cs.OneField {
		st.Inc("lattice:lie_one_field")
	} else {
		st.Inc("lattice:lie_other")
	}
	st.SetAdd("lattice_trap_x_behaviour", s.Trap+"/"+cs.Lie)
	st.SetAdd("lattice_trap_x_state", s.Trap+"/"+cs.StateN+fmt.Sprintf("/ext=%v", s.Ext))
	st.SetAdd("lattice_issuers", s.Op.Iss)
	if c.Replay {
		b, _ := json.MarshalIndent(cs, "", " ")
		fmt.Printf("--- lattice case ---\n%s\n", b)
	}
	viol, inc, exp := execLat(&cs, st, sharedRT)
	if viol != nil || inc != "" {
		viol, inc, exp = execLat(&cs, nil, nil) // confirm on a fresh runtime
	}
	res := core.Result{Verdict: core.Held, NonTrivial: cs.OneField, Key: cs.sig()}
	if inc != "" {
		return core.Result{Verdict: core.Inconclusive, Monitor: inc}
	}
	if viol == nil {
		if exp.accepted {
			st.Inc("lattice:observed_accepted")
		} else {
			st.Inc("lattice:observed_rejected")
		}
		return res
	}
	// minimise towards the canonical witness: walk to simpler neighbours that fail in the same way
	cur := cs
	curViol := viol
	for steps := 0; steps < 60; steps++ {
		moved := false
		for _, cand := range latSimplifications(cur) {
			v2, inc2, _ := execLat(&cand, nil, nil)
			if inc2 == "" && v2 != nil && v2.monitor == curViol.monitor && v2.class == curViol.class {
				cur, curViol, moved = cand, v2, true
				break
			}
		}
		if !moved {
			break
		}
	}
	detail := curViol.detail
	if cur.sig() != cs.sig() {
		detail += "\n(minimised from: " + cs.sig() + ")"
	}
	return core.Result{Verdict: core.Violated, NonTrivial: true, Key: cs.sig(), Monitor: curViol.monitor,
		Detail:    cur.sig() + "\n" + detail,
		Signature: curViol.monitor + " | " + cur.sig() + " | " + curViol.class,
		Case:      caseRec{Part: "lattice", Lattice: &cur}}
}
