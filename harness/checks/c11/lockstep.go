package c11

import "verif/harness/core"

type lockCase struct{}

func genLock(c *core.Ctx) lockCase { return lockCase{} }

func runLockMin(c *core.Ctx, lc lockCase) core.Result { return core.Result{Verdict: core.Held} }
