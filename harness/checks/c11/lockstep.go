package c11

import (
	"encoding/json"
	"fmt"
	"regexp"
	"strconv"
	"strings"

	"github.com/dop251/goja"

	"verif/harness/core"
	"verif/harness/gj"
	"verif/harness/proxyref"
)

// ---------------------------------------------------------------------------------------------------
// Lock-step: case description
// ---------------------------------------------------------------------------------------------------

type ldesc struct {
	V *int    `json:"v,omitempty"` // value index
	W *bool   `json:"w,omitempty"`
	G *string `json:"g,omitempty"` // lg | fv | und
	S *string `json:"s,omitempty"` // ls | und
	E *bool   `json:"e,omitempty"`
	C *bool   `json:"c,omitempty"`
}

type lockOp struct {
	Op string `json:"op"`
	K  *int   `json:"k,omitempty"` // key index (prelude LKEYS)
	D  *ldesc `json:"d,omitempty"`
	A  []int  `json:"a,omitempty"` // value indices
	N  []int  `json:"n,omitempty"` // small integers
	R  string `json:"r,omitempty"` // receiver
	P  string `json:"p,omitempty"` // prototype candidate
	C  string `json:"c,omitempty"` // instanceof constructor
	F  int    `json:"f,omitempty"` // callback id
	// Force bypasses the hole guard (only used by the pinned witness of the known finding about HasProperty)
	Force bool `json:"force,omitempty"`
}

type lockCase struct {
	Kind     string   `json:"kind"`
	Handlers []string `json:"handlers"` // per layer, outermost first: js | go
	Ops      []lockOp `json:"ops"`
}

func (c *lockCase) sig() string {
	b, _ := json.Marshal(c)
	return "lockstep " + string(b)
}

var lockKeyNames = []string{"a", "b", "c", "length", "prototype", "name", "0", "1", "2", "3", "5", "acc", "nca", "ro", "fz", "ncw", "@symA", "@symB",
	"@@toStringTag", "@@iterator", "constructor", "4294967294", "4294967295", "-0", "1.5", "5000", "A", "B", "caller", "callee",
	"@@isConcatSpreadable", "toJSON", "M", "px", "-1", "01"}

func keyIdx(name string) int {
	for i, k := range lockKeyNames {
		if k == name {
			return i
		}
	}
	panic("no key " + name)
}

type kindInfo struct {
	hostKeys []string // host kinds: the keys that exist (set is only issued on those)
	name     string
	weight   int
	callable bool
	arrayish bool // Array.prototype methods are interesting
	ordinary bool // spec-ordinary [[Set]]/[[Get]]… : full trap-sequence model applies
	host     bool
	noJSON   bool // JSON.stringify is not transparent by spec (internal slot) or key order is unspecified
	badKeys  []string
}

var hugeIdx = []string{"4294967294", "4294967295", "5000", "-1"}

// real arrays: index 2^32-2 makes length 2^32-1; native loops over such a length (outside the VM's instruction
// counter) make single cases run for minutes — logical cost bound, like the length<=6000 guard
var maxIdx = []string{"4294967294"}

var kinds = []kindInfo{
	{name: "plain", weight: 10, ordinary: true},
	{name: "nullproto", weight: 5, ordinary: true},
	{name: "inherits", weight: 6, ordinary: true},
	// "caller": goja's inherited Function.prototype.caller getter answers by receiver (undefined for a sloppy function,
	// TypeError for anything else) — legacy territory, not an essential-invariant matter: excluded
	{name: "function", weight: 7, callable: true, ordinary: true, badKeys: []string{"caller"}},
	{name: "strictfn", weight: 3, callable: true, ordinary: true, badKeys: []string{"caller"}},
	{name: "arrow", weight: 2, callable: true, ordinary: true, badKeys: []string{"caller"}},
	{name: "class", weight: 6, callable: true, ordinary: true, badKeys: []string{"caller"}},
	{name: "dense", weight: 10, arrayish: true, ordinary: true, badKeys: maxIdx},
	{name: "sparse", weight: 5, arrayish: true, ordinary: true, badKeys: maxIdx},
	{name: "args", weight: 5, arrayish: true},
	{name: "strictargs", weight: 3, arrayish: true},
	{name: "string", weight: 5, arrayish: true, noJSON: true},
	// typed arrays: the inherited accessors length/@@toStringTag read an internal slot of the *receiver*, which is the
	// proxy: not transparent by specification.  Array.prototype methods all start with Get(O, "length").
	{name: "typed", weight: 5, badKeys: []string{"length", "@@toStringTag"}},
	{name: "frozen", weight: 4, ordinary: true},
	{name: "sealed", weight: 4, ordinary: true},
	{name: "nonext", weight: 4, ordinary: true},
	{name: "frozenarray", weight: 3, arrayish: true, ordinary: true, badKeys: maxIdx},
	{name: "accessors", weight: 10, ordinary: true},
	// Go wrappers: reduced alphabet (see hostOps): their own internal methods do not satisfy the essential invariants
	// for define/delete/new keys (reported in the inbox), so only reads and writes to existing keys are in the domain
	{name: "gomap", weight: 3, host: true, noJSON: true, hostKeys: []string{"a", "b"}},
	{name: "goslice", weight: 3, host: true, arrayish: true, badKeys: hugeIdx, hostKeys: []string{"0", "1", "2"}},
	{name: "gostruct", weight: 3, host: true, hostKeys: []string{"A", "B"}},
	{name: "goreflectmap", weight: 2, host: true, noJSON: true, hostKeys: []string{"a", "b"}},
	{name: "goreflectslice", weight: 2, host: true, arrayish: true, badKeys: hugeIdx, hostKeys: []string{"0", "1", "2"}},
}

func kindByName(n string) *kindInfo {
	for i := range kinds {
		if kinds[i].name == n {
			return &kinds[i]
		}
	}
	return &kinds[0]
}

var amOps = []string{"am/push", "am/pop", "am/shift", "am/unshift", "am/splice", "am/slice", "am/concat", "am/indexOf", "am/lastIndexOf", "am/includes", "am/join",
	"am/reverse", "am/sort", "am/fill", "am/map", "am/filter", "am/forEach", "am/reduce", "am/find", "am/findIndex", "am/every", "am/some", "am/flat",
	"am/copyWithin", "am/at", "am/keysIter", "am/entriesIter", "am/spreadArr", "am/from"}

type opGroup struct {
	weight int
	names  []string
}

var opGroups = []opGroup{
	{14, []string{"define/O", "define/R", "define/Os"}},
	{10, []string{"get/S", "get/R", "get/Rr", "get/child"}},
	{14, []string{"set/sloppy", "set/strict", "set/R", "set/Rr", "set/child"}},
	{7, []string{"delete/sloppy", "delete/strict", "delete/R"}},
	{6, []string{"has/in", "has/R", "has/child"}},
	{5, []string{"hasOwn/p", "hasOwn/O", "hasOwn/pie"}},
	{8, []string{"gopd/O", "gopd/R", "gopds/O"}},
	{12, []string{"keys/R", "keys/names", "keys/symbols", "keys/O", "keys/values", "keys/entries", "keys/forin", "keys/spread", "keys/assignFrom", "keys/assignTo", "keys/json"}},
	{8, []string{"pe/O", "pe/R", "seal/O", "freeze/O", "isExt/O", "isExt/R", "isSealed/O", "isFrozen/O"}},
	{8, []string{"getProto/O", "getProto/R", "getProto/dunder", "getProto/isProtoOf", "setProto/O", "setProto/R", "setProto/dunder"}},
	{3, []string{"isArray", "typeof", "instanceof/lhs", "instanceof/rhs"}},
}

// operations issued on Go wrapper targets
var hostOps = []string{"get/S", "get/R", "get/Rr", "get/child", "has/in", "has/R", "has/child", "hasOwn/p", "hasOwn/O", "hasOwn/pie", "gopd/O", "gopd/R", "gopds/O",
	"keys/R", "keys/names", "keys/symbols", "keys/O", "keys/values", "keys/entries", "keys/forin", "keys/spread", "keys/assignFrom",
	"isExt/O", "isExt/R", "isSealed/O", "isFrozen/O", "getProto/O", "getProto/R", "getProto/dunder", "getProto/isProtoOf", "isArray", "typeof", "instanceof/lhs",
	"set/sloppy", "set/strict", "set/R", "set/sloppy", "set/strict", "set/R"}
var hostAmOps = []string{"am/indexOf", "am/lastIndexOf", "am/includes", "am/join", "am/slice", "am/concat", "am/map", "am/filter", "am/forEach", "am/reduce",
	"am/find", "am/findIndex", "am/every", "am/some", "am/flat", "am/at", "am/keysIter", "am/entriesIter"}

var callOps = []string{"call/S", "call/call", "call/R", "new/S", "new/R", "new/Rnt", "new/asNT"}

func genDesc(r *core.Rng) *ldesc {
	d := &ldesc{}
	bits := r.Intn(64)
	mode := r.Intn(20) // 0: invalid mix allowed; else data or accessor or generic
	if bits&1 != 0 {
		v := r.Intn(10)
		d.V = &v
	}
	if bits&2 != 0 {
		d.W = bp(r.Bool())
	}
	if bits&4 != 0 {
		d.G = sp(core.Pick(r, []string{"lg", "fv", "und"}))
	}
	if bits&8 != 0 {
		d.S = sp(core.Pick(r, []string{"ls", "und"}))
	}
	if bits&16 != 0 {
		d.E = bp(r.Bool())
	}
	if bits&32 != 0 {
		d.C = bp(r.Bool())
	}
	if mode != 0 && (d.V != nil || d.W != nil) && (d.G != nil || d.S != nil) {
		if r.Bool() {
			d.G, d.S = nil, nil
		} else {
			d.V, d.W = nil, nil
		}
	}
	return d
}

func genKey(r *core.Rng, ki *kindInfo) *int {
	for {
		var k int
		switch r.Intn(10) {
		case 0, 1, 2: // a small hot set so that ops collide on the same keys
			k = keyIdx(core.Pick(r, []string{"a", "b", "0", "1", "length", "@symA", "acc"}))
		default:
			k = r.Intn(len(lockKeyNames))
		}
		bad := false
		for _, b := range ki.badKeys {
			if lockKeyNames[k] == b {
				bad = true
			}
		}
		if !bad {
			return &k
		}
	}
}

func genOp(r *core.Rng, ki *kindInfo) lockOp {
	var name string
	roll := r.Intn(100)
	switch {
	case ki.callable && roll < 14:
		name = core.Pick(r, callOps)
	case ki.arrayish && roll < 25:
		name = core.Pick(r, amOps)
	case roll < 3:
		name = core.Pick(r, append(append([]string{}, callOps...), amOps...)) // also on non-callables / non-arrays
	default:
		w := make([]int, len(opGroups))
		for i, g := range opGroups {
			w[i] = g.weight
		}
		name = core.Pick(r, opGroups[r.PickW(w)].names)
	}
	if ki.host {
		if ki.arrayish && roll < 30 {
			name = core.Pick(r, hostAmOps)
		} else {
			name = core.Pick(r, hostOps)
		}
	}
	if ki.noJSON && name == "keys/json" {
		name = "keys/R"
	}
	if ki.name == "typed" && strings.HasPrefix(name, "am/") {
		name = "keys/O"
	}
	if ki.name == "string" && (name == "am/from" || name == "am/spreadArr") {
		name = "am/keysIter" // String.prototype[@@iterator] needs the [[StringData]] slot of its receiver: not transparent by specification
	}
	op := lockOp{Op: name}
	op.K = genKey(r, ki)
	op.A = []int{r.Intn(16), r.Intn(16)}
	if ki.host && strings.HasPrefix(name, "set/") {
		k := keyIdx(core.Pick(r, ki.hostKeys))
		op.K = &k
		op.A = []int{core.Pick(r, []int{0, 1, 10, 12}), 0} // small integers: assignable to every element type used
		if ki.name == "gostruct" && lockKeyNames[k] == "B" || ki.name == "gomap" {
			op.A[0] = core.Pick(r, []int{0, 1, 2, 11})
		}
	}

	if strings.HasPrefix(name, "define/") {
		op.D = genDesc(r)
		if lockKeyNames[*op.K] == "@@iterator" && op.D.G != nil && *op.D.G == "lg" {
			// Array.from / spread on a real array read @@iterator twice in goja (fast-path probe + GetMethod; spec: once);
			// a logging getter there would make that array-side quirk look like a proxy divergence: use the silent getter
			op.D.G = sp("fv")
		}
	}
	if strings.HasSuffix(name, "/Rr") {
		op.R = core.Pick(r, []string{"self", "child", "recvA", "protoX", "prim", "null"})
	}
	if strings.HasPrefix(name, "setProto/") || name == "getProto/isProtoOf" {
		op.P = core.Pick(r, []string{"protoX", "protoY", "null", "recvA", "arrayProto", "fnProto", "objProto", "prim"})
	}
	if name == "instanceof/lhs" {
		op.C = core.Pick(r, []string{"Array", "Object", "Function", "ctorF"})
	}
	if strings.HasPrefix(name, "am/") {
		op.N = []int{r.Range(-2, 4), r.Range(-2, 5)}
		op.F = r.Intn(6)
		if op.F == 4 {
			// callback 4 punches a hole while the method runs; goja's generic methods then differ between array and proxy
			// receivers because they never ask HasProperty (known finding C11-array-methods-no-has)
			op.F = 3
		}
		if ki.host {
			op.F = r.Intn(4)
			op.A = []int{core.Pick(r, []int{0, 1, 2, 10, 12}), core.Pick(r, []int{0, 1, 2, 10})} // values a Go slice of any element type can hold
		}
	}
	return op
}

func genLock(c *core.Ctx) lockCase {
	r := c.Rng
	w := make([]int, len(kinds))
	for i, k := range kinds {
		w[i] = k.weight
	}
	ki := &kinds[r.PickW(w)]
	layers := 1 + r.PickW([]int{3, 4, 3})
	var hs []string
	switch r.PickW([]int{5, 3, 2}) {
	case 0:
		for i := 0; i < layers; i++ {
			hs = append(hs, "js")
		}
	case 1:
		for i := 0; i < layers; i++ {
			hs = append(hs, "go")
		}
	default:
		for i := 0; i < layers; i++ {
			hs = append(hs, core.Pick(r, []string{"js", "go"}))
		}
	}
	n := r.Range(5, 40)
	lc := lockCase{Kind: ki.name, Handlers: hs}
	for i := 0; i < n; i++ {
		lc.Ops = append(lc.Ops, genOp(r, ki))
	}
	return lc
}

// ---------------------------------------------------------------------------------------------------
// host objects and Go-handler layers
// ---------------------------------------------------------------------------------------------------

type hostStruct struct {
	A int
	B string
}

// (no methods: objectGoReflect reports a method as a non-writable, non-configurable data property but returns a fresh
// function object on every read — an essential-invariant violation of the wrapper itself, reported in the inbox)

func hostObject(r *goja.Runtime, kind string) goja.Value {
	switch kind {
	case "gomap":
		return r.ToValue(map[string]interface{}{"a": 1, "b": "x"})
	case "goslice":
		return r.ToValue([]interface{}{1, 2, 3})
	case "gostruct":
		return r.ToValue(&hostStruct{A: 1, B: "x"})
	case "goreflectmap":
		return r.ToValue(map[string]int{"a": 1, "b": 2})
	case "goreflectslice":
		return r.ToValue([]int{1, 2, 3})
	}
	panic(r.NewTypeError("c11: unknown host kind " + kind))
}

var canonIntRe = regexp.MustCompile(`^(0|-?[1-9][0-9]{0,14})$`)

// goForwardLayer builds new Proxy(target, <Go ProxyTrapConfig>) whose 13 traps (all key variants) forward to the
// corresponding operation on the target: Object.Prototype() directly, everything else through the Reflect functions
// obtained and invoked through the Go API (the Go API has no boolean-returning / receiver-taking equivalents).
func goForwardLayer(r *goja.Runtime, target *goja.Object, logFn, badFn goja.Callable) goja.Value {
	refl := r.Get("Reflect").ToObject(r)
	rf := func(name string) goja.Callable {
		f, ok := goja.AssertFunction(refl.Get(name))
		if !ok {
			panic(r.NewTypeError("c11: Reflect." + name + " missing"))
		}
		return f
	}
	call := func(f goja.Callable, args ...goja.Value) goja.Value {
		v, err := f(goja.Undefined(), args...)
		if err != nil {
			rethrow(err)
		}
		return valOrUndef(v)
	}
	log := func(trap string, key goja.Value) {
		if key == nil {
			call(logFn, r.ToValue(trap), goja.Undefined(), r.ToValue(false))
		} else {
			call(logFn, r.ToValue(trap), key, r.ToValue(true))
		}
	}
	chkStr := func(trap, key string) {
		if canonIntRe.MatchString(key) {
			call(badFn, r.ToValue(fmt.Sprintf("Go ProxyTrapConfig: string variant of %s received the canonical integer key %q although the integer variant is installed", trap, key)))
		}
	}
	chkTarget := func(trap string, t *goja.Object) {
		if t != target {
			call(badFn, r.ToValue("Go ProxyTrapConfig: trap "+trap+" received a different target"))
		}
	}
	var (
		rSetProto = rf("setPrototypeOf")
		rIsExt    = rf("isExtensible")
		rPE       = rf("preventExtensions")
		rGOPD     = rf("getOwnPropertyDescriptor")
		rDefine   = rf("defineProperty")
		rHas      = rf("has")
		rGet      = rf("get")
		rSet      = rf("set")
		rDelete   = rf("deleteProperty")
		rOwnKeys  = rf("ownKeys")
		rApply    = rf("apply")
		rConstr   = rf("construct")
	)
	s := func(x string) goja.Value { return r.ToValue(x) }
	ix := func(i int) goja.Value { return r.ToValue(strconv.Itoa(i)) }
	cfg := &goja.ProxyTrapConfig{
		GetPrototypeOf: func(t *goja.Object) *goja.Object {
			chkTarget("getPrototypeOf", t)
			log("getPrototypeOf", nil)
			return t.Prototype()
		},
		SetPrototypeOf: func(t *goja.Object, p *goja.Object) bool {
			log("setPrototypeOf", nil)
			return call(rSetProto, t, protoVal(p)).ToBoolean()
		},
		IsExtensible:      func(t *goja.Object) bool { log("isExtensible", nil); return call(rIsExt, t).ToBoolean() },
		PreventExtensions: func(t *goja.Object) bool { log("preventExtensions", nil); return call(rPE, t).ToBoolean() },

		GetOwnPropertyDescriptor: func(t *goja.Object, p string) goja.PropertyDescriptor {
			chkStr("getOwnPropertyDescriptor", p)
			chkTarget("getOwnPropertyDescriptor", t)
			log("getOwnPropertyDescriptor", s(p))
			return pdFromValue(call(rGOPD, t, s(p)))
		},
		GetOwnPropertyDescriptorIdx: func(t *goja.Object, p int) goja.PropertyDescriptor {
			log("getOwnPropertyDescriptor", ix(p))
			return pdFromValue(call(rGOPD, t, ix(p)))
		},
		GetOwnPropertyDescriptorSym: func(t *goja.Object, p *goja.Symbol) goja.PropertyDescriptor {
			log("getOwnPropertyDescriptor", p)
			return pdFromValue(call(rGOPD, t, p))
		},
		DefineProperty: func(t *goja.Object, p string, d goja.PropertyDescriptor) bool {
			chkStr("defineProperty", p)
			log("defineProperty", s(p))
			return call(rDefine, t, s(p), pdToObject(r, d)).ToBoolean()
		},
		DefinePropertyIdx: func(t *goja.Object, p int, d goja.PropertyDescriptor) bool {
			log("defineProperty", ix(p))
			return call(rDefine, t, ix(p), pdToObject(r, d)).ToBoolean()
		},
		DefinePropertySym: func(t *goja.Object, p *goja.Symbol, d goja.PropertyDescriptor) bool {
			log("defineProperty", p)
			return call(rDefine, t, p, pdToObject(r, d)).ToBoolean()
		},
		Has: func(t *goja.Object, p string) bool {
			chkStr("has", p)
			log("has", s(p))
			return call(rHas, t, s(p)).ToBoolean()
		},
		HasIdx: func(t *goja.Object, p int) bool { log("has", ix(p)); return call(rHas, t, ix(p)).ToBoolean() },
		HasSym: func(t *goja.Object, p *goja.Symbol) bool { log("has", p); return call(rHas, t, p).ToBoolean() },
		Get: func(t *goja.Object, p string, rc goja.Value) goja.Value {
			chkStr("get", p)
			chkTarget("get", t)
			log("get", s(p))
			return call(rGet, t, s(p), valOrUndef(rc))
		},
		GetIdx: func(t *goja.Object, p int, rc goja.Value) goja.Value {
			log("get", ix(p))
			return call(rGet, t, ix(p), valOrUndef(rc))
		},
		GetSym: func(t *goja.Object, p *goja.Symbol, rc goja.Value) goja.Value {
			log("get", p)
			return call(rGet, t, p, valOrUndef(rc))
		},
		Set: func(t *goja.Object, p string, v, rc goja.Value) bool {
			chkStr("set", p)
			log("set", s(p))
			return call(rSet, t, s(p), valOrUndef(v), valOrUndef(rc)).ToBoolean()
		},
		SetIdx: func(t *goja.Object, p int, v, rc goja.Value) bool {
			log("set", ix(p))
			return call(rSet, t, ix(p), valOrUndef(v), valOrUndef(rc)).ToBoolean()
		},
		SetSym: func(t *goja.Object, p *goja.Symbol, v, rc goja.Value) bool {
			log("set", p)
			return call(rSet, t, p, valOrUndef(v), valOrUndef(rc)).ToBoolean()
		},
		DeleteProperty: func(t *goja.Object, p string) bool {
			chkStr("deleteProperty", p)
			log("deleteProperty", s(p))
			return call(rDelete, t, s(p)).ToBoolean()
		},
		DeletePropertyIdx: func(t *goja.Object, p int) bool {
			log("deleteProperty", ix(p))
			return call(rDelete, t, ix(p)).ToBoolean()
		},
		DeletePropertySym: func(t *goja.Object, p *goja.Symbol) bool {
			log("deleteProperty", p)
			return call(rDelete, t, p).ToBoolean()
		},
		OwnKeys: func(t *goja.Object) *goja.Object {
			log("ownKeys", nil)
			return call(rOwnKeys, t).ToObject(r)
		},
		Apply: func(t *goja.Object, this goja.Value, args []goja.Value) goja.Value {
			log("apply", nil)
			return call(rApply, t, valOrUndef(this), r.NewArray(valuesToIfaces(args)...))
		},
		Construct: func(t *goja.Object, args []goja.Value, nt *goja.Object) *goja.Object {
			log("construct", nil)
			return call(rConstr, t, r.NewArray(valuesToIfaces(args)...), protoVal(nt)).ToObject(r)
		},
	}
	return r.ToValue(r.NewProxy(target, cfg))
}

// ---------------------------------------------------------------------------------------------------
// execution and comparison
// ---------------------------------------------------------------------------------------------------

type seqFacts struct {
	Ext   bool      `json:"ext"`
	Proto string    `json:"proto"`
	Own   bool      `json:"own"`
	Chain string    `json:"chain"`
	Desc  *factDesc `json:"desc"`
}

type sideRec struct {
	Out  string `json:"out"`
	Log  string `json:"log"`
	Dump string `json:"dump"`
	Tlog string `json:"tlog"`
	Bad  string `json:"bad"`
	// world A only: essential-invariant violations of the direct target between before and after the op
	Insane string    `json:"insane"`
	Pre    *seqFacts `json:"pre"`
	Post   *seqFacts `json:"post"`
}

type stepRec struct {
	I    int      `json:"i"`
	Skip string   `json:"skip"`
	A    *sideRec `json:"a"`
	B    *sideRec `json:"b"`
}

type lockOut struct {
	Recs   []stepRec      `json:"recs"`
	Tcount map[string]int `json:"tcount"`
	AuditA string         `json:"auditA"`
	AuditB string         `json:"auditB"`
}

type lockViolation struct {
	monitor string
	class   string
	detail  string
	at      int // index of the op at which it was seen (-1: initial state)
}

type lockResult struct {
	viol     *lockViolation
	inc      string
	incWhy   string
	executed int
	seqChk   int
	out      *lockOut
}

func outKind(s string) string {
	if strings.HasPrefix(s, "throw:") {
		return s
	}
	return "ok"
}

func firstDiff(a, b string) string {
	n := len(a)
	if len(b) < n {
		n = len(b)
	}
	i := 0
	for i < n && a[i] == b[i] {
		i++
	}
	lo := i - 60
	if lo < 0 {
		lo = 0
	}
	cut := func(s string) string {
		hi := i + 100
		if hi > len(s) {
			hi = len(s)
		}
		if lo > len(s) {
			return ""
		}
		return s[lo:hi]
	}
	return fmt.Sprintf("first difference at byte %d: target …%s… vs proxy …%s…", i, cut(a), cut(b))
}

func execLock(lc *lockCase, st *core.Stats) lockResult {
	r, api := newRT()
	fn, _ := goja.AssertFunction(api.Get("lockRun"))
	b, _ := json.Marshal(lc)
	host := func(call goja.FunctionCall) goja.Value { return hostObject(r, call.Argument(0).String()) }
	goLayer := func(call goja.FunctionCall) goja.Value {
		logFn, _ := goja.AssertFunction(call.Argument(2))
		badFn, _ := goja.AssertFunction(call.Argument(3))
		return goForwardLayer(r, call.Argument(0).ToObject(r), logFn, badFn)
	}
	o := gj.Call(func() (goja.Value, error) {
		return fn(goja.Undefined(), r.ToValue(string(b)), r.ToValue(host), r.ToValue(goLayer))
	})
	switch {
	case o.Panic != nil:
		return lockResult{viol: &lockViolation{"go-panic-escaped", "panic:" + firstLine(fmt.Sprint(o.Panic)), fmt.Sprintf("Go panic escaped: %v\n%s", o.Panic, core.Trunc(o.PanicStack, 2500)), -2}}
	case o.Assertion != nil:
		return lockResult{viol: &lockViolation{"verif-assertion", o.Assertion.Hook, o.Assertion.Error(), len(lc.Ops) - 1}}
	case o.Fuel:
		return lockResult{inc: "fuel"}
	case o.Err != nil:
		if k := gj.ErrKind(o.Err); k == "stackoverflow" {
			return lockResult{inc: "stackoverflow"}
		}
		return lockResult{viol: &lockViolation{"harness-error", "prelude", "lock-step driver threw: " + o.Err.Error(), len(lc.Ops) - 1}}
	}
	var out lockOut
	if err := json.Unmarshal([]byte(o.Val.String()), &out); err != nil {
		return lockResult{viol: &lockViolation{"harness-error", "json", "bad record: " + err.Error(), 0}}
	}
	res := lockResult{out: &out}
	if why := gj.IdleProblem(r, false); why != "" {
		res.viol = &lockViolation{"vm-not-idle", "idle:" + why, "VM registers not idle after the sequence: " + why, len(lc.Ops) - 1}
		return res
	}
	ki := kindByName(lc.Kind)
	for _, rec := range out.Recs {
		if rec.Skip != "" {
			if st != nil {
				st.Inc("lock:ops_skipped:" + rec.Skip)
			}
			continue
		}
		a, bb := rec.A, rec.B
		opn := "<initial state>"
		var op *lockOp
		if rec.I >= 0 {
			op = &lc.Ops[rec.I]
			opn = op.Op
			res.executed++
			if st != nil {
				st.Inc("lock:op:" + opn)
				st.Inc("lock:outcome:" + outKind(a.Out))
			}
		}
		fail := func(mon, class, detail string) lockResult {
			if mon != "trap-sequence" && mon != "native-trap-variant" && (out.AuditA != "" || out.AuditB != "") {
				// the target does not agree with itself (see prelude.js audit): the divergence is the target's, not the proxy's
				au := out.AuditA
				if au == "" {
					au = out.AuditB
				}
				res.inc, res.incWhy = "target-breaks-essential-invariants", fmt.Sprintf("kind=%s after op=%s (%s): target audit: %s", lc.Kind, opJSON(op), mon, core.Trunc(au, 200))
				return res
			}
			res.viol = &lockViolation{mon, class, fmt.Sprintf("at op #%d %s: %s", rec.I, opJSON(op), detail), rec.I}
			return res
		}
		if bb.Bad != "" {
			return fail("native-trap-variant", "bad:"+opn, bb.Bad)
		}
		// a direct target whose own answers break the essential invariants (ES §6.1.7.3) cannot be mirrored by a
		// conforming proxy: not a C11 matter (C04/C07/C13 own it) — recorded, and the case ends inconclusive
		if why := a.Insane; why != "" {
			res.inc, res.incWhy = "target-breaks-essential-invariants", fmt.Sprintf("kind=%s op=%s: %s", lc.Kind, opJSON(op), why)
			return res
		}
		if op != nil {
			if why := targetSelfCheck(op, a); why != "" {
				res.inc, res.incWhy = "target-breaks-essential-invariants", fmt.Sprintf("kind=%s op=%s result %s: %s", lc.Kind, opJSON(op), a.Out, why)
				return res
			}
		}
		if a.Out != bb.Out {
			return fail("lockstep-outcome", fmt.Sprintf("%s target=%s proxy=%s", opn, outKind(a.Out), outKind(bb.Out)), fmt.Sprintf("on the target: %s; through the proxy: %s", a.Out, bb.Out))
		}
		// goja builds the message of some TypeErrors by stringifying the object (e.g. "<obj> is not a function" runs a
		// user @@toStringTag getter); the proxy path fails with another message.  The accessor log of a *throwing* op is
		// therefore not compared (by-product 11 in the inbox); results, exception class and state still are.
		if a.Log != bb.Log && !strings.HasPrefix(a.Out, "throw:") {
			return fail("lockstep-accessor-log", opn, fmt.Sprintf("accessor/call log on the target: [%s]; through the proxy: [%s]", a.Log, bb.Log))
		}
		if a.Dump != bb.Dump {
			return fail("lockstep-state", opn, "state of target/auxiliary objects differs after the op: "+firstDiff(a.Dump, bb.Dump))
		}
		if op != nil && ki.ordinary {
			if exp, ok := expectedTraps(lc, op, a.Out, bb); ok {
				res.seqChk++
				if st != nil {
					st.Inc("lock:seqcheck:" + strings.Split(opn, "/")[0])
				}
				if exp != bb.Tlog {
					return fail("trap-sequence", opn+" "+seqDiffClass(exp, bb.Tlog), fmt.Sprintf("trap calls prescribed by ES §10.5 for this op: [%s]; observed: [%s] (facts before: %+v after: %+v, result %s)", exp, bb.Tlog, *bb.Pre, *bb.Post, a.Out))
				}
			}
		}
	}
	return res
}

var valsRender = []string{"n:1", "n:2", `s:"x"`, "und", "null", "n:-0", "n:NaN", "b:true", "ov1", "fv", "n:4", `s:"7"`, "n:0", "n:1.5", "n:-1", "n:4294967296"}
var protoRender = map[string]string{"protoX": "protoX", "protoY": "protoY", "null": "null", "recvA": "recvA", "arrayProto": "%Array.prototype%",
	"fnProto": "%Function.prototype%", "objProto": "%Object.prototype%"}

func (d *ldesc) desc() proxyref.Desc {
	var r proxyref.Desc
	if d == nil {
		return r
	}
	if d.V != nil {
		r.HasValue, r.Value = true, proxyref.Val(valsRender[*d.V])
	}
	if d.W != nil {
		r.HasWritable, r.Writable = true, *d.W
	}
	if d.G != nil {
		r.HasGet, r.Get = true, proxyref.Val(*d.G)
	}
	if d.S != nil {
		r.HasSet, r.Set = true, proxyref.Val(*d.S)
	}
	if d.E != nil {
		r.HasEnumerable, r.Enumerable = true, *d.E
	}
	if d.C != nil {
		r.HasConfigurable, r.Configurable = true, *d.C
	}
	return r
}

// targetSelfCheck treats the answer the *direct* target gave to a single-internal-method op as if it were a trap
// result and asks proxyref whether ES §10.5 would reject it given the target's own state afterwards.  If so, the
// target is inconsistent with itself (or the op is one where the specification makes proxies non-transparent,
// e.g. defining an array length from a string) and a forwarding proxy must diverge.
func targetSelfCheck(op *lockOp, a *sideRec) string {
	if a.Post == nil || strings.HasPrefix(a.Out, "throw:") {
		return ""
	}
	post := a.Post
	b, isBool := boolOut(a.Out)
	var o proxyref.Outcome
	switch op.Op {
	case "get/S", "get/R":
		o = proxyref.Get(proxyref.Val(strings.TrimPrefix(a.Out, "ok:")), post.Desc.desc())
	case "set/R":
		if !isBool || len(op.A) == 0 {
			return ""
		}
		o = proxyref.Set(proxyref.Val(valsRender[op.A[0]]), b, post.Desc.desc())
	case "has/R", "has/in":
		if !isBool {
			return ""
		}
		o = proxyref.HasProperty(b, post.Desc.desc(), post.Ext)
	case "delete/R", "delete/sloppy":
		if !isBool {
			return ""
		}
		o = proxyref.Delete(b, post.Desc.desc(), post.Ext)
	case "define/R":
		if !isBool || op.D == nil {
			return ""
		}
		d := op.D.desc()
		if d.Invalid() {
			return ""
		}
		o = proxyref.DefineOwnProperty(d, b, post.Desc.desc(), post.Ext)
	case "define/O", "define/Os":
		if op.D == nil {
			return ""
		}
		d := op.D.desc()
		if d.Invalid() {
			return ""
		}
		o = proxyref.DefineOwnProperty(d, true, post.Desc.desc(), post.Ext)
	case "pe/R":
		if !isBool {
			return ""
		}
		o = proxyref.PreventExtensions(b, post.Ext)
	case "pe/O":
		o = proxyref.PreventExtensions(true, post.Ext)
	case "isExt/R", "isExt/O":
		if !isBool {
			return ""
		}
		o = proxyref.IsExtensible(b, post.Ext)
	case "setProto/R":
		pr, ok := protoRender[op.P]
		if !isBool || !ok {
			return ""
		}
		o = proxyref.SetPrototypeOf(proxyref.Val(pr), b, post.Ext, proxyref.Val(post.Proto))
	case "set/strict", "set/sloppy":
		// a completed strict assignment means [[Set]] returned true; a sloppy one tells nothing
		if op.Op == "set/strict" && len(op.A) > 0 {
			o = proxyref.Set(proxyref.Val(valsRender[op.A[0]]), true, post.Desc.desc())
		}
	}
	if o.TypeError {
		return "the target's own answer would be rejected by the proxy invariants: " + o.Why
	}
	return ""
}

func firstLine(s string) string {
	if i := strings.IndexByte(s, '\n'); i >= 0 {
		return s[:i]
	}
	return s
}

func opJSON(op *lockOp) string {
	if op == nil {
		return ""
	}
	b, _ := json.Marshal(op)
	s := string(b)
	if op.K != nil {
		s += " (key " + lockKeyNames[*op.K] + ")"
	}
	return s
}

// seqDiffClass: a stable description of how the observed trap log deviates (which trap is extra/missing first)
func seqDiffClass(exp, got string) string {
	e := strings.Split(exp, ",")
	g := strings.Split(got, ",")
	strip := func(s string) string { // "1:get:s:"a"" -> "1:get"
		p := strings.SplitN(s, ":", 3)
		if len(p) >= 2 {
			return p[0] + ":" + p[1]
		}
		return s
	}
	for i := 0; i < len(e) || i < len(g); i++ {
		var x, y string
		if i < len(e) {
			x = strip(e[i])
		}
		if i < len(g) {
			y = strip(g[i])
		}
		if x != y {
			return fmt.Sprintf("pos %d: expected %q observed %q", i, x, y)
		}
	}
	return "keys differ"
}

// ---------------------------------------------------------------------------------------------------
// trap-sequence model (ES2023 §10.5.1–10.5.11, all-forwarding handlers, n layers over an ordinary target)
// ---------------------------------------------------------------------------------------------------

type seqGen struct {
	n   int
	key string
	out []string
}

func (g *seqGen) t(i int, trap string, keyed bool) {
	s := fmt.Sprintf("%d:%s", i, trap)
	if keyed {
		s += ":" + g.key
	}
	g.out = append(g.out, s)
}

// [[IsExtensible]] of layer i (10.5.3): trap, (forward), target.[[IsExtensible]]
func (g *seqGen) isExt(i int) {
	if i >= g.n {
		return
	}
	g.t(i, "isExtensible", false)
	g.isExt(i + 1) // Reflect.isExtensible(target) inside the trap
	g.isExt(i + 1) // step 8: IsExtensible(target)
}

// [[GetPrototypeOf]] (10.5.1): trap, forward, IsExtensible(target), if non-extensible target.[[GetPrototypeOf]]
func (g *seqGen) getProto(i int, ext bool) {
	if i >= g.n {
		return
	}
	g.t(i, "getPrototypeOf", false)
	g.getProto(i+1, ext)
	g.isExt(i + 1)
	if !ext {
		g.getProto(i+1, ext)
	}
}

// [[SetPrototypeOf]] (10.5.2)
func (g *seqGen) setProto(i int, result, extAfter bool) {
	if i >= g.n {
		return
	}
	g.t(i, "setPrototypeOf", false)
	g.setProto(i+1, result, extAfter)
	if !result {
		return
	}
	g.isExt(i + 1)
	if !extAfter {
		g.getProto(i+1, extAfter)
	}
}

// [[PreventExtensions]] (10.5.4)
func (g *seqGen) preventExt(i int, result bool) {
	if i >= g.n {
		return
	}
	g.t(i, "preventExtensions", false)
	g.preventExt(i+1, result)
	if result {
		g.isExt(i + 1)
	}
}

// [[GetOwnProperty]] (10.5.5): trap, forward, target.[[GetOwnProperty]], then IsExtensible(target) unless both undefined
func (g *seqGen) gopd(i int, present bool) {
	if i >= g.n {
		return
	}
	g.t(i, "getOwnPropertyDescriptor", true)
	g.gopd(i+1, present)
	g.gopd(i+1, present)
	if present {
		g.isExt(i + 1)
	}
}

// [[DefineOwnProperty]] (10.5.6)
func (g *seqGen) define(i int, result, presentAfter bool) {
	if i >= g.n {
		return
	}
	g.t(i, "defineProperty", true)
	g.define(i+1, result, presentAfter)
	if !result {
		return
	}
	g.gopd(i+1, presentAfter)
	g.isExt(i + 1)
}

// [[HasProperty]] (10.5.7): an honest false means the target has no such own property
func (g *seqGen) has(i int, result bool) {
	if i >= g.n {
		return
	}
	g.t(i, "has", true)
	g.has(i+1, result)
	if !result {
		g.gopd(i+1, false)
	}
}

// [[Get]] (10.5.8)
func (g *seqGen) get(i int, own bool) {
	if i >= g.n {
		return
	}
	g.t(i, "get", true)
	g.get(i+1, own)
	g.gopd(i+1, own)
}

// [[Delete]] (10.5.10): after an honest true the property is gone
func (g *seqGen) del(i int, result bool) {
	if i >= g.n {
		return
	}
	g.t(i, "deleteProperty", true)
	g.del(i+1, result)
	if !result {
		return
	}
	g.gopd(i+1, false)
}

// [[Set]] (10.5.9) down to OrdinarySet on the real target (10.1.9.2) with receiver steps when the receiver is the outermost proxy
func (g *seqGen) set(i int, result bool, pre, post *seqFacts, recvIsSubject, recvIsObject bool) {
	if i >= g.n {
		switch pre.Chain {
		case "none", "dataW":
			if recvIsSubject {
				g.gopd(0, pre.Own)            // Receiver.[[GetOwnProperty]](P)
				g.define(0, result, post.Own) // Receiver.[[DefineOwnProperty]] / CreateDataProperty
			}
		}
		return
	}
	g.t(i, "set", true)
	g.set(i+1, result, pre, post, recvIsSubject, recvIsObject)
	if !result {
		return
	}
	g.gopd(i+1, post.Own)
}

func boolOut(out string) (bool, bool) {
	switch out {
	case "ok:b:true":
		return true, true
	case "ok:b:false":
		return false, true
	}
	return false, false
}

// expectedTraps returns the prescribed trap log for ops that are exactly one internal method on the subject.
func expectedTraps(lc *lockCase, op *lockOp, out string, b *sideRec) (string, bool) {
	if strings.HasPrefix(out, "throw:") || b.Pre == nil || b.Post == nil {
		// a throwing op may have been cut short anywhere; only the non-throwing shapes are modelled — except the
		// issuers that throw *because* the internal method returned false (handled below)
		if !(out == "throw:TypeError" && (op.Op == "define/O" || op.Op == "define/Os" || op.Op == "set/strict" || op.Op == "delete/strict" || op.Op == "pe/O" || op.Op == "setProto/O")) {
			return "", false
		}
	}
	g := &seqGen{n: len(lc.Handlers)}
	if op.K != nil {
		k := lockKeyNames[*op.K]
		switch {
		case strings.HasPrefix(k, "@@"):
			g.key = k
		case strings.HasPrefix(k, "@"):
			g.key = k[1:]
		default:
			q, _ := json.Marshal(k)
			g.key = "s:" + string(q)
		}
	}
	pre, post := b.Pre, b.Post
	res, isBool := boolOut(out)
	switch op.Op {
	case "get/S", "get/R", "get/Rr":
		g.get(0, pre.Own)
	case "has/in", "has/R":
		if !isBool {
			return "", false
		}
		g.has(0, res)
	case "hasOwn/p", "hasOwn/O", "hasOwn/pie", "gopd/O", "gopd/R":
		g.gopd(0, pre.Own)
	case "delete/R", "delete/sloppy":
		if !isBool {
			return "", false
		}
		g.del(0, res)
	case "delete/strict":
		g.del(0, out == "ok:b:true")
	case "define/R":
		if !isBool {
			return "", false
		}
		g.define(0, res, post.Own)
	case "define/O", "define/Os":
		// TypeError here can also come from ToPropertyDescriptor (before any trap) — only an accepted define is modelled,
		// and a rejected one when the descriptor is well-formed
		if out == "throw:TypeError" {
			if op.D == nil || ((op.D.V != nil || op.D.W != nil) && (op.D.G != nil || op.D.S != nil)) {
				return "", false
			}
			g.define(0, false, post.Own)
		} else {
			g.define(0, true, post.Own)
		}
	case "set/R", "set/Rr", "set/sloppy", "set/strict":
		recv := op.R
		if op.Op != "set/Rr" || recv == "" {
			recv = "self"
		}
		var result bool
		switch op.Op {
		case "set/R", "set/Rr":
			if !isBool {
				return "", false
			}
			result = res
		case "set/strict":
			result = out != "throw:TypeError"
		default:
			// sloppy assignment hides the boolean result of [[Set]]: accept the log prescribed for either result
			gt := &seqGen{n: g.n, key: g.key}
			gt.set(0, true, pre, post, true, true)
			gf := &seqGen{n: g.n, key: g.key}
			gf.set(0, false, pre, post, true, true)
			if st, sf := strings.Join(gt.out, ","), strings.Join(gf.out, ","); b.Tlog == sf {
				return sf, true
			} else {
				return st, true
			}
		}
		g.set(0, result, pre, post, recv == "self", recv != "prim" && recv != "null")
	case "pe/R":
		if !isBool {
			return "", false
		}
		g.preventExt(0, res)
	case "pe/O":
		g.preventExt(0, out != "throw:TypeError")
	case "isExt/O", "isExt/R":
		g.isExt(0)
	case "getProto/O", "getProto/R":
		g.getProto(0, pre.Ext)
	case "setProto/R":
		if !isBool {
			return "", false
		}
		g.setProto(0, res, post.Ext)
	case "setProto/O":
		if op.P == "prim" {
			return "", false // TypeError before any trap
		}
		g.setProto(0, out != "throw:TypeError", post.Ext)
	case "keys/R", "keys/names", "keys/symbols":
		// only the per-layer prefix: every layer's ownKeys trap runs (outermost first) before anything else
		var pfx []string
		for i := 0; i < g.n; i++ {
			pfx = append(pfx, fmt.Sprintf("%d:ownKeys", i))
		}
		want := strings.Join(pfx, ",")
		if strings.HasPrefix(b.Tlog+",", want+",") {
			return b.Tlog, true
		}
		return want + ",…", true
	default:
		return "", false
	}
	return strings.Join(g.out, ","), true
}

// ---------------------------------------------------------------------------------------------------
// minimisation
// ---------------------------------------------------------------------------------------------------

func sameFailure(a, b *lockViolation) bool {
	return a != nil && b != nil && a.monitor == b.monitor && a.class == b.class
}

func cloneCase(lc *lockCase) lockCase {
	b, _ := json.Marshal(lc)
	var c lockCase
	json.Unmarshal(b, &c)
	return c
}

var canonIssuer = map[string]string{
	"define": "define/R", "get": "get/R", "set": "set/R", "delete": "delete/R", "has": "has/R", "hasOwn": "gopd/R", "gopd": "gopd/R",
	"keys": "keys/R", "pe": "pe/R", "isExt": "isExt/R", "getProto": "getProto/R", "setProto": "setProto/R", "call": "call/R", "new": "new/R",
}

func minimiseLock(lc lockCase, v *lockViolation, budget int) (lockCase, *lockViolation) {
	try := func(cand lockCase) *lockViolation {
		if budget <= 0 {
			return nil
		}
		budget--
		r := execLock(&cand, nil)
		if r.inc != "" {
			return nil
		}
		return r.viol
	}
	cur, curV := lc, v
	// 1. drop everything after the failing op
	if curV.at >= 0 && curV.at+1 < len(cur.Ops) {
		cand := cloneCase(&cur)
		cand.Ops = cand.Ops[:curV.at+1]
		if v2 := try(cand); sameFailure(curV, v2) {
			cur, curV = cand, v2
		}
	}
	// 2. remove earlier ops one at a time (from the back), to a fixpoint
	for changed := true; changed && budget > 0; {
		changed = false
		start := len(cur.Ops) - 2
		if curV.at == -2 { // whole-run failure (panic): any op may be the culprit, the last one included
			start = len(cur.Ops) - 1
		}
		for i := start; i >= 0 && i < len(cur.Ops) && budget > 0; i-- {
			cand := cloneCase(&cur)
			cand.Ops = append(cand.Ops[:i], cand.Ops[i+1:]...)
			if v2 := try(cand); sameFailure(curV, v2) {
				cur, curV, changed = cand, v2, true
			}
		}
	}
	// 3. canonical parameters: fewer layers, JS handlers, plain target, Reflect issuers, key "a", smaller descriptors
	accept := func(cand lockCase) bool {
		if v2 := try(cand); v2 != nil && v2.monitor == curV.monitor && (v2.class == curV.class || classSansOp(v2.class) == classSansOp(curV.class)) {
			cur, curV = cand, v2
			return true
		}
		return false
	}
	for len(cur.Handlers) > 1 {
		cand := cloneCase(&cur)
		cand.Handlers = cand.Handlers[1:]
		if !accept(cand) {
			break
		}
	}
	for i := range cur.Handlers {
		if cur.Handlers[i] != "js" {
			cand := cloneCase(&cur)
			cand.Handlers[i] = "js"
			accept(cand)
		}
	}
	for _, k := range []string{"plain", "dense", "function"} {
		if cur.Kind == k {
			break // already canonical (or more canonical than the rest of the list)
		}
		cand := cloneCase(&cur)
		cand.Kind = k
		if accept(cand) {
			break
		}
	}
	for i := range cur.Ops {
		g := strings.Split(cur.Ops[i].Op, "/")[0]
		if ci, ok := canonIssuer[g]; ok && cur.Ops[i].Op != ci {
			cand := cloneCase(&cur)
			cand.Ops[i].Op = ci
			if ci != "set/Rr" && ci != "get/Rr" {
				cand.Ops[i].R = ""
			}
			accept(cand)
		}
	}
	// all ops on one key "a"
	{
		cand := cloneCase(&cur)
		ka := keyIdx("a")
		diff := false
		for i := range cand.Ops {
			if cand.Ops[i].K != nil && *cand.Ops[i].K != ka {
				k := ka
				cand.Ops[i].K = &k
				diff = true
			}
		}
		if diff {
			accept(cand)
		}
	}
	for i := range cur.Ops {
		if cur.Ops[i].D == nil {
			continue
		}
		for _, f := range []string{"e", "c", "w", "s", "g", "v"} {
			cand := cloneCase(&cur)
			d := cand.Ops[i].D
			switch f {
			case "e":
				if d.E == nil {
					continue
				}
				d.E = nil
			case "c":
				if d.C == nil {
					continue
				}
				d.C = nil
			case "w":
				if d.W == nil {
					continue
				}
				d.W = nil
			case "s":
				if d.S == nil {
					continue
				}
				d.S = nil
			case "g":
				if d.G == nil {
					continue
				}
				d.G = nil
			case "v":
				if d.V == nil {
					continue
				}
				d.V = nil
			}
			accept(cand)
		}
	}
	// normalise irrelevant operands
	{
		cand := cloneCase(&cur)
		for i := range cand.Ops {
			o := &cand.Ops[i]
			g := strings.Split(o.Op, "/")[0]
			if g != "set" && g != "call" && g != "new" && g != "am" && o.Op != "keys/assignTo" {
				o.A = nil
			}
			if g != "am" {
				o.N, o.F = nil, 0
			}
			if o.Op == "keys/R" || g == "pe" || g == "isExt" || g == "getProto" || g == "setProto" || g == "call" || g == "new" || g == "am" || o.Op == "isArray" || o.Op == "typeof" {
				o.K = nil
			}
		}
		accept(cand)
	}
	return cur, curV
}

// class text without the leading op name (so that changing the issuer keeps "the same failure")
func classSansOp(c string) string {
	if i := strings.IndexByte(c, ' '); i >= 0 {
		return c[i+1:]
	}
	return ""
}

func runLockMin(c *core.Ctx, lc lockCase) core.Result {
	st := c.Stats
	st.Inc("lock:cases")
	if c.Replay {
		b, _ := json.MarshalIndent(lc, "", " ")
		fmt.Printf("--- lock-step case ---\n%s\n", b)
	}
	res := execLock(&lc, st)
	if res.inc != "" {
		if res.incWhy != "" {
			st.Inc("lock:target_inconsistent:" + lc.Kind)
			st.SetAdd("lock_target_inconsistencies", core.Trunc(res.incWhy, 300))
		}
		return core.Result{Verdict: core.Inconclusive, Monitor: res.inc}
	}
	layers := len(lc.Handlers)
	hk := strings.Join(lc.Handlers, "+")
	st.SetAdd("lock_kind_x_handlers", lc.Kind+"/"+hk)
	st.Inc(fmt.Sprintf("lock:layers:%d", layers))
	st.Inc("lock:kind:" + lc.Kind)
	st.Count("lock:ops_executed", int64(res.executed))
	st.Count("lock:trap_sequence_checks", int64(res.seqChk))
	st.Max("lock:max_ops_executed", int64(res.executed))
	if res.out != nil {
		for _, t := range sortedKeys(res.out.Tcount) {
			st.Count("lock:trapcalls:"+t, int64(res.out.Tcount[t]))
			st.SetAdd("lock_trap_x_kind_x_layers", fmt.Sprintf("%s/%s/%d", t, lc.Kind, layers))
			for _, h := range lc.Handlers {
				st.SetAdd("lock_trap_x_handler", t+"/"+h)
			}
		}
	}
	for _, op := range lc.Ops {
		if i := strings.IndexByte(op.Op, '/'); i >= 0 {
			st.Inc("lock:issuer:" + op.Op[i+1:])
		}
	}
	nt := res.executed >= 5 && layers >= 2
	if st.WantSample() && c.Index%997 == 0 {
		st.Sample(lc)
	}
	if res.viol == nil {
		return core.Result{Verdict: core.Held, NonTrivial: nt, Key: lc.sig()}
	}
	minC, minV := minimiseLock(lc, res.viol, 200)
	if chk := execLock(&minC, nil); !sameFailure(chk.viol, minV) {
		if c.Replay {
			fmt.Printf("minimised case does not reproduce on its own (%+v); reporting the original\n", chk.viol)
		}
		minC, minV = lc, res.viol
	}
	detail := minV.detail
	if len(minC.Ops) != len(lc.Ops) || minC.Kind != lc.Kind || len(minC.Handlers) != len(lc.Handlers) {
		detail += fmt.Sprintf("\n(minimised from kind=%s handlers=%s %d ops; first seen: %s)", lc.Kind, hk, len(lc.Ops), core.Trunc(res.viol.detail, 400))
	}
	return core.Result{Verdict: core.Violated, NonTrivial: true, Key: lc.sig(), Monitor: minV.monitor,
		Detail:    minC.sig() + "\n" + detail,
		Signature: minV.monitor + " | " + minC.sig() + " | " + minV.class,
		Case:      caseRec{Part: "lockstep", Lockstep: &minC}}
}
