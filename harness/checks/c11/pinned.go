package c11

// pinned regression witnesses (run first in every tier)
type pinnedCase struct {
	Lattice  *latCase
	Lockstep *lockCase
	Revoked  *revCase
}

var pinned = []pinnedCase{}
