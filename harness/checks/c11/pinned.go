package c11

import "encoding/json"

// pinned regression witnesses (run first in every tier): inputs on which the pinned tree violated the property.
type pinnedCase struct {
	Lattice  *latCase
	Lockstep *lockCase
	Revoked  *revCase
}

func lockFromJSON(s string) *lockCase {
	var c lockCase
	if err := json.Unmarshal([]byte(s), &c); err != nil {
		panic(err)
	}
	return &c
}

// findLat picks the lattice triple with the given coordinates (panics if the enumeration no longer contains it).
func findLat(trap, key, state string, ext bool, lie, iss string, opDesc string, goH bool) *latCase {
	for i := range lattice {
		c := &lattice[i]
		s := &c.Spec
		if s.Trap != trap || c.Lie != lie || s.Op.Iss != iss || s.Ext != ext || s.Go != goH || c.StateN != state {
			continue
		}
		if (s.Key == nil) != (key == "") || (s.Key != nil && *s.Key != key) {
			continue
		}
		if opDesc != "" && (s.Op.Desc == nil || s.Op.Desc.String() != opDesc) {
			continue
		}
		return c
	}
	panic("c11: pinned lattice witness not found: " + trap + " " + state + " " + lie)
}

var pinned []pinnedCase

func buildPinned() {
	const ncAcc = "accessor(c=false,e=true,get=g1,set=und)"
	pinned = []pinnedCase{
		// ES §10.5.5/10.5.6 via IsCompatiblePropertyDescriptor on a non-configurable accessor (RECON defect: comparison inverted)
		{Lattice: findLat("getOwnPropertyDescriptor", "p", ncAcc, true, "honest", "R.gopd", "", false)},
		{Lattice: findLat("getOwnPropertyDescriptor", "p", ncAcc, true, "get:g2", "R.gopd", "", false)},
		{Lattice: findLat("defineProperty", "p", ncAcc, true, "true-without-defining", "R.define", "{get:g2}", false)},
		{Lattice: findLat("defineProperty", "p", "absent", true, "honest", "R.define", "{get:g1}", false)},
		// data/accessor kind switch on a non-configurable property accepted when Desc has no [[Configurable]]
		{Lattice: findLat("defineProperty", "p", "data(c=false,w=true,e=true)", true, "true-without-defining", "R.define", "{get:g1}", false)},
		// result descriptor rebuilt by re-reading the trap result: accessor without functions / data without value
		{Lattice: findLat("getOwnPropertyDescriptor", "p", "accessor(c=true,e=true,get=und,set=und)", true, "honest", "R.gopd", "", false)},
		{Lattice: findLat("getOwnPropertyDescriptor", "p", "data(c=true,w=true,e=true)", true, "drop:value", "R.gopd", "", false)},
		// the same through the Go ProxyTrapConfig handler and an integer key
		{Lattice: findLat("getOwnPropertyDescriptor", "3", ncAcc, true, "honest", "R.gopd", "", true)},
		// trap-call sequence: [[PreventExtensions]] called the target twice; [[Delete]] consulted the target after a false trap result
		{Lockstep: lockFromJSON(`{"kind":"plain","handlers":["js","js"],"ops":[{"op":"pe/R"}]}`)},
		{Lockstep: lockFromJSON(`{"kind":"frozen","handlers":["js","js"],"ops":[{"op":"delete/R","k":0}]}`)},
		// x instanceof <callable proxy> threw
		{Lockstep: lockFromJSON(`{"kind":"function","handlers":["js"],"ops":[{"op":"instanceof/rhs"}]}`)},
		// honest forwarding of a non-configurable accessor through two layers, Go handler outermost
		{Lockstep: lockFromJSON(`{"kind":"accessors","handlers":["go","js"],"ops":[{"op":"gopd/R","k":12},{"op":"keys/O"},{"op":"set/strict","k":12,"a":[1,0]},{"op":"freeze/O"},{"op":"gopds/O"}]}`)},
		// known finding C11-array-methods-no-has: generic Array.prototype methods never ask HasProperty (hole guard bypassed with force)
		{Lockstep: lockFromJSON(`{"kind":"dense","handlers":["js"],"ops":[{"op":"delete/R","k":7},{"op":"am/every","f":3,"force":true}]}`)},
	}
}
