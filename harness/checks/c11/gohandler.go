package c11

import (
	"strconv"

	"github.com/dop251/goja"
)

// rethrow propagates an error returned by a Callable as the JS exception it was.
func rethrow(err error) {
	panic(err)
}

func pdFromValue(v goja.Value) goja.PropertyDescriptor {
	var pd goja.PropertyDescriptor
	o, ok := v.(*goja.Object)
	if !ok {
		return pd // undefined => empty descriptor => "no such property"
	}
	pd.Value = o.Get("value")
	if x := o.Get("writable"); x != nil {
		pd.Writable = goja.ToFlag(x.ToBoolean())
	}
	pd.Getter = o.Get("get")
	pd.Setter = o.Get("set")
	if x := o.Get("enumerable"); x != nil {
		pd.Enumerable = goja.ToFlag(x.ToBoolean())
	}
	if x := o.Get("configurable"); x != nil {
		pd.Configurable = goja.ToFlag(x.ToBoolean())
	}
	return pd
}

func pdToObject(r *goja.Runtime, pd goja.PropertyDescriptor) *goja.Object {
	o := r.NewObject()
	if pd.Value != nil {
		o.Set("value", pd.Value)
	}
	if pd.Writable != goja.FLAG_NOT_SET {
		o.Set("writable", pd.Writable.Bool())
	}
	if pd.Getter != nil {
		o.Set("get", pd.Getter)
	}
	if pd.Setter != nil {
		o.Set("set", pd.Setter)
	}
	if pd.Enumerable != goja.FLAG_NOT_SET {
		o.Set("enumerable", pd.Enumerable.Bool())
	}
	if pd.Configurable != goja.FLAG_NOT_SET {
		o.Set("configurable", pd.Configurable.Bool())
	}
	return o
}

func protoVal(p *goja.Object) goja.Value {
	if p == nil {
		return goja.Null()
	}
	return p
}

func valOrUndef(v goja.Value) goja.Value {
	if v == nil {
		return goja.Undefined()
	}
	return v
}

// adaptHandler wraps a JS handler object into a Go ProxyTrapConfig: every Go trap converts its arguments to what
// the JS trap expects, calls it and converts the result to the Go trap's result type.  Only the traps present on h
// (at adaptation time) are installed.  mode "all": string, integer and symbol variants; "stronly": string variants only.
// onVariant is told which variant ("str" | "idx" | "sym" | "") was dispatched, with the key as the trap received it.
func adaptHandler(r *goja.Runtime, h *goja.Object, mode string, onVariant func(trap, variant, key string)) *goja.ProxyTrapConfig {
	has := func(name string) bool {
		_, ok := goja.AssertFunction(h.Get(name))
		return ok
	}
	call := func(name string, args ...goja.Value) goja.Value {
		fn, ok := goja.AssertFunction(h.Get(name))
		if !ok {
			panic(r.NewTypeError("c11 adapter: trap " + name + " is not callable"))
		}
		v, err := fn(h, args...)
		if err != nil {
			rethrow(err)
		}
		return valOrUndef(v)
	}
	note := func(trap, variant, key string) {
		if onVariant != nil {
			onVariant(trap, variant, key)
		}
	}
	str := func(s string) goja.Value { return r.ToValue(s) }
	idx := func(i int) goja.Value { return r.ToValue(strconv.Itoa(i)) }
	all := mode != "stronly"
	c := &goja.ProxyTrapConfig{}
	if has("getPrototypeOf") {
		c.GetPrototypeOf = func(t *goja.Object) *goja.Object {
			note("getPrototypeOf", "", "")
			v := call("getPrototypeOf", t)
			if o, ok := v.(*goja.Object); ok {
				return o
			}
			return nil
		}
	}
	if has("setPrototypeOf") {
		c.SetPrototypeOf = func(t *goja.Object, p *goja.Object) bool {
			note("setPrototypeOf", "", "")
			return call("setPrototypeOf", t, protoVal(p)).ToBoolean()
		}
	}
	if has("isExtensible") {
		c.IsExtensible = func(t *goja.Object) bool {
			note("isExtensible", "", "")
			return call("isExtensible", t).ToBoolean()
		}
	}
	if has("preventExtensions") {
		c.PreventExtensions = func(t *goja.Object) bool {
			note("preventExtensions", "", "")
			return call("preventExtensions", t).ToBoolean()
		}
	}
	if has("getOwnPropertyDescriptor") {
		const n = "getOwnPropertyDescriptor"
		c.GetOwnPropertyDescriptor = func(t *goja.Object, p string) goja.PropertyDescriptor {
			note(n, "str", p)
			return pdFromValue(call(n, t, str(p)))
		}
		if all {
			c.GetOwnPropertyDescriptorIdx = func(t *goja.Object, p int) goja.PropertyDescriptor {
				note(n, "idx", strconv.Itoa(p))
				return pdFromValue(call(n, t, idx(p)))
			}
			c.GetOwnPropertyDescriptorSym = func(t *goja.Object, p *goja.Symbol) goja.PropertyDescriptor {
				note(n, "sym", "")
				return pdFromValue(call(n, t, p))
			}
		}
	}
	if has("defineProperty") {
		const n = "defineProperty"
		c.DefineProperty = func(t *goja.Object, p string, d goja.PropertyDescriptor) bool {
			note(n, "str", p)
			return call(n, t, str(p), pdToObject(r, d)).ToBoolean()
		}
		if all {
			c.DefinePropertyIdx = func(t *goja.Object, p int, d goja.PropertyDescriptor) bool {
				note(n, "idx", strconv.Itoa(p))
				return call(n, t, idx(p), pdToObject(r, d)).ToBoolean()
			}
			c.DefinePropertySym = func(t *goja.Object, p *goja.Symbol, d goja.PropertyDescriptor) bool {
				note(n, "sym", "")
				return call(n, t, p, pdToObject(r, d)).ToBoolean()
			}
		}
	}
	if has("has") {
		const n = "has"
		c.Has = func(t *goja.Object, p string) bool { note(n, "str", p); return call(n, t, str(p)).ToBoolean() }
		if all {
			c.HasIdx = func(t *goja.Object, p int) bool {
				note(n, "idx", strconv.Itoa(p))
				return call(n, t, idx(p)).ToBoolean()
			}
			c.HasSym = func(t *goja.Object, p *goja.Symbol) bool { note(n, "sym", ""); return call(n, t, p).ToBoolean() }
		}
	}
	if has("get") {
		const n = "get"
		c.Get = func(t *goja.Object, p string, rc goja.Value) goja.Value {
			note(n, "str", p)
			return call(n, t, str(p), valOrUndef(rc))
		}
		if all {
			c.GetIdx = func(t *goja.Object, p int, rc goja.Value) goja.Value {
				note(n, "idx", strconv.Itoa(p))
				return call(n, t, idx(p), valOrUndef(rc))
			}
			c.GetSym = func(t *goja.Object, p *goja.Symbol, rc goja.Value) goja.Value {
				note(n, "sym", "")
				return call(n, t, p, valOrUndef(rc))
			}
		}
	}
	if has("set") {
		const n = "set"
		c.Set = func(t *goja.Object, p string, v, rc goja.Value) bool {
			note(n, "str", p)
			return call(n, t, str(p), valOrUndef(v), valOrUndef(rc)).ToBoolean()
		}
		if all {
			c.SetIdx = func(t *goja.Object, p int, v, rc goja.Value) bool {
				note(n, "idx", strconv.Itoa(p))
				return call(n, t, idx(p), valOrUndef(v), valOrUndef(rc)).ToBoolean()
			}
			c.SetSym = func(t *goja.Object, p *goja.Symbol, v, rc goja.Value) bool {
				note(n, "sym", "")
				return call(n, t, p, valOrUndef(v), valOrUndef(rc)).ToBoolean()
			}
		}
	}
	if has("deleteProperty") {
		const n = "deleteProperty"
		c.DeleteProperty = func(t *goja.Object, p string) bool { note(n, "str", p); return call(n, t, str(p)).ToBoolean() }
		if all {
			c.DeletePropertyIdx = func(t *goja.Object, p int) bool {
				note(n, "idx", strconv.Itoa(p))
				return call(n, t, idx(p)).ToBoolean()
			}
			c.DeletePropertySym = func(t *goja.Object, p *goja.Symbol) bool { note(n, "sym", ""); return call(n, t, p).ToBoolean() }
		}
	}
	if has("ownKeys") {
		c.OwnKeys = func(t *goja.Object) *goja.Object {
			note("ownKeys", "", "")
			v := call("ownKeys", t)
			if o, ok := v.(*goja.Object); ok {
				return o
			}
			panic(r.NewTypeError("c11 adapter: ownKeys result not expressible as *Object"))
		}
	}
	if has("apply") {
		c.Apply = func(t *goja.Object, this goja.Value, args []goja.Value) goja.Value {
			note("apply", "", "")
			return call("apply", t, valOrUndef(this), r.NewArray(valuesToIfaces(args)...))
		}
	}
	if has("construct") {
		c.Construct = func(t *goja.Object, args []goja.Value, nt *goja.Object) *goja.Object {
			note("construct", "", "")
			v := call("construct", t, r.NewArray(valuesToIfaces(args)...), protoVal(nt))
			if o, ok := v.(*goja.Object); ok {
				return o
			}
			panic(r.NewTypeError("c11 adapter: construct result not expressible as *Object"))
		}
	}
	return c
}

func valuesToIfaces(vs []goja.Value) []interface{} {
	out := make([]interface{}, len(vs))
	for i, v := range vs {
		out[i] = valOrUndef(v)
	}
	return out
}
